(* Storage-level model of the input of inference/pdf/hdi.py : sample_hdi
   (property C13, clause "any dtype accepted ... lists and arrays").

   Executable model, no proofs.  Model/Hdi.v describes sample_hdi on a list of
   exact integers.  What NumPy hands to sample_hdi is not a list of numbers but a
   block of memory plus a descriptor (dtype = kind / item size / byte order,
   offset, shape, strides); the same values have many such representations
   (little / big endian, C / Fortran order, strided, reversed, 0-stride broadcast,
   unaligned, read-only) and the code has a dtype-dependent step (the integer
   widening) before any arithmetic.  This file models

     - the memory and the descriptor, and how an element is decoded from bytes;
     - the arithmetic in which the interval widths are computed, which depends on
       the dtype after the widening step (wrapping machine integers).

   hdi.py                                              model
   ------                                              -----
   sample (ndarray): buffer, dtype, strides, offset    memory, dtype, view
   element [i, j] of the sample                        decode dt k mem (voff + i*vs0 + j*vs1)
   s = sample.copy()   (values, C order, same dtype)   gather_col  (per column)
   if s.dtype.kind in "iu" and s.dtype.itemsize < 8:   byte order plays no role;
       s = s.astype(int64)                               int8/16/32, uint8/16/32 -> int64,
                                                         int64 -> int64, uint64 -> uint64,
                                                         floats -> (exact, see below)
   widths = s[L:, :] - s[: n_samples - L, :]           widths_m : wrap a (hi - lo)
   if widths.dtype == int64:                           arith_of : an int64 difference read as
       widths = widths.view(uint64)                      uint64 = the difference modulo 2^64
                                                         (repair D53; arith_pinned is the code
                                                         before it: int64 differences compared
                                                         as signed numbers)
   i = widths.argmin(axis=0); hdi = s[i], s[i+L]       hdi_arith

   Floats: the elements are decoded from their IEEE-754 bit patterns (binary16 /
   binary32 / binary64, Flocq's binary_float_of_bits_aux) to exact dyadic numbers
   and scaled by 2^k to integers; the widths are modelled exactly.  The harness
   only generates float samples whose pairwise differences are representable in
   the sample's own float type, so that the code's rounded subtraction is exact
   on them.  (numpy.longdouble has no interchange format; such samples are
   converted by the harness and go through Model.Hdi.check_case.)

   arith_native is what the code did before the widening was introduced (and
   what it does again for any dtype that a rewritten guard fails to recognise):
   the widths are computed in the sample's own integer type.
*)
From Coq Require Import List ZArith Bool.
From Flocq Require Import IEEE754.Binary IEEE754.Bits.
From IT Require Import Model.Hdi.
Import ListNotations.
Open Scope Z_scope.

Inductive kind := KInt | KUint | KFloat.
Inductive byteorder := LittleE | BigE.
Record dtype := mkdt { dkind : kind; dsize : nat; dorder : byteorder }.

(* byte-addressed memory: address -> byte (0..255) *)
Definition memory := Z -> Z.

Definition bits_of (dt : dtype) : Z := 8 * Z.of_nat (dsize dt).

(* the bytes of the element stored at address p, least significant first *)
Definition raw_bytes (size : nat) (mem : memory) (p : Z) : list Z :=
  map (fun k => mem (p + Z.of_nat k)) (seq 0 size).

Definition elem_bytes (dt : dtype) (mem : memory) (p : Z) : list Z :=
  match dorder dt with
  | LittleE => raw_bytes (dsize dt) mem p
  | BigE => rev (raw_bytes (dsize dt) mem p)
  end.

Fixpoint le_value (bs : list Z) : Z :=
  match bs with
  | [] => 0
  | b :: t => b + 256 * le_value t
  end.

(* two's complement *)
Definition to_signed (bits u : Z) : Z :=
  if u <? 2 ^ (bits - 1) then u else u - 2 ^ bits.

(* (mantissa bits, exponent bits) of the IEEE interchange formats *)
Definition float_fields (size : nat) : option (Z * Z) :=
  match size with
  | 2%nat => Some (10, 5)
  | 4%nat => Some (23, 8)
  | 8%nat => Some (52, 11)
  | _ => None
  end.

(* m * 2^e * 2^k as an integer, if it is one *)
Definition scale_dyadic (k m e : Z) : option Z :=
  let sh := e + k in
  if 0 <=? sh then Some (m * 2 ^ sh)
  else if m mod 2 ^ (- sh) =? 0 then Some (m / 2 ^ (- sh)) else None.

Definition decode_float (mw ew k bits : Z) : option Z :=
  match binary_float_of_bits_aux mw ew bits with
  | F754_zero _ => Some 0
  | F754_finite s m e => scale_dyadic k (if s then Zneg m else Zpos m) e
  | _ => None
  end.

(* value (times 2^k for floats; integers are not scaled) of the element at p *)
Definition decode (dt : dtype) (k : Z) (mem : memory) (p : Z) : option Z :=
  let u := le_value (elem_bytes dt mem p) in
  match dkind dt with
  | KUint => Some u
  | KInt => Some (to_signed (bits_of dt) u)
  | KFloat =>
      match float_fields (dsize dt) with
      | Some (mw, ew) => decode_float mw ew k u
      | None => None
      end
  end.

(* ---- strided views -------------------------------------------------- *)
Record view := mkview { voff : Z; vrows : nat; vcols : nat; vs0 : Z; vs1 : Z }.

Definition addr (v : view) (i j : nat) : Z :=
  voff v + Z.of_nat i * vs0 v + Z.of_nat j * vs1 v.

Fixpoint sequence {A} (l : list (option A)) : option (list A) :=
  match l with
  | [] => Some []
  | None :: _ => None
  | Some x :: t => match sequence t with Some r => Some (x :: r) | None => None end
  end.

Definition gather_col (dt : dtype) (k : Z) (mem : memory) (v : view) (j : nat)
  : option (list Z) :=
  sequence (map (fun i => decode dt k mem (addr v i j)) (seq 0 (vrows v))).

(* ---- the arithmetic of the widths ----------------------------------- *)
Inductive arith := Exact | Signed (bits : Z) | Unsigned (bits : Z).

Definition wrap (a : arith) (x : Z) : Z :=
  match a with
  | Exact => x
  | Unsigned b => x mod 2 ^ b
  | Signed b => to_signed b (x mod 2 ^ b)
  end.

(* hdi.py: narrow integers are widened to int64 whatever their byte order; the int64
   differences are then read as unsigned 64-bit numbers *)
Definition arith_of (dt : dtype) : arith :=
  match dkind dt with
  | KFloat => Exact
  | KInt | KUint => Unsigned 64
  end.

(* the code before repair D53: int64 differences compared as signed numbers *)
Definition arith_pinned (dt : dtype) : arith :=
  match dkind dt with
  | KFloat => Exact
  | KInt => Signed 64
  | KUint => if (dsize dt <? 8)%nat then Signed 64 else Unsigned 64
  end.

(* no widening: the widths are computed in the sample's own type *)
Definition arith_native (dt : dtype) : arith :=
  match dkind dt with
  | KFloat => Exact
  | KInt => Signed (bits_of dt)
  | KUint => Unsigned (bits_of dt)
  end.

Definition widths_m (a : arith) (s : list Z) (L : nat) : list Z :=
  map (wrap a) (widths s L).

Definition hdi_arith (a : arith) (sample : list Z) (L : nat) : Z * Z :=
  let s := ZSort.sort sample in
  if (L <? length s)%nat then
    let i := argmin (widths_m a s L) in (nth i s 0, nth (i + L) s 0)
  else (hd 0 s, last s 0).

Definition hdi_machine (dt : dtype) : list Z -> nat -> Z * Z :=
  hdi_arith (arith_of dt).

(* sample_hdi on a block of memory with a descriptor: one interval per column *)
Definition hdi_storage (dt : dtype) (k : Z) (mem : memory) (v : view) (L : nat)
  : option (list (Z * Z)) :=
  sequence (map (fun j => option_map (fun xs => hdi_machine dt xs L)
                                     (gather_col dt k mem v j))
                (seq 0 (vcols v))).

(* the values a dtype can hold *)
Definition in_range (dt : dtype) (x : Z) : Prop :=
  match dkind dt with
  | KInt => - 2 ^ (bits_of dt - 1) <= x < 2 ^ (bits_of dt - 1)
  | KUint => 0 <= x < 2 ^ bits_of dt
  | KFloat => True
  end.

(* where the code before D53 (arith_pinned) is right: the only integer type that is not
   widened, int64, must not span 2^63 or more *)
Definition span_ok (dt : dtype) (xs : list Z) : Prop :=
  dkind dt = KInt -> dsize dt = 8%nat ->
  forall x y, In x xs -> In y xs -> y - x < 2 ^ 63.

(* ---- how NumPy stores an integer (used to state the round trip) ------ *)
Fixpoint le_bytes (n : nat) (u : Z) : list Z :=
  match n with
  | O => []
  | S n' => (u mod 256) :: le_bytes n' (u / 256)
  end.

Definition encode_int (dt : dtype) (x : Z) : list Z :=
  let bs := le_bytes (dsize dt) (x mod 2 ^ bits_of dt) in
  match dorder dt with LittleE => bs | BigE => rev bs end.

Definition stores (mem : memory) (p : Z) (bs : list Z) : Prop :=
  forall k, (k < length bs)%nat -> mem (p + Z.of_nat k) = nth k bs 0.

(* ---- correspondence interface --------------------------------------- *)
(* the whole buffer as one little-endian number (hex literal in the case files) *)
Definition mem_of_Z (z : Z) : memory :=
  fun p => if p <? 0 then 0 else Z.land (Z.shiftr z (8 * p)) 255.

(* a long buffer: 32-byte little-endian words *)
Definition mem_of_words (ws : list Z) : memory :=
  fun p => if p <? 0 then 0
           else Z.land (Z.shiftr (nth (Z.to_nat (p / 32)) ws 0) (8 * (p mod 32))) 255.

Definition dtype_of_code (c : Z * Z * Z) : dtype :=
  let '(kd, size, ord) := c in
  mkdt (if kd =? 0 then KInt else if kd =? 1 then KUint else KFloat)
       (Z.to_nat size) (if ord =? 0 then LittleE else BigE).

Fixpoint pairs_eqb (l1 l2 : list (Z * Z)) : bool :=
  match l1, l2 with
  | [], [] => true
  | p :: t1, q :: t2 => pair_eqb p q && pairs_eqb t1 t2
  | _, _ => false
  end.

(* one case: buffer (32-byte words), (kind, item size, byte order), (offset, rows, columns,
   stride0, stride1) in bytes, scale exponent k, L as computed by the code,
   observed (lo, hi) * 2^k per column *)
Definition storage_case : Type :=
  (list Z * (Z * Z * Z) * (Z * nat * nat * Z * Z) * Z * nat * list (Z * Z))%type.

Definition check_storage_with (ar : dtype -> arith) (c : storage_case) : bool :=
  let '(buf, code, (off, rows, cols, s0, s1), k, L, obs) := c in
  let dt := dtype_of_code code in
  let v := mkview off rows cols s0 s1 in
  match sequence (map (fun j => option_map (fun xs => hdi_arith (ar dt) xs L)
                                           (gather_col dt k (mem_of_words buf) v j))
                      (seq 0 cols)) with
  | Some res => pairs_eqb res obs
  | None => false
  end.

Definition check_storage (c : storage_case) : bool :=
  let '(buf, code, (off, rows, cols, s0, s1), k, L, obs) := c in
  match hdi_storage (dtype_of_code code) k (mem_of_words buf)
                    (mkview off rows cols s0 s1) L with
  | Some res => pairs_eqb res obs
  | None => false
  end.

(* the same with the widths in the arithmetic of the code before repair D53, and in the
   sample's own type (used by the harness to label a disagreement, never to accept one) *)
Definition check_storage_pinned : storage_case -> bool := check_storage_with arith_pinned.
Definition check_storage_native : storage_case -> bool := check_storage_with arith_native.
