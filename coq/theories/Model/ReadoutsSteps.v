(* How the stored history of a sampler grows, one call of take_step / advance at a
   time, when a call can be interrupted by an exception raised from inside the
   posterior (or its gradient) -- the histories on which the read-outs of
   Model/Readouts.v are taken (property C14).

   Executable model, no proofs.  Values are integers: the harness maps every
   double of the real chain to an integer by an order-preserving injection (the
   read-outs only move and sort values, they never compute with them).

   code                                                        model
   ----                                                        -----
   params[i].samples, probs / theta, probs /                   store = (data, probs): data is one list per
   sample, sample_probs                                        parameter (ColMajor) or one vector per stored
                                                               row (RowMajor), as in Model/Readouts.v
   a call of self.posterior(...) or self.grad(...)             Eval   (the only places where user code runs, i.e.
                                                                       where an exception / Ctrl-C can surface
                                                                       in the middle of a step)
   p.add_sample(v) on params[i]        gibbs.py:178            PushCol i v
   self.theta.append(t)                hmc/__init__.py:159     PushRow t
   concatenate([self.sample, walker_positions])
                                       ensemble.py:220-224,252    PushRow r for every row r of the block
   self.probs.append(p) / concatenate([self.sample_probs, ..]) PushProb p

   MetropolisChain.take_step  gibbs.py:303-323    proposals + posterior calls until one is accepted, then
                                                  add_sample for every parameter, then probs.append
   GibbsChain.take_step       gibbs.py:643-672    for every parameter: proposals + posterior calls until one
                                                  is accepted; after the loop over the parameters: add_sample
                                                  for every parameter, then probs.append
   PcaChain.take_step         pca.py:152-185      same shape along the principal directions
   HamiltonianChain.take_step hmc/__init__.py:127-162   attempts (gradient calls of the leapfrog, one posterior
                                                  call) until one is accepted, then theta.append, probs.append
   EnsembleSampler.take_step  ensemble.py:211-225 one posterior call per proposal of every walker, then the
                                                  walker block is concatenated onto sample / sample_probs
   EnsembleSampler.advance(m) ensemble.py:227-254 all m iterations first (blocks kept in local lists), ONE
                                                  concatenate at the very end
   All of them:   step_prog lay s = repeat Eval (s_evals s) ++ commit lay (s_rows s) (s_probs s)
                  -- every evaluation comes before the first write to the store.
   MarkovChain.advance(m)     base.py:31-46       m calls of take_step: m steps of the history

   run k prog st        executes prog on st; k = 0: to the end; k >= 1: the k-th Eval raises and
                        nothing after it is executed
   trace lay k prog st  the shape of the store as seen by every executed Eval (incl. the raising one):
                        what the harness observes from inside the real posterior

   gibbs_interleaved_prog   NOT the pinned code: the variant that stores each parameter's new value
                        straight after that parameter's own update (kept for the counterexample
                        C14_nonatomic_step_refuted: the ordering "all evaluations first" is necessary)
*)
From Coq Require Import List ZArith Bool Arith.
From IT Require Import Model.Readouts.
Import ListNotations.

Definition store := (list (list Z) * list Z)%type.

Inductive op :=
| Eval
| PushCol (i : nat) (v : Z)
| PushRow (r : list Z)
| PushProb (p : Z).

(* params[i].samples.append(v) *)
Fixpoint push_col (i : nat) (v : Z) (data : list (list Z)) : list (list Z) :=
  match data with
  | [] => []
  | c :: t => match i with
              | O => (c ++ [v]) :: t
              | S i' => c :: push_col i' v t
              end
  end.

Definition exec_op (o : op) (st : store) : store :=
  match o with
  | Eval => st
  | PushCol i v => (push_col i v (fst st), snd st)
  | PushRow r => (fst st ++ [r], snd st)
  | PushProb p => (fst st, snd st ++ [p])
  end.

Definition exec_all (ops : list op) (st : store) : store :=
  fold_left (fun s o => exec_op o s) ops st.

Definition is_eval (o : op) : bool := match o with Eval => true | _ => false end.

(* k = 0: run to the end.  k >= 1: the k-th Eval raises. *)
Fixpoint run (k : nat) (prog : list op) (st : store) : store :=
  match prog with
  | [] => st
  | Eval :: t => match k with
                 | O => run O t st
                 | S O => st
                 | S k' => run k' t st
                 end
  | o :: t => run k t (exec_op o st)
  end.

(* shape of the store: the lengths of the parameter lists (ColMajor) or the number
   of stored rows (RowMajor), and the number of stored log-probabilities *)
Definition shape := (list nat * nat)%type.

Definition shape_of (lay : layout) (st : store) : shape :=
  (match lay with
   | ColMajor => map (@length Z) (fst st)
   | RowMajor => [length (fst st)]
   end, length (snd st)).

Fixpoint trace (lay : layout) (k : nat) (prog : list op) (st : store) : list shape :=
  match prog with
  | [] => []
  | Eval :: t => shape_of lay st ::
                 match k with
                 | O => trace lay O t st
                 | S O => []
                 | S k' => trace lay k' t st
                 end
  | o :: t => trace lay k t (exec_op o st)
  end.

(* the writes that end a step *)
Fixpoint push_cols (i : nat) (r : list Z) : list op :=
  match r with
  | [] => []
  | v :: t => PushCol i v :: push_cols (S i) t
  end.

Definition commit_one (rp : list Z * Z) : list op := push_cols 0 (fst rp) ++ [PushProb (snd rp)].

Definition commit (lay : layout) (rows : list (list Z)) (ps : list Z) : list op :=
  match lay with
  | ColMajor => flat_map commit_one (combine rows ps)
  | RowMajor => map PushRow rows ++ map PushProb ps
  end.

(* one call of take_step (or of EnsembleSampler.advance): s_evals evaluations of user
   code, then the rows and log-probabilities it stores; s_crash = 0, or the number of
   the evaluation that raises *)
Record step := mkStep { s_evals : nat; s_rows : list (list Z); s_probs : list Z; s_crash : nat }.

Definition step_prog (lay : layout) (s : step) : list op :=
  repeat Eval (s_evals s) ++ commit lay (s_rows s) (s_probs s).

Definition run_step (lay : layout) (st : store) (s : step) : store :=
  run (s_crash s) (step_prog lay s) st.

Definition run_history (lay : layout) (steps : list step) (st : store) : store :=
  fold_left (run_step lay) steps st.

(* the call returned normally *)
Definition completed (s : step) : bool := (s_crash s =? 0) || (s_evals s <? s_crash s).

Definition completed_rows (steps : list step) : list (list Z) :=
  flat_map s_rows (filter completed steps).
Definition completed_probs (steps : list step) : list Z :=
  flat_map s_probs (filter completed steps).

(* every stored row has one entry per parameter and comes with its log-probability *)
Definition step_ok (npar : nat) (s : step) : Prop :=
  length (s_rows s) = length (s_probs s) /\ Forall (fun r => length r = npar) (s_rows s).

(* the full chain as a list of rows *)
Definition all_rows (lay : layout) (data : list (list Z)) (n : nat) : list (list Z) :=
  match lay with
  | ColMajor => transpose n data
  | RowMajor => data
  end.

(* ---- not the pinned code: each parameter's value stored inside the update loop *)
Fixpoint interleaved (i : nat) (es : list nat) (r : list Z) : list op :=
  match es, r with
  | e :: es', v :: r' => repeat Eval e ++ PushCol i v :: interleaved (S i) es' r'
  | _, _ => []
  end.

Definition gibbs_interleaved_prog (es : list nat) (r : list Z) (p : Z) : list op :=
  interleaved 0 es r ++ [PushProb p].

(* ---------------------------------------------------------------- correspondence interface *)
Definition shape_eqb (a b : shape) : bool :=
  list_eqb Nat.eqb (fst a) (fst b) && Nat.eqb (snd a) (snd b).

(* a stretch of calls (each with the store shapes observed from inside its evaluations),
   followed by read-out queries on the chain as it then is *)
Definition segment := (list (step * list shape) * list (query * list ndarray))%type.

(* a real sampler: its store after construction, then segments *)
Definition hcase := (sampler * nat * store * list segment)%type.

Fixpoint check_steps (lay : layout) (st : store) (sos : list (step * list shape)) : bool * store :=
  match sos with
  | [] => (true, st)
  | so :: t =>
      let s := fst so in
      let b := list_eqb shape_eqb (trace lay (s_crash s) (step_prog lay s) st) (snd so) in
      let r := check_steps lay (run_step lay st s) t in
      (b && fst r, snd r)
  end.

(* failures of a case: segment * 1000 + index of the failing query; 999 = the observed
   store shapes of the segment's calls are not those of the model *)
Fixpoint hcase_failures_from (s : sampler) (npar : nat) (st : store) (segs : list segment) (i : nat)
  : list nat :=
  match segs with
  | [] => []
  | seg :: t =>
      let r := check_steps (layout_of s) st (fst seg) in
      let st' := snd r in
      (if fst r then [] else [i * 1000 + 999]) ++
      map (fun j => i * 1000 + j) (failing (check_query s npar (fst st') (snd st')) (snd seg) 0) ++
      hcase_failures_from s npar st' t (S i)
  end.

Definition hcase_failures (c : hcase) : list nat :=
  let '(s, npar, st, segs) := c in hcase_failures_from s npar st segs 0.

Definition check_hcase (c : hcase) : bool :=
  match hcase_failures c with [] => true | _ => false end.
