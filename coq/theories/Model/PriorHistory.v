(* Executable model of CALL HISTORIES on prior / posterior objects (property C06): which
   array OBJECT each method of inference/priors.py, inference/posterior.py hands to its
   caller, and what every array the caller still holds contains after later calls and after
   the caller's own in-place updates.  No proofs here.

   The caller's memory is a heap of arrays (address = position; NumPy arrays are mutable
   objects passed and returned by reference).  A history is a list of
     HNew a       the caller creates an array (a parameter vector) and keeps it
     HCall m k    r = obj.m(held[k]) ; the caller keeps r (the very object returned, no copy)
     HAdd k v     held[k] += v, in place  (an optimiser stepping its x; a caller accumulating
                  into a gradient it was given)
     HValue k     obj(held[k]) / obj.cost(held[k]) : a number is returned, no array changes hands
   and at the end the caller reads every array it holds.

   priors.py / posterior.py                                   model
   ------------------------                                   -----
   JointPrior.gradient 209-214  grad = zeros(n)               jp_gradient_h : alloc (repeat 0 n), then
        for c: grad[c.variables] = c.gradient(theta)            per merged component: the component's own
        return grad                                             call (fresh array) is copied into the slice
   GaussianPrior.gradient 285 (mean-t)*inv_sigma**2           comp_gradient_h : alloc (arithmetic / where
   ExponentialPrior.gradient 368 where(t>=0,-lam,0)             / .copy() all create a new array)
   UniformPrior.gradient 466 self.grad.copy()  (D26 repaired)
   BasePrior.cost_gradient 95  -self.gradient(theta)          neg_h after the gradient call (unary minus
                                                                creates a new array)
   JointPrior.sample 223-227 sample = zeros(n); for c:        jp_sample_h (the component's draw is a fresh
        sample[c.variables] = c.sample()                        array, copied into the slice)
   *.sample 292,375,468  rng.normal / exponential / uniform   comp_sample_h : alloc
   Posterior.gradient 47  likelihood.gradient(theta)          post_gradient_h : the likelihood's array (fresh,
        + prior.gradient(theta)                                 value supplied by the run), the prior's, and
                                                                `+` creates a third
   Posterior.cost_gradient 76  -( ... + ... )                 neg_h after it
   no method writes to theta                                  no hwrite to the argument's address

   `prior_call_shared` is NOT the code: it is what a JointPrior that re-used one gradient buffer
   (allocated in __init__) would do; it is here only so that Properties/C06History.v can show the
   history theorem tells the two apart. *)
From Coq Require Import List QArith Qabs ZArith Bool Arith.
From IT Require Import Model.JointPrior.
Import ListNotations.

(* ---------- the heap ---------- *)
Definition heap := list (list Q).

Definition hread (h : heap) (p : nat) : list Q := nth p h [].
Definition hwrite (h : heap) (p : nat) (a : list Q) : heap := upd h p a.
Definition alloc (h : heap) (a : list Q) : heap * nat := (h ++ [a], length h).

(* ---------- the objects and their methods ---------- *)
Inductive obj :=
| OComp (c : comp)                          (* a stand-alone Gaussian / Exponential / Uniform prior *)
| OJoint (comps : list comp) (n : nat).     (* JointPrior(components, n_variables) *)

Inductive meth :=
| MGrad                                     (* prior.gradient(theta) *)
| MCostGrad                                 (* prior.cost_gradient(theta) *)
| MSample (script : list Q)                 (* prior.sample(), the generator hands out `script` *)
| MPostGrad (lg : list Q)                   (* Posterior(like, prior).gradient(theta), like.gradient(theta) = lg *)
| MPostCostGrad (lg : list Q).              (* Posterior(like, prior).cost_gradient(theta) *)

(* what the methods compute (function level; Model/JointPrior.v) *)
Definition prior_grad (o : obj) (theta : list Q) : list Q :=
  match o with
  | OComp c => comp_grad c theta
  | OJoint comps n => joint_grad comps n theta
  end.

Definition prior_sample (o : obj) (script : list Q) : list Q :=
  match o with
  | OComp c => comp_sample c script
  | OJoint comps n => joint_sample comps n script
  end.

Definition meth_result (o : obj) (m : meth) (theta : list Q) : list Q :=
  match m with
  | MGrad => prior_grad o theta
  | MCostGrad => map Qopp (prior_grad o theta)
  | MSample script => prior_sample o script
  | MPostGrad lg => zip2 Qplus lg (prior_grad o theta)
  | MPostCostGrad lg => map Qopp (zip2 Qplus lg (prior_grad o theta))
  end.

(* ---------- the methods on the heap, as the code allocates ---------- *)
(* c.gradient(theta) : a new array *)
Definition comp_gradient_h (c : comp) (tp : nat) (h : heap) : heap * nat :=
  alloc h (comp_grad c (hread h tp)).

(* the loop of JointPrior.gradient: grad (address p) receives each component's values *)
Fixpoint jp_grad_loop (cs : list comp) (tp p : nat) (h : heap) : heap :=
  match cs with
  | [] => h
  | c :: cs' =>
      let '(h1, q) := comp_gradient_h c tp h in
      jp_grad_loop cs' tp p (hwrite h1 p (scatter (hread h1 p) (cvars c) (hread h1 q)))
  end.

Definition jp_gradient_h (comps : list comp) (n : nat) (tp : nat) (h : heap) : heap * nat :=
  let '(h1, p) := alloc h (repeat 0%Q n) in
  (jp_grad_loop (merged comps) tp p h1, p).

Definition prior_gradient_h (o : obj) (tp : nat) (h : heap) : heap * nat :=
  match o with
  | OComp c => comp_gradient_h c tp h
  | OJoint comps n => jp_gradient_h comps n tp h
  end.

(* unary minus : a new array *)
Definition neg_h (r : heap * nat) : heap * nat :=
  let '(h, p) := r in alloc h (map Qopp (hread h p)).

Definition comp_sample_h (c : comp) (draws : list Q) (h : heap) : heap * nat :=
  alloc h (comp_sample c draws).

Fixpoint jp_sample_loop (cs : list comp) (script : list Q) (p : nat) (h : heap) : heap :=
  match cs with
  | [] => h
  | c :: cs' =>
      let k := length (cpar1 c) in
      let '(h1, q) := comp_sample_h c (firstn k script) h in
      jp_sample_loop cs' (skipn k script) p (hwrite h1 p (scatter (hread h1 p) (cvars c) (hread h1 q)))
  end.

Definition jp_sample_h (comps : list comp) (n : nat) (script : list Q) (h : heap) : heap * nat :=
  let '(h1, p) := alloc h (repeat 0%Q n) in
  (jp_sample_loop (merged comps) script p h1, p).

Definition prior_sample_h (o : obj) (script : list Q) (h : heap) : heap * nat :=
  match o with
  | OComp c => comp_sample_h c script h
  | OJoint comps n => jp_sample_h comps n script h
  end.

(* likelihood.gradient(theta) + prior.gradient(theta) : three new arrays *)
Definition post_gradient_h (o : obj) (lg : list Q) (tp : nat) (h : heap) : heap * nat :=
  let '(h1, a) := alloc h lg in
  let '(h2, b) := prior_gradient_h o tp h1 in
  alloc h2 (zip2 Qplus (hread h2 a) (hread h2 b)).

Definition meth_call (o : obj) (m : meth) (tp : nat) (h : heap) : heap * nat :=
  match m with
  | MGrad => prior_gradient_h o tp h
  | MCostGrad => neg_h (prior_gradient_h o tp h)
  | MSample script => prior_sample_h o script h
  | MPostGrad lg => post_gradient_h o lg tp h
  | MPostCostGrad lg => neg_h (post_gradient_h o lg tp h)
  end.

(* ---------- histories ---------- *)
Inductive hop :=
| HNew (a : list Q)
| HCall (m : meth) (k : nat)
| HAdd (k : nat) (adds : list Q)
| HValue (k : nat).

(* does the operation hand the caller a new array to hold *)
Definition produces (o : hop) : bool :=
  match o with HNew _ | HCall _ _ => true | _ => false end.

(* every index refers to an array the caller already holds *)
Fixpoint ops_ok (nheld : nat) (ops : list hop) : bool :=
  match ops with
  | [] => true
  | HNew _ :: t => ops_ok (S nheld) t
  | HCall _ k :: t => (k <? nheld) && ops_ok (S nheld) t
  | HAdd k _ :: t => (k <? nheld) && ops_ok nheld t
  | HValue k :: t => (k <? nheld) && ops_ok nheld t
  end.

(* function-level reading of a history: the caller's arrays are VALUES, every call is a
   function of the contents of its argument at the time of the call, and nothing but the
   caller's own HAdd ever changes an array it holds *)
Definition spec_step (res : meth -> list Q -> list Q) (held : list (list Q)) (o : hop) : list (list Q) :=
  match o with
  | HNew a => held ++ [a]
  | HCall m k => held ++ [res m (nth k held [])]
  | HAdd k adds => upd held k (zip2 Qplus (nth k held []) adds)
  | HValue _ => held
  end.

Definition spec_run (res : meth -> list Q -> list Q) (ops : list hop) : list (list Q) :=
  fold_left (spec_step res) ops [].

(* heap-level reading: the caller holds ADDRESSES *)
Definition heap_step (call : meth -> nat -> heap -> heap * nat) (s : heap * list nat) (o : hop)
  : heap * list nat :=
  let '(h, held) := s in
  match o with
  | HNew a => let '(h1, p) := alloc h a in (h1, held ++ [p])
  | HCall m k => let '(h1, p) := call m (nth k held 0%nat) h in (h1, held ++ [p])
  | HAdd k adds =>
      let p := nth k held 0%nat in
      (hwrite h p (zip2 Qplus (hread h p) adds), held)
  | HValue _ => (h, held)
  end.

Definition heap_run (call : meth -> nat -> heap -> heap * nat) (h0 : heap) (ops : list hop)
  : heap * list nat :=
  fold_left (heap_step call) ops (h0, []).

(* what the caller reads at the end from the arrays it holds *)
Definition read_held (s : heap * list nat) : list (list Q) := map (hread (fst s)) (snd s).

Definition history_final (o : obj) (ops : list hop) : list (list Q) :=
  read_held (heap_run (meth_call o) [] ops).

(* ---------- NOT the code: one gradient buffer, allocated by the constructor at address 0,
   filled and returned by every JointPrior.gradient call ---------- *)
Definition jp_gradient_shared (comps : list comp) (tp : nat) (h : heap) : heap * nat :=
  (jp_grad_loop (merged comps) tp 0%nat h, 0%nat).

Definition shared_call (comps : list comp) (n : nat) (m : meth) (tp : nat) (h : heap) : heap * nat :=
  match m with
  | MGrad => jp_gradient_shared comps tp h
  | MCostGrad => neg_h (jp_gradient_shared comps tp h)
  | _ => meth_call (OJoint comps n) m tp h
  end.

Definition shared_final (comps : list comp) (n : nat) (ops : list hop) : list (list Q) :=
  read_held (heap_run (shared_call comps n) [repeat 0%Q n] ops).

(* ---------- correspondence interface ---------- *)
Definition Qabs_close (tol a b : Q) : bool := Qle_bool (Qabs (a - b)) tol.

Definition Qlist_abs_close (tol : Q) (a b : list Q) : bool :=
  Nat.eqb (length a) (length b) && forallb (fun b => b) (zip2 (Qabs_close tol) a b).

Definition arrays_agree (tol : Q) (a b : list (list Q)) : bool :=
  Nat.eqb (length a) (length b) &&
  forallb (fun b => b)
          (zip2 (fun x y => if Qeq_bool tol 0 then Qlist_eqb x y else Qlist_abs_close tol x y) a b).

(* one history: the object, the operations, every array the caller holds as re-read after the
   last operation, absolute tolerance (0 : exact) *)
Record hcase := mkHist { hc_obj : obj; hc_ops : list hop; hc_final : list (list Q); hc_tol : Q }.

Definition check_hcase (c : hcase) : bool :=
  ops_ok 0 (hc_ops c) && arrays_agree (hc_tol c) (history_final (hc_obj c) (hc_ops c)) (hc_final c).

(* which of the held arrays differ (for the report) *)
Definition diagnose_hcase (c : hcase) : list nat :=
  let m := history_final (hc_obj c) (hc_ops c) in
  failing (fun xy : list Q * list Q =>
             if Qeq_bool (hc_tol c) 0 then Qlist_eqb (fst xy) (snd xy)
             else Qlist_abs_close (hc_tol c) (fst xy) (snd xy))
          (combine m (hc_final c)) 0.
