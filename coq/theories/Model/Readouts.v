(* Model of the burn / thin / interval read-outs of the MCMC samplers (property C14).

   Executable model, no proofs.  Sample values and log-probabilities are
   integers (the correspondence injects integer-valued histories; the read-outs
   only move values around, they never compute with them).

   code                                                      model
   ----                                                      -----
   l[burn::thin]  (python list / ndarray slice, thin >= 1)   slice burn thin l
   gibbs.py:333   array(self.params[index].samples[burn::thin])        col_get_parameter
   gibbs.py:351   array(self.probs[burn::thin])                        get_probabilities
   gibbs.py:368   array([p.samples[burn::thin] for p in params]).T     col_get_sample (transpose)
        (GibbsChain and PcaChain inherit all three from MetropolisChain: "column-major"
         history, one list per parameter)
   hmc/__init__.py:243  array([v[index] for v in self.theta[burn::thin]]).squeeze()
                                                             row_get_parameter       (repaired: no squeeze, D25)
                                                             hmc_get_parameter_shape_pinned (the squeeze)
   hmc/__init__.py:377  array(self.probs[burn::thin])        get_probabilities
   hmc/__init__.py:394  array(self.theta[burn::thin])        row_get_sample          (repaired: always (n, n_parameters), D28)
                                                             hmc_get_sample_shape_pinned  ((0,) when nothing is left)
   ensemble.py:318 self.sample[burn::thin, index]            row_get_parameter
   ensemble.py:336 self.sample_probs[burn::thin]             get_probabilities
   ensemble.py:353 self.sample[burn::thin, :]                row_get_sample
        (HamiltonianChain and EnsembleSampler: "row-major" history, one vector per step)
   base.py:104-107 GaussianKDE / UnimodalPdf (get_parameter(index, burn, thin))   marginal_input
   base.py:136-162 get_interval                               get_interval  (repaired, D20)
                                                              get_interval_pinned (the `.sort()` that returns None)
       probs = self.get_probabilities(burn=burn)              probs0
       thin = max(probs.size // samples, 1)                   interval_thin
       sample = self.get_sample(burn, thin); probs[::thin]    sample, probs
       sorter = probs.argsort(); sample[sorter,:]; probs[sorter]   sort_by_prob (combine probs sample)
       cutoff = int(probs.size * (1 - interval))              argument `cutoff` (a float product: the harness
                                                              computes it with the same expression and checks it
                                                              against floor(n (1-f)) in exact arithmetic)
       sample[cutoff:, :]; probs[cutoff:]                     skipn cutoff
       n_trim = probs.size - samples; if n_trim > 0:          subselect
         permutation(probs.size)[n_trim:] sorted              sort_nat (skipn n_trim perm), perm = the scripted permutation
         sample[subsample, :]; probs[subsample]               gather
   numpy argsort is only determined up to the order of equal keys; the model
   uses a stable merge sort, the theorems hold for it, and the correspondence
   uses distinct log-probabilities.
*)
From Coq Require Import List ZArith Bool Arith Orders Sorting.Mergesort.
Import ListNotations.

Set Implicit Arguments.

(* ---------------------------------------------------------------- slices *)
Section Slice.
  Variable A : Type.

  (* walk the list; k = how many entries to drop before the next one is kept *)
  Fixpoint take_every (thin k : nat) (l : list A) : list A :=
    match l with
    | [] => []
    | x :: t => match k with
                | O => x :: take_every thin (thin - 1) t
                | S k' => take_every thin k' t
                end
    end.

  (* l[burn::thin] *)
  Definition slice (burn thin : nat) (l : list A) : list A :=
    take_every thin 0 (skipn burn l).

  (* fancy indexing a[idx] *)
  Definition gather (d : A) (idx : list nat) (l : list A) : list A :=
    map (fun i => nth i l d) idx.
End Slice.

(* number of entries of l[burn::thin] as Python computes it *)
Definition slice_len (n burn thin : nat) : nat := (n - burn + (thin - 1)) / thin.

(* ---------------------------------------------------------------- histories *)
Notation row := (list Z) (only parsing).

(* column i of a list of rows *)
Definition column (i : nat) (rows : list row) : list Z := map (fun v => nth i v 0%Z) rows.

(* rows of a column-major table with n rows *)
Definition transpose (n : nat) (cols : list (list Z)) : list row :=
  map (fun k => map (fun c => nth k c 0%Z) cols) (seq 0 n).

(* number of rows of a column-major table: all columns have the same length *)
Definition col_rows (cols : list (list Z)) : nat :=
  match cols with [] => 0 | c :: _ => length c end.

(* MetropolisChain / GibbsChain / PcaChain: params[i].samples, probs *)
Definition col_get_parameter (params : list (list Z)) (i burn thin : nat) : list Z :=
  slice burn thin (nth i params []).

Definition col_get_sample (params : list (list Z)) (burn thin : nat) : list row :=
  let cols := map (slice burn thin) params in transpose (col_rows cols) cols.

(* HamiltonianChain (theta) / EnsembleSampler (sample) *)
Definition row_get_parameter (theta : list row) (i burn thin : nat) : list Z :=
  column i (slice burn thin theta).

Definition row_get_sample (theta : list row) (burn thin : nat) : list row :=
  slice burn thin theta.

Definition get_probabilities (probs : list Z) (burn thin : nat) : list Z :=
  slice burn thin probs.

(* shapes of the returned arrays *)
Definition shape1 (l : list Z) : list nat := [length l].
Definition shape2 (npar : nat) (rows : list row) : list nat := [length rows; npar].

(* pinned hmc/__init__.py:243 : `.squeeze()` turns a single retained sample into a 0-d array *)
Definition hmc_get_parameter_shape_pinned (l : list Z) : list nat :=
  if length l =? 1 then [] else [length l].

(* pinned hmc/__init__.py:394 : array([]) is 1-D when nothing is retained *)
Definition hmc_get_sample_shape_pinned (npar : nat) (rows : list row) : list nat :=
  match rows with [] => [0] | _ => [length rows; npar] end.

(* what get_marginal hands to the density estimator *)
Inductive layout := ColMajor | RowMajor.

Definition get_parameter (lay : layout) (data : list (list Z)) (i burn thin : nat) : list Z :=
  match lay with
  | ColMajor => col_get_parameter data i burn thin
  | RowMajor => row_get_parameter data i burn thin
  end.

Definition get_sample (lay : layout) (data : list (list Z)) (burn thin : nat) : list row :=
  match lay with
  | ColMajor => col_get_sample data burn thin
  | RowMajor => row_get_sample data burn thin
  end.

Definition marginal_input (lay : layout) (data : list (list Z)) (i burn thin : nat) : list Z :=
  get_parameter lay data i burn thin.

(* ---------------------------------------------------------------- get_interval *)
Module ProbOrder <: TotalLeBool.
  Definition t := (Z * row)%type.
  Definition leb (a b : t) := (fst a <=? fst b)%Z.
  Theorem leb_total : forall a1 a2, is_true (leb a1 a2) \/ is_true (leb a2 a1).
  Proof.
    intros a b. unfold leb, is_true.
    destruct (Z.leb_spec (fst a) (fst b)) as [H|H]; [left; reflexivity|right].
    apply Z.leb_le. apply Z.lt_le_incl. exact H.
  Qed.
End ProbOrder.
Module ProbSort := Sort ProbOrder.

Module NatOrder <: TotalLeBool.
  Definition t := nat.
  Definition leb := Nat.leb.
  Theorem leb_total : forall a1 a2, is_true (leb a1 a2) \/ is_true (leb a2 a1).
  Proof.
    intros a b. unfold leb, is_true.
    destruct (Nat.leb_spec a b) as [H|H]; [left; reflexivity|right].
    apply Nat.leb_le. apply Nat.lt_le_incl. exact H.
  Qed.
End NatOrder.
Module NatSort := Sort NatOrder.

Definition sort_by_prob (l : list (Z * row)) : list (Z * row) := ProbSort.sort l.

(* thin = max(probs.size // samples, 1) when a count is requested *)
Definition interval_thin (n0 thin : nat) (samples : option nat) : nat :=
  match samples with
  | Some k => Nat.max (n0 / k) 1
  | None => thin
  end.

(* the random sub-selection; perm = permutation(probs.size) *)
Definition subselect (samples : option nat) (perm : list nat) (cut : list (Z * row))
  : list (Z * row) :=
  match samples with
  | None => cut
  | Some k =>
      let n_trim := length cut - k in
      if 0 <? n_trim then gather (0%Z, []) (NatSort.sort (skipn n_trim perm)) cut else cut
  end.

(* sort by probability, cut the lowest `cutoff`, sub-select: on an already
   burned / thinned pair of arrays *)
Definition interval_core (probs : list Z) (sample : list row) (cutoff : nat)
           (samples : option nat) (perm : list nat) : list (Z * row) :=
  subselect samples perm (skipn cutoff (sort_by_prob (combine probs sample))).

Definition get_interval (lay : layout) (data : list (list Z)) (probs : list Z)
           (burn thin cutoff : nat) (samples : option nat) (perm : list nat)
  : list (Z * row) :=
  let probs0 := get_probabilities probs burn 1 in
  let thin' := interval_thin (length probs0) thin samples in
  interval_core (slice 0 thin' probs0) (get_sample lay data burn thin') cutoff samples perm.

(* size of the probability array on which the code evaluates `cutoff` *)
Definition interval_size (probs : list Z) (burn thin : nat) (samples : option nat) : nat :=
  let probs0 := get_probabilities probs burn 1 in
  length (slice 0 (interval_thin (length probs0) thin samples) probs0).

(* returned arrays: rows and their probabilities, with shapes *)
Definition interval_rows (r : list (Z * row)) : list row := map snd r.
Definition interval_probs (r : list (Z * row)) : list Z := map fst r.

(* pinned base.py:158 : `permutation(n)[n_trim:].sort()` is None, and indexing with
   None inserts an axis: nothing is trimmed and the sample comes back as (1, n, p),
   the probabilities as (1, n) *)
Definition get_interval_pinned (lay : layout) (data : list (list Z)) (probs : list Z)
           (burn thin cutoff : nat) (samples : option nat)
  : list nat * list nat * list (Z * row) :=
  let probs0 := get_probabilities probs burn 1 in
  let thin' := interval_thin (length probs0) thin samples in
  let cut := skipn cutoff (sort_by_prob (combine (slice 0 thin' probs0)
                                                  (get_sample lay data burn thin'))) in
  let npar := match lay with ColMajor => length data
                           | RowMajor => length (hd [] data) end in
  match samples with
  | Some k => if 0 <? length cut - k
              then ([1; length cut; npar], [1; length cut], cut)
              else ([length cut; npar], [length cut], cut)
  | None => ([length cut; npar], [length cut], cut)
  end.

(* ---------------------------------------------------------------- correspondence interface *)
Inductive sampler := Gibbs | Pca | Hmc | Ens.

Definition layout_of (s : sampler) : layout :=
  match s with Gibbs | Pca => ColMajor | Hmc | Ens => RowMajor end.

(* documented defaults of the getters: burn = 1 for the chains, 0 for the ensemble *)
Definition default_burn (s : sampler) : nat := match s with Ens => 0 | _ => 1 end.

Inductive query :=
| QParam (i burn thin : nat)
| QProbs (burn thin : nat)
| QSample (burn thin : nat)
| QMarginal (i burn thin : nat)
| QDefaults (i : nat)      (* get_parameter(i), get_probabilities(), get_sample() *)
| QInterval (burn thin cutoff : nat) (samples : option nat) (perm : list nat).

(* an observed ndarray: shape and row-major contents *)
Definition ndarray := (list nat * list Z)%type.

Definition arr1 (l : list Z) : ndarray := (shape1 l, l).
Definition arr2 (npar : nat) (rows : list row) : ndarray := (shape2 npar rows, concat rows).

Definition answer (s : sampler) (npar : nat) (data : list (list Z)) (probs : list Z)
           (q : query) : list ndarray :=
  let lay := layout_of s in
  match q with
  | QParam i b t => [arr1 (get_parameter lay data i b t)]
  | QProbs b t => [arr1 (get_probabilities probs b t)]
  | QSample b t => [arr2 npar (get_sample lay data b t)]
  | QMarginal i b t => [arr1 (marginal_input lay data i b t)]
  | QDefaults i =>
      let b := default_burn s in
      [arr1 (get_parameter lay data i b 1); arr1 (get_probabilities probs b 1);
       arr2 npar (get_sample lay data b 1)]
  | QInterval b t c k perm =>
      let r := get_interval lay data probs b t c k perm in
      [arr2 npar (interval_rows r); arr1 (interval_probs r)]
  end.

Fixpoint list_eqb {A} (eqb : A -> A -> bool) (a b : list A) : bool :=
  match a, b with
  | [], [] => true
  | x :: a', y :: b' => eqb x y && list_eqb eqb a' b'
  | _, _ => false
  end.

Definition ndarray_eqb (a b : ndarray) : bool :=
  list_eqb Nat.eqb (fst a) (fst b) && list_eqb Z.eqb (snd a) (snd b).

Definition check_query (s : sampler) (npar : nat) (data : list (list Z)) (probs : list Z)
           (qo : query * list ndarray) : bool :=
  list_eqb ndarray_eqb (answer s npar data probs (fst qo)) (snd qo).

(* one case: a sampler with an injected history and the observed answers *)
Definition case := (sampler * nat * list (list Z) * list Z * list (query * list ndarray))%type.

Definition check_case (c : case) : bool :=
  let '(s, npar, data, probs, qos) := c in
  forallb (check_query s npar data probs) qos.

Fixpoint failing {A} (f : A -> bool) (l : list A) (i : nat) : list nat :=
  match l with
  | [] => []
  | x :: t => if f x then failing f t (S i) else i :: failing f t (S i)
  end.

(* index of the first failing query of a case (for the replay) *)
Definition failing_queries (c : case) : list nat :=
  let '(s, npar, data, probs, qos) := c in failing (check_query s npar data probs) qos 0.
