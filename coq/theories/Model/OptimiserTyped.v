(* Element types of the optimiser's data arrays (executable, over Q and Z).
   Extends Model/Optimiser.v; no proofs here (see Proofs/OptimiserTypedProofs.v).

   GpOptimiser keeps the arrays with the element type the caller gave them
   (optimisation.py:99-103: `x if isinstance(x, ndarray) else array(x)`), so a grid of
   initial evaluations written without decimal points -- array([-8, -6, 8]), a list of
   tuples of Python ints -- is an int64 array, and float32 data stay float32.
   add_evaluation (optimisation.py:145-147, 161-166) turns the new point into an array
   WITH THE ELEMENT TYPE THE POINT HAS (`array(new_x)`) and `numpy.append`s it: numpy
   concatenates in the PROMOTED element type, a type that holds both operands.

   code                                               definition
   ------------------------------------------------------------------------------
   numpy.promote_types (int16/32/64, float32/64)       promote
   "v is a value of element type dt"                   val_ok dt v
   optimisation.py:145 array(new_x) keeps its type     n_dx, n_dy (tnew)
   optimisation.py:161-166 append(self.x, new_x, ..)   typed_add (on top of add_evaluation)
   a sequence of additions                             typed_add_all
   seeded variant: array(new_x, dtype=self.x.dtype)    cast_to, typed_add_cast

   Values are exact rationals.  A value of a float type is a dyadic rational whose
   significand has at most 24 / 53 bits (exponent range not modelled); a value of an
   integer type is an integer of the type's range.  Every value is additionally required to
   be below 2^53 in magnitude: this is the region in which numpy's integer -> float64
   promotion is exact (an int64 beyond it is ROUNDED by numpy; the model does not speak
   about such data: typed_add returns None there and the check never generates them). *)
From Coq Require Import List QArith ZArith Bool.
From IT Require Import Model.Optimiser.
Import ListNotations.

Inductive dtype := I16 | I32 | I64 | F32 | F64.

Definition dtype_eqb (a b : dtype) : bool :=
  match a, b with
  | I16, I16 | I32, I32 | I64, I64 | F32, F32 | F64, F64 => true
  | _, _ => false
  end.

(* numpy.promote_types restricted to these five types *)
Definition promote (a b : dtype) : dtype :=
  match a, b with
  | F64, _ | _, F64 => F64
  | F32, F32 | F32, I16 | I16, F32 => F32
  | F32, _ | _, F32 => F64          (* int32 / int64 with float32: float64 *)
  | I64, _ | _, I64 => I64
  | I32, _ | _, I32 => I32
  | I16, I16 => I16
  end.

(* ---- which rationals are values of an element type (on the reduced fraction n/d) ---- *)
Fixpoint pow2b (p : positive) : bool :=
  match p with xH => true | xO p' => pow2b p' | xI _ => false end.

Fixpoint odd_part (p : positive) : positive :=
  match p with xO p' => odd_part p' | _ => p end.

Definition dbl_max : Z := 9007199254740991.      (* 2^53 - 1 *)

Definition mag_ok (n : Z) (d : positive) : bool := (Z.abs n <=? dbl_max * Zpos d)%Z.

Definition int_ok (k : Z) (n : Z) (d : positive) : bool :=
  (d =? 1)%positive && (- 2 ^ (k - 1) <=? n)%Z && (n <=? 2 ^ (k - 1) - 1)%Z.

(* the significand (odd part of the numerator of the reduced dyadic) has at most p bits *)
Definition sig_ok (p : Z) (n : Z) : bool :=
  match n with
  | Z0 => true
  | Zpos m | Zneg m => (Zpos (odd_part m) <? 2 ^ p)%Z
  end.

Definition float_ok (p : Z) (n : Z) (d : positive) : bool := pow2b d && sig_ok p n.

Definition red_ok (dt : dtype) (n : Z) (d : positive) : bool :=
  mag_ok n d &&
  match dt with
  | I16 => int_ok 16 n d
  | I32 => int_ok 32 n d
  | I64 => int_ok 64 n d
  | F32 => float_ok 24 n d
  | F64 => float_ok 53 n d
  end.

Definition val_ok (dt : dtype) (q : Q) : bool :=
  let r := Qred q in red_ok dt (Qnum r) (Qden r).

Definition vec_ok (dt : dtype) (v : list Q) : bool := forallb (val_ok dt) v.
Definition rows_ok (dt : dtype) (rows : list (list Q)) : bool := forallb (vec_ok dt) rows.

(* ---- the optimiser's data with their element types ---- *)
Record tstate := mk_tstate {
  ts_dx : dtype;            (* self.x.dtype *)
  ts_dy : dtype;            (* self.y.dtype *)
  ts_de : dtype;            (* self.y_err.dtype (meaningful when st_yerr is Some) *)
  ts_st : opt_state
}.

Definition typed_ok (t : tstate) : bool :=
  rows_ok (ts_dx t) (st_x (ts_st t)) && vec_ok (ts_dy t) (st_y (ts_st t))
  && match st_yerr (ts_st t) with None => true | Some e => vec_ok (ts_de t) e end.

(* a new evaluation as the caller hands it over: every part with the element type numpy
   gives it (array(1.7) : float64, array([1, 2]) : int64, a float32 array : float32 ...) *)
Record tnew := mk_tnew {
  n_dx : dtype; n_x : list Q;
  n_dy : dtype; n_y : Q;
  n_err : option (dtype * Q)
}.

Definition new_ok (n : tnew) : bool :=
  vec_ok (n_dx n) (n_x n) && val_ok (n_dy n) (n_y n)
  && match n_err n with None => true | Some (d, e) => val_ok d e end.

Definition erase (n : tnew) : list Q * Q * option Q := (n_x n, n_y n, option_map snd (n_err n)).

(* add_evaluation with element types: the untyped step of Model.Optimiser, the arrays
   re-labelled with the promoted types.  None = the ValueError of the untyped model, or data
   outside the region described in the header. *)
Definition typed_add (t : tstate) (n : tnew) : option tstate :=
  match add_evaluation (ts_st t) (n_x n) (n_y n) (option_map snd (n_err n)) with
  | None => None
  | Some st' =>
      let de := match n_err n with Some (d, _) => promote (ts_de t) d | None => ts_de t end in
      let t' := mk_tstate (promote (ts_dx t) (n_dx n)) (promote (ts_dy t) (n_dy n)) de st' in
      if typed_ok t' then Some t' else None
  end.

Fixpoint typed_add_all (t : tstate) (news : list tnew) : option tstate :=
  match news with
  | [] => Some t
  | n :: rest => match typed_add t n with Some t' => typed_add_all t' rest | None => None end
  end.

(* ---- seeded variant: the new point is converted to the element type OF THE DATA before it
   is appended (`array(new_x, dtype=self.x.dtype)`).  A conversion to an integer type
   truncates towards zero (C cast); conversions to the float types are left as the identity
   (rounding to float32 is not modelled: the refutation needs integer data only). ---- *)
Definition trunc (q : Q) : Q := inject_Z (Z.quot (Qnum q) (Zpos (Qden q))).

Definition cast_to (dt : dtype) (q : Q) : Q :=
  match dt with I16 | I32 | I64 => trunc q | F32 | F64 => q end.

Definition typed_add_cast (t : tstate) (n : tnew) : option tstate :=
  typed_add t (mk_tnew (ts_dx t) (map (cast_to (ts_dx t)) (n_x n)) (n_dy n) (n_y n) (n_err n)).

(* ---- checker used by the generated case files ----
   initial x (type, rows), y (type, values), y_err (None or type, values); the evaluations
   added; what was observed afterwards: x.dtype, y.dtype, y_err.dtype (if any), the data. *)
Definition typed_add_case :=
  (dtype * list (list Q) * (dtype * list Q) * option (dtype * list Q) * list tnew
   * option (dtype * dtype * option dtype * opt_state))%type.

Definition typed_init (dx : dtype) (x : list (list Q)) (y : dtype * list Q)
           (e : option (dtype * list Q)) : tstate :=
  mk_tstate dx (fst y) (match e with Some (d, _) => d | None => F64 end)
            (init_state x (snd y) (option_map snd e)).

Definition check_typed_add_case (c : typed_add_case) : bool :=
  let '(dx, x, y, e, news, obs) := c in
  let t0 := typed_init dx x y e in
  typed_ok t0 && forallb new_ok news &&
  match typed_add_all t0 news, obs with
  | Some t, Some (odx, ody, ode, ost) =>
      dtype_eqb (ts_dx t) odx && dtype_eqb (ts_dy t) ody
      && match st_yerr (ts_st t), ode with
         | None, None => true
         | Some _, Some d => dtype_eqb (ts_de t) d
         | _, _ => false
         end
      && state_eqb (ts_st t) ost
  | None, None => true
  | _, _ => false
  end.
