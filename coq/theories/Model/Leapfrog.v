(* Model of the Hamiltonian trajectory code of inference/mcmc/hmc (property C07).

   Executable model over Q, no proofs.  Vectors are `list Q`.  Every finite
   double is a rational, so "for all q in Q" covers every representable input;
   on dyadic inputs of bounded width the double arithmetic of the code is exact
   and the comparison with this model is exact (harness/props/c07.py).

   hmc/__init__.py                                     model
   ---------------                                     -----
   r += c * g     (numpy in-place: shape of r kept)    vaxpy r c g
   r *= reflections                                    vmul_keep r refl
   r_step = self.inv_temp * self.ES.epsilon    :167    r_step
   r += (0.5 * r_step) * self.grad(t)          :168    kick ((1#2) * r_step)
   for _ in range(n_steps - 1):                :170    Nat.iter (n - 1) inner
       t += eps * self.mass.get_velocity(r)    :171      drift
       r += r_step * self.grad(t)              :172      kick r_step
   t += eps * self.mass.get_velocity(r)        :174    drift
   r += (0.5 * r_step) * self.grad(t)          :175    kick ((1#2) * r_step)
   (range(n_steps-1) is empty for n_steps = 0 and 1:   n - 1 on nat is 0 for
    both take exactly one step)                         n = 0 and n = 1)
   bounded_leapfrog                            :178    the same with bdrift:
       t += eps * velocity                     :185      vaxpy
       t, reflections = bounds.reflect_momenta(t) :186   reflect_momenta_v lo hi
       r *= reflections                        :187      vmul_keep
   hamiltonian / kinetic_energy                :196-200 hamiltonian / kinetic_energy
   finite_diff (pinned: divides by t[i]*1e-5)  :211    finite_diff_pinned
   finite_diff (after fixes/D07-...patch)              finite_diff

   hmc/mass.py
   -----------
   ScalarMass.get_velocity  r * inv_mass        :28    ScalarMass im
   VectorMass (same code, inv_mass a vector)    :34    VectorMass ims
   MatrixMass.get_velocity  inv_mass @ r        :54    MatrixMass rows
   sample_momentum  normal(scale=sqrt_mass)     :31    sample_momentum_diag
   sample_momentum  L @ normal                  :57    mat_vec L z

   utilities.py
   ------------
   Bounds.reflect_momenta                       :155   reflect1 (= Reflect.reflect_momenta of
                                                       property C04 with w = hi - lo)
                                                       / reflect_momenta_v (arrays)
*)
From Coq Require Import List QArith Qround Qabs ZArith Bool.
From IT Require Model.Reflect.
Import ListNotations.
Open Scope Q_scope.

Definition vec := list Q.
Definition state := (vec * vec)%type.      (* (position t, momentum r) *)

(* ---- vector operations -------------------------------------------------- *)
(* Qred keeps every stored number in lowest terms (x == Qred x); without it the
   denominators of Q double in length at every addition. *)

(* a += c * b ; the result has the shape of a (numpy in-place update).  With
   equal lengths (the only case numpy accepts) this is the pointwise a + c b. *)
Fixpoint vaxpy (a : vec) (c : Q) (b : vec) : vec :=
  match a with
  | [] => []
  | x :: a' =>
      match b with
      | [] => x :: a'
      | y :: b' => Qred (x + c * y) :: vaxpy a' c b'
      end
  end.

(* a *= b, shape of a *)
Fixpoint vmul_keep (a b : vec) : vec :=
  match a with
  | [] => []
  | x :: a' =>
      match b with
      | [] => x :: a'
      | y :: b' => Qred (x * y) :: vmul_keep a' b'
      end
  end.

Definition vneg (a : vec) : vec := map Qopp a.

Fixpoint dot (a b : vec) : Q :=
  match a, b with
  | x :: a', y :: b' => Qred (x * y + dot a' b')
  | _, _ => 0
  end.

Definition mat_vec (M : list vec) (v : vec) : vec := map (fun row => dot row v) M.

(* ---- particle mass (hmc/mass.py) ---------------------------------------- *)

Inductive mass : Type :=
| ScalarMass (inv_mass : Q)
| VectorMass (inv_mass : vec)
| MatrixMass (inv_mass : list vec).       (* list of rows *)

Definition get_velocity (m : mass) (r : vec) : vec :=
  match m with
  | ScalarMass im => map (fun x => Qred (x * im)) r
  | VectorMass ims => vmul_keep r ims
  | MatrixMass rows => mat_vec rows r
  end.

Definition kinetic_energy (m : mass) (r : vec) : Q :=
  (1 # 2) * dot r (get_velocity m r).

(* rng.normal(size=n, scale=sqrt_mass): z is the vector of standard-normal draws *)
Definition sample_momentum_scalar (sqrt_mass : Q) (z : vec) : vec := map (fun x => Qred (sqrt_mass * x)) z.
Definition sample_momentum_vector (sqrt_mass : vec) (z : vec) : vec := vmul_keep z sqrt_mass.
Definition sample_momentum_matrix (L : list vec) (z : vec) : vec := mat_vec L z.

(* ---- Bounds.reflect_momenta (utilities.py:155) --------------------------- *)
(* one coordinate: the scalar model of property C04 (Model/Reflect.v, numpy divmod
   semantics), with width = upper - lower as Bounds.__init__ computes it *)
Definition reflect1 (lo hi x : Q) : Q * Q :=
  let (y, s) := Reflect.reflect_momenta lo (hi - lo) x in (Qred y, s).

(* arrays: the same element-wise; returns (positions, reflections) like the code.
   Coordinates without a bound pair are left alone (numpy would refuse the shapes) *)
Fixpoint reflect_momenta_v (lo hi t : vec) {struct t} : vec * vec :=
  match t, lo, hi with
  | x :: t', l :: lo', h :: hi' =>
      let (y, s) := reflect1 l h x in
      let (ys, ss) := reflect_momenta_v lo' hi' t' in
      (y :: ys, s :: ss)
  | _, _, _ => (t, [])
  end.

(* ---- the integrators ------------------------------------------------------ *)

Section Leapfrog.
  Variable grad : vec -> vec.         (* self.grad *)
  Variable m : mass.                  (* self.mass *)
  Variable inv_temp eps : Q.          (* self.inv_temp, self.ES.epsilon *)

  Definition r_step : Q := inv_temp * eps.

  Definition kick (h : Q) (s : state) : state :=
    (fst s, vaxpy (snd s) h (grad (fst s))).

  Definition drift (s : state) : state :=
    (vaxpy (fst s) eps (get_velocity m (snd s)), snd s).

  Definition inner (s : state) : state := kick r_step (drift s).

  Definition standard_leapfrog (t r : vec) (n : nat) : state :=
    let s := kick ((1 # 2) * r_step) (t, r) in
    let s := Nat.iter (n - 1) inner s in
    let s := drift s in
    kick ((1 # 2) * r_step) s.

  (* one kick-drift-kick step with half kicks *)
  Definition kdk (s : state) : state :=
    kick ((1 # 2) * r_step) (drift (kick ((1 # 2) * r_step) s)).

  Variable lo hi : vec.               (* self.bounds.lower / upper *)

  Definition bdrift (s : state) : state :=
    let t1 := vaxpy (fst s) eps (get_velocity m (snd s)) in
    let (t2, refl) := reflect_momenta_v lo hi t1 in
    (t2, vmul_keep (snd s) refl).

  Definition binner (s : state) : state := kick r_step (bdrift s).

  Definition bounded_leapfrog (t r : vec) (n : nat) : state :=
    let s := kick ((1 # 2) * r_step) (t, r) in
    let s := Nat.iter (n - 1) binner s in
    let s := bdrift s in
    kick ((1 # 2) * r_step) s.

  Definition bkdk (s : state) : state :=
    kick ((1 # 2) * r_step) (bdrift (kick ((1 # 2) * r_step) s)).

  Variable logp : vec -> Q.           (* self.posterior *)

  Definition hamiltonian (t r : vec) : Q :=
    (1 # 2) * dot r (get_velocity m r) - logp t * inv_temp.

  (* --- finite_diff ------------------------------------------------------- *)
  (* t with coordinate i replaced by f t_i *)
  Fixpoint upd (i : nat) (f : Q -> Q) (t : vec) : vec :=
    match t with
    | [] => []
    | x :: t' => match i with O => f x :: t' | S j => x :: upd j f t' end
    end.

  Variable h : Q.                     (* the relative step, 1e-5 in the code *)

  (* pinned code: G[i] = (posterior(t * delta) * inv_temp - p) / (t[i] * 1e-5)
     with delta = 1 everywhere except delta[i] = 1 + 1e-5 *)
  Definition finite_diff_pinned (t : vec) : vec :=
    let p := logp t * inv_temp in
    map (fun i => (logp (upd i (fun x => x * (1 + h)) t) * inv_temp - p) / (nth i t 0 * h))
        (seq 0 (length t)).

  Variable floor_step : Q.            (* absolute floor on the step, 1e-8 after the fix *)

  (* repaired code:  dt = t[i] * 1e-5 ; if abs(dt) < floor: dt = floor ;
                     G[i] = (posterior(t + dt e_i) * inv_temp - p) / dt *)
  Definition fd_step (x : Q) : Q :=
    let dt := x * h in
    if Qlt_le_dec (Qabs dt) floor_step then floor_step else dt.

  Definition finite_diff (t : vec) : vec :=
    let p := logp t * inv_temp in
    map (fun i => let dt := fd_step (nth i t 0) in
                  (logp (upd i (fun x => x + dt) t) * inv_temp - p) / dt)
        (seq 0 (length t)).
End Leapfrog.

Definition flip (s : state) : state := (fst s, vneg (snd s)).

(* ---- concrete forces used in executions ----------------------------------- *)

(* logp(t) = -1/2 t^T A t + b^T t   =>   grad logp (t) = b - A t  (A symmetric) *)
Definition lin_grad (A : list vec) (b : vec) (t : vec) : vec :=
  vaxpy b (-1) (mat_vec A t).

Definition quad_logp (A : list vec) (b : vec) (t : vec) : Q :=
  dot b t - (1 # 2) * dot t (mat_vec A t).

(* ---- 2x2 matrices (volume preservation, linear force, one degree of freedom) *)
Definition mat2 := (Q * Q * Q * Q)%type.             (* rows (a b) (c d) *)
Definition det2 (M : mat2) : Q := let '(a, b, c, d) := M in a * d - b * c.
Definition mul2 (M N : mat2) : mat2 :=
  let '(a, b, c, d) := M in let '(e, f, g, k) := N in
  (a * e + b * g, a * f + b * k, c * e + d * g, c * f + d * k).
Definition id2 : mat2 := (1, 0, 0, 1).

(* ---- definitions used in the statements of the theorems ------------------------- *)

(* every coordinate strictly inside its bound pair *)
Fixpoint interior (lo hi x : vec) {struct x} : Prop :=
  match x, lo, hi with
  | x0 :: x', l :: lo', h :: hi' => (l < x0 /\ x0 < h) /\ interior lo' hi' x'
  | _, _, _ => True
  end.

Definition diagonal_mass (m : mass) : Prop :=
  match m with MatrixMass _ => False | _ => True end.

(* harmonic oscillator logp(q) = -1/2 w^2 q^2: force, energy, modified energy *)
Definition hgrad (w : Q) (t : vec) : vec := map (fun q => - (w * w) * q) t.
Definition E_true (w : Q) (q p : Q) : Q := (1 # 2) * p * p + (1 # 2) * (w * w) * q * q.
Definition E_mod (w eps : Q) (q p : Q) : Q :=
  (1 # 2) * p * p + (1 # 2) * (w * w) * q * q * (1 - eps * eps * (w * w) * (1 # 4)).
Definition pos1 (s : state) : Q := nth 0 (fst s) 0.
Definition mom1 (s : state) : Q := nth 0 (snd s) 0.

(* affine maps of the (q, p) plane: matrix and translation *)
Definition aff := (mat2 * Q * Q)%type.
Definition aff_apply (F : aff) (q p : Q) : state :=
  let '(a, b, c, d, c1, c2) := F in ([a * q + b * p + c1], [c * q + d * p + c2]).

(* ---- correspondence interface ---------------------------------------------- *)

Fixpoint veqb (a b : vec) : bool :=
  match a, b with
  | [], [] => true
  | x :: a', y :: b' => Qeq_bool x y && veqb a' b'
  | _, _ => false
  end.

Definition state_eqb (s s' : state) : bool := veqb (fst s) (fst s') && veqb (snd s) (snd s').

(* |a - b| <= tol * (|b| + scale) *)
Definition close (tol scale a b : Q) : bool :=
  Qle_bool (Qabs (a - b)) (tol * (Qabs b + scale)).

Fixpoint vclose (tol scale : Q) (a b : vec) : bool :=
  match a, b with
  | [], [] => true
  | x :: a', y :: b' => close tol scale x y && vclose tol scale a' b'
  | _, _ => false
  end.

Definition qmax (x y : Q) : Q := if Qle_bool x y then y else x.

Fixpoint vmaxabs (a : vec) : Q :=
  match a with [] => 0 | x :: a' => qmax (Qabs x) (vmaxabs a') end.

Record lf_case := {
  c_mass : mass; c_inv_temp : Q; c_eps : Q; c_A : list vec; c_b : vec;
  c_bounds : option (vec * vec);
  c_t : vec; c_r : vec; c_n : nat;
  c_obs_t : vec; c_obs_r : vec }.

Definition run_case (c : lf_case) : state :=
  match c_bounds c with
  | None => standard_leapfrog (lin_grad (c_A c) (c_b c)) (c_mass c) (c_inv_temp c) (c_eps c)
              (c_t c) (c_r c) (c_n c)
  | Some (lo, hi) => bounded_leapfrog (lin_grad (c_A c) (c_b c)) (c_mass c) (c_inv_temp c) (c_eps c)
              lo hi (c_t c) (c_r c) (c_n c)
  end.

(* exact comparison (dyadic data) *)
Definition check_exact (c : lf_case) : bool :=
  state_eqb (run_case c) (c_obs_t c, c_obs_r c).

(* comparison to a relative tolerance (full mass matrices, non-dyadic data) *)
Definition check_tol (tol : Q) (c : lf_case) : bool :=
  let s := run_case c in
  let scale := if Qle_bool (vmaxabs (c_obs_t c)) (vmaxabs (c_obs_r c))
               then vmaxabs (c_obs_r c) else vmaxabs (c_obs_t c) in
  vclose tol scale (fst s) (c_obs_t c) && vclose tol scale (snd s) (c_obs_r c).

(* hamiltonian / kinetic energy: (mass, inv_temp, A, b, t, r, observed H, observed K) *)
Definition check_energy_exact (c : mass * Q * list vec * vec * vec * vec * Q * Q) : bool :=
  let '(m, beta, A, b, t, r, oH, oK) := c in
  Qeq_bool (hamiltonian m beta (quad_logp A b) t r) oH && Qeq_bool (kinetic_energy m r) oK.

Definition check_energy_tol (tol : Q) (c : mass * Q * list vec * vec * vec * vec * Q * Q) : bool :=
  let '(m, beta, A, b, t, r, oH, oK) := c in
  close tol 1 (hamiltonian m beta (quad_logp A b) t r) oH && close tol 1 (kinetic_energy m r) oK.

(* finite_diff: the harness hands the real finite_diff a *scripted* posterior that
   returns the dyadic value P at t and P_i at any point whose first coordinate
   differing from t is i, and records the evaluation points.  The observed
   gradient must equal the model's up to the rounding of one division (2^-48
   relative); the recorded evaluation points must be t moved along coordinate i
   by the model's step (2^-50 relative to |t_i| + |step|). *)
Fixpoint first_diff (t x : vec) (i : nat) : option nat :=
  match t, x with
  | a :: t', b :: x' => if Qeq_bool a b then first_diff t' x' (S i) else Some i
  | _, _ => None
  end.

Definition table_logp (t : vec) (P : Q) (Ps : vec) (x : vec) : Q :=
  match first_diff t x 0 with None => P | Some i => nth i Ps 0 end.

Fixpoint points_ok (h fl : Q) (t : vec) (i : nat) (pts : list vec) : bool :=
  match pts with
  | [] => true
  | pt :: pts' =>
      let dt := fd_step h fl (nth i t 0) in
      vclose (1 # 1125899906842624) (Qabs dt) (upd i (fun x => x + dt) t) pt
      && points_ok h fl t (S i) pts'
  end.

Definition check_fd (c : Q * Q * Q * vec * Q * vec * list vec * vec) : bool :=
  let '(beta, h, fl, t, P, Ps, pts, obs) := c in
  vclose (1 # 281474976710656) 0 (finite_diff beta (table_logp t P Ps) h fl t) obs
  && (length pts =? length t)%nat && points_ok h fl t 0 pts.

(* the same scripted posterior against the pinned formula (classification of a
   disagreement as D7) *)
Definition check_fd_pinned (c : Q * Q * Q * vec * Q * vec * list vec * vec) : bool :=
  let '(beta, h, fl, t, P, Ps, pts, obs) := c in
  vclose (1 # 281474976710656) 0 (finite_diff_pinned beta (table_logp t P Ps) h t) obs.

(* momentum law, diagonal classes: sqrt_mass_i^2 * inv_mass_i = 1, r = sqrt_mass * z
   exactly, and the code's kinetic energy of r is 1/2 z.z *)
Fixpoint law_diag (sm im : vec) : bool :=
  match sm, im with
  | [], [] => true
  | s :: sm', i :: im' => Qeq_bool (s * s * i) 1 && law_diag sm' im'
  | _, _ => false
  end.

Definition check_momentum_diag (c : vec * vec * vec * vec * Q) : bool :=
  let '(im, sm, z, obs, oK) := c in
  law_diag sm im && veqb (sample_momentum_vector sm z) obs
  && Qeq_bool (kinetic_energy (VectorMass im) obs) oK
  && Qeq_bool oK ((1 # 2) * dot z z).

(* momentum law, matrix class: L^T M^-1 L = I, r = L z, K(r) = 1/2 z.z, to tol *)
Definition col (M : list vec) (j : nat) : vec := map (fun row => nth j row 0) M.
Definition transpose (M : list vec) (ncols : nat) : list vec := map (col M) (seq 0 ncols).
Definition mat_mul (M N : list vec) (ncolsN : nat) : list vec :=
  map (fun row => map (fun j => dot row (col N j)) (seq 0 ncolsN)) M.
Definition identity (n : nat) : list vec :=
  map (fun i => map (fun j => if (i =? j)%nat then 1 else 0) (seq 0 n)) (seq 0 n).

Fixpoint mclose (tol : Q) (M N : list vec) : bool :=
  match M, N with
  | [], [] => true
  | a :: M', b :: N' => vclose tol 1 a b && mclose tol M' N'
  | _, _ => false
  end.

Definition check_momentum_matrix (tol : Q) (c : list vec * list vec * vec * vec * Q) : bool :=
  let '(Minv, L, z, obs, oK) := c in
  let n := length z in
  mclose tol (mat_mul (transpose L n) (mat_mul Minv L n) n) (identity n)
  && vclose tol 1 (sample_momentum_matrix L z) obs
  && close tol 1 (kinetic_energy (MatrixMass Minv) obs) oK
  && close tol 1 ((1 # 2) * dot z z) oK.

Fixpoint failing {A} (f : A -> bool) (l : list A) (i : nat) : list nat :=
  match l with
  | [] => []
  | x :: t => if f x then failing f t (S i) else i :: failing f t (S i)
  end.
