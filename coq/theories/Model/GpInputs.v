(* Model of the INPUT NORMALISATION of inference/gp/regression.py (property C02): how the
   caller's training coordinates `x` and query `points` -- given as a scalar, a 1-D array /
   flat list, a 2-D array / list of rows, holding python ints, python floats, numpy integers
   of any width or numpy floats -- become the coordinate rows at which the covariance and
   mean functions are evaluated.  Definitions only, no proofs (Proofs/GpInputsProofs.v).

   regression.py                                               model
   -------------                                               -----
   self.x = x if isinstance(x, ndarray) else array(x)   94     the argument itself: `arg A`
   x.ndim == 2: n_dimensions = x.shape[1]              105-106  norm_x, A2 branch
   x.ndim <= 1: n_dimensions = 1, reshape [size, 1]    107-109  norm_x, A0 / A1 branches
   else ValueError                                     110-117  norm_x, A3 branch (None)
   x.shape[0] != n_points: ValueError                  119-127  norm_x, the length test
   process_points:
     x = points if isinstance(..) else array(points)   325      the argument itself
     x.ndim <= 1 and n_dimensions == 1: [size, 1]      327-328  process_points, d = 1
     x.ndim == 1 and x.size == n_dimensions: [1, size] 329-330  process_points, A1 with length d
     x.ndim > 2: ValueError                            331-338  A3 branch (None)
     x.shape[1] (IndexError for ndim <= 1) / != n_dimensions: ValueError   340-348   None

   The model is POLYMORPHIC in the type A of the entries: the normalisation only re-arranges
   the entries, it never converts one.  That is the content of the property here: the
   coordinates are real numbers, `3` (python int, numpy int16 ...) is the same coordinate as
   `3.0`, and a query at 2.75 stays at 2.75 whatever the dtype of the training data is.  The
   correspondence run instantiates A := Q with the exact values of what the caller handed over
   and compares with the exact values of `gp.x` / `gp.process_points(points)`.

   cast_points is the variant that converts the query to the representation of the training
   data first (`asarray(points, dtype=self.x.dtype)`): refuted in the proofs file.

   wrap / sq_diff_pinned: the squared coordinate difference as the pinned kernels formed it
   for integer-typed data (two's-complement arithmetic of the array's dtype), defect D42. *)
From Coq Require Import List ZArith QArith Bool Arith.
Import ListNotations.

(* what the caller hands over, after numpy's array(): shape + entries in row-major order *)
Inductive arg (A : Type) : Type :=
| A0 (v : A)                                  (* python scalar / 0-d array *)
| A1 (l : list A)                             (* 1-D array, flat list or tuple of numbers *)
| A2 (rows : list (list A))                   (* 2-D array, list of rows (lists, tuples, 1-D arrays) *)
| A3 (blocks : list (list (list A))).         (* three or more dimensions *)
Arguments A0 {A} v.
Arguments A1 {A} l.
Arguments A2 {A} rows.
Arguments A3 {A} blocks.

Definition amap {A B : Type} (f : A -> B) (a : arg A) : arg B :=
  match a with
  | A0 v => A0 (f v)
  | A1 l => A1 (map f l)
  | A2 rows => A2 (map (map f) rows)
  | A3 bl => A3 (map (map (map f)) bl)
  end.

(* x.ravel(): the entries in row-major order *)
Definition flat {A : Type} (a : arg A) : list A :=
  match a with
  | A0 v => [v]
  | A1 l => l
  | A2 rows => concat rows
  | A3 bl => concat (concat bl)
  end.

(* x.shape[1] of a rectangular, non-empty list of rows *)
Definition ncols {A : Type} (rows : list (list A)) : option nat :=
  match rows with
  | [] => None
  | r :: rest => if forallb (fun s => Nat.eqb (length s) (length r)) rest then Some (length r) else None
  end.

(* x.reshape([x.size, 1]) of a 1-D array *)
Definition column {A : Type} (l : list A) : list (list A) := map (fun v => [v]) l.

(* GpRegressor.__init__: (n_dimensions, self.x) or None where ValueError is raised;
   n = y.size *)
Definition norm_x {A : Type} (a : arg A) (n : nat) : option (nat * list (list A)) :=
  match a with
  | A0 v => if Nat.eqb 1 n then Some (1%nat, [[v]]) else None
  | A1 l => if Nat.eqb (length l) n then Some (1%nat, column l) else None
  | A2 rows =>
      match ncols rows with
      | Some c => if Nat.eqb (length rows) n then Some (c, rows) else None
      | None => None
      end
  | A3 _ => None
  end.

(* GpRegressor.process_points for a regressor with n_dimensions = d *)
Definition process_points {A : Type} (d : nat) (a : arg A) : option (list (list A)) :=
  match a with
  | A0 v => if Nat.eqb d 1 then Some [[v]] else None
  | A1 l => if Nat.eqb d 1 then Some (column l)
            else if Nat.eqb (length l) d then Some [l] else None
  | A2 rows =>
      match ncols rows with
      | Some c => if Nat.eqb c d then Some rows else None
      | None => None
      end
  | A3 _ => None
  end.

(* the variant that converts every query coordinate to the representation of the training
   data (cast = truncation towards zero when the training data are integer-typed) *)
Definition cast_points {A : Type} (cast : A -> A) (d : nat) (a : arg A) : option (list (list A)) :=
  process_points d (amap cast a).

(* float -> integer conversion of numpy's astype / asarray(dtype=int): towards zero *)
Definition trunc_q (q : Q) : Q := inject_Z (Z.quot (Qnum q) (Zpos (Qden q))).

(* ------------------------------------------------------------------ *)
(* integer dtypes: two's-complement wrap-around (defect D42)            *)
Definition wrap (bits : positive) (signed : bool) (z : Z) : Z :=
  let m := Z.pow 2 (Zpos bits) in
  let r := Z.modulo z m in
  if signed then (if Z.ltb r (m / 2) then r else r - m)%Z else r.

(* (u - v) ** 2 in the dtype of the arrays, as pass_spatial_data / __call__ of the pinned
   SquaredExponential and RationalQuadratic evaluated it for integer-typed u and v *)
Definition sq_diff_pinned (bits : positive) (signed : bool) (a b : Z) : Z :=
  let d := wrap bits signed (a - b) in wrap bits signed (d * d).
(* repaired: the difference is formed in floating point (exact below 2^53) *)
Definition sq_diff (a b : Z) : Z := (a - b) * (a - b).

(* ------------------------------------------------------------------ *)
(* comparison used by the generated correspondence files (A := Q)       *)
Fixpoint rows_eqb (a b : list (list Q)) : bool :=
  match a, b with
  | [], [] => true
  | r :: ar, s :: br =>
      (fix row (u v : list Q) : bool :=
         match u, v with
         | [], [] => true
         | x :: ur, y :: vr => Qeq_bool x y && row ur vr
         | _, _ => false
         end) r s && rows_eqb ar br
  | _, _ => false
  end.

Record input_case := {
  ic_n : nat;                          (* y.size *)
  ic_xarg : arg Q;                     (* the caller's x *)
  ic_parg : arg Q;                     (* the caller's points *)
  ic_d : nat;                          (* observed gp.n_dimensions *)
  ic_x : list (list Q);                (* observed gp.x *)
  ic_p : list (list Q)                 (* observed gp.process_points(points) *)
}.

(* failing obligations of one case: 1 = constructor normalisation, 2 = process_points *)
Definition check_inputs (c : input_case) : list nat :=
  (match norm_x (ic_xarg c) (ic_n c) with
   | Some (d, X) => if Nat.eqb d (ic_d c) && rows_eqb X (ic_x c) then [] else [1%nat]
   | None => [1%nat]
   end)
  ++
  (match process_points (ic_d c) (ic_parg c) with
   | Some P => if rows_eqb P (ic_p c) then [] else [2%nat]
   | None => [2%nat]
   end).

Fixpoint failing_inputs_from (k : nat) (cs : list input_case) : list nat :=
  match cs with
  | [] => []
  | c :: r => map (fun o => (k * 100 + o)%nat) (check_inputs c) ++ failing_inputs_from (S k) r
  end.
Definition failing_inputs (cs : list input_case) : list nat := failing_inputs_from 0 cs.
