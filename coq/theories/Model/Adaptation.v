(* Model of the on-line tuning of proposal widths (gibbs.py Parameter.submit_accept_prob /
   update_epsilon / adjust_sigma) and of the leapfrog step size (hmc/epsilon.py
   EpsilonSelector.add_probability / update_epsilon / adjust_epsilon).

   Bookkeeping and the branch decision are exact over Q / Z; the adjustment factor
   (ln target / ln mu)^rate clamped to [lo, hi] is real-valued (RealModel/AdaptFormula.v)
   and enters this model as an input `factor` (checked against the formula by an interval
   goal, and against [lo, hi] here).

   gibbs.py                                              model
   submit_accept_prob(p): num += 1; avg += p;            submit (var_floor = 0)
       var += p*(1-p); if num >= chk_int: update
   epsilon.py add_probability(p): ... var += max(p*(1-p), 0.03)   submit (var_floor = 3/100)
   update_epsilon: mu = avg/num; std = sqrt(var)/num
       if not (mu - 2 std < target < mu + 2 std): adjust(factor)   in_band / Adjust
       else: chk_int = int((growth*chk_int)*0.1)*10                grow_chk
   adjust_*: width *= factor; avg = var = num = 0                   adjust
*)
From Coq Require Import QArith Qround Qabs ZArith List Bool.
Import ListNotations.
Open Scope Q_scope.

Record tuner := mkTuner {
  t_avg : Q; t_var : Q; t_num : nat; t_chk : Z; t_width : Q;
  t_target : Q; t_growth : Q; t_var_floor : Q; t_lo : Q; t_hi : Q }.

Definition Qmax2 (a b : Q) : Q := if Qle_bool a b then b else a.

(* mu - 2 std < target < mu + 2 std  with  mu = avg/num, std = sqrt(var)/num:
   |target - mu| < 2 sqrt(var) / num   <=>   (target*num - avg)^2 < 4 var   (var >= 0, num > 0) *)
Definition in_band (t : tuner) : bool :=
  let n := inject_Z (Z.of_nat (t_num t)) in
  let d := t_target t * n - t_avg t in
  negb (Qle_bool (4 * t_var t) (d * d)).

(* int((growth * chk) * 0.1) * 10 *)
Definition grow_chk (growth : Q) (chk : Z) : Z :=
  (Qfloor (growth * inject_Z chk / 10) * 10)%Z.

Inductive outcome := Accumulate | Grow | Adjust.

(* the part of submit / add_probability before any adjustment *)
Definition accumulate (t : tuner) (p : Q) : tuner :=
  mkTuner (t_avg t + p) (t_var t + Qmax2 (p * (1 - p)) (t_var_floor t)) (S (t_num t)) (t_chk t)
          (t_width t) (t_target t) (t_growth t) (t_var_floor t) (t_lo t) (t_hi t).

Definition outcome_of (t : tuner) (p : Q) : outcome :=
  let t1 := accumulate t p in
  if (t_chk t1 <=? Z.of_nat (t_num t1))%Z then (if in_band t1 then Grow else Adjust) else Accumulate.

(* one submission; `factor` is consulted only when the outcome is Adjust *)
Definition submit (t : tuner) (p factor : Q) : tuner :=
  let t1 := accumulate t p in
  match outcome_of t p with
  | Accumulate => t1
  | Grow => mkTuner (t_avg t1) (t_var t1) (t_num t1) (grow_chk (t_growth t1) (t_chk t1)) (t_width t1)
                    (t_target t1) (t_growth t1) (t_var_floor t1) (t_lo t1) (t_hi t1)
  | Adjust => mkTuner 0 0 0 (t_chk t1) (t_width t1 * factor)
                      (t_target t1) (t_growth t1) (t_var_floor t1) (t_lo t1) (t_hi t1)
  end.

Definition factor_ok (t : tuner) (factor : Q) : bool :=
  Qle_bool (t_lo t) factor && Qle_bool factor (t_hi t).

(* --- correspondence interface: one observed submission ----------------------
   (state before, p, observed: avg var num chk width after; outcome code 0/1/2) *)
Definition Qclose12 (a b : Q) : bool :=
  Qle_bool (Qabs (a - b)) ((1 # 1000000000000) * (1 + Qabs b)).

Definition outcome_code (o : outcome) : nat :=
  match o with Accumulate => 0%nat | Grow => 1%nat | Adjust => 2%nat end.

Definition check_submit (t : tuner) (p : Q) (obs : Q * Q * nat * Z * Q) : bool :=
  let '(avg', var', num', chk', width') := obs in
  let o := outcome_of t p in
  (* the observed width ratio is the factor the implementation applied *)
  let factor := if Qeq_bool (t_width t) 0 then 1 else width' / t_width t in
  let t' := submit t p factor in
  Qclose12 (t_avg t') avg' && Qclose12 (t_var t') var' && Nat.eqb (t_num t') num' &&
  Z.eqb (t_chk t') chk' && Qclose12 (t_width t') width' &&
  match o with Adjust => factor_ok t factor | _ => Qeq_bool width' (t_width t) end.

Fixpoint failing_submits (l : list (tuner * Q * (Q * Q * nat * Z * Q))) (i : nat) : list nat :=
  match l with
  | [] => []
  | (t, p, o) :: r => if check_submit t p o then failing_submits r (S i) else i :: failing_submits r (S i)
  end.
