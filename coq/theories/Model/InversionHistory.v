(* Model/InversionHistory.v -- the CONSTRUCTION HISTORY of GpLinearInverter objects
   (property C17): which kernel / mean-function object an inverter holds and whose
   spatial data that object carries after any sequence of constructions in one
   process.  No proofs here (Proofs/InversionHistoryProofs.v).

   Matrix/Inversion.v takes K and the prior mean as inputs "built by self.cov /
   self.mean".  Those are mutable objects: pass_spatial_data stores the distance
   tensor of the positions it was given and build_covariance(theta) uses the
   stored tensor.  The property speaks of the prior N(m, K) of the inverter's OWN
   parameter positions, so the model has to say which positions the object that
   an inverter holds carries when the inverter is evaluated -- after any number
   of other inverters have been constructed.

   inversion.py (pinned)                                         model
   ---------------------                                         -----
   60  prior_covariance_function = SquaredExponential            KDefault  (the default IS the class)
   61  prior_mean_function = ConstantMean                        KDefault
   117 self.cov = prior_covariance_function
   118 self.cov = self.cov() if isclass(self.cov) else self.cov  resolve: KDefault / KClass -> a NEW object,
                                                                  KInst o -> the caller's object o
   119 self.cov.pass_spatial_data(parameter_spatial_positions)   upd heap id positions
   123-125 the same for self.mean
   149 K = self.cov.build_covariance(theta[cov_slice])           reads  st_heap (iv_cov iv)
   150 prior_mean = self.mean.build_mean(theta[mean_slice])      reads  st_heap (iv_mean iv)

   Objects are numbered: the caller's own instances are 0 .. k-1 (they carry no
   spatial data before they are handed to a constructor), objects made inside
   constructors get k, k+1, ...   P is the type of "spatial positions"; the run
   uses P = nat (the index of the construction whose positions they are).

   `dflt` describes what a default argument denotes: None = the pinned code (a
   class, instantiated per inverter); Some d = ONE object d made when the
   function was defined (what `= SquaredExponential()` in the signature would
   mean).  The theorems are about `None`; `shared_default_interferes`
   (Proofs) shows that they fail for `Some d`. *)
From Coq Require Import List Arith Bool.
Import ListNotations.

Inductive karg : Type :=
| KDefault                (* argument left out *)
| KClass                  (* a class was passed *)
| KInst (o : nat).        (* the caller's instance number o *)

Definition arg_ids (a : karg) : list nat :=
  match a with KInst o => [o] | _ => [] end.

Section History.
Variable P : Type.

Record ctor_call := CtorCall { cc_cov : karg; cc_mean : karg; cc_pos : P }.
Record inverter := Inverter { iv_cov : nat; iv_mean : nat; iv_pos : P }.
Record pstate := PState { st_heap : nat -> option P; st_next : nat; st_invs : list inverter }.

Definition upd (h : nat -> option P) (o : nat) (x : P) : nat -> option P :=
  fun j => if Nat.eqb j o then Some x else h j.

(* lines 117-118 / 123-124: the object the inverter keeps, and the next free number *)
Definition resolve (dflt : option nat) (a : karg) (next : nat) : nat * nat :=
  match a with
  | KDefault => match dflt with
                | None => (next, S next)
                | Some d => (d, next)
                end
  | KClass => (next, S next)
  | KInst o => (o, next)
  end.

(* GpLinearInverter.__init__ *)
Definition construct_gen (dc dm : option nat) (s : pstate) (c : ctor_call) : pstate :=
  let rc := resolve dc (cc_cov c) (st_next s) in
  let h1 := upd (st_heap s) (fst rc) (cc_pos c) in
  let rm := resolve dm (cc_mean c) (snd rc) in
  let h2 := upd h1 (fst rm) (cc_pos c) in
  PState h2 (snd rm) (st_invs s ++ [Inverter (fst rc) (fst rm) (cc_pos c)]).

Definition construct : pstate -> ctor_call -> pstate := construct_gen None None.

Definition init_state (k : nat) : pstate := PState (fun _ => None) k [].

Definition run_history (k : nat) (cs : list ctor_call) : pstate :=
  fold_left construct cs (init_state k).

(* a process in which the defaults are the objects d_c, d_m (numbers < k) *)
Definition run_history_shared (k dc dm : nat) (cs : list ctor_call) : pstate :=
  fold_left (construct_gen (Some dc) (Some dm)) cs (init_state k).

(* the spatial data seen by inverter number i when it is evaluated in state s *)
Definition cov_data (s : pstate) (i : nat) : option P :=
  match nth_error (st_invs s) i with
  | Some iv => st_heap s (iv_cov iv)
  | None => None
  end.
Definition mean_data (s : pstate) (i : nat) : option P :=
  match nth_error (st_invs s) i with
  | Some iv => st_heap s (iv_mean iv)
  | None => None
  end.

(* any quantity an inverter computes is a function F of the spatial data of its
   kernel object and of its mean object (everything else -- A, y, y_err, theta --
   is fixed per inverter and part of F) *)
Definition eval_inverter {T : Type} (F : P -> P -> T) (s : pstate) (i : nat) : option T :=
  match cov_data s i, mean_data s i with
  | Some pc, Some pm => Some (F pc pm)
  | _, _ => None
  end.

(* the caller's instances that occur in a history, in order *)
Definition inst_ids (cs : list ctor_call) : list nat :=
  flat_map (fun c => arg_ids (cc_cov c) ++ arg_ids (cc_mean c)) cs.

(* hypothesis of the theorems: the caller hands every instance of its own to
   at most one constructor (and they are among the k objects it made) *)
Definition wf_history (k : nat) (cs : list ctor_call) : Prop :=
  NoDup (inst_ids cs) /\ Forall (fun o => o < k) (inst_ids cs).

End History.

Arguments CtorCall {P}.
Arguments cc_cov {P}.
Arguments cc_mean {P}.
Arguments cc_pos {P}.
Arguments Inverter {P}.
Arguments iv_cov {P}.
Arguments iv_mean {P}.
Arguments iv_pos {P}.
Arguments PState {P}.
Arguments st_heap {P}.
Arguments st_next {P}.
Arguments st_invs {P}.
Arguments upd {P}.
Arguments construct_gen {P}.
Arguments construct {P}.
Arguments init_state {P}.
Arguments run_history {P}.
Arguments run_history_shared {P}.
Arguments cov_data {P}.
Arguments mean_data {P}.
Arguments eval_inverter {P T}.
Arguments inst_ids {P}.
Arguments wf_history {P}.

(* ---- the correspondence check of the run (P = nat: positions of construction i are `i`) ---- *)

Fixpoint nodupb (l : list nat) : bool :=
  match l with
  | [] => true
  | x :: r => negb (existsb (Nat.eqb x) r) && nodupb r
  end.

Definition wf_historyb (k : nat) (cs : list (ctor_call nat)) : bool :=
  nodupb (inst_ids cs) && forallb (fun o => Nat.ltb o k) (inst_ids cs).

Fixpoint first_index (x : nat) (l : list nat) (i : nat) : nat :=
  match l with
  | [] => i
  | y :: r => if Nat.eqb x y then i else first_index x r (S i)
  end.

(* for every element: the index of the first element equal to it (the partition
   of the inverters by "holds the same object") *)
Definition alias_of (ids : list nat) : list nat := map (fun o => first_index o ids 0) ids.

Fixpoint eq_natlist (a b : list nat) : bool :=
  match a, b with
  | [], [] => true
  | x :: r, y :: t => Nat.eqb x y && eq_natlist r t
  | _, _ => false
  end.

Fixpoint holders_ok (model : list (option nat)) (obs : list (list nat)) : bool :=
  match model, obs with
  | [], [] => true
  | Some j :: r, o :: t => existsb (Nat.eqb j) o && holders_ok r t
  | _, _ => false
  end.

Record hist_case := HistCase {
  h_k : nat;                              (* instances made by the caller *)
  h_calls : list (ctor_call nat);         (* cc_pos of call i is i *)
  h_cov_alias : list nat;                 (* observed: first inverter whose .cov IS this inverter's .cov *)
  h_mean_alias : list nat;
  h_cov_hold : list (list nat);           (* observed: the constructions j whose positions reproduce the K
                                             that inverter i's kernel object builds *)
  h_mean_hold : list (list nat)
}.

Definition check_hist_obligations (c : hist_case) : list bool :=
  let s := run_history (h_k c) (h_calls c) in
  let n := length (h_calls c) in
  [ (* 0 *) wf_historyb (h_k c) (h_calls c) && eq_natlist (map cc_pos (h_calls c)) (seq 0 n);
    (* 1 *) eq_natlist (alias_of (map iv_cov (st_invs s))) (h_cov_alias c);
    (* 2 *) eq_natlist (alias_of (map iv_mean (st_invs s))) (h_mean_alias c);
    (* 3 *) holders_ok (map (cov_data s) (seq 0 n)) (h_cov_hold c);
    (* 4 *) holders_ok (map (mean_data s) (seq 0 n)) (h_mean_hold c) ].

Fixpoint failing_from (k : nat) (obs : list bool) : list nat :=
  match obs with
  | [] => []
  | b :: r => (if b then [] else [k]) ++ failing_from (S k) r
  end.

Definition check_hist (c : hist_case) : list nat := failing_from 0 (check_hist_obligations c).

Fixpoint flatten_hist (k : nat) (rs : list (list nat)) : list nat :=
  match rs with
  | [] => []
  | r :: rest => map (fun o => (k * 100 + o)%nat) r ++ flatten_hist (S k) rest
  end.

Definition failing_hist (cs : list hist_case) : list nat := flatten_hist 0 (map check_hist cs).
