(* Matrix/Derivatives.v -- data-flow model of GpRegressor.gradient and
   GpRegressor.spatial_derivatives (inference/gp/regression.py, property C16),
   written once over an arbitrary `mxops` (Matrix/MxOps.v).  No proofs here.

   Conventions as in Matrix/GpModel.v: 1-D arrays are columns, n = number of
   training points, d = number of spatial dimensions; ONE query point q (both
   methods loop over the query points and treat each on its own; a batch is the
   list of the per-point results, followed by numpy's squeeze()).
   Inputs are the arrays the implementation itself builds:
     K_qx  = self.cov(pnt, self.x, self.cov_hyperpars)                1 x n
     A, R  = self.cov.gradient_terms(pnt[0,:], self.x, cov_hyperpars)  d x n, d (as d x 1)
             (SquaredExponential: A[i,j] = (x[j,i] - q[i]) / l_i^2, R[i] = (a / l_i)^2;
              tied to the formulas of RealModel/SeGradient.v by interval goals)
     L, alpha                                                          as in GpModel.v
   and, for the mean function (inference/gp/mean.py), its hyper-parameters, the
   query point and the training inputs.

   regression.py (repaired tree)                          model
   -----------------------------                          -----
   gradient:
   376   Q = solve_triangular(L, (A * K_qx).T, lower=True)      dk_matrix, gcov_Q
   379   mean = A @ (K_qx * self.alpha).T                       grad_mean_kernel
   380   covariance = diag(R) - (Q.T @ Q)                       grad_cov      [D15 repaired]
   386-7 mu_q = array(mu_q)[:, :, 0] + array(mean_grads)       grad_mean     [D14 repaired]
   spatial_derivatives:
   413   Q = solve_triangular(L.T, solve_triangular(L, K_qx.T, lower=True))   dvar_Q_s
   416   dmu_dx = A @ (K_qx * self.alpha).T                     grad_mean_kernel
   423-4 mu_gradients = ...[:, :, 0] + array(mean_grads)        grad_mean     [D14 repaired]
   417   dV_dx = -2 * (A * K_qx[None, :]) @ Q                   dvar
   mean.py: spatial_gradient
   ConstantMean   zeros(q.size)                                 dmean_const
   LinearMean     zeros(q.size) + theta[1:]                     dmean_linear
   QuadraticMean  theta[lin] + 2 * (q - x_mean) * theta[quad]   dmean_quadratic, x_mean

   Pinned tree (defects D14, D15):
     grad_mean_pinned  = grad_mean_kernel        (no derivative of the mean function)
     grad_cov_pinned   = R - Q.T @ Q  with the length-d vector R broadcast along
                         rows: entry (i,j) is R[j] - (Q^T Q)[i,j].
   Each solver-calling function comes as `f_s` (solver matrices given) and `f`
   (= f_s at minv L ...), exactly as in GpModel.v. *)
From Coq Require Import QArith.
From IT Require Import Matrix.MxOps.

Section Derivatives.
Variable O : mxops.
Notation M := (mx O).

(* numpy broadcasting of a 1 x n row over d rows / of a d x 1 column... as products with ones *)
Definition bcast_rows {n} (d : nat) (row : M 1 n) : M d n := mmul (mconst 1%Q d 1) row.

(* A * K_qx : entry (i,j) = A[i,j] K_qx[0,j] -- the matrix of dk(q, x_j)/dq_i *)
Definition dk_matrix {d n} (A : M d n) (K_qx : M 1 n) : M d n := mhad A (bcast_rows d K_qx).

(* A @ (K_qx * alpha).T *)
Definition grad_mean_kernel {d n} (A : M d n) (K_qx : M 1 n) (alpha : M n 1) : M d 1 :=
  mmul A (mtr 1 n (mhad K_qx (mtr n 1 alpha))).

(* repaired: + mean.spatial_gradient(q, mean_hyperpars) *)
Definition grad_mean {d n} (A : M d n) (K_qx : M 1 n) (alpha : M n 1) (dmu_q : M d 1) : M d 1 :=
  madd (grad_mean_kernel A K_qx alpha) dmu_q.

Definition grad_mean_pinned {d n} (A : M d n) (K_qx : M 1 n) (alpha : M n 1) (dmu_q : M d 1) : M d 1 :=
  grad_mean_kernel A K_qx alpha.

(* Q = solve_triangular(L, (A * K_qx).T, lower=True) *)
Definition gcov_Q {d n} (Li : M n n) (A : M d n) (K_qx : M 1 n) : M n d :=
  mmul Li (mtr d n (dk_matrix A K_qx)).

Definition grad_cov_s {d n} (Li : M n n) (A : M d n) (K_qx : M 1 n) (R : M d 1) : M d d :=
  let Q := gcov_Q Li A K_qx in msub (mdiagv R) (mmul (mtr n d Q) Q).
Definition grad_cov {d n} (L : M n n) (A : M d n) (K_qx : M 1 n) (R : M d 1) : M d d :=
  grad_cov_s (minv L) A K_qx R.

(* pinned: R (shape (d,)) - Q.T @ Q (shape (d,d)) broadcasts R as a ROW *)
Definition grad_cov_pinned_s {d n} (Li : M n n) (A : M d n) (K_qx : M 1 n) (R : M d 1) : M d d :=
  let Q := gcov_Q Li A K_qx in msub (bcast_rows d (mtr d 1 R)) (mmul (mtr n d Q) Q).
Definition grad_cov_pinned {d n} (L : M n n) (A : M d n) (K_qx : M 1 n) (R : M d 1) : M d d :=
  grad_cov_pinned_s (minv L) A K_qx R.

(* the closed form of the property statement:
   prior gradient covariance diag(R) minus the explained part G (K_xx+S)^-1 G^T, G = dk_matrix *)
Definition grad_cov_closed_s {d n} (Ai : M n n) (A : M d n) (K_qx : M 1 n) (R : M d 1) : M d d :=
  let G := dk_matrix A K_qx in msub (mdiagv R) (mmul G (mmul Ai (mtr d n G))).
Definition grad_cov_closed {d n} (Adata : M n n) (A : M d n) (K_qx : M 1 n) (R : M d 1) : M d d :=
  grad_cov_closed_s (minv Adata) A K_qx R.

(* closed form of the gradient mean: G (K_xx+S)^-1 (y - mu) + dm/dq *)
Definition grad_mean_closed_s {d n} (Ai : M n n) (A : M d n) (K_qx : M 1 n) (y mu : M n 1)
           (dmu_q : M d 1) : M d 1 :=
  madd (mmul (dk_matrix A K_qx) (mmul Ai (msub y mu))) dmu_q.
Definition grad_mean_closed {d n} (Adata : M n n) (A : M d n) (K_qx : M 1 n) (y mu : M n 1)
           (dmu_q : M d 1) : M d 1 :=
  grad_mean_closed_s (minv Adata) A K_qx y mu dmu_q.

(* ---- spatial_derivatives --------------------------------------------------- *)
Definition dvar_Q_s {n} (Li LTi : M n n) (K_qx : M 1 n) : M n 1 :=
  mmul LTi (mmul Li (mtr 1 n K_qx)).

(* -2 * (A * K_qx[None, :]) @ Q   ( = ((-2) * (A * K_qx)) @ Q ) *)
Definition dvar_s {d n} (Li LTi : M n n) (A : M d n) (K_qx : M 1 n) : M d 1 :=
  mmul (mscal (-2 # 1)%Q (dk_matrix A K_qx)) (dvar_Q_s Li LTi K_qx).
Definition dvar {d n} (L : M n n) (A : M d n) (K_qx : M 1 n) : M d 1 :=
  dvar_s (minv L) (minv (mtr n n L)) A K_qx.

(* closed form: -2 G (K_xx+S)^-1 K_xq *)
Definition dvar_closed_s {d n} (Ai : M n n) (A : M d n) (K_qx : M 1 n) : M d 1 :=
  mscal (-2 # 1)%Q (mmul (dk_matrix A K_qx) (mmul Ai (mtr 1 n K_qx))).
Definition dvar_closed {d n} (Adata : M n n) (A : M d n) (K_qx : M 1 n) : M d 1 :=
  dvar_closed_s (minv Adata) A K_qx.

(* ---- mean.py: spatial_gradient ---------------------------------------------- *)
(* x.mean(axis=0) as a column:  (1/n) X^T 1 *)
Definition x_mean {n d} (X : M n d) : M d 1 :=
  mscal (1 # Pos.of_nat n)%Q (mmul (mtr n d X) (mconst 1%Q n 1)).

Definition dmean_const (d : nat) : M d 1 := mconst 0%Q d 1.
Definition dmean_linear {d} (th_lin : M d 1) : M d 1 := madd (mconst 0%Q d 1) th_lin.
Definition dmean_quadratic {n d} (X : M n d) (q th_lin th_quad : M d 1) : M d 1 :=
  madd th_lin (mhad (mscal (2 # 1)%Q (msub q (x_mean X))) th_quad).

End Derivatives.

Arguments bcast_rows {O n}.
Arguments dk_matrix {O d n}.
Arguments grad_mean_kernel {O d n}.
Arguments grad_mean {O d n}.
Arguments grad_mean_pinned {O d n}.
Arguments gcov_Q {O d n}.
Arguments grad_cov_s {O d n}.
Arguments grad_cov {O d n}.
Arguments grad_cov_pinned_s {O d n}.
Arguments grad_cov_pinned {O d n}.
Arguments grad_cov_closed_s {O d n}.
Arguments grad_cov_closed {O d n}.
Arguments grad_mean_closed_s {O d n}.
Arguments grad_mean_closed {O d n}.
Arguments dvar_Q_s {O n}.
Arguments dvar_s {O d n}.
Arguments dvar {O d n}.
Arguments dvar_closed_s {O d n}.
Arguments dvar_closed {O d n}.
Arguments x_mean {O n d}.
Arguments dmean_const {O}.
Arguments dmean_linear {O d}.
Arguments dmean_quadratic {O n d}.

(* which mean function: used by the correspondence check and by the pinned /
   repaired comparison *)
Inductive mean_kind := MConst | MLinear | MQuadratic.
