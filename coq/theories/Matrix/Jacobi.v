(* Matrix/Jacobi.v -- Jacobi's formula  d(det A) = tr(adj A dA) = det A tr(A^-1 dA)  for every
   size n, in the algebraic (derivative-free) form, and the resolvent identity for the inverse.

   The determinant of the perturbed matrix is a polynomial in the step t:

       det_perturb_poly A B  :=  \det (A%:P + 'X *: B%:P)  : {poly R},
       (det_perturb_poly A B).[t] = \det (A + t *: B)            (det_perturb_horner)

   its constant coefficient is \det A (det_perturb_coef0), its coefficient of 'X is
   \tr (\adj A *m B) (det_perturb_coef1: Leibniz expansion + the 'X-coefficient of a product of
   linear factors, matched with expand_cofactor), and it has degree at most n
   (size_det_perturb_poly).  Hence

       \det (A + t *: B) = \det A + t * \tr (\adj A *m B) + t^2 * (det_perturb_rem A B).[t]

   with det_perturb_rem A B the polynomial of the remaining coefficients, which does not depend on
   t.  The same statement at A + t *: B instead of A gives the formal derivative of the
   polynomial at every t (det_perturb_deriv).  Everything up to here is over a commutative ring;
   for invertible A, \adj A = \det A *: invmx A gives Jacobi's formula with the inverse.

   The inverse: for A and A + t *: B invertible,
       invmx (A + t *: B) = invmx A - t *: (invmx A *m B *m invmx (A + t *: B))     (exact)
   and, substituting it into itself, the first-order form with its t^2 remainder. *)
From mathcomp Require Import all_ssreflect all_algebra fingroup perm.

Set Implicit Arguments.
Unset Strict Implicit.
Unset Printing Implicit Defensive.

Import GRing.Theory.
Local Open Scope ring_scope.

(* ---- polynomials: coefficients of a product of linear factors, splitting off two terms ------ *)
Section PolyLemmas.
Variable R : comRingType.

Lemma coef0_prod_lin (I : Type) (r : seq I) (P : pred I) (a b : I -> R) :
  (\prod_(i <- r | P i) ((a i)%:P + 'X * (b i)%:P))`_0 = \prod_(i <- r | P i) a i.
Proof.
rewrite -horner_coef0 horner_prod; apply: eq_bigr => i _.
by rewrite hornerD hornerM hornerX !hornerC mul0r addr0.
Qed.

(* the 'X-coefficient of  prod_i (a_i + X b_i)  is  sum_i b_i prod_(j != i) a_j *)
Lemma coef1_prod_lin_seq (I : eqType) (r : seq I) (a b : I -> R) :
  uniq r ->
  (\prod_(i <- r) ((a i)%:P + 'X * (b i)%:P))`_1
  = \sum_(i <- r) b i * \prod_(j <- r | j != i) a j.
Proof.
elim: r => [|x r IHr] /=; first by rewrite !big_nil coef1.
case/andP=> nxr Ur; rewrite !big_cons eqxx /= mulrDl coefD coefCM -mulrA coefXM /=.
rewrite coefCM coef0_prod_lin (IHr Ur) addrC; congr (_ + _).
  congr (_ * _); rewrite [RHS]big_seq_cond [LHS]big_seq_cond; apply: eq_bigl => j.
  by rewrite andbT; case: eqP => [->|_]; rewrite ?(negbTE nxr) ?andbT.
rewrite mulr_sumr [LHS]big_seq [RHS]big_seq; apply: eq_bigr => i ir.
have nxi : (x != i) by apply: contraNneq nxr => ->.
by rewrite big_cons nxi mulrCA.
Qed.

Lemma coef1_prod_lin (I : finType) (a b : I -> R) :
  (\prod_i ((a i)%:P + 'X * (b i)%:P))`_1 = \sum_i b i * \prod_(j | j != i) a j.
Proof. by rewrite coef1_prod_lin_seq ?index_enum_uniq. Qed.

(* the part of a polynomial above 'X^1 *)
Definition poly_drop2 (p : {poly R}) : {poly R} := \poly_(i < (size p).-2) p`_i.+2.

Lemma poly_split2 (p : {poly R}) :
  p = (p`_0)%:P + p`_1 *: 'X + 'X^2 * poly_drop2 p.
Proof.
apply/polyP=> i; rewrite !coefD coefC coefZ coefX coefXnM coef_poly.
case: i => [|[|i]] /=; rewrite ?mulr0 ?mulr1 ?addr0 ?add0r // subn2 /=.
rewrite -subn2 ltn_subRL add2n; case: ltnP => // le_pi.
by rewrite nth_default.
Qed.

Lemma horner_split2 (p : {poly R}) t :
  p.[t] = p`_0 + t * p`_1 + t ^+ 2 * (poly_drop2 p).[t].
Proof.
by rewrite [in LHS](poly_split2 p) !hornerD hornerC hornerZ hornerM hornerXn hornerX mulrC.
Qed.

Lemma size_poly_drop2 (p : {poly R}) : (size (poly_drop2 p) <= (size p).-2)%N.
Proof. exact: size_poly. Qed.

End PolyLemmas.

(* ---- the determinant of A + t B as a polynomial in t --------------------------------------- *)
Section DetPerturb.
Variable R : comRingType.

Definition det_perturb_poly n (A B : 'M[R]_n) : {poly R} :=
  \det (map_mx polyC A + 'X *: map_mx polyC B).

Definition det_perturb_rem n (A B : 'M[R]_n) : {poly R} :=
  poly_drop2 (det_perturb_poly A B).

Lemma det_perturb_horner n (A B : 'M[R]_n) t :
  (det_perturb_poly A B).[t] = \det (A + t *: B).
Proof.
rewrite /det_perturb_poly -horner_evalE -(det_map_mx (horner_eval_rmorphism t)).
rewrite map_mxD map_mxZ /= horner_evalE hornerX -!map_mx_comp.
by congr (\det (_ + _ *: _)); apply: map_mx_id => x /=; rewrite horner_evalE hornerC.
Qed.

Lemma det_perturb_coef0 n (A B : 'M[R]_n) : (det_perturb_poly A B)`_0 = \det A.
Proof. by rewrite -horner_coef0 det_perturb_horner scale0r addr0. Qed.

Lemma det_perturb_leibniz n (A B : 'M[R]_n) :
  det_perturb_poly A B
  = \sum_(s : 'S_n) ((-1) ^+ s)%:P * \prod_i ((A i (s i))%:P + 'X * (B i (s i))%:P).
Proof.
rewrite /det_perturb_poly /determinant; apply: eq_bigr => s _.
rewrite (rmorph_sign (polyC_rmorphism R)); congr (_ * _).
by apply: eq_bigr => i _; rewrite !mxE.
Qed.

(* Jacobi: the coefficient of t in det (A + t B) is tr (adj A B) *)
Lemma det_perturb_coef1 n (A B : 'M[R]_n) :
  (det_perturb_poly A B)`_1 = \tr (\adj A *m B).
Proof.
rewrite det_perturb_leibniz coef_sum.
transitivity (\sum_(s : 'S_n) \sum_i
                (-1) ^+ s * (B i (s i) * \prod_(j | j != i) A j (s j))).
  by apply: eq_bigr => s _; rewrite coefCM coef1_prod_lin mulr_sumr.
rewrite exchange_big /= mxtrace_mulC /mxtrace; apply: eq_bigr => i _.
rewrite mxE.
transitivity (\sum_j B i j * cofactor A i j); last first.
  by apply: eq_bigr => j _; rewrite !mxE.
under [RHS]eq_bigr => j _ do rewrite expand_cofactor mulr_sumr.
rewrite [LHS](partition_big (fun s : 'S_n => s i) xpredT) //=.
apply: eq_bigr => j _; apply: eq_bigr => s /eqP <-.
by rewrite mulrCA; congr (_ * (_ * _)); apply: eq_bigl => k; rewrite eq_sym.
Qed.

Lemma size_det_perturb_poly n (A B : 'M[R]_n) : (size (det_perturb_poly A B) <= n.+1)%N.
Proof.
rewrite det_perturb_leibniz.
apply: (leq_trans (size_sum _ _ _)); apply/bigmax_leqP => s _.
rewrite mul_polyC; apply: (leq_trans (size_scale_leq _ _)).
apply: (leq_trans (size_prod_leq _ _)).
rewrite leq_subLR card_ord addnS ltnS.
apply: (@leq_trans (\sum_(i < n) 2)%N); last by rewrite sum_nat_const card_ord muln2 -addnn.
apply: leq_sum => i _.
apply: (leq_trans (size_add _ _)); rewrite geq_max size_polyC.
rewrite (leq_trans (leq_b1 _)) //= mulrC mul_polyC.
exact: (leq_trans (size_scale_leq _ _)) (eq_leq (size_polyX _)).
Qed.

Lemma size_det_perturb_rem n (A B : 'M[R]_n) : (size (det_perturb_rem A B) <= n.-1)%N.
Proof.
apply: (leq_trans (size_poly_drop2 _)).
have := size_det_perturb_poly A B; move: (size _) => k le_k.
by rewrite -[n.-1]/(n.+1.-2) -!subn2 leq_sub2r.
Qed.

Lemma det_perturb_sizes n (A B : 'M[R]_n) :
  (size (det_perturb_poly A B) <= n.+1)%N /\ (size (det_perturb_rem A B) <= n.-1)%N.
Proof. by split; [apply: size_det_perturb_poly | apply: size_det_perturb_rem]. Qed.

Lemma det_perturb_coefs n (A B : 'M[R]_n) :
  (det_perturb_poly A B)`_0 = \det A /\ (det_perturb_poly A B)`_1 = \tr (\adj A *m B).
Proof. by rewrite det_perturb_coef0 det_perturb_coef1. Qed.

(* (1) first-order expansion of the determinant, explicit remainder *)
Lemma det_perturb_first_order n (A B : 'M[R]_n) t :
  \det (A + t *: B)
  = \det A + t * \tr (\adj A *m B) + t ^+ 2 * (det_perturb_rem A B).[t].
Proof.
by rewrite -det_perturb_horner horner_split2 det_perturb_coef0 det_perturb_coef1.
Qed.

(* the polynomial about another base point: det (A + (t + u) B) = det ((A + t B) + u B) *)
Lemma det_perturb_shift n (A B : 'M[R]_n) t :
  det_perturb_poly A B \Po ('X + t%:P) = det_perturb_poly (A + t *: B) B.
Proof.
rewrite /det_perturb_poly.
pose f := [rmorphism of comp_poly ('X + t%:P : {poly R})].
have -> : \det (map_mx polyC A + 'X *: map_mx polyC B) \Po ('X + t%:P)
          = f (\det (map_mx polyC A + 'X *: map_mx polyC B)) by [].
rewrite -det_map_mx; congr (\det _).
apply/matrixP=> i j; rewrite !mxE /= comp_polyD comp_polyM comp_polyX !comp_polyC.
by rewrite polyCD polyCM mulrDl addrA addrAC.
Qed.

(* Jacobi at every point: the formal derivative of t |-> det (A + t B) is tr (adj (A + t B) B) *)
Lemma det_perturb_deriv n (A B : 'M[R]_n) t :
  ((det_perturb_poly A B)^`()).[t] = \tr (\adj (A + t *: B) *m B).
Proof.
rewrite -det_perturb_coef1 -det_perturb_shift.
have -> : forall p : {poly R}, p`_1 = (p^`()).[0].
  by move=> p; rewrite horner_coef0 coef_deriv mulr1n.
rewrite deriv_comp derivD derivX derivC addr0 mulr1 horner_comp.
by rewrite hornerD hornerX hornerC add0r.
Qed.

End DetPerturb.

(* ---- invertible A: Jacobi with the inverse, and the resolvent identity ------------------- *)
Section UnitPerturb.
Variable R : comUnitRingType.

Lemma adj_unitmx n (A : 'M[R]_n) : A \in unitmx -> \adj A = \det A *: invmx A.
Proof.
by move=> uA; rewrite /invmx uA scalerA divrr ?scale1r // -unitmxE.
Qed.

Lemma trace_adj_unit n (A B : 'M[R]_n) :
  A \in unitmx -> \tr (\adj A *m B) = \det A * \tr (invmx A *m B).
Proof. by move=> uA; rewrite adj_unitmx // -scalemxAl mxtraceZ. Qed.

Lemma det_perturb_coef1_unit n (A B : 'M[R]_n) :
  A \in unitmx -> (det_perturb_poly A B)`_1 = \det A * \tr (invmx A *m B).
Proof. by move=> uA; rewrite det_perturb_coef1 trace_adj_unit. Qed.

(* (2) Jacobi's formula with the inverse *)
Lemma det_perturb_first_order_unit n (A B : 'M[R]_n) t :
  A \in unitmx ->
  \det (A + t *: B)
  = \det A + t * (\det A * \tr (invmx A *m B)) + t ^+ 2 * (det_perturb_rem A B).[t].
Proof. by move=> uA; rewrite det_perturb_first_order trace_adj_unit. Qed.

Lemma det_perturb_unit n (A B : 'M[R]_n) t :
  A \in unitmx ->
  (det_perturb_poly A B)`_1 = \det A * \tr (invmx A *m B) /\
  \det (A + t *: B)
  = \det A + t * (\det A * \tr (invmx A *m B)) + t ^+ 2 * (det_perturb_rem A B).[t].
Proof. by move=> uA; rewrite det_perturb_coef1_unit // det_perturb_first_order_unit. Qed.

(* the relative form, the one of d(ln det A) = tr(A^-1 dA) *)
Lemma det_perturb_ratio n (A B : 'M[R]_n) t :
  A \in unitmx ->
  \det (A + t *: B) / \det A
  = 1 + t * \tr (invmx A *m B) + t ^+ 2 * ((det_perturb_rem A B).[t] / \det A).
Proof.
move=> uA; have ud : \det A \is a GRing.unit by rewrite -unitmxE.
rewrite det_perturb_first_order_unit // !mulrDl divrr // -!mulrA.
by rewrite [\det A * _]mulrC divrK.
Qed.

Lemma det_perturb_deriv_unit n (A B : 'M[R]_n) t :
  A + t *: B \in unitmx ->
  ((det_perturb_poly A B)^`()).[t]
  = \det (A + t *: B) * \tr (invmx (A + t *: B) *m B).
Proof. by move=> uC; rewrite det_perturb_deriv trace_adj_unit. Qed.

(* (3) the resolvent identity: exact, no remainder *)
Lemma inv_resolvent n (A B : 'M[R]_n) t :
  A \in unitmx -> A + t *: B \in unitmx ->
  invmx (A + t *: B) = invmx A - t *: (invmx A *m B *m invmx (A + t *: B)).
Proof.
move=> uA uC; set C := A + t *: B.
have -> : t *: (invmx A *m B *m invmx C) = invmx A *m (C - A) *m invmx C.
  by rewrite [C - A]addrC addKr -scalemxAr -scalemxAl.
by rewrite mulmxBr mulVmx // mulmxBl mul1mx -mulmxA mulmxV // mulmx1 opprB addrC subrK.
Qed.

Lemma inv_resolvent_r n (A B : 'M[R]_n) t :
  A \in unitmx -> A + t *: B \in unitmx ->
  invmx (A + t *: B) = invmx A - t *: (invmx (A + t *: B) *m B *m invmx A).
Proof.
move=> uA uC; set C := A + t *: B.
have -> : t *: (invmx C *m B *m invmx A) = invmx C *m (C - A) *m invmx A.
  by rewrite [C - A]addrC addKr -scalemxAr -scalemxAl.
by rewrite mulmxBr mulVmx // mulmxBl mul1mx -mulmxA mulmxV // mulmx1 opprB addrC subrK.
Qed.

(* first order in t, explicit t^2 remainder:  d(A^-1) = - A^-1 dA A^-1 *)
Lemma inv_perturb_first_order n (A B : 'M[R]_n) t :
  A \in unitmx -> A + t *: B \in unitmx ->
  invmx (A + t *: B)
  = invmx A - t *: (invmx A *m B *m invmx A)
    + t ^+ 2 *: (invmx A *m B *m invmx A *m B *m invmx (A + t *: B)).
Proof.
move=> uA uC; rewrite {1}(inv_resolvent uA uC) {1}(inv_resolvent uA uC).
rewrite mulmxBr scalerBr opprB addrA -!scalemxAr scalerA -expr2.
by rewrite addrAC !mulmxA.
Qed.

(* the data-fit term u^T A^-1 v of the marginal likelihood, same expansion *)
Lemma quad_inv_perturb_first_order n (A B : 'M[R]_n) (u v : 'cV[R]_n) t :
  A \in unitmx -> A + t *: B \in unitmx ->
  u^T *m invmx (A + t *: B) *m v
  = u^T *m invmx A *m v - t *: (u^T *m invmx A *m B *m invmx A *m v)
    + t ^+ 2 *: (u^T *m invmx A *m B *m invmx A *m B *m invmx (A + t *: B) *m v).
Proof.
move=> uA uC; rewrite {1}(inv_perturb_first_order uA uC).
by rewrite mulmxDr mulmxBr mulmxDl mulmxBl -!scalemxAr -!scalemxAl !mulmxA.
Qed.

End UnitPerturb.

(* ---- over an ordered field: the coefficient of t IS the derivative (epsilon-delta form) ---- *)
Section DetDerivative.
Variable R : realFieldType.
Import Num.Theory Order.TTheory.

Lemma horner_norm_le1 (p : {poly R}) t :
  `|t| <= 1 -> `|p.[t]| <= \sum_(i < size p) `|p`_i|.
Proof.
move=> t1; rewrite horner_coef; apply: (le_trans (ler_norm_sum _ _ _)).
apply: ler_sum => i _; rewrite normrM normrX.
by rewrite -[X in _ <= X]mulr1 ler_wpmul2l // exprn_ile1 // normr_ge0.
Qed.

(* the difference quotient of t |-> det (A + t B) at 0, exactly *)
Lemma det_perturb_quotient n (A B : 'M[R]_n) t :
  t != 0 ->
  (\det (A + t *: B) - \det A) / t - \tr (\adj A *m B) = t * (det_perturb_rem A B).[t].
Proof.
move=> t0; rewrite det_perturb_first_order.
set x := \det A; set T := \tr _; set r := _.[t].
rewrite -addrA [x + _]addrC addrK mulrDl [t * T]mulrC mulfK //.
by rewrite [T + _]addrC addrK expr2 -mulrA [t * (t * r)]mulrC mulfK.
Qed.

(* Jacobi's formula as a derivative: the difference quotient tends to tr (adj A B) *)
Lemma det_perturb_derivative n (A B : 'M[R]_n) (eps : R) :
  0 < eps ->
  exists2 delta, 0 < delta &
    forall t, t != 0 -> `|t| < delta ->
      `|(\det (A + t *: B) - \det A) / t - \tr (\adj A *m B)| < eps.
Proof.
move=> e0.
pose M := \sum_(i < size (det_perturb_rem A B)) `|(det_perturb_rem A B)`_i|.
have M0 : 0 <= M by apply: sumr_ge0 => i _; apply: normr_ge0.
have M1 : 0 < M + 1 by apply: ltr_paddl.
exists (Num.min 1 (eps / (M + 1))); first by rewrite lt_minr ltr01 divr_gt0.
move=> t t0; rewrite lt_minr => /andP[t1 tE].
rewrite det_perturb_quotient // normrM.
rewrite ltr_pdivl_mulr // in tE; apply: le_lt_trans tE.
rewrite ler_wpmul2l //.
by apply: (le_trans (horner_norm_le1 _ (ltW t1))); rewrite ler_addl.
Qed.

Lemma det_perturb_derivative_unit n (A B : 'M[R]_n) (eps : R) :
  A \in unitmx -> 0 < eps ->
  exists2 delta, 0 < delta &
    forall t, t != 0 -> `|t| < delta ->
      `|(\det (A + t *: B) - \det A) / t - \det A * \tr (invmx A *m B)| < eps.
Proof. by move=> uA; rewrite -trace_adj_unit //; apply: det_perturb_derivative. Qed.

(* at any base point t0 (the same statement for A + t0 B) *)
Lemma det_perturb_derivative_at n (A B : 'M[R]_n) (t0 eps : R) :
  0 < eps ->
  exists2 delta, 0 < delta &
    forall h, h != 0 -> `|h| < delta ->
      `|(\det (A + (t0 + h) *: B) - \det (A + t0 *: B)) / h
        - \tr (\adj (A + t0 *: B) *m B)| < eps.
Proof.
move=> e0; have [d d0 Hd] := det_perturb_derivative (A + t0 *: B) B e0.
by exists d => // h h0 hd; rewrite scalerDl addrA; apply: Hd.
Qed.

(* the relative form: the derivative of ln det is tr (A^-1 dA) once ln is available;
   here (det (A + t B) / det A - 1) / t -> tr (A^-1 B) *)
Lemma det_perturb_log_derivative n (A B : 'M[R]_n) (eps : R) :
  A \in unitmx -> 0 < eps ->
  exists2 delta, 0 < delta &
    forall t, t != 0 -> `|t| < delta ->
      `|(\det (A + t *: B) / \det A - 1) / t - \tr (invmx A *m B)| < eps.
Proof.
move=> uA e0; have d0 : \det A != 0 by rewrite -unitfE -unitmxE.
have ed0 : 0 < eps * `|\det A| by rewrite mulr_gt0 // normr_gt0.
have [d dpos Hd] := det_perturb_derivative_unit B uA ed0.
exists d => // t t0 td; have := Hd t t0 td.
rewrite -ltr_pdivr_mulr ?normr_gt0 // -normfV -normrM; congr (`|_| < _).
rewrite [(_ - _) / \det A]mulrBl [\det A * _]mulrC mulfK // [_ / t / _]mulrAC.
by congr (_ / _ - _); rewrite mulrBl divff.
Qed.

End DetDerivative.
