(* Matrix/Refinement.v -- ListOps (lists of lists of Coq's Q, what vm_compute
   runs) REFINES McOps rat (MathComp matrices over MathComp's rationals, what
   the theorems are about).

   Part 1 (this file): the scalar conversion q2r : Q -> rat and its morphism
   properties; the representation relation `repr m n l M`; one lemma per field
   of `mxops` (and per derived operation of MxOps.v) except `minv`, which is in
   Matrix/Refinement2.v together with the composition for the GP model.

   How ListOps treats dimensions (read off Matrix/ListOps.v) and the side
   conditions this forces:
     * the dimension indices are phantom, except for mid / mconst / mtr;
     * `qmul A B` reads the column count of B off B's first row, so for an
       inner dimension n = 0 it returns m EMPTY rows instead of an m x p zero
       matrix: the lemma for mmul needs  (n != 0) || (p == 0);  consequently
       msum / mtrace need n != 0 and mhadsum needs m != 0 and n != 0;
     * every other operation maps well-shaped arguments to well-shaped results
       without any condition (map2 truncates to the shorter argument, so equal
       shapes are needed for madd / mhad -- they are part of `repr`);
     * entrywise reciprocal: Qinv 0 = 0 and 0^-1 = 0 in a MathComp field, so
       the lemma for mrecip holds WITHOUT a non-zero hypothesis.
   Well-shapedness is the decidable predicate  wf_mx m n l := shape_ok m n l
   (ListOps.shape_ok: m rows, each of length n), which the generated case files
   evaluate. *)
From Coq Require Import List QArith Qabs Bool Arith ZArith Lia.
From mathcomp Require Import all_ssreflect all_algebra.
From mathcomp Require Import zify ssrZ.
From IT Require Import Matrix.MxOps Matrix.ListOps Matrix.McOps.

Set Implicit Arguments.
Unset Strict Implicit.
Unset Printing Implicit Defensive.

Import Order.TTheory GRing.Theory Num.Theory.

(* %Z and %Q are Coq's Z and Q here (ssrint / rat re-bind them to int / rat) *)
Local Delimit Scope Z_scope with Z.
Local Delimit Scope Q_scope with Q.
(* Matrix/ListOps.v opens Q_scope; here Q notations are always written %Q *)
Local Close Scope Q_scope.

(* ======================================================================== *)
(* A. lists                                                                 *)
(* ======================================================================== *)
Section ListFacts.
Variables (A B C : Type).

Lemma length_map2 (f : A -> B -> C) u v :
  length (map2 f u v) = Nat.min (length u) (length v).
Proof. by elim: u v => [|x u IH] [|y v] //=; rewrite IH. Qed.

Lemma nth_map2 (f : A -> B -> C) u v i du dv d :
  (i < length u)%coq_nat -> (i < length v)%coq_nat ->
  List.nth i (map2 f u v) d = f (List.nth i u du) (List.nth i v dv).
Proof.
elim: u v i => [|x u IH] [|y v] [|i] /=; try lia; first by [].
by move=> hu hv; apply: IH; lia.
Qed.

Lemma nth_map_in (f : A -> B) l i dA dB :
  (i < length l)%coq_nat -> List.nth i (List.map f l) dB = f (List.nth i l dA).
Proof.
move=> hi; rewrite (@List.nth_indep _ _ i dB (f dA)) ?List.map_length //.
exact: List.map_nth.
Qed.

Lemma nth_repeat_in (a : A) m i d : (i < m)%coq_nat -> List.nth i (List.repeat a m) d = a.
Proof.
move=> hi; rewrite (@List.nth_indep _ _ i d a) ?List.repeat_length //.
exact: List.nth_repeat.
Qed.

Lemma nth_combine_seq (l : list A) i d :
  (i < length l)%coq_nat ->
  List.nth i (List.combine (List.seq 0 (length l)) l) (0%N, d) = (i, List.nth i l d).
Proof.
move=> hi; rewrite List.combine_nth ?List.seq_length //.
by rewrite List.seq_nth.
Qed.

End ListFacts.

Lemma nth_map_seq (B : Type) (f : nat -> B) n i d :
  (i < n)%coq_nat -> List.nth i (List.map f (List.seq 0 n)) d = f i.
Proof.
move=> hi; rewrite (@nth_map_in _ _ _ _ _ 0%N) ?List.seq_length //.
by rewrite List.seq_nth.
Qed.


(* ======================================================================== *)
(* B. scalars:  Z -> rat  and  Q -> rat                                      *)
(* ======================================================================== *)
Local Open Scope ring_scope.

(* McOps.int_of_Z and mczify's ssrZ.int_of_Z are the same function *)
Lemma int_of_ZE z : McOps.int_of_Z z = ssrZ.int_of_Z z.
Proof. by case: z. Qed.

Definition zr (z : Z) : rat := (ssrZ.int_of_Z z)%:~R.

Lemma zr0 : zr 0%Z = 0. Proof. by []. Qed.
Lemma zr1 : zr 1%Z = 1. Proof. by rewrite /zr /= Pos2Nat.inj_1. Qed.

Lemma zrD a b : zr (a + b)%Z = zr a + zr b.
Proof. by rewrite /zr -rmorphD -[in RHS]rmorphD. Qed.

Lemma zrM a b : zr (a * b)%Z = zr a * zr b.
Proof. by rewrite /zr -rmorphM -[in RHS]rmorphM. Qed.

Lemma zrN a : zr (- a)%Z = - zr a.
Proof. by rewrite /zr -rmorphN -[in RHS]rmorphN. Qed.

Lemma zrB a b : zr (a - b)%Z = zr a - zr b.
Proof. by rewrite /Z.sub zrD zrN. Qed.

Lemma zr_inj : injective zr.
Proof. by move=> a b /intr_inj /(can_inj int_of_ZK). Qed.

Lemma zr_le a b : (zr a <= zr b) = (a <=? b)%Z.
Proof. rewrite /zr ler_int; lia. Qed.

Lemma zr_lt a b : (zr a < zr b) = (a <? b)%Z.
Proof. rewrite /zr ltr_int; lia. Qed.

Lemma zr_abs a : zr (Z.abs a) = `|zr a|.
Proof. rewrite /zr -intr_norm; congr (_%:~R); lia. Qed.

Lemma zr_pos p : 0 < zr (Zpos p).
Proof. by rewrite -zr0 zr_lt. Qed.

Lemma zr_pos_neq0 p : zr (Zpos p) != 0.
Proof. by rewrite gt_eqF // zr_pos. Qed.

Lemma zr_eq0 a : (zr a == 0) = (a =? 0)%Z.
Proof.
apply/eqP/idP => [|/Z.eqb_spec -> //].
by rewrite -zr0 => /zr_inj ->.
Qed.

(* the conversion: numerator over denominator, in MathComp's rationals.  It is
   McOps's Q2F at R = rat, so that mconst / mscal of `McOps rat` use it. *)
Definition q2r (q : Q) : rat := Q2F rat_realFieldType q.

Lemma q2rE q : q2r q = zr (Qnum q) / zr (Zpos (Qden q)).
Proof. by rewrite /q2r /Q2F int_of_ZE /zr /= -pmulrn. Qed.

Lemma q2r_0 : q2r 0%Q = 0. Proof. exact: Q2F_0. Qed.
Lemma q2r_1 : q2r 1%Q = 1. Proof. exact: Q2F_1. Qed.

Lemma q2r_make a p : q2r (a # p) = zr a / zr (Zpos p).
Proof. by rewrite q2rE. Qed.

(* Qeq -> = (and back) *)
Lemma q2r_eq_iff x y : (x == y)%Q <-> q2r x = q2r y.
Proof.
rewrite !q2rE /Qeq; split.
  move=> h; apply/eqP; rewrite eqr_div ?zr_pos_neq0 // -!zrM; apply/eqP; congr zr.
  exact: h.
by move/eqP; rewrite eqr_div ?zr_pos_neq0 // -!zrM => /eqP /zr_inj.
Qed.

Lemma q2r_eq x y : (x == y)%Q -> q2r x = q2r y.
Proof. by move/q2r_eq_iff. Qed.

Lemma q2r_eq_bool x y : Qeq_bool x y = true -> q2r x = q2r y.
Proof. by move/Qeq_bool_iff/q2r_eq. Qed.

Lemma q2r_add x y : q2r (x + y)%Q = q2r x + q2r y.
Proof.
rewrite !q2rE addf_div ?zr_pos_neq0 // /Qplus /=.
by rewrite Pos2Z.inj_mul !(zrD, zrM).
Qed.

Lemma q2r_mul x y : q2r (x * y)%Q = q2r x * q2r y.
Proof.
rewrite !q2rE mulf_div /Qmult /=.
by rewrite Pos2Z.inj_mul !zrM.
Qed.

Lemma q2r_opp x : q2r (- x)%Q = - q2r x.
Proof. by rewrite !q2rE /Qopp /= zrN mulNr. Qed.

Lemma q2r_sub x y : q2r (x - y)%Q = q2r x - q2r y.
Proof. by rewrite /Qminus q2r_add q2r_opp. Qed.

(* no non-zero hypothesis: Qinv 0 = 0 and 0^-1 = 0 *)
Lemma q2r_inv x : q2r (/ x)%Q = (q2r x)^-1.
Proof.
rewrite !q2rE /Qinv; case: x => [[|p|p] d] /=.
- by rewrite zr0 !mul0r invr0.
- by rewrite invf_div.
- rewrite invf_div -[Z.neg d]/(- Z.pos d)%Z -[Z.neg p]/(- Z.pos p)%Z !zrN.
  by rewrite invrN mulrN mulNr.
Qed.

Lemma q2r_div x y : q2r (x / y)%Q = q2r x / q2r y.
Proof. by rewrite /Qdiv q2r_mul q2r_inv. Qed.

Lemma q2r_le x y : (x <= y)%Q <-> q2r x <= q2r y.
Proof.
rewrite !q2rE /Qle ler_pdivr_mulr ?zr_pos // mulrAC ler_pdivl_mulr ?zr_pos //.
rewrite -!zrM zr_le; split; first by move/Z.leb_spec0.
by move/Z.leb_spec0.
Qed.

Lemma q2r_lt x y : (x < y)%Q <-> q2r x < q2r y.
Proof.
rewrite !q2rE /Qlt ltr_pdivr_mulr ?zr_pos // mulrAC ltr_pdivl_mulr ?zr_pos //.
rewrite -!zrM zr_lt; split; first by move/Z.ltb_spec0.
by move/Z.ltb_spec0.
Qed.

Lemma q2r_le_bool x y : Qle_bool x y = (q2r x <= q2r y).
Proof.
apply/idP/idP; first by move/Qle_bool_iff/q2r_le.
by move/q2r_le/Qle_bool_iff.
Qed.

Lemma q2r_abs x : q2r (Qabs x) = `|q2r x|.
Proof.
rewrite !q2rE; case: x => [a d] /=.
by rewrite normf_div zr_abs (gtr0_norm (zr_pos d)).
Qed.

Lemma q2r_red x : q2r (Qred x) = q2r x.
Proof. exact/q2r_eq/Qred_correct. Qed.

(* q2r is onto: every MathComp rational is the image of a Coq rational (so
   `repr` below relates SOME list to every matrix) *)
Lemma q2r_surj (r : rat) : exists q : Q, q2r q = r.
Proof.
have hd : (0 < Z_of_int (denq r))%Z by have := denq_gt0 r; lia.
exists (Z_of_int (numq r) # Z.to_pos (Z_of_int (denq r)))%Q.
rewrite q2r_make /zr Z2Pos.id // !Z_of_intK.
by rewrite divq_num_den.
Qed.

(* all of the above in one statement *)
Lemma q2r_morphism :
  [/\ q2r 0%Q = 0, q2r 1%Q = 1,
      forall x y, q2r (x + y)%Q = q2r x + q2r y,
      forall x y, q2r (x * y)%Q = q2r x * q2r y
    & forall x, q2r (- x)%Q = - q2r x] /\
  [/\ forall x, q2r (/ x)%Q = (q2r x)^-1,
      forall x y, (x == y)%Q <-> q2r x = q2r y,
      forall x y, (x <= y)%Q <-> q2r x <= q2r y,
      forall x y, (x < y)%Q <-> q2r x < q2r y
    & forall x, q2r (Qabs x) = `|q2r x|] /\
  (forall r : rat, exists q : Q, q2r q = r).
Proof.
split; first by split; [exact: q2r_0 | exact: q2r_1 | exact: q2r_add | exact: q2r_mul | exact: q2r_opp].
split; last exact: q2r_surj.
by split; [exact: q2r_inv | exact: q2r_eq_iff | exact: q2r_le | exact: q2r_lt | exact: q2r_abs].
Qed.

(* ======================================================================== *)
(* C. the scalar operations of ListOps compute Qplus / Qmult / Qopp / Qinv   *)
(*    up to Qeq (they only change representations)                           *)
(* ======================================================================== *)
Lemma qz_eq0 x : qz x = true -> (x == 0)%Q.
Proof. by rewrite /qz /Qeq; case: (Qnum x). Qed.

Lemma div_eucl_exact a b q :
  Z.div_eucl (Zpos a) (Zpos b) = (q, 0%Z) -> Zpos a = (Zpos b * q)%Z.
Proof.
move=> h; have nz : Zpos b <> 0%Z by [].
have := Z_div_mod_full (Zpos a) (Zpos b) nz.
rewrite h => -[-> _]; lia.
Qed.

Lemma qplus'_correct x y : (qplus' x y == x + y)%Q.
Proof.
rewrite /qplus'.
case hx: (qz x); first by rewrite (qz_eq0 hx) Qplus_0_l.
case hy: (qz y); first by rewrite (qz_eq0 hy) Qplus_0_r.
move=> {hx hy}; set dx := Qden x; set dy := Qden y.
case: (Pos.eqb_spec dx dy) => [e|_].
  rewrite /Qeq /Qplus /= -/dx -/dy e Pos2Z.inj_mul; lia.
case: (Pos.leb dx dy).
  case hd: (Z.div_eucl (Zpos dy) (Zpos dx)) => [q r].
  case: (Z.eqb_spec r 0) => [r0|_]; last exact: Qred_correct.
  rewrite r0 in hd; have e := div_eucl_exact hd.
  rewrite /Qeq /Qplus /= -/dx -/dy Pos2Z.inj_mul e; lia.
case hd: (Z.div_eucl (Zpos dx) (Zpos dy)) => [q r].
case: (Z.eqb_spec r 0) => [r0|_]; last exact: Qred_correct.
rewrite r0 in hd; have e := div_eucl_exact hd.
rewrite /Qeq /Qplus /= -/dx -/dy Pos2Z.inj_mul e; lia.
Qed.

Lemma qmult'_correct x y : (qmult' x y == x * y)%Q.
Proof.
rewrite /qmult'; case hx: (qz x) => /=; first by rewrite (qz_eq0 hx) Qmult_0_l.
by case hy: (qz y) => //; rewrite (qz_eq0 hy) Qmult_0_r.
Qed.

Lemma q2r_qplus' x y : q2r (qplus' x y) = q2r x + q2r y.
Proof. by rewrite (q2r_eq (qplus'_correct x y)) q2r_add. Qed.

Lemma q2r_qmult' x y : q2r (qmult' x y) = q2r x * q2r y.
Proof. by rewrite (q2r_eq (qmult'_correct x y)) q2r_mul. Qed.

Lemma q2r_qopp' x : q2r (qopp' x) = - q2r x.
Proof. exact: q2r_opp. Qed.

Lemma q2r_qinv_sc x : q2r (qinv_sc x) = (q2r x)^-1.
Proof. by rewrite /qinv_sc q2r_red q2r_inv. Qed.

(* ======================================================================== *)
(* D. matrices: shape, entries, the representation relation                  *)
(* ======================================================================== *)
Definition qget (l : qmat) (i j : nat) : Q := List.nth j (List.nth i l nil) 0%Q.

(* decidable well-shapedness: m rows, each of length n (ListOps.shape_ok) *)
Definition wf_mx (m n : nat) (l : qmat) : bool := shape_ok m n l.

Lemma wf_mx_iff m n l :
  wf_mx m n l = true <->
  length l = m /\ (forall i, (i < m)%coq_nat -> length (List.nth i l nil) = n).
Proof.
rewrite /wf_mx /shape_ok; split.
  move/andb_prop => [/Nat.eqb_spec hl /List.forallb_forall hr]; split=> // i hi.
  by apply/Nat.eqb_spec/hr/List.nth_In; rewrite hl.
move=> [hl hr]; apply/andb_true_intro; split; first exact/Nat.eqb_spec.
apply/List.forallb_forall => r /(@List.In_nth _ _ _ nil) [i [hi <-]].
by apply/Nat.eqb_spec/hr; rewrite -hl.
Qed.

Lemma wf_mx_length m n l : wf_mx m n l = true -> length l = m.
Proof. by move/wf_mx_iff => []. Qed.

Lemma wf_mx_row m n l i :
  wf_mx m n l = true -> (i < m)%coq_nat -> length (List.nth i l nil) = n.
Proof. by move/wf_mx_iff => [_]; apply. Qed.

(* the matrix a well-shaped list stands for *)
Definition mx_of m n (l : qmat) : 'M[rat]_(m, n) := \matrix_(i, j) q2r (qget l i j).

(* l represents M: l is m x n and its (i,j) entry maps to M i j.  Entries of l
   are thereby compared up to Qeq (q2r x = q2r y <-> x == y, q2r_eq_iff). *)
Definition repr m n (l : qmat) (M : 'M[rat]_(m, n)) : Prop :=
  wf_mx m n l = true /\ forall (i : 'I_m) (j : 'I_n), q2r (qget l i j) = M i j.

Lemma repr_mx_of m n l (M : 'M[rat]_(m, n)) :
  repr l M <-> wf_mx m n l = true /\ mx_of m n l = M.
Proof.
split=> -[wf h]; split=> //; first by apply/matrixP => i j; rewrite mxE.
by move=> i j; rewrite -h mxE.
Qed.

Lemma repr_wf m n l (M : 'M[rat]_(m, n)) : repr l M -> wf_mx m n l = true.
Proof. by case. Qed.

(* a well-shaped list represents its own matrix; every matrix is represented *)
Lemma repr_self m n l : wf_mx m n l = true -> repr l (mx_of m n l).
Proof. by move=> wf; apply/repr_mx_of. Qed.

Lemma repr_fun m n l (M M' : 'M[rat]_(m, n)) : repr l M -> repr l M' -> M = M'.
Proof. by move=> [_ h] [_ h']; apply/matrixP => i j; rewrite -h -h'. Qed.

Lemma repr_ext m n l (M M' : 'M[rat]_(m, n)) :
  repr l M -> (forall i j, M i j = M' i j) -> repr l M'.
Proof. by move=> [wf h] e; split=> // i j; rewrite h. Qed.

(* two lists representing the same matrix agree entry by entry up to Qeq *)
Lemma repr_Qeq m n l l' (M : 'M[rat]_(m, n)) (i : 'I_m) (j : 'I_n) :
  repr l M -> repr l' M -> (qget l i j == qget l' i j)%Q.
Proof. by move=> [_ h] [_ h']; apply/q2r_eq_iff; rewrite h h'. Qed.

Lemma repr_intro m n l (M : 'M[rat]_(m, n)) :
  length l = m ->
  (forall i, (i < m)%coq_nat -> length (List.nth i l nil) = n) ->
  (forall (i : 'I_m) (j : 'I_n), q2r (qget l i j) = M i j) -> repr l M.
Proof. by move=> hl hr he; split=> //; apply/wf_mx_iff. Qed.

Lemma ordP n (i : 'I_n) : (i < n)%coq_nat.
Proof. exact/ssrnat.ltP. Qed.

(* entrywise unary and binary operations *)
Lemma repr_map (f : Q -> Q) (g : rat -> rat) m n A (M : 'M[rat]_(m, n)) :
  (forall x, q2r (f x) = g (q2r x)) ->
  repr A M -> repr (List.map (List.map f) A) (\matrix_(i, j) g (M i j)).
Proof.
move=> fg [/wf_mx_iff [hl hr] he]; apply: repr_intro.
- by rewrite List.map_length.
- move=> i hi; rewrite (@nth_map_in _ _ _ _ _ nil) ?hl //.
  by rewrite List.map_length hr.
- move=> i j; rewrite mxE /qget (@nth_map_in _ _ _ _ _ nil) ?hl; last exact: ordP.
  rewrite (@nth_map_in _ _ _ _ _ 0%Q) ?hr; try exact: ordP.
  by rewrite fg; congr g; apply: he.
Qed.

Lemma repr_map2 (f : Q -> Q -> Q) (g : rat -> rat -> rat) m n A B
    (MA MB : 'M[rat]_(m, n)) :
  (forall x y, q2r (f x y) = g (q2r x) (q2r y)) ->
  repr A MA -> repr B MB ->
  repr (map2 (map2 f) A B) (\matrix_(i, j) g (MA i j) (MB i j)).
Proof.
move=> fg [/wf_mx_iff [hlA hrA] heA] [/wf_mx_iff [hlB hrB] heB]; apply: repr_intro.
- rewrite length_map2 hlA hlB; lia.
- move=> i hi; rewrite (@nth_map2 _ _ _ _ _ _ _ nil nil) ?hlA ?hlB //.
  rewrite length_map2 hrA ?hrB //; lia.
- move=> i j; rewrite mxE /qget (@nth_map2 _ _ _ _ _ _ _ nil nil) ?hlA ?hlB; try exact: ordP.
  rewrite (@nth_map2 _ _ _ _ _ _ _ 0%Q 0%Q) ?hrA ?hrB; try exact: ordP.
  by rewrite fg; congr g; [apply: heA | apply: heB].
Qed.

(* ======================================================================== *)
(* E. one lemma per field of `mxops`:  ListOps refines McOps rat             *)
(* ======================================================================== *)
(* ListOps.qinv lets an elimination on Bignums' BigZ (machine integers,
   Uint63 primitives) PROPOSE the inverse and then verifies the proposal with
   plain Z / Q arithmetic.  Nothing is proved about the proposing function, so
   it is made a parameter: `ListOpsOf propose` is ListOps with an arbitrary
   proposing function, every lemma below is proved for every `propose`, and
   ListOps itself is the instance  propose := bareiss_big  BY DEFINITION
   (ListOps_is_ListOpsOf, proved by reflexivity).  This also keeps the lemmas
   free of the Uint63 primitives that the constant `ListOps` mentions. *)
Section Oracle.
Variable propose : nat -> zmat -> option (zmat * Z).

Definition qinv_with_flag_of (n : nat) (A : qmat) : qmat * bool :=
  let D := common_den A in
  let N := to_zmat D A in
  match propose n N with
  | None => (nil, false)
  | Some (R, d) =>
      let ok :=
        negb (Nat.eqb n 0) && negb (Z.eqb d 0) &&
        shape_ok n n A && zshape_ok n n R &&
        qmat_eqb A (List.map (List.map (fun z => (z # D)%Q)) N) &&
        zmat_eqb (zmul n N R) (List.map (List.map (fun z => (d * z)%Z)) (zid n)) in
      let sd := Z.sgn d in
      let ad := match Z.abs d with Zpos p => p | _ => 1%positive end in
      (List.map (List.map (fun z => ((sd * Zpos D * z)%Z # ad)%Q)) R, ok)
  end.

Definition qinv_ok_of (n : nat) (A : qmat) : bool := snd (qinv_with_flag_of n A).

Definition qinv_of (n : nat) (A : qmat) : qmat :=
  let r := qinv_with_flag_of n A in if snd r then fst r else nil.

Definition ListOpsOf : mxops :=
  {| mx      := fun _ _ => qmat;
     mmul    := fun _ _ _ => qmul;
     madd    := fun _ _ => qadd;
     mopp    := fun _ _ => qopp;
     mtr     := qtr;
     minv    := qinv_of;
     mid     := qid;
     mconst  := qconst;
     mscal   := fun c _ _ => qscal c;
     mhad    := fun _ _ => qhad;
     mrecip  := fun _ _ => qrecip;
     mabs    := fun _ _ => qabs;
     mdiagv  := fun _ => qdiagv;
     mdiagof := fun _ => qdiagof |}.

End Oracle.

Lemma qinv_is_qinv_of : qinv = qinv_of bareiss_big.
Proof. by []. Qed.

Lemma qinv_ok_is_qinv_ok_of : qinv_ok = qinv_ok_of bareiss_big.
Proof. by []. Qed.

Lemma ListOps_is_ListOpsOf : ListOps = ListOpsOf bareiss_big.
Proof. by []. Qed.

Notation MO := (McOps rat_realFieldType).

Section WithOracle.
Variable propose : nat -> zmat -> option (zmat * Z).
Notation LO := (ListOpsOf propose).

Section Fields.
Variables (m n : nat).
Implicit Types (A B : qmat) (MA MB : 'M[rat]_(m, n)).

Lemma repr_madd A B MA MB :
  repr A MA -> repr B MB -> repr (@madd LO m n A B) (@madd MO m n MA MB).
Proof.
move=> hA hB; apply: (repr_ext (repr_map2 q2r_qplus' hA hB)) => i j.
by rewrite !mxE.
Qed.

Lemma repr_mopp A MA : repr A MA -> repr (@mopp LO m n A) (@mopp MO m n MA).
Proof.
move=> hA; apply: (repr_ext (repr_map q2r_qopp' hA)) => i j.
by rewrite !mxE.
Qed.

Lemma repr_msub A B MA MB :
  repr A MA -> repr B MB -> repr (@msub LO m n A B) (@msub MO m n MA MB).
Proof. by move=> hA hB; apply: repr_madd => //; apply: repr_mopp. Qed.

Lemma repr_mscal c A MA : repr A MA -> repr (@mscal LO c m n A) (@mscal MO c m n MA).
Proof.
move=> hA; apply: (repr_ext (repr_map (g := fun x => q2r c * x) _ hA)).
  by move=> x; rewrite q2r_qmult'.
by move=> i j; rewrite !mxE.
Qed.

Lemma repr_mhad A B MA MB :
  repr A MA -> repr B MB -> repr (@mhad LO m n A B) (@mhad MO m n MA MB).
Proof.
move=> hA hB; apply: (repr_ext (repr_map2 q2r_qmult' hA hB)) => i j.
by rewrite !mxE.
Qed.

(* no hypothesis on the entries: 1/0 is 0 on both sides *)
Lemma repr_mrecip A MA : repr A MA -> repr (@mrecip LO m n A) (@mrecip MO m n MA).
Proof.
move=> hA; apply: (repr_ext (repr_map q2r_qinv_sc hA)) => i j.
by rewrite !mxE.
Qed.

Lemma repr_mabs A MA : repr A MA -> repr (@mabs LO m n A) (@mabs MO m n MA).
Proof.
move=> hA; apply: (repr_ext (repr_map q2r_abs hA)) => i j.
by rewrite !mxE.
Qed.

Lemma repr_mtr A MA : repr A MA -> repr (@mtr LO m n A) (@mtr MO m n MA).
Proof.
move=> [/wf_mx_iff [hl hr] he]; apply: repr_intro.
- by rewrite /= /qtr List.map_length List.seq_length.
- move=> j hj; rewrite /= /qtr nth_map_seq //.
  by rewrite /qcol List.map_length.
- move=> j i; rewrite /= /qget /qtr nth_map_seq; last exact: ordP.
  rewrite /qcol (@nth_map_in _ _ _ _ _ nil) ?hl; last exact: ordP.
  by rewrite mxE -he.
Qed.

Lemma repr_mconst c : repr (@mconst LO c m n) (@mconst MO c m n).
Proof.
apply: repr_intro.
- by rewrite /= /qconst List.repeat_length.
- by move=> i hi; rewrite /= /qconst nth_repeat_in // List.repeat_length.
- move=> i j; rewrite /= /qget /qconst nth_repeat_in; last exact: ordP.
  by rewrite nth_repeat_in ?mxE //; exact: ordP.
Qed.

End Fields.

Lemma repr_mid n : repr (@mid LO n) (@mid MO n).
Proof.
apply: repr_intro.
- by rewrite /= /qid List.map_length List.seq_length.
- by move=> i hi; rewrite /= /qid nth_map_seq // List.map_length List.seq_length.
- move=> i j; rewrite /= /qget /qid nth_map_seq; last exact: ordP.
  rewrite nth_map_seq; last exact: ordP.
  rewrite mxE -val_eqE /=; case: (Nat.eqb_spec i j) => [->|ne].
    by rewrite eqxx q2r_1.
  by rewrite q2r_0; case: eqP.
Qed.

Lemma repr_mdiagv n v (V : 'M[rat]_(n, 1)) :
  repr v V -> repr (@mdiagv LO n v) (@mdiagv MO n V).
Proof.
move=> [/wf_mx_iff [hl hr] he].
have hc : length (List.combine (List.seq 0 (length v)) v) = n.
  rewrite List.combine_length List.seq_length hl; lia.
apply: repr_intro.
- by rewrite /= /qdiagv List.map_length.
- move=> i hi; rewrite /= /qdiagv (@nth_map_in _ _ _ _ _ (0%N, nil)) ?hc //.
  by rewrite List.map_length List.seq_length.
- move=> i j; rewrite /= /qget /qdiagv (@nth_map_in _ _ _ _ _ (0%N, nil)) ?hc; last exact: ordP.
  rewrite nth_combine_seq ?hl; last exact: ordP.
  rewrite nth_map_seq /=; last exact: ordP.
  rewrite /mc_diagv !mxE -val_eqE /=; case: (Nat.eqb_spec i j) => [e|ne]; last first.
    by rewrite q2r_0; case: eqP.
  rewrite e eqxx mulr1n -(he i ord0) /qget /=.
  have -> : i = j by exact: val_inj.
  by case: (List.nth j v nil).
Qed.

Lemma repr_mdiagof n A (M : 'M[rat]_n) :
  repr A M -> repr (@mdiagof LO n A) (@mdiagof MO n M).
Proof.
move=> [/wf_mx_iff [hl hr] he].
have hc : length (List.combine (List.seq 0 (length A)) A) = n.
  rewrite List.combine_length List.seq_length hl; lia.
apply: repr_intro.
- by rewrite /= /qdiagof List.map_length.
- by move=> i hi; rewrite /= /qdiagof (@nth_map_in _ _ _ _ _ (0%N, nil)) ?hc.
- move=> i j; rewrite /= /qget /qdiagof (@nth_map_in _ _ _ _ _ (0%N, nil)) ?hc; last exact: ordP.
  rewrite nth_combine_seq ?hl; last exact: ordP.
  by rewrite ord1 /= /mc_diagof mxE -he.
Qed.

(* ---- product ------------------------------------------------------------ *)
Lemma q2r_qdot n u v :
  length u = n -> length v = n ->
  q2r (qdot u v) = \sum_(k < n) q2r (List.nth k u 0%Q) * q2r (List.nth k v 0%Q).
Proof.
elim: u v n => [|x u IH] [|y v] [|n] //=; first by rewrite big_ord0 q2r_0.
move=> [hu] [hv]; rewrite q2r_qplus' q2r_qmult' big_ord_recl /=; congr (_ + _).
exact: IH.
Qed.

(* ListOps reads the column count of B off its first row *)
Lemma ncols_wf n p B : wf_mx n p B = true -> (n != 0%N) || (p == 0%N) -> ncols B = p.
Proof.
move=> /wf_mx_iff [hl hr]; case: B hl hr => [|r B] /= hl hr.
  by rewrite -hl /= => /eqP.
by move=> _; rewrite -(hr 0%N) // -hl; lia.
Qed.

(* the side condition: an inner dimension 0 with p > 0 columns is the one case
   in which qmul returns an ill-shaped result (m empty rows) *)
Lemma repr_mmul m n p A B (MA : 'M[rat]_(m, n)) (MB : 'M[rat]_(n, p)) :
  (n != 0%N) || (p == 0%N) ->
  repr A MA -> repr B MB -> repr (@mmul LO m n p A B) (@mmul MO m n p MA MB).
Proof.
move=> cnd hA hB.
have hBt : repr (qtr (length B) (ncols B) B) MB^T.
  rewrite (ncols_wf (repr_wf hB) cnd) (wf_mx_length (repr_wf hB)).
  exact: (@repr_mtr n p).
case: hA hBt => [/wf_mx_iff [hlA hrA] heA] [/wf_mx_iff [hlT hrT] heT].
rewrite /= /qmul; set Bt := qtr _ _ _ in hlT hrT heT *.
apply: repr_intro.
- by rewrite List.map_length.
- move=> i hi; rewrite (@nth_map_in _ _ _ _ _ nil) ?hlA //.
  by rewrite List.map_length.
- move=> i j; rewrite /qget (@nth_map_in _ _ _ _ _ nil) ?hlA; last exact: ordP.
  rewrite (@nth_map_in _ _ _ _ _ nil) ?hlT; last exact: ordP.
  rewrite (@q2r_qdot n) ?hrA ?hrT //; try exact: ordP.
  rewrite mxE; apply: eq_bigr => k _.
  by have := heT j k; rewrite mxE -heA => <-.
Qed.

(* ---- the derived operations of MxOps.v ------------------------------------ *)
Lemma repr_msum n v (V : 'M[rat]_(n, 1)) :
  n != 0%N -> repr v V -> repr (@msum LO n v) (@msum MO n V).
Proof.
move=> n0 hv; apply: repr_mmul => //; first by rewrite n0.
exact: repr_mconst.
Qed.

Lemma repr_mtrace n A (M : 'M[rat]_n) :
  n != 0%N -> repr A M -> repr (@mtrace LO n A) (@mtrace MO n M).
Proof. by move=> n0 hA; apply: repr_msum => //; apply: repr_mdiagof. Qed.

Lemma repr_mhadsum m n A B (MA MB : 'M[rat]_(m, n)) :
  m != 0%N -> n != 0%N ->
  repr A MA -> repr B MB -> repr (@mhadsum LO m n A B) (@mhadsum MO m n MA MB).
Proof.
move=> m0 n0 hA hB; apply: repr_mmul; [by rewrite m0 | exact: repr_mconst |].
apply: repr_mmul; [by rewrite n0 | exact: repr_mhad | exact: repr_mconst].
Qed.

End WithOracle.

(* ---- how the case files build matrices from vectors and scalars ------------ *)
Lemma repr_col_of (v : qvec) :
  repr (col_of v) (\col_(i < length v) q2r (List.nth i v 0%Q)).
Proof.
apply: repr_intro.
- by rewrite /col_of List.map_length.
- by move=> i hi; rewrite /col_of (@nth_map_in _ _ _ _ _ 0%Q).
- move=> i j; rewrite /qget /col_of (@nth_map_in _ _ _ _ _ 0%Q); last exact: ordP.
  by rewrite ord1 mxE.
Qed.

Lemma repr_row_of (v : qvec) :
  repr (row_of v) (\row_(j < length v) q2r (List.nth j v 0%Q)).
Proof.
apply: repr_intro => //; first by case=> [|i] //; lia.
by move=> i j; rewrite ord1 mxE.
Qed.

Lemma repr_scalar_of (x : Q) : repr (scalar_of x) ((q2r x)%:M : 'M[rat]_1).
Proof.
apply: repr_intro => //; first by case=> [|i] //; lia.
by move=> i j; rewrite !ord1 mxE eqxx mulr1n.
Qed.

(* ---- comparison: an exact test that succeeds means equal matrices ----------- *)
Lemma forallb_combine_nth (T : Type) (f : T * T -> bool) (u v : list T) i d :
  List.forallb f (List.combine u v) = true ->
  length u = length v -> (i < length u)%coq_nat ->
  f (List.nth i u d, List.nth i v d) = true.
Proof.
move=> /List.forallb_forall h e hi; apply: h.
rewrite -List.combine_nth //; apply: List.nth_In.
by rewrite List.combine_length -e; lia.
Qed.

Lemma qmat_eqb_get A B i j :
  qmat_eqb A B = true -> (i < length A)%coq_nat -> (j < length (List.nth i A nil))%coq_nat ->
  (qget A i j == qget B i j)%Q.
Proof.
rewrite /qmat_eqb => /andb_prop [/Nat.eqb_spec hl hall] hi hj.
have /andb_prop [/Nat.eqb_spec hr hrow] := @forallb_combine_nth _ _ _ _ _ nil hall hl hi.
by have /Qeq_bool_iff := @forallb_combine_nth _ _ _ _ _ 0%Q hrow hr hj.
Qed.

Lemma qmat_eqb_repr m n A B (MA MB : 'M[rat]_(m, n)) :
  qmat_eqb A B = true -> repr A MA -> repr B MB -> MA = MB.
Proof.
move=> e [/wf_mx_iff [hlA hrA] heA] [_ heB]; apply/matrixP => i j.
rewrite -heA -heB; apply/q2r_eq/(qmat_eqb_get e); rewrite ?hlA ?hrA //; exact: ordP.
Qed.

(* ---- composition made mechanical ------------------------------------------- *)
(* `repr_mx` proves  repr (t at ListOps) (t at McOps rat)  for a term t built
   from the operations above by applying the matching lemma at each node;
   what is left are the leaves (repr of the inputs) and the side conditions
   of mmul / msum. *)
Ltac repr_mx :=
  repeat first
    [ assumption
    | apply: repr_madd | apply: repr_msub | apply: repr_mopp | apply: repr_mscal
    | apply: repr_mhad | apply: repr_mrecip | apply: repr_mabs | apply: repr_mtr
    | apply: repr_mconst | apply: repr_mid | apply: repr_mdiagv | apply: repr_mdiagof
    | apply: repr_mmul ].
