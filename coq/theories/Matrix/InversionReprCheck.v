(* Matrix/InversionReprCheck.v -- correspondence check of Model/InversionRepr.v (property C17),
   evaluated by vm_compute in coq/gen/C17/typed.v.

   A `typed_case` holds the hyper-parameter vector AS THE CALLER HANDED IT OVER (entries
   NInt / NFlt: an integer array, a list / tuple of Python ints, ... or floats), the float
   values the harness used for the reference kernel matrices, and the lin_case read from
   that call (Matrix/InversionCheck.v).  Obligations:

     0  the values of the vector handed over are the reference values, one per gradient entry
     1  the reported gradient = gradient_reported grad_buffer (model gradient) theta
        (tolerances t_gm / t_g of the lin_case)
     2  diagnostic: NOT (theta is an integer vector, 1 fails, and the reported gradient is the
        model gradient truncated toward zero = gradient_reported grad_buffer_like) *)
From Coq Require Import List QArith Qabs Bool Arith.
From IT Require Import Matrix.MxOps Matrix.ListOps Matrix.Inversion Matrix.InversionCheck.
From IT Require Import Model.InversionRepr.
Import ListNotations.
Open Scope Q_scope.

Record typed_case := TypedCase { tc_theta : list num; tc_float : list Q; tc_lin : lin_case }.

(* the gradient of the model (mean-function part, kernel part), as in check_lin obligation 6 *)
Definition lin_model_grad (c : lin_case) : list Q * list Q :=
  let m := l_m c in let n := l_n c in
  let A := l_A c in let K := l_K c in
  let e := col_of (l_err c) in
  let Sg := @lin_sigma ListOps m e in
  let J := @lin_J ListOps m n A K Sg in
  let Ji := qinv m J in
  let r := lin_resid c in
  let alpha := @lin_alpha ListOps m Ji r in
  let gm := map (fun dmu => entry11 (@lin_grad_mean ListOps m alpha
                                       (@lin_f ListOps m n A (col_of dmu)))) (l_dmu c) in
  let Qm := @lin_grad_Q ListOps m alpha Ji in
  let gc := map (fun dK => entry11 (@lin_grad_cov_of ListOps m Qm
                                      (@lin_dJ ListOps m n A dK))) (l_dK c) in
  (gm, gc).

Definition close_list (tol : Q) (a b : list Q) : bool :=
  Nat.eqb (length a) (length b)
  && forallb (fun p => Qle_bool (Qabs (fst p - snd p)) tol) (combine a b).

Definition same_values (a b : list Q) : bool :=
  Nat.eqb (length a) (length b) && forallb (fun p => Qeq_bool (fst p) (snd p)) (combine a b).

Definition check_typed_obligations (c : typed_case) : list bool :=
  let l := tc_lin c in
  let th := tc_theta c in
  let '(gm, gc) := lin_model_grad l in
  let nm := length gm in
  let rep buf := gradient_reported buf (fun _ => gm ++ gc) th in
  let close g := close_list (t_gm l) (firstn nm g) (o_grad_mean l)
                 && close_list (t_g l) (skipn nm g) (o_grad_cov l) in
  let ob1 := close (rep grad_buffer) in
  [ (* 0 *) same_values (eval_at (fun v => v) th) (tc_float c)
            && Nat.eqb (length th) (nm + length gc);
    (* 1 *) ob1;
    (* 2 *) negb (store_eqb (store_of th) SInt && negb ob1 && close (rep grad_buffer_like)) ].

Definition check_typed (c : typed_case) : list nat := failing_obligations 0 (check_typed_obligations c).
Definition failing_typed (cs : list typed_case) : list nat := flatten_failures 0 (map check_typed cs).
