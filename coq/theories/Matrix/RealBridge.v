(* Matrix/RealBridge.v -- the bridge between the matrix theorems (MathComp, any realFieldType)
   and the analysis lemmas (Coq's reals, Coquelicot).

   Common/Rstruct.v makes Coq's R a realFieldType whose operations are the ones of Reals by
   conversion.  Here the matrix theorems of Matrix/Jacobi.v are instantiated at R and read as
   statements of Coquelicot, for EVERY size n:

     det_is_derive        t |-> det (A + t B) is differentiable at every t0, with derivative
                          tr (adj (A + t0 B) B)                                (Jacobi's formula)
     is_derive_ln_det     0 < det A ->  d/dt ln det (A + t B) at 0  =  tr (A^-1 B)
     is_derive_quad_inv   det A != 0 -> d/dt u^T (A + t B)^-1 v at 0 = - u^T A^-1 B A^-1 v
     is_derive_ml_score   the directional derivative of the log marginal likelihood
                          -1/2 r^T A^-1 r - 1/2 ln det A  along dA is the trace form
                          1/2 (alpha^T dA alpha - tr (A^-1 dA)),  alpha = A^-1 r  (A symmetric)

   Route.  det (A + t B) is a polynomial in t; Jacobi.v already has the epsilon-delta form of
   its derivative over any realFieldType (det_perturb_derivative_at), which at R is literally
   Reals' derivable_pt_lim, hence Coquelicot's is_derive (is_derive_Reals).  The logarithm is the
   chain rule with is_derive_ln.  For the inverse: every entry of adj (A + t B) is, up to sign, the
   determinant of a minor of A + t B, i.e. again det (A' + t B'), hence differentiable; det is
   continuous and nonzero at 0, so A + t B stays invertible near 0 and there
   (A + t B)^-1 = adj / det is differentiable; the exact second-order expansion
   quad_inv_perturb_first_order then identifies the derivative. *)
From Coq Require Import Reals Lra.
From mathcomp Require Import all_ssreflect all_algebra.
From Coquelicot Require Import Coquelicot.
From IT Require Import Common.Rstruct Matrix.Jacobi.
From IT Require Import Matrix.MxOps Matrix.McOps Matrix.GpModel Matrix.Selection.
From IT Require Import Proofs.GpProofs Proofs.SelectionProofs.
From IT Require Import RealModel.SelectionValue Proofs.SelectionValueProofs.

Set Implicit Arguments.
Unset Strict Implicit.
Unset Printing Implicit Defensive.

(* ---- a Coquelicot-only step: a function with an exact expansion c - t q + t^2 g(t), g
        differentiable at 0, has derivative -q at 0 ------------------------------------------- *)
Section Expansion.
Local Open Scope R_scope.

Lemma is_derive_expansion (g : R -> R) (c q g' : R) :
  is_derive g 0 g' ->
  is_derive (fun t : R => c - t * q + t ^ 2 * g t) 0 (- q).
Proof.
move=> Hg; auto_derive.
  by exists g'.
by rewrite (is_derive_unique _ _ _ Hg); ring.
Qed.

(* a quadratic in t: the mean direction of the score *)
Lemma is_derive_quadratic (c0 x c2 k : R) :
  is_derive (fun t : R => - / 2 * (c0 - t * (2 * x) + t * t * c2) - k) 0 x.
Proof. by auto_derive => //; field. Qed.

(* a derivative at t0 is the derivative at 0 of the shifted function *)
Lemma is_derive_shift (F : R -> R) (t0 l : R) :
  is_derive (fun h : R => F (t0 + h)) 0 l -> is_derive F t0 l.
Proof.
move=> H.
apply: (is_derive_ext (fun t : R => (fun h : R => F (t0 + h)) (t - t0))) => [t|].
  by congr F; ring.
have -> : l = scal 1 l by rewrite /scal /= /mult /= Rmult_1_l.
apply: (is_derive_comp (fun h : R => F (t0 + h)) (fun t : R => t - t0)).
  by rewrite Rminus_eq_0.
by auto_derive => //; ring.
Qed.

End Expansion.

Import Order.TTheory GRing.Theory Num.Theory.
Local Close Scope R_scope.
Local Close Scope Q_scope.
Local Open Scope ring_scope.

(* ---- finite sums of differentiable functions ------------------------------------------------ *)
Lemma ex_derive_bigsum (I : Type) (r : seq I) (P : pred I) (F : I -> R -> R) (t0 : R) :
  (forall i, P i -> ex_derive (F i) t0) ->
  ex_derive (fun t : R => \sum_(i <- r | P i) F i t) t0.
Proof.
move=> HF; elim: r => [|i r IHr].
  apply: (ex_derive_ext (fun _ : R => 0 : R)); first by move=> t; rewrite big_nil.
  exact: ex_derive_const.
apply: (ex_derive_ext
          (fun t : R => Rplus (if P i then F i t else 0) (\sum_(j <- r | P j) F j t))).
  by move=> t; rewrite big_cons; case: (P i) => //; rewrite -RplusE add0r.
apply: (@ex_derive_plus R_AbsRing R_NormedModule) IHr.
case Pi : (P i); first exact: HF.
exact: ex_derive_const.
Qed.

(* the (0,0) entry of u^T M v as a double sum of entries *)
Lemma quad_entries (K : ringType) n (u v : 'cV[K]_n) (M : 'M[K]_n) :
  (u^T *m M *m v) 0 0 = \sum_j \sum_i u i 0 * M i j * v j 0.
Proof.
rewrite mxE; apply: eq_bigr => j _; rewrite mxE big_distrl /=.
by apply: eq_bigr => i _; rewrite mxE.
Qed.

Section Bridge.
Variable n : nat.
Implicit Types (A B : 'M[R]_n) (u v : 'cV[R]_n).

(* ---- Jacobi's formula as a Coquelicot derivative, at every point ----------------------------- *)
Lemma det_is_derive m (A B : 'M[R]_m) (t0 : R) :
  is_derive (fun t : R => \det (A + t *: B)) t0 (\tr (\adj (A + t0 *: B) *m B)).
Proof.
apply/is_derive_Reals => eps /RltP e0.
have [d /RltP d0 Hd] := det_perturb_derivative_at A B t0 e0.
exists (mkposreal d d0) => h /RneqP h0 /RltP hd /=.
exact/RltP/(Hd h h0 hd).
Qed.

Lemma det_ex_derive m (A B : 'M[R]_m) (t0 : R) :
  ex_derive (fun t : R => \det (A + t *: B)) t0.
Proof. by eexists; apply: det_is_derive. Qed.

(* ---- the adjugate of A + t B is differentiable entry by entry ------------------------------- *)
Lemma minor_perturb A B (i j : 'I_n) (t : R) :
  row' i (col' j (A + t *: B)) = row' i (col' j A) + t *: row' i (col' j B).
Proof. by apply/matrixP => k l; rewrite !mxE. Qed.

Lemma cofactor_ex_derive A B (i j : 'I_n) (t0 : R) :
  ex_derive (fun t : R => cofactor (A + t *: B) i j) t0.
Proof.
apply: (ex_derive_ext (fun t : R =>
          Rmult ((-1) ^+ (i + j)) (\det (row' i (col' j A) + t *: row' i (col' j B))))).
  by move=> t; rewrite /cofactor minor_perturb.
apply: ex_derive_mult; first exact: ex_derive_const.
exact: det_ex_derive.
Qed.

Lemma adj_ex_derive A B (i j : 'I_n) (t0 : R) :
  ex_derive (fun t : R => (\adj (A + t *: B)) i j) t0.
Proof.
apply: (ex_derive_ext (fun t : R => cofactor (A + t *: B) j i)); last exact: cofactor_ex_derive.
by move=> t; rewrite !mxE.
Qed.

Lemma quad_adj_ex_derive A B u v (t0 : R) :
  ex_derive (fun t : R => (u^T *m \adj (A + t *: B) *m v) 0 0) t0.
Proof.
apply: (ex_derive_ext (fun t : R =>
          \sum_j \sum_i Rmult (Rmult (u i 0) ((\adj (A + t *: B)) i j)) (v j 0))).
  by move=> t; rewrite quad_entries.
apply: ex_derive_bigsum => j _; apply: ex_derive_bigsum => i _.
apply: ex_derive_mult; last exact: ex_derive_const.
apply: ex_derive_mult; first exact: ex_derive_const.
exact: adj_ex_derive.
Qed.

(* ---- A + t B stays invertible near t = 0 --------------------------------------------------- *)
Lemma locally_unitmx A B :
  \det A != 0 -> locally (0 : R) (fun t : R => A + t *: B \in unitmx).
Proof.
move=> dA0.
have cont := ex_derive_continuous _ _ (det_ex_derive A B 0).
have nz : \det (A + (0 : R) *: B) <> 0 by rewrite scale0r addr0; apply/eqP.
have H := cont _ (open_neq 0 _ nz).
rewrite /filtermap in H; apply: filter_imp H => t /= /RneqP dt.
by rewrite unitmxE unitfE.
Qed.

(* ---- the bilinear form of the inverse is differentiable at 0 ------------------------------- *)
Lemma quad_inv_ex_derive A B u v :
  \det A != 0 -> ex_derive (fun t : R => (u^T *m invmx (A + t *: B) *m v) 0 0) 0.
Proof.
move=> dA0.
apply: (ex_derive_ext_loc (fun t : R =>
          Rmult (/ \det (A + t *: B)) ((u^T *m \adj (A + t *: B) *m v) 0 0))).
  apply: filter_imp (locally_unitmx B dA0) => t ut.
  by rewrite /invmx ut -scalemxAr -scalemxAl [RHS]mxE.
apply: ex_derive_mult; last exact: quad_adj_ex_derive.
apply: ex_derive_inv; first exact: det_ex_derive.
by rewrite scale0r addr0; apply/eqP.
Qed.

(* ---- d(A^-1) = - A^-1 dA A^-1, in the data-fit term ---------------------------------------- *)
Lemma is_derive_quad_inv A B u v :
  \det A != 0 ->
  is_derive (fun t : R => (u^T *m invmx (A + t *: B) *m v) 0 0) 0
            (- (u^T *m invmx A *m B *m invmx A *m v) 0 0).
Proof.
move=> dA0; have uA : A \in unitmx by rewrite unitmxE unitfE.
pose w : 'cV[R]_n := (u^T *m invmx A *m B *m invmx A *m B)^T.
have [g' Hg] := quad_inv_ex_derive B w v dA0.
have := is_derive_expansion ((u^T *m invmx A *m v) 0 0)
          ((u^T *m invmx A *m B *m invmx A *m v) 0 0) Hg.
apply: is_derive_ext_loc.
apply: filter_imp (locally_unitmx B dA0) => t ut.
rewrite (quad_inv_perturb_first_order u v uA ut) /w trmxK !mxE.
by rewrite -RpowE.
Qed.

(* ---- d(ln det A) = tr (A^-1 dA) --------------------------------------------------------------- *)
Lemma is_derive_ln_det A B :
  0 < \det A ->
  is_derive (fun t : R => ln (\det (A + t *: B))) 0 (\tr (invmx A *m B)).
Proof.
move=> dApos; have dA0 : \det A != 0 by rewrite gt_eqF.
have uA : A \in unitmx by rewrite unitmxE unitfE.
have Hd := det_is_derive A B 0.
have Hln : is_derive ln (\det (A + (0 : R) *: B)) (Rinv (\det A)).
  by rewrite scale0r addr0; apply: is_derive_ln; apply/RltP.
have := is_derive_comp ln (fun t : R => \det (A + t *: B)) 0 _ _ Hln Hd.
suff -> : scal (\tr (\adj (A + (0 : R) *: B) *m B)) (Rinv (\det A)) = \tr (invmx A *m B) by [].
rewrite scale0r addr0 trace_adj_unit // /scal /= /mult /= -RinvE -RmultE.
by rewrite mulrAC divff // mul1r.
Qed.

(* ---- the score of the code: -1/2 r^T A^-1 r - 1/2 ln det A ------------------------------- *)
Definition ml_score A (r : 'cV[R]_n) : R :=
  - 2%:R^-1 * (r^T *m invmx A *m r) 0 0 - 2%:R^-1 * ln (\det A).

Lemma ml_scoreE A (r : 'cV[R]_n) :
  ml_score A r = - 2%:R^-1 * (r^T *m invmx A *m r) 0 0 - 2%:R^-1 * ln (\det A).
Proof. by []. Qed.

Lemma is_derive_ml_score_gen A B (r : 'cV[R]_n) :
  0 < \det A ->
  is_derive (fun t : R => ml_score (A + t *: B) r) 0
    (2%:R^-1 * (r^T *m invmx A *m B *m invmx A *m r) 0 0 - 2%:R^-1 * \tr (invmx A *m B)).
Proof.
move=> dApos; have dA0 : \det A != 0 by rewrite gt_eqF.
have Hq := is_derive_quad_inv B r r dA0.
have Hl := is_derive_ln_det B dApos.
have Hq2 := is_derive_scal _ 0 (- 2%:R^-1 : R) _ Hq.
have Hl2 := is_derive_scal _ 0 (2%:R^-1 : R) _ Hl.
have := @is_derive_minus R_AbsRing R_NormedModule _ _ 0 _ _ Hq2 Hl2.
suff -> : minus (Rmult (- 2%:R^-1) (- (r^T *m invmx A *m B *m invmx A *m r) 0 0))
                (Rmult 2%:R^-1 (\tr (invmx A *m B)))
          = 2%:R^-1 * (r^T *m invmx A *m B *m invmx A *m r) 0 0
            - 2%:R^-1 * \tr (invmx A *m B) by [].
by rewrite /minus /plus /opp /= -!RmultE -!RoppE -RplusE mulrNN.
Qed.

(* symmetric A (a covariance matrix): with alpha = A^-1 r the first term is alpha^T dA alpha --
   the trace form evaluated by marginal_likelihood_gradient *)
Lemma alpha_form A B (r : 'cV[R]_n) :
  A^T = A ->
  let alpha := invmx A *m r in
  r^T *m invmx A *m B *m invmx A *m r = alpha^T *m B *m alpha.
Proof. by move=> symA alpha; rewrite /alpha trmx_mul trmx_inv symA !mulmxA. Qed.

Lemma is_derive_ml_score A B (r : 'cV[R]_n) :
  A^T = A -> 0 < \det A ->
  let alpha := invmx A *m r in
  is_derive (fun t : R => ml_score (A + t *: B) r) 0
    (2%:R^-1 * (alpha^T *m B *m alpha) 0 0 - 2%:R^-1 * \tr (invmx A *m B)).
Proof.
by move=> symA dApos alpha; rewrite -(alpha_form B r symA); apply: is_derive_ml_score_gen.
Qed.

(* ... which is the code's 0.5 * (Q * dK.T).sum(), Q = alpha alpha^T - A^-1 *)
Lemma trace_form_split (Ai : 'M[R]_n) (alpha : 'cV[R]_n) B :
  2%:R^-1 * \tr ((alpha *m alpha^T - Ai) *m B)
  = 2%:R^-1 * (alpha^T *m B *m alpha) 0 0 - 2%:R^-1 * \tr (Ai *m B).
Proof.
rewrite mulmxBl linearB /= mulrBr; congr (_ * _ - _).
by rewrite -mulmxA mxtrace_mulC /mxtrace big_ord1.
Qed.

Lemma is_derive_ml_score_trace A B (r : 'cV[R]_n) :
  A^T = A -> 0 < \det A ->
  let alpha := invmx A *m r in
  is_derive (fun t : R => ml_score (A + t *: B) r) 0
    (2%:R^-1 * \tr ((alpha *m alpha^T - invmx A) *m B)).
Proof.
by move=> symA dApos alpha; rewrite trace_form_split; apply: is_derive_ml_score.
Qed.

(* ---- the mean direction: d/dt score(A, r - t dmu) at 0 = alpha^T dmu --------------------- *)
Lemma quad_mean_aux (a b c e : 'M[R]_1) (t x : R) :
  b 0 0 = x -> c 0 0 = x ->
  (a - t *: b - (t *: c - (t * t) *: e)) 0 0 = a 0 0 - t * (2%:R * x) + t * t * e 0 0.
Proof.
move=> Ex Ex'; rewrite !mxE Ex Ex' -INRE /= !(RplusE, RoppE, RmultE).
by ring.
Qed.

Lemma quad_mean_expansion A (r d : 'cV[R]_n) (t : R) :
  A^T = A ->
  let Ai := invmx A in let alpha := Ai *m r in
  ((r - t *: d)^T *m Ai *m (r - t *: d)) 0 0
  = (r^T *m Ai *m r) 0 0 - t * (2%:R * (alpha^T *m d) 0 0) + t * t * (d^T *m Ai *m d) 0 0.
Proof.
move=> symA Ai alpha.
have symAi : Ai^T = Ai by rewrite /Ai trmx_inv symA.
have Ex : (r^T *m Ai *m d) 0 0 = (alpha^T *m d) 0 0 by rewrite /alpha trmx_mul symAi.
have Ex' : (d^T *m Ai *m r) 0 0 = (alpha^T *m d) 0 0.
  have -> : d^T *m Ai *m r = (r^T *m Ai *m d)^T by rewrite !trmx_mul trmxK symAi mulmxA.
  by rewrite mxE.
have -> : (r - t *: d)^T = r^T - t *: d^T by rewrite linearB linearZ.
rewrite mulmxBl mulmxBl !mulmxBr -!scalemxAl -!scalemxAr scalerA.
exact: quad_mean_aux.
Qed.

Lemma is_derive_ml_score_mean A (r d : 'cV[R]_n) :
  A^T = A ->
  let alpha := invmx A *m r in
  is_derive (fun t : R => ml_score A (r - t *: d)) 0 ((alpha^T *m d) 0 0).
Proof.
move=> symA alpha.
have H := is_derive_quadratic ((r^T *m invmx A *m r) 0 0) ((alpha^T *m d) 0 0)
            ((d^T *m invmx A *m d) 0 0) (2%:R^-1 * ln (\det A)).
apply: is_derive_ext H => t.
by rewrite /ml_score (quad_mean_expansion r d t symA).
Qed.

(* ---- the same three derivatives at every point t0 of the line A + t B ----------------------- *)
Lemma line_shift A B (t0 h : R) : A + (t0 + h) *: B = (A + t0 *: B) + h *: B.
Proof. by rewrite scalerDl addrA. Qed.

Lemma is_derive_ln_det_at A B (t0 : R) :
  0 < \det (A + t0 *: B) ->
  is_derive (fun t : R => ln (\det (A + t *: B))) t0 (\tr (invmx (A + t0 *: B) *m B)).
Proof.
move=> dpos; apply: is_derive_shift.
apply: is_derive_ext (is_derive_ln_det B dpos) => h.
by rewrite -RplusE line_shift.
Qed.

Lemma is_derive_quad_inv_at A B u v (t0 : R) :
  \det (A + t0 *: B) != 0 ->
  is_derive (fun t : R => (u^T *m invmx (A + t *: B) *m v) 0 0) t0
            (- (u^T *m invmx (A + t0 *: B) *m B *m invmx (A + t0 *: B) *m v) 0 0).
Proof.
move=> d0; apply: is_derive_shift.
apply: is_derive_ext (is_derive_quad_inv B u v d0) => h.
by rewrite -RplusE line_shift.
Qed.

Lemma is_derive_ml_score_at A B (r : 'cV[R]_n) (t0 : R) :
  A^T = A -> B^T = B -> 0 < \det (A + t0 *: B) ->
  let alpha := invmx (A + t0 *: B) *m r in
  is_derive (fun t : R => ml_score (A + t *: B) r) t0
    (2%:R^-1 * \tr ((alpha *m alpha^T - invmx (A + t0 *: B)) *m B)).
Proof.
move=> symA symB dpos alpha; apply: is_derive_shift.
have symC : (A + t0 *: B)^T = A + t0 *: B by rewrite linearD linearZ /= symA symB.
apply: is_derive_ext (is_derive_ml_score_trace B r symC dpos) => h.
by rewrite -RplusE line_shift.
Qed.

End Bridge.


(* ---- the VALUES: the matrix half (Proofs/SelectionProofs.v, instantiated at R) and the
        logarithm half (Proofs/SelectionValueProofs.v) meet ------------------------------------- *)
Section ValueBridge.
Notation O := (McOps R_realFieldType).

(* a column vector as the list the real-number model takes *)
Definition col_list n (v : 'cV[R]_n) : seq R := [seq v i 0 | i <- enum 'I_n].

Lemma sum_lnE (s : seq R) : sum_ln s = \sum_(x <- s) ln x.
Proof. by elim: s => [|x s IHs]; rewrite ?big_nil ?big_cons //= IHs. Qed.

Lemma prod_listE (s : seq R) : prod_list s = \prod_(x <- s) x.
Proof. by elim: s => [|x s IHs]; rewrite ?big_nil ?big_cons //= IHs. Qed.

Lemma Forall_map (I : Type) (P : R -> Prop) (F : I -> R) (s : seq I) :
  (forall i, P (F i)) -> List.Forall P [seq F i | i <- s].
Proof. by move=> HP; elim: s => [|i s IHs]; constructor. Qed.

Lemma prod_col_list n (v : 'cV[R]_n) : prod_list (col_list v) = \prod_i v i 0.
Proof. by rewrite prod_listE /col_list big_map big_enum. Qed.

(* marginal_likelihood(theta) = -1/2 |L^-1 r|^2 - sum_i ln L_ii, computed from the Cholesky
   factor, IS  -1/2 r^T A^-1 r - 1/2 ln det A,  for every n *)
Lemma ml_value_is_score n (K S L : 'M[R]_n) (y mu : 'cV[R]_n) :
  L *m L^T = K + S -> L \in unitmx -> is_trig_mx L -> (forall i, 0 < L i i) ->
  ml_value ((@ml_quad O n L y mu) 0 0) (col_list (@ml_diag O n L)) = ml_score (K + S) (y - mu).
Proof.
move=> HL uL tL Lpos.
have dpos i : Rlt 0 ((@ml_diag O n L) i 0) by rewrite ml_diagE; apply/RltP.
rewrite (@ml_value_closed _ _ (\det (K + S))); first last.
- rewrite -[RHS]RpowE prod_col_list (det_from_chol tL HL); congr (_ ^+ 2).
  by apply: eq_bigr => i _; rewrite ml_diagE.
- exact: Forall_map.
by rewrite (ml_quad_closed y mu HL uL) mxE.
Qed.

(* -1/2 sum_i (y_i - m_i)^2 / v_i, as the real-number model writes it *)
Lemma loo_quad_RE (I : Type) (s : seq I) (Y M V : I -> R) :
  loo_quad_R [seq Y i | i <- s] [seq M i | i <- s] [seq V i | i <- s]
  = - 2%:R^-1 * \sum_(i <- s) (Y i - M i) ^+ 2 / V i.
Proof.
elim: s => [|i s IHs] /=; first by rewrite big_nil mulr0.
by rewrite big_cons mulrDr IHs expr2 -!RmultE mulr1.
Qed.

(* loo_likelihood(theta) IS the sum of the Gaussian log-densities of the leave-one-out
   predictions (m_i, v_i), for every n *)
Lemma loo_value_is_logs n (L : 'M[R]_n) (y mu : 'cV[R]_n) :
  (forall i, (@loo_var O n L) i 0 != 0) ->
  let m := @loo_mu O n L (@gp_alpha O n L y mu) y in
  let v := @loo_var O n L in
  loo_value ((@loo_quad O n L y mu) 0 0) (col_list v)
  = loo_closed (col_list y) (col_list m) (col_list v).
Proof.
move=> v0 m v; rewrite -loo_value_closed; first last.
- exact: (etrans (size_map _ _) (esym (size_map _ _))).
- exact: (etrans (size_map _ _) (esym (size_map _ _))).
rewrite (loo_quad_value y mu v0) mxE mulr1n loo_quad_RE big_enum.
by congr (loo_value (_ * _) _); apply: eq_bigl.
Qed.

End ValueBridge.

(* ---- non-vacuity: the hypotheses are met (A = I, any size) --------------------------------- *)
Lemma bridge_hypotheses_example n : (1%:M : 'M[R]_n)^T = 1%:M /\ 0 < \det (1%:M : 'M[R]_n).
Proof. by rewrite trmx1 det1 ltr01. Qed.
