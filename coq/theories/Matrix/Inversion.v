(* Matrix/Inversion.v -- data-flow model of inference/gp/inversion.py
   (GpLinearInverter, property C17), written once over an arbitrary `mxops`.
   No proofs here.

   Sizes: m = number of data values, n = number of model parameters.
   Inputs that come from the kernel / mean objects (tied to the code by C10):
     K    = self.cov.build_covariance(theta[cov_slice])      n x n
     pm   = self.mean.build_mean(theta[mean_slice])          n x 1   (prior mean)
     dK_i = the matrices of covariance_and_gradients         n x n
     dmu_i= the vectors of mean_and_gradients                n x 1
   scipy.linalg.solve(B, C) is the exact solve  mmul (minv B) C;
   cholesky(J) is an input L (theorems: L L^T = J, L invertible; the run checks
   it on the factor NumPy returns for the same J) and solve_triangular(L, .)
   is  mmul (minv L) .

   inversion.py (pinned)                                       model
   ---------------------                                       -----
   134  self.sigma = diag(y_err**2)                            lin_sigma
   135  self.inv_sigma = diag(y_err**-2)                       lin_inv_sigma
   136  self.I = eye(n)                                        mid n
   calculate_posterior
   151  W = A.T @ inv_sigma @ A                                lin_W
   152  u = A.T @ (inv_sigma @ (y - A @ prior_mean))           lin_u
   153  posterior_cov = solve(I + K @ W, K)                    lin_post_cov   (lin_system = I + K W)
   154  posterior_mean = posterior_cov @ u + prior_mean        lin_post_mean
   calculate_posterior_mean
   172  solve(I + K @ W, K @ u) + prior_mean                   lin_post_mean_only
   marginal_likelihood
   186  L = cholesky(A @ K @ A.T + sigma)                      lin_J  (and input L)
   187  v = solve_triangular(L, y - A @ prior_mean, lower=True)
   188  -0.5 * (v @ v) - log(diagonal(L)).sum()                lin_lml_quad  (the algebraic part
                                                               -0.5 v.v; the log-det part is
                                                               checked separately: Matrix/InversionEvidence.v)
   marginal_likelihood_gradient
   196  J = A K A^T + sigma ;  grad_J = [A dK A^T]             lin_J, lin_dJ
   200  f = A mu ; grad_f = [A dmu]                            lin_f
   206-7 iJ = solve_triangular(L, eye) ; iJ = iJ.T @ iJ        lin_iJ
   209  alpha = iJ.dot(y - f)                                  lin_alpha
   210  LML = -0.5 * dot((y-f).T, alpha) - log(diag L).sum()   lin_lml_quad_grad
   213  (alpha * df).sum()                                     lin_grad_mean
   215  Q = alpha[:,None]*alpha[None,:] - iJ
   216  0.5 * (Q * dJ.T).sum()                                 lin_grad_cov (= lin_grad_cov_of (lin_grad_Q ..))

   As in GpModel.v, functions that call a solver come as `f_s` (solver given as
   the inverse matrix, computed once per case by the run) and `f` (as written). *)
From Coq Require Import QArith.
From IT Require Import Matrix.MxOps.

Section Inversion.
Variable O : mxops.
Notation M := (mx O).

(* ---- __init__ ---- *)
Definition lin_sigma {m} (y_err : M m 1) : M m m := mdiagv (mhad y_err y_err).
Definition lin_inv_sigma {m} (y_err : M m 1) : M m m := mdiagv (mrecip (mhad y_err y_err)).

(* ---- calculate_posterior ---- *)
Definition lin_W {m n} (A : M m n) (iS : M m m) : M n n := mmul (mmul (mtr m n A) iS) A.

Definition lin_u {m n} (A : M m n) (iS : M m m) (y : M m 1) (pm : M n 1) : M n 1 :=
  mmul (mtr m n A) (mmul iS (msub y (mmul A pm))).

Definition lin_system {n} (K W : M n n) : M n n := madd (mid n) (mmul K W).

Definition lin_post_cov_s {n} (Bi : M n n) (K : M n n) : M n n := mmul Bi K.
Definition lin_post_cov {n} (K W : M n n) : M n n := lin_post_cov_s (minv (lin_system K W)) K.

Definition lin_post_mean {n} (post_cov : M n n) (u pm : M n 1) : M n 1 :=
  madd (mmul post_cov u) pm.

(* calculate_posterior(theta) *)
Definition calculate_posterior {m n} (A : M m n) (y_err y : M m 1) (K : M n n) (pm : M n 1)
  : M n 1 * M n n :=
  let iS := lin_inv_sigma y_err in
  let W := lin_W A iS in
  let u := lin_u A iS y pm in
  let pc := lin_post_cov K W in
  (lin_post_mean pc u pm, pc).

(* ---- calculate_posterior_mean ---- *)
Definition lin_post_mean_only_s {n} (Bi : M n n) (K : M n n) (u pm : M n 1) : M n 1 :=
  madd (mmul Bi (mmul K u)) pm.
Definition lin_post_mean_only {n} (K W : M n n) (u pm : M n 1) : M n 1 :=
  lin_post_mean_only_s (minv (lin_system K W)) K u pm.

Definition calculate_posterior_mean {m n} (A : M m n) (y_err y : M m 1) (K : M n n) (pm : M n 1)
  : M n 1 :=
  let iS := lin_inv_sigma y_err in
  lin_post_mean_only K (lin_W A iS) (lin_u A iS y pm) pm.

(* ---- marginal_likelihood ---- *)
Definition lin_J {m n} (A : M m n) (K : M n n) (Sg : M m m) : M m m :=
  madd (mmul (mmul A K) (mtr m n A)) Sg.

Definition lin_f {m n} (A : M m n) (pm : M n 1) : M m 1 := mmul A pm.

(* -0.5 * (v @ v),  v = solve_triangular(L, y - A pm) *)
Definition lin_lml_quad_s {m} (Li : M m m) (r : M m 1) : M 1 1 :=
  let v := mmul Li r in mscal (-1 # 2)%Q (mmul (mtr m 1 v) v).
Definition lin_lml_quad {m} (L : M m m) (r : M m 1) : M 1 1 := lin_lml_quad_s (minv L) r.

(* ---- marginal_likelihood_gradient ---- *)
Definition lin_dJ {m n} (A : M m n) (dK : M n n) : M m m := mmul (mmul A dK) (mtr m n A).

Definition lin_iJ_s {m} (Li : M m m) : M m m := mmul (mtr m m (mmul Li (mid m))) (mmul Li (mid m)).
Definition lin_iJ {m} (L : M m m) : M m m := lin_iJ_s (minv L).

Definition lin_alpha {m} (iJ : M m m) (r : M m 1) : M m 1 := mmul iJ r.

Definition lin_lml_quad_grad {m} (r alpha : M m 1) : M 1 1 :=
  mscal (-1 # 2)%Q (mmul (mtr m 1 r) alpha).

Definition lin_grad_mean {m} (alpha df : M m 1) : M 1 1 := msum (mhad alpha df).

Definition lin_grad_Q {m} (alpha : M m 1) (iJ : M m m) : M m m :=
  msub (mmul alpha (mtr m 1 alpha)) iJ.
Definition lin_grad_cov_of {m} (Q dJ : M m m) : M 1 1 :=
  mscal (1 # 2)%Q (mhadsum Q (mtr m m dJ)).
Definition lin_grad_cov {m} (alpha : M m 1) (iJ dJ : M m m) : M 1 1 :=
  lin_grad_cov_of (lin_grad_Q alpha iJ) dJ.

(* ---- closed forms of the property statement ---- *)
(* K - K A^T (A K A^T + S)^-1 A K *)
Definition lin_closed_cov_s {m n} (Ji : M m m) (A : M m n) (K : M n n) : M n n :=
  msub K (mmul (mmul (mmul K (mtr m n A)) Ji) (mmul A K)).
Definition lin_closed_cov {m n} (A : M m n) (K : M n n) (Sg : M m m) : M n n :=
  lin_closed_cov_s (minv (lin_J A K Sg)) A K.

(* pm + K A^T (A K A^T + S)^-1 (y - A pm) *)
Definition lin_closed_mean_s {m n} (Ji : M m m) (A : M m n) (K : M n n) (y : M m 1) (pm : M n 1)
  : M n 1 :=
  madd pm (mmul (mmul (mmul K (mtr m n A)) Ji) (msub y (mmul A pm))).
Definition lin_closed_mean {m n} (A : M m n) (K : M n n) (Sg : M m m) (y : M m 1) (pm : M n 1)
  : M n 1 :=
  lin_closed_mean_s (minv (lin_J A K Sg)) A K y pm.

(* -0.5 (y - A pm)^T (A K A^T + S)^-1 (y - A pm) *)
Definition lin_closed_quad_s {m} (Ji : M m m) (r : M m 1) : M 1 1 :=
  mscal (-1 # 2)%Q (mmul (mtr m 1 r) (mmul Ji r)).

End Inversion.

Arguments lin_sigma {O m}.
Arguments lin_inv_sigma {O m}.
Arguments lin_W {O m n}.
Arguments lin_u {O m n}.
Arguments lin_system {O n}.
Arguments lin_post_cov_s {O n}.
Arguments lin_post_cov {O n}.
Arguments lin_post_mean {O n}.
Arguments calculate_posterior {O m n}.
Arguments lin_post_mean_only_s {O n}.
Arguments lin_post_mean_only {O n}.
Arguments calculate_posterior_mean {O m n}.
Arguments lin_J {O m n}.
Arguments lin_f {O m n}.
Arguments lin_lml_quad_s {O m}.
Arguments lin_lml_quad {O m}.
Arguments lin_dJ {O m n}.
Arguments lin_iJ_s {O m}.
Arguments lin_iJ {O m}.
Arguments lin_alpha {O m}.
Arguments lin_lml_quad_grad {O m}.
Arguments lin_grad_mean {O m}.
Arguments lin_grad_cov {O m}.
Arguments lin_grad_Q {O m}.
Arguments lin_grad_cov_of {O m}.
Arguments lin_closed_cov_s {O m n}.
Arguments lin_closed_cov {O m n}.
Arguments lin_closed_mean_s {O m n}.
Arguments lin_closed_mean {O m n}.
Arguments lin_closed_quad_s {O m}.
