(* Matrix/SelectionRepr.v -- how the model-selection functions of GpRegressor
   (inference/gp/regression.py, property C11) treat hyper-parameter vectors and data that
   are NOT given as float64 arrays: integer arrays, lists / tuples of Python ints or
   floats, float32 / float16 arrays.  No proofs here (Proofs/SelectionReprProofs.v,
   Properties/C11Repr.v).

   A represented vector `rvec` is a carrier (the element type), a container (ndarray,
   list, tuple) and the NUMBERS it holds, as exact rationals.

   regression.py (with fix D51)                                  model
   ----------------------------                                  -----
   __init__
    94-5  self.x = x if isinstance(x, ndarray) else array(x) ...
    98    self.x = self.x.astype(float, copy=False)              data_x  = as_f64
    99    self.y = self.y.squeeze().astype(float, copy=False)    data_y  = as_f64
   check_error_data
    323   return diag(y_err.astype(float) ** 2)                  sig_of_err (squares of as_f64)
    296   return y_cov                                           sig_of_cov (entries, used in float64 sums)
   marginal_likelihood / ..._gradient / loo_likelihood / ..._gradient (theta)
          theta[self.cov_slice], theta[self.mean_slice] are handed to the kernel /
          mean function, which apply float ufuncs (exp, dot, +) to the elements:
          NumPy evaluates those in the precision `ufunc_prec` of the carrier
          (8-bit integers: half, 16-bit integers: single, every other integer and
          Python number: double; floats: their own), on exactly the numbers held   theta_arrays = as_f64
   marginal_likelihood_gradient
    571   grad = zeros(self.n_hyperpars)                          grad_buffer = CFloat 53, whatever theta is
    572   grad[self.mean_slice] = array([...])                    grad_vector: store into the buffer,
    575   grad[self.cov_slice] = array([...])                     mean part first, then the covariance part
   loo_likelihood_gradient
    531-3 grad = zeros(self.n_hyperpars); grad[cov_slice] = ...; grad[mean_slice] = ...   the same grad_vector

   `as_f64` is the conversion to float64 (ndarray.astype(float), array(list), the implicit
   conversion of a Python int in float arithmetic): rounding `rnd 53` of each number.  The
   rounding function is a Section variable; the only thing assumed about it is what makes
   it a rounding: numbers representable with p significant bits are left alone
   (`rnd_exact`; exponent range is not modelled -- the check's numbers are far from it).

   PINNED behaviour, kept as `..._pinned`: the constructor stored the data in the dtype it
   was given with, so for integer dtypes
        check_error_data:   diag(y_err**2)                        sq_pinned      (before fix D51)
        pass_spatial_data:  dx = x[:,None,:] - x[None,:,:]; dx**2  sqdist_pinned  (before /repo 66ad722,
                                                                   found under C10: the kernels now convert x)
   were evaluated in wrap-around integer arithmetic of that width (`wrap`).  Refuted in
   Properties/C11Repr.v (int8 errors >= 12, uint8 >= 16, int8 coordinates 12 apart, uint8
   coordinates 31 apart).  Float data of lower precision (float32 / float16 x, y) were used in
   their own precision by the mean functions and the ChangePoint kernel; with D51 they are
   float64 arrays from the constructor on (data_x, data_y).

   The variant `grad_vector (like_carrier theta)` (a buffer made with zeros_like(theta))
   is NOT what the code does; it is here because Properties/C11Repr.v shows that it
   breaks the "true gradient" clause for every integer-typed theta. *)
From Coq Require Import List QArith Qabs Bool Arith ZArith.
From Bignums Require Import BigQ.
From IT Require Import Matrix.MxOps Matrix.ListOps Matrix.BigOps Matrix.GpModel Matrix.Selection
                       Matrix.SelectionCheck.
Import ListNotations.
Open Scope Q_scope.

(* ---- carriers and containers ------------------------------------------------------- *)
Inductive carrier :=
| CFloat (p : Z)                  (* binary floating point, p significant bits: float16 11, float32 24,
                                     float64 and the Python float 53 *)
| CInt (signed : bool) (bits : Z) (* numpy int8..int64 / uint8..uint64 *)
| CPyInt.                         (* Python int *)

Inductive container := Ndarray | PyList | PyTuple.

Record rvec := RVec { r_car : carrier; r_con : container; r_val : list Q }.

Definition two53 : Z := 2 ^ 53.

(* integers among the rationals (no reduction needed: the denominator divides the numerator) *)
Definition is_int (q : Q) : bool := Z.eqb (Qnum q mod Zpos (Qden q)) 0.
Definition int_of (q : Q) : Z := Qnum q / Zpos (Qden q).

Fixpoint pos_is_pow2 (d : positive) : bool :=
  match d with xH => true | xO d' => pos_is_pow2 d' | xI _ => false end.
Fixpoint pos_odd_part (n : positive) : positive :=
  match n with xO n' => pos_odd_part n' | _ => n end.

(* q = m * 2^e with |m| < 2^p *)
Definition float_repr_b (p : Z) (q : Q) : bool :=
  let r := Qred q in
  pos_is_pow2 (Qden r) &&
  match Qnum r with
  | Z0 => true
  | Zpos n | Zneg n => Z.ltb (Zpos (pos_odd_part n)) (2 ^ p)
  end.

(* the number q can be held by carrier c; integers are limited to |z| < 2^53, the
   range in which the conversion to float64 is exact *)
Definition carrier_repr_b (c : carrier) (q : Q) : bool :=
  match c with
  | CFloat p => float_repr_b p q
  | CInt true b => is_int q && Z.leb (- 2 ^ (b - 1)) (int_of q) && Z.ltb (int_of q) (2 ^ (b - 1))
                   && Z.ltb (Z.abs (int_of q)) two53
  | CInt false b => is_int q && Z.leb 0 (int_of q) && Z.ltb (int_of q) (2 ^ b)
                    && Z.ltb (Z.abs (int_of q)) two53
  | CPyInt => is_int q && Z.ltb (Z.abs (int_of q)) two53
  end.
Definition carrier_ok (c : carrier) : bool :=
  match c with
  | CFloat p => Z.leb 1 p && Z.leb p 53
  | CInt _ b => Z.leb 1 b && Z.leb b 64
  | CPyInt => true
  end.
Definition rvec_valid_b (r : rvec) : bool :=
  carrier_ok (r_car r) && forallb (carrier_repr_b (r_car r)) (r_val r).

(* the numbers a represented vector holds, in canonical form *)
Definition denote (r : rvec) : list Q := map Qred (r_val r).

(* precision in which NumPy evaluates a float ufunc (exp, log, sqrt ...) on an element of
   the carrier *)
Definition ufunc_prec (c : carrier) : Z :=
  match c with
  | CFloat p => p
  | CInt _ b => if Z.leb b 8 then 11 else if Z.leb b 16 then 24 else 53
  | CPyInt => 53
  end.

(* wrap-around of fixed-width integer arithmetic *)
Definition wrap (c : carrier) (z : Z) : Z :=
  match c with
  | CInt true b => (z + 2 ^ (b - 1)) mod 2 ^ b - 2 ^ (b - 1)
  | CInt false b => z mod 2 ^ b
  | _ => z
  end.

(* truncation toward zero: what NumPy stores when a float is assigned into an integer array *)
Definition trunc (q : Q) : Z := Z.quot (Qnum q) (Zpos (Qden q)).

(* dtype of zeros_like(theta): the carrier of an array; array(list of Python ints) is int64 *)
Definition like_carrier (r : rvec) : carrier :=
  match r_car r with CPyInt => CInt true 64 | c => c end.

Section Rounding.
Variable rnd : Z -> Q -> Q.               (* rnd p q: q rounded to p significant bits *)

(* ---- conversion to float64 ----------------------------------------------------------- *)
Definition as_f64 (r : rvec) : list Q := map (fun q => Qred (rnd 53 q)) (r_val r).

(* ---- what the constructor derives from the data (fix D51) ------------------------------- *)
Definition data_x (x : rvec) : list Q := as_f64 x.
Definition data_y (y : rvec) : list Q := as_f64 y.
Definition sig_of_err (e : rvec) : list Q := map (fun v => Qred (v * v)) (as_f64 e).   (* diagonal of self.sig *)
Definition sig_of_cov (c : rvec) : list Q := as_f64 c.                                  (* entries of self.sig *)
Definition sqdist (a b : Q) : Q := (a - b) * (a - b).                                    (* dx**2 of two coordinates *)

(* ---- storing into an array --------------------------------------------------------------- *)
Definition store (buf : carrier) (v : Q) : Q :=
  match buf with
  | CFloat p => rnd p v
  | CInt _ _ => inject_Z (wrap buf (trunc v))
  | CPyInt => inject_Z (trunc v)
  end.
Definition grad_buffer : carrier := CFloat 53.         (* zeros(self.n_hyperpars) *)
Definition grad_vector (buf : carrier) (mean_part cov_part : list Q) : list Q :=
  map (store buf) (mean_part ++ cov_part).

(* ---- the scores as functions of represented inputs ------------------------------------------
   Everything between the float64 arrays and the matrices of Matrix/Selection.v (kernel,
   mean function and their gradients: property C10; the Cholesky factor) is abstract. *)
Record inputs := Inputs { i_theta : rvec; i_x : rvec; i_y : rvec; i_err : rvec }.
Definition inputs_valid_b (i : inputs) : bool :=
  rvec_valid_b (i_theta i) && rvec_valid_b (i_x i) && rvec_valid_b (i_y i) && rvec_valid_b (i_err i).
Definition same_numbers (i j : inputs) : Prop :=
  denote (i_theta i) = denote (i_theta j) /\ denote (i_x i) = denote (i_x j) /\
  denote (i_y i) = denote (i_y j) /\ denote (i_err i) = denote (i_err j).

Section Scores.
Variable O : mxops.
Variable n : nat.
Variable chol_of : list Q -> list Q -> list Q -> mx O n n.   (* theta, x, errors |-> cholesky(K_xx + sig) *)
Variable mu_of : list Q -> list Q -> mx O n 1.               (* theta, x |-> mean vector *)
Variable dK_of : list Q -> list Q -> list (mx O n n).        (* gradient matrices *)
Variable dmu_of : list Q -> list Q -> list (mx O n 1).       (* gradient vectors *)
Variable y_of : list Q -> mx O n 1.                          (* self.y as a column *)
Variable rd : mx O 1 1 -> Q.                                 (* reading a scalar *)

Record scores := Scores {
  sc_ml_quad : mx O 1 1; sc_ml_diag : mx O n 1;               (* marginal_likelihood *)
  sc_mlg_quad : mx O 1 1; sc_mlg_grad : list Q;               (* marginal_likelihood_gradient *)
  sc_loo_quad : mx O 1 1; sc_loo_var : mx O n 1;              (* loo_likelihood (= value of ..._gradient) *)
  sc_loo_grad : list Q;                                       (* loo_likelihood_gradient *)
  sc_loo_mu : mx O n 1                                        (* loo_predictions (with sc_loo_var) *)
}.

(* on float64 arrays; the gradient is assembled in a buffer of carrier `buf` *)
Definition scores_of_arrays (buf : carrier) (th x y e : list Q) : scores :=
  let L := chol_of th x e in
  let yv := y_of y in
  let mu := mu_of th x in
  let alpha := @sel_alpha_s O n (minv L) yv mu in
  {| sc_ml_quad := ml_quad L yv mu;
     sc_ml_diag := ml_diag L;
     sc_mlg_quad := mlg_quad L yv mu;
     sc_mlg_grad := grad_vector buf (map (fun dmu => rd (mlg_mean_grad L yv mu dmu)) (dmu_of th x))
                                    (map (fun dK => rd (mlg_cov_grad L yv mu dK)) (dK_of th x));
     sc_loo_quad := loo_quad L yv mu;
     sc_loo_var := loo_var L;
     sc_loo_grad := grad_vector buf (map (fun dmu => rd (loo_mean_grad L yv mu dmu)) (dmu_of th x))
                                    (map (fun dK => rd (loo_cov_grad L yv mu dK)) (dK_of th x));
     sc_loo_mu := loo_mu L alpha yv |}.

(* the code: data and theta are used as the float64 arrays they convert to; the gradient
   buffer is float64 whatever theta is *)
Definition scores_of (i : inputs) : scores :=
  scores_of_arrays grad_buffer (as_f64 (i_theta i)) (data_x (i_x i)) (data_y (i_y i)) (as_f64 (i_err i)).

(* NOT the code: gradient buffer made like theta *)
Definition scores_of_like (i : inputs) : scores :=
  scores_of_arrays (like_carrier (i_theta i)) (as_f64 (i_theta i)) (data_x (i_x i)) (data_y (i_y i))
                   (as_f64 (i_err i)).
End Scores.
End Rounding.

Arguments scores_of_arrays rnd {O n}.
Arguments sc_ml_quad {O n}.
Arguments sc_ml_diag {O n}.
Arguments sc_mlg_quad {O n}.
Arguments sc_mlg_grad {O n}.
Arguments sc_loo_quad {O n}.
Arguments sc_loo_var {O n}.
Arguments sc_loo_grad {O n}.
Arguments sc_loo_mu {O n}.
Arguments scores_of rnd {O n}.
Arguments scores_of_like rnd {O n}.

(* ---- PINNED (before D51 / 66ad722): integer data kept in their own dtype --------------------------------- *)
Definition sq_pinned (c : carrier) (e : Q) : Q :=
  match c with
  | CInt _ _ => inject_Z (wrap c (int_of e * int_of e))
  | _ => e * e
  end.
Definition sqdist_pinned (c : carrier) (a b : Q) : Q :=
  match c with
  | CInt _ _ => let d := wrap c (int_of a - int_of b) in inject_Z (wrap c (d * d))
  | _ => (a - b) * (a - b)
  end.

(* ================================================================================================
   The correspondence check for represented inputs, evaluated by vm_compute in coq/gen/C11/cases_*.v.

   A `repr_case` is one configuration: the baseline `sel_case` (everything read from the
   regressor built from float64 arrays, Matrix/SelectionCheck.v) together with the float64
   arrays themselves and a list of VARIANTS: the same numbers handed to the real code in other
   representations, with what the regressor then stored and what the five functions returned.
   Obligations of variant j are numbered 10 + 7 j + k:
     k = 0  every represented vector is valid (numbers fit the carrier; carriers sane; theta's
            working precision is at least single)
         1  the variant denotes the baseline's numbers (theta, x, y, errors)
         2  the regressor stored the data as those numbers:  self.x, self.y  = data_x, data_y and
            self.sig = sig_of_err (y_err) / sig_of_cov (y_cov) / 0
         3  marginal-likelihood gradient = model (both parts; as obligations 2, 3 of the baseline)
         4  loo_predictions = model
         5  loo-likelihood gradient = model
         6  the four values equal the baseline's (which the value goals / obligation 7 tie to the model),
            and value / value-and-gradient variants agree
   Tolerances are the baseline's; when theta's carrier has single working precision
   (ufunc_prec = 24: float32, 16-bit integers) they are widened by `lowprec_g` / `lowprec_v`. *)
Record repr_var := ReprVar {
  v_theta : rvec; v_x : rvec; v_y : rvec; v_err : rvec;
  v_err_kind : nat;                                   (* 0 no errors, 1 y_err, 2 y_cov (flattened matrix) *)
  v_gx : qvec; v_gy : qvec; v_gsig : qvec;            (* self.x, self.y, self.sig (flattened) of the variant *)
  v_ml : Q; v_mlg : Q; v_ml_grad_mean : qvec; v_ml_grad_cov : qvec;
  v_loo : Q; v_loog : Q; v_loo_grad_mean : qvec; v_loo_grad_cov : qvec;
  v_loo_mu : qvec; v_loo_sig : qvec
}.
Record repr_case := ReprCase {
  rc_base : sel_case;
  rc_theta : qvec; rc_x : qvec; rc_yraw : qvec; rc_err : qvec;     (* the float64 arrays of the baseline *)
  rc_vars : list repr_var
}.

Definition lowprec_g : Q := 10000.          (* gradients / predictions: 1e-7 scale -> 1e-3 scale *)
Definition lowprec_v : Q := 1000000.        (* values: 1e-9 scale -> 1e-3 scale *)
Definition is_lowprec (v : repr_var) : bool := Z.ltb (ufunc_prec (r_car (v_theta v))) 53.
Definition fac_g (v : repr_var) : Q := if is_lowprec v then lowprec_g else 1.
Definition fac_v (v : repr_var) : Q := if is_lowprec v then lowprec_v else 1.

Definition qvec_eq (a b : qvec) : bool := qvec_eqb a b.

(* the n x n diagonal matrix with diagonal ds, flattened row by row *)
Fixpoint diag_row (j n i : nat) (d : Q) : qvec :=          (* columns j, j+1, ..., j+n-1 of row i *)
  match n with
  | O => []
  | S n' => (if Nat.eqb j i then d else 0) :: diag_row (S j) n' i d
  end.
Fixpoint diag_flat (n i : nat) (ds : qvec) : qvec :=
  match ds with
  | [] => []
  | d :: rest => diag_row 0 n i d ++ diag_flat n (S i) rest
  end.

(* what self.sig must hold, from the NUMBERS of the error argument.  By C11_as_f64_exact
   (Properties/C11Repr.v) as_f64 r = denote r for every valid r and every rounding, so the
   executable check uses `denote`. *)
Definition sig_expected (n : nat) (v : repr_var) : qvec :=
  match v_err_kind v with
  | 0%nat => diag_flat n 0 (repeat 0 n)
  | 1%nat => diag_flat n 0 (map (fun e => Qred (e * e)) (denote (v_err v)))
  | _ => denote (v_err v)
  end.

Definition var_obligations (c : sel_case) (rc : repr_case) (o : sel_out) (v : repr_var) : list bool :=
  let fg := fac_g v in let fv := fac_v v in
  [ (* 0 *) rvec_valid_b (v_theta v) && rvec_valid_b (v_x v) && rvec_valid_b (v_y v) && rvec_valid_b (v_err v)
            && Z.leb 24 (ufunc_prec (r_car (v_theta v)));
    (* 1 *) qvec_eq (denote (v_theta v)) (rc_theta rc) && qvec_eq (denote (v_x v)) (rc_x rc)
            && qvec_eq (denote (v_y v)) (rc_yraw rc) && qvec_eq (denote (v_err v)) (rc_err rc);
    (* 2 *) qvec_eq (v_gx v) (denote (v_x v)) && qvec_eq (v_gy v) (denote (v_y v))
            && qvec_eq (v_gsig v) (sig_expected (s_n c) v);
    (* 3 *) bclose_vec (fg * t_g c) (x_ml_gmean o) (v_ml_grad_mean v)
            && bclose_vec (fg * t_g c) (x_ml_gmean_closed o) (v_ml_grad_mean v)
            && bclose_vec (fg * t_g c) (x_ml_gcov o) (v_ml_grad_cov v)
            && bclose_vec (fg * t_g c) (x_ml_gtrace o) (v_ml_grad_cov v);
    (* 4 *) bclose_vec (fg * t_m c) (x_lmu o) (v_loo_mu v)
            && bclose_vec (fg * t_v c) (x_lvar o) (map sqq (v_loo_sig v));
    (* 5 *) bclose_vec (fg * t_h c) (x_loo_gmean o) (v_loo_grad_mean v)
            && bclose_vec (fg * t_h c) (x_loo_gcov o) (v_loo_grad_cov v);
    (* 6 *) close_q (fv * t_l c) (v_ml v) (o_ml c) && close_q (fv * t_l c) (v_mlg v) (o_ml c)
            && close_q (fv * t_l c) (v_loo v) (o_loo c) && close_q (fv * t_l c) (v_loog v) (o_loo c)
            && close_q (t_l c) (v_ml v) (v_mlg v) && close_q (t_l c) (v_loo v) (v_loog v) ].

Definition N_VAR_OBL : nat := 7.

Definition check_repr_obligations (rc : repr_case) : list bool :=
  let c := rc_base rc in
  let o := sel_outputs BigExec c in
  check_sel_obligations_on BigExec c o ++ flat_map (var_obligations c rc o) (rc_vars rc).

Definition check_repr (rc : repr_case) : list nat := failing_obligations 0 (check_repr_obligations rc).

(* case k, obligation j  |->  k * 100 + j  (at most 12 variants per case) *)
Definition failing_repr (cs : list repr_case) : list nat := flatten_sel 0 (map check_repr cs).
