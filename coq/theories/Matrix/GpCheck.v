(* Matrix/GpCheck.v -- the correspondence check of property C02, evaluated by
   vm_compute inside the generated files coq/gen/C02/*.v.

   A `gp_case` holds what the harness read from ONE constructed GpRegressor and
   one batch of query points:
     inputs  : the matrices the implementation itself built (exact rationals of
               their double entries), the error data as given by the caller,
               the implementation's own Cholesky factor self.L;
     observed: self.alpha, the outputs of __call__, build_posterior and
               build_posterior(mean_only=True).
   `check_gp` instantiates Matrix/GpModel.v at ListOps and returns the list of
   failing obligations (empty = the case agrees):

     0  an inverse failed its run-time verification ("model could not evaluate")
     1  self.L is lower triangular and  L L^T = K_xx + S  to tol_f       [the
        hypothesis of the theorems, checked on the implementation's factor;
        S is the MODEL's check_error_data applied to the caller's y_err/y_cov]
     2  gp_alpha L y mu                         = self.alpha        (tol_a)
     3  call_mean, every query point            = __call__ means    (tol_m)
     4  call_absvar, every query point          = (__call__ sigma)^2 (tol_v)
     5  post_mean                               = build_posterior mean (tol_m)
     6  post_cov                                = build_posterior cov  (tol_v)
     7  build_posterior_mean_only               = mean_only=True output (tol_m)
     8  closed_mean with the exact (K_xx+S)^-1  = all three mean outputs (tol_m)
     9  closed_cov  with the exact (K_xx+S)^-1  = joint cov, and its diagonal
                                                  = (__call__ sigma)^2  (tol_v)
     10 0 <= sigma^2 <= K_qq + tol_v  on the implementation's outputs

   The inverses (of L, L^T and K_xx + S) are computed once per case and handed to
   the `_s` forms of the model functions (Matrix/GpModel.v: `f L = f_s (minv L)` by
   definition); ListOps.qinv returns [] unless its result is verified, which is
   what obligation 0 tests.
   Obligations 2-7 run the data-flow model on the implementation's own L;
   8-9 evaluate the property's closed form directly.  C02_mean_closed /
   C02_cov_closed state that the two coincide when L L^T = K_xx + S exactly. *)
From Coq Require Import List QArith Qabs Bool Arith.
From IT Require Import Matrix.MxOps Matrix.ListOps Matrix.GpModel.
Import ListNotations.
Open Scope Q_scope.

Inductive err_spec :=
| ErrNone
| ErrStd (y_err : qvec)        (* y_err = 1-D array / list of standard deviations *)
| ErrCov (y_cov : qmat).       (* y_cov = 2-D array / list of lists *)

Record gp_case := GpCase {
  g_n : nat; g_b : nat;
  g_Kxx : qmat;                (* cov.build_covariance(cov_hyperpars), n x n *)
  g_err : err_spec;
  g_y : qvec; g_mu : qvec;     (* y, mean.build_mean(mean_hyperpars) *)
  g_L : qmat;                  (* self.L *)
  g_Kqx : qmat;                (* cov(points, x), b x n *)
  g_Kqq : qmat;                (* cov(points, points), b x b *)
  g_kqq_pt : qvec;             (* cov(q, q)[0,0] for each single point q *)
  g_muq : qvec;                (* mean(q) for each point *)
  o_alpha : qvec;              (* self.alpha *)
  o_call_mean : qvec; o_call_sig : qvec;
  o_post_mean : qvec; o_post_cov : qmat; o_mean_only : qvec;
  t_f : Q; t_a : Q; t_m : Q; t_v : Q
}.

Definition sig_of (n : nat) (e : err_spec) : qmat :=
  match e with
  | ErrNone => @sig_none ListOps n
  | ErrStd v => @sig_of_yerr ListOps n (col_of v)
  | ErrCov C => @sig_of_ycov ListOps n C
  end.

Definition sq (x : Q) : Q := x * x.

Definition check_gp_obligations (c : gp_case) : list bool :=
  let n := g_n c in let b := g_b c in
  let S := sig_of n (g_err c) in
  let A := @data_cov ListOps n (g_Kxx c) S in
  let L := g_L c in
  let y := col_of (g_y c) in let mu := col_of (g_mu c) in
  let muq := col_of (g_muq c) in
  let Li := qinv n L in
  let LTi := qinv_checked n (qtr n n L) (qtr n n Li) in   (* (L^T)^-1, verified by L^T * X = I *)
  let Ai := qinv n A in
  let alpha := @gp_alpha_s ListOps n Li LTi y mu in
  let rows := combine (g_Kqx c) (combine (g_kqq_pt c) (g_muq c)) in
  let pm := map (fun r => @call_mean ListOps n alpha (row_of (fst r)) (scalar_of (snd (snd r)))) rows in
  let pv := map (fun r => @call_absvar_s ListOps n Li (row_of (fst r)) (scalar_of (fst (snd r)))) rows in
  let pmcol := map (fun m => [hd 0 (hd [] m)]) pm in
  let pvcol := map (fun m => [hd 0 (hd [] m)]) pv in
  let sig2 := col_of (map sq (o_call_sig c)) in
  let jm := @post_mean ListOps n b alpha (g_Kqx c) muq in
  let jc := @post_cov_s ListOps n b Li (g_Kqx c) (g_Kqq c) in
  let mo := @build_posterior_mean_only ListOps n b alpha (g_Kqx c) muq in
  let cm := @closed_mean_s ListOps n b Ai y mu (g_Kqx c) muq in
  let cc := @closed_cov_s ListOps n b Ai (g_Kqx c) (g_Kqq c) in
  [ (* 0 *) shape_ok n n Li && shape_ok n n LTi && shape_ok n n Ai
          && Nat.eqb (length rows) b && negb (Nat.eqb n 0) && negb (Nat.eqb b 0);
    (* 1 *) is_lower L && close_mx n n (t_f c) (qmul L (qtr n n L)) A;
    (* 2 *) close_mx n 1 (t_a c) alpha (col_of (o_alpha c));
    (* 3 *) close_mx b 1 (t_m c) pmcol (col_of (o_call_mean c));
    (* 4 *) close_mx b 1 (t_v c) pvcol sig2;
    (* 5 *) close_mx b 1 (t_m c) jm (col_of (o_post_mean c));
    (* 6 *) close_mx b b (t_v c) jc (o_post_cov c);
    (* 7 *) close_mx b 1 (t_m c) mo (col_of (o_mean_only c));
    (* 8 *) close_mx b 1 (t_m c) cm (col_of (o_post_mean c))
          && close_mx b 1 (t_m c) cm (col_of (o_call_mean c))
          && close_mx b 1 (t_m c) cm (col_of (o_mean_only c));
    (* 9 *) close_mx b b (t_v c) cc (o_post_cov c)
          && close_mx b 1 (t_v c) (qdiagof cc) sig2;
    (* 10 *) forallb (fun sk => Qle_bool 0 (fst sk) && Qle_bool (fst sk) (snd sk + t_v c))
                     (combine (map sq (o_call_sig c)) (g_kqq_pt c)) ].

Definition check_gp (c : gp_case) : list nat := failing_obligations 0 (check_gp_obligations c).

(* per file: the list, in case order, of each case's failing obligations *)
Definition check_gp_cases (cs : list gp_case) : list (list nat) := map check_gp cs.

(* flat encoding the harness parses as `list nat`:  case index * 100 + obligation *)
Fixpoint flatten_failures (k : nat) (rs : list (list nat)) : list nat :=
  match rs with
  | [] => []
  | r :: rest => map (fun o => (k * 100 + o)%nat) r ++ flatten_failures (S k) rest
  end.

Definition failing_gp (cs : list gp_case) : list nat := flatten_failures 0 (check_gp_cases cs).
