(* Matrix/McOps.v -- the MathComp instance of Matrix/MxOps.v:
   mx m n := 'M[R]_(m,n) over an arbitrary realFieldType R, minv := invmx.
   Every theorem of C02 / C17 (and later C11 / C16) is about a model
   instantiated at `McOps R`.

   The rewrite set `mcE` unfolds the record projections to the MathComp
   operations; a proof about a model typically starts with
       rewrite /the_model_function /= ...     (projections reduce by /=)
   and then is ordinary matrix algebra.  This file also collects the small
   library of matrix facts the GP proofs share (inverse of a product,
   quadratic forms, positive semi-definiteness, the Schur-complement lemma). *)
From mathcomp Require Import all_ssreflect all_algebra.
From Coq Require Import QArith.
From IT Require Import Matrix.MxOps.

Set Implicit Arguments.
Unset Strict Implicit.
Unset Printing Implicit Defensive.

Import Order.TTheory GRing.Theory Num.Theory.
Local Open Scope ring_scope.

(* ---- rationals of Coq's standard library into a field ---------------------- *)
Definition int_of_Z (z : BinNums.Z) : int :=
  match z with
  | Z0 => 0
  | Zpos p => Posz (Pos.to_nat p)
  | Zneg p => Negz (Pos.to_nat p).-1
  end.

Definition Q2F (R : fieldType) (q : Q) : R :=
  (int_of_Z (Qnum q))%:~R / (Pos.to_nat (Qden q))%:R.

Arguments Q2F : simpl never.
Arguments int_of_Z : simpl never.

Lemma Q2F_1 (R : numFieldType) : Q2F R 1%Q = 1.
Proof. by rewrite /Q2F /int_of_Z /= Pos2Nat.inj_1 divr1. Qed.

Lemma Q2F_0 (R : fieldType) : Q2F R 0%Q = 0.
Proof. by rewrite /Q2F /int_of_Z /= mul0r. Qed.

Lemma Q2F_half (R : numFieldType) : Q2F R (1 # 2)%Q = 2%:R^-1.
Proof. by rewrite /Q2F /int_of_Z /= Pos2Nat.inj_1 mul1r. Qed.

Lemma Q2F_mhalf (R : numFieldType) : Q2F R (-1 # 2)%Q = - 2%:R^-1.
Proof. by rewrite /Q2F /int_of_Z /= Pos2Nat.inj_xO Pos2Nat.inj_1 mulNr mul1r. Qed.

Section Instance.
Variable R : realFieldType.

Definition mc_had m n (A B : 'M[R]_(m, n)) : 'M[R]_(m, n) := \matrix_(i, j) (A i j * B i j).
Definition mc_recip m n (A : 'M[R]_(m, n)) : 'M[R]_(m, n) := map_mx (fun x => x^-1) A.
Definition mc_abs m n (A : 'M[R]_(m, n)) : 'M[R]_(m, n) := map_mx Num.norm A.
Definition mc_diagv n (v : 'M[R]_(n, 1)) : 'M[R]_n := diag_mx v^T.
Definition mc_diagof n (A : 'M[R]_n) : 'M[R]_(n, 1) := \col_i A i i.

Definition McOps : mxops :=
  {| mx      := fun m n => 'M[R]_(m, n);
     mmul    := fun m n p A B => A *m B;
     madd    := fun m n A B => A + B;
     mopp    := fun m n A => - A;
     mtr     := fun m n A => A^T;
     minv    := fun n A => invmx A;
     mid     := fun n => 1%:M;
     mconst  := fun q m n => const_mx (Q2F R q);
     mscal   := fun q m n A => Q2F R q *: A;
     mhad    := mc_had;
     mrecip  := mc_recip;
     mabs    := mc_abs;
     mdiagv  := mc_diagv;
     mdiagof := mc_diagof |}.

(* derived operations at this instance *)
Lemma msubE m n (A B : 'M[R]_(m, n)) : @msub McOps m n A B = A - B.
Proof. by []. Qed.

Lemma msumE n (v : 'M[R]_(n, 1)) : @msum McOps n v = (\sum_i v i 0)%:M.
Proof.
apply/matrixP=> i j; rewrite /msum /= !mxE !ord1 eqxx mulr1n.
by apply: eq_bigr => k _; rewrite !mxE Q2F_1 mul1r.
Qed.

Lemma mhadsumE m n (A B : 'M[R]_(m, n)) :
  @mhadsum McOps m n A B = (\sum_i \sum_j A i j * B i j)%:M.
Proof.
apply/matrixP=> i j; rewrite /mhadsum /= !mxE !ord1 eqxx mulr1n.
apply: eq_bigr => k _; rewrite !mxE Q2F_1 mul1r.
by apply: eq_bigr => l _; rewrite !mxE mulr1.
Qed.

Lemma mtraceE n (A : 'M[R]_n) : @mtrace McOps n A = (\tr A)%:M.
Proof. by rewrite /mtrace msumE /mxtrace; congr (_%:M); apply: eq_bigr => i _; rewrite /= mxE. Qed.

End Instance.

(* ---- shared matrix facts ---------------------------------------------------- *)
Section Facts.
Variable R : realFieldType.

(* inverse of a product (both factors invertible) *)
Lemma invmx_mul n (X Y : 'M[R]_n) :
  X \in unitmx -> Y \in unitmx -> invmx (X *m Y) = invmx Y *m invmx X.
Proof.
move=> uX uY.
have uXY : X *m Y \in unitmx by rewrite unitmx_mul uX uY.
apply: (can_inj (mulKmx uXY)).
by rewrite mulmxV // mulmxA -(mulmxA X) mulmxV // mulmx1 mulmxV.
Qed.

(* A = L L^T with L invertible: A is invertible and A^-1 = L^-T L^-1 *)
Lemma unit_of_factor n (L A : 'M[R]_n) :
  L *m L^T = A -> L \in unitmx -> A \in unitmx.
Proof. by move=> <- uL; rewrite unitmx_mul unitmx_tr uL. Qed.

Lemma inv_of_factor n (L A : 'M[R]_n) :
  L *m L^T = A -> L \in unitmx -> invmx A = invmx L^T *m invmx L.
Proof. by move=> <- uL; rewrite invmx_mul // unitmx_tr. Qed.

Lemma sym_of_factor n (L A : 'M[R]_n) : L *m L^T = A -> A^T = A.
Proof. by move=> <-; rewrite trmx_mul trmxK. Qed.

Lemma invmx_sym n (A : 'M[R]_n) : A^T = A -> (invmx A)^T = invmx A.
Proof. by move=> sA; rewrite trmx_inv sA. Qed.

(* B X = C with B invertible determines X: "solve(B, C)" *)
Lemma solve_uniq n p (B : 'M[R]_n) (X C : 'M[R]_(n, p)) :
  B \in unitmx -> B *m X = C -> invmx B *m C = X.
Proof. by move=> uB <-; rewrite mulKmx. Qed.

(* a right inverse makes a square matrix invertible *)
Lemma unitmx_of_right_inv n (B X : 'M[R]_n) : B *m X = 1%:M -> B \in unitmx.
Proof.
move=> BX; rewrite unitmxE unitfE.
apply/eqP => d0.
have := congr1 determinant BX.
by rewrite det_mulmx det1 d0 mul0r => /esym/eqP; rewrite oner_eq0.
Qed.

(* the scalar inside a 1 x 1 matrix *)
Lemma mx11_scalar (M : 'M[R]_1) : M = (M 0 0)%:M.
Proof. by apply/matrixP=> i j; rewrite !ord1 !mxE eqxx mulr1n. Qed.

(* ---- quadratic forms, positive semi-definiteness ---- *)
Definition qform n (M : 'M[R]_n) (x : 'cV[R]_n) : R := (x^T *m M *m x) 0 0.

Definition psd n (M : 'M[R]_n) : Prop := forall x : 'cV[R]_n, 0 <= qform M x.
Definition pd n (M : 'M[R]_n) : Prop := forall x : 'cV[R]_n, x != 0 -> 0 < qform M x.

(* v^T v is a sum of squares *)
Lemma sqnorm_ge0 n (v : 'cV[R]_n) : 0 <= (v^T *m v) 0 0.
Proof.
rewrite mxE; apply: sumr_ge0 => i _.
by rewrite mxE -expr2 sqr_ge0.
Qed.

Lemma sqnorm_eq0 n (v : 'cV[R]_n) : (v^T *m v) 0 0 = 0 -> v = 0.
Proof.
rewrite mxE => /eqP; rewrite psumr_eq0; last by move=> i _; rewrite mxE -expr2 sqr_ge0.
move=> /allP h; apply/matrixP=> i j; rewrite ord1 mxE.
have := h i; rewrite mem_index_enum => /(_ isT) /implyP /(_ isT).
by rewrite mxE -expr2 sqrf_eq0 => /eqP.
Qed.

(* G G^T is PSD *)
Lemma psd_gram n p (G : 'M[R]_(n, p)) : psd (G *m G^T).
Proof.
move=> x; rewrite /qform.
have -> : x^T *m (G *m G^T) *m x = (G^T *m x)^T *m (G^T *m x).
  by rewrite trmx_mul trmxK !mulmxA.
exact: sqnorm_ge0.
Qed.

(* congruence:  B^T M B is PSD when M is *)
Lemma psd_congr n p (M : 'M[R]_n) (B : 'M[R]_(n, p)) : psd M -> psd (B^T *m M *m B).
Proof.
move=> pM x; rewrite /qform.
have -> : x^T *m (B^T *m M *m B) *m x = (B *m x)^T *m M *m (B *m x).
  by rewrite trmx_mul !mulmxA.
exact: pM.
Qed.

Lemma psd_add n (M N : 'M[R]_n) : psd M -> psd N -> psd (M + N).
Proof.
move=> pM pN x; rewrite /qform mulmxDr mulmxDl mxE.
by rewrite addr_ge0 //; [apply: pM | apply: pN].
Qed.

Lemma pd_add n (M N : 'M[R]_n) : psd M -> pd N -> pd (M + N).
Proof.
move=> pM pN x x0; rewrite /qform mulmxDr mulmxDl mxE.
by rewrite ltr_paddl //; [apply: pM | apply: pN].
Qed.

(* the inverse of an invertible symmetric PSD matrix is PSD *)
Lemma psd_inv n (A : 'M[R]_n) : A^T = A -> A \in unitmx -> psd A -> psd (invmx A).
Proof.
move=> sA uA pA x; rewrite /qform.
have -> : x^T *m invmx A *m x = (invmx A *m x)^T *m A *m (invmx A *m x).
  by rewrite trmx_mul trmx_inv sA !mulmxA mulmxKV.
exact: pA.
Qed.

(* a positive-definite matrix is invertible *)
Lemma pd_unit n (A : 'M[R]_n) : pd A -> A \in unitmx.
Proof.
move=> pA; rewrite -row_free_unit -kermx_eq0.
apply/negPn/negP => /rowV0Pn [v /sub_kermxP vA v0].
have v0' : v^T != 0 by apply: contraNneq v0 => h; rewrite -(trmxK v) h trmx0.
have := pA v^T v0'.
by rewrite /qform trmxK vA mul0mx mxE ltxx.
Qed.

(* diagonal entries of a PSD matrix are non-negative *)
Lemma psd_diag_ge0 n (M : 'M[R]_n) i : psd M -> 0 <= M i i.
Proof.
move=> /(_ (delta_mx i 0)); rewrite /qform.
have -> : (delta_mx i 0)^T *m M *m delta_mx i 0 = (M i i)%:M :> 'M[R]_1.
  apply/matrixP=> a b; rewrite !ord1 trmx_delta -rowE mxE.
  rewrite (bigD1 i) //= big1 ?addr0; last first.
    by move=> k ki; rewrite !mxE (negPf ki) mulr0.
  by rewrite !mxE !eqxx mulr1 mulr1n.
by rewrite mxE eqxx mulr1n.
Qed.

(* ---- Schur complement ----
   If the joint matrix [[A, B],[B^T, C]] is PSD and A is symmetric and
   invertible then C - B^T A^-1 B is PSD (test vector (-A^-1 B x ; x)). *)
Lemma schur_psd n p (A : 'M[R]_n) (B : 'M[R]_(n, p)) (C : 'M[R]_p) :
  A^T = A -> A \in unitmx ->
  psd (block_mx A B B^T C) -> psd (C - B^T *m invmx A *m B).
Proof.
move=> sA uA pJ x.
pose u : 'cV[R]_n := - (invmx A *m B *m x).
have := pJ (col_mx u x); rewrite /qform -mulmxA.
have -> : block_mx A B B^T C *m col_mx u x
          = col_mx 0 ((C - B^T *m invmx A *m B) *m x).
  rewrite mul_block_col; congr col_mx.
    by rewrite /u mulmxN !mulmxA mulmxV // mul1mx addNr.
  by rewrite /u mulmxN !mulmxA mulmxBl addrC.
by rewrite tr_col_mx mul_row_col mulmx0 add0r mulmxA.
Qed.

(* adding a PSD matrix to the leading block of a PSD block matrix keeps it PSD *)
Lemma joint_psd n p (K0 S : 'M[R]_n) (B : 'M[R]_(p, n)) (C : 'M[R]_p) :
  psd (block_mx K0 B^T B C) -> psd S -> psd (block_mx (K0 + S) B^T B C).
Proof.
move=> pK pS.
have -> : block_mx (K0 + S) B^T B C = block_mx K0 B^T B C + block_mx S 0 0 0.
  by rewrite add_block_mx !addr0.
apply: psd_add => // z; rewrite /qform -(vsubmxK z).
set u := usubmx z; set w := dsubmx z.
rewrite -mulmxA mul_block_col !mul0mx !addr0 tr_col_mx mul_row_col mulmx0 addr0.
by rewrite mulmxA; apply: pS.
Qed.

End Facts.
