(* Matrix/MxOps.v -- the record of matrix operations over which every GP model
   (Matrix/GpModel.v, Matrix/Inversion.v, later C11 / C16 models) is written ONCE.

   A model is a Gallina term that mentions only the fields of an `mxops`.  It is
   instantiated twice:

     * McOps R   (Matrix/McOps.v)   mx m n := 'M[R]_(m,n), R any realFieldType,
                                    minv := invmx.  All theorems are about it.
     * ListOps   (Matrix/ListOps.v) mx m n := list (list Q) (dimensions are
                                    phantom there), minv := Gauss-Jordan whose
                                    result is verified by multiplication.  It
                                    is what `vm_compute` runs on the matrices
                                    the implementation builds.

   The dimension indices make the MathComp instance well typed; the list
   instance ignores them except where an operation *creates* a matrix
   (mid, mconst, mtr -- which needs the column count to transpose an empty
   list correctly).  Therefore dimensions are explicit arguments of those three
   and implicit everywhere else.

   NumPy / SciPy vocabulary  ->  field
     A @ B                         mmul A B
     A + B, -A, A - B              madd, mopp, msub (derived)
     A.T                           mtr
     solve(A, B), solve_triangular(A, B), inv(A)
                                   mmul (minv A) B      (exact solve)
     eye(n)                        mid n
     zeros / ones / full           mconst q m n
     c * A  (python float c)       mscal q A            (q : Q, exact value of c)
     A * B  (same shape)           mhad A B             (entrywise)
     1.0 / A, A ** -1              mrecip A             (entrywise)
     abs(A)                        mabs A
     diag(v) (v 1-D)               mdiagv v             (v as a column, n x 1)
     diag(A), diagonal(A) (A 2-D)  mdiagof A            (result a column)
     v.sum(), (u*v).sum()          msum (derived: ones-row times column)

   1-D arrays of length n are n x 1 columns; Python scalars are 1 x 1. *)
From Coq Require Import QArith.

Record mxops : Type := MxOps {
  mx     : nat -> nat -> Type;
  mmul   : forall {m n p : nat}, mx m n -> mx n p -> mx m p;
  madd   : forall {m n : nat}, mx m n -> mx m n -> mx m n;
  mopp   : forall {m n : nat}, mx m n -> mx m n;
  mtr    : forall (m n : nat), mx m n -> mx n m;
  minv   : forall {n : nat}, mx n n -> mx n n;
  mid    : forall n : nat, mx n n;
  mconst : Q -> forall m n : nat, mx m n;
  mscal  : Q -> forall {m n : nat}, mx m n -> mx m n;
  mhad   : forall {m n : nat}, mx m n -> mx m n -> mx m n;
  mrecip : forall {m n : nat}, mx m n -> mx m n;
  mabs   : forall {m n : nat}, mx m n -> mx m n;
  mdiagv : forall {n : nat}, mx n 1 -> mx n n;
  mdiagof: forall {n : nat}, mx n n -> mx n 1
}.

Arguments mmul {_ _ _ _}.
Arguments madd {_ _ _}.
Arguments mopp {_ _ _}.
Arguments mtr {_} _ _.
Arguments minv {_ _}.
Arguments mid {_} _.
Arguments mconst {_} _ _ _.
Arguments mscal {_} _ {_ _}.
Arguments mhad {_ _ _}.
Arguments mrecip {_ _ _}.
Arguments mabs {_ _ _}.
Arguments mdiagv {_ _}.
Arguments mdiagof {_ _}.

Section Derived.
Variable O : mxops.

Definition msub {m n} (A B : mx O m n) : mx O m n := madd A (mopp B).

(* x.sum() of a 1-D array *)
Definition msum {n} (v : mx O n 1) : mx O 1 1 := mmul (mconst 1%Q 1 n) v.

(* trace, as the sum of the diagonal *)
Definition mtrace {n} (A : mx O n n) : mx O 1 1 := msum (mdiagof A).

(* (A * B).sum() for two 2-D arrays of equal shape: numpy's way of writing
   tr(A B^T) *)
Definition mhadsum {m n} (A B : mx O m n) : mx O 1 1 :=
  mmul (mconst 1%Q 1 m) (mmul (mhad A B) (mconst 1%Q n 1)).

End Derived.

Arguments msub {O m n}.
Arguments msum {O n}.
Arguments mtrace {O n}.
Arguments mhadsum {O m n}.
