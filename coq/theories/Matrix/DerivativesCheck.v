(* Matrix/DerivativesCheck.v -- the correspondence check of property C16, evaluated
   by vm_compute inside the generated files coq/gen/C16/*.v.

   A `dq_case` holds what the harness read from ONE constructed GpRegressor
   (SquaredExponential kernel, one of the three mean functions) and a batch of
   query points; for each query point the arrays the implementation itself
   builds (K_qx, gradient_terms A and R) and what gradient() and
   spatial_derivatives() returned for it.  `check_dq` instantiates
   Matrix/Derivatives.v at ListOps and returns the failing obligations:

     0  an inverse failed its run-time verification ("model could not evaluate")
     1  self.L is lower triangular and L L^T = self.K_xx to t_f   [hypothesis of the theorems]
     2  gp_alpha L y mu = self.alpha                                  (t_a)
     3  grad_mean (model alpha, MODEL's mean-function gradient)  = gradient()[0]           (t_m)
     4  grad_cov                                                 = gradient()[1]           (t_c)
     5  grad_mean                                                = spatial_derivatives()[0] (t_m)
     6  dvar                                                     = spatial_derivatives()[1] (t_v)
     7  closed forms with the exact (K_xx+S)^-1: G A^-1 (y-mu) + dm/dq, diag(R) - G A^-1 G^T,
        -2 G A^-1 K_xq  = the same outputs
     8  on the implementation's gradient covariance: symmetric to t_c and
        -t_c <= cov_ii <= R_i + t_c
   and, as information for the failing-input search (not obligations):
     20 gradient()[0] agrees with the PINNED model grad_mean_pinned (D14)
     21 gradient()[1] agrees with the PINNED model grad_cov_pinned  (D15)
   The mean-function gradient is computed by the model (dmean_const / dmean_linear /
   dmean_quadratic from the hyper-parameters, the query point and the training
   inputs) -- never read from the implementation. *)
From Coq Require Import List QArith Qabs Bool Arith.
From IT Require Import Matrix.MxOps Matrix.ListOps Matrix.GpModel Matrix.Derivatives.
Import ListNotations.
Open Scope Q_scope.

Record dq_point := DqPoint {
  p_q : qvec;                      (* the query point, d *)
  p_Kqx : qvec;                    (* cov(q, x)[0, :], n *)
  p_A : qmat;                      (* gradient_terms(...)[0], d x n *)
  p_R : qvec;                      (* gradient_terms(...)[1], d *)
  o_gmean : qvec; o_gcov : qmat;   (* gradient(q) *)
  o_dmu : qvec; o_dvar : qvec      (* spatial_derivatives(q) *)
}.

Record dq_case := DqCase {
  c_n : nat; c_d : nat;
  c_Adata : qmat;                  (* self.K_xx  (= kernel matrix + error covariance) *)
  c_L : qmat; c_alpha : qvec;      (* self.L, self.alpha *)
  c_y : qvec; c_mu : qvec;         (* self.y, self.mu *)
  c_X : qmat;                      (* self.x, n x d *)
  c_mkind : mean_kind;
  c_th_lin : qvec; c_th_quad : qvec;   (* slices of the mean hyper-parameters (empty if absent) *)
  c_points : list dq_point;
  t_f : Q; t_a : Q; t_m : Q; t_c : Q; t_v : Q
}.

Definition dmean_of (c : dq_case) (q : qvec) : qmat :=
  match c_mkind c with
  | MConst => @dmean_const ListOps (c_d c)
  | MLinear => @dmean_linear ListOps (c_d c) (col_of (c_th_lin c))
  | MQuadratic => @dmean_quadratic ListOps (c_n c) (c_d c) (c_X c) (col_of q)
                                   (col_of (c_th_lin c)) (col_of (c_th_quad c))
  end.

Definition all_points (c : dq_case) (f : dq_point -> bool) : bool := forallb f (c_points c).

Definition check_dq_obligations (c : dq_case) : list bool :=
  let n := c_n c in let d := c_d c in
  let A := c_Adata c in let L := c_L c in
  let y := col_of (c_y c) in let mu := col_of (c_mu c) in
  let Li := qinv n L in
  let LTi := qinv_checked n (qtr n n L) (qtr n n Li) in
  let Ai := qinv n A in
  let alpha := @gp_alpha_s ListOps n Li LTi y mu in
  let gm p := @grad_mean ListOps d n (p_A p) (row_of (p_Kqx p)) alpha (dmean_of c (p_q p)) in
  [ (* 0 *) shape_ok n n Li && shape_ok n n LTi && shape_ok n n Ai
          && negb (Nat.eqb n 0) && negb (Nat.eqb d 0)
          && negb (Nat.eqb (length (c_points c)) 0);
    (* 1 *) is_lower L && close_mx n n (t_f c) (qmul L (qtr n n L)) A;
    (* 2 *) close_mx n 1 (t_a c) alpha (col_of (c_alpha c));
    (* 3 *) all_points c (fun p => close_mx d 1 (t_m c) (gm p) (col_of (o_gmean p)));
    (* 4 *) all_points c (fun p => close_mx d d (t_c c)
               (@grad_cov_s ListOps d n Li (p_A p) (row_of (p_Kqx p)) (col_of (p_R p))) (o_gcov p));
    (* 5 *) all_points c (fun p => close_mx d 1 (t_m c) (gm p) (col_of (o_dmu p)));
    (* 6 *) all_points c (fun p => close_mx d 1 (t_v c)
               (@dvar_s ListOps d n Li LTi (p_A p) (row_of (p_Kqx p))) (col_of (o_dvar p)));
    (* 7 *) all_points c (fun p =>
               let cm := @grad_mean_closed_s ListOps d n Ai (p_A p) (row_of (p_Kqx p)) y mu
                                              (dmean_of c (p_q p)) in
               close_mx d 1 (t_m c) cm (col_of (o_gmean p))
               && close_mx d 1 (t_m c) cm (col_of (o_dmu p))
               && close_mx d d (t_c c)
                    (@grad_cov_closed_s ListOps d n Ai (p_A p) (row_of (p_Kqx p)) (col_of (p_R p)))
                    (o_gcov p)
               && close_mx d 1 (t_v c)
                    (@dvar_closed_s ListOps d n Ai (p_A p) (row_of (p_Kqx p))) (col_of (o_dvar p)));
    (* 8 *) all_points c (fun p =>
               close_mx d d (t_c c) (o_gcov p) (qtr d d (o_gcov p))
               && forallb (fun vr => Qle_bool (- t_c c) (fst vr) && Qle_bool (fst vr) (snd vr + t_c c))
                          (combine (map (fun r => hd 0 r) (qdiagof (o_gcov p))) (p_R p))) ].

(* information: does the implementation agree with the pinned (defective) model? *)
Definition pinned_agreement (c : dq_case) : list bool :=
  let n := c_n c in let d := c_d c in
  let L := c_L c in
  let y := col_of (c_y c) in let mu := col_of (c_mu c) in
  let Li := qinv n L in
  let LTi := qinv_checked n (qtr n n L) (qtr n n Li) in
  let alpha := @gp_alpha_s ListOps n Li LTi y mu in
  [ all_points c (fun p => close_mx d 1 (t_m c)
       (@grad_mean_pinned ListOps d n (p_A p) (row_of (p_Kqx p)) alpha (dmean_of c (p_q p)))
       (col_of (o_gmean p)));
    all_points c (fun p => close_mx d d (t_c c)
       (@grad_cov_pinned_s ListOps d n Li (p_A p) (row_of (p_Kqx p)) (col_of (p_R p))) (o_gcov p)) ].

Fixpoint info_codes (k : nat) (bs : list bool) : list nat :=
  match bs with
  | [] => []
  | b :: rest => if b then k :: info_codes (S k) rest else info_codes (S k) rest
  end.

(* failing obligations; if any of 3..8 fails, followed by the codes 20 / 21 *)
Definition check_dq (c : dq_case) : list nat :=
  let f := failing_obligations 0 (check_dq_obligations c) in
  match f with
  | [] => []
  | _ => f ++ info_codes 20 (pinned_agreement c)
  end.

Fixpoint flatten_dq (k : nat) (rs : list (list nat)) : list nat :=
  match rs with
  | [] => []
  | r :: rest => map (fun o => (k * 100 + o)%nat) r ++ flatten_dq (S k) rest
  end.

Definition failing_dq (cs : list dq_case) : list nat := flatten_dq 0 (map check_dq cs).

(* ---- the pinned defects on a concrete regressor (the witness of the refuted
   theorems of Properties/C16.v; n = 2 training points, d = 2, identity Cholesky
   factor): the pinned gradient covariance is not symmetric and the pinned gradient
   mean ignores a linear mean function ------------------------------------------ *)
Definition witness_L : qmat := [[1; 0]; [0; 1]].
Definition witness_A : qmat := [[1; -1]; [1 # 2; 2]].
Definition witness_K : qmat := [[1 # 2; 1 # 4]].
Definition witness_R : qmat := [[1]; [4]].
Definition witness_alpha : qmat := [[1]; [-1]].
Definition witness_thlin : qmat := [[3]; [-2]].
