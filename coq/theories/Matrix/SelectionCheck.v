(* Matrix/SelectionCheck.v -- the correspondence check of property C11, evaluated by
   vm_compute inside the generated files coq/gen/C11/*.v, and the real-number goals
   for the score VALUES (they contain logarithms) closed by coq-interval.

   A `sel_case` holds what the harness read from ONE constructed GpRegressor at its
   own hyper-parameters theta: the matrices the implementation builds
   (K_xx + sig, its Cholesky factor self.L, y, mu, the gradient matrices / vectors
   returned by covariance_and_gradients / mean_and_gradients), what the five
   model-selection functions returned, and the REFIT predictions: for each i the
   real GpRegressor was fitted again WITHOUT point i (same hyper-parameters) and asked
   to predict at x_i; r_mu_i is its mean, r_var_i its variance plus the noise
   variance of observation i (the diagonal term of K_xx + sig that a prediction at a
   new point does not contain).  s_refit = false for correlated observation noise
   (non-diagonal y_cov), where a refit prediction of the latent function is not the
   conditional distribution of y_i given the other observations.

   `check_sel` instantiates Matrix/Selection.v at an executable instance and returns the failing
   obligations:
     0  an inverse failed its run-time verification
     1  self.L is lower triangular with positive diagonal and L L^T = K_xx + sig (t_f)
     2  marginal-likelihood gradient, mean part:  (alpha * dmu).sum()  and  alpha^T dmu  (t_g)
     3  marginal-likelihood gradient, covariance part: 0.5 (Q * dK.T).sum() and the trace
        form 1/2 tr((alpha alpha^T - A^-1) dK) with the exact A^-1               (t_g)
     4  loo_predictions: mu and sigma^2                                            (t_m, t_v)
     5  loo-likelihood gradient, both parts                                        (t_h)
     6  the LOO predictions equal the refit predictions (mean, variance)           (t_m, t_v)
     7  quadratic parts: data flow of marginal_likelihood = of ..._gradient = closed form
        -1/2 r^T A^-1 r with the exact A^-1 ; value and value-and-gradient variants
        returned the same numbers                                                  (t_q)
     8  det(K_xx + sig) (exact, Bareiss) = (prod_i L_ii)^2 to t_d (relative)
     9  (small cases, s_cross) the model evaluated on ListOps and on BigOps agrees EXACTLY
   The cases are evaluated on Matrix/BigOps.v (bigQ scalars; the gradients sum
   fractions with unrelated denominators, which costs a 2000-bit gcd per addition on
   binary Q); obligation 9 ties that instance to ListOps on every run.
   The score values are goals over R (`ml_goal`, `ml_closed_goal`, `loo_goal`,
   `loo_refit_goal`) built from the exact rationals `sel_*` below. *)
From Coq Require Import List QArith Qabs Bool Arith Reals Qreals.
From Bignums Require Import BigQ.
From Interval Require Import Tactic.
From IT Require Import Matrix.MxOps Matrix.ListOps Matrix.BigOps Matrix.GpModel Matrix.Selection.
From IT Require Import RealModel.SelectionValue.
Import ListNotations.
Open Scope Q_scope.

Record sel_case := SelCase {
  s_n : nat;
  s_A : qmat; s_L : qmat;
  s_y : qvec; s_mu : qvec;
  s_dK : list qmat; s_dmu : list qvec;
  o_ml : Q; o_mlg : Q; o_ml_grad_mean : qvec; o_ml_grad_cov : qvec;
  o_loo : Q; o_loog : Q; o_loo_grad_mean : qvec; o_loo_grad_cov : qvec;
  o_loo_mu : qvec; o_loo_sig : qvec;
  s_refit : bool;                 (* diagonal noise: the refit comparison applies *)
  s_cross : bool;                 (* also evaluate on ListOps and demand exact agreement *)
  r_mu : qvec; r_var : qvec;
  t_f : Q; t_g : Q; t_h : Q; t_m : Q; t_v : Q; t_q : Q; t_d : Q; t_l : Q; t_r : Q
}.

Definition entry11 (A : qmat) : Q := hd 0 (hd [] A).
Definition col_to_vec (A : qmat) : qvec := map (fun r => hd 0 r) A.
Definition sqq (x : Q) : Q := x * x.
Definition close_q (tol a b : Q) : bool := Qle_bool (Qabs (a - b)) tol.
Fixpoint close_vec (tol : Q) (a b : qvec) : bool :=
  match a, b with
  | [], [] => true
  | x :: a', y :: b' => close_q tol x y && close_vec tol a' b'
  | _, _ => false
  end.

(* ---- everything the model computes for one case, on the executable instance E; the
   results are kept as bigQ (Matrix/BigOps.v) and compared there ------------------------ *)
Record sel_out := SelOut {
  x_ok : bool;                                 (* the three inverses passed their verification *)
  x_lmu : bvec; x_lvar : bvec;                 (* loo_mu (with gp_alpha), loo_var *)
  x_q1 : bigQ; x_q2 : bigQ; x_q3 : bigQ;       (* ml_quad, mlg_quad, quad_closed *)
  x_ml_gmean : bvec; x_ml_gmean_closed : bvec; (* (alpha*dmu).sum() ; alpha^T dmu with the exact A^-1 *)
  x_ml_gcov : bvec; x_ml_gtrace : bvec;        (* 0.5 (Q*dK.T).sum() ; trace form with the exact A^-1 *)
  x_loo_gmean : bvec; x_loo_gcov : bvec
}.

Section OnInstance.
Variable E : exec.

Definition sel_outputs (c : sel_case) : sel_out :=
  let n := s_n c in
  let L := s_L c in
  let y := einj E n 1 (col_of (s_y c)) in let mu := einj E n 1 (col_of (s_mu c)) in
  let Li := @minv E n (einj E n n L) in
  let LiQ := eprjQ E n n Li in
  let LTiQ := qinv_checked n (qtr n n L) (qtr n n LiQ) in    (* (L^T)^-1, verified by L^T X = I *)
  let LTi := einj E n n LTiQ in
  let Ai := @minv E n (einj E n n (s_A c)) in
  let alpha := @gp_alpha_s E n Li LTi y mu in
  let e11 (X : mx E 1 1) := bentry11 (eprj E 1 1 X) in
  let dmus := map (fun v => einj E n 1 (col_of v)) (s_dmu c) in
  let dKs := map (einj E n n) (s_dK c) in
  {| x_ok := shape_ok n n LiQ && shape_ok n n LTiQ && shape_ok n n (eprjQ E n n Ai) && negb (Nat.eqb n 0);
     x_lmu := bcol_to_vec (eprj E n 1 (@loo_mu_s E n Li alpha y));
     x_lvar := bcol_to_vec (eprj E n 1 (@loo_var_s E n Li));
     x_q1 := e11 (@ml_quad_s E n Li y mu);
     x_q2 := e11 (@mlg_quad_s E n Li y mu);
     x_q3 := e11 (@quad_closed_s E n Ai y mu);
     x_ml_gmean := map (fun dmu => e11 (@mlg_mean_grad_s E n Li y mu dmu)) dmus;
     x_ml_gmean_closed := map (fun dmu => e11 (@ml_grad_mean_closed_s E n Ai y mu dmu)) dmus;
     x_ml_gcov := map (fun dK => e11 (@mlg_cov_grad_s E n Li y mu dK)) dKs;
     x_ml_gtrace := map (fun dK => e11 (@ml_grad_trace_s E n Ai y mu dK)) dKs;
     x_loo_gmean := map (fun dmu => e11 (@loo_mean_grad_s E n Li y mu dmu)) dmus;
     x_loo_gcov := map (fun dK => e11 (@loo_cov_grad_s E n Li y mu dK)) dKs |}.

End OnInstance.

(* the two executable instances agree EXACTLY on every model output *)
Definition out_eqb (a b : sel_out) : bool :=
  Bool.eqb (x_ok a) (x_ok b) && beq_vec (x_lmu a) (x_lmu b) && beq_vec (x_lvar a) (x_lvar b)
  && BigQ.eq_bool (x_q1 a) (x_q1 b) && BigQ.eq_bool (x_q2 a) (x_q2 b) && BigQ.eq_bool (x_q3 a) (x_q3 b)
  && beq_vec (x_ml_gmean a) (x_ml_gmean b) && beq_vec (x_ml_gmean_closed a) (x_ml_gmean_closed b)
  && beq_vec (x_ml_gcov a) (x_ml_gcov b) && beq_vec (x_ml_gtrace a) (x_ml_gtrace b)
  && beq_vec (x_loo_gmean a) (x_loo_gmean b) && beq_vec (x_loo_gcov a) (x_loo_gcov b).

(* exact rationals for the value goals (ListOps; these involve no gradient) *)
Definition sel_Li (c : sel_case) : qmat := qinv (s_n c) (s_L c).
Definition sel_Ai (c : sel_case) : qmat := qinv (s_n c) (s_A c).
Definition sel_ml_quad (c : sel_case) : Q :=
  Qred (entry11 (@ml_quad_s ListOps (s_n c) (sel_Li c) (col_of (s_y c)) (col_of (s_mu c)))).
Definition sel_quad_closed (c : sel_case) : Q :=
  Qred (entry11 (@quad_closed_s ListOps (s_n c) (sel_Ai c) (col_of (s_y c)) (col_of (s_mu c)))).
Definition sel_det (c : sel_case) : Q := qdet (s_n c) (s_A c).
Definition sel_diagL (c : sel_case) : qvec := col_to_vec (@ml_diag ListOps (s_n c) (s_L c)).
Definition sel_loo_quad (c : sel_case) : Q :=
  Qred (entry11 (@loo_quad_s ListOps (s_n c) (sel_Li c) (col_of (s_y c)) (col_of (s_mu c)))).
Definition sel_loo_var (c : sel_case) : qvec :=
  map Qred (col_to_vec (@loo_var_s ListOps (s_n c) (sel_Li c))).

(* `o` is `sel_outputs E c`; a parameter so that Matrix/SelectionRepr.v can evaluate the model once
   per case and compare it with the outputs of several calls *)
Definition check_sel_obligations_on (E : exec) (c : sel_case) (o : sel_out) : list bool :=
  let n := s_n c in
  let A := s_A c in let L := s_L c in
  let diagL := sel_diagL c in
  let pd := fold_right (fun x acc => x * acc) 1 diagL in
  let dt := sel_det c in
  [ (* 0 *) x_ok o;
    (* 1 *) is_lower L && forallb (fun x => negb (Qle_bool x 0)) diagL
            && close_mx n n (t_f c) (qmul L (qtr n n L)) A;
    (* 2 *) bclose_vec (t_g c) (x_ml_gmean o) (o_ml_grad_mean c)
            && bclose_vec (t_g c) (x_ml_gmean_closed o) (o_ml_grad_mean c);
    (* 3 *) bclose_vec (t_g c) (x_ml_gcov o) (o_ml_grad_cov c)
            && bclose_vec (t_g c) (x_ml_gtrace o) (o_ml_grad_cov c);
    (* 4 *) bclose_vec (t_m c) (x_lmu o) (o_loo_mu c) && bclose_vec (t_v c) (x_lvar o) (map sqq (o_loo_sig c));
    (* 5 *) bclose_vec (t_h c) (x_loo_gmean o) (o_loo_grad_mean c)
            && bclose_vec (t_h c) (x_loo_gcov o) (o_loo_grad_cov c);
    (* 6 *) negb (s_refit c)
            || (bclose_vec (t_m c) (x_lmu o) (r_mu c) && bclose_vec (t_v c) (x_lvar o) (r_var c)
                && close_vec (t_m c) (o_loo_mu c) (r_mu c)
                && close_vec (t_v c) (map sqq (o_loo_sig c)) (r_var c));
    (* 7 *) bclose2 (t_q c) (x_q1 o) (x_q2 o) && bclose2 (t_q c) (x_q1 o) (x_q3 o)
            && close_q (t_l c) (o_ml c) (o_mlg c) && close_q (t_l c) (o_loo c) (o_loog c);
    (* 8 *) close_q (t_d c * Qabs dt) dt (pd * pd) && negb (Qle_bool dt 0);
    (* 9 *) if s_cross c then out_eqb (sel_outputs ListExec c) o else true ].   (* `if`: branches are lazy under vm_compute *)

Definition check_sel_obligations (E : exec) (c : sel_case) : list bool :=
  check_sel_obligations_on E c (sel_outputs E c).

Definition check_sel (E : exec) (c : sel_case) : list nat :=
  failing_obligations 0 (check_sel_obligations E c).

Fixpoint flatten_sel (k : nat) (rs : list (list nat)) : list nat :=
  match rs with
  | [] => []
  | r :: rest => map (fun o => (k * 100 + o)%nat) r ++ flatten_sel (S k) rest
  end.
(* the run evaluates the cases on the fast instance; obligation 9 re-evaluates the
   small ones (s_cross) on ListOps and demands exact agreement *)
Definition failing_sel (cs : list sel_case) : list nat := flatten_sel 0 (map (check_sel BigExec) cs).

(* ---- the score values: goals over R ------------------------------------------------ *)
Open Scope R_scope.

(* marginal_likelihood as computed:  -0.5 v.v - sum ln L_ii *)
Definition ml_goal (c : sel_case) : Prop :=
  Rabs (Q2R (o_ml c) - ml_value (Q2R (sel_ml_quad c)) (map Q2R (sel_diagL c))) <= Q2R (t_l c).
(* the property's closed form:  -1/2 r^T A^-1 r - 1/2 ln det A *)
Definition ml_closed_goal (c : sel_case) : Prop :=
  Rabs (Q2R (o_ml c) - ml_closed (Q2R (sel_quad_closed c)) (Q2R (sel_det c))) <= Q2R (t_l c).
(* loo_likelihood as computed *)
Definition loo_goal (c : sel_case) : Prop :=
  Rabs (Q2R (o_loo c) - loo_value (Q2R (sel_loo_quad c)) (map Q2R (sel_loo_var c))) <= Q2R (t_l c).
(* the property: sum of the Gaussian log-densities of the REFIT predictions *)
Definition loo_refit_goal (c : sel_case) : Prop :=
  Rabs (Q2R (o_loo c) - loo_closed (map Q2R (s_y c)) (map Q2R (r_mu c)) (map Q2R (r_var c)))
  <= Q2R (t_r c).

(* evaluate the rationals with the VM, then hand the real inequality to `interval` *)
Ltac sel_eval t :=
  let H := fresh "H" in
  let v := eval vm_compute in t in
  assert (H : t = v) by (vm_compute; reflexivity); rewrite H; clear H.

Ltac sel_finish :=
  unfold ml_value, ml_closed, loo_value;
  cbn [map sum_ln loo_closed];
  unfold gauss_logpdf, Q2R; cbn [Qnum Qden];
  interval with (i_prec 150).

Ltac ml_tac :=
  unfold ml_goal;
  match goal with |- context [sel_ml_quad ?c] =>
    sel_eval (sel_ml_quad c); sel_eval (sel_diagL c); sel_eval (o_ml c); sel_eval (t_l c) end;
  sel_finish.
Ltac ml_closed_tac :=
  unfold ml_closed_goal;
  match goal with |- context [sel_quad_closed ?c] =>
    sel_eval (sel_quad_closed c); sel_eval (sel_det c); sel_eval (o_ml c); sel_eval (t_l c) end;
  sel_finish.
Ltac loo_tac :=
  unfold loo_goal;
  match goal with |- context [sel_loo_quad ?c] =>
    sel_eval (sel_loo_quad c); sel_eval (sel_loo_var c); sel_eval (o_loo c); sel_eval (t_l c) end;
  sel_finish.
Ltac loo_refit_tac :=
  unfold loo_refit_goal;
  match goal with |- context [o_loo ?c] =>
    sel_eval (o_loo c); sel_eval (s_y c); sel_eval (r_mu c); sel_eval (r_var c); sel_eval (t_r c) end;
  sel_finish.

(* ---- multistart_bfgs on recorded optimiser runs -------------------------------------- *)
(* a recorded run: bounds, the uniform draws, the starting positions the implementation
   used, what launch_bfgs returned for each (x, cost), the cost at each start (the
   implementation's own -model_selector(x0)), and the chosen hyper-parameters.
     0  shapes
     1  starting positions = ms_starts lwr upr draws (to t_s), the last one the centre
     2  the chosen hyper-parameters are `multistart` of the recorded results
     3  optimiser contract on this run: returned cost <= cost at its start (+ t_c)
     4  every result and the solution inside the bounds (exactly: L-BFGS-B projects)
     5  cost of the solution <= cost at the centre (+ t_c) *)
Open Scope Q_scope.
Record ms_case := MsCase {
  m_lwr : qvec; m_upr : qvec;
  m_draws : list qvec;
  m_starts : list qvec;
  m_results : list (qvec * Q);
  m_start_costs : list Q;
  m_solution : qvec; m_solution_cost : Q;
  m_ts : Q; m_tc : Q
}.

Definition qhalf : Q := 1 # 2.
Definition in_box (lwr upr x : qvec) : bool :=
  Nat.eqb (length x) (length lwr) && Nat.eqb (length x) (length upr) &&
  forallb (fun t => Qle_bool (fst (fst t)) (snd t) && Qle_bool (snd t) (snd (fst t)))
          (combine (combine lwr upr) x).
Fixpoint all2 {A B} (f : A -> B -> bool) (a : list A) (b : list B) : bool :=
  match a, b with
  | [], [] => true
  | x :: a', y :: b' => f x y && all2 f a' b'
  | _, _ => false
  end.
Definition qvec_eqb (a b : qvec) : bool := all2 Qeq_bool a b.

Definition check_ms_obligations (c : ms_case) : list bool :=
  let starts := ms_starts Qplus Qminus Qmult qhalf (m_lwr c) (m_upr c) (m_draws c) in
  let centre := ms_centre Qplus Qmult qhalf (m_lwr c) (m_upr c) in
  let centre_cost := last (m_start_costs c) 0 in
  [ Nat.eqb (length (m_starts c)) (length (m_results c))
      && Nat.eqb (length (m_starts c)) (length (m_start_costs c))
      && Nat.eqb (length (m_starts c)) (S (length (m_draws c)));
    all2 (close_vec (m_ts c)) starts (m_starts c)
      && close_vec (m_ts c) centre (last (m_starts c) []);
    match best_of Qle_bool (m_results c) with      (* multistart launch starts = fst (best_of (map launch starts)) *)
    | Some r => qvec_eqb (fst r) (m_solution c) && Qeq_bool (snd r) (m_solution_cost c)
    | None => false
    end;
    all2 (fun r c0 => Qle_bool (snd r) (c0 + m_tc c)) (m_results c) (m_start_costs c);
    forallb (fun r => in_box (m_lwr c) (m_upr c) (fst r)) (m_results c)
      && in_box (m_lwr c) (m_upr c) (m_solution c);
    Qle_bool (m_solution_cost c) (centre_cost + m_tc c) ].

Definition failing_ms (cs : list ms_case) : list nat :=
  flatten_sel 0 (map (fun c => failing_obligations 0 (check_ms_obligations c)) cs).
