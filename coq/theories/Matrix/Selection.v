(* Matrix/Selection.v -- data-flow model of the model-selection scores of
   GpRegressor (inference/gp/regression.py, property C11): marginal_likelihood,
   marginal_likelihood_gradient, loo_predictions, loo_likelihood,
   loo_likelihood_gradient over an arbitrary `mxops` (Matrix/MxOps.v), and
   multistart_bfgs as "best of the optimiser's results" with the optimiser
   abstract.  No proofs here.

   Conventions as in Matrix/GpModel.v (1-D arrays are columns, scalars 1 x 1,
   cholesky = an input L, solve_triangular = multiplication by minv).  Inputs:
     L      = cholesky(K_xx),  K_xx = cov.build_covariance(theta_cov) + self.sig
     y, mu  = self.y, mean.build_mean(theta_mean)
     dK     = one of the matrices of cov.covariance_and_gradients(theta_cov)[1]
     dmu    = one of the vectors  of mean.mean_and_gradients(theta_mean)[1]
   The logarithms are NOT in `mxops`: each score is split into its algebraic part
   (a 1 x 1 matrix, below) and the vector whose logarithms are summed
   (diagonal(L), resp. var); the real-number value is assembled in
   RealModel/SelectionValue.v:
       marginal_likelihood   = ml_quad  - sum_i ln (ml_diag)_i
       loo_likelihood        = loo_quad - 1/2 sum_i ln (loo_var)_i

   regression.py                                              model
   -------------                                              -----
   marginal_likelihood
   545   v = solve_triangular(L, self.y - mu, lower=True)
   546   return -0.5 * (v @ v) - log(diagonal(L)).sum()         ml_quad, ml_diag
   marginal_likelihood_gradient
   561-2 iK = solve_triangular(L, eye(n), lower=True); iK = iK.T @ iK      inv_from_chol
   564   alpha = iK @ (self.y - mu)                              sel_alpha
   565   LML = -0.5 * ((self.y - mu).T @ alpha) - log(diagonal(L)).sum()   mlg_quad, ml_diag
   568   [(alpha * dmu).sum() for dmu in grad_mu]                mlg_mean_grad
   570   Q = alpha[:, None] * alpha[None, :] - iK                mlg_Q
   571   [0.5 * (Q * dK.T).sum() for dK in grad_K]               mlg_cov_grad
   loo_predictions
   460-2 iK (from self.L); var = 1.0 / diag(iK)                  loo_var
   464   mu = self.y - self.alpha * var                          loo_mu
   465   sigma = sqrt(var)                                       (compared through sigma^2 = loo_var)
   loo_likelihood
   483   -0.5 * (var * alpha**2 + log(var)).sum()                loo_quad, loo_var
   loo_likelihood_gradient
   508-9 c1 = alpha * var ; c2 = 0.5 * var * (1 + var * alpha**2)   loo_c1, loo_c2
   511-2 Z = iK @ dK ; g = (c1 * (Z @ alpha) - c2 * diag(Z @ iK)).sum()   loo_cov_grad
   517-8 Z = iK @ dmu ; g = (c1 * Z).sum()                       loo_mean_grad
   multistart_bfgs
   591-6 starting positions: lwr + (upr - lwr) * random(), ..., 0.5 * (lwr + upr)   ms_starts
   599   results = [launch_bfgs(x0) for x0 in starting_positions]
   605   solution = sorted(results, key=lambda x: x[1])[0][0]    best_of (first minimal cost), multistart

   Mutations of the data flow used by the check to classify disagreements are not
   modelled; the pinned tree has no known defect under C11. *)
From Coq Require Import QArith List.
From IT Require Import Matrix.MxOps.
Import ListNotations.

Section Selection.
Variable O : mxops.
Notation M := (mx O).

(* ---- marginal_likelihood ---------------------------------------------------- *)
Definition ml_quad_s {n} (Li : M n n) (y mu : M n 1) : M 1 1 :=
  let v := mmul Li (msub y mu) in mscal (-1 # 2)%Q (mmul (mtr n 1 v) v).
Definition ml_quad {n} (L : M n n) (y mu : M n 1) : M 1 1 := ml_quad_s (minv L) y mu.
Definition ml_diag {n} (L : M n n) : M n 1 := mdiagof L.

(* ---- the inverse obtained from the Cholesky factor ---------------------------- *)
Definition inv_from_chol_s {n} (Li : M n n) : M n n :=
  let X := mmul Li (mid n) in mmul (mtr n n X) X.
Definition sel_alpha_s {n} (Li : M n n) (y mu : M n 1) : M n 1 :=
  mmul (inv_from_chol_s Li) (msub y mu).

(* ---- marginal_likelihood_gradient ---------------------------------------------- *)
Definition mlg_quad_s {n} (Li : M n n) (y mu : M n 1) : M 1 1 :=
  mscal (-1 # 2)%Q (mmul (mtr n 1 (msub y mu)) (sel_alpha_s Li y mu)).
Definition mlg_quad {n} (L : M n n) (y mu : M n 1) : M 1 1 := mlg_quad_s (minv L) y mu.

Definition mlg_mean_grad_s {n} (Li : M n n) (y mu dmu : M n 1) : M 1 1 :=
  msum (mhad (sel_alpha_s Li y mu) dmu).
Definition mlg_mean_grad {n} (L : M n n) (y mu dmu : M n 1) : M 1 1 :=
  mlg_mean_grad_s (minv L) y mu dmu.

Definition mlg_Q_s {n} (Li : M n n) (y mu : M n 1) : M n n :=
  let alpha := sel_alpha_s Li y mu in
  msub (mmul alpha (mtr n 1 alpha)) (inv_from_chol_s Li).
Definition mlg_cov_grad_s {n} (Li : M n n) (y mu : M n 1) (dK : M n n) : M 1 1 :=
  mscal (1 # 2)%Q (mhadsum (mlg_Q_s Li y mu) (mtr n n dK)).
Definition mlg_cov_grad {n} (L : M n n) (y mu : M n 1) (dK : M n n) : M 1 1 :=
  mlg_cov_grad_s (minv L) y mu dK.

(* ---- leave-one-out -------------------------------------------------------------- *)
Definition loo_var_s {n} (Li : M n n) : M n 1 := mrecip (mdiagof (inv_from_chol_s Li)).
Definition loo_var {n} (L : M n n) : M n 1 := loo_var_s (minv L).

(* loo_predictions uses the cached self.alpha (GpModel.gp_alpha) *)
Definition loo_mu_s {n} (Li : M n n) (alpha y : M n 1) : M n 1 :=
  msub y (mhad alpha (loo_var_s Li)).
Definition loo_mu {n} (L : M n n) (alpha y : M n 1) : M n 1 := loo_mu_s (minv L) alpha y.

Definition loo_quad_s {n} (Li : M n n) (y mu : M n 1) : M 1 1 :=
  let alpha := sel_alpha_s Li y mu in
  mscal (-1 # 2)%Q (msum (mhad (loo_var_s Li) (mhad alpha alpha))).
Definition loo_quad {n} (L : M n n) (y mu : M n 1) : M 1 1 := loo_quad_s (minv L) y mu.

Definition loo_c1_s {n} (Li : M n n) (y mu : M n 1) : M n 1 :=
  mhad (sel_alpha_s Li y mu) (loo_var_s Li).
Definition loo_c2_s {n} (Li : M n n) (y mu : M n 1) : M n 1 :=
  let alpha := sel_alpha_s Li y mu in let var := loo_var_s Li in
  mhad (mscal (1 # 2)%Q var) (madd (mconst 1%Q n 1) (mhad var (mhad alpha alpha))).

Definition loo_cov_grad_s {n} (Li : M n n) (y mu : M n 1) (dK : M n n) : M 1 1 :=
  let iK := inv_from_chol_s Li in
  let alpha := sel_alpha_s Li y mu in
  let Z := mmul iK dK in
  msum (msub (mhad (loo_c1_s Li y mu) (mmul Z alpha))
             (mhad (loo_c2_s Li y mu) (mdiagof (mmul Z iK)))).
Definition loo_cov_grad {n} (L : M n n) (y mu : M n 1) (dK : M n n) : M 1 1 :=
  loo_cov_grad_s (minv L) y mu dK.

Definition loo_mean_grad_s {n} (Li : M n n) (y mu dmu : M n 1) : M 1 1 :=
  msum (mhad (loo_c1_s Li y mu) (mmul (inv_from_chol_s Li) dmu)).
Definition loo_mean_grad {n} (L : M n n) (y mu dmu : M n 1) : M 1 1 :=
  loo_mean_grad_s (minv L) y mu dmu.

(* ---- the closed forms of the property statement ------------------------------------ *)
(* -1/2 (y - mu)^T A^-1 (y - mu) *)
Definition quad_closed_s {n} (Ai : M n n) (y mu : M n 1) : M 1 1 :=
  mscal (-1 # 2)%Q (mmul (mtr n 1 (msub y mu)) (mmul Ai (msub y mu))).
Definition quad_closed {n} (A : M n n) (y mu : M n 1) : M 1 1 := quad_closed_s (minv A) y mu.

(* 1/2 tr((alpha alpha^T - A^-1) dA), alpha = A^-1 (y - mu)   (R&W 5.9) *)
Definition ml_grad_trace_s {n} (Ai : M n n) (y mu : M n 1) (dK : M n n) : M 1 1 :=
  let alpha := mmul Ai (msub y mu) in
  mscal (1 # 2)%Q (mtrace (mmul (msub (mmul alpha (mtr n 1 alpha)) Ai) dK)).
Definition ml_grad_trace {n} (A : M n n) (y mu : M n 1) (dK : M n n) : M 1 1 :=
  ml_grad_trace_s (minv A) y mu dK.

(* alpha^T dmu *)
Definition ml_grad_mean_closed_s {n} (Ai : M n n) (y mu dmu : M n 1) : M 1 1 :=
  mmul (mtr n 1 (mmul Ai (msub y mu))) dmu.

End Selection.

Arguments ml_quad_s {O n}.
Arguments ml_quad {O n}.
Arguments ml_diag {O n}.
Arguments inv_from_chol_s {O n}.
Arguments sel_alpha_s {O n}.
Arguments mlg_quad_s {O n}.
Arguments mlg_quad {O n}.
Arguments mlg_mean_grad_s {O n}.
Arguments mlg_mean_grad {O n}.
Arguments mlg_Q_s {O n}.
Arguments mlg_cov_grad_s {O n}.
Arguments mlg_cov_grad {O n}.
Arguments loo_var_s {O n}.
Arguments loo_var {O n}.
Arguments loo_mu_s {O n}.
Arguments loo_mu {O n}.
Arguments loo_quad_s {O n}.
Arguments loo_quad {O n}.
Arguments loo_c1_s {O n}.
Arguments loo_c2_s {O n}.
Arguments loo_cov_grad_s {O n}.
Arguments loo_cov_grad {O n}.
Arguments loo_mean_grad_s {O n}.
Arguments loo_mean_grad {O n}.
Arguments quad_closed_s {O n}.
Arguments quad_closed {O n}.
Arguments ml_grad_trace_s {O n}.
Arguments ml_grad_trace {O n}.
Arguments ml_grad_mean_closed_s {O n}.

(* ---- multistart_bfgs: best of the optimiser's results ---------------------------------- *)
Section Multistart.
Variables (X T : Type).
Variable leb : T -> T -> bool.            (* cost_a <= cost_b *)

(* sorted(results, key=lambda x: x[1])[0]: the FIRST result of minimal cost (Python's
   sort is stable) *)
Fixpoint best_of (results : list (X * T)) : option (X * T) :=
  match results with
  | [] => None
  | r :: rest =>
      match best_of rest with
      | None => Some r
      | Some b => if leb (snd r) (snd b) then Some r else Some b
      end
  end.

(* launch : x0 |-> (x, cost) is fmin_l_bfgs_b on -model_selector; abstract *)
Definition multistart (launch : X -> X * T) (starts : list X) : option X :=
  match best_of (map launch starts) with Some r => Some (fst r) | None => None end.

End Multistart.

Arguments best_of {X T}.
Arguments multistart {X T}.

(* starting positions: lwr + (upr - lwr) * u for each row u of uniform draws, then
   the centre 0.5 * (lwr + upr), coordinate by coordinate *)
Section Starts.
Variable T : Type.
Variables (add sub mul : T -> T -> T) (half : T).

Fixpoint zip3 (f : T -> T -> T -> T) (a b c : list T) : list T :=
  match a, b, c with
  | x :: a', y :: b', z :: c' => f x y z :: zip3 f a' b' c'
  | _, _, _ => []
  end.

Definition ms_random_start (lwr upr u : list T) : list T :=
  zip3 (fun l h t => add l (mul (sub h l) t)) lwr upr u.
Definition ms_centre (lwr upr : list T) : list T :=
  zip3 (fun l h _ => mul half (add l h)) lwr upr lwr.
Definition ms_starts (lwr upr : list T) (us : list (list T)) : list (list T) :=
  map (ms_random_start lwr upr) us ++ [ms_centre lwr upr].

End Starts.

Arguments ms_random_start {T}.
Arguments ms_centre {T}.
Arguments ms_starts {T}.
