(* Matrix/BigOps.v -- a second EXECUTABLE instance of Matrix/MxOps.v: the same
   textbook list-of-rows operations as Matrix/ListOps.v, with the scalars held as
   Bignums' bigQ (machine-word arithmetic under vm_compute; sums of fractions
   with different denominators are normalised by BigQ's own gcd) instead of stdlib Q.

   Why: the model-selection gradients of property C11 (Matrix/Selection.v) sum
   products of entries of A^-1 whose reduced denominators all differ; with binary
   Q every such addition costs a gcd on 2000-3000-bit numbers (~1 s each under
   vm_compute), i.e. ~1 minute per n = 5 case.  Here the same case takes ~1 s.

   Trust: there are no theorems about this file either (DESIGN 2.3).  What limits
   the trust needed:
     * the inverse is NOT re-implemented: `binv` converts to Q, calls the verified
       ListOps.qinv (A * X = I checked exactly, [] on failure) and converts back;
     * BigQ's operations come with correctness proofs in the Bignums library
       (BigQ.spec_add_norm, spec_mul_norm, spec_inv_norm, ...: the result is ==
       to the Q operation on the values);
     * every check that runs on this instance is ALSO run on ListOps for the small
       cases of each run, and the two instances must agree EXACTLY on every model
       output (Matrix/SelectionCheck.v, obligation 9).
   An `exec` packages an instance with the conversions from / to `qmat`, so that
   a check is written once and run on either instance. *)
From Coq Require Import List QArith Qabs Bool Arith.
From Bignums Require Import BigQ.
From IT Require Import Matrix.MxOps Matrix.ListOps.
Import ListNotations.

Definition bvec := list bigQ.
Definition bmat := list (list bigQ).

Definition bzero : bigQ := BigQ.zero.
Definition bone : bigQ := BigQ.one.
(* conversions and scalar operations.  NOTHING is ever reduced: the harness writes each
   input matrix over one common power-of-two denominator and ListOps.qinv returns all
   entries over the determinant, so the entries of every intermediate matrix share one
   denominator and `badd1` adds numerators; when two denominators differ the sum is
   formed by cross-multiplication (BigQ.add), which again gives the entries of a matrix
   sum a common denominator.  The data flows of the GP models are a handful of
   operations deep, so the numbers stay at a few thousand bits; a gcd per operation
   (what ListOps.qplus' falls back to) is what made the binary-Q evaluation slow.
   Representations differ from ListOps, values do not: comparisons are by Qeq_bool /
   Qle_bool. *)
Definition b_of_Q (x : Q) : bigQ := BigQ.of_Q x.
Definition b_to_Q (x : bigQ) : Q := BigQ.to_Q x.

Definition of_qmat (A : qmat) : bmat := map (map b_of_Q) A.
Definition to_qmat (A : bmat) : qmat := map (map b_to_Q) A.
Definition to_qmat_raw (A : bmat) : qmat := map (map BigQ.to_Q) A.

Definition bz (x : bigQ) : bool :=
  match x with
  | BigQ.Qz z => BigZ.eqb z BigZ.zero
  | BigQ.Qq n _ => BigZ.eqb n BigZ.zero
  end.

(* x + y; same value as BigQ.add.  Zeros are skipped and equal denominators are kept
   (Qq n 0 denotes 0, so equal zero denominators are fine), exactly like ListOps.qplus' *)
Definition badd1 (x y : bigQ) : bigQ :=
  if bz x then y else if bz y then x else
  match x, y with
  | BigQ.Qq nx dx, BigQ.Qq ny dy =>
      if BigN.eqb dx dy then BigQ.Qq (BigZ.add nx ny) dx else BigQ.add x y
  | _, _ => BigQ.add x y
  end.
(* x * y, not reduced (like ListOps.qmult') *)
Definition bmul1 (x y : bigQ) : bigQ := if bz x || bz y then bzero else BigQ.mul x y.

Fixpoint bdot (u v : bvec) : bigQ :=
  match u, v with
  | x :: u', y :: v' => badd1 (bmul1 x y) (bdot u' v')
  | _, _ => bzero
  end.

Definition bcol (j : nat) (A : bmat) : bvec := map (fun r => nth j r bzero) A.
Definition btr (m n : nat) (A : bmat) : bmat := map (fun j => bcol j A) (seq 0 n).
Definition bncols (A : bmat) : nat := match A with [] => 0%nat | r :: _ => length r end.
Definition bmul (A B : bmat) : bmat :=
  let Bt := btr (length B) (bncols B) B in
  map (fun r => map (fun c => bdot r c) Bt) A.
Definition badd (A B : bmat) : bmat := map2 (map2 badd1) A B.
Definition bopp (A : bmat) : bmat := map (map BigQ.opp) A.
Definition bscal (c : Q) (A : bmat) : bmat := let c' := b_of_Q c in map (map (bmul1 c')) A.
Definition bhad (A B : bmat) : bmat := map2 (map2 bmul1) A B.
Definition brecip (A : bmat) : bmat := map (map BigQ.inv) A.
Definition babs1 (x : bigQ) : bigQ :=
  match BigQ.compare x bzero with Lt => BigQ.opp x | _ => x end.
Definition babs (A : bmat) : bmat := map (map babs1) A.
Definition bconst (c : Q) (m n : nat) : bmat := repeat (repeat (b_of_Q c) n) m.
Definition bid (n : nat) : bmat :=
  map (fun i => map (fun j => if Nat.eqb i j then bone else bzero) (seq 0 n)) (seq 0 n).
Definition bdiagv (v : bmat) : bmat :=
  let n := length v in
  map (fun ir => map (fun j => if Nat.eqb (fst ir) j then hd bzero (snd ir) else bzero) (seq 0 n))
      (combine (seq 0 n) v).
Definition bdiagof (A : bmat) : bmat :=
  map (fun ir => [nth (fst ir) (snd ir) bzero]) (combine (seq 0 (length A)) A).

(* the verified inverse of ListOps, transported *)
Definition binv (n : nat) (A : bmat) : bmat := of_qmat (qinv n (to_qmat_raw A)).

Definition BigOps : mxops :=
  {| mx      := fun _ _ => bmat;
     mmul    := fun _ _ _ => bmul;
     madd    := fun _ _ => badd;
     mopp    := fun _ _ => bopp;
     mtr     := btr;
     minv    := binv;
     mid     := bid;
     mconst  := bconst;
     mscal   := fun c _ _ => bscal c;
     mhad    := fun _ _ => bhad;
     mrecip  := fun _ _ => brecip;
     mabs    := fun _ _ => babs;
     mdiagv  := fun _ => bdiagv;
     mdiagof := fun _ => bdiagof |}.

(* ---- comparisons carried out in bigQ (converting a 30000-bit bigZ to binary Z is far
   more expensive than any arithmetic on it) --------------------------------------------- *)
Definition ble (x y : bigQ) : bool := match BigQ.compare x y with Gt => false | _ => true end.
(* |x - y| <= tol *)
Definition bclose2 (tol : Q) (x y : bigQ) : bool := ble (babs1 (BigQ.sub x y)) (b_of_Q tol).
Definition bclose (tol : Q) (x : bigQ) (q : Q) : bool := bclose2 tol x (b_of_Q q).
Fixpoint bclose_vec (tol : Q) (xs : bvec) (qs : qvec) : bool :=
  match xs, qs with
  | [], [] => true
  | x :: xs', q :: qs' => bclose tol x q && bclose_vec tol xs' qs'
  | _, _ => false
  end.
Fixpoint beq_vec (xs ys : bvec) : bool :=
  match xs, ys with
  | [], [] => true
  | x :: xs', y :: ys' => BigQ.eq_bool x y && beq_vec xs' ys'
  | _, _ => false
  end.
Definition bentry11 (A : bmat) : bigQ := hd bzero (hd [] A).
Definition bcol_to_vec (A : bmat) : bvec := map (fun r => hd bzero r) A.

(* an executable instance together with the conversions from lists of Q, to lists of Q
   (used only on small numbers: the inverse of the Cholesky factor) and to lists of bigQ
   (where every comparison with the observed outputs is made) *)
Record exec := Exec {
  eops :> mxops;
  einj : forall m n : nat, qmat -> mx eops m n;
  eprjQ : forall m n : nat, mx eops m n -> qmat;
  eprj : forall m n : nat, mx eops m n -> bmat
}.

Definition ListExec : exec :=
  {| eops := ListOps; einj := fun _ _ A => A; eprjQ := fun _ _ A => A; eprj := fun _ _ => of_qmat |}.
Definition BigExec : exec :=
  {| eops := BigOps; einj := fun _ _ => of_qmat; eprjQ := fun _ _ => to_qmat; eprj := fun _ _ A => A |}.

(* ---- self-test: both instances compute the same products, sums, entrywise
   operations and inverse on a matrix with unrelated denominators ------------------- *)
Example bigops_selftest :
  let A : qmat := [[0; 2; 1#3]; [1#2; -1; 4]; [3; 5#7; 1]] in
  let B : qmat := [[1#9; -2; 7]; [0; 1#11; 3#5]; [-4; 1; 1#2]] in
  let v : qmat := [[1#3]; [-5#7]; [2]] in
  let L := ListOps in let G := BigOps in
  (qmat_eqb (to_qmat (@mmul G 3 3 3 (of_qmat A) (of_qmat B))) (@mmul L 3 3 3 A B)
   && qmat_eqb (to_qmat (@minv G 3 (of_qmat A))) (@minv L 3 A)
   && qmat_eqb (to_qmat (@madd G 3 3 (of_qmat A) (@mopp G 3 3 (of_qmat B)))) (@madd L 3 3 A (@mopp L 3 3 B))
   && qmat_eqb (to_qmat (@mhad G 3 3 (of_qmat A) (@mtr G 3 3 (of_qmat B)))) (@mhad L 3 3 A (@mtr L 3 3 B))
   && qmat_eqb (to_qmat (@mrecip G 3 1 (@mabs G 3 1 (@mdiagof G 3 (of_qmat B)))))
               (@mrecip L 3 1 (@mabs L 3 1 (@mdiagof L 3 B)))
   && qmat_eqb (to_qmat (@mdiagv G 3 (of_qmat v))) (@mdiagv L 3 v)
   && qmat_eqb (to_qmat (@mscal G (-3#7) 3 3 (@madd G 3 3 (@mid G 3) (@mconst G (1#2) 3 3))))
               (@mscal L (-3#7) 3 3 (@madd L 3 3 (@mid L 3) (@mconst L (1#2) 3 3)))
   && qmat_eqb (to_qmat (@msum G 3 (of_qmat v))) (@msum L 3 v)
   && qmat_eqb (to_qmat (@mhadsum G 3 3 (of_qmat A) (of_qmat B))) (@mhadsum L 3 3 A B))%bool = true.
Proof. vm_compute. reflexivity. Qed.
