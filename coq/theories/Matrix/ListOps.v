(* Matrix/ListOps.v -- the executable instance of Matrix/MxOps.v:
   matrices are lists of rows of reduced rationals.

   Everything here is meant to be run by vm_compute on matrices of size <= 8
   (see notes/MATRIX_INFRA.md for measured costs).  There are NO theorems about
   this file; it is part of the trusted base of the correspondence (DESIGN 2.3).
   What limits the trust needed:
     * `qinv` (fraction-free Gauss-Jordan = Bareiss, first non-zero pivot, on the
       integer matrix N = D*A with D the common denominator) VERIFIES its result:
       it returns X = D*R/d only if  N * R = d * I  holds exactly over Z and
       A = N/D entry by entry (so A * X = I exactly) and X has the right shape;
       otherwise it returns the empty matrix [], which no shape-checking
       comparison accepts (`close_mx` below), and `qinv_ok` reports the failure
       so that a check can tell "model could not evaluate" from "model
       disagrees".  `qinv_gj` is the textbook Gauss-Jordan over Q with the
       same verification by multiplication; it is ~10x slower and is kept as a
       cross-check (Example at the end of the file).
     * every other operation is a two-line textbook definition.

   Cost model: Z and Q arithmetic under vm_compute is quadratic in the bit
   length and gcd is the most expensive step, so scalars are NOT reduced after
   every operation.  `qplus'` adds numerators when the denominators are equal or one divides the other
   (the harness writes each input matrix over one common power-of-two
   denominator, and `qinv` returns all entries over the determinant), skips
   zeros, and only otherwise falls back to Qred (x + y).  All of this changes
   representations only, never values.

   Dimensions are phantom, except for the three creating operations
   (identity, constant, transpose). *)
From Coq Require Import List QArith Qabs Bool Arith.
From Bignums Require Import BigZ.
From IT Require Import Matrix.MxOps.
Import ListNotations.
Open Scope Q_scope.

Definition qvec := list Q.
Definition qmat := list (list Q).

(* ---- scalars ----------------------------------------------------------- *)
Definition qz (x : Q) : bool := match Qnum x with Z0 => true | _ => false end.

(* x + y; same value as Qplus.  No gcd unless the denominators are unrelated:
   equal denominators -> add numerators; one denominator divides the other
   (always the case for dyadic inputs, and for  alpha alpha^T - J^-1  where the
   denominators are d^2 c and d) -> scale one numerator; otherwise Qred. *)
Definition qplus' (x y : Q) : Q :=
  if qz x then y else if qz y then x else
  let dx := Qden x in let dy := Qden y in
  if Pos.eqb dx dy then (Qnum x + Qnum y) # dx
  else if Pos.leb dx dy then
    let (q, r) := Z.div_eucl (Zpos dy) (Zpos dx) in
    if Z.eqb r 0 then (Qnum x * q + Qnum y) # dy else Qred (x + y)
  else
    let (q, r) := Z.div_eucl (Zpos dx) (Zpos dy) in
    if Z.eqb r 0 then (Qnum x + Qnum y * q) # dx else Qred (x + y).

(* x * y; same value as Qmult *)
Definition qmult' (x y : Q) : Q := if qz x || qz y then 0 else x * y.

Definition qopp' (x : Q) : Q := (- Qnum x) # (Qden x).
Definition qinv_sc (x : Q) : Q := Qred (/ x).

(* ---- vectors ----------------------------------------------------------- *)
Fixpoint qdot (u v : qvec) : Q :=
  match u, v with
  | x :: u', y :: v' => qplus' (qmult' x y) (qdot u' v')
  | _, _ => 0
  end.

Fixpoint map2 {A B C} (f : A -> B -> C) (u : list A) (v : list B) : list C :=
  match u, v with
  | x :: u', y :: v' => f x y :: map2 f u' v'
  | _, _ => []
  end.

(* ---- matrices ---------------------------------------------------------- *)
Definition qcol (j : nat) (A : qmat) : qvec := map (fun r => nth j r 0) A.

(* transpose of an m x n matrix; n is needed when m = 0 *)
Definition qtr (m n : nat) (A : qmat) : qmat := map (fun j => qcol j A) (seq 0 n).

Definition ncols (A : qmat) : nat := match A with [] => 0%nat | r :: _ => length r end.

Definition qmul (A B : qmat) : qmat :=
  let Bt := qtr (length B) (ncols B) B in
  map (fun r => map (fun c => qdot r c) Bt) A.

Definition qadd (A B : qmat) : qmat := map2 (map2 qplus') A B.
Definition qopp (A : qmat) : qmat := map (map qopp') A.
Definition qscal (c : Q) (A : qmat) : qmat := map (map (qmult' c)) A.
Definition qhad (A B : qmat) : qmat := map2 (map2 qmult') A B.
Definition qrecip (A : qmat) : qmat := map (map qinv_sc) A.
Definition qabs (A : qmat) : qmat := map (map Qabs) A.
Definition qreduce (A : qmat) : qmat := map (map Qred) A.

Definition qconst (c : Q) (m n : nat) : qmat := repeat (repeat c n) m.

Definition qid (n : nat) : qmat :=
  map (fun i => map (fun j => if Nat.eqb i j then 1 else 0) (seq 0 n)) (seq 0 n).

(* numpy.diag of a 1-D array given as a column *)
Definition qdiagv (v : qmat) : qmat :=
  let n := length v in
  map (fun ir => map (fun j => if Nat.eqb (fst ir) j then hd 0 (snd ir) else 0) (seq 0 n))
      (combine (seq 0 n) v).

(* numpy.diagonal of a square matrix, as a column *)
Definition qdiagof (A : qmat) : qmat :=
  map (fun ir => [nth (fst ir) (snd ir) 0]) (combine (seq 0 (length A)) A).

(* ---- shape and comparison ---------------------------------------------- *)
Definition shape_ok (m n : nat) (A : qmat) : bool :=
  Nat.eqb (length A) m && forallb (fun r => Nat.eqb (length r) n) A.

Definition qmat_eqb (A B : qmat) : bool :=
  Nat.eqb (length A) (length B) &&
  forallb (fun rs => Nat.eqb (length (fst rs)) (length (snd rs)) &&
                     forallb (fun xy => Qeq_bool (fst xy) (snd xy)) (combine (fst rs) (snd rs)))
          (combine A B).

(* ---- textbook Gauss-Jordan inverse over Q (cross-check only) ------------- *)
(* Rows of the augmented matrix [A | I] are processed column by column; the
   pivot column is dropped from every row once it has been eliminated, so the
   head of each row is always the current column and the rows of `done` end up
   holding exactly the rows of the inverse. *)

(* first row whose head is non-zero, and the others in their order *)
Fixpoint pick_pivot (rows : qmat) : option (qvec * qmat) :=
  match rows with
  | [] => None
  | r :: rest =>
      match r with
      | [] => None
      | x :: _ =>
          if Qeq_bool x 0 then
            match pick_pivot rest with
            | Some (p, others) => Some (p, r :: others)
            | None => None
            end
          else Some (r, rest)
      end
  end.

Definition elim_row (pn : qvec) (r : qvec) : qvec :=
  match r with
  | [] => []
  | f :: fs => if Qeq_bool f 0 then fs else map2 (fun a b => Qred (a - f * b)) fs pn
  end.

Fixpoint gj_loop (steps : nat) (done todo : qmat) : option qmat :=
  match steps with
  | O => match todo with [] => Some done | _ => None end
  | S s =>
      match pick_pivot todo with
      | None => None
      | Some (p, rest) =>
          match p with
          | [] => None
          | x :: xs =>
              let ix := qinv_sc x in
              let pn := map (fun a => Qred (a * ix)) xs in
              gj_loop s (map (elim_row pn) done ++ [pn]) (map (elim_row pn) rest)
          end
      end
  end.

Definition gauss_jordan (n : nat) (A : qmat) : option qmat :=
  gj_loop n [] (map2 (fun r e => r ++ e) A (qid n)).

(* The pivot row chosen at step k becomes row k of `done`; with row exchanges
   the rows of `done` are the rows of the inverse in the right order because
   row k of [A|I] reduced to e_k on the left IS row k of A^-1 on the right. *)

Definition qinv_gj_raw (n : nat) (A : qmat) : qmat :=
  match gauss_jordan n A with Some X => X | None => [] end.

Definition qinv_gj_ok (n : nat) (A : qmat) : bool :=
  shape_ok n n A &&
  let X := qinv_gj_raw n A in
  shape_ok n n X && qmat_eqb (qmul A X) (qid n) && negb (Nat.eqb n 0).

(* the verified inverse: [] unless A * X = I exactly *)
Definition qinv_gj (n : nat) (A : qmat) : qmat :=
  let X := qinv_gj_raw n A in
  if shape_ok n n A && shape_ok n n X && qmat_eqb (qmul A X) (qid n) then X else [].

(* ---- fraction-free (Bareiss) Gauss-Jordan inverse: the one `minv` uses ---- *)
Definition zmat := list (list Z).

Definition plcm (a b : positive) : positive :=
  if Pos.eqb a b then a else
  match Z.lcm (Zpos a) (Zpos b) with Zpos p => p | _ => 1%positive end.

Definition common_den (A : qmat) : positive :=
  fold_right (fun r acc => fold_right (fun x a => plcm (Qden x) a) acc r) 1%positive A.

(* N = D * A over Z;  exact when every denominator divides D *)
Definition to_zmat (D : positive) (A : qmat) : zmat :=
  map (map (fun x => (Qnum x * (Zpos D / Zpos (Qden x)))%Z)) A.

Definition zid (n : nat) : zmat :=
  map (fun i => map (fun j => if Nat.eqb i j then 1%Z else 0%Z) (seq 0 n)) (seq 0 n).

Fixpoint zpick (rows : zmat) : option (nat * list Z * zmat) :=
  match rows with
  | [] => None
  | r :: rest =>
      match r with
      | [] => None
      | x :: _ =>
          if Z.eqb x 0 then
            match zpick rest with
            | Some (k, p, others) => Some (S k, p, r :: others)
            | None => None
            end
          else Some (0%nat, r, rest)
      end
  end.

(* row := (p * row - f * pivot_row) / previous pivot, head column dropped *)
Definition zelim (p prev : Z) (pr : list Z) (r : list Z) : list Z :=
  match r with
  | [] => []
  | f :: fs =>
      if Z.eqb f 0 then map (fun a => (p * a / prev)%Z) fs
      else map2 (fun a b => ((p * a - f * b) / prev)%Z) fs pr
  end.

(* returns the rows R and the last pivot d (= +-det N): N^-1 = R / d.
   `sw` counts row exchanges (parity gives the sign of the determinant). *)
Fixpoint bareiss_loop (steps : nat) (prev : Z) (sw : nat) (done todo : zmat)
  : option (zmat * Z * nat) :=
  match steps with
  | O => match todo with [] => Some (done, prev, sw) | _ => None end
  | S s =>
      match zpick todo with
      | None => None
      | Some (k, prow, rest) =>
          match prow with
          | [] => None
          | p :: pr =>
              bareiss_loop s p (k + sw)
                           (map (zelim p prev pr) done ++ [pr]) (map (zelim p prev pr) rest)
          end
      end
  end.

Definition zdot (u v : list Z) : Z := fold_right Z.add 0%Z (map2 Z.mul u v).
Definition zcol (j : nat) (A : zmat) : list Z := map (fun r => nth j r 0%Z) A.
Definition zmul (n : nat) (A B : zmat) : zmat :=
  let Bt := map (fun j => zcol j B) (seq 0 n) in
  map (fun r => map (fun c => zdot r c) Bt) A.
Definition zmat_eqb (A B : zmat) : bool :=
  Nat.eqb (length A) (length B) &&
  forallb (fun rs => Nat.eqb (length (fst rs)) (length (snd rs)) &&
                     forallb (fun xy => Z.eqb (fst xy) (snd xy)) (combine (fst rs) (snd rs)))
          (combine A B).
Definition zshape_ok (m n : nat) (A : zmat) : bool :=
  Nat.eqb (length A) m && forallb (fun r => Nat.eqb (length r) n) A.

(* The same elimination on Bignums' BigZ (machine-word arithmetic under
   vm_compute, ~50x faster than binary Z).  It is used only to FIND R and d;
   they are converted back to Z and verified there with plain Z arithmetic, so
   nothing about Bignums / Uint63 is trusted. *)
Definition bz := BigZ.t_.
Definition bmat := list (list bz).

Fixpoint bpick (rows : bmat) : option (list bz * bmat) :=
  match rows with
  | [] => None
  | r :: rest =>
      match r with
      | [] => None
      | x :: _ =>
          if BigZ.eqb x BigZ.zero then
            match bpick rest with
            | Some (p, others) => Some (p, r :: others)
            | None => None
            end
          else Some (r, rest)
      end
  end.

Definition belim (p prev : bz) (pr : list bz) (r : list bz) : list bz :=
  match r with
  | [] => []
  | f :: fs =>
      if BigZ.eqb f BigZ.zero then map (fun a => BigZ.div (BigZ.mul p a) prev) fs
      else map2 (fun a b => BigZ.div (BigZ.sub (BigZ.mul p a) (BigZ.mul f b)) prev) fs pr
  end.

Fixpoint bareiss_big_loop (steps : nat) (prev : bz) (done todo : bmat) : option (bmat * bz) :=
  match steps with
  | O => match todo with [] => Some (done, prev) | _ => None end
  | S s =>
      match bpick todo with
      | None => None
      | Some (prow, rest) =>
          match prow with
          | [] => None
          | p :: pr =>
              bareiss_big_loop s p (map (belim p prev pr) done ++ [pr]) (map (belim p prev pr) rest)
          end
      end
  end.

Definition bareiss_big (n : nat) (N : zmat) : option (zmat * Z) :=
  let aug := map2 (fun r e => r ++ e) N (zid n) in
  match bareiss_big_loop n BigZ.one [] (map (map BigZ.of_Z) aug) with
  | None => None
  | Some (R, d) => Some (map (map BigZ.to_Z) R, BigZ.to_Z d)
  end.

(* (X, verified?) *)
Definition qinv_with_flag (n : nat) (A : qmat) : qmat * bool :=
  let D := common_den A in
  let N := to_zmat D A in
  match bareiss_big n N with
  | None => ([], false)
  | Some (R, d) =>
      let ok :=
        negb (Nat.eqb n 0) && negb (Z.eqb d 0) &&
        shape_ok n n A && zshape_ok n n R &&
        (* A = N / D exactly *)
        qmat_eqb A (map (map (fun z => z # D)) N) &&
        (* N * R = d * I exactly *)
        zmat_eqb (zmul n N R) (map (map (fun z => (d * z)%Z)) (zid n)) in
      let sd := Z.sgn d in
      let ad := match Z.abs d with Zpos p => p | _ => 1%positive end in
      (map (map (fun z => (sd * Zpos D * z)%Z # ad)) R, ok)
  end.

Definition qinv_ok (n : nat) (A : qmat) : bool := snd (qinv_with_flag n A).

(* the verified inverse: [] unless A * X = I exactly *)
Definition qinv (n : nat) (A : qmat) : qmat :=
  let r := qinv_with_flag n A in if snd r then fst r else [].

(* X if B * X = I exactly (and shapes fit), else [] -- for inverses obtained some
   other way, e.g. (A^T)^-1 as the transpose of a verified A^-1 *)
Definition qinv_checked (n : nat) (B X : qmat) : qmat :=
  if shape_ok n n B && shape_ok n n X && qmat_eqb (qmul B X) (qid n) && negb (Nat.eqb n 0)
  then X else [].

(* the Z-only elimination, kept as a cross-check of the BigZ one *)
Definition qinv_z (n : nat) (A : qmat) : qmat :=
  let D := common_den A in
  let N := to_zmat D A in
  match bareiss_loop n 1%Z 0%nat [] (map2 (fun r e => r ++ e) N (zid n)) with
  | None => []
  | Some (R, d, _) =>
      let sd := Z.sgn d in
      let ad := match Z.abs d with Zpos p => p | _ => 1%positive end in
      map (map (fun z => (sd * Zpos D * z)%Z # ad)) R
  end.

(* determinant of A (exact): d * (-1)^exchanges / D^n *)
Definition qdet (n : nat) (A : qmat) : Q :=
  let D := common_den A in
  let N := to_zmat D A in
  match bareiss_loop n 1%Z 0%nat [] N with
  | None => 0
  | Some (_, d, sw) =>
      Qred (((if Nat.even sw then d else (- d)%Z) # 1) / ((Zpos D # 1) ^ (Z.of_nat n)))
  end.

(* ---- the instance ------------------------------------------------------ *)
Definition ListOps : mxops :=
  {| mx      := fun _ _ => qmat;
     mmul    := fun _ _ _ => qmul;
     madd    := fun _ _ => qadd;
     mopp    := fun _ _ => qopp;
     mtr     := qtr;
     minv    := qinv;
     mid     := qid;
     mconst  := qconst;
     mscal   := fun c _ _ => qscal c;
     mhad    := fun _ _ => qhad;
     mrecip  := fun _ _ => qrecip;
     mabs    := fun _ _ => qabs;
     mdiagv  := fun _ => qdiagv;
     mdiagof := fun _ => qdiagof |}.

(* ---- comparison with observed outputs (used by the generated case files) -- *)
(* every entry within tol, AND identical shapes: [] never passes for m,n > 0 *)
Definition close_mx (m n : nat) (tol : Q) (A B : qmat) : bool :=
  shape_ok m n A && shape_ok m n B &&
  forallb (fun rs => forallb (fun xy => Qle_bool (Qabs (fst xy - snd xy)) tol)
                             (combine (fst rs) (snd rs)))
          (combine A B).

(* largest absolute entry (for relative tolerances computed inside Coq) *)
Definition qmax (a b : Q) : Q := if Qle_bool a b then b else a.
Definition max_abs (A : qmat) : Q :=
  fold_right (fun r acc => fold_right (fun x a => qmax (Qabs x) a) acc r) 0 A.

(* lower-triangular test *)
Definition is_lower (A : qmat) : bool :=
  forallb (fun ir => forallb (fun jx => Nat.leb (fst jx) (fst ir) || Qeq_bool (snd jx) 0)
                             (combine (seq 0 (length (snd ir))) (snd ir)))
          (combine (seq 0 (length A)) A).

(* symmetric test (exact) *)
Definition is_sym (n : nat) (A : qmat) : bool := qmat_eqb A (qtr n n A).

(* column vector <-> list *)
Definition col_of (v : qvec) : qmat := map (fun x => [x]) v.
Definition row_of (v : qvec) : qmat := [v].
Definition scalar_of (x : Q) : qmat := [[x]].

(* names of the failing obligations of one case: a case check returns the list
   of the (1-based) obligations that failed; 0 means "the model could not be
   evaluated" (an inverse failed its run-time verification) *)
Fixpoint failing_obligations (k : nat) (obs : list bool) : list nat :=
  match obs with
  | [] => []
  | b :: rest => if b then failing_obligations (S k) rest else k :: failing_obligations (S k) rest
  end.

(* ---- self-test of the three inverses (BigZ Bareiss, Z Bareiss, Gauss-Jordan
   over Q) and of the determinant on a matrix that needs a row exchange ------- *)
Example listops_selftest :
  let A : qmat := [[0; 2; 1#3]; [1#2; -1; 4]; [3; 5#7; 1]] in
  (qinv_ok 3 A && qmat_eqb (qinv 3 A) (qinv_z 3 A) && qmat_eqb (qinv 3 A) (qinv_gj 3 A)
   && qmat_eqb (qmul (qinv 3 A) A) (qid 3)
   && Qeq_bool (qdet 3 A * qdet 3 (qinv 3 A)) 1
   && Qeq_bool (qdet 3 A) (1013 # 42)
   && qmat_eqb (qinv 3 [[1; 2; 3]; [2; 4; 6]; [0; 1; 1]]) []
   && qmat_eqb (qinv_checked 3 (qtr 3 3 A) (qtr 3 3 (qinv 3 A))) (qinv 3 (qtr 3 3 A)))%bool = true.
Proof. vm_compute. reflexivity. Qed.
