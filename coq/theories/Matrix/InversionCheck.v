(* Matrix/InversionCheck.v -- the correspondence check of property C17, evaluated
   by vm_compute inside the generated files coq/gen/C17/*.v.

   A `lin_case` holds what the harness read from ONE GpLinearInverter and one
   hyper-parameter vector theta: the caller's A, y, y_err, the matrices the
   implementation's kernel / mean objects build (K, prior mean, the gradient
   matrices dK_i and vectors dmu_i), and the outputs of calculate_posterior,
   calculate_posterior_mean, marginal_likelihood and
   marginal_likelihood_gradient.  `check_lin` instantiates Matrix/Inversion.v at
   ListOps and returns the failing obligations:

     0  an inverse failed its run-time verification ("model could not evaluate")
     1  calculate_posterior covariance = lin_post_cov           (tol t_c)
     2  calculate_posterior mean       = lin_post_mean          (tol t_m)
     3  calculate_posterior_mean       = lin_post_mean_only     (tol t_m)
     4  both covariance and both means = the closed forms
        K - K A^T (A K A^T + S)^-1 A K,  pm + K A^T (A K A^T + S)^-1 (y - A pm)
     5  the returned covariance is symmetric (2 t_c) and 0 <= diag <= diag K + t_c
     6  every entry of the reported gradient = lin_grad_mean / lin_grad_cov with
        alpha = J^-1 (y - A pm)        (tol t_gm for the mean-function part, t_g for the
        kernel part: with data in small units the former is of order 1/unit, the latter O(1))
     7  the value returned next to the gradient = marginal_likelihood(theta) (t_l)

   The evidence VALUE needs a logarithm and is checked by a coq-interval goal
   (Matrix/InversionEvidence.v) on the exact rationals `lin_quad c`, `lin_det c`. *)
From Coq Require Import List QArith Qabs Bool Arith.
From IT Require Import Matrix.MxOps Matrix.ListOps Matrix.Inversion.
Import ListNotations.
Open Scope Q_scope.

Record lin_case := LinCase {
  l_m : nat; l_n : nat;
  l_A : qmat; l_y : qvec; l_err : qvec;
  l_K : qmat; l_pm : qvec;
  l_dK : list qmat; l_dmu : list qvec;      (* gradient inputs, in hyper-parameter order *)
  o_pmean : qvec; o_pcov : qmat; o_mean_only : qvec;
  o_lml : Q; o_lml_g : Q; o_grad_mean : qvec; o_grad_cov : qvec;
  t_c : Q; t_m : Q; t_g : Q; t_gm : Q; t_l : Q
}.

Definition lin_resid (c : lin_case) : qmat :=
  @msub ListOps (l_m c) 1 (col_of (l_y c)) (@lin_f ListOps (l_m c) (l_n c) (l_A c) (col_of (l_pm c))).

Definition lin_Jmat (c : lin_case) : qmat :=
  @lin_J ListOps (l_m c) (l_n c) (l_A c) (l_K c) (@lin_sigma ListOps (l_m c) (col_of (l_err c))).

Definition entry11 (M : qmat) : Q := hd 0 (hd [] M).

(* -0.5 r^T J^-1 r  and  det J, exact and reduced (for the evidence goal) *)
Definition lin_quad (c : lin_case) : Q :=
  Qred (entry11 (@lin_closed_quad_s ListOps (l_m c) (qinv (l_m c) (lin_Jmat c)) (lin_resid c))).
Definition lin_det (c : lin_case) : Q := qdet (l_m c) (lin_Jmat c).

Definition check_lin_obligations (c : lin_case) : list bool :=
  let m := l_m c in let n := l_n c in
  let A := l_A c in let K := l_K c in
  let e := col_of (l_err c) in let y := col_of (l_y c) in let pm := col_of (l_pm c) in
  let iS := @lin_inv_sigma ListOps m e in
  let Sg := @lin_sigma ListOps m e in
  let W := @lin_W ListOps m n A iS in
  let u := @lin_u ListOps m n A iS y pm in
  let Bi := qinv n (@lin_system ListOps n K W) in
  let J := @lin_J ListOps m n A K Sg in
  let Ji := qinv m J in
  let pc := @lin_post_cov_s ListOps n Bi K in
  let pmn := @lin_post_mean ListOps n pc u pm in
  let mo := @lin_post_mean_only_s ListOps n Bi K u pm in
  let cc := @lin_closed_cov_s ListOps m n Ji A K in
  let cm := @lin_closed_mean_s ListOps m n Ji A K y pm in
  let r := lin_resid c in
  let alpha := @lin_alpha ListOps m Ji r in
  let gm := map (fun dmu => entry11 (@lin_grad_mean ListOps m alpha
                                       (@lin_f ListOps m n A (col_of dmu)))) (l_dmu c) in
  let Qm := @lin_grad_Q ListOps m alpha Ji in      (* shared by all hyper-parameters *)
  let gc := map (fun dK => entry11 (@lin_grad_cov_of ListOps m Qm
                                      (@lin_dJ ListOps m n A dK))) (l_dK c) in
  let obs_c := o_pcov c in
  [ (* 0 *) shape_ok n n Bi && shape_ok m m Ji && negb (Nat.eqb n 0) && negb (Nat.eqb m 0);
    (* 1 *) close_mx n n (t_c c) pc obs_c;
    (* 2 *) close_mx n 1 (t_m c) pmn (col_of (o_pmean c));
    (* 3 *) close_mx n 1 (t_m c) mo (col_of (o_mean_only c));
    (* 4 *) close_mx n n (t_c c) cc obs_c && close_mx n 1 (t_m c) cm (col_of (o_pmean c))
          && close_mx n 1 (t_m c) cm (col_of (o_mean_only c));
    (* 5 *) close_mx n n (2 * t_c c) obs_c (qtr n n obs_c)
          && forallb (fun dk => Qle_bool (- t_c c) (fst dk) && Qle_bool (fst dk) (snd dk + t_c c))
                     (combine (map (hd 0) (qdiagof obs_c)) (map (hd 0) (qdiagof K)));
    (* 6 *) close_mx (length (l_dmu c)) 1 (t_gm c) (col_of gm) (col_of (o_grad_mean c))
          && close_mx (length (l_dK c)) 1 (t_g c) (col_of gc) (col_of (o_grad_cov c));
    (* 7 *) Qle_bool (Qabs (o_lml c - o_lml_g c)) (t_l c) ].

Definition check_lin (c : lin_case) : list nat := failing_obligations 0 (check_lin_obligations c).

Fixpoint flatten_failures (k : nat) (rs : list (list nat)) : list nat :=
  match rs with
  | [] => []
  | r :: rest => map (fun o => (k * 100 + o)%nat) r ++ flatten_failures (S k) rest
  end.

Definition failing_lin (cs : list lin_case) : list nat := flatten_failures 0 (map check_lin cs).
