(* Matrix/Refinement2.v -- ListOps refines McOps rat, part 2: the inverse, and
   the composition of the per-operation lemmas for whole model terms.

   What ListOps.qinv does (Matrix/ListOps.v): with D the common denominator of
   A and N = D*A over Z it lets a fraction-free Gauss-Jordan elimination on
   Bignums' BigZ PROPOSE integer rows R and a pivot d, and returns
        X = (sgn d * D * R) / |d|
   only if all of the following hold (`qinv_ok n A`, computed with plain Z / Q
   arithmetic):
        n <> 0,  d <> 0,  A is n x n,  R is n x n,
        A = N / D entry by entry (Qeq),   N * R = d * I exactly over Z;
   otherwise it returns the empty matrix [] (lemma qinv_fail), which is not
   well shaped for n > 0 (lemma nil_not_wf), so that failure is visible to
   every shape-checking comparison.  The elimination itself is NOT reasoned
   about: it is an untrusted oracle, and the theorem below uses only the check.

     repr_minv : qinv_ok_of propose n A = true -> repr A M ->
                 M \in unitmx /\ repr (minv at ListOpsOf propose) (invmx M)

   for EVERY proposing function `propose` (Refinement.v, section E: ListOps is
   `ListOpsOf bareiss_big` by definition; section F below instantiates)

   by uniqueness of the inverse (A X = 1 in 'M[rat]_n, so X = invmx A).  The
   same for `qinv_checked` (an inverse obtained some other way and verified by
   one multiplication), which the case files use for (L^T)^-1. *)
From Coq Require Import List QArith Qabs Bool Arith ZArith Lia.
From mathcomp Require Import all_ssreflect all_algebra.
From mathcomp Require Import zify ssrZ.
From IT Require Import Matrix.MxOps Matrix.ListOps Matrix.McOps Matrix.Refinement.
From IT Require Import Matrix.GpModel Matrix.Inversion.

Set Implicit Arguments.
Unset Strict Implicit.
Unset Printing Implicit Defensive.

Import Order.TTheory GRing.Theory Num.Theory.

Local Delimit Scope Z_scope with Z.
Local Delimit Scope Q_scope with Q.
Local Close Scope Q_scope.
Local Open Scope ring_scope.

(* ======================================================================== *)
(* A. integer matrices                                                       *)
(* ======================================================================== *)
Definition zget (R : zmat) (i j : nat) : Z := List.nth j (List.nth i R nil) 0%Z.

Lemma zshape_iff m n (R : zmat) :
  zshape_ok m n R = true <->
  length R = m /\ (forall i, (i < m)%coq_nat -> length (List.nth i R nil) = n).
Proof.
rewrite /zshape_ok; split.
  move/andb_prop => [/Nat.eqb_spec hl /List.forallb_forall hr]; split=> // i hi.
  by apply/Nat.eqb_spec/hr/List.nth_In; rewrite hl.
move=> [hl hr]; apply/andb_true_intro; split; first exact/Nat.eqb_spec.
apply/List.forallb_forall => r /(@List.In_nth _ _ _ nil) [i [hi <-]].
by apply/Nat.eqb_spec/hr; rewrite -hl.
Qed.

Lemma zmat_eqb_get (A B : zmat) i j :
  zmat_eqb A B = true -> (i < length A)%coq_nat ->
  (j < length (List.nth i A nil))%coq_nat -> zget A i j = zget B i j.
Proof.
rewrite /zmat_eqb => /andb_prop [/Nat.eqb_spec hl hall] hi hj.
have /andb_prop [/Nat.eqb_spec hr hrow] := @forallb_combine_nth _ _ _ _ _ nil hall hl hi.
by have /Z.eqb_spec := @forallb_combine_nth _ _ _ _ _ 0%Z hrow hr hj.
Qed.

Lemma zr_zdot n (u v : list Z) :
  length u = n -> length v = n ->
  zr (zdot u v) = \sum_(k < n) zr (List.nth k u 0%Z) * zr (List.nth k v 0%Z).
Proof.
rewrite /zdot; elim: u v n => [|x u IH] [|y v] [|n] //=; first by rewrite big_ord0.
by move=> [hu] [hv]; rewrite zrD zrM big_ord_recl /=; congr (_ + _); apply: IH.
Qed.

Lemma zget_zmul n (N R : zmat) i j :
  (i < length N)%coq_nat -> (j < n)%coq_nat ->
  zget (zmul n N R) i j = zdot (List.nth i N nil) (zcol j R).
Proof.
move=> hi hj; rewrite /zget /zmul (@nth_map_in _ _ _ _ _ nil) //.
rewrite (@nth_map_in _ _ _ _ _ nil) ?List.map_length ?List.seq_length //.
by rewrite nth_map_seq.
Qed.

Lemma zmul_shape n (N R : zmat) :
  length (zmul n N R) = length N /\
  forall i, (i < length N)%coq_nat -> length (List.nth i (zmul n N R) nil) = n.
Proof.
split; first by rewrite /zmul List.map_length.
move=> i hi; rewrite /zmul (@nth_map_in _ _ _ _ _ nil) //.
by rewrite !List.map_length List.seq_length.
Qed.

Lemma nth_zcol (R : zmat) j k :
  (k < length R)%coq_nat -> List.nth k (zcol j R) 0%Z = zget R k j.
Proof. by move=> hk; rewrite /zcol (@nth_map_in _ _ _ _ _ nil). Qed.

Lemma zget_scaled_zid n d i j :
  (i < n)%coq_nat -> (j < n)%coq_nat ->
  zget (List.map (List.map (fun z => (d * z)%Z)) (zid n)) i j
  = (d * (if Nat.eqb i j then 1 else 0))%Z.
Proof.
move=> hi hj; rewrite /zget /zid.
rewrite (@nth_map_in _ _ _ _ _ nil) ?List.map_length ?List.seq_length //.
rewrite nth_map_seq // (@nth_map_in _ _ _ _ _ 0%Z) ?List.map_length ?List.seq_length //.
by rewrite nth_map_seq.
Qed.

(* ======================================================================== *)
(* B. a right inverse over rat is THE inverse                                *)
(* ======================================================================== *)
Lemma right_inv_invmx n (M X : 'M[rat]_n) :
  M *m X = 1%:M -> M \in unitmx /\ invmx M = X.
Proof.
move=> MX; have uM : M \in unitmx := unitmx_of_right_inv MX.
by split=> //; rewrite -[RHS](mulKmx uM) MX mulmx1.
Qed.

Lemma repr_right_inv n A X (M MX : 'M[rat]_n) :
  repr A M -> repr X MX -> M *m MX = 1%:M ->
  M \in unitmx /\ repr X (invmx M).
Proof. by move=> hA hX /right_inv_invmx [uM ->]. Qed.

(* the empty matrix (what a failed verification returns) is ill shaped unless
   n = 0 ... *)
Lemma nil_not_wf n p : n != 0%N -> wf_mx n p nil = false.
Proof. by case: n. Qed.

(* ... and the empty matrix is the 0 x 0 matrix, so for n = 0 the (failing)
   result happens to be right *)
Lemma repr_nil n (M : 'M[rat]_n) : n = 0%N -> repr nil M.
Proof.
move=> n0; split; first by rewrite n0.
by move=> i; have := ltn_ord i; rewrite {2}n0 ltn0.
Qed.

Section Checked.
Variable n : nat.

(* an inverse obtained some other way and verified by one multiplication *)
Lemma qinv_checked_fail B X :
  (shape_ok n n B && shape_ok n n X && qmat_eqb (qmul B X) (qid n) && negb (Nat.eqb n 0)) = false ->
  qinv_checked n B X = nil.
Proof. by rewrite /qinv_checked => ->. Qed.

Theorem repr_qinv_checked B X (M : 'M[rat]_n) :
  (shape_ok n n B && shape_ok n n X && qmat_eqb (qmul B X) (qid n) && negb (Nat.eqb n 0)) = true ->
  repr B M ->
  M \in unitmx /\ repr (qinv_checked n B X) (invmx M).
Proof.
move=> chk hB; rewrite /qinv_checked chk.
move: chk => /andb_prop [/andb_prop [/andb_prop [_ wfX] e] n0].
have hX := repr_self wfX.
have n0' : n != 0%N by move: n0; case: (n).
have hBX : repr (qmul B X) (M *m mx_of n n X).
  by apply: (@repr_mmul (fun _ _ => None) n n n) => //; rewrite n0'.
have prod := qmat_eqb_repr e hBX (repr_mid (fun _ _ => None) n).
exact: (repr_right_inv hB hX prod).
Qed.

Corollary repr_qinv_checked_wf B X (M : 'M[rat]_n) :
  n != 0%N -> wf_mx n n (qinv_checked n B X) = true -> repr B M ->
  repr (qinv_checked n B X) (invmx M).
Proof.
move=> n0 wf hB.
case chk: (shape_ok n n B && shape_ok n n X && qmat_eqb (qmul B X) (qid n) && negb (Nat.eqb n 0)).
  by have [] := repr_qinv_checked chk hB.
by rewrite (qinv_checked_fail chk) nil_not_wf in wf.
Qed.

End Checked.

(* ======================================================================== *)
(* C. minv                                                                   *)
(* ======================================================================== *)
Section WithOracle.
Variable propose : nat -> zmat -> option (zmat * Z).
Notation LO := (ListOpsOf propose).

(* what ListOps returns when the verification fails: the empty matrix *)
Lemma qinv_fail n A : qinv_ok_of propose n A = false -> qinv_of propose n A = nil.
Proof. by rewrite /qinv_ok_of /qinv_of => ->. Qed.

Lemma qinv_ok_nonzero n A : qinv_ok_of propose n A = true -> n != 0%N.
Proof.
rewrite /qinv_ok_of /qinv_with_flag_of; case: (propose _ _) => [[R d]|] //=.
by case: n => [|n].
Qed.



(* a well-shaped result IS a verified result (for n > 0): the test the
   generated case files make on every inverse (obligation 0) *)
Lemma qinv_wf_ok n A : n != 0%N -> wf_mx n n (qinv_of propose n A) = true -> qinv_ok_of propose n A = true.
Proof.
move=> n0; case e: (qinv_ok_of propose n A) => // wf.
by rewrite (qinv_fail e) nil_not_wf in wf.
Qed.

(* failure is visible: the result is [] and no shape test with n > 0 accepts it *)
Lemma qinv_fail_visible n A :
  qinv_ok_of propose n A = false ->
  qinv_of propose n A = nil /\
  (n != 0%N -> forall p, wf_mx n p (qinv_of propose n A) = false).
Proof.
move=> e; rewrite (qinv_fail e); split=> // n0 p; exact: nil_not_wf.
Qed.

(* the components of a successful run *)
Lemma qinv_ok_spec n A :
  qinv_ok_of propose n A = true ->
  let D := common_den A in
  let N := to_zmat D A in
  exists (R : zmat) (d : Z),
    [/\ d <> 0%Z, wf_mx n n A = true, zshape_ok n n R = true,
        qmat_eqb A (List.map (List.map (fun z => (z # D)%Q)) N) = true
      & zmat_eqb (zmul n N R) (List.map (List.map (fun z => (d * z)%Z)) (zid n)) = true]
    /\ qinv_of propose n A = List.map (List.map (fun z =>
          ((Z.sgn d * Zpos D * z)%Z # (match Z.abs d with Zpos p => p | _ => 1%positive end))%Q)) R.
Proof.
rewrite /qinv_ok_of /qinv_of /qinv_with_flag_of /=.
case: (propose _ _) => [[R d]|] //=.
case hok: (_ && _) => // _; exists R, d.
move: hok => /andb_prop [/andb_prop [/andb_prop [/andb_prop [/andb_prop [_ hd] hA] hR] hN] hM].
split=> //; split=> //.
by move: hd; case: (Z.eqb_spec d 0).
Qed.

Section Minv.
Variable n : nat.

Theorem repr_minv A (M : 'M[rat]_n) :
  qinv_ok_of propose n A = true -> repr A M ->
  M \in unitmx /\ repr (@minv LO n A) (@minv MO n M).
Proof.
move=> ok hA; have [R [d [[d0 wfA shR eA eM] eX]]] := qinv_ok_spec ok.
set D := common_den A in eA eM eX; set N := to_zmat D A in eA eM.
have [hlA hrA] := (iffLR (wf_mx_iff _ _ _)) wfA.
have [hlR hrR] := (iffLR (zshape_iff _ _ _)) shR.
have hlN : length N = n by rewrite /N /to_zmat List.map_length.
have hrN i : (i < n)%coq_nat -> length (List.nth i N nil) = n.
  move=> hi; rewrite /N /to_zmat (@nth_map_in _ _ _ _ _ nil) ?hlA //.
  by rewrite List.map_length hrA.
(* A = N / D *)
have entA (i j : 'I_n) : M i j = zr (zget N i j) / zr (Zpos D).
  have [_ <-] := hA.
  have hi := ordP i; have hj := ordP j.
  rewrite (q2r_eq (@qmat_eqb_get _ _ i j eA _ _)) ?hlA ?hrA //.
  rewrite /qget (@nth_map_in _ _ _ _ _ nil) ?hlN //.
  by rewrite (@nth_map_in _ _ _ _ _ 0%Z) ?hrN // q2r_make.
(* the returned X = D R / d *)
pose MX : 'M[rat]_n := \matrix_(i, j) (zr (Zpos D) * zr (zget R i j) / zr d).
have zd0 : zr d != 0 by rewrite zr_eq0; apply/Z.eqb_spec.
have hX : repr (qinv_of propose n A) MX.
  rewrite eX; apply: repr_intro.
  - by rewrite List.map_length.
  - move=> i hi; rewrite (@nth_map_in _ _ _ _ _ nil) ?hlR //.
    by rewrite List.map_length hrR.
  - move=> i j; have hi := ordP i; have hj := ordP j.
    rewrite /qget (@nth_map_in _ _ _ _ _ nil) ?hlR //.
    rewrite (@nth_map_in _ _ _ _ _ 0%Z) ?hrR // q2r_make mxE -/(zget R i j).
    have -> : Zpos (match Z.abs d with Zpos p => p | _ => 1%positive end) = (Z.sgn d * d)%Z.
      by case: d d0 {zd0 eM eX MX} => [|p|p].
    have s0 : zr (Z.sgn d) != 0.
      by rewrite zr_eq0; apply/Z.eqb_spec; case: d d0 {zd0 eM eX MX}.
    by rewrite !zrM invfM -[_ * _ * zr (zget R i j)]mulrA mulrACA divff // mul1r.
(* N R = d I, hence A X = I *)
have prod : M *m MX = 1%:M.
  apply/matrixP => i j; have hi := ordP i; have hj := ordP j.
  have [hlZ hrZ] := zmul_shape n N R.
  have := @zmat_eqb_get _ _ i j eM.
  rewrite hlZ hrZ ?hlN // => /(_ hi hj).
  rewrite zget_zmul ?hlN // zget_scaled_zid // => /(congr1 zr).
  rewrite (@zr_zdot n) ?hrN //; last by rewrite /zcol List.map_length.
  rewrite !mxE => hs.
  have -> : \sum_k M i k * MX k j
            = (\sum_(k < n) zr (List.nth k (List.nth i N nil) 0%Z)
                              * zr (List.nth k (zcol j R) 0%Z)) / zr d.
    rewrite mulr_suml; apply: eq_bigr => k _.
    rewrite entA mxE nth_zcol ?hlR; last exact: ordP.
    rewrite /zget mulrA; congr (_ / _).
    by rewrite mulrA mulfVK // zr_pos_neq0.
  rewrite hs zrM mulrAC divff // mul1r -val_eqE /=.
  by case: (Nat.eqb_spec i j) => [->|ne]; [rewrite eqxx zr1 | case: eqP].
exact: (repr_right_inv hA hX prod).
Qed.

(* the same with the test the case files actually make: the result is well
   shaped.  For n = 0 both sides are the empty matrix. *)
Corollary repr_minv_wf A (M : 'M[rat]_n) :
  wf_mx n n (@minv LO n A) = true -> repr A M -> repr (@minv LO n A) (@minv MO n M).
Proof.
move=> wf hA; case: (eqVneq n 0%N) => [n0|n0]; last first.
  by have [] := repr_minv (qinv_wf_ok n0 wf) hA.
have e : qinv_ok_of propose n A = false.
  by case e: (qinv_ok_of propose n A) => //; move/qinv_ok_nonzero: e; rewrite n0.
by rewrite /= (qinv_fail e); apply: repr_nil.
Qed.

End Minv.

(* ======================================================================== *)
(* D. composition: the GP posterior of Matrix/GpModel.v (property C02)       *)
(* ======================================================================== *)
(* The per-operation lemmas compose along the syntax of a model term: `repr_mx`
   (Matrix/Refinement.v) applies the matching lemma at every node.  The leaves
   are the inputs, the inverses (hypotheses: their verification succeeded) and
   the side condition n != 0 of the products, which follows from a successful
   verification (qinv_ok_nonzero).

   Paramcoq is not used.  The abstraction theorem would give this for every
   term over `mxops` at once from a relation between the two RECORDS, but the
   `minv` (and `mmul`) fields are related only conditionally -- on the outcome
   of a run-time check on the particular argument -- and the failing value []
   does not propagate through the other operations as a recognisable failure
   (qmul A [] is a list of empty rows), so there is no unconditional relation
   between ListOps and McOps rat for parametricity to transport.  The
   conditions therefore appear, per inverse, as hypotheses below. *)
Section GpPosterior.
Variables (n b : nat).
Variables (L y mu Kqx Kqq muq : qmat).
Variables (ML : 'M[rat]_n) (My Mmu : 'M[rat]_(n, 1)).
Variables (MKqx : 'M[rat]_(b, n)) (MKqq : 'M[rat]_b) (Mmuq : 'M[rat]_(b, 1)).
Hypothesis hL : repr L ML.
Hypothesis hy : repr y My.
Hypothesis hmu : repr mu Mmu.
Hypothesis hKqx : repr Kqx MKqx.
Hypothesis hKqq : repr Kqq MKqq.
Hypothesis hmuq : repr muq Mmuq.

(* the `_s` forms: the solver is given as a matrix related to the inverse *)
Lemma repr_gp_alpha_s Li LTi (MLi MLTi : 'M[rat]_n) :
  n != 0%N -> repr Li MLi -> repr LTi MLTi ->
  repr (@gp_alpha_s LO n Li LTi y mu) (@gp_alpha_s MO n MLi MLTi My Mmu).
Proof. by move=> n0 hLi hLTi; rewrite /gp_alpha_s; repr_mx; rewrite n0. Qed.

Lemma repr_post_mean alpha (Malpha : 'M[rat]_(n, 1)) :
  n != 0%N -> repr alpha Malpha ->
  repr (@post_mean LO n b alpha Kqx muq) (@post_mean MO n b Malpha MKqx Mmuq).
Proof. by move=> n0 ha; rewrite /post_mean; repr_mx; rewrite n0. Qed.

Lemma repr_post_cov_s Li (MLi : 'M[rat]_n) :
  n != 0%N -> repr Li MLi ->
  repr (@post_cov_s LO n b Li Kqx Kqq) (@post_cov_s MO n b MLi MKqx MKqq).
Proof. by move=> n0 hLi; rewrite /post_cov_s; repr_mx; rewrite n0. Qed.

Lemma repr_closed_mean_s Ai (MAi : 'M[rat]_n) :
  n != 0%N -> repr Ai MAi ->
  repr (@closed_mean_s LO n b Ai y mu Kqx muq) (@closed_mean_s MO n b MAi My Mmu MKqx Mmuq).
Proof. by move=> n0 hAi; rewrite /closed_mean_s; repr_mx; rewrite n0. Qed.

Lemma repr_closed_cov_s Ai (MAi : 'M[rat]_n) :
  n != 0%N -> repr Ai MAi ->
  repr (@closed_cov_s LO n b Ai Kqx Kqq) (@closed_cov_s MO n b MAi MKqx MKqq).
Proof. by move=> n0 hAi; rewrite /closed_cov_s; repr_mx; rewrite n0. Qed.

(* the model as written: gp_alpha, post_cov, build_posterior call minv *)
Theorem repr_gp_alpha :
  qinv_ok_of propose n L = true -> qinv_ok_of propose n (@mtr LO n n L) = true ->
  repr (@gp_alpha LO n L y mu) (@gp_alpha MO n ML My Mmu).
Proof.
move=> okL okLT; have n0 := qinv_ok_nonzero okL.
have [_ hLi] := repr_minv okL hL.
have [_ hLTi] := repr_minv okLT (repr_mtr propose hL).
exact: repr_gp_alpha_s.
Qed.

Theorem repr_post_cov :
  qinv_ok_of propose n L = true ->
  repr (@post_cov LO n b L Kqx Kqq) (@post_cov MO n b ML MKqx MKqq).
Proof.
move=> okL; have n0 := qinv_ok_nonzero okL.
have [_ hLi] := repr_minv okL hL.
exact: repr_post_cov_s.
Qed.

(* build_posterior applied to the model's own alpha: the whole data flow of
   regression.py from (L, y, mu, K_qx, K_qq, mu_q) to (mean, covariance) *)
Theorem repr_build_posterior :
  qinv_ok_of propose n L = true -> qinv_ok_of propose n (@mtr LO n n L) = true ->
  let out  := @build_posterior LO n b L (@gp_alpha LO n L y mu) Kqx Kqq muq in
  let out' := @build_posterior MO n b ML (@gp_alpha MO n ML My Mmu) MKqx MKqq Mmuq in
  ML \in unitmx /\ repr out.1 out'.1 /\ repr out.2 out'.2.
Proof.
move=> okL okLT /=; have n0 := qinv_ok_nonzero okL.
have [uL _] := repr_minv okL hL.
split=> //; split; last exact: repr_post_cov.
by apply: repr_post_mean => //; apply: repr_gp_alpha.
Qed.

(* as the generated case files evaluate it (Matrix/GpCheck.v): L^-1 by qinv,
   (L^T)^-1 as the transpose of L^-1 re-verified by qinv_checked, and the test
   is obligation 0: the inverses are well shaped and n <> 0 *)
Theorem repr_posterior_as_run :
  let Li  := qinv_of propose n L in
  let LTi := qinv_checked n (qtr n n L) (qtr n n Li) in
  n != 0%N -> wf_mx n n Li = true -> wf_mx n n LTi = true ->
  let alpha := @gp_alpha_s LO n Li LTi y mu in
  [/\ ML \in unitmx,
      repr alpha (@gp_alpha MO n ML My Mmu),
      repr (@post_mean LO n b alpha Kqx muq)
           (@post_mean MO n b (@gp_alpha MO n ML My Mmu) MKqx Mmuq)
    & repr (@post_cov_s LO n b Li Kqx Kqq) (@post_cov MO n b ML MKqx MKqq)].
Proof.
move=> Li LTi n0 wfLi wfLTi alpha.
have [uL hLi] := repr_minv (qinv_wf_ok n0 wfLi) hL.
have hLTi := repr_qinv_checked_wf n0 wfLTi (repr_mtr propose hL).
have ha : repr alpha (@gp_alpha MO n ML My Mmu) by apply: repr_gp_alpha_s.
split=> //; first exact: repr_post_mean.
exact: repr_post_cov_s.
Qed.

End GpPosterior.

(* the closed forms of the property statement, with the exact inverse of
   K_xx + S (obligations 8 and 9 of Matrix/GpCheck.v) *)
Theorem repr_closed_forms n b K S y mu Kqx Kqq muq
    (MK MS : 'M[rat]_n) (My Mmu : 'M[rat]_(n, 1))
    (MKqx : 'M[rat]_(b, n)) (MKqq : 'M[rat]_b) (Mmuq : 'M[rat]_(b, 1)) :
  repr K MK -> repr S MS -> repr y My -> repr mu Mmu ->
  repr Kqx MKqx -> repr Kqq MKqq -> repr muq Mmuq ->
  qinv_ok_of propose n (@data_cov LO n K S) = true ->
  [/\ @data_cov MO n MK MS \in unitmx,
      repr (@closed_mean LO n b (@data_cov LO n K S) y mu Kqx muq)
           (@closed_mean MO n b (@data_cov MO n MK MS) My Mmu MKqx Mmuq)
    & repr (@closed_cov LO n b (@data_cov LO n K S) Kqx Kqq)
           (@closed_cov MO n b (@data_cov MO n MK MS) MKqx MKqq)].
Proof.
move=> hK hS hy hmu hKqx hKqq hmuq ok; have n0 := qinv_ok_nonzero ok.
have hA : repr (@data_cov LO n K S) (@data_cov MO n MK MS) by apply: repr_madd.
have [uA hAi] := repr_minv ok hA.
split=> //; first exact: repr_closed_mean_s.
exact: repr_closed_cov_s.
Qed.

(* ======================================================================== *)
(* E. a second composition: calculate_posterior of Matrix/Inversion.v (C17)  *)
(* ======================================================================== *)
Theorem repr_calculate_posterior m n A y_err y K pm
    (MA : 'M[rat]_(m, n)) (Me My : 'M[rat]_(m, 1)) (MK : 'M[rat]_n) (Mpm : 'M[rat]_(n, 1)) :
  repr A MA -> repr y_err Me -> repr y My -> repr K MK -> repr pm Mpm ->
  m != 0%N ->
  qinv_ok_of propose n (@lin_system LO n K (@lin_W LO m n A (@lin_inv_sigma LO m y_err))) = true ->
  let out  := @calculate_posterior LO m n A y_err y K pm in
  let out' := @calculate_posterior MO m n MA Me My MK Mpm in
  repr out.1 out'.1 /\ repr out.2 out'.2.
Proof.
move=> hA he hy hK hpm m0 ok; have n0 := qinv_ok_nonzero ok.
have hiS : repr (@lin_inv_sigma LO m y_err) (@lin_inv_sigma MO m Me).
  by rewrite /lin_inv_sigma; repr_mx.
have hW : repr (@lin_W LO m n A (@lin_inv_sigma LO m y_err))
               (@lin_W MO m n MA (@lin_inv_sigma MO m Me)).
  by rewrite /lin_W; repr_mx; rewrite m0.
have hB : repr (@lin_system LO n K (@lin_W LO m n A (@lin_inv_sigma LO m y_err)))
               (@lin_system MO n MK (@lin_W MO m n MA (@lin_inv_sigma MO m Me))).
  by rewrite /lin_system; repr_mx; rewrite n0.
have [_ hBi] := repr_minv ok hB.
have hu : repr (@lin_u LO m n A (@lin_inv_sigma LO m y_err) y pm)
               (@lin_u MO m n MA (@lin_inv_sigma MO m Me) My Mpm).
  by rewrite /lin_u; repr_mx; rewrite ?m0 ?n0.
have hpc : repr (@lin_post_cov LO n K (@lin_W LO m n A (@lin_inv_sigma LO m y_err)))
                (@lin_post_cov MO n MK (@lin_W MO m n MA (@lin_inv_sigma MO m Me))).
  by rewrite /lin_post_cov /lin_post_cov_s; repr_mx; rewrite n0.
split=> //.
by rewrite /calculate_posterior /= /lin_post_mean; repr_mx; rewrite n0.
Qed.

End WithOracle.

(* ======================================================================== *)
(* F. ListOps itself is the instance  propose := bareiss_big                 *)
(* ======================================================================== *)
(* Everything above holds for every proposing function, hence for the BigZ
   elimination ListOps uses; `ListOps`, `qinv`, `qinv_ok` are CONVERTIBLE to
   `ListOpsOf bareiss_big`, `qinv_of bareiss_big`, `qinv_ok_of bareiss_big`
   (Refinement.ListOps_is_ListOpsOf etc., by reflexivity), so the statements
   below are instances, proved by `exact`.  Their `Print Assumptions` lists
   the Uint63 primitives (PrimInt63.add, ...) because the TERM bareiss_big,
   which the statements mention through `ListOps` / `qinv`, is written with
   Bignums' machine integers; no property of those primitives is used. *)
Section AtListOps.
Notation LO := ListOps.

Theorem ListOps_minv n A (M : 'M[rat]_n) :
  qinv_ok n A = true -> repr A M ->
  M \in unitmx /\ repr (@minv LO n A) (@minv MO n M).
Proof. exact: (@repr_minv bareiss_big). Qed.

Theorem ListOps_minv_fail n A : qinv_ok n A = false -> @minv LO n A = nil.
Proof. exact: (@qinv_fail bareiss_big). Qed.

Theorem ListOps_minv_wf n A (M : 'M[rat]_n) :
  wf_mx n n (@minv LO n A) = true -> repr A M -> repr (@minv LO n A) (@minv MO n M).
Proof. exact: (@repr_minv_wf bareiss_big). Qed.

Theorem ListOps_mmul m n p A B (MA : 'M[rat]_(m, n)) (MB : 'M[rat]_(n, p)) :
  (n != 0%N) || (p == 0%N) ->
  repr A MA -> repr B MB -> repr (@mmul LO m n p A B) (@mmul MO m n p MA MB).
Proof. exact: (@repr_mmul bareiss_big). Qed.

Theorem ListOps_build_posterior n b L y mu Kqx Kqq muq
    (ML : 'M[rat]_n) (My Mmu : 'M[rat]_(n, 1))
    (MKqx : 'M[rat]_(b, n)) (MKqq : 'M[rat]_b) (Mmuq : 'M[rat]_(b, 1)) :
  repr L ML -> repr y My -> repr mu Mmu ->
  repr Kqx MKqx -> repr Kqq MKqq -> repr muq Mmuq ->
  qinv_ok n L = true -> qinv_ok n (@mtr LO n n L) = true ->
  let out  := @build_posterior LO n b L (@gp_alpha LO n L y mu) Kqx Kqq muq in
  let out' := @build_posterior MO n b ML (@gp_alpha MO n ML My Mmu) MKqx MKqq Mmuq in
  ML \in unitmx /\ repr out.1 out'.1 /\ repr out.2 out'.2.
Proof. exact: (@repr_build_posterior bareiss_big). Qed.

Theorem ListOps_posterior_as_run n b L y mu Kqx Kqq muq
    (ML : 'M[rat]_n) (My Mmu : 'M[rat]_(n, 1))
    (MKqx : 'M[rat]_(b, n)) (MKqq : 'M[rat]_b) (Mmuq : 'M[rat]_(b, 1)) :
  repr L ML -> repr y My -> repr mu Mmu ->
  repr Kqx MKqx -> repr Kqq MKqq -> repr muq Mmuq ->
  let Li  := qinv n L in
  let LTi := qinv_checked n (qtr n n L) (qtr n n Li) in
  n != 0%N -> wf_mx n n Li = true -> wf_mx n n LTi = true ->
  let alpha := @gp_alpha_s LO n Li LTi y mu in
  [/\ ML \in unitmx,
      repr alpha (@gp_alpha MO n ML My Mmu),
      repr (@post_mean LO n b alpha Kqx muq)
           (@post_mean MO n b (@gp_alpha MO n ML My Mmu) MKqx Mmuq)
    & repr (@post_cov_s LO n b Li Kqx Kqq) (@post_cov MO n b ML MKqx MKqq)].
Proof. exact: (@repr_posterior_as_run bareiss_big). Qed.

End AtListOps.

(* the hypotheses are satisfiable and decidable by computation: on the matrix
   of ListOps.listops_selftest (which needs a row exchange) the verification
   succeeds under vm_compute, hence its ListOps inverse represents invmx
   (stated through repr: unfolding mx_of on the computed inverse inside the
   kernel took 23 minutes and proves nothing more) *)
Example refinement_selftest :
  let A : qmat := [:: [:: 0%Q; 2%Q; (1 # 3)%Q]; [:: (1 # 2)%Q; (-1)%Q; 4%Q];
                      [:: 3%Q; (5 # 7)%Q; 1%Q]] in
  qinv_ok 3 A = true /\ wf_mx 3 3 A = true /\
  exists M : 'M[rat]_3, [/\ repr A M, M \in unitmx & repr (qinv 3 A) (invmx M)].
Proof.
move=> A.
have ok : qinv_ok 3 A = true by vm_compute.
have wf : wf_mx 3 3 A = true by vm_compute.
have [u h] := ListOps_minv ok (repr_self wf).
split; first exact: ok.
split; first exact: wf.
exists (mx_of 3 3 A); split; [exact: (repr_self wf) | exact: u | exact: h].
Qed.
