(* Matrix/InversionEvidence.v -- the evidence VALUE of GpLinearInverter (C17).

   marginal_likelihood returns  -0.5 v.v - sum_i ln L_ii  with L L^T = J.  By
   C17_evidence_value the first term is -0.5 r^T J^-1 r and det J = (prod L_ii)^2,
   hence  sum_i ln L_ii = 1/2 ln det J  (ln of a product of positive reals; the
   only non-algebraic step, a fact about Coq's `ln` that is used here, not in
   the MathComp development).  So the value the property speaks of -- the
   log-density of y under N(A pm, J) up to the constant -m/2 ln(2 pi) -- is

       lml_R c = -0.5 r^T J^-1 r - 1/2 ln det J .

   `lin_quad c` and `lin_det c` are exact rationals computed by vm_compute from
   the implementation's own matrices; `lml_goal c` is then closed by the
   verified interval evaluator (coq-interval).  A goal that fails to check is a
   disagreement between the implementation's evidence value and the model. *)
From Coq Require Import Reals QArith Qreals List.
From Interval Require Import Tactic.
From IT Require Import Matrix.MxOps Matrix.ListOps Matrix.Inversion Matrix.InversionCheck.

Open Scope R_scope.

Definition lml_R (quad det : Q) : R := Q2R quad - / 2 * ln (Q2R det).

Definition lml_goal (c : lin_case) : Prop :=
  Rabs (Q2R (o_lml c) - lml_R (lin_quad c) (lin_det c)) <= Q2R (t_l c).

(* evaluate the two rationals with the VM, then hand the real inequality to
   `interval` *)
Ltac lml_tac :=
  unfold lml_goal;
  match goal with
  | |- context [lml_R (lin_quad ?c) (lin_det ?c)] =>
      let Hq := fresh "Hq" in let Hd := fresh "Hd" in
      eassert (Hq : lin_quad c = _) by (vm_compute; reflexivity);
      eassert (Hd : lin_det c = _) by (vm_compute; reflexivity);
      rewrite Hq, Hd; clear Hq Hd
  end;
  unfold lml_R, Q2R; cbn [Qnum Qden o_lml t_l];
  interval with (i_prec 120).
