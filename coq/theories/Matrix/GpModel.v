(* Matrix/GpModel.v -- data-flow model of inference/gp/regression.py (property C02),
   written once over an arbitrary `mxops` (Matrix/MxOps.v).  No proofs here.

   Conventions: 1-D arrays of length n are n x 1 columns, Python scalars are
   1 x 1 matrices, n = number of training points, b = number of query points.
   The kernel / mean-function VALUES are inputs (they are tied to the code by
   C10):
     K_xx  = self.cov.build_covariance(self.cov_hyperpars)        n x n
     mu    = self.mean.build_mean(self.mean_hyperpars)            n x 1
     K_qx  = self.cov(q, self.x, self.cov_hyperpars)              b x n  (1 x n per point)
     K_qq  = self.cov(q, q, self.cov_hyperpars)                   b x b  (1 x 1 per point)
     mu_q  = self.mean(q, self.mean_hyperpars)                    b x 1  (1 x 1 per point)
   SciPy / LAPACK calls are abstracted as EXACT operations:
     cholesky(A)                      an input L; the theorems assume
                                      L *m L^T = A and L invertible, the
                                      correspondence run checks both on the
                                      implementation's own self.L
     solve_triangular(L, B, lower=True)   mmul (minv L) B
     solve_triangular(L.T, B)             mmul (minv (mtr L)) B

   regression.py (pinned)                                  model
   ----------------------                                  -----
   133   self.sig = self.check_error_data(y_err, y_cov)    sig_of_yerr / sig_of_ycov / sig_none
   320     return diag(y_err**2)                           sig_of_yerr
   293     return y_cov                                    sig_of_ycov
   322     return zeros([n, n])                            sig_none
   239   self.K_xx = build_covariance(...) + self.sig      data_cov
   240   self.mu = self.mean.build_mean(...)               (input mu)
   241   self.L = cholesky(self.K_xx)                      (input L, see above)
   242-4 self.alpha = solve_triangular(L.T,
           solve_triangular(L, y - mu, lower=True))        gp_alpha
   208-16 __call__: for each query point q
   212     (K_qx @ alpha)[0] + self.mean(q, ...)           call_mean
   213     v = solve_triangular(L, K_qx.T, lower=True)
   214     K_qq[0,0] - (v**2).sum()                        call_var
   216     sqrt(abs(array(errs)))                          call_absvar (= sigma^2; the
                                                           square root is taken by the
                                                           harness on the other side:
                                                           it compares sigma_impl^2)
   439-49 build_posterior
   442     mu = K_qx @ alpha + array([mean(p) ...])        post_mean  (mean_only=True returns this)
   447     Q = solve_triangular(L, K_qx.T, lower=True)
   448     sigma = K_qq - Q.T @ Q                          post_cov

   The closed forms of the property statement are defined over the same
   operations (closed_mean, closed_cov) so that the run can evaluate them with
   the exact inverse of K_xx + S; theorems C02_mean_closed / C02_cov_closed say
   the data flow above equals them whenever L L^T = K_xx + S.

   Pinned defects (the definitions above describe the repaired tree):
     D12  check_error_data with y_cov given as a list/tuple raises
          AttributeError ('list' object has no attribute 'shape') because the
          converted array is assigned to y_err:  check_error_data_pinned.
     D11  HeteroscedasticNoise.__call__ returns zeros([u.size, v.size]) --
          shape (b*d, n*d) instead of (b, n) -- so K_qx of a composite kernel
          cannot be formed for d >= 2:  hetero_cross_shape_pinned. *)
From Coq Require Import QArith.
From IT Require Import Matrix.MxOps.

Section GpModel.
Variable O : mxops.
Notation M := (mx O).

(* ---- check_error_data --------------------------------------------------- *)
Definition sig_of_yerr {n} (y_err : M n 1) : M n n := mdiagv (mhad y_err y_err).
Definition sig_of_ycov {n} (y_cov : M n n) : M n n := y_cov.
Definition sig_none (n : nat) : M n n := mconst 0%Q n n.

(* ---- set_hyperparameters ------------------------------------------------- *)
Definition data_cov {n} (K_xx S : M n n) : M n n := madd K_xx S.

(* Every function that calls a solver comes in two forms.  `f_s` takes the
   solver as the matrix of the linear map it computes:
       Li  = minv L          B |-> solve_triangular(L, B, lower=True)
       LTi = minv (mtr L)    B |-> solve_triangular(L.T, B)
       Ai  = minv A          B |-> A^-1 B  (closed forms)
   and `f` is `f_s` applied to those inverses, i.e. the code as written.  The
   theorems are about `f`; the run evaluates `f_s` so that each inverse is
   computed (and verified) once per case instead of once per call --
   vm_compute has no sharing across calls.  `f L ... = f_s (minv L) ...` holds by
   definition (delta), for every instance. *)
Definition gp_alpha_s {n} (Li LTi : M n n) (y mu : M n 1) : M n 1 :=
  mmul LTi (mmul Li (msub y mu)).
Definition gp_alpha {n} (L : M n n) (y mu : M n 1) : M n 1 :=
  gp_alpha_s (minv L) (minv (mtr n n L)) y mu.

(* ---- __call__, one query point ------------------------------------------ *)
Definition call_mean {n} (alpha : M n 1) (K_qx : M 1 n) (mu_q : M 1 1) : M 1 1 :=
  madd (mmul K_qx alpha) mu_q.

Definition call_var_s {n} (Li : M n n) (K_qx : M 1 n) (K_qq : M 1 1) : M 1 1 :=
  let v := mmul Li (mtr 1 n K_qx) in
  msub K_qq (msum (mhad v v)).
Definition call_var {n} (L : M n n) (K_qx : M 1 n) (K_qq : M 1 1) : M 1 1 :=
  call_var_s (minv L) K_qx K_qq.

Definition call_absvar_s {n} (Li : M n n) (K_qx : M 1 n) (K_qq : M 1 1) : M 1 1 :=
  mabs (call_var_s Li K_qx K_qq).
Definition call_absvar {n} (L : M n n) (K_qx : M 1 n) (K_qq : M 1 1) : M 1 1 :=
  call_absvar_s (minv L) K_qx K_qq.

(* ---- build_posterior ------------------------------------------------------ *)
Definition post_mean {n b} (alpha : M n 1) (K_qx : M b n) (mu_q : M b 1) : M b 1 :=
  madd (mmul K_qx alpha) mu_q.

Definition post_cov_s {n b} (Li : M n n) (K_qx : M b n) (K_qq : M b b) : M b b :=
  let Q := mmul Li (mtr b n K_qx) in
  msub K_qq (mmul (mtr n b Q) Q).
Definition post_cov {n b} (L : M n n) (K_qx : M b n) (K_qq : M b b) : M b b :=
  post_cov_s (minv L) K_qx K_qq.

(* build_posterior(points) and build_posterior(points, mean_only=True) *)
Definition build_posterior {n b} (L : M n n) (alpha : M n 1)
           (K_qx : M b n) (K_qq : M b b) (mu_q : M b 1) : M b 1 * M b b :=
  (post_mean alpha K_qx mu_q, post_cov L K_qx K_qq).

Definition build_posterior_mean_only {n b} (alpha : M n 1) (K_qx : M b n) (mu_q : M b 1)
  : M b 1 := post_mean alpha K_qx mu_q.

(* ---- the closed forms of the property statement --------------------------- *)
(* m(q) + K_qx (K_xx + S)^-1 (y - m(x)) *)
Definition closed_mean_s {n b} (Ai : M n n) (y mu : M n 1) (K_qx : M b n) (mu_q : M b 1) : M b 1 :=
  madd mu_q (mmul K_qx (mmul Ai (msub y mu))).
Definition closed_mean {n b} (A : M n n) (y mu : M n 1) (K_qx : M b n) (mu_q : M b 1) : M b 1 :=
  closed_mean_s (minv A) y mu K_qx mu_q.

(* K_qq - K_qx (K_xx + S)^-1 K_xq *)
Definition closed_cov_s {n b} (Ai : M n n) (K_qx : M b n) (K_qq : M b b) : M b b :=
  msub K_qq (mmul K_qx (mmul Ai (mtr b n K_qx))).
Definition closed_cov {n b} (A : M n n) (K_qx : M b n) (K_qq : M b b) : M b b :=
  closed_cov_s (minv A) K_qx K_qq.

End GpModel.

Arguments sig_of_yerr {O n}.
Arguments sig_of_ycov {O n}.
Arguments sig_none {O} n.
Arguments data_cov {O n}.
Arguments gp_alpha {O n}.
Arguments gp_alpha_s {O n}.
Arguments call_var_s {O n}.
Arguments call_absvar_s {O n}.
Arguments post_cov_s {O n b}.
Arguments closed_mean_s {O n b}.
Arguments closed_cov_s {O n b}.
Arguments call_mean {O n}.
Arguments call_var {O n}.
Arguments call_absvar {O n}.
Arguments post_mean {O n b}.
Arguments post_cov {O n b}.
Arguments build_posterior {O n b}.
Arguments build_posterior_mean_only {O n b}.
Arguments closed_mean {O n b}.
Arguments closed_cov {O n b}.

(* ---- pinned behaviour (defects D11, D12) ----------------------------------- *)
(* how y_cov reaches check_error_data *)
Inductive container := AsArray | AsList | AsTuple.

(* regression.py:247-293 as pinned: for a list / tuple the converted array is
   bound to the name y_err and `y_cov.shape` is then evaluated on the list
   itself -> AttributeError; None stands for the raised exception. *)
Definition check_error_data_pinned {O : mxops} {n} (c : container) (y_cov : mx O n n)
  : option (mx O n n) :=
  match c with AsArray => Some y_cov | _ => None end.

(* repaired: the converted array is what is validated and returned *)
Definition check_error_data_ycov {O : mxops} {n} (c : container) (y_cov : mx O n n)
  : option (mx O n n) := Some (sig_of_ycov y_cov).

(* shape of HeteroscedasticNoise.__call__(u, v) for u : (b, d), v : (n, d) *)
Definition hetero_cross_shape_pinned (b n d : nat) : nat * nat := (b * d, n * d)%nat.
Definition hetero_cross_shape (b n d : nat) : nat * nat := (b, n).
