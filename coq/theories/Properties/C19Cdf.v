(* C19 (extension, round 4) -- the cumulative function of the unimodal estimator as a
   VALUE, its integration limits, the mirror image of the family, and the type of the
   points the estimators are asked about.
   Property theorems only; every proof is `exact <lemma>`.

   Proved:
     * the family is closed under the mirror image x -> -x of the data: with
       (-x0, s0, ln v, -f, k, q) the log-density, the 128-node Gauss-Chebyshev
       normaliser (nodes and weights are symmetric) and the density at -x are those of
       the original member at x; the integration limits are mirror images of each
       other (lwr' = -upr, upr' = -lwr) and affine-covariant; each lies more than 4
       widths of the tail on its own side from the mode, for every f.  The lower limit
       that uses exp(f) on both sides (seeded change C19_1 of round 4) lies less than
       one tail width below the mode for a member with f = -ln 4.
     * the cumulative function as the code assembles it (sorted points, first piece
       from the lower limit, running sum of the pieces; quadrature taken as exact):
       every value of one call is F(point) minus ONE common amount B, 0 <= B <= F(lwr),
       and B = F(lwr) when the lowest point lies above the limit.  Hence a value (a
       single point included) is short of F by exactly the probability below the
       limit, it is within eps of F iff that probability is <= eps, and differences
       between values of one call are exact whatever the limit -- interval() reads
       both ends in one call and cannot see a misplaced limit.
     * with the float64 output buffer of the code the answer of a method depends only
       on the VALUE of the points, not on their type (Python int, list of ints, int32 /
       int64 / float32 array); a buffer that inherits an integer type (zeros_like)
       stores 0 for every probability in [0, 1).
   NOT proved: accuracy of scipy quad; that the probability below the lower limit is
   small for the fitted member (measured on the real estimator by the check). *)
From Coq Require Import Reals List ZArith Lra.
From IT Require Import RealModel.Unimodal RealModel.UnimodalCdf Proofs.UnimodalCdfProofs.
Import ListNotations.
Open Scope R_scope.

Theorem C19_family_reflect_log : forall (x : R) (th : theta),
  log_pdf_model (- x) (reflect_theta th) = log_pdf_model x th.
Proof. exact log_pdf_reflect. Qed.

Theorem C19_family_norm_reflect : forall th : theta,
  norm_model (reflect_theta th) = norm_model th.
Proof. exact norm_reflect. Qed.

Theorem C19_family_reflect : forall (x : R) (th : theta),
  evaluate_model (- x) (reflect_theta th) = evaluate_model x th.
Proof. exact family_reflect. Qed.

Theorem C19_lwr_limit_reflect : forall th : theta, lwr_limit (reflect_theta th) = - upr_limit th.
Proof. exact lwr_limit_reflect. Qed.

Theorem C19_upr_limit_reflect : forall th : theta, upr_limit (reflect_theta th) = - lwr_limit th.
Proof. exact upr_limit_reflect. Qed.

Theorem C19_lwr_limit_affine : forall (a b : R) (th : theta),
  lwr_limit (affine_theta a b th) = a * lwr_limit th + b.
Proof. exact lwr_limit_affine. Qed.

Theorem C19_upr_limit_affine : forall (a b : R) (th : theta),
  upr_limit (affine_theta a b th) = a * upr_limit th + b.
Proof. exact upr_limit_affine. Qed.

Theorem C19_limits_four_widths : forall th : theta, 0 < t_s0 th ->
  4 * (t_s0 th * exp (- t_f th)) < t_x0 th - lwr_limit th /\
  4 * (t_s0 th * exp (t_f th)) < upr_limit th - t_x0 th.
Proof. exact limits_four_widths. Qed.

Theorem C19_samesign_limit_refuted :
  exists th, 0 < t_s0 th /\
    t_x0 th - lwr_limit_samesign th < 1 * (t_s0 th * exp (- t_f th)).
Proof. exact samesign_limit_refuted. Qed.

(* ---- the cumulative function as assembled by cdf() ---- *)
Theorem C19_cdf_values : forall (F : R -> R) (L : R) (vs : list R),
  cdf_sorted F L vs = map (fun v => F v - cdf_base F L vs) vs.
Proof. exact cdf_sorted_values. Qed.

Theorem C19_cdf_base_bounds : forall (F : R -> R) (L : R) (vs : list R),
  nondecreasing F -> nonneg F -> 0 <= cdf_base F L vs <= F L.
Proof. exact cdf_base_bounds. Qed.

Theorem C19_cdf_value_error : forall (F : R -> R) (L v0 : R) (t : list R) (v o : R), L < v0 ->
  In (v, o) (combine (v0 :: t) (cdf_sorted F L (v0 :: t))) -> F v - o = F L.
Proof. exact cdf_value_error. Qed.

Theorem C19_cdf_single_point_error : forall (F : R -> R) (L x : R), L < x ->
  cdf_sorted F L [x] = [F x - F L].
Proof. exact cdf_single_point_error. Qed.

Theorem C19_cdf_accurate_iff : forall (F : R -> R) (L v0 : R) (t : list R) (eps : R), L < v0 ->
  (forall v o, In (v, o) (combine (v0 :: t) (cdf_sorted F L (v0 :: t))) -> Rabs (F v - o) <= eps) <->
  Rabs (F L) <= eps.
Proof. exact cdf_accurate_iff. Qed.

Theorem C19_cdf_differences_exact : forall (F : R -> R) (L : R) (vs : list R) (v1 o1 v2 o2 : R),
  In (v1, o1) (combine vs (cdf_sorted F L vs)) -> In (v2, o2) (combine vs (cdf_sorted F L vs)) ->
  o2 - o1 = F v2 - F v1.
Proof. exact cdf_differences_exact. Qed.

Theorem C19_cdf_below_limit : forall (F : R -> R) (L x : R), x <= L -> cdf_sorted F L [x] = [0].
Proof. exact cdf_below_limit. Qed.

(* ---- typed query points ---- *)
Theorem C19_typed_eval_float : forall (G : R -> R) (qs : list query),
  typed_eval BufFloat G qs = map G (map qval qs).
Proof. exact typed_eval_float. Qed.

Theorem C19_typed_eval_dtype_irrelevant : forall (G : R -> R) (qs qs' : list query),
  map qval qs = map qval qs' -> typed_eval BufFloat G qs = typed_eval BufFloat G qs'.
Proof. exact typed_eval_dtype_irrelevant. Qed.

Theorem C19_like_buffer_truncates : forall (G : R -> R) (k : Z), 0 <= G (IZR k) < 1 ->
  typed_eval BufLike G [QInt k] = [0].
Proof. exact like_buffer_truncates. Qed.

Theorem C19_like_buffer_refuted :
  exists (G : R -> R) (k : Z), 0 < G (IZR k) < 1 /\
    typed_eval BufLike G [QInt k] <> typed_eval BufFloat G [QInt k].
Proof. exact like_buffer_refuted. Qed.

(* non-vacuity: the uniform cumulative function on [0, 1] with the lower limit at 1/4:
   the premises of the cumulative-function theorems hold, the call at (1/2, 3/4) returns
   (1/4, 1/2): each value short by F(1/4) = 1/4, the difference exact; and the typed
   theorem: the points 2 given as an int and as a float64 have the same value *)
Example C19_cdf_example :
  let F := fun x : R => Rmax 0 (Rmin 1 x) in
  nondecreasing F /\ nonneg F /\ F (1 / 4) = 1 / 4 /\
  cdf_sorted F (1 / 4) [1 / 2; 3 / 4] = [F (1 / 2) - F (1 / 4); F (3 / 4) - F (1 / 4)].
Proof.
  cbv zeta. split; [|split; [|split]].
  - intros x y H. unfold Rmax, Rmin. repeat destruct (Rle_dec _ _); lra.
  - intros x. unfold Rmax, Rmin. repeat destruct (Rle_dec _ _); lra.
  - unfold Rmax, Rmin. repeat destruct (Rle_dec _ _); lra.
  - rewrite cdf_sorted_values. rewrite cdf_base_above_limit by lra. reflexivity.
Qed.

Example C19_typed_example : map qval [QInt 2; QFlt32 (5 / 2)] = map qval [QFlt64 2; QFlt64 (5 / 2)].
Proof. reflexivity. Qed.

Print Assumptions C19_family_reflect_log.
Print Assumptions C19_family_norm_reflect.
Print Assumptions C19_family_reflect.
Print Assumptions C19_lwr_limit_reflect.
Print Assumptions C19_upr_limit_reflect.
Print Assumptions C19_lwr_limit_affine.
Print Assumptions C19_upr_limit_affine.
Print Assumptions C19_limits_four_widths.
Print Assumptions C19_samesign_limit_refuted.
Print Assumptions C19_cdf_values.
Print Assumptions C19_cdf_base_bounds.
Print Assumptions C19_cdf_value_error.
Print Assumptions C19_cdf_single_point_error.
Print Assumptions C19_cdf_accurate_iff.
Print Assumptions C19_cdf_differences_exact.
Print Assumptions C19_cdf_below_limit.
Print Assumptions C19_typed_eval_float.
Print Assumptions C19_typed_eval_dtype_irrelevant.
Print Assumptions C19_like_buffer_truncates.
Print Assumptions C19_like_buffer_refuted.
