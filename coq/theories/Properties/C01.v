(* C01 -- MCMC samplers draw from the posterior the user supplied.

   What is proved (finite state spaces, real weights; see DESIGN.md C01 for what
   is cited rather than proved: the ergodic limit, P(U < p) = p, the Jacobian of
   the stretch move, HMC detailed balance in the continuum):

   - the Metropolis rule used by every sampler model satisfies detailed balance
     for a symmetric proposal, hence keeps the target stationary WHEN a rejected
     attempt repeats the current state (C01_mh_detailed_balance, C01_mh_stationary);
   - every decision of the sampler models is that rule at the chain's own
     temperature, evaluated on the proposed move (C01_tempering_factor; the models
     are Model/Samplers.v, tied to the code by exact replay of recorded transitions);
   - the samplers of the pinned tree RETRY until a proposal is accepted and store
     only the accepted state: the stored chain then has stationary weights
     pi x * A x (A = acceptance probability from x), which is not pi
     (C01_retry_kernel_stationary, C01_retry_chain_refuted -- known finding D3),
     and weighting by the attempts spent restores pi (C01_retry_weighted_ok);
   - stretch move: reverse move, balance with the z^(n-1) factor, symmetry and
     range of the z sampler (the C01_stretch, C01_g_symmetry and C01_zmap theorems); the pinned
     proposal X_i + z (X_j - X_i) is not reversible (C01_stretch_pinned_irreversible,
     defect D2, repaired). *)
From Coq Require Import Reals QArith List.
From IT Require Import Common.ExpBounds Model.Reflect Model.Samplers
  Proofs.SamplersProofs Proofs.MHProofs Proofs.MHRefuted Proofs.ExpBoundsProofs Proofs.DecisionProofs Proofs.FoldSymmetryProofs.
From Coq Require Import Qreals.
Import ListNotations.

Theorem C01_mh_detailed_balance : forall (pi : nat -> R) (q : nat -> nat -> R) x y,
  (0 < pi x)%R -> (0 < pi y)%R -> q x y = q y x ->
  (pi x * (q x y * acc pi x y) = pi y * (q y x * acc pi y x))%R.
Proof. exact mh_detailed_balance. Qed.

Theorem C01_mh_stationary : forall n (pi : nat -> R) (q : nat -> nat -> R),
  (forall x, (x < n)%nat -> (0 < pi x)%R) -> (forall x y, q x y = q y x) ->
  forall y, (y < n)%nat -> sum_n (fun x => (pi x * K n pi q x y)%R) n = pi y.
Proof. exact mh_stationary. Qed.

Theorem C01_retry_kernel_stationary : forall n (pi : nat -> R) (q : nat -> nat -> R),
  (forall x, (x < n)%nat -> (0 < pi x)%R) -> (forall x y, q x y = q y x) ->
  (forall x, (x < n)%nat -> (0 < A n pi q x)%R) ->
  forall y, (y < n)%nat ->
  sum_n (fun x => ((pi x * A n pi q x) * J n pi q x y)%R) n = (pi y * A n pi q y)%R.
Proof. exact retry_kernel_stationary. Qed.

Theorem C01_retry_weighted_ok : forall n (pi : nat -> R) (q : nat -> nat -> R),
  (forall x, (x < n)%nat -> (0 < A n pi q x)%R) ->
  forall x, (x < n)%nat -> ((pi x * A n pi q x) * (1 / A n pi q x) = pi x)%R.
Proof. exact retry_weighted_ok. Qed.

Theorem C01_retry_chain_refuted :
  exists (n : nat) (pi : nat -> Q) (q : nat -> nat -> Q),
    (forall x y, q x y = q y x) /\ (qsum pi n == 1)%Q /\
    stationary n pi (KQ n pi q) = true /\ stationary n pi (JQ n pi q) = false.
Proof. exact retry_chain_refuted. Qed.

Theorem C01_stretch_balance : forall px py c : R, (0 < px -> 0 < py -> 0 < c ->
  px * Rmin 1 (c * py / px) = c * py * Rmin 1 (/ c * px / py))%R.
Proof. exact stretch_balance. Qed.

Theorem C01_stretch_reversible : forall xi xj z : Q, (0 < z)%Q ->
  (stretch1 (stretch1 xi xj z) xj (/ z) == xi)%Q.
Proof. exact stretch_reversible. Qed.

Theorem C01_stretch_support_inverse : forall a z : Q, (0 < a)%Q ->
  (/ a <= z <= a -> / a <= / z <= a)%Q.
Proof. exact support_inverse. Qed.

Theorem C01_stretch_pinned_irreversible :
  exists xi xj z, ((1 # 2) <= z <= 2)%Q /\
    forall z', ((1 # 2) <= z' <= 2)%Q ->
      ~ (stretch_pinned1 (stretch_pinned1 xi xj z) xj z' == xi)%Q.
Proof. exact stretch_pinned_irreversible. Qed.

Theorem C01_g_symmetry : forall z : R, (0 < z -> / sqrt (/ z) = z * / sqrt z)%R.
Proof. exact g_symmetry. Qed.

Theorem C01_zmap_range : forall a : R, (1 < a)%R ->
  forall u, (0 <= u <= 1 -> / a <= zmap a u <= a)%R.
Proof. exact zmap_range. Qed.

Theorem C01_zmap_inverse : forall a : R, (1 < a)%R ->
  forall u, (0 <= u)%R ->
  ((sqrt (2 * zmap a u) - sqrt (2 / a)) / (sqrt (2 * a) - sqrt (2 / a)) = u)%R.
Proof. exact zmap_inverse. Qed.

(* every quantity a sampler model compares a uniform draw with is
   exp(beta * (logp proposed - logp current)) *)
Theorem C01_tempering_factor : forall logp beta x y,
  (tlogp logp beta y - tlogp logp beta x == beta * (logp y - logp x))%Q.
Proof. exact tempering_factor. Qed.

(* the executable accept / reject decision of the models is the Metropolis test over
   the reals: no draw when the move is uphill (probability 1), otherwise one
   uniform draw u and acceptance iff u < exp(p_new - p_old) *)
Theorem C01_decision_is_metropolis : forall (p_new p_old : Q) (tape tape' : list Q) (b : bool),
  mh_test p_new p_old tape = Ok (b, tape') ->
  (b = true /\ tape' = tape /\ mh_prob (Q2R (p_new - p_old)) = 1%R) \/
  (exists u, tape = u :: tape' /\
     (b = true -> (Q2R u < exp (Q2R (p_new - p_old)))%R) /\
     (b = false -> (exp (Q2R (p_new - p_old)) < Q2R u)%R)).
Proof. exact mh_test_sound. Qed.

Theorem C01_below_mh_prob : forall u d : R, (u < 1)%R -> ((u < exp d)%R <-> (u < mh_prob d)%R).
Proof. exact below_mh_prob. Qed.

(* folded 1-D proposals (reflecting boundaries, non-negativity) are reversible: every
   increment t that takes x to y is matched by an increment of the same magnitude
   that takes y back to x, so a symmetric increment law gives a symmetric proposal *)
Theorem C01_reflect_proposal_reversible : forall lo w x t : Q,
  (0 < w)%Q -> (lo <= x)%Q -> (x <= lo + w)%Q ->
  let y := Reflect.reflect lo w (x + t)%Q in
  exists t', ((t' == t)%Q \/ (t' == - t)%Q) /\ (Reflect.reflect lo w (y + t') == x)%Q.
Proof. exact reflect_proposal_reversible. Qed.

Theorem C01_abs_proposal_reversible : forall x t : Q, (0 <= x)%Q ->
  let y := abs_fold (x + t)%Q in
  exists t', ((t' == t)%Q \/ (t' == - t)%Q) /\ (abs_fold (y + t') == x)%Q.
Proof. exact abs_proposal_reversible. Qed.

Print Assumptions C01_reflect_proposal_reversible.
Print Assumptions C01_abs_proposal_reversible.
Print Assumptions C01_decision_is_metropolis.
Print Assumptions C01_below_mh_prob.
Print Assumptions C01_mh_detailed_balance.
Print Assumptions C01_mh_stationary.
Print Assumptions C01_retry_kernel_stationary.
Print Assumptions C01_retry_weighted_ok.
Print Assumptions C01_retry_chain_refuted.
Print Assumptions C01_stretch_balance.
Print Assumptions C01_stretch_reversible.
Print Assumptions C01_stretch_support_inverse.
Print Assumptions C01_stretch_pinned_irreversible.
Print Assumptions C01_g_symmetry.
Print Assumptions C01_zmap_range.
Print Assumptions C01_zmap_inverse.
Print Assumptions C01_tempering_factor.
