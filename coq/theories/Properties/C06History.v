(* C06, call histories -- "its gradient is the derivative of that log-density ... for all
   parameter vectors": the array a prior / joint prior / posterior hands back for one parameter
   vector is that vector's gradient (sample, cost-gradient) for as long as the caller holds it,
   whatever is called on the object afterwards.
   Property theorems only; every proof is `exact <lemma>`.

   Vocabulary (Model/PriorHistory.v).  The caller's memory is a heap of mutable arrays; a
   history is a list of  HNew a  (the caller creates a parameter vector),  HCall m k
   (r = obj.m(held[k]), the caller keeps the very array returned),  HAdd k v  (held[k] += v in
   place: an optimiser stepping its x, a caller accumulating into a gradient),  HValue k
   (obj(held[k]) / obj.cost(held[k]): a number comes back, no array changes hands).
   `history_final o ops` = what the caller reads, after the whole history, from every array it
   holds, when the methods allocate as priors.py / posterior.py do (meth_call: zeros(n) + slice
   assignment of each merged component's own fresh result; unary minus and `+` create arrays).
   `meth_result o m theta` is the function-level result of Model/JointPrior.v (joint_grad,
   joint_sample, their negation, likelihood gradient + joint_grad) -- the objects C06_joint_gradient,
   C06_joint_gradient_is_derivative, C06_joint_sample, C06_posterior_sum speak about.
   `spec_run` reads a history with arrays as VALUES.  `ops_ok 0 ops`: every index refers to an
   array the caller already holds.

   Trusted here and not proved: that `likelihood.gradient` returns a new array (C05's classes
   build it by arithmetic); its VALUE is supplied by the run (MPostGrad lg). *)
From Coq Require Import List QArith Bool Arith.
From IT Require Import Model.JointPrior Model.PriorHistory Proofs.JointPriorProofs Proofs.PriorHistoryProofs.
Import ListNotations.

(* the heap-level history of any prior object (stand-alone or joint, with or without a likelihood
   on top) reads exactly like the function-level history -- all objects, all histories *)
Theorem C06_history_refines_function_level : forall o ops,
  ops_ok 0 ops = true -> history_final o ops = spec_run (meth_result o) ops.
Proof. exact history_refines. Qed.

(* the array returned by a call holds the method's result on the contents its argument had at
   the time of the call (also when the same array object is passed again after the caller
   changed it in place) *)
Theorem C06_history_call_value : forall o ops m k,
  ops_ok 0 (ops ++ [HCall m k]) = true ->
  history_final o (ops ++ [HCall m k]) =
  history_final o ops ++ [meth_result o m (nth k (history_final o ops) [])].
Proof. exact history_call_value. Qed.

(* every array the caller holds -- a returned gradient / cost-gradient / sample, or a parameter
   vector it passed in -- keeps its contents through all later operations that are not the
   caller's own in-place update of that very array *)
Theorem C06_history_results_persist : forall o ops1 ops2 j,
  ops_ok 0 (ops1 ++ ops2) = true ->
  (j < length (history_final o ops1))%nat ->
  forallb (fun op => negb (touches j op)) ops2 = true ->
  nth j (history_final o (ops1 ++ ops2)) [] = nth j (history_final o ops1) [].
Proof. exact history_persists. Qed.

(* without in-place updates: one array per array-producing operation, the t-th being the parameter
   vector created / the result of the call made by the t-th such operation *)
Theorem C06_history_without_updates : forall o ops,
  ops_ok 0 ops = true ->
  forallb (fun op => match op with HAdd _ _ => false | _ => true end) ops = true ->
  history_final o ops = pure_results (meth_result o) ops [] /\
  length (history_final o ops) = length (filter produces ops).
Proof. exact history_without_updates. Qed.

(* the statement has teeth: a JointPrior that filled and returned ONE buffer allocated by its
   constructor (shared_final) fails it on two gradient calls, where the model of the code passes *)
Theorem C06_history_shared_buffer_refuted :
  exists comps n ops,
    partitions comps n /\ ops_ok 0 ops = true /\
    forallb (fun op => match op with HAdd _ _ => false | _ => true end) ops = true /\
    arrays_agree 0 (shared_final comps n ops) (spec_run (meth_result (OJoint comps n)) ops) = false /\
    arrays_agree 0 (history_final (OJoint comps n) ops) (spec_run (meth_result (OJoint comps n)) ops) = true.
Proof. exact shared_buffer_refuted. Qed.

(* non-vacuity: Gaussian on index 1, Exponential on index 0; the optimiser steps x in place between
   two gradient calls on the same array object, then accumulates into the first gradient *)
Example C06_history_example :
  let o := OJoint [mkComp KGauss [1#1] [2#1] [1%nat]; mkComp KExp [2#1] [0#1] [0%nat]]%Q 2 in
  let ops := [HNew [1#1; 3#1]; HCall MGrad 0; HAdd 0 [0#1; 2#1]; HCall MGrad 0; HValue 0; HCall MCostGrad 0;
              HAdd 1 [1#1; 1#1]; HCall (MSample [1#2; 3#1]) 0]%Q in
  ops_ok 0 ops = true /\
  map (map Qred) (history_final o ops) =
  [[1#1; 5#1]; [1#2; 1#2]; [-1#2; -1#1]; [1#2; 1#1]; [6#1; 2#1]]%Q.
Proof. cbv zeta. split; vm_compute; reflexivity. Qed.

Print Assumptions C06_history_refines_function_level.
Print Assumptions C06_history_call_value.
Print Assumptions C06_history_results_persist.
Print Assumptions C06_history_without_updates.
Print Assumptions C06_history_shared_buffer_refuted.
