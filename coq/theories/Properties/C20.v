(* C20 -- conditional approximation evaluates and samples the true 1-D conditionals.
   Property theorems only; every proof is `exact <lemma>`. *)
From Coq Require Import Reals List QArith.
From Coquelicot Require Import Coquelicot.
From IT Require Import RealModel.Trapezium Model.Conditional
                       Proofs.TrapeziumProofs Proofs.ConditionalProofs.
Import ListNotations.

Open Scope R_scope.

(* the transform is the quantile function of the linear density (1-d) + 2 d t on
   [0,1]: t = trapezium_full u d solves  (1-d) t + d t^2 = u  and lies in [0,1] *)
Theorem C20_trapezium_inverse_cdf : forall u d : R,
  0 <= u <= 1 -> -1 <= d <= 1 -> d <> 0 ->
  trap_cdf d (trapezium_full u d) = u /\ 0 <= trapezium_full u d <= 1.
Proof. intros u d Hu Hd H0. exact (conj (trapezium_full_cdf u d Hu Hd H0) (trapezium_full_range u d Hu Hd H0)). Qed.

(* trap_cdf d is the distribution function of the density trap_pdf d >= 0 on [0,1],
   and (|d| < 1) it is injective there, so the solution above is THE quantile *)
Theorem C20_trap_cdf_is_cdf : forall d : R, -1 <= d <= 1 ->
  (forall t, is_derive (trap_cdf d) t (trap_pdf d t)) /\
  (forall t, 0 <= t <= 1 -> 0 <= trap_pdf d t) /\
  trap_cdf d 0 = 0 /\ trap_cdf d 1 = 1.
Proof.
  intros d Hd. exact (conj (trap_cdf_derive d) (conj (fun t Ht => trap_pdf_nonneg d t Hd Ht) (trap_cdf_ends d))).
Qed.

Theorem C20_trap_cdf_injective : forall d t1 t2 : R,
  -1 < d < 1 -> 0 <= t1 <= 1 -> 0 <= t2 <= 1 -> trap_cdf d t1 = trap_cdf d t2 -> t1 = t2.
Proof. exact trap_cdf_injective. Qed.

(* the |dh| < 1e-5 branch: first-order formula, error at most dh^2 *)
Theorem C20_near_zero_branch_error : forall u d : R,
  0 <= u <= 1 -> Rabs d <= 1 / 2 -> d <> 0 ->
  Rabs (trapezium_near_zero u d - trapezium_full u d) <= d * d.
Proof. exact near_zero_branch_error_lemma. Qed.

Theorem C20_near_zero_range : forall u d : R,
  0 <= u <= 1 -> -1 <= d <= 1 -> 0 <= trapezium_near_zero u d <= 1.
Proof. exact trapezium_near_zero_range. Qed.

(* mass of the linear interpolant on a cell is mean * dx ... *)
Theorem C20_cell_mass : forall x0 dx p0 p1 : R, dx <> 0 ->
  is_RInt (interp x0 dx p0 p1) x0 (x0 + dx) ((p0 + p1) / 2 * dx).
Proof. exact cell_mass_lemma. Qed.

(* ... and with cell probability mean*dx/total and the transform above, the density
   of the sample at x is the interpolant / total: samples follow the interpolant *)
Theorem C20_sample_density : forall x0 dx p0 p1 total x : R,
  dx <> 0 -> p0 + p1 <> 0 -> total <> 0 ->
  let mean := (p0 + p1) / 2 in
  let d := (p1 - p0) / 2 / mean in
  (mean * dx / total) * (trap_pdf d ((x - x0) / dx) / dx) = interp x0 dx p0 p1 x / total.
Proof. exact cell_density_lemma. Qed.

Theorem C20_sample_in_cell_real : forall xk dxk t : R,
  0 <= dxk -> 0 <= t <= 1 -> xk <= cell_sample xk dxk t <= xk + dxk.
Proof. exact cell_sample_in_cell. Qed.

Close Scope R_scope.
Open Scope Q_scope.

(* the model's cell probabilities are mean*dx / sum, and sum to one *)
Theorem C20_weights_are_masses : forall x p k,
  (k < length (cell_means p))%nat -> (k < length (diffs x))%nat ->
  nth k (weights x p) 0 =
  (nth k (cell_means p) 0 * nth k (diffs x) 0) / Qsum (cell_masses x p).
Proof. exact weights_are_masses. Qed.

Theorem C20_weights_sum_to_one : forall x p,
  ~ Qsum (cell_masses x p) == 0 -> Qsum (weights x p) == 1.
Proof. exact weights_sum_to_one. Qed.

(* the pinned weights mean/dx are wrong on a non-uniform grid (D21) *)
Theorem C20_weights_refuted :
  exists x p, pls_valid x p = true /\
              Qlist_eqb (weights_pinned x p) (weights x p) = false /\
              Qlist_eqb (map Qred (weights x p)) [1 # 3; 2 # 3] = true /\
              Qlist_eqb (map Qred (weights_pinned x p)) [2 # 3; 1 # 3] = true.
Proof. exact weights_refuted_lemma. Qed.

(* |delta| <= 1 on non-negative tables, so the transform theorems apply *)
Theorem C20_delta_bound : forall a b, 0 <= a -> 0 <= b -> 0 < a + b ->
  -1 <= (1 # 2) * (b - a) / ((1 # 2) * (b + a)) /\ (1 # 2) * (b - a) / ((1 # 2) * (b + a)) <= 1.
Proof. exact delta_bound. Qed.

(* every sample lies in its cell, hence inside [x_0, x_last] *)
Theorem C20_sample_in_cell : forall x p k t,
  (forall k, (S k < length x)%nat -> 0 <= nth k (diffs x) 0) ->
  (S k < length x)%nat -> 0 <= t -> t <= 1 ->
  (nth k x 0 <= cell_point (cell_of x p k) t /\ cell_point (cell_of x p k) t <= nth (S k) x 0) /\
  (nth 0 x 0 <= cell_point (cell_of x p k) t /\
   cell_point (cell_of x p k) t <= nth (length x - 1) x 0).
Proof.
  intros x p k t Ha Hk H0 H1.
  exact (conj (cell_point_in_cell x p k t Hk (Ha k Hk) H0 H1) (sample_in_grid_range x p k t Ha Hk H0 H1)).
Qed.

(* the returned conditional is normalised under the quadrature the code uses, for
   any table (any func) *)
Theorem C20_normalised : forall x e, ~ simpson x e == 0 ->
  simpson x (normalise_by_simpson x e) == 1.
Proof. exact normalised_lemma. Qed.

(* the grid lies inside the range of the search points, for any func *)
Theorem C20_grid_inside_bounds : forall (func : Q -> Q) tol points gs lo hi,
  (3 <= length points)%nat -> (2 <= gs)%nat ->
  (forall x, In x points -> lo <= x /\ x <= hi) ->
  forall g, In g (fst (fst (evaluate_search func tol points gs))) -> lo <= g /\ g <= hi.
Proof. exact grid_inside_bounds_lemma. Qed.

Theorem C20_search_points_in_bounds : forall lo hi c n, (2 <= n)%nat ->
  lo <= hi -> lo <= c -> c <= hi ->
  forall x, In x (search_points lo hi c n) -> lo <= x /\ x <= hi.
Proof. exact search_points_in_bounds_lemma. Qed.

(* non-vacuity *)
Example C20_example_weights :
  map Qred (weights [0; 1; 3; 4] [0; 2; 2; 0]) = [1 # 6; 2 # 3; 1 # 6].
Proof. vm_compute. reflexivity. Qed.

Example C20_example_search :
  let f := fun x : Q => - (x * x) in
  let r := evaluate_search f (1 # 20) [-8; -4; 0; 4; 8] 5 in
  Qlist_eqb (fst (fst r)) [-181 # 64; -181 # 128; 0; 181 # 128; 181 # 64] = true.
Proof. vm_compute. reflexivity. Qed.

Print Assumptions C20_trapezium_inverse_cdf.
Print Assumptions C20_trap_cdf_is_cdf.
Print Assumptions C20_trap_cdf_injective.
Print Assumptions C20_near_zero_branch_error.
Print Assumptions C20_near_zero_range.
Print Assumptions C20_cell_mass.
Print Assumptions C20_sample_density.
Print Assumptions C20_sample_in_cell_real.
Print Assumptions C20_weights_are_masses.
Print Assumptions C20_weights_sum_to_one.
Print Assumptions C20_weights_refuted.
Print Assumptions C20_delta_bound.
Print Assumptions C20_sample_in_cell.
Print Assumptions C20_normalised.
Print Assumptions C20_grid_inside_bounds.
Print Assumptions C20_search_points_in_bounds.
