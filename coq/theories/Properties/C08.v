(* C08 -- parallel-tempering exchanges are correct and independent of scheduling.
   Property theorems only; every proof is `exact <lemma>`.
   Model: Model/Tempering.v (header comment maps parallel.py lines to definitions). *)
From Coq Require Import List Arith ZArith QArith Bool.
From IT Require Import Common.ExpBounds Common.Confluence Model.Tempering
  Proofs.TemperingPairsProofs Proofs.TemperingProofs Proofs.TemperingSysProofs
  Proofs.TemperingRealProofs.
From Coq Require Import Reals Qreals.
Import ListNotations.
Open Scope Q_scope.

(* ---- in every exchange round each chain takes part in at most one proposed pair ---- *)
Theorem C08_pairs_disjoint : forall (N : nat) (choices draws : list nat),
  let ps := fst (fst (tight_pairs N choices draws)) in
  NoDup (flatten ps) /\
  (forall x, In x (flatten ps) -> (x < N)%nat) /\
  (forall p, In p ps -> (fst p < snd p)%nat) /\
  (forall i, (occurrences i ps <= 1)%nat).
Proof. exact tight_pairs_disjoint. Qed.

Theorem C08_pairs_disjoint_uniform : forall (N : nat) (draws : list nat),
  let ps := fst (uniform_pairs N draws) in
  NoDup (flatten ps) /\
  (forall x, In x (flatten ps) -> (x < N)%nat) /\
  (forall i, (occurrences i ps <= 1)%nat).
Proof. exact uniform_pairs_disjoint. Qed.

(* the while loop of tight_pairs ends with no candidate left (fuel is adequate) *)
Theorem C08_pairs_loop_complete : forall N choices,
  snd (fst (tight_loop (length (candidate_pairs N)) (candidate_pairs N) choices [])) = [].
Proof. exact tight_pairs_loop_complete. Qed.

(* ---- the threshold is exp((beta_i - beta_j)(L_j - L_i)), L = stored/beta ---- *)
Theorem C08_swap_prob : forall u bi bj Li Lj pri prj : Q,
  ~ bi == 0 -> ~ bj == 0 -> pri == bi * Li -> prj == bj * Lj ->
  exists d, d == (bi - bj) * (Lj - Li) /\ swap_decide u bi bj pri prj = decide_accept u d.
Proof. exact swap_decide_exponent. Qed.

Theorem C08_swap_prob_temperatures : forall Ti Tj Li Lj pri prj : Q,
  ~ Ti == 0 -> ~ Tj == 0 -> pri == (1 / Ti) * Li -> prj == (1 / Tj) * Lj ->
  swap_exponent (1 / Ti) (1 / Tj) pri prj == (1 / Ti - 1 / Tj) * (Lj - Li).
Proof. exact swap_exponent_temperatures. Qed.

(* over the reals (soundness of the rational exp bounds): whenever the model decides,
   the decision is  u <= exp((beta_i - beta_j)(L_j - L_i)) *)
Theorem C08_swap_prob_real : forall (u bi bj Li Lj pri prj : Q) (b : bool),
  ~ bi == 0 -> ~ bj == 0 -> pri == bi * Li -> prj == bj * Lj ->
  swap_decide u bi bj pri prj = Some b ->
  (b = true <-> (Q2R u <= exp ((Q2R bi - Q2R bj) * (Q2R Lj - Q2R Li)))%R).
Proof. exact swap_decision_real_le. Qed.

(* ---- after an accepted exchange ---- *)
Theorem C08_exchange_state : forall (take_step : chain -> chain) cs i j ci cj xi pi oi xj pj oj,
  i <> j -> nth_error cs i = Some ci -> nth_error cs j = Some cj ->
  c_hist ci = (xi, pi) :: oi -> c_hist cj = (xj, pj) :: oj ->
  let cs' := exchange take_step cs i j in
  (exists ci', nth_error cs' i = Some ci' /\
      c_hist ci' = (xj, (pj / c_beta cj) * c_beta ci) :: oi /\ c_beta ci' = c_beta ci) /\
  (exists cj', nth_error cs' j = Some cj' /\
      c_hist cj' = (xi, (pi / c_beta ci) * c_beta cj) :: oj /\ c_beta cj' = c_beta cj) /\
  (forall k, k <> i -> k <> j -> nth_error cs' k = nth_error cs k) /\
  length cs' = length cs.
Proof. exact exchange_state. Qed.

(* stored probability = beta * logp(stored point) is preserved, for every chain *)
Theorem C08_exchange_aligned : forall (take_step : chain -> chain) (logp : point -> Q) cs i j ci cj,
  i <> j -> nth_error cs i = Some ci -> nth_error cs j = Some cj ->
  ~ c_beta ci == 0 -> ~ c_beta cj == 0 ->
  c_hist ci <> [] -> c_hist cj <> [] ->
  aligned logp ci -> aligned logp cj ->
  forall k c, nth_error cs k = Some c -> aligned logp c ->
  forall c', nth_error (exchange take_step cs i j) k = Some c' -> aligned logp c'.
Proof. exact exchange_aligned. Qed.

(* a whole round: update messages go to exactly the members of the accepted pairs,
   one each; nobody else is sent anything (so unexchanged chains are untouched) *)
Theorem C08_swap_round_messages : forall betas data pairs st ms st',
  NoDup (flatten pairs) ->
  swap_pairs betas data pairs st = (ms, st') ->
  NoDup (map fst ms) /\
  exists acc, cs_succ st' = cs_succ st ++ acc /\ incl acc pairs /\ map fst ms = flatten acc.
Proof. exact swap_round_messages. Qed.

(* ---- advance(n, swap_interval) ---- *)
Theorem C08_advance_total : forall n s : nat, (0 < s)%nat ->
  total_steps (advance_plan n s) = n /\ swap_rounds (advance_plan n s) = (n / s)%nat.
Proof. exact advance_total. Qed.

Theorem C08_advance_shape : forall n s : nat, (0 < s)%nat ->
  advance_plan n s =
  cycles_of s (n / s) ++ (if (n mod s =? 0)%nat then [] else [TakeSteps (n mod s)]).
Proof. exact advance_plan_shape. Qed.

(* ---- scheduling ---- *)
Theorem C08_steps_diamond :
  forall (M Rp W Res : Type) (hdl : nat -> M -> W -> W * list Rp) (N : nat)
         (s a b : sys M Rp W Res),
    step hdl N s a -> step hdl N s b ->
    seq_sys a b \/ exists c c', step hdl N a c /\ step hdl N b c' /\ seq_sys c c'.
Proof. exact steps_diamond. Qed.

Theorem C08_schedule_independent :
  forall (M Rp W Res : Type) (hdl : nat -> M -> W -> W * list Rp) (N : nat)
         (n m : nat) (s t1 t2 : sys M Rp W Res),
    steps (step hdl N) n s t1 -> terminal (step hdl N) t1 ->
    steps (step hdl N) m s t2 -> terminal (step hdl N) t2 ->
    n = m /\ seq_sys t1 t2.
Proof. exact schedule_independent. Qed.

Theorem C08_schedule_independent_pt :
  forall (take_step : chain -> chain) chains calls choices draws unis n m t1 t2,
    let N := length chains in
    let hd := fun (_ : nat) => handle take_step in
    let s := pt_init chains calls choices draws unis in
    steps (step hd N) n s t1 -> terminal (step hd N) t1 ->
    steps (step hd N) m s t2 -> terminal (step hd N) t2 ->
    n = m /\ co t1 = co t2 /\ (forall i, ws t1 i = ws t2 i).
Proof. exact pt_schedule_independent. Qed.

(* the sequential reference run evaluated by the correspondence check decides
   the result of every schedule, and bounds the length of every schedule *)
Theorem C08_reference_run_decides :
  forall (M Rp W Res : Type) (hdl : nat -> M -> W -> W * list Rp) (N : nat)
         cf order fuel (s t : sys M Rp W Res) n,
    (forall i, In i order -> (i < N)%nat) ->
    run hdl cf order fuel s = (t, n) -> stuck N t = true ->
    forall m t2, steps (step hdl N) m s t2 ->
      (m <= n)%nat /\
      (terminal (step hdl N) t2 -> m = n /\ co t2 = co t /\ forall i, ws t2 i = ws t i).
Proof. exact reference_run_decides. Qed.

(* ---- defect D9 of the pinned tree: return_chains() blocks under every schedule ---- *)
Theorem C08_return_chains_pinned_refuted :
  forall m t2, steps (step d9_handler 1) m d9_sys t2 -> terminal (step d9_handler 1) t2 ->
  forall r, co t2 <> Done r.
Proof. exact return_chains_pinned_refuted. Qed.

(* ---- shutdown ---- *)
Theorem C08_shutdown_terminates : forall (take_step : chain -> chain) (w : wproc),
  let w' := Nat.iter 4 (wstep take_step true) w in
  pc w' = Exited /\
  (handled w' <= S (handled w))%nat /\
  ((forall m, pc w <> L4 m) -> w_chain w' = w_chain w /\ handled w' = handled w) /\
  (forall inb, w_chain (Nat.iter 4 (wstep take_step true) (with_inbox w inb)) = w_chain w' /\
               pc (Nat.iter 4 (wstep take_step true) (with_inbox w inb)) = Exited).
Proof. exact shutdown_terminates. Qed.

(* ---- non-vacuity: three chains, advance(3, swap_interval=2) then return_chains:
   the run completes, one pair is proposed and exchanged, every chain has 3 more
   samples, and the hypotheses of the schedule theorems are met by this run ---- *)
Definition ex_chain (b : Q) : chain :=
  mkChain b [([1], Qmult (-1) b)]
          [([1], -5); ([1], -5); ([-1], -5); ([-1], -5)] [(1, 0)] false.
Definition ex_sys := pt_init [ex_chain 1; ex_chain (1#2); ex_chain (1#4)]
                             [CAdvance 3 2; CReturnChains] [0; 1; 2; 3]%nat [1; 1; 1; 1]%nat
                             [1#2; 1#2; 1#2].
Example C08_example :
  let '(t, n) := run pt_handler true [0; 1; 2]%nat 1000 ex_sys in
  n = 40%nat /\ stuck 3 t = true /\
  match co t with
  | Done (Finished st) =>
      cs_att st = [(0, 1)%nat] /\ cs_succ st = [(0, 1)%nat] /\
      map (fun c => length (c_hist c)) (hd [] (cs_snaps st)) = [4; 4; 4]%nat
  | _ => False
  end.
Proof. vm_compute. repeat split; reflexivity. Qed.

Print Assumptions C08_pairs_disjoint.
Print Assumptions C08_pairs_disjoint_uniform.
Print Assumptions C08_pairs_loop_complete.
Print Assumptions C08_swap_prob.
Print Assumptions C08_swap_prob_temperatures.
Print Assumptions C08_swap_prob_real.
Print Assumptions C08_exchange_state.
Print Assumptions C08_exchange_aligned.
Print Assumptions C08_swap_round_messages.
Print Assumptions C08_advance_total.
Print Assumptions C08_advance_shape.
Print Assumptions C08_steps_diamond.
Print Assumptions C08_schedule_independent.
Print Assumptions C08_schedule_independent_pt.
Print Assumptions C08_reference_run_decides.
Print Assumptions C08_return_chains_pinned_refuted.
Print Assumptions C08_shutdown_terminates.
