(* C17Repr -- supports C17 ("for all ... hyper-parameter values ... the reported gradient is the
   true gradient") with respect to the REPRESENTATION of the hyper-parameter vector: float64
   array, integer array, list / tuple of Python ints or floats.  Property theorems only; every
   proof is `exact <lemma>` (Proofs/InversionReprProofs.v; model Model/InversionRepr.v).

     * C17_repr_values_only       every method is a function of the VALUES handed over: two
                                  representations of the same values give the same result;
     * C17_repr_as_float          the float64 array of the same values is such a representation;
     * C17_repr_gradient_exact    the gradient is reported as computed (it is written into a
                                  float buffer whatever the storage class of theta), hence
     * C17_repr_gradient_values_only  independent of the representation;
     * C17_repr_trunc             writing into an integer buffer keeps whole numbers and moves
                                  anything else by less than one;
     * C17_repr_like_float_ok / C17_repr_like_refuted  a buffer with the storage class of theta
                                  (`zeros_like(theta)`) is right for float vectors -- all the
                                  test-suite uses -- and wrong for array([2, 0, -1]).
   The run (harness/props/c17.py, stream `representations`) hands every method integer arrays,
   lists and tuples and evaluates check_lin and check_typed on what comes back. *)
From Coq Require Import List ZArith QArith Qabs.
From IT Require Import Model.InversionRepr Proofs.InversionReprProofs.
Import ListNotations.

Theorem C17_repr_values_only : forall (T : Type) (F : list Q -> T) t1 t2,
  map val t1 = map val t2 -> eval_at F t1 = eval_at F t2.
Proof. exact eval_values_only. Qed.

Theorem C17_repr_as_float : forall t,
  map val (as_float t) = map val t /\ store_of (as_float t) = SFloat.
Proof. intros t. split; [exact (as_float_values t) | exact (as_float_store t)]. Qed.

Theorem C17_repr_gradient_exact : forall G t, gradient_reported grad_buffer G t = G (map val t).
Proof. exact gradient_exact. Qed.

Theorem C17_repr_gradient_values_only : forall G t1 t2, map val t1 = map val t2 ->
  gradient_reported grad_buffer G t1 = gradient_reported grad_buffer G t2.
Proof. exact gradient_values_only. Qed.

Theorem C17_repr_trunc : forall x z,
  trunc (inject_Z z) = inject_Z z /\ (Qabs (x - trunc x) < 1)%Q.
Proof. intros x z. split; [exact (trunc_whole z) | exact (trunc_error x)]. Qed.

Theorem C17_repr_like_float_ok : forall G t, store_of t = SFloat ->
  gradient_reported grad_buffer_like G t = G (map val t).
Proof. exact gradient_like_float. Qed.

Theorem C17_repr_like_refuted :
  exists (G : list Q -> list Q) (t : list num),
    gradient_reported grad_buffer_like G t <> G (map val t)
    /\ gradient_reported grad_buffer_like G (as_float t) = G (map val t)
    /\ gradient_reported grad_buffer G t = G (map val t).
Proof. exact gradient_like_refuted. Qed.

(* non-vacuity: an integer vector and its float twin *)
Example C17_repr_example :
  let t := [NInt 2; NInt 0; NInt (-1)] in
  store_of t = SInt /\ store_of (as_float t) = SFloat /\ map val t = [2%Q; 0%Q; (-1)%Q].
Proof. repeat split. Qed.

Print Assumptions C17_repr_values_only.
Print Assumptions C17_repr_as_float.
Print Assumptions C17_repr_gradient_exact.
Print Assumptions C17_repr_gradient_values_only.
Print Assumptions C17_repr_trunc.
Print Assumptions C17_repr_like_float_ok.
Print Assumptions C17_repr_like_refuted.
