(* C16 (analysis half) -- GP derivative predictions are the derivatives of the GP
   prediction.  Property theorems only; every proof is `exact <lemma>`
   (Proofs/SeGradientProofs.v).  Coq's real numbers, Coquelicot `is_derive`; any
   number of dimensions d, any number of training points, any query point q.
   "derivative with respect to q_i" = derivative of t |-> f (upd q i t) at t = q_i.

   The matrix half (Properties/C16.v) shows that entry i of what the code returns
   is the sum `grad_mean_R` / `dvar_R` below with alpha = (K_xx+S)^-1 (y - mu) and
   W = (K_xx+S)^-1; this half shows that those sums are the derivatives of the
   predictive mean  K_qx alpha + m(q)  and of the predictive variance
   K_qq - K_qx W K_xq  (the closed forms of C02). *)
From Coq Require Import Reals List Arith QArith.
From Coquelicot Require Import Coquelicot.
From IT Require Import Model.Slices RealModel.Kernels RealModel.Means RealModel.SeGradient.
From IT Require Import Proofs.SeGradientProofs.
From IT Require Import Matrix.MxOps Matrix.ListOps Matrix.Derivatives Matrix.DerivativesCheck.
Import ListNotations.
Open Scope R_scope.

(* SquaredExponential.gradient_terms: d k(q, x)/d q_i = A_i k(q, x),  A_i = (x_i - q_i)/l_i^2 *)
Theorem C16_se_cross_derivative : forall d th (q x : pt) i, (i < d)%nat -> (i < length q)%nat ->
  is_derive (fun t => se_val d th (upd q i t) x) (coord q i) (se_A th x q i * se_val d th q x).
Proof. exact se_cross_derivative. Qed.

(* prior covariance of the gradient: cov(df/du_i, df/dv_j) = d^2 k/du_i dv_j, which at
   v = u is delta_ij a^2 / l_i^2 = diag(R) with the code's R *)
Theorem C16_se_prior_gradient_cov : forall d th (u v : pt) i j,
  (i < d)%nat -> (j < d)%nat -> (i < length u)%nat -> (j < length v)%nat ->
  is_derive (fun t => se_val d th (upd u i t) v) (coord u i) (se_d1 d th u v i)
  /\ is_derive (fun t => se_d1 d th u (upd v j t) i) (coord v j) (se_d2 d th u v i j)
  /\ se_d2 d th u u i j = delta i j * se_R th i.
Proof.
  intros d th u v i j Hi Hj Hu Hv. split; [|split].
  - exact (se_val_derive_u d th u v i Hi Hu).
  - exact (se_second_cross_derivative d th u v i j Hi Hj Hv).
  - exact (se_prior_gradient_cov d th u i j).
Qed.

(* spatial gradients of the three mean functions (mean.py, repaired tree) *)
Theorem C16_mean_function_derivatives : forall d xs th (q : pt) i, (i < d)%nat -> (i < length q)%nat ->
  is_derive (fun t => const_call xs th (upd q i t)) (coord q i) (dmean_const_R i)
  /\ is_derive (fun t => lin_call d xs th (upd q i t)) (coord q i) (dmean_lin_R th i)
  /\ is_derive (fun t => quad_call d xs th (upd q i t)) (coord q i) (dmean_quad_R d xs th q i).
Proof.
  intros d xs th q i Hd Hq. split; [|split].
  - exact (dmean_const_derive xs th q i).
  - exact (dmean_lin_derive d xs th q i Hd Hq).
  - exact (dmean_quad_derive d xs th q i Hd Hq).
Qed.

(* the gradient mean is the derivative of the predictive mean  K_qx alpha + m(q),
   INCLUDING the mean function's contribution -- for any differentiable mean function *)
Theorem C16_dmean_is_derivative : forall d th xs alpha (m : pt -> R) (q : pt) i dm,
  (i < d)%nat -> (i < length q)%nat ->
  is_derive (fun t => m (upd q i t)) (coord q i) dm ->
  is_derive (fun t => pmean (se_val d th) m xs alpha (upd q i t)) (coord q i)
            (grad_mean_R (length xs) (fun i j => se_A th (point xs j) q i)
                         (fun j => se_val d th q (point xs j)) alpha (fun _ => dm) i).
Proof. exact se_grad_mean_is_derivative. Qed.

(* ... instantiated at the three mean functions of the library *)
Theorem C16_dmean_is_derivative_library_means : forall d th mth xs alpha (q : pt) i,
  (i < d)%nat -> (i < length q)%nat ->
  let Aq := fun i j => se_A th (point xs j) q i in
  let K := fun j => se_val d th q (point xs j) in
  is_derive (fun t => pmean (se_val d th) (const_call xs mth) xs alpha (upd q i t)) (coord q i)
            (grad_mean_R (length xs) Aq K alpha dmean_const_R i)
  /\ is_derive (fun t => pmean (se_val d th) (lin_call d xs mth) xs alpha (upd q i t)) (coord q i)
            (grad_mean_R (length xs) Aq K alpha (dmean_lin_R mth) i)
  /\ is_derive (fun t => pmean (se_val d th) (quad_call d xs mth) xs alpha (upd q i t)) (coord q i)
            (grad_mean_R (length xs) Aq K alpha (dmean_quad_R d xs mth q) i).
Proof.
  intros d th mth xs alpha q i Hd Hq Aq K. split; [|split].
  - exact (se_grad_mean_is_derivative d th xs alpha _ q i _ Hd Hq (dmean_const_derive xs mth q i)).
  - exact (se_grad_mean_is_derivative d th xs alpha _ q i _ Hd Hq (dmean_lin_derive d xs mth q i Hd Hq)).
  - exact (se_grad_mean_is_derivative d th xs alpha _ q i _ Hd Hq (dmean_quad_derive d xs mth q i Hd Hq)).
Qed.

(* the reported derivative of the variance is the derivative of K_qq - K_qx W K_xq
   (W symmetric, e.g. the inverse of the symmetric K_xx + S) *)
Theorem C16_dvar_is_derivative : forall d th xs (W : nat -> nat -> R) (q : pt) i,
  (i < d)%nat -> (i < length q)%nat -> (forall j l, W j l = W l j) ->
  is_derive (fun t => pvar (se_val d th) xs W (upd q i t)) (coord q i)
            (dvar_R (length xs) (fun i j => se_A th (point xs j) q i)
                    (fun j => se_val d th q (point xs j)) W i).
Proof. exact se_dvar_is_derivative. Qed.

(* the same two facts for ANY kernel whose derivative in q_i is known (what a second
   kernel supporting gradient_terms would have to provide) *)
Theorem C16_generic_kernel : forall (k : pt -> pt -> R) (m : pt -> R) xs alpha (W : nat -> nat -> R)
    (q : pt) i (dk : nat -> R) dm dkqq,
  (forall j l, W j l = W l j) ->
  (forall j, (j < length xs)%nat ->
     is_derive (fun t => k (upd q i t) (point xs j)) (coord q i) (dk j)) ->
  is_derive (fun t => m (upd q i t)) (coord q i) dm ->
  is_derive (fun t => k (upd q i t) (upd q i t)) (coord q i) dkqq ->
  is_derive (fun t => pmean k m xs alpha (upd q i t)) (coord q i)
            (Rsum (seq 0 (length xs)) (fun j => dk j * alpha j) + dm)
  /\ is_derive (fun t => pvar k xs W (upd q i t)) (coord q i)
            (dkqq - 2 * Rsum (seq 0 (length xs)) (fun j =>
                          dk j * Rsum (seq 0 (length xs)) (fun l => W j l * k q (point xs l)))).
Proof.
  intros k m xs alpha W q i dk dm dkqq HW Hk Hm Hqq. split.
  - exact (pmean_derive k m xs alpha q i dk dm Hk Hm).
  - exact (pvar_derive k xs W q i dk dkqq HW Hk Hqq).
Qed.

(* ---- non-vacuity: the hypotheses are met (d = 2, a point with two coordinates) ---- *)
Example C16_hypotheses_met :
  (1 < 2)%nat /\ (1 < length [0; 1])%nat /\ (forall j l : nat, (fun _ _ => 1) j l = (fun _ _ => 1) l j).
Proof. repeat split; auto. Qed.

(* ---- the pinned defects, executed on a concrete witness (ListOps, vm_compute) ------------ *)
(* D15: R - Q^T Q with R broadcast as a row is not symmetric; diag(R) - Q^T Q is *)
Theorem C16_grad_cov_asym_refuted_witness :
  is_sym 2 (@grad_cov_pinned ListOps 2 2 witness_L witness_A witness_K witness_R) = false
  /\ is_sym 2 (@grad_cov ListOps 2 2 witness_L witness_A witness_K witness_R) = true.
Proof. split; vm_compute; reflexivity. Qed.

(* D14: with a linear mean function the pinned gradient mean lacks theta[1:] *)
Theorem C16_dmean_linear_refuted_witness :
  qmat_eqb (@grad_mean_pinned ListOps 2 2 witness_A witness_K witness_alpha
                              (@dmean_linear ListOps 2 witness_thlin))
           (@grad_mean ListOps 2 2 witness_A witness_K witness_alpha
                       (@dmean_linear ListOps 2 witness_thlin)) = false
  /\ qmat_eqb (@msub ListOps 2 1
                 (@grad_mean ListOps 2 2 witness_A witness_K witness_alpha
                             (@dmean_linear ListOps 2 witness_thlin))
                 (@grad_mean_pinned ListOps 2 2 witness_A witness_K witness_alpha
                                    (@dmean_linear ListOps 2 witness_thlin)))
              witness_thlin = true.
Proof. split; vm_compute; reflexivity. Qed.

Print Assumptions C16_se_cross_derivative.
Print Assumptions C16_se_prior_gradient_cov.
Print Assumptions C16_mean_function_derivatives.
Print Assumptions C16_dmean_is_derivative.
Print Assumptions C16_dmean_is_derivative_library_means.
Print Assumptions C16_dvar_is_derivative.
Print Assumptions C16_generic_kernel.
Print Assumptions C16_grad_cov_asym_refuted_witness.
Print Assumptions C16_dmean_linear_refuted_witness.
