(* C10 -- covariance and mean functions are valid and their gradients are exact.
   Property theorems only; every proof is `exact <lemma>` (or a conjunction of them).

   Models: RealModel/Kernels.v (kernel = record of __call__ entry `kval`, build_covariance
   entry `kbuild`, gradient entry `kgrad`, documented diagonal term `kdiag`), RealModel/Means.v,
   Model/Slices.v.  grad_ok K says: for every data set, every admissible theta of length
   n_params, every p < n_params and every entry (i,j), gradient matrix number p is the
   derivative of the covariance w.r.t. theta[p] (flat index: so the gradients of composites
   are in the order of the flat hyper-parameter vector).

   NOT proved: positive semi-definiteness of the squared-exponential and rational-quadratic
   base kernels themselves (classical: Bochner / Schur products); it is the hypothesis
   `kpsd (se d)` / `kpsd (rq d)` of C10_psd_builder_base.  No axiom is introduced for it. *)
From Coq Require Import Reals List Arith Lia Lra String QArith.
From Coquelicot Require Import Coquelicot.
From IT Require Import Model.Slices RealModel.Kernels RealModel.Means
  Proofs.SlicesProofs Proofs.KernelsProofs Proofs.PsdProofs Proofs.MeansProofs Proofs.ChangePointRefuted.
Import ListNotations.
Open Scope R_scope.

(* ---- symmetry: __call__, build_covariance and every gradient matrix ---- *)
Theorem C10_symmetry_base : forall d n, sym3 (se d) /\ sym3 (rq d) /\ sym3 wn /\ sym3 (hn n).
Proof. intros d n. exact (conj (se_sym3 d) (conj (rq_sym3 d) (conj wn_sym3 (hn_sym3 n)))). Qed.

Theorem C10_symmetry_sum : forall ks, List.Forall sym3 ks -> sym3 (ksum ks).
Proof. exact sum_sym3. Qed.

Theorem C10_symmetry_changepoint : forall axis ks, List.Forall sym3 ks -> sym3 (kcp axis ks).
Proof. exact cp_sym3. Qed.

(* ---- gradients are the partial derivatives ---- *)
Theorem C10_se_gradient : forall d, grad_ok (se d).
Proof. exact se_grad_ok. Qed.

Theorem C10_rq_gradient : forall d, grad_ok (rq d).
Proof. exact rq_grad_ok. Qed.

Theorem C10_noise_gradients : forall n, grad_ok wn /\ grad_ok (hn n).
Proof. intros n. exact (conj wn_grad_ok (hn_grad_ok n)). Qed.

Theorem C10_sum_gradient : forall ks, List.Forall grad_ok ks -> grad_ok (ksum ks).
Proof. exact sum_grad_ok. Qed.

(* any number of kernels, any (nested) kernels with correct gradients, kernel parameters and
   change-point locations / widths alike; REPAIRED formula (fixes/D13) *)
Theorem C10_changepoint_gradient : forall axis ks, List.Forall grad_ok ks -> grad_ok (kcp axis ks).
Proof. exact cp_grad_ok. Qed.

Theorem C10_mean_gradients : forall d, mgrad_ok const_mean /\ mgrad_ok (lin_mean d) /\ mgrad_ok (quad_mean d).
Proof. intros d. exact (conj const_mgrad_ok (conj (lin_mgrad_ok d) (quad_mgrad_ok d))). Qed.

Theorem C10_mean_build_eq_call : forall d,
  mbuild_eq_call const_mean /\ mbuild_eq_call (lin_mean d) /\ mbuild_eq_call (quad_mean d).
Proof. intros d. exact (conj const_build_eq_call (conj (lin_build_eq_call d) (quad_build_eq_call d))). Qed.

(* ---- build_covariance = pairwise __call__ + diagonal terms (jitter a^2 1e-12, noise variances) ---- *)
Theorem C10_builder_eq_pairwise_base : forall d n, bep (se d) /\ bep (rq d) /\ bep wn /\ bep (hn n).
Proof. intros d n. exact (conj (se_bep d) (conj (rq_bep d) (conj wn_bep (hn_bep n)))). Qed.

Theorem C10_builder_eq_pairwise_sum : forall ks, List.Forall bep ks -> bep (ksum ks).
Proof. exact sum_bep. Qed.

Theorem C10_builder_eq_pairwise_changepoint : forall axis ks, List.Forall bep ks -> bep (kcp axis ks).
Proof. exact cp_bep. Qed.

(* ---- positive semi-definiteness is closed under the combinations ---- *)
Theorem C10_psd_closed :
  (forall (A : Type) (k1 k2 : A -> A -> R), psd k1 -> psd k2 -> psd (fun a b => k1 a b + k2 a b))
  /\ (forall (A : Type) (k : A -> A -> R) (g : A -> R), psd k -> psd (fun a b => k a b * (g a * g b)))
  /\ (forall d : nat -> R, (forall i, 0 <= d i) -> psd (fun i j : nat => d i * delta i j))
  /\ (forall (A B : Type) (k : B -> B -> R) (f : A -> B), psd k -> psd (fun a b => k (f a) (f b))).
Proof.
  exact (conj (fun A => @psd_plus A) (conj (fun A => @psd_gg A) (conj psd_diag_nat (fun A B => @psd_pull A B)))).
Qed.

Theorem C10_psd_builder_base : forall d n,
  (kpsd (se d) -> bpsd (se d)) /\ (kpsd (rq d) -> bpsd (rq d))
  /\ kpsd wn /\ bpsd wn /\ kpsd (hn n) /\ bpsd (hn n).
Proof.
  intros d n.
  exact (conj (se_bpsd d) (conj (rq_bpsd d) (conj wn_kpsd (conj wn_bpsd (conj (hn_kpsd n) (hn_bpsd n)))))).
Qed.

Theorem C10_psd_builder_sum : forall ks,
  (List.Forall kpsd ks -> kpsd (ksum ks)) /\ (List.Forall bpsd ks -> bpsd (ksum ks)).
Proof. intros ks. exact (conj (sum_kpsd ks) (sum_bpsd ks)). Qed.

Theorem C10_psd_builder_changepoint : forall axis ks,
  (List.Forall kpsd ks -> kpsd (kcp axis ks)) /\ (List.Forall bpsd ks -> bpsd (kcp axis ks)).
Proof. intros axis ks. exact (conj (cp_kpsd axis ks) (cp_bpsd axis ks)). Qed.

(* ---- slices, labels, bounds ---- *)
Theorem C10_slices_partition : forall (lens : list nat) (l : list R), List.length l = total lens ->
  List.concat (map (fun s => apply_slice s l) (slice_builder lens)) = l
  /\ List.length (slice_builder lens) = List.length lens
  /\ (forall m, (m < List.length lens)%nat ->
        List.length (apply_slice (nth m (slice_builder lens) (0, 0)%nat) l) = nth m lens 0%nat)
  /\ (forall m, (S m < List.length lens)%nat ->
        snd (nth m (slice_builder lens) (0, 0)%nat) = fst (nth (S m) (slice_builder lens) (0, 0)%nat))
  /\ ((0 < List.length lens)%nat -> fst (nth 0 (slice_builder lens) (0, 0)%nat) = 0%nat
        /\ snd (nth (List.length lens - 1) (slice_builder lens) (0, 0)%nat) = total lens).
Proof. exact (@slices_partition R). Qed.

Theorem C10_composite_concatenates : forall cs m, List.Forall wf cs -> (m < List.length cs)%nat ->
  let s := nth m (composite_slices cs) (0, 0)%nat in
  c_np (composite cs) = total (map c_np cs)
  /\ List.length (c_labels (composite cs)) = c_np (composite cs)
  /\ List.length (c_bounds (composite cs)) = c_np (composite cs)
  /\ (snd s - fst s)%nat = c_np (nth m cs (mkComp 0 [] []))
  /\ apply_slice s (c_labels (composite cs))
     = map (fun l => (composite_pre m ++ l)%string) (c_labels (nth m cs (mkComp 0 [] [])))
  /\ apply_slice s (c_bounds (composite cs)) = c_bounds (nth m cs (mkComp 0 [] [])).
Proof. exact composite_concatenates. Qed.

Theorem C10_changepoint_concatenates : forall cs loc wid, List.Forall wf cs ->
  List.length loc = (List.length cs - 1)%nat -> List.length wid = (List.length cs - 1)%nat ->
  let K := changepoint cs loc wid in
  let nk := total (map c_np cs) in
  c_np K = (nk + 2 * (List.length cs - 1))%nat
  /\ List.length (c_labels K) = c_np K /\ List.length (c_bounds K) = c_np K
  /\ (forall m, (m < List.length cs)%nat ->
        let s := nth m (cp_cov_slc cs) (0, 0)%nat in
        (snd s - fst s)%nat = c_np (nth m cs (mkComp 0 [] []))
        /\ apply_slice s (c_labels K) = map (fun l => (cp_pre m ++ l)%string) (c_labels (nth m cs (mkComp 0 [] [])))
        /\ apply_slice s (c_bounds K) = c_bounds (nth m cs (mkComp 0 [] [])))
  /\ (forall m, (m < List.length cs - 1)%nat ->
        let s := nth m (cp_cp_slc cs) (0, 0)%nat in
        s = (nk + 2 * m, nk + 2 * m + 2)%nat
        /\ apply_slice s (c_labels K) = cp_point_labels m
        /\ apply_slice s (c_bounds K) = [nth m loc (0, 0)%Q; nth m wid (0, 0)%Q]).
Proof. exact changepoint_concatenates. Qed.

(* gradient number (start of slice m) + p of a sum is gradient p of component m on its slice *)
Theorem C10_sum_value_gradients_in_order : forall ks dk xs th m p i j,
  (m < List.length ks)%nat -> (p < np (nth m ks dk))%nat ->
  let s := nth m (sum_slices ks) (0, 0)%nat in
  fst s = total (firstn m (map np ks))
  /\ kgrad (ksum ks) xs th (fst s + p) i j = kgrad (nth m ks dk) xs (apply_slice s th) p i j
  /\ kbuild (ksum ks) xs th i j = lsum (each ks (sum_slices ks) (fun k t => kbuild k xs t i j) th).
Proof.
  intros ks dk xs th m p i j Hm Hp. cbv zeta.
  assert (Hs : nth m (sum_slices ks) (0, 0)%nat
               = (0 + total (firstn m (map np ks)), 0 + total (firstn (S m) (map np ks)))%nat).
  { unfold sum_slices. rewrite slice_builder_from. apply slices_from_nth. now rewrite map_length. }
  split; [now rewrite Hs|]. split; [|reflexivity].
  cbn [kgrad ksum]. rewrite Hs. cbn [fst]. rewrite !Nat.add_0_l. unfold sum_slices. rewrite slice_builder_from.
  rewrite (sum_grad_nth ks dk 0 xs th m p i j Hm Hp).
  rewrite slices_from_nth by (now rewrite map_length). now rewrite !Nat.add_0_l.
Qed.

(* ---- the pinned change-point gradient (defect D13) ---- *)
Theorem C10_changepoint_grad_pinned_two_kernels : forall axis k1 k2,
  grad_ok k1 -> grad_ok k2 -> grad_ok (kcp_pinned axis [k1; k2]).
Proof. exact changepoint_grad_pinned_two_kernels. Qed.

Theorem C10_changepoint3_grad_refuted :
  exists xs th p i j, let K := kcp_pinned 0 [se 1; se 1; se 1] in
    List.length th = np K /\ (p < np K)%nat /\ kok K th /\
    ~ is_derive (fun t => kbuild K xs (upd th p t) i j) (par th p) (kgrad K xs th p i j).
Proof. exact changepoint3_grad_refuted. Qed.

(* non-vacuity: a nested kernel whose components satisfy every hypothesis; its gradient
   theorem applies to an admissible theta *)
Example C10_example :
  let K := ksum [se 2; kcp 0 [rq 2; ksum [se 2; wn]; se 2]; hn 3] in
  grad_ok K /\ sym3 K /\ bep K /\ np K = 21%nat
  /\ kok K [0;0;0; 0;0;0;0; 0;0;0;0; 0;0;0; 0;1;0;1; 0;0;0].
Proof.
  cbv zeta. split; [|split; [|split; [|split]]].
  - apply sum_grad_ok. repeat (apply Forall_cons || apply Forall_nil);
      [apply se_grad_ok| |apply hn_grad_ok].
    apply cp_grad_ok. repeat (apply Forall_cons || apply Forall_nil);
      [apply rq_grad_ok| |apply se_grad_ok].
    apply sum_grad_ok. repeat (apply Forall_cons || apply Forall_nil); [apply se_grad_ok|apply wn_grad_ok].
  - apply sum_sym3. repeat (apply Forall_cons || apply Forall_nil);
      [apply se_sym3| |apply hn_sym3].
    apply cp_sym3. repeat (apply Forall_cons || apply Forall_nil);
      [apply rq_sym3| |apply se_sym3].
    apply sum_sym3. repeat (apply Forall_cons || apply Forall_nil); [apply se_sym3|apply wn_sym3].
  - apply sum_bep. repeat (apply Forall_cons || apply Forall_nil);
      [apply se_bep| |apply hn_bep].
    apply cp_bep. repeat (apply Forall_cons || apply Forall_nil);
      [apply rq_bep| |apply se_bep].
    apply sum_bep. repeat (apply Forall_cons || apply Forall_nil); [apply se_bep|apply wn_bep].
  - reflexivity.
  - cbv -[Rplus Rminus Rmult Ropp Rdiv Rinv exp ln pow IZR Rabs Rle Rlt not].
    repeat split; try exact I. repeat constructor; cbn [snd]; lra.
Qed.

Print Assumptions C10_symmetry_changepoint.
Print Assumptions C10_changepoint_gradient.
Print Assumptions C10_rq_gradient.
Print Assumptions C10_psd_builder_changepoint.
Print Assumptions C10_changepoint_concatenates.
Print Assumptions C10_changepoint3_grad_refuted.
