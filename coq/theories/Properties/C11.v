(* C11 -- GP model-selection scores (marginal likelihood, leave-one-out) and their
   gradients are what they claim to be; automatic hyper-parameter selection.
   Property theorems only; every proof is `exact <lemma>` (Proofs/SelectionProofs.v).

   Matrix half: Matrix/Selection.v instantiated at MathComp matrices over an ARBITRARY
   realFieldType R, ARBITRARY number n of data points.  cholesky / solve_triangular
   are exact: L is any invertible matrix with L L^T = A (= K_xx + S), lower triangular
   where the determinant is concerned.  The logarithm steps and the n = 2 derivative
   are in Properties/C11Analysis.v (re-exported at the end).

   NOT proved (cited): Jacobi's formula d ln det A = tr(A^-1 dA) and
   d(A^-1) = -A^-1 dA A^-1 for general n, i.e. that the trace form / R&W (5.13) are the
   true derivatives (C11_inv_first_order gives the algebraic content of the second,
   C11_ml_gradient_is_derivative_n2 both for n = 2); that L-BFGS-B meets the optimiser
   contract of C11_multistart_not_worse_than_centre. *)
From Coq Require Import QArith.
From mathcomp Require Import all_ssreflect all_algebra fingroup perm.
From IT Require Import Matrix.MxOps Matrix.McOps Matrix.GpModel Matrix.Selection.
From IT Require Import Proofs.GpProofs Proofs.SelectionProofs.

Set Implicit Arguments.
Unset Strict Implicit.
Unset Printing Implicit Defensive.

Import Order.TTheory GRing.Theory Num.Theory.
Local Open Scope ring_scope.

Section C11.
Variable R : realFieldType.
Notation O := (McOps R).

(* ---- marginal likelihood --------------------------------------------------------------- *)
(* -1/2 |L^-1 r|^2 = -1/2 r^T A^-1 r  and  det A = (prod_i L_ii)^2 : with
   C11_ml_value (sum_i ln L_ii = 1/2 ln det A) the score is the log-density of the data *)
Theorem C11_ml_value_algebra n (K S L : 'M[R]_n) (y mu : 'cV[R]_n) :
  L *m L^T = K + S -> L \in unitmx -> is_trig_mx L ->
  [/\ @ml_quad O n L y mu = - 2%:R^-1 *: ((y - mu)^T *m invmx (K + S) *m (y - mu)),
      @ml_quad O n L y mu = @quad_closed O n (@data_cov O n K S) y mu,
      \det (K + S) = (\prod_i L i i) ^+ 2
    & forall i, (@ml_diag O n L) i 0 = L i i].
Proof.
move=> HL uL tL; split.
- exact: ml_quad_closed.
- exact: ml_quad_closed_model.
- exact: det_from_chol.
- exact: ml_diagE.
Qed.

(* marginal_likelihood(theta) and marginal_likelihood_gradient(theta)[0] are the same
   number (for any L whatsoever); loo_likelihood and loo_likelihood_gradient evaluate
   the same expression, modelled once (loo_quad) *)
Theorem C11_value_and_gradient_same_value n (L : 'M[R]_n) (y mu : 'cV[R]_n) :
  @mlg_quad O n L y mu = @ml_quad O n L y mu.
Proof. exact: mlg_quad_eq_ml_quad. Qed.

(* the code's 0.5 * (Q * dK.T).sum() is 1/2 tr((alpha alpha^T - A^-1) dA)
   = 1/2 alpha^T dA alpha - 1/2 tr(A^-1 dA)  (R&W 5.9); the mean part is alpha^T dmu *)
Theorem C11_ml_grad_trace_form n (K S L : 'M[R]_n) (y mu dmu : 'cV[R]_n) (dK : 'M[R]_n) :
  L *m L^T = K + S -> L \in unitmx ->
  let alpha := invmx (K + S) *m (y - mu) in
  [/\ @mlg_cov_grad O n L y mu dK
        = (2%:R^-1 * \tr ((alpha *m alpha^T - invmx (K + S)) *m dK))%:M,
      @mlg_cov_grad O n L y mu dK = @ml_grad_trace O n (@data_cov O n K S) y mu dK,
      2%:R^-1 * \tr ((alpha *m alpha^T - invmx (K + S)) *m dK)
        = 2%:R^-1 * (alpha^T *m dK *m alpha) 0 0 - 2%:R^-1 * \tr (invmx (K + S) *m dK)
    & @mlg_mean_grad O n L y mu dmu = alpha^T *m dmu].
Proof.
move=> HL uL alpha; split.
- exact: mlg_cov_grad_closed.
- exact: mlg_cov_grad_closed_model.
- exact: ml_grad_trace_split.
- exact: mlg_mean_grad_closed.
Qed.

(* the algebraic content of d(A^-1) = -A^-1 dA A^-1: exact to first order in e *)
Theorem C11_inv_first_order n (A dA : 'M[R]_n) (e : R) :
  A \in unitmx ->
  (A + e *: dA) *m (invmx A - e *: (invmx A *m dA *m invmx A))
  = 1%:M - (e ^+ 2) *: (dA *m invmx A *m dA *m invmx A).
Proof. exact: inv_first_order. Qed.

(* ---- leave-one-out --------------------------------------------------------------------- *)
(* the last point: with A = [[B, b], [b^T, c]] the formulas y_n - alpha_n / (A^-1)_nn and
   1 / (A^-1)_nn ARE the prediction of y_n from the other points:
   mu_n + b^T B^-1 (y' - mu')  and  c - b^T B^-1 b  -- C02's closed forms for the
   regressor fitted to the other points (K_qx = b^T, K_qq = c, which contains the noise
   variance of observation n) *)
Theorem C11_loo_last_point n (B : 'M[R]_n) (b : 'cV[R]_n) (c : R) (L : 'M[R]_(n + 1))
    (y' mu' : 'cV[R]_n) (yn mun : R) :
  B \in unitmx -> block_mx B b b^T c%:M \in unitmx ->
  L *m L^T = block_mx B b b^T c%:M -> L \in unitmx ->
  let y := col_mx y' yn%:M in let mu := col_mx mu' mun%:M in
  let last := rshift n 0 in
  [/\ (invmx (block_mx B b b^T c%:M)) last last = (c - (b^T *m invmx B *m b) 0 0)^-1,
      (@loo_var O (n + 1) L) last 0 = c - (b^T *m invmx B *m b) 0 0,
      (@loo_mu O (n + 1) L (@gp_alpha O (n + 1) L y mu) y) last 0
        = mun + (b^T *m invmx B *m (y' - mu')) 0 0
    & ((@loo_mu O (n + 1) L (@gp_alpha O (n + 1) L y mu) y) last 0)%:M
        = @closed_mean O n 1 B y' mu' b^T mun%:M
      /\ ((@loo_var O (n + 1) L) last 0)%:M = @closed_cov O n 1 B b^T c%:M].
Proof.
move=> uB uA HL uL y mu last; split.
- exact: (inv_last_last uB uA).
- exact: (loo_var_last uB uA HL uL).
- exact: (loo_mu_last uB uA y' mu' yn mun HL uL).
- exact: (loo_last_is_refit uB uA y' mu' yn mun HL uL).
Qed.

(* permuting the data permutes the LOO outputs (any factor L' of the permuted matrix) *)
Theorem C11_loo_perm n (s : 'S_n) (A L L' : 'M[R]_n) (y mu : 'cV[R]_n) :
  let P : 'M[R]_n := perm_mx s in
  L *m L^T = A -> L \in unitmx -> L' *m L'^T = P *m A *m P^T -> L' \in unitmx ->
  @loo_mu O n L' (@gp_alpha O n L' (P *m y) (P *m mu)) (P *m y)
    = P *m @loo_mu O n L (@gp_alpha O n L y mu) y
  /\ @loo_var O n L' = P *m @loo_var O n L.
Proof.
move=> P HL uL HL' uL'; split.
- exact: (loo_mu_perm y mu HL uL HL' uL').
- exact: (loo_var_perm HL uL HL' uL').
Qed.

(* together, EVERY point i: exchange i with the last point (P = the transposition);
   the LOO outputs at i are the closed-form prediction from the other points, whose
   covariance is the leading block of P A P^T *)
Theorem C11_loo_every_point n (A L : 'M[R]_(n + 1)) (y mu : 'cV[R]_(n + 1)) (i : 'I_(n + 1)) :
  L *m L^T = A -> L \in unitmx ->
  let P : 'M[R]_(n + 1) := perm_mx (tperm (rshift n 0) i) in
  let A' := P *m A *m P^T in
  ulsubmx A' \in unitmx ->
  ((@loo_mu O (n + 1) L (@gp_alpha O (n + 1) L y mu) y) i 0)%:M
    = @closed_mean O n 1 (ulsubmx A') (usubmx (P *m y)) (usubmx (P *m mu)) (ursubmx A')^T
                   (dsubmx (P *m mu))
  /\ ((@loo_var O (n + 1) L) i 0)%:M
    = @closed_cov O n 1 (ulsubmx A') (ursubmx A')^T (drsubmx A').
Proof. by move=> HL uL P A' uB; exact: (loo_every_point y mu HL uL uB). Qed.

(* the quadratic part of the LOO score is -1/2 sum_i (y_i - m_i)^2 / v_i with the LOO
   predictions m, v; with C11_loo_value_logs the score is the sum of their Gaussian
   log-densities *)
Theorem C11_loo_value n (L : 'M[R]_n) (y mu : 'cV[R]_n) :
  (forall i, (@loo_var O n L) i 0 != 0) ->
  let m := @loo_mu O n L (@gp_alpha O n L y mu) y in
  let v := @loo_var O n L in
  @loo_quad O n L y mu = (- 2%:R^-1 * \sum_i (y i 0 - m i 0) ^+ 2 / v i 0)%:M.
Proof. exact: loo_quad_value. Qed.

(* the LOO gradient expressions are R&W (5.13), term by term *)
Theorem C11_loo_grad_form n (L : 'M[R]_n) (y mu dmu : 'cV[R]_n) (dK : 'M[R]_n) :
  let iK := (invmx L)^T *m invmx L in
  let alpha := iK *m (y - mu) in
  let Z := iK *m dK in
  (forall i, iK i i != 0) ->
  @loo_cov_grad O n L y mu dK
    = (\sum_i (alpha i 0 * (Z *m alpha) i 0
               - 2%:R^-1 * (1 + alpha i 0 ^+ 2 / iK i i) * (Z *m iK) i i) / iK i i)%:M
  /\ @loo_mean_grad O n L y mu dmu = (\sum_i alpha i 0 * (iK *m dmu) i 0 / iK i i)%:M.
Proof.
move=> iK alpha Z d0; split.
- exact: loo_cov_grad_form.
- exact: loo_mean_grad_form.
Qed.

(* ---- automatic selection ------------------------------------------------------------------ *)
(* multistart_bfgs returns the first result of minimal cost; if the local optimiser keeps
   its contract on every start (reports the cost of the point it returns, does not end
   worse than it started, stays in the box) and the centre of the box is one of the
   starts, the selected hyper-parameters are inside the bounds and score at least as
   well as the centre (cost = - score) *)
Theorem C11_multistart_not_worse_than_centre (X : eqType) (cost : X -> R) (launch : X -> X * R)
    (inbox : pred X) (starts : seq X) (centre : X) :
  centre \in starts -> all inbox starts ->
  (forall x0, x0 \in starts -> optimiser_contract cost launch inbox x0) ->
  exists sol, [/\ multistart (fun a b : R => a <= b) launch starts = Some sol,
                  cost sol <= cost centre & inbox sol].
Proof. exact: multistart_not_worse. Qed.

(* the centre 0.5 (lwr + upr) is the last starting position *)
Theorem C11_centre_in_starts (T : eqType) (add sub mul : T -> T -> T) (half : T) lwr upr us :
  ms_centre add mul half lwr upr \in ms_starts add sub mul half lwr upr us.
Proof. exact: centre_in_starts. Qed.

(* ---- non-vacuity ---------------------------------------------------------------------------- *)
(* the hypotheses of C11_loo_last_point are met, e.g. B = 2 I, b = 0, c = 2, L = sqrt... no
   square roots needed: A = 4 I with L = 2 I *)
Example C11_last_point_example n :
  let B : 'M[R]_n := 4%:R%:M in let b : 'cV[R]_n := 0 in let c : R := 4%:R in
  let L : 'M[R]_(n + 1) := 2%:R%:M in
  [/\ B \in unitmx, block_mx B b b^T c%:M \in unitmx,
      L *m L^T = block_mx B b b^T c%:M & L \in unitmx].
Proof.
move=> B b c L.
have u4 m : (4%:R%:M : 'M[R]_m) \in unitmx.
  by rewrite unitmxE det_scalar unitfE expf_neq0 // pnatr_eq0.
have E : block_mx B b b^T c%:M = 4%:R%:M.
  by rewrite /B /b /c trmx0 -scalar_mx_block.
split.
- exact: u4.
- by rewrite E; exact: u4.
- by rewrite E /L tr_scalar_mx -scalar_mxM -natrM.
- by rewrite /L unitmxE det_scalar unitfE expf_neq0 // pnatr_eq0.
Qed.

(* the optimiser contract is met by the optimiser that returns its start *)
Example C11_contract_example (X : eqType) (cost : X -> R) (inbox : pred X) x0 :
  optimiser_contract cost (fun x => (x, cost x)) inbox x0.
Proof. by move=> ib; split. Qed.

End C11.

Print Assumptions C11_ml_value_algebra.
Print Assumptions C11_value_and_gradient_same_value.
Print Assumptions C11_ml_grad_trace_form.
Print Assumptions C11_inv_first_order.
Print Assumptions C11_loo_last_point.
Print Assumptions C11_loo_perm.
Print Assumptions C11_loo_every_point.
Print Assumptions C11_loo_value.
Print Assumptions C11_loo_grad_form.
Print Assumptions C11_multistart_not_worse_than_centre.
Print Assumptions C11_centre_in_starts.

(* the real-number half: C11_ml_value, C11_loo_value_logs, C11_ml_gradient_is_derivative_n2 *)
Require Export IT.Properties.C11Analysis.
