(* C17 -- GP linear inversion returns the exact linear-Gaussian posterior.
   Property theorems only; every proof is `exact <lemma>` (Proofs/InversionProofs.v).
   The model is Matrix/Inversion.v instantiated at MathComp matrices over an
   ARBITRARY realFieldType R; m data values, n parameters, ANY model matrix A
   (tall, wide, square, rank-deficient).  scipy.linalg.solve is exact.
   K and the prior mean are built by mutable kernel / mean OBJECTS; the C17_history_*
   theorems (Model/InversionHistory.v) say that after ANY sequence of inverter
   constructions in one process each inverter's objects carry its own parameter
   positions, so that the closed forms hold with the K of the inverter's own positions. *)
From mathcomp Require Import all_ssreflect all_algebra.
From IT Require Import Matrix.MxOps Matrix.McOps Matrix.Inversion Proofs.InversionProofs.
From IT Require Import Model.InversionHistory Proofs.InversionHistoryProofs.

Set Implicit Arguments.
Unset Strict Implicit.
Unset Printing Implicit Defensive.

Import GRing.Theory Num.Theory.
Local Open Scope ring_scope.

Section C17.
Variable R : realFieldType.
Notation O := (McOps R).

Section Data.
Variables (m n : nat).
Variables (A : 'M[R]_(m, n)) (e y : 'cV[R]_m) (K : 'M[R]_n) (pm : 'cV[R]_n).
(* likelihood N(A x, S), S = diag(y_err^2); prior N(pm, K) *)
Let S : 'M[R]_m := @lin_sigma O m e.
Let J : 'M[R]_m := A *m K *m A^T + S.

(* inv_sigma = diag(y_err**-2) is the inverse of sigma = diag(y_err**2) *)
Theorem C17_inv_sigma :
  (forall i, e i 0 != 0) ->
  @lin_inv_sigma O m e = invmx S /\ S \in unitmx /\ S^T = S /\ pd S.
Proof.
move=> e_nz; split; first exact: lin_inv_sigma_inv.
split; first exact: lin_sigma_unit.
split; [exact: lin_sigma_sym | exact: lin_sigma_pd].
Qed.

(* posterior covariance: (I + K W)^-1 K = K - K A^T (A K A^T + S)^-1 A K *)
Theorem C17_post_cov_closed :
  (forall i, e i 0 != 0) -> J \in unitmx ->
  (@calculate_posterior O m n A e y K pm).2 = K - K *m A^T *m invmx J *m A *m K.
Proof. exact: calc_post_cov_closed. Qed.

(* ... = (K^-1 + A^T S^-1 A)^-1 when K is invertible *)
Theorem C17_post_cov_precision :
  (forall i, e i 0 != 0) -> J \in unitmx -> K \in unitmx ->
  (@calculate_posterior O m n A e y K pm).2 = invmx (invmx K + A^T *m invmx S *m A).
Proof. exact: calc_post_cov_precision. Qed.

(* posterior mean: pm + K A^T (A K A^T + S)^-1 (y - A pm) *)
Theorem C17_post_mean_closed :
  (forall i, e i 0 != 0) -> J \in unitmx ->
  (@calculate_posterior O m n A e y K pm).1 = pm + K *m A^T *m invmx J *m (y - A *m pm).
Proof. exact: calc_post_mean_closed. Qed.

(* calculate_posterior_mean agrees with calculate_posterior *)
Theorem C17_mean_only_eq_full :
  (forall i, e i 0 != 0) ->
  @calculate_posterior_mean O m n A e y K pm = (@calculate_posterior O m n A e y K pm).1.
Proof. exact: calc_mean_only_eq_full. Qed.

(* symmetric *)
Theorem C17_post_cov_sym :
  (forall i, e i 0 != 0) -> J \in unitmx -> K^T = K ->
  ((@calculate_posterior O m n A e y K pm).2)^T = (@calculate_posterior O m n A e y K pm).2.
Proof. exact: calc_post_cov_sym. Qed.

(* for a symmetric PSD prior covariance: the linear system solved by the code is
   regular (so `solve` is defined), A K A^T + S is invertible, and
   0 <= posterior covariance <= K in the Loewner order *)
Theorem C17_post_cov_order :
  (forall i, e i 0 != 0) -> K^T = K -> psd K ->
  [/\ @lin_system O n K (@lin_W O m n A (@lin_inv_sigma O m e)) \in unitmx,
      J \in unitmx,
      psd (@calculate_posterior O m n A e y K pm).2
    & psd (K - (@calculate_posterior O m n A e y K pm).2)].
Proof.
move=> e_nz sK pK; split.
- exact: (calc_system_unit A e_nz pK).
- exact: (calc_J_unit A e_nz pK).
- by case: (calc_post_cov_order A y pm e_nz sK pK).
- by case: (calc_post_cov_order A y pm e_nz sK pK).
Qed.

End Data.

(* ---- construction histories ------------------------------------------------------
   P: parameter positions; kern / meanf: what build_covariance / build_mean return (at
   the hyper-parameters in question) as a function of the spatial data the object
   holds.  After any history of constructions (defaults, classes, caller-made
   instances each given to one constructor), inverter i -- constructed by call c --
   returns the closed-form posterior of the prior N(meanf(own positions), kern(own
   positions)). *)
Section History.
Variable P : Type.
Variables (m n : nat).
Variables (A : 'M[R]_(m, n)) (e y : 'cV[R]_m) (kern : P -> 'M[R]_n) (meanf : P -> 'cV[R]_n).

Theorem C17_history_posterior k (cs : list (ctor_call P)) i c :
  wf_history k cs -> List.nth_error cs i = Some c ->
  let K := kern (cc_pos c) in let pm := meanf (cc_pos c) in
  let J := A *m K *m A^T + @lin_sigma O m e in
  (forall j, e j 0 != 0) -> J \in unitmx ->
  eval_inverter (fun pc pmn => @calculate_posterior O m n A e y (kern pc) (meanf pmn))
                (run_history k cs) i
  = Some (pm + K *m A^T *m invmx J *m (y - A *m pm), K - K *m A^T *m invmx J *m A *m K).
Proof.
move=> wf ci K pm J e_nz uJ; rewrite (@history_eval_own _ _ _ _ _ _ _ wf ci); congr Some.
rewrite [LHS]surjective_pairing; congr pair.
- exact: calc_post_mean_closed.
- exact: calc_post_cov_closed.
Qed.

End History.

(* evidence: with L L^T = J (Cholesky), v = L^-1 r:
   -0.5 v.v = -0.5 r^T J^-1 r;  the value computed by the gradient routine is the
   same;  det J = (prod_i L_ii)^2 for triangular L, i.e. sum_i ln L_ii = 1/2 ln det J
   (the ln step itself is a fact about real logarithms, see notes/C17.md) *)
Theorem C17_evidence_value m (J L : 'M[R]_m) (r : 'cV[R]_m) :
  L *m L^T = J -> L \in unitmx ->
  [/\ @lin_lml_quad O m L r = (- (2%:R^-1 : R)) *: (r^T *m invmx J *m r),
      @lin_lml_quad_grad O m r (@lin_alpha O m (@lin_iJ O m L) r) = @lin_lml_quad O m L r,
      @lin_iJ O m L = invmx J
    & is_trig_mx L -> \det J = (\prod_i L i i) ^+ 2].
Proof.
move=> HL uL; split.
- exact: lml_quad_closed.
- exact: lml_quad_grad_same_value.
- exact: lin_iJ_closed.
- exact: det_of_factor.
Qed.

(* gradient, as the standard trace forms *)
Theorem C17_gradient_forms m (alpha df : 'cV[R]_m) (iJ dJ : 'M[R]_m) :
  @lin_grad_mean O m alpha df = alpha^T *m df
  /\ @lin_grad_cov O m alpha iJ dJ = (2%:R^-1 * \tr ((alpha *m alpha^T - iJ) *m dJ))%:M.
Proof. by split; [exact: grad_mean_form | exact: grad_cov_trace_form]. Qed.

(* non-vacuity: A = 0 (rank-deficient), K = I, unit errors *)
Example C17_example m n :
  let e : 'cV[R]_m := const_mx 1 in let K : 'M[R]_n := 1%:M in
  (forall i, e i 0 != 0) /\ K^T = K /\ psd K.
Proof.
move=> e K; split; first by move=> i; rewrite mxE oner_neq0.
split; first by rewrite /K trmx1.
by move=> x; rewrite /qform /K mulmx1; exact: sqnorm_ge0.
Qed.

End C17.

(* every inverter's kernel and mean objects carry its own positions, and no two
   inverters share an object *)
Theorem C17_history_own_positions (P : Type) k (cs : list (ctor_call P)) :
  wf_history k cs ->
  (forall i c, List.nth_error cs i = Some c ->
     cov_data (run_history k cs) i = Some (cc_pos c)
     /\ mean_data (run_history k cs) i = Some (cc_pos c))
  /\ List.NoDup (List.map iv_cov (st_invs (run_history k cs)))
  /\ List.NoDup (List.map iv_mean (st_invs (run_history k cs))).
Proof.
move=> wf; split; first by move=> i c ci; exact: history_own_data.
exact: history_no_sharing.
Qed.

(* the hypothesis built into the model -- a default argument is a class that each
   constructor instantiates -- is needed: with defaults that are single objects the
   first of two default constructions ends up with the second one's positions *)
Theorem C17_history_shared_default_refuted :
  exists cs : list (ctor_call nat),
    wf_history 2 cs /\
    exists c, List.nth_error cs 0 = Some c /\
      cov_data (run_history_shared 2 0 1 cs) 0 <> Some (cc_pos c) /\
      cov_data (run_history 2 cs) 0 = Some (cc_pos c).
Proof. exact: shared_default_interferes. Qed.

(* non-vacuity: a history mixing defaults, classes and two caller-made instances *)
Example C17_history_example :
  wf_history 2 [:: CtorCall KDefault KDefault 0%N; CtorCall (KInst 0) KClass 1%N;
                   CtorCall KDefault (KInst 1) 2%N; CtorCall KClass KDefault 3%N].
Proof. exact: wf_historyb_sound. Qed.

Print Assumptions C17_inv_sigma.
Print Assumptions C17_post_cov_closed.
Print Assumptions C17_post_cov_precision.
Print Assumptions C17_post_mean_closed.
Print Assumptions C17_mean_only_eq_full.
Print Assumptions C17_post_cov_sym.
Print Assumptions C17_post_cov_order.
Print Assumptions C17_evidence_value.
Print Assumptions C17_gradient_forms.
Print Assumptions C17_history_posterior.
Print Assumptions C17_history_own_positions.
Print Assumptions C17_history_shared_default_refuted.
