(* C13 -- sample_hdi returns the shortest interval holding the requested fraction.
   Property theorems only; every proof is `exact <lemma>`. *)
From Coq Require Import List ZArith QArith Qround Sorting.Permutation.
From IT Require Import Model.Hdi Proofs.HdiProofs.
Import ListNotations.
Open Scope Z_scope.

(* end points are sample values *)
Theorem C13_endpoints_in_sample : forall sample L, (L < length sample)%nat ->
  In (fst (hdi sample L)) sample /\ In (snd (hdi sample L)) sample.
Proof. exact hdi_endpoints_in_sample. Qed.

(* at least L+1 sample points lie in the interval ... *)
Theorem C13_coverage : forall sample L, (L < length sample)%nat ->
  (S L <= count_in (fst (hdi sample L)) (snd (hdi sample L)) sample)%nat.
Proof. exact hdi_coverage. Qed.

(* ... and L+1 exceeds fraction * n whenever L >= floor(fraction * n) *)
Theorem C13_fraction : forall (f : Q) (n L : nat),
  (Qfloor (f * inject_Z (Z.of_nat n)) <= Z.of_nat L)%Z ->
  (f * inject_Z (Z.of_nat n) < inject_Z (Z.of_nat (S L)))%Q.
Proof. exact window_exceeds_fraction. Qed.

(* no interval -- between two sample values or anywhere else -- containing as
   many points is shorter *)
Theorem C13_optimal : forall sample L a b, (L < length sample)%nat ->
  (S L <= count_in a b sample)%nat ->
  snd (hdi sample L) - fst (hdi sample L) <= b - a.
Proof. exact hdi_optimal. Qed.

(* too few samples: the whole range is returned and it contains every point *)
Theorem C13_fallback : forall sample L, (length sample <= L)%nat -> sample <> [] ->
  hdi sample L = (hd 0 (ZSort.sort sample), last (ZSort.sort sample) 0) /\
  (forall x, In x sample ->
     hd 0 (ZSort.sort sample) <= x <= last (ZSort.sort sample) 0).
Proof. exact hdi_fallback. Qed.

(* unchanged by reordering the sample *)
Theorem C13_permutation : forall sample sample' L, Permutation sample sample' ->
  hdi sample L = hdi sample' L.
Proof. exact hdi_perm. Qed.

(* covariant under positive affine maps *)
Theorem C13_affine : forall a b, 0 < a -> forall sample L, sample <> [] ->
  hdi (map (fun x => a * x + b) sample) L =
  (a * fst (hdi sample L) + b, a * snd (hdi sample L) + b).
Proof. exact hdi_affine. Qed.

(* 2-D input: column k of the result is the 1-D result for column k *)
Theorem C13_columns : forall cols L k d, (k < length cols)%nat ->
  nth k (hdi_columns cols L) (hdi d L) = hdi (nth k cols d) L.
Proof. exact hdi_columns_nth. Qed.

(* non-vacuity: ties and an outlier; the premises are met and the answer is the
   tight cluster, not the range *)
Example C13_example :
  let s := [100; 3; 5; 3; 4; -50; 4; 3; 5; 4] in
  (7 < length s)%nat /\ hdi s 7 = (3, 5) /\ count_in 3 5 s = 8%nat.
Proof. cbv zeta. split; [simpl; repeat constructor|]. split; vm_compute; reflexivity. Qed.

Print Assumptions C13_endpoints_in_sample.
Print Assumptions C13_coverage.
Print Assumptions C13_fraction.
Print Assumptions C13_optimal.
Print Assumptions C13_fallback.
Print Assumptions C13_permutation.
Print Assumptions C13_affine.
Print Assumptions C13_columns.
