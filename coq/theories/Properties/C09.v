(* C09 -- a saved sampler reloads to an equivalent sampler that can continue.
   The file is a key -> value store; see Model/SaveLoad.v.  The per-class field
   lists and the lemmas load_complete / save_ready / keys_available over them are
   regenerated from the source on every run (coq/gen/C09/Fields_<Class>.v). *)
From Coq Require Import String List QArith.
From IT Require Import Model.SaveLoad Proofs.SaveLoadProofs.
Import ListNotations.

Theorem C09_decode_encode : forall fields,
  NoDup (map (fun kv => render (fst kv)) fields) ->
  decode (map fst fields) (encode fields) = Some fields.
Proof. exact decode_encode. Qed.

Theorem C09_missing_key_is_error : forall fields schema k,
  In k schema -> ~ In (render k) (map (fun kv => render (fst kv)) fields) ->
  decode schema (encode fields) = None.
Proof. exact decode_missing_key. Qed.

Theorem C09_continue_after_reload : forall (A : Type) (run : list (key * value) -> A) fields,
  NoDup (map (fun kv => render (fst kv)) fields) ->
  option_map run (decode (map fst fields) (encode fields)) = Some (run fields).
Proof. exact @continue_after_reload. Qed.

Theorem C09_param_keys_injective_40 : NoDup (map render (param_keys 40)).
Proof. exact param_keys_injective_40. Qed.

Example C09_example :
  let s := [(KChain "chain_length", VN 3); (KParam 1 "samples", VL [1%Q; 2%Q]);
            (KParam 11 "samples", VL [3%Q])] in
  decode (map fst s) (encode s) = Some s /\ render (KParam 11 "samples") = "param_11samples"%string.
Proof. split; reflexivity. Qed.

Print Assumptions C09_decode_encode.
Print Assumptions C09_missing_key_is_error.
Print Assumptions C09_continue_after_reload.
Print Assumptions C09_param_keys_injective_40.
