(* C13, clause "any dtype accepted / lists and arrays": sample_hdi on a block of
   memory with a NumPy descriptor (dtype kind / item size / byte order, offset,
   shape, strides).  Property theorems only; every proof is `exact <lemma>`.

   Together they say: whatever the storage format in which a sample reaches
   sample_hdi -- little or big endian, any integer width, C / Fortran / strided /
   reversed / 0-stride layout, anything in the bytes between the items -- the
   result is Model.Hdi.hdi of the stored values, to which the theorems of
   Properties/C13.v (end points, coverage, optimality, permutation, affine maps,
   columns) apply. *)
From Coq Require Import List ZArith.
From IT Require Import Model.Hdi Model.HdiStorage Proofs.HdiProofs Proofs.HdiStorageProofs.
Import ListNotations.
Open Scope Z_scope.

(* every integer dtype, both byte orders: the item decoded from memory holding
   NumPy's encoding of x is x *)
Theorem C13_storage_roundtrip : forall dt k mem p x,
  dkind dt <> KFloat -> (0 < dsize dt)%nat -> in_range dt x ->
  stores mem p (encode_int dt x) -> decode dt k mem p = Some x.
Proof. exact decode_encode_int. Qed.

(* only the bytes of the addressed items matter (gaps of a strided view, the rest
   of a base buffer) *)
Theorem C13_storage_unaddressed : forall dt k mem mem' v L,
  (forall i j b, (i < vrows v)%nat -> (j < vcols v)%nat -> (b < dsize dt)%nat ->
     mem (addr v i j + Z.of_nat b) = mem' (addr v i j + Z.of_nat b)) ->
  hdi_storage dt k mem v L = hdi_storage dt k mem' v L.
Proof. exact hdi_storage_ext. Qed.

(* with the widening of hdi.py (which ignores the byte order) and the unsigned reading
   of the int64 differences no interval width wraps around: the machine computation is
   the ideal one for EVERY sample the dtype can hold *)
Theorem C13_machine_exact : forall dt sample L,
  (0 < dsize dt <= 8)%nat -> Forall (in_range dt) sample ->
  hdi_machine dt sample L = hdi sample L.
Proof. exact hdi_machine_exact. Qed.

(* defect D53: the pinned code compared the int64 differences as signed numbers.  That is
   right as long as no int64 sample spans 2^63 ... *)
Theorem C13_pinned_exact_below_2p63 : forall dt sample L,
  (0 < dsize dt <= 8)%nat -> Forall (in_range dt) sample -> span_ok dt sample ->
  hdi_arith (arith_pinned dt) sample L = hdi sample L.
Proof. exact hdi_pinned_exact. Qed.

(* ... and wrong beyond: a wider interval holding no more points is reported (the
   repaired arithmetic gives the ideal answer on the same sample) *)
Theorem C13_pinned_int64_span_refuted :
  exists dt sample L,
    (0 < dsize dt <= 8)%nat /\ Forall (in_range dt) sample /\ (L < length sample)%nat /\
    hdi_arith (arith_pinned dt) sample L = (-4700000000000000000, 4600000000000000000) /\
    hdi sample L = (-4400000000000000000, 4600000000000000001) /\
    hdi_machine dt sample L = hdi sample L /\
    count_in (-4400000000000000000) 4600000000000000001 sample =
    count_in (-4700000000000000000) 4600000000000000000 sample.
Proof. exact pinned_int64_span_refuted. Qed.

(* sample_hdi on a stored sample = hdi of the stored columns *)
Theorem C13_storage_values : forall dt k mem v L cols,
  (0 < dsize dt <= 8)%nat ->
  (forall j, (j < vcols v)%nat -> exists xs, gather_col dt k mem v j = Some xs /\
     nth_error cols j = Some xs /\ Forall (in_range dt) xs) ->
  length cols = vcols v ->
  hdi_storage dt k mem v L = Some (hdi_columns cols L).
Proof. exact hdi_storage_values. Qed.

(* two storage formats of the same values give the same result *)
Theorem C13_storage_independent : forall dt1 k1 mem1 v1 dt2 k2 mem2 v2 L cols,
  (0 < dsize dt1 <= 8)%nat -> (0 < dsize dt2 <= 8)%nat ->
  length cols = vcols v1 -> length cols = vcols v2 ->
  (forall j, (j < vcols v1)%nat -> exists xs, gather_col dt1 k1 mem1 v1 j = Some xs /\
     nth_error cols j = Some xs /\ Forall (in_range dt1) xs) ->
  (forall j, (j < vcols v2)%nat -> exists xs, gather_col dt2 k2 mem2 v2 j = Some xs /\
     nth_error cols j = Some xs /\ Forall (in_range dt2) xs) ->
  hdi_storage dt1 k1 mem1 v1 L = hdi_storage dt2 k2 mem2 v2 L.
Proof. exact hdi_storage_independent. Qed.

(* the widening is necessary: with the widths computed in the sample's own type
   a wider interval holding no more points is reported *)
Theorem C13_native_arithmetic_refuted :
  exists dt sample L,
    (0 < dsize dt <= 8)%nat /\ Forall (in_range dt) sample /\ span_ok dt sample /\
    (L < length sample)%nat /\
    hdi_arith (arith_native dt) sample L = (-30000, 10001) /\
    hdi sample L = (10000, 10002) /\
    count_in 10000 10002 sample = count_in (-30000) 10001 sample.
Proof. exact native_arithmetic_refuted. Qed.

(* non-vacuity.  The sample -30000, 10000, 10001, 10002, 30000 stored
   (a) as big-endian int16, every item followed by two bytes of garbage, viewed
       backwards (offset 16, stride -4);
   (b) as little-endian binary32 in a (5, 2) Fortran-ordered block whose second
       column is 0, 1, 2, 3, 4.5 (all values scaled by 2^1).
   Both give the tight cluster for that sample. *)
Example C13_storage_example_a :
  let mem := mem_of_Z 0x3322d08aff0010277fee112711ee1227ff803075 in
  let v := mkview 16 5 1 (-4) 0 in
  gather_col (mkdt KInt 2 BigE) 0 mem v 0 = Some [-30000; 10000; 10001; 10002; 30000] /\
  hdi_storage (mkdt KInt 2 BigE) 0 mem v 2 = Some [(10000, 10002)].
Proof. cbv zeta. split; vm_compute; reflexivity. Qed.

Example C13_storage_example_b :
  let mem := mem_of_Z 0x4090000040400000400000003f8000000000000046ea6000461c4800461c4400461c4000c6ea6000 in
  let v := mkview 0 5 2 4 20 in
  gather_col (mkdt KFloat 4 LittleE) 1 mem v 1 = Some [0; 2; 4; 6; 9] /\
  hdi_storage (mkdt KFloat 4 LittleE) 1 mem v 2 = Some [(20000, 20004); (0, 4)].
Proof. cbv zeta. split; vm_compute; reflexivity. Qed.

Print Assumptions C13_storage_roundtrip.
Print Assumptions C13_storage_unaddressed.
Print Assumptions C13_machine_exact.
Print Assumptions C13_pinned_exact_below_2p63.
Print Assumptions C13_pinned_int64_span_refuted.
Print Assumptions C13_storage_values.
Print Assumptions C13_storage_independent.
Print Assumptions C13_native_arithmetic_refuted.
