(* C04 on the sampler models of Model/Samplers.v: every point at which the
   log-density is evaluated during a transition, and the new sample, lie inside
   the bounds box -- for every log-density, gradient, temperature, tape, step
   size and mass.  (The Gibbs per-parameter limits are C04_gibbs_fold_range /
   C04_abs_nonneg / the selector theorems of Properties/C04.v.) *)
From Coq Require Import QArith List.
From IT Require Import Common.ExpBounds Model.Reflect Model.Samplers Proofs.InsideProofs.
Import ListNotations.

Theorem C04_pca_step_inside : forall logp beta s tape s' tape' ev,
  box_wf (ps_bounds s) -> box_ok (ps_bounds s) (hd [] (ps_samples s)) ->
  pca_step logp beta s tape = Ok (s', tape', ev) ->
  events_ok (box_ok (ps_bounds s)) ev /\ box_ok (ps_bounds s) (hd [] (ps_samples s')).
Proof. exact pca_step_inside. Qed.

Theorem C04_hmc_step_inside : forall logp beta grad ma s tape s' tape' ev,
  box_wf (hs_bounds s) ->
  hmc_step logp beta grad ma s tape = Ok (s', tape', ev) ->
  events_ok (box_ok (hs_bounds s)) ev /\ box_ok (hs_bounds s) (hd [] (hs_theta s')).
Proof. exact hmc_step_inside. Qed.

Theorem C04_ens_iteration_inside : forall logp pinned s tape s' tape' ev,
  box_wf (es_bounds s) ->
  ens_iteration logp pinned s tape = Ok (s', tape', ev) ->
  events_ok (box_ok (es_bounds s)) ev.
Proof. exact ens_iteration_inside. Qed.

Print Assumptions C04_pca_step_inside.
Print Assumptions C04_hmc_step_inside.
Print Assumptions C04_ens_iteration_inside.
