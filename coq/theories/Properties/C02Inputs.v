(* C02 (continued) -- "for ANY training data ... at ANY query points": the step from what the
   caller hands over to the coordinates at which the covariance and mean functions are
   evaluated.  Property theorems only; every proof is `exact <lemma>`
   (Proofs/GpInputsProofs.v about Model/GpInputs.v).

   Properties/C02.v: the regressor's data flow equals the closed form for any matrices
   K_xx, K_qx, K_qq, mu, mu_q.  Properties/C02Kernel.v: these are the values of THE covariance
   / mean function at coordinate lists xs, qs.  Here: xs and qs are the caller's numbers.
   GpRegressor.__init__ and process_points re-arrange the caller's argument (scalar, 1-D,
   2-D; list / tuple / array) into rows of n_dimensions coordinates; they never convert an
   entry.  So a python int, a numpy int16 and a float64 holding the same number are the same
   coordinate, a query at 2.75 against integer-typed training data is a query at 2.75, and
   the five inputs of the GP model -- hence every output, which Matrix/GpModel.v computes from
   these five, y and the error data alone -- depend on the real VALUES of the coordinates
   only.  The run checks the normalisation on the real regressor by exact comparison
   (coq/gen/C02/inputs_*.v, vm_compute) and uses the invariance as an oracle: the same data
   held as float64 must give the same posterior. *)
From Coq Require Import Reals List Arith ZArith QArith Qreals.
From IT Require Import Model.Slices Model.GpInputs RealModel.Kernels RealModel.Means
  Proofs.GpTranslationProofs Proofs.GpInputsProofs.
Import ListNotations.

(* process_points returns points of the regressor's dimension whose coordinates, read in
   order, are the caller's numbers in row-major order -- whatever type A holds them and
   whatever real number `val` each of them denotes *)
Theorem C02_process_points_values : forall (A : Type) (val : A -> R) d (a : arg A) P,
  process_points d a = Some P ->
  concat (coords val P) = map val (flat a) /\ Forall (fun r => length r = d) (coords val P).
Proof. exact (@process_points_values). Qed.

(* the same for the training coordinates stored by the constructor (n = y.size) *)
Theorem C02_training_points_values : forall (A : Type) (a : arg A) n d X,
  norm_x a n = Some (d, X) ->
  length X = n /\ Forall (fun r => length r = d) X /\ concat X = flat a.
Proof.
  intros A a n d X H.
  exact (conj (proj1 (norm_x_shape a n d X H)) (conj (proj2 (norm_x_shape a n d X H)) (norm_x_flat a n d X H))).
Qed.

(* the documented forms of `points` are accepted: 2-D with n_dimensions columns; for
   one-dimensional data a flat sequence or a scalar; a single point as a flat sequence *)
Theorem C02_process_points_accepts : forall (A : Type) d,
  (forall rows : list (list A), rows <> [] -> Forall (fun r => length r = d) rows ->
     process_points d (A2 rows) = Some rows)
  /\ (forall l : list A, process_points 1 (A1 l) = Some (column l))
  /\ (forall v : A, process_points 1 (A0 v) = Some [[v]])
  /\ (forall l : list A, d <> 1%nat -> length l = d -> process_points d (A1 l) = Some [l]).
Proof.
  intros A d.
  exact (conj (@process_points_2d A d) (conj (@process_points_1d A) (conj (@process_points_scalar A)
        (@process_points_single A d)))).
Qed.

(* the normalisation commutes with any entry-wise conversion (int -> float, float32 ->
   float64 ...): it cannot be the place where a value changes *)
Theorem C02_normalisation_natural : forall (A B : Type) (f : A -> B) d n (a : arg A),
  process_points d (amap f a) = option_map (map (map f)) (process_points d a)
  /\ norm_x (amap f a) n = option_map (fun dX => (fst dX, map (map f) (snd dX))) (norm_x a n).
Proof. intros A B f d n a. exact (conj (process_points_amap f d a) (norm_x_amap f a n)). Qed.

(* THE POSTERIOR DEPENDS ON THE VALUES OF THE COORDINATES ONLY.  The same training
   coordinates held with entry types A and B, the same query points held with C and D
   (same shapes, same real values): the second pair is accepted iff the first is, and all
   five inputs of the GP model agree entry by entry, for every kernel, mean function and
   hyper-parameter vector. *)
Theorem C02_inputs_depend_on_values_only :
  forall (A B C D : Type) (va : A -> R) (vb : B -> R) (vc : C -> R) (vd : D -> R)
    (ax : arg A) (bx : arg B) (cq : arg C) (dq : arg D) n d X P K M th mth,
  amap va ax = amap vb bx -> amap vc cq = amap vd dq ->
  norm_x ax n = Some (d, X) -> process_points d cq = Some P ->
  exists X' P', norm_x bx n = Some (d, X') /\ process_points d dq = Some P'
    /\ gp_inputs_agree K K M (coords va X) (coords vb X') (coords vc P) (coords vd P') th th mth.
Proof. exact (@gp_inputs_values_only). Qed.

(* non-vacuity: integer abscissae 0, 1, 2 (Z) against the same as rationals, query 2.75 held
   as a rational against the same real number held as a real *)
Example C02_inputs_values_example :
  amap IZR (A1 [0; 1; 2]%Z) = amap Q2R (A1 [0; 1; 2]%Q)
  /\ norm_x (A1 [0; 1; 2]%Z) 3 = Some (1%nat, [[0]; [1]; [2]]%Z)
  /\ process_points 1 (A0 (11 # 4)%Q) = Some [[(11 # 4)%Q]].
Proof.
  repeat split. cbn [amap map]. unfold Q2R. cbn [Qnum Qden].
  repeat f_equal; field.
Qed.

(* converting the query points to the representation of the training data first
   (`asarray(points, dtype=self.x.dtype)`: truncation for integer-typed training data) is NOT
   the regressor of the property: the cross-covariance changes *)
Theorem C02_query_cast_to_training_dtype_refuted :
  exists (x q : arg Q) (n d : nat) (X P P' : list (list Q)),
    norm_x x n = Some (d, X) /\ process_points d q = Some P
    /\ cast_points trunc_q d q = Some P'
    /\ (gp_Kqx (se 1) (coords Q2R X) (coords Q2R P') [0; 0] 0 2
        <> gp_Kqx (se 1) (coords Q2R X) (coords Q2R P) [0; 0] 0 2)%R.
Proof. exact cast_points_refuted. Qed.

(* D42.  The kernels need (u_k - v_k)^2.  Repaired: formed in floating point, the exact
   square.  Pinned: formed in the integer dtype of the arrays -- exact while the square fits,
   wrong beyond (int32 seconds a day apart, int64 nano-seconds ten seconds apart, bytes 16 apart) *)
Theorem C02_squared_distance_exact : forall a b, IZR (sq_diff a b) = ((IZR a - IZR b) ^ 2)%R.
Proof. exact sq_diff_exact. Qed.

Theorem C02_squared_distance_pinned_refuted :
  exists bits signed a b, fits bits signed a /\ fits bits signed b
    /\ IZR (sq_diff_pinned bits signed a b) <> ((IZR a - IZR b) ^ 2)%R.
Proof. exact sq_diff_pinned_refuted. Qed.

Theorem C02_squared_distance_pinned_small : forall bits a b,
  ((a - b) * (a - b) < 2 ^ (Zpos bits - 1))%Z -> sq_diff_pinned bits true a b = sq_diff a b.
Proof. exact sq_diff_pinned_small. Qed.

Print Assumptions C02_process_points_values.
Print Assumptions C02_training_points_values.
Print Assumptions C02_process_points_accepts.
Print Assumptions C02_normalisation_natural.
Print Assumptions C02_inputs_depend_on_values_only.
Print Assumptions C02_query_cast_to_training_dtype_refuted.
Print Assumptions C02_squared_distance_exact.
Print Assumptions C02_squared_distance_pinned_refuted.
Print Assumptions C02_squared_distance_pinned_small.
