(* C18Integral -- supports property C18 of /verif/properties.jsonl, clause
   "expected improvement equals the expectation of max(f - y_max, 0) under the
   regressor's predictive normal distribution (in both its ordinary and its far-tail
   evaluation branch)".   Property theorems only; every proof is `exact <lemma>`
   (lemmas in Proofs/EiIntegral.v).

   Code modelled: /repo/inference/gp/acquisition.py, ExpectedImprovement.__call__,
   lines 76-86:  Z = (mu[0] - self.mu_max) / sig[0]  (line 78),
   EI = sig[0] * (Z * cdf + pdf)  (line 85, ordinary branch) and
   EI = exp(log(1 + Z * cdf_pdf_ratio(Z)) + ln_pdf(Z) + log(sig[0]))  (lines 80-81,
   branch Z < -3); the class docstring (lines 50-60) gives the same closed form.
   `ei_call mu sigma ymax` (RealModel/Acquisition.v) is the model of __call__ with
   both branches; mu, sigma are the predictive mean and standard deviation the
   regressor returns at the query point, ymax = self.mu_max.

   phi / Phi are those of RealModel/Acquisition.v (the ones Proofs/GaussianNormalisation.v
   and Properties/GaussNorm.v use); gauss_pdf mu sigma is the normal density of
   RealModel/Likelihoods.v, shown normalised in GaussNorm_gauss_pdf_normalised.
   The integral is Coquelicot's improper Riemann integral is_RInt_gen with both end
   points at infinity; the limit-of-proper-integrals forms are given as well. *)
From Coq Require Import Reals.
From Coquelicot Require Import Coquelicot.
From IT Require Import RealModel.Acquisition RealModel.Likelihoods Proofs.EiIntegral.
Open Scope R_scope.

(* ---- the integral identity, in the literal closed form sigma (z Phi z + phi z) ---- *)
Theorem C18_ei_is_expected_improvement : forall mu sigma ymax : R, 0 < sigma ->
  is_RInt_gen (fun f => Rmax (f - ymax) 0 * gauss_pdf mu sigma f)
              (Rbar_locally m_infty) (Rbar_locally p_infty)
              (sigma * ((mu - ymax) / sigma * Phi ((mu - ymax) / sigma)
                        + phi ((mu - ymax) / sigma))).
Proof. exact ei_is_expected_improvement. Qed.

(* ---- the same about what the code evaluates (both branches of __call__), and
   the value of the improper integral is that number ---- *)
Theorem C18_ei_call_is_expected_improvement : forall mu sigma ymax : R, 0 < sigma ->
  is_RInt_gen (fun f => Rmax (f - ymax) 0 * gauss_pdf mu sigma f)
              (Rbar_locally m_infty) (Rbar_locally p_infty)
              (ei_call mu sigma ymax) /\
  RInt_gen (fun f => Rmax (f - ymax) 0 * gauss_pdf mu sigma f)
           (Rbar_locally m_infty) (Rbar_locally p_infty) = ei_call mu sigma ymax.
Proof. exact ei_call_is_expected_improvement. Qed.

(* ---- as limits of proper integrals: over [ymax, b] of (f - ymax) pdf, and of the
   full integrand over windows [c - b, c + b] around any centre ---- *)
Theorem C18_ei_limit_of_proper_integrals : forall mu sigma ymax : R, 0 < sigma ->
  is_lim (fun b => RInt (fun f => (f - ymax) * gauss_pdf mu sigma f) ymax b) p_infty
         (ei_call mu sigma ymax) /\
  (forall c, is_lim (fun b => RInt (fun f => Rmax (f - ymax) 0 * gauss_pdf mu sigma f)
                                   (c - b) (c + b)) p_infty (ei_call mu sigma ymax)).
Proof. exact ei_limit_of_proper_integrals. Qed.

(* ---- the antiderivative exhibited, the proper integrals in closed form, its value
   at ymax and its limit at +infinity ---- *)
Theorem C18_ei_proper_integrals : forall mu sigma ymax : R, 0 < sigma ->
  let F := fun f => - sigma ^ 2 * gauss_pdf mu sigma f
                    + (mu - ymax) * Phi ((f - mu) / sigma) in
  (forall x, is_derive F x ((x - ymax) * gauss_pdf mu sigma x)) /\
  (forall a b, a <= ymax -> ymax <= b ->
     is_RInt (fun f => Rmax (f - ymax) 0 * gauss_pdf mu sigma f) a b (F b - F ymax)) /\
  (forall a b, a <= ymax -> b <= ymax ->
     is_RInt (fun f => Rmax (f - ymax) 0 * gauss_pdf mu sigma f) a b 0) /\
  F ymax = (mu - ymax) - ei_call mu sigma ymax /\
  is_lim F p_infty (mu - ymax).
Proof. exact ei_proper_integrals. Qed.

(* ---- the densities vanish at +infinity (used for the limit of F) ---- *)
Theorem C18_gauss_pdf_vanishes : forall mu s : R, 0 < s ->
  is_lim phi p_infty 0 /\ is_lim (gauss_pdf mu s) p_infty 0.
Proof. exact (fun mu s Hs => conj phi_lim_p (gauss_pdf_lim_p mu s Hs)). Qed.

(* ---- a whole-line improper integral from a primitive with limits at both ends ---- *)
Theorem C18_is_RInt_gen_of_primitive : forall (g G : R -> R) (la lb : R),
  (forall a b, is_RInt g a b (G b - G a)) ->
  is_lim G m_infty la -> is_lim G p_infty lb ->
  is_RInt_gen g (Rbar_locally m_infty) (Rbar_locally p_infty) (lb - la).
Proof. exact is_RInt_gen_of_primitive. Qed.

(* non-vacuity: mu = 1, sigma = 2, ymax = 0 *)
Example C18_ei_integral_example :
  is_RInt_gen (fun f => Rmax (f - 0) 0 * gauss_pdf 1 2 f)
              (Rbar_locally m_infty) (Rbar_locally p_infty) (ei_call 1 2 0).
Proof. exact (proj1 (ei_call_is_expected_improvement 1 2 0 ltac:(Lra.lra))). Qed.

Print Assumptions C18_ei_is_expected_improvement.
Print Assumptions C18_ei_call_is_expected_improvement.
Print Assumptions C18_ei_limit_of_proper_integrals.
Print Assumptions C18_ei_proper_integrals.
Print Assumptions C18_gauss_pdf_vanishes.
Print Assumptions C18_is_RInt_gen_of_primitive.
