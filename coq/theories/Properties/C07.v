(* C07 -- Hamiltonian trajectories are reversible, volume-preserving and
   energy-accurate; the kinetic energy matches the momentum law; the internal
   finite-difference gradient is right, including at zero coordinates.
   Property theorems only; every proof is `exact <lemma>`.

   Vectors are `list Q`, equal up to == on Q:  =v= is Forall2 Qeq, =s= the same
   on (position, momentum) pairs.  `grad` is an arbitrary function that respects
   == (true of anything built from field operations). *)
From Coq Require Import List QArith Qround Qabs ZArith.
From IT Require Import Model.Leapfrog Proofs.LeapfrogProofs.
Import ListNotations.
Open Scope Q_scope.

(* ---------------------------------------------------------------- structure *)

(* [T] the code's loop with merged half kicks is max(n,1) kick-drift-kick steps,
   for every force, mass kind, temperature and step size *)
Theorem C07_leapfrog_is_kdk_power :
  forall (grad : vec -> vec) (m : mass) (inv_temp eps : Q),
  (forall t t', t =v= t' -> grad t =v= grad t') ->
  forall n t r,
  standard_leapfrog grad m inv_temp eps t r n =s=
  Nat.iter (Nat.max 1 n) (kdk grad m inv_temp eps) (t, r).
Proof. exact leapfrog_is_kdk_power. Qed.

(* ------------------------------------------------------------ reversibility *)

(* [T] run, negate the momentum, run, negate: the starting point, exactly -- any
   force, any n, scalar / per-parameter / full-matrix inverse mass (symmetric or
   not: only linearity of the velocity in the momentum is used) *)
Theorem C07_leapfrog_reversible :
  forall (grad : vec -> vec) (m : mass) (inv_temp eps : Q),
  (forall t t', t =v= t' -> grad t =v= grad t') ->
  forall n t r,
  let s1 := standard_leapfrog grad m inv_temp eps t r n in
  let s2 := standard_leapfrog grad m inv_temp eps (fst s1) (vneg (snd s1)) n in
  flip s2 =s= (t, r).
Proof. exact leapfrog_reversible. Qed.

(* [Tp] with reflecting walls, scalar or per-parameter mass: the same, provided the
   position at the start of every drift (= after k full steps, k < n) lies strictly
   between the walls *)
Theorem C07_bounded_leapfrog_reversible :
  forall (grad : vec -> vec) (m : mass) (inv_temp eps : Q) (lo hi : vec),
  (forall t t', t =v= t' -> grad t =v= grad t') ->
  diagonal_mass m ->
  forall n t r,
  (forall k, (k < Nat.max 1 n)%nat ->
     interior lo hi (fst (Nat.iter k (bkdk grad m inv_temp eps lo hi) (t, r)))) ->
  let s1 := bounded_leapfrog grad m inv_temp eps lo hi t r n in
  let s2 := bounded_leapfrog grad m inv_temp eps lo hi (fst s1) (vneg (snd s1)) n in
  flip s2 =s= (t, r).
Proof. exact bounded_leapfrog_reversible. Qed.

(* the wall hypothesis cannot be dropped: from t = lo moving outwards the forward
   drift counts a crossing, the reverse drift (which ends exactly on the wall) none *)
Theorem C07_bounded_wall_hypothesis_needed :
  exists lo hi t r eps,
    let grad := fun t : vec => map (fun _ => 0) t in
    let s1 := bounded_leapfrog grad (ScalarMass 1) 1 eps lo hi t r 1 in
    let s2 := bounded_leapfrog grad (ScalarMass 1) 1 eps lo hi (fst s1) (vneg (snd s1)) 1 in
    ~ interior lo hi t /\ ~ flip s2 =s= (t, r).
Proof. exact bounded_wall_hypothesis_needed. Qed.

(* D8 (known finding C07/bounded-matrix-mass): with a full inverse-mass matrix the
   bounded leapfrog is NOT reversible -- symmetric matrix, vanishing force, all
   positions strictly inside the box *)
Theorem C07_bounded_matrix_mass_refuted :
  exists Minv lo hi t r eps,
    let grad := fun t : vec => map (fun _ => 0) t in
    let s1 := bounded_leapfrog grad (MatrixMass Minv) 1 eps lo hi t r 1 in
    let s2 := bounded_leapfrog grad (MatrixMass Minv) 1 eps lo hi (fst s1) (vneg (snd s1)) 1 in
    Minv = transpose Minv 2 /\ interior lo hi t /\ interior lo hi (fst s1) /\ ~ flip s2 =s= (t, r).
Proof. exact bounded_matrix_mass_refuted. Qed.

(* -------------------------------------------------------- volume preservation *)

(* [T] every kick leaves the position alone and translates the momentum by a
   function of the position; every drift leaves the momentum alone and translates
   the position by a function of the momentum (shears: unit-triangular Jacobian;
   the determinant fact itself is proved below for linear forces only) *)
Theorem C07_kick_drift_are_shears :
  forall (grad : vec -> vec) (m : mass) (eps h : Q) (t r : vec),
  kick grad h (t, r) = (t, vaxpy r h (grad t)) /\
  drift m eps (t, r) = (vaxpy t eps (get_velocity m r), r).
Proof. exact kick_drift_are_shears. Qed.

(* [T] linear force b - a q, one degree of freedom, any inverse mass, temperature,
   step size and n: the trajectory map is an affine map of the (q, p) plane whose
   matrix has determinant exactly 1 *)
Theorem C07_volume_preserving_linear_1d :
  forall (a b im beta eps : Q) (n : nat),
  exists (M : mat2) (c1 c2 : Q), det2 M == 1 /\
    forall q p,
    standard_leapfrog (lin_grad [[a]] [b]) (ScalarMass im) beta eps [q] [p] n =s=
    aff_apply (M, c1, c2) q p.
Proof. exact volume_preserving_linear_1d. Qed.

(* ------------------------------------------------------------------- energy *)

(* [T] logp(q) = -1/2 w^2 q^2, unit mass: the leapfrog conserves the modified
   energy 1/2 p^2 + 1/2 w^2 q^2 (1 - eps^2 w^2 / 4) exactly, for every n *)
Theorem C07_harmonic_modified_energy :
  forall (w eps : Q) (n : nat) (q p : Q),
  let s := standard_leapfrog (hgrad w) (ScalarMass 1) 1 eps [q] [p] n in
  E_mod w eps (pos1 s) (mom1 s) == E_mod w eps q p.
Proof. exact harmonic_modified_energy. Qed.

(* [T] hence the error of the true energy is at most C eps^2 with
   C = w^2 H(q,p) / 3, independent of eps and of n (stated for eps w <= 1) *)
Theorem C07_harmonic_energy_error_quadratic :
  forall (w eps : Q) (n : nat) (q p : Q),
  eps * eps * (w * w) <= 1 ->
  let s := standard_leapfrog (hgrad w) (ScalarMass 1) 1 eps [q] [p] n in
  Qabs (E_true w (pos1 s) (mom1 s) - E_true w q p) <= (w * w * E_true w q p * (1 # 3)) * (eps * eps).
Proof. exact harmonic_energy_error_quadratic. Qed.

(* -------------------------------------------------------------- momentum law *)

(* [T] momenta are drawn as r = sqrt_mass * z (z standard normal); if
   sqrt_mass^2 * inv_mass = 1 the kinetic energy of r is 1/2 z.z, i.e. exp(-K) is
   the density the momenta are drawn from *)
Theorem C07_momentum_law_matches_kinetic_scalar :
  forall sm im z, sm * sm * im == 1 ->
  kinetic_energy (ScalarMass im) (sample_momentum_scalar sm z) == (1 # 2) * dot z z.
Proof. exact momentum_law_scalar. Qed.

Theorem C07_momentum_law_matches_kinetic_vector :
  forall sm im z, Forall2 (fun s i => s * s * i == 1) sm im ->
  kinetic_energy (VectorMass im) (sample_momentum_vector sm z) == (1 # 2) * dot z z.
Proof. exact momentum_law_vector. Qed.

(* [Tp] matrix class, two parameters: r = L z with L^T M^-1 L = I (the four entries) *)
Theorem C07_momentum_law_matches_kinetic_matrix_2d :
  forall a b c d l11 l12 l21 l22 z1 z2,
  let Minv := [[a; b]; [c; d]] in
  let L := [[l11; l12]; [l21; l22]] in
  l11 * (a * l11 + b * l21) + l21 * (c * l11 + d * l21) == 1 ->
  l11 * (a * l12 + b * l22) + l21 * (c * l12 + d * l22) == 0 ->
  l12 * (a * l11 + b * l21) + l22 * (c * l11 + d * l21) == 0 ->
  l12 * (a * l12 + b * l22) + l22 * (c * l12 + d * l22) == 1 ->
  kinetic_energy (MatrixMass Minv) (sample_momentum_matrix L [z1; z2]) == (1 # 2) * dot [z1; z2] [z1; z2].
Proof. exact momentum_law_matrix_2d. Qed.

(* ---------------------------------------------------------- finite differences *)

(* [Tp] for a log-density that is quadratic along coordinate lines (partial
   derivative g i t, constant second derivative - a i) the repaired finite_diff is
   exact up to the explicit first-order term, at EVERY point -- zero coordinates
   included (the step never vanishes because of the floor) *)
Theorem C07_finite_diff_exact_on_quadratics :
  forall (logp : vec -> Q) (beta h fl : Q) (g : nat -> vec -> Q) (a : nat -> Q),
  (forall t i s, (i < length t)%nat ->
     logp (upd i (fun x => x + s) t) == logp t + s * g i t - (1 # 2) * a i * s * s) ->
  0 < fl ->
  forall t i, (i < length t)%nat ->
  nth i (finite_diff beta logp h fl t) 0 ==
  beta * (g i t - (1 # 2) * a i * fd_step h fl (nth i t 0)).
Proof. exact finite_diff_exact_on_quadratics. Qed.

Theorem C07_finite_diff_error_bound :
  forall (logp : vec -> Q) (beta h fl : Q) (g : nat -> vec -> Q) (a : nat -> Q),
  (forall t i s, (i < length t)%nat ->
     logp (upd i (fun x => x + s) t) == logp t + s * g i t - (1 # 2) * a i * s * s) ->
  0 < fl ->
  forall t i, (i < length t)%nat ->
  Qabs (nth i (finite_diff beta logp h fl t) 0 - beta * g i t) <=
  Qabs beta * ((1 # 2) * Qabs (a i)) *
    (if Qlt_le_dec (Qabs (nth i t 0 * h)) fl then fl else Qabs (nth i t 0 * h)).
Proof. exact finite_diff_error_bound. Qed.

(* D7: the pinned formula at a zero coordinate -- zero-width step and zero divisor
   (nan in floating point, 0 under Coq's total division) although the gradient is
   1; the repaired formula returns 1 *)
Theorem C07_finite_diff_pinned_refuted :
  exists (logp : vec -> Q) (t : vec),
    (forall x s, logp [x + s] == logp [x] + s * 1) /\
    (forall h, nth 0 t 0 * h == 0 /\
               upd 0 (fun x => x * (1 + h)) t =v= t /\
               finite_diff_pinned 1 logp h t =v= [0]) /\
    (forall h fl, 0 < fl -> finite_diff 1 logp h fl t =v= [1]).
Proof. exact finite_diff_pinned_refuted. Qed.

(* ---------------------------------------------------------------- non-vacuity *)

(* the hypotheses of the bounded theorem are met by a trajectory that does reflect *)
Example C07_example_bounded :
  let grad := lin_grad [[1]] [1 # 2] in
  let lo := [0] in let hi := [1] in
  let t := [1 # 4] in let r := [3] in
  (forall k, (k < 3)%nat ->
     interior lo hi (fst (Nat.iter k (bkdk grad (VectorMass [4]) (1 # 2) (1 # 4) lo hi) (t, r)))) /\
  mom1 (bounded_leapfrog grad (VectorMass [4]) (1 # 2) (1 # 4) lo hi t r 3) < 0.
Proof.
  cbv zeta. split.
  - intros k Hk. destruct k as [|[|[|k]]]; try (exfalso; inversion Hk as [|? H1]; inversion H1 as [|? H2];
      inversion H2 as [|? H3]; inversion H3); vm_compute; repeat split; reflexivity.
  - vm_compute. reflexivity.
Qed.

(* the quadratic-along-lines hypothesis is met by the 1-D quadratic b x - 1/2 a x^2 *)
Example C07_example_quadratic : forall a b t i s, (i < length t)%nat -> length t = 1%nat ->
  quad_logp [[a]] [b] (upd i (fun x => x + s) t) ==
  quad_logp [[a]] [b] t + s * (b - a * nth 0 t 0) - (1 # 2) * a * s * s.
Proof. exact quad_1d_lines. Qed.

Print Assumptions C07_leapfrog_is_kdk_power.
Print Assumptions C07_leapfrog_reversible.
Print Assumptions C07_bounded_leapfrog_reversible.
Print Assumptions C07_bounded_wall_hypothesis_needed.
Print Assumptions C07_bounded_matrix_mass_refuted.
Print Assumptions C07_kick_drift_are_shears.
Print Assumptions C07_volume_preserving_linear_1d.
Print Assumptions C07_harmonic_modified_energy.
Print Assumptions C07_harmonic_energy_error_quadratic.
Print Assumptions C07_momentum_law_matches_kinetic_scalar.
Print Assumptions C07_momentum_law_matches_kinetic_vector.
Print Assumptions C07_momentum_law_matches_kinetic_matrix_2d.
Print Assumptions C07_finite_diff_exact_on_quadratics.
Print Assumptions C07_finite_diff_error_bound.
Print Assumptions C07_finite_diff_pinned_refuted.
