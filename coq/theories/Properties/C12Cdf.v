(* C12Cdf -- supports property C12 of /verif/properties.jsonl (GaussianKDE is a
   faithful, normalised Gaussian kernel-density estimate), clauses "the cumulative
   function is non-decreasing, rises from 0 to 1, and is the integral of the
   density to the same accuracy".
   Property theorems only; every proof is `exact <lemma>` (Proofs/KdeCdfProofs.v).

   Python source modelled (/repo/inference/pdf/kde.py):
     GaussianKDE.__call__  :110-112  dx = x - sample[slices[r]];
                                     exp(-((dx*q)**2)).sum() * norm   = kde_pdf
     GaussianKDE.cdf       :127-132  coeff = 0.5/len(sample); k = 1 + erf(dx*q);
                                     coeff*k.sum() + cdf_offsets[r]   = kde_cdf
                                     ((1 + erf(z/sqrt 2))/2 = Phi z)
     __init__              :70-72,84-88  norm, cutoff = 4h, q, slices, cdf_offsets
   Models: RealModel/Kde.v -- kde_pdf, kde_cdf, Phi, cdf_exact_at (offset 0, whole
   sample), cdf_code_at (offset of the region + sum over the slice of the region).

   What is here and was not in C12.v / GaussNorm.v:
   - the exact cdf is non-decreasing everywhere (strictly increasing), in [0,1];
     limits, derivative and integral are restated for the C12 models;
   - Phi has the tail property needed by C12_cdf_truncation_bound_partial with the
     SHARP constant eps = Phi(-7/2) (= 2.326e-4, enclosed below), so the truncation
     bound holds for the code's cdf itself (C12_cdf_truncation_bound);
   - hence the code's cdf is non-decreasing ACROSS regions up to the two truncation
     errors, lies within one truncation error of [0,1], and is within Phi(-7/2) of
     0 / 1 when the whole sample lies at least 3.5 h to the right / left. *)
From Coq Require Import Reals List QArith Qreals ZArith.
From Coquelicot Require Import Coquelicot.
From IT Require Import Model.KdeRegions Proofs.KdeRegionsProofs RealModel.Kde Proofs.KdeProofs
                       Proofs.KdeCdfProofs.
Import ListNotations.
Open Scope R_scope.

(* ---------- 1. the exact cdf  C(x) = (1/N) sum_i Phi((x - y_i)/h) ---------- *)

Theorem C12_exact_cdf_monotone : forall (h : R) (ys : list R) (x x' : R),
  ys <> [] -> 0 < h -> x <= x' ->
  kde_cdf (Z.of_nat (length ys)) 0 h ys x <= kde_cdf (Z.of_nat (length ys)) 0 h ys x'.
Proof. exact exact_cdf_monotone. Qed.

Theorem C12_exact_cdf_strictly_increasing : forall (h : R) (ys : list R) (x x' : R),
  ys <> [] -> 0 < h -> x < x' ->
  kde_cdf (Z.of_nat (length ys)) 0 h ys x < kde_cdf (Z.of_nat (length ys)) 0 h ys x'.
Proof. exact exact_cdf_strict. Qed.

Theorem C12_exact_cdf_range : forall (h : R) (ys : list R) (x : R), ys <> [] ->
  0 <= kde_cdf (Z.of_nat (length ys)) 0 h ys x <= 1.
Proof. exact exact_cdf_range. Qed.

Theorem C12_exact_cdf_limits : forall (h : R) (ys : list R), ys <> [] -> 0 < h ->
  is_lim (kde_cdf (Z.of_nat (length ys)) 0 h ys) m_infty 0 /\
  is_lim (kde_cdf (Z.of_nat (length ys)) 0 h ys) p_infty 1.
Proof. exact exact_cdf_limits. Qed.

Theorem C12_exact_cdf_derivative : forall (h : R) (ys : list R) (x : R), ys <> [] -> 0 < h ->
  is_derive (kde_cdf (Z.of_nat (length ys)) 0 h ys) x (kde_pdf (Z.of_nat (length ys)) h ys x).
Proof. exact exact_cdf_derivative. Qed.

Theorem C12_exact_cdf_integral : forall (h : R) (ys : list R) (a b : R), ys <> [] -> 0 < h ->
  is_RInt (kde_pdf (Z.of_nat (length ys)) h ys) a b
          (kde_cdf (Z.of_nat (length ys)) 0 h ys b - kde_cdf (Z.of_nat (length ys)) 0 h ys a).
Proof. exact exact_cdf_integral. Qed.

(* the same for the "exact" read-outs on rational inputs used by the generated cases *)
Theorem C12_exact_cdf_at_monotone : forall (sample : list Q) (h x x' : Q),
  sample <> [] -> (0 < h)%Q -> (x <= x')%Q ->
  cdf_exact_at sample h x <= cdf_exact_at sample h x'.
Proof. exact cdf_exact_at_monotone. Qed.

Theorem C12_exact_cdf_at_integral : forall (sample : list Q) (h a b : Q),
  sample <> [] -> (0 < h)%Q ->
  is_RInt (kde_pdf (Z.of_nat (length sample)) (Q2R h) (map Q2R sample)) (Q2R a) (Q2R b)
          (cdf_exact_at sample h b - cdf_exact_at sample h a).
Proof. exact cdf_exact_at_integral. Qed.

(* ---------- 2. truncation ---------- *)

(* Phi meets the three hypotheses of C12_cdf_truncation_bound_partial with the
   sharp eps = Phi(-7/2) *)
Theorem C12_Phi_tail_sharp :
  (forall t, 0 <= Phi t <= 1) /\
  (forall t, 7 / 2 <= t -> 1 - Phi (- (7 / 2)) <= Phi t) /\
  (forall t, t <= - (7 / 2) -> Phi t <= Phi (- (7 / 2))).
Proof. exact kPhi_tail_property_sharp. Qed.

Theorem C12_Phi_tail_value : 232 / 1000000 < Phi (- (7 / 2)) < 233 / 1000000.
Proof. exact eps35_value. Qed.

(* list level: L dropped on the left (each counted 1 through the offset |L|/N),
   M the slice, Rr dropped on the right (each counted 0); one-sided errors *)
Theorem C12_cdf_truncation_bound_lists : forall (h x : R) (L M Rr : list R), 0 < h ->
  (forall y, In y L -> y + 7 / 2 * h <= x) ->
  (forall y, In y Rr -> x + 7 / 2 * h <= y) ->
  let N := INR (length (L ++ M ++ Rr)) in
  0 < N ->
  - (INR (length L) / N * Phi (- (7 / 2)))
    <= kde_cdf (Z.of_nat (length (L ++ M ++ Rr))) 0 h (L ++ M ++ Rr) x
       - kde_cdf (Z.of_nat (length (L ++ M ++ Rr))) (INR (length L) / N) h M x
    <= INR (length Rr) / N * Phi (- (7 / 2)).
Proof. exact cdf_truncation_lists. Qed.

(* the code's cdf (region offset + slice sum) against the exact cdf: completes
   C12_cdf_truncation_bound_partial (G := Phi, eps := Phi(-7/2); the far-away
   hypothesis on the excluded samples is discharged from the covering condition
   range <= 2^n h by C12_slice_covers) *)
Theorem C12_cdf_truncation_bound : forall (sample : list Q) (h x : Q) (n : nat),
  sample <> [] -> (0 < h)%Q -> (srange (QSort.sort sample) <= pow2 n * h)%Q ->
  let s := QSort.sort sample in
  let sl := region_slice n s h (region_of n s x) in
  Rabs (cdf_exact_at sample h x - cdf_code_at n sample h x)
    <= INR (length s - length sl) / INR (length s) * Phi (- (7 / 2)).
Proof. exact cdf_code_truncation_bound. Qed.

(* ---------- 3. consequences for the code's cdf ---------- *)

(* x <= x' in possibly different regions *)
Theorem C12_cdf_monotone_across_regions : forall (sample : list Q) (h x x' : Q) (n : nat),
  sample <> [] -> (0 < h)%Q -> (srange (QSort.sort sample) <= pow2 n * h)%Q ->
  (x <= x')%Q ->
  let s := QSort.sort sample in
  let excluded := fun z => (length s - length (region_slice n s h (region_of n s z)))%nat in
  cdf_code_at n sample h x
    <= cdf_code_at n sample h x'
       + INR (excluded x) / INR (length s) * Phi (- (7 / 2))
       + INR (excluded x') / INR (length s) * Phi (- (7 / 2)).
Proof. exact cdf_code_monotone_across. Qed.

Theorem C12_cdf_monotone_across_regions_uniform :
  forall (sample : list Q) (h x x' : Q) (n : nat),
  sample <> [] -> (0 < h)%Q -> (srange (QSort.sort sample) <= pow2 n * h)%Q ->
  (x <= x')%Q ->
  cdf_code_at n sample h x <= cdf_code_at n sample h x' + 2 * Phi (- (7 / 2)).
Proof. exact cdf_code_monotone_across_uniform. Qed.

Theorem C12_cdf_range : forall (sample : list Q) (h x : Q) (n : nat),
  sample <> [] -> (0 < h)%Q -> (srange (QSort.sort sample) <= pow2 n * h)%Q ->
  let s := QSort.sort sample in
  let err := INR (length s - length (region_slice n s h (region_of n s x))) / INR (length s)
             * Phi (- (7 / 2)) in
  - err <= cdf_code_at n sample h x <= 1 + err.
Proof. exact cdf_code_range. Qed.

(* far outside the data: all samples at least 3.5 h to the right of x *)
Theorem C12_cdf_far_left : forall (sample : list Q) (h x : Q) (n : nat),
  sample <> [] -> (0 < h)%Q -> (srange (QSort.sort sample) <= pow2 n * h)%Q ->
  (forall y, In y sample -> (x + (7 # 2) * h <= y)%Q) ->
  let s := QSort.sort sample in
  let sl := region_slice n s h (region_of n s x) in
  0 <= cdf_code_at n sample h x <= INR (length sl) / INR (length s) * Phi (- (7 / 2)) /\
  INR (length sl) / INR (length s) * Phi (- (7 / 2)) <= Phi (- (7 / 2)).
Proof. exact cdf_code_far_left. Qed.

(* ... all samples at least 3.5 h to the left of x *)
Theorem C12_cdf_far_right : forall (sample : list Q) (h x : Q) (n : nat),
  sample <> [] -> (0 < h)%Q -> (srange (QSort.sort sample) <= pow2 n * h)%Q ->
  (forall y, In y sample -> (y + (7 # 2) * h <= x)%Q) ->
  let s := QSort.sort sample in
  let sl := region_slice n s h (region_of n s x) in
  1 - INR (length sl) / INR (length s) * Phi (- (7 / 2)) <= cdf_code_at n sample h x <= 1 /\
  1 - Phi (- (7 / 2)) <= 1 - INR (length sl) / INR (length s) * Phi (- (7 / 2)).
Proof. exact cdf_code_far_right. Qed.

(* the exact cdf at the same points, for comparison *)
Theorem C12_exact_cdf_far_left : forall (sample : list Q) (h x : Q),
  sample <> [] -> (0 < h)%Q ->
  (forall y, In y sample -> (x + (7 # 2) * h <= y)%Q) ->
  0 <= cdf_exact_at sample h x <= Phi (- (7 / 2)).
Proof. exact cdf_exact_far_left. Qed.

Theorem C12_exact_cdf_far_right : forall (sample : list Q) (h x : Q),
  sample <> [] -> (0 < h)%Q ->
  (forall y, In y sample -> (y + (7 # 2) * h <= x)%Q) ->
  1 - Phi (- (7 / 2)) <= cdf_exact_at sample h x <= 1.
Proof. exact cdf_exact_far_right. Qed.

(* non-vacuity: the sample of C12_example (ties, an outlier); the hypotheses of
   the across-regions and far-outside theorems hold, with x and x' in different
   regions (0 and 127) *)
Example C12Cdf_example :
  let sample := [3; 1; (5 # 2); 1; 40; 4; (7 # 2)]%Q in
  let s := QSort.sort sample in
  let h := (1 # 2)%Q in
  let n := 7%nat in
  sample <> [] /\ (0 < h)%Q /\ (srange s <= pow2 n * h)%Q /\ (-100 <= 1000)%Q /\
  region_of n s (-100) <> region_of n s 1000 /\
  (forall y, In y sample -> (-100 + (7 # 2) * h <= y)%Q) /\
  (forall y, In y sample -> (y + (7 # 2) * h <= 1000)%Q).
Proof.
  cbv zeta.
  split; [discriminate | ].
  split; [vm_compute; reflexivity | ].
  split; [vm_compute; discriminate | ].
  split; [vm_compute; discriminate | ].
  split; [vm_compute; discriminate | ].
  split; intros y Hy; simpl in Hy;
    repeat (destruct Hy as [Hy | Hy]; [subst y; vm_compute; discriminate | ]);
    destruct Hy.
Qed.

Print Assumptions C12_exact_cdf_monotone.
Print Assumptions C12_exact_cdf_strictly_increasing.
Print Assumptions C12_exact_cdf_range.
Print Assumptions C12_exact_cdf_limits.
Print Assumptions C12_exact_cdf_derivative.
Print Assumptions C12_exact_cdf_integral.
Print Assumptions C12_exact_cdf_at_monotone.
Print Assumptions C12_exact_cdf_at_integral.
Print Assumptions C12_Phi_tail_sharp.
Print Assumptions C12_Phi_tail_value.
Print Assumptions C12_cdf_truncation_bound_lists.
Print Assumptions C12_cdf_truncation_bound.
Print Assumptions C12_cdf_monotone_across_regions.
Print Assumptions C12_cdf_monotone_across_regions_uniform.
Print Assumptions C12_cdf_range.
Print Assumptions C12_cdf_far_left.
Print Assumptions C12_cdf_far_right.
Print Assumptions C12_exact_cdf_far_left.
Print Assumptions C12_exact_cdf_far_right.
