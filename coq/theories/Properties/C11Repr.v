(* C11Repr -- property C11 ("for ANY data and hyper-parameters ... The value-and-gradient
   variants return the same value and the true gradient"), the part of "any" that concerns HOW
   the numbers are handed over: hyper-parameter vectors and data given as integer arrays,
   lists / tuples of Python ints or floats, float32 ... instead of float64 arrays
   (inference/gp/regression.py: __init__ 93-99, check_error_data 296, 323, the four score
   functions and marginal_likelihood_gradient 571-575 / loo_likelihood_gradient 531-533).

   Model: Matrix/SelectionRepr.v; lemmas: Proofs/SelectionReprProofs.v.  Property theorems
   only; every proof is `exact <lemma>` or a computation on a witness.

   `rnd p q` is q rounded to p significant bits; the theorems hold for EVERY rounding
   function, the only hypothesis being that numbers representable with p bits are left alone.

     * C11_repr_as_f64_exact: a valid represented vector (numbers fit the carrier: intN /
       uintN range, p-bit floats with p <= 53, integers below 2^53 in magnitude) converts
       to float64 without any change of the numbers;
     * C11_repr_scores_of_numbers / C11_repr_scores_independent: every output of the five
       model-selection functions depends on the NUMBERS only -- two inputs holding the same
       numbers in different carriers / containers give the same scores, gradients and
       leave-one-out predictions;
     * C11_repr_gradient_buffer_exact: the gradient vectors returned are the computed
       components (mean part first, then the covariance part), unchanged, because the buffer
       is float64 whatever theta is;
     * C11_repr_integer_buffer_truncates, C11_repr_like_buffer_refuted: were the buffer made
       like theta (zeros_like), every integer-typed theta would get its gradient truncated
       toward zero -- each non-integer component changed, by less than 1;
     * C11_repr_pinned_data_refuted: the pinned constructor kept integer data in their own
       dtype; y_err**2 (until fix D51) and the squared coordinate differences (until /repo
       66ad722) then wrapped around (int8: errors >= 12, coordinates 12 apart; uint8: errors
       >= 16, coordinates 31 apart);
       C11_repr_pinned_data_small: below the range limit it was right.

   Not modelled: exponent range (overflow / subnormals) of the float carriers; the working
   precision of the kernels for a theta whose carrier has fewer than 53 bits (`ufunc_prec`:
   float32, float16, 8/16-bit integers) -- the scores are then the float64 scores up to that
   precision, which the run checks with widened tolerances (Matrix/SelectionRepr.v, fac_g /
   fac_v) and does not prove. *)
From Coq Require Import List QArith Qabs Bool Arith ZArith.
From IT Require Import Matrix.MxOps Matrix.ListOps Matrix.Selection Matrix.SelectionCheck Matrix.SelectionRepr.
From IT Require Import Proofs.SelectionReprProofs.
Import ListNotations.
Open Scope Q_scope.

Definition rounding_exact (rnd : Z -> Q -> Q) : Prop :=
  forall p q, float_repr_b p q = true -> Qred (rnd p q) = Qred q.

Theorem C11_repr_as_f64_exact (rnd : Z -> Q -> Q) :
  rounding_exact rnd ->
  forall r : rvec, rvec_valid_b r = true -> as_f64 rnd r = denote r.
Proof. exact (as_f64_exact rnd). Qed.

Theorem C11_repr_scores_of_numbers (rnd : Z -> Q -> Q) :
  rounding_exact rnd ->
  forall (O : mxops) (n : nat)
         (chol_of : list Q -> list Q -> list Q -> mx O n n) (mu_of : list Q -> list Q -> mx O n 1)
         (dK_of : list Q -> list Q -> list (mx O n n)) (dmu_of : list Q -> list Q -> list (mx O n 1))
         (y_of : list Q -> mx O n 1) (rd : mx O 1 1 -> Q) (i : inputs),
  inputs_valid_b i = true ->
  scores_of rnd chol_of mu_of dK_of dmu_of y_of rd i
  = scores_of_arrays rnd chol_of mu_of dK_of dmu_of y_of rd grad_buffer
      (denote (i_theta i)) (denote (i_x i)) (denote (i_y i)) (denote (i_err i)).
Proof. exact (scores_of_denote rnd). Qed.

Theorem C11_repr_scores_independent (rnd : Z -> Q -> Q) :
  rounding_exact rnd ->
  forall (O : mxops) (n : nat)
         (chol_of : list Q -> list Q -> list Q -> mx O n n) (mu_of : list Q -> list Q -> mx O n 1)
         (dK_of : list Q -> list Q -> list (mx O n n)) (dmu_of : list Q -> list Q -> list (mx O n 1))
         (y_of : list Q -> mx O n 1) (rd : mx O 1 1 -> Q) (i j : inputs),
  inputs_valid_b i = true -> inputs_valid_b j = true -> same_numbers i j ->
  scores_of rnd chol_of mu_of dK_of dmu_of y_of rd i = scores_of rnd chol_of mu_of dK_of dmu_of y_of rd j.
Proof. exact (scores_repr_independent rnd). Qed.

Theorem C11_repr_gradient_buffer_exact (rnd : Z -> Q -> Q) :
  rounding_exact rnd ->
  forall (O : mxops) (n : nat)
         (chol_of : list Q -> list Q -> list Q -> mx O n n) (mu_of : list Q -> list Q -> mx O n 1)
         (dK_of : list Q -> list Q -> list (mx O n n)) (dmu_of : list Q -> list Q -> list (mx O n 1))
         (y_of : list Q -> mx O n 1) (rd : mx O 1 1 -> Q) (i : inputs),
  let th := as_f64 rnd (i_theta i) in let x := data_x rnd (i_x i) in
  let L := chol_of th x (as_f64 rnd (i_err i)) in
  let yv := y_of (data_y rnd (i_y i)) in let mu := mu_of th x in
  let ml_parts := map (fun dmu => rd (mlg_mean_grad L yv mu dmu)) (dmu_of th x)
                  ++ map (fun dK => rd (mlg_cov_grad L yv mu dK)) (dK_of th x) in
  let loo_parts := map (fun dmu => rd (loo_mean_grad L yv mu dmu)) (dmu_of th x)
                   ++ map (fun dK => rd (loo_cov_grad L yv mu dK)) (dK_of th x) in
  forallb (float_repr_b 53) ml_parts = true -> forallb (float_repr_b 53) loo_parts = true ->
  map Qred (sc_mlg_grad (scores_of rnd chol_of mu_of dK_of dmu_of y_of rd i)) = map Qred ml_parts /\
  map Qred (sc_loo_grad (scores_of rnd chol_of mu_of dK_of dmu_of y_of rd i)) = map Qred loo_parts.
Proof. exact (scores_gradients_exact rnd). Qed.

Theorem C11_repr_integer_buffer_truncates (rnd : Z -> Q -> Q) (s : bool) (b : Z) (v : Q) :
  is_int (store rnd (CInt s b) v) = true /\
  Qabs (inject_Z (trunc v) - v) < 1 /\
  (is_int v = false -> ~ store rnd (CInt s b) v == v).
Proof.
  exact (conj (store_int_is_int rnd s b v)
              (conj (trunc_close v) (store_int_changes_non_integers rnd s b v))).
Qed.

(* the witness: one data point y = 1, K_xx + sig = 4 (L = 2), mean 0 with gradient 1; the
   mean-part gradient is alpha * 1 = 1/4; theta = array([2]) of dtype int64 *)
Definition w_rnd (p : Z) (q : Q) : Q := q.
Definition w_chol (th x e : list Q) : mx ListOps 1 1 := [[2]].
Definition w_mu (th x : list Q) : mx ListOps 1 1 := [[0]].
Definition w_dK (th x : list Q) : list (mx ListOps 1 1) := [].
Definition w_dmu (th x : list Q) : list (mx ListOps 1 1) := [[[1]]].
Definition w_y (y : list Q) : mx ListOps 1 1 := [[hd 0 y]].
Definition w_inputs : inputs :=
  {| i_theta := RVec int64 Ndarray [2]; i_x := RVec (CFloat 53) Ndarray [0];
     i_y := RVec (CFloat 53) Ndarray [1]; i_err := RVec (CFloat 53) Ndarray [0] |}.

Lemma w_rnd_exact : rounding_exact w_rnd.
Proof. intros p q _. reflexivity. Qed.

Theorem C11_repr_like_buffer_refuted :
  exists (rnd : Z -> Q -> Q) (i : inputs),
    rounding_exact rnd /\ inputs_valid_b i = true /\
    map Qred (sc_mlg_grad (scores_of rnd w_chol w_mu w_dK w_dmu w_y entry11 i)) = [1 # 4] /\
    map Qred (sc_mlg_grad (scores_of_like rnd w_chol w_mu w_dK w_dmu w_y entry11 i)) = [0].
Proof.
  exists w_rnd, w_inputs. split; [exact w_rnd_exact|].
  split; [vm_compute; reflexivity|]. split; vm_compute; reflexivity.
Qed.

Theorem C11_repr_pinned_data_refuted :
  (carrier_repr_b int8 12 = true /\ ~ sq_pinned int8 12 == 12 * 12) /\
  (carrier_repr_b uint8 16 = true /\ ~ sq_pinned uint8 16 == 16 * 16) /\
  (carrier_repr_b int8 0 = true /\ carrier_repr_b int8 12 = true /\ ~ sqdist_pinned int8 0 12 == sqdist 0 12) /\
  (carrier_repr_b uint8 0 = true /\ carrier_repr_b uint8 31 = true /\ ~ sqdist_pinned uint8 0 31 == sqdist 0 31).
Proof.
  exact (conj sq_pinned_int8_refuted (conj sq_pinned_uint8_refuted
        (conj sqdist_pinned_int8_refuted sqdist_pinned_uint8_refuted))).
Qed.

Theorem C11_repr_pinned_data_small (b : Z) (e : Q) :
  (1 <= b)%Z -> is_int e = true -> (int_of e * int_of e < 2 ^ (b - 1))%Z ->
  sq_pinned (CInt true b) e == e * e.
Proof. exact (sq_pinned_in_range b e). Qed.

(* ---- non-vacuity: the hypotheses are satisfiable -------------------------------------------------- *)
(* the same three numbers as an int64 array, a list of Python ints, a tuple of Python floats, a
   float32 array: all valid, all denote [2; 1; 0] *)
Example C11_repr_example :
  let a := RVec int64 Ndarray [2; 1; 0] in
  let b := RVec CPyInt PyList [2; 1; 0] in
  let c := RVec (CFloat 53) PyTuple [4 # 2; 1; 0] in
  let d := RVec (CFloat 24) Ndarray [2; 1; 0] in
  rounding_exact w_rnd /\
  forallb rvec_valid_b [a; b; c; d] = true /\
  denote a = denote b /\ denote b = denote c /\ denote c = denote d /\
  (* 0.1 (the double) is not a float32, 300 is not an int8, 2^53 + 1 is not a valid integer *)
  carrier_repr_b (CFloat 24) (3602879701896397 # 36028797018963968) = false /\
  carrier_repr_b (CFloat 53) (3602879701896397 # 36028797018963968) = true /\
  carrier_repr_b int8 300 = false /\ carrier_repr_b CPyInt (9007199254740993 # 1) = false.
Proof. split; [exact w_rnd_exact|]. vm_compute. repeat split; reflexivity. Qed.

Print Assumptions C11_repr_as_f64_exact.
Print Assumptions C11_repr_scores_of_numbers.
Print Assumptions C11_repr_scores_independent.
Print Assumptions C11_repr_gradient_buffer_exact.
Print Assumptions C11_repr_integer_buffer_truncates.
Print Assumptions C11_repr_like_buffer_refuted.
Print Assumptions C11_repr_pinned_data_refuted.
Print Assumptions C11_repr_pinned_data_small.
Print Assumptions C11_repr_example.
