(* On-line tuning of proposal widths and of the leapfrog step size (supplement to C01 / C09:
   the "tuning state"): what the adjustment can and cannot do to a width. *)
From Coq Require Import Reals QArith Qreals ZArith.
From IT Require Import Model.Adaptation RealModel.AdaptFormula Proofs.AdaptationProofs.

(* the factor applied to a width is always inside [lo, hi] (0.1..3 for Parameter, 0.5..2 for
   the step size), so a positive width stays positive *)
Theorem Adapt_factor_range : forall target mu rate lo hi : R, (lo <= hi)%R ->
  (lo <= adj target mu rate lo hi <= hi)%R.
Proof. exact adj_range. Qed.

Theorem Adapt_width_positive : forall target mu rate lo hi w : R,
  (0 < lo)%R -> (lo <= hi)%R -> (0 < w)%R -> (0 < w * adj target mu rate lo hi)%R.
Proof. exact width_stays_positive. Qed.

(* acceptance below the target narrows, above the target widens *)
Theorem Adapt_direction : forall target mu rate : R,
  (0 < target < 1)%R -> (0 < mu < 1)%R -> (0 < rate)%R ->
  ((mu < target)%R -> (adj_raw target mu rate < 1)%R) /\
  ((target < mu)%R -> (1 < adj_raw target mu rate)%R) /\
  (mu = target -> adj_raw target mu rate = 1%R).
Proof. exact adj_raw_direction. Qed.

(* the check interval never shrinks and stays a multiple of ten *)
Theorem Adapt_check_interval : forall (g : Q) (c : Z), (1 <= g)%Q -> (0 <= c)%Z -> (10 | c)%Z ->
  (c <= grow_chk g c)%Z /\ (10 | grow_chk g c)%Z.
Proof. exact grow_chk_spec. Qed.

(* the rational band test of the model is the code's 2-sigma test over the reals *)
Theorem Adapt_band_is_two_sigma : forall t : tuner, (0 < t_num t)%nat -> (0 <= t_var t)%Q ->
  in_band t = true <->
  (Q2R (t_avg t) / INR (t_num t) - 2 * (sqrt (Q2R (t_var t)) / INR (t_num t)) < Q2R (t_target t)
   < Q2R (t_avg t) / INR (t_num t) + 2 * (sqrt (Q2R (t_var t)) / INR (t_num t)))%R.
Proof. exact in_band_real. Qed.

Print Assumptions Adapt_factor_range.
Print Assumptions Adapt_width_positive.
Print Assumptions Adapt_direction.
Print Assumptions Adapt_check_interval.
Print Assumptions Adapt_band_is_two_sigma.
