(* C11Jacobi -- supports C11 ("the value-and-gradient variants return ... the true gradient",
   inference/gp/regression.py, marginal_likelihood_gradient, lines 550-573:
     LML = -0.5 * ((y - mu).T @ alpha) - log(diagonal(L)).sum()          -- -1/2 r^T A^-1 r - 1/2 ln det A
     Q = alpha[:, None] * alpha[None, :] - iK ;  0.5 * (Q * dK.T).sum()  -- 1/2 tr((alpha alpha^T - A^-1) dA))
   and C17 ("its reported gradient is the true gradient", inference/gp/inversion.py,
   marginal_likelihood_gradient, lines 195-217, the same two formulas with J = A K A^T + S).

   The trace form rests on  d(ln det A) = tr(A^-1 dA)  (Jacobi's formula) and
   d(A^-1) = -A^-1 dA A^-1.  Both are proved here for EVERY size n, in algebraic form
   (Matrix/Jacobi.v; property theorems only, every proof is `exact <lemma>`):

     * det (A + t dA) is a polynomial in t (C11_jacobi_poly_eval, degree <= n) whose constant
       coefficient is det A and whose coefficient of t is tr (adj A dA)  (C11_jacobi_coefficients);
       hence det (A + t dA) = det A + t tr (adj A dA) + t^2 rem(t) with rem a polynomial in t whose
       coefficients depend on A, dA only (C11_jacobi_first_order) -- over any commutative ring;
     * for invertible A the coefficient of t is det A tr (A^-1 dA) (C11_jacobi_unit), relative
       form det (A + t dA) / det A = 1 + t tr (A^-1 dA) + t^2 ... (C11_jacobi_log_det_form);
     * the formal derivative of that polynomial at every t is tr (adj (A + t dA) dA)
       (C11_jacobi_formal_derivative);
     * over an ordered field the coefficient is the derivative in the epsilon-delta sense
       (C11_jacobi_derivative, C11_jacobi_log_derivative): no analysis library is needed for
       this, the remainder polynomial is bounded on |t| <= 1;
     * the inverse: resolvent identity, exact (C11_inverse_resolvent), its first-order form with
       explicit t^2 remainder (C11_inverse_first_order_exact) and the same for the data-fit term
       u^T A^-1 v (C11_quad_first_order_exact).

   What is still outside: the real logarithm (ln det A itself, rather than det A and the
   ratio det (A + t dA) / det A) -- chain rule with ln'(x) = 1/x -- and the composition with the
   kernel's dependence theta |-> K(theta), which is not linear in theta: the theorems give the
   directional derivative of det and of the inverse along dA, i.e. the matrix half of the chain
   rule. *)
From mathcomp Require Import all_ssreflect all_algebra.
From IT Require Import Matrix.Jacobi.

Set Implicit Arguments.
Unset Strict Implicit.
Unset Printing Implicit Defensive.

Import GRing.Theory Num.Theory.
Local Open Scope ring_scope.

(* ---- determinant: commutative ring ---------------------------------------------------------- *)
Theorem C11_jacobi_poly_eval (R : comRingType) n (A dA : 'M[R]_n) (t : R) :
  (det_perturb_poly A dA).[t] = \det (A + t *: dA).
Proof. exact: det_perturb_horner. Qed.

Theorem C11_jacobi_poly_degree (R : comRingType) n (A dA : 'M[R]_n) :
  (size (det_perturb_poly A dA) <= n.+1)%N /\ (size (det_perturb_rem A dA) <= n.-1)%N.
Proof. exact: det_perturb_sizes. Qed.

Theorem C11_jacobi_coefficients (R : comRingType) n (A dA : 'M[R]_n) :
  (det_perturb_poly A dA)`_0 = \det A /\
  (det_perturb_poly A dA)`_1 = \tr (\adj A *m dA).
Proof. exact: det_perturb_coefs. Qed.

Theorem C11_jacobi_first_order (R : comRingType) n (A dA : 'M[R]_n) (t : R) :
  \det (A + t *: dA)
  = \det A + t * \tr (\adj A *m dA) + t ^+ 2 * (det_perturb_rem A dA).[t].
Proof. exact: det_perturb_first_order. Qed.

Theorem C11_jacobi_formal_derivative (R : comRingType) n (A dA : 'M[R]_n) (t : R) :
  ((det_perturb_poly A dA)^`()).[t] = \tr (\adj (A + t *: dA) *m dA).
Proof. exact: det_perturb_deriv. Qed.

(* ---- determinant: invertible A ---------------------------------------------------------------- *)
Theorem C11_jacobi_unit (R : comUnitRingType) n (A dA : 'M[R]_n) (t : R) :
  A \in unitmx ->
  (det_perturb_poly A dA)`_1 = \det A * \tr (invmx A *m dA) /\
  \det (A + t *: dA)
  = \det A + t * (\det A * \tr (invmx A *m dA)) + t ^+ 2 * (det_perturb_rem A dA).[t].
Proof. exact: det_perturb_unit. Qed.

Theorem C11_jacobi_unit_field (F : fieldType) n (A dA : 'M[F]_n) (t : F) :
  A \in unitmx ->
  \det (A + t *: dA)
  = \det A + t * (\det A * \tr (invmx A *m dA)) + t ^+ 2 * (det_perturb_rem A dA).[t].
Proof. exact: det_perturb_first_order_unit. Qed.

Theorem C11_jacobi_log_det_form (R : comUnitRingType) n (A dA : 'M[R]_n) (t : R) :
  A \in unitmx ->
  \det (A + t *: dA) / \det A
  = 1 + t * \tr (invmx A *m dA) + t ^+ 2 * ((det_perturb_rem A dA).[t] / \det A).
Proof. exact: det_perturb_ratio. Qed.

Theorem C11_jacobi_formal_derivative_unit (R : comUnitRingType) n (A dA : 'M[R]_n) (t : R) :
  A + t *: dA \in unitmx ->
  ((det_perturb_poly A dA)^`()).[t]
  = \det (A + t *: dA) * \tr (invmx (A + t *: dA) *m dA).
Proof. exact: det_perturb_deriv_unit. Qed.

(* ---- determinant: ordered field, the derivative in epsilon-delta form --------------------- *)
Theorem C11_jacobi_derivative (R : realFieldType) n (A dA : 'M[R]_n) (t0 eps : R) :
  0 < eps ->
  exists2 delta, 0 < delta &
    forall h, h != 0 -> `|h| < delta ->
      `|(\det (A + (t0 + h) *: dA) - \det (A + t0 *: dA)) / h
        - \tr (\adj (A + t0 *: dA) *m dA)| < eps.
Proof. exact: det_perturb_derivative_at. Qed.

Theorem C11_jacobi_derivative_unit (R : realFieldType) n (A dA : 'M[R]_n) (eps : R) :
  A \in unitmx -> 0 < eps ->
  exists2 delta, 0 < delta &
    forall t, t != 0 -> `|t| < delta ->
      `|(\det (A + t *: dA) - \det A) / t - \det A * \tr (invmx A *m dA)| < eps.
Proof. exact: det_perturb_derivative_unit. Qed.

Theorem C11_jacobi_log_derivative (R : realFieldType) n (A dA : 'M[R]_n) (eps : R) :
  A \in unitmx -> 0 < eps ->
  exists2 delta, 0 < delta &
    forall t, t != 0 -> `|t| < delta ->
      `|(\det (A + t *: dA) / \det A - 1) / t - \tr (invmx A *m dA)| < eps.
Proof. exact: det_perturb_log_derivative. Qed.

(* ---- inverse ---------------------------------------------------------------------------------- *)
Theorem C11_inverse_resolvent (R : comUnitRingType) n (A dA : 'M[R]_n) (t : R) :
  A \in unitmx -> A + t *: dA \in unitmx ->
  invmx (A + t *: dA) = invmx A - t *: (invmx A *m dA *m invmx (A + t *: dA)).
Proof. exact: inv_resolvent. Qed.

Theorem C11_inverse_resolvent_right (R : comUnitRingType) n (A dA : 'M[R]_n) (t : R) :
  A \in unitmx -> A + t *: dA \in unitmx ->
  invmx (A + t *: dA) = invmx A - t *: (invmx (A + t *: dA) *m dA *m invmx A).
Proof. exact: inv_resolvent_r. Qed.

Theorem C11_inverse_first_order_exact (R : comUnitRingType) n (A dA : 'M[R]_n) (t : R) :
  A \in unitmx -> A + t *: dA \in unitmx ->
  invmx (A + t *: dA)
  = invmx A - t *: (invmx A *m dA *m invmx A)
    + t ^+ 2 *: (invmx A *m dA *m invmx A *m dA *m invmx (A + t *: dA)).
Proof. exact: inv_perturb_first_order. Qed.

Theorem C11_quad_first_order_exact (R : comUnitRingType) n (A dA : 'M[R]_n)
    (u v : 'cV[R]_n) (t : R) :
  A \in unitmx -> A + t *: dA \in unitmx ->
  u^T *m invmx (A + t *: dA) *m v
  = u^T *m invmx A *m v - t *: (u^T *m invmx A *m dA *m invmx A *m v)
    + t ^+ 2 *: (u^T *m invmx A *m dA *m invmx A *m dA *m invmx (A + t *: dA) *m v).
Proof. exact: quad_inv_perturb_first_order. Qed.

Print Assumptions C11_jacobi_poly_eval.
Print Assumptions C11_jacobi_poly_degree.
Print Assumptions C11_jacobi_coefficients.
Print Assumptions C11_jacobi_first_order.
Print Assumptions C11_jacobi_formal_derivative.
Print Assumptions C11_jacobi_unit.
Print Assumptions C11_jacobi_unit_field.
Print Assumptions C11_jacobi_log_det_form.
Print Assumptions C11_jacobi_formal_derivative_unit.
Print Assumptions C11_jacobi_derivative.
Print Assumptions C11_jacobi_derivative_unit.
Print Assumptions C11_jacobi_log_derivative.
Print Assumptions C11_inverse_resolvent.
Print Assumptions C11_inverse_resolvent_right.
Print Assumptions C11_inverse_first_order_exact.
Print Assumptions C11_quad_first_order_exact.
