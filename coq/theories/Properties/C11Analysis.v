(* C11 (real-number half) -- the logarithm steps of the model-selection scores and the
   n = 2 derivative.  Property theorems only; every proof is `exact <lemma>`
   (Proofs/SelectionValueProofs.v).  Coq's reals.

   The matrix half (Properties/C11.v) gives, over any real field,
       quad part of marginal_likelihood = -1/2 r^T A^-1 r,   det A = (prod_i L_ii)^2,
       quad part of loo_likelihood      = -1/2 sum_i (y_i - m_i)^2 / v_i
   with m_i, v_i the leave-one-out predictions, which are the refit predictions.  Here the
   logarithms are added:  sum_i ln L_ii = 1/2 ln det A,  and the LOO score is the sum of
   the Gaussian log-densities of the LOO predictions. *)
From Coq Require Import Reals List.
From Coquelicot Require Import Coquelicot.
From IT Require Import RealModel.SelectionValue Proofs.SelectionValueProofs.
Import ListNotations.
Open Scope R_scope.

(* marginal_likelihood = -1/2 r^T A^-1 r - 1/2 ln det A  (the log-density of y under
   N(mu, A) up to -n/2 ln 2 pi), given the two algebraic facts of C11_ml_value_algebra *)
Theorem C11_ml_value : forall quad diagL detA,
  List.Forall (fun x => 0 < x) diagL -> detA = (prod_list diagL) ^ 2 ->
  ml_value quad diagL = ml_closed quad detA.
Proof. exact ml_value_closed. Qed.

(* loo_likelihood = sum_i log N(y_i; m_i, v_i) (up to the constant) *)
Theorem C11_loo_value_logs : forall ys ms vs,
  length ms = length ys -> length vs = length ys ->
  loo_value (loo_quad_R ys ms vs) vs = loo_closed ys ms vs.
Proof. exact loo_value_closed. Qed.

(* [Tp] n = 2: the trace form 1/2 tr((alpha alpha^T - A^-1) dA) is the derivative of the
   marginal likelihood in the direction dA (Jacobi's formula and d(A^-1) = -A^-1 dA A^-1,
   which are only CITED for general n) *)
Theorem C11_ml_gradient_is_derivative_n2 : forall a b c r1 r2 da db dc,
  0 < det2 a b c ->
  is_derive (fun t => ml2 (a + t * da) (b + t * db) (c + t * dc) r1 r2) 0
            (ml2_trace_form a b c r1 r2 da db dc).
Proof. exact ml2_trace_form_is_derivative. Qed.

(* non-vacuity *)
Example C11_ml_value_example : ml_value 0 [1; 1] = ml_closed 0 1.
Proof.
  apply C11_ml_value; [repeat constructor; apply Rlt_0_1|simpl; ring].
Qed.

Print Assumptions C11_ml_value.
Print Assumptions C11_loo_value_logs.
Print Assumptions C11_ml_gradient_is_derivative_n2.
