(* C07 -- Hamiltonian trajectories when the user's gradient function returns an
   array it KEEPS (a stored vector, a cached result, an output buffer), over any
   history of run_leapfrog calls on the same chain.  Property theorems only; every
   proof is `exact <lemma>`.

   Model/LeapfrogShared.v: `keeper` is the state of the callable, `kcall` one call,
   `kwb` the content the library leaves in the returned array (which the callable
   holds afterwards), `kick_stmt` the statement `r += c * self.grad(t)` of
   hmc/__init__.py (the product is a new array: the returned array is left as
   returned).  `kinv grad k`: the callable k is a correct gradient function of grad. *)
From Coq Require Import List QArith Qround Qabs ZArith.
From IT Require Import Model.Leapfrog Model.LeapfrogShared Proofs.LeapfrogProofs
  Proofs.LeapfrogSharedProofs.
Import ListNotations.
Open Scope Q_scope.

(* [T] for every kind of callable that is a correct gradient function, the
   trajectory computed in the shared world IS the leapfrog trajectory of the
   log-density (Model/Leapfrog.v), and the callable is still correct afterwards --
   any force, mass kind, temperature, step size and step count *)
Theorem C07_shared_leapfrog_is_leapfrog :
  forall (grad : vec -> vec) (m : mass) (inv_temp eps : Q),
  (forall t t', t =v= t' -> grad t =v= grad t') ->
  forall k t r n, kinv grad k ->
  let w := shared_standard_leapfrog grad kick_stmt m inv_temp eps k t r n in
  snd w =s= standard_leapfrog grad m inv_temp eps t r n /\ kinv grad (fst w).
Proof.
  intros grad m b e Hg k t r n Hk.
  destruct (shared_leapfrog_rel grad m b e Hg k t r n Hk) as [H1 H2]. split; assumption.
Qed.

Theorem C07_shared_bounded_leapfrog_is_bounded_leapfrog :
  forall (grad : vec -> vec) (m : mass) (inv_temp eps : Q) (lo hi : vec),
  (forall t t', t =v= t' -> grad t =v= grad t') ->
  forall k t r n, kinv grad k ->
  let w := shared_bounded_leapfrog grad kick_stmt m inv_temp eps lo hi k t r n in
  snd w =s= bounded_leapfrog grad m inv_temp eps lo hi t r n /\ kinv grad (fst w).
Proof.
  intros grad m b e lo hi Hg k t r n Hk.
  destruct (shared_bounded_leapfrog_rel grad m b e Hg lo hi k t r n Hk) as [H1 H2]. split; assumption.
Qed.

(* [T] call histories: any number of run_leapfrog calls on one chain with one
   callable -- every call returns the leapfrog trajectory of its own request,
   whatever was asked before *)
Theorem C07_shared_history :
  forall (grad : vec -> vec) (m : mass) (inv_temp eps : Q),
  (forall t t', t =v= t' -> grad t =v= grad t') ->
  forall reqs k, kinv grad k ->
  let out := run_seq (shared_standard_leapfrog grad kick_stmt m inv_temp eps) k reqs in
  kinv grad (fst out) /\
  Forall2 (fun s (q : request) => let '(t, r, n) := q in
             s =s= standard_leapfrog grad m inv_temp eps t r n) (snd out) reqs.
Proof.
  intros grad m b e Hg reqs k Hk.
  exact (run_seq_rel grad _ (standard_leapfrog grad m b e)
           (fun k t r n H => shared_leapfrog_rel grad m b e Hg k t r n H) reqs k Hk).
Qed.

Theorem C07_shared_history_bounded :
  forall (grad : vec -> vec) (m : mass) (inv_temp eps : Q) (lo hi : vec),
  (forall t t', t =v= t' -> grad t =v= grad t') ->
  forall reqs k, kinv grad k ->
  let out := run_seq (shared_bounded_leapfrog grad kick_stmt m inv_temp eps lo hi) k reqs in
  kinv grad (fst out) /\
  Forall2 (fun s (q : request) => let '(t, r, n) := q in
             s =s= bounded_leapfrog grad m inv_temp eps lo hi t r n) (snd out) reqs.
Proof.
  intros grad m b e lo hi Hg reqs k Hk.
  exact (run_seq_rel grad _ (bounded_leapfrog grad m b e lo hi)
           (fun k t r n H => shared_bounded_leapfrog_rel grad m b e Hg lo hi k t r n H) reqs k Hk).
Qed.

(* [T] reversibility with the SAME callable serving both runs: run, negate the
   momentum, run, negate = the start *)
Theorem C07_shared_leapfrog_reversible :
  forall (grad : vec -> vec) (m : mass) (inv_temp eps : Q),
  (forall t t', t =v= t' -> grad t =v= grad t') ->
  forall k n t r, kinv grad k ->
  let w1 := shared_standard_leapfrog grad kick_stmt m inv_temp eps k t r n in
  let w2 := shared_standard_leapfrog grad kick_stmt m inv_temp eps (fst w1)
              (fst (snd w1)) (vneg (snd (snd w1))) n in
  flip (snd w2) =s= (t, r) /\ kinv grad (fst w2).
Proof. exact shared_leapfrog_reversible. Qed.

(* [Tp] the same with reflecting walls (hypotheses of C07_bounded_leapfrog_reversible) *)
Theorem C07_shared_bounded_leapfrog_reversible :
  forall (grad : vec -> vec) (m : mass) (inv_temp eps : Q),
  (forall t t', t =v= t' -> grad t =v= grad t') ->
  forall (lo hi : vec) k n t r, kinv grad k ->
  diagonal_mass m ->
  (forall j, (j < Nat.max 1 n)%nat ->
     interior lo hi (fst (Nat.iter j (bkdk grad m inv_temp eps lo hi) (t, r)))) ->
  let w1 := shared_bounded_leapfrog grad kick_stmt m inv_temp eps lo hi k t r n in
  let w2 := shared_bounded_leapfrog grad kick_stmt m inv_temp eps lo hi (fst w1)
              (fst (snd w1)) (vneg (snd (snd w1))) n in
  flip (snd w2) =s= (t, r) /\ kinv grad (fst w2).
Proof. exact shared_bounded_leapfrog_reversible. Qed.

(* [T] a stored vector is, after any trajectory, the very vector it was (syntactic
   equality; no hypothesis on the force or on the vector) *)
Theorem C07_stored_array_untouched :
  forall (grad : vec -> vec) (m : mass) (inv_temp eps : Q) (g t r : vec) (n : nat),
  fst (shared_standard_leapfrog grad kick_stmt m inv_temp eps (KStored g) t r n) = KStored g.
Proof. exact stored_untouched. Qed.

Theorem C07_stored_array_untouched_bounded :
  forall (grad : vec -> vec) (m : mass) (inv_temp eps : Q) (lo hi g t r : vec) (n : nat),
  fst (shared_bounded_leapfrog grad kick_stmt m inv_temp eps lo hi (KStored g) t r n) = KStored g.
Proof. exact stored_untouched_bounded. Qed.

(* [T] (refutation) the statement  g = self.grad(t); g *= c; r += g  instead: with
   the stored gradient of the log-density -x, the caller's vector is changed, the
   trajectory is not the leapfrog trajectory, it is not reversible, and the same
   request gives a different answer the second time *)
Theorem C07_inplace_scaling_refuted :
  exists (g t r : vec) (eps : Q) (n : nat),
    let grad := fun _ : vec => g in
    let run := shared_standard_leapfrog grad kick_stmt_inplace (ScalarMass 1) 1 eps in
    let w1 := run (KStored g) t r n in
    let w2 := run (fst w1) (fst (snd w1)) (vneg (snd (snd w1))) n in
    let w1' := run (fst w1) t r n in
    kinv grad (KStored g) /\
    kept (fst w1) <> Some g /\
    ~ snd w1 =s= standard_leapfrog grad (ScalarMass 1) 1 eps t r n /\
    ~ flip (snd w2) =s= (t, r) /\
    ~ snd w1' =s= snd w1.
Proof. exact inplace_scaling_refuted. Qed.

(* ---------------------------------------------------------------- non-vacuity *)

(* the invariant is met: by the stored gradient of a linear log-density, by a cache
   that holds a correct entry (and by the empty cache, a buffer, a fresh-array
   callable: kinv is True) *)
Example C07_example_stored : forall b, kinv (lin_grad [[0]] [b]) (KStored [b]).
Proof.
  intros b t. unfold lin_grad, mat_vec. simpl. constructor; [|constructor].
  rewrite Qred_correct. destruct t as [|x t']; simpl; [ring|]. rewrite Qred_correct. ring.
Qed.

Example C07_example_memo : forall A b p, kinv (lin_grad A b) (KMemo (Some (p, lin_grad A b p))).
Proof. intros A b p. simpl. reflexivity. Qed.

Print Assumptions C07_shared_leapfrog_is_leapfrog.
Print Assumptions C07_shared_bounded_leapfrog_is_bounded_leapfrog.
Print Assumptions C07_shared_history.
Print Assumptions C07_shared_history_bounded.
Print Assumptions C07_shared_leapfrog_reversible.
Print Assumptions C07_shared_bounded_leapfrog_reversible.
Print Assumptions C07_stored_array_untouched.
Print Assumptions C07_stored_array_untouched_bounded.
Print Assumptions C07_inplace_scaling_refuted.
