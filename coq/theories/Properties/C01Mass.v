(* C01, Hamiltonian sampler, mass settings: the accept test of HamiltonianChain.take_step is
   the Metropolis-Hastings probability for the momentum that was actually drawn.

   take_step draws r0 = momentum z (z: standard-normal draws; `sqrt_mass * z` or `L @ z`),
   and accepts with probability min(1, exp(H0 - H)), H0 = kinetic r0 - logp(t0)/T.  The
   draw has density proportional to exp(-1/2 z.z); the test treats it as having density
   proportional to exp(-kinetic r0).  The two coincide -- for every z, any number of
   parameters -- exactly when the factor used for drawing and the inverse mass used in the
   kinetic energy describe the same mass:

     per-parameter mass    sqrt_mass_i^2 * inv_mass_i = 1
     full matrix           L^T inv_mass L = I         (Model/HmcMass.v: mass_gram)

   (C01_hmc_momentum_law).  `mass_ok tol n m` is that comparison as run on the state of the
   real chain before every recorded transition (check_hmc_mass, also after estimate_mass);
   at tolerance 0 it is the hypothesis of the theorem (C01_hmc_mass_ok_exact).  A factor
   that is the TRANSPOSE of the right one -- still triangular, still the inverse of a
   Cholesky factor -- fails it and gives a different energy (C01_hmc_transposed_factor_refuted):
   the chain would then accept with a probability that is not the Metropolis-Hastings
   probability of the proposed move, and its long-run distribution is not the posterior. *)
From Coq Require Import QArith List.
From IT Require Import Common.ExpBounds Model.Reflect Model.Samplers Model.HmcMass Proofs.HmcMassProofs.
Import ListNotations.
Open Scope Q_scope.

(* [T] any number of parameters n, any of the three mass classes *)
Theorem C01_hmc_momentum_law : forall (n : nat) (m : mass) (z : list Q),
  mass_exact n m -> length z = n ->
  kinetic m (momentum m z) == (1 # 2) * vdot z z.
Proof. exact momentum_law. Qed.

(* [T] the full-matrix case spelled out *)
Theorem C01_hmc_momentum_law_full : forall (n : nat) (inv_mass L : list (list Q)) (z : list Q),
  Forall (fun r => length r = n) L ->
  mat_eq (mass_gram n inv_mass L) (ident n) ->          (* L^T inv_mass L = I *)
  length z = n ->
  (1 # 2) * vdot (mat_vec L z) (mat_vec inv_mass (mat_vec L z)) == (1 # 2) * vdot z z.
Proof. exact momentum_law_full. Qed.

(* [T] hence the energy of the starting point used in the accept test, H0, is the negative
   log-density of the pair (current point, drawn momentum) *)
Theorem C01_hmc_start_energy : forall (n : nat) (m : mass) (z : list Q) (p_old : Q),
  mass_exact n m -> length z = n ->
  kinetic m (momentum m z) - p_old == (1 # 2) * vdot z z - p_old.
Proof. intros n m z p_old Hm Hz. rewrite (momentum_law n m z Hm Hz). reflexivity. Qed.

(* [T] the executable comparison at tolerance 0 is the exact hypothesis *)
Theorem C01_hmc_mass_ok_exact : forall (n : nat) (m : mass),
  mass_ok 0 n m = true -> mass_exact n m.
Proof. exact mass_ok_exact. Qed.

(* [T] inv_mass = [[1, 1/2], [1/2, 5/4]]: the factor of the code, inv(chol(inv_mass))^T, is
   consistent; its transpose inv(chol(inv_mass)) is not, and already for z = (1, 0) the
   kinetic energy of the drawn momentum is not 1/2 z.z *)
Theorem C01_hmc_transposed_factor_refuted :
  mass_exact 2 (MFull im_w L_right) /\
  mass_ok (1 # 100) 2 (MFull im_w L_transposed) = false /\
  ~ (kinetic (MFull im_w L_transposed) (momentum (MFull im_w L_transposed) [1; 0]) ==
     (1 # 2) * vdot [1; 0] [1; 0]).
Proof. split; [exact right_factor_exact | exact transposed_factor_refuted]. Qed.

(* non-vacuity: the hypotheses are satisfiable for each mass class *)
Example C01_hmc_momentum_law_example_full :
  kinetic (MFull im_w L_right) (momentum (MFull im_w L_right) [3 # 2; - (1 # 4)]) ==
  (1 # 2) * vdot [3 # 2; - (1 # 4)] [3 # 2; - (1 # 4)].
Proof. apply (C01_hmc_momentum_law 2); [exact right_factor_exact | reflexivity]. Qed.

Example C01_hmc_momentum_law_example_diag :
  mass_exact 3 (MDiag [4; 1 # 4; 1] [1 # 2; 2; 1]).
Proof. apply C01_hmc_mass_ok_exact. vm_compute. reflexivity. Qed.

Print Assumptions C01_hmc_momentum_law.
Print Assumptions C01_hmc_momentum_law_full.
Print Assumptions C01_hmc_start_energy.
Print Assumptions C01_hmc_mass_ok_exact.
Print Assumptions C01_hmc_transposed_factor_refuted.
