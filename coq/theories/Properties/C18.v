(* C18 -- acquisition functions compute what they define; proposals respect
   bounds; add_evaluation.   Property theorems only; every proof is `exact <lemma>`.

   Not proved here (stated in notes/C18.md): the integral identity
   sig * (Z Phi Z + phi Z) = E max(f - ymax, 0); what is proved instead is the
   derivative characterisation C18_ei_antiderivative (the kernel is the
   antiderivative of Phi, which is the antiderivative of phi) and its sign. *)
From Coq Require Import Reals List QArith Qminmax.
From Coquelicot Require Import Coquelicot.
From IT Require Import RealModel.Acquisition Model.Optimiser
                       Proofs.AcquisitionProofs Proofs.GaussianProofs Proofs.OptimiserProofs.
From IT Require Import RealModel.AcquisitionConfig Proofs.AcquisitionConfigProofs
                       Model.OptimiserWorld Proofs.OptimiserWorldProofs.
Import ListNotations.
Open Scope R_scope.

(* ---- the code's helper functions are the normal density / distribution ---- *)
Theorem C18_helpers : forall z : R,
  normal_pdf z = phi z /\ normal_cdf z = Phi z /\
  (cdf_pdf_ratio z * phi z = Phi z)%R /\ exp (ln_pdf z) = phi z.
Proof. exact helpers_spec. Qed.

(* ---- the two branches of EI are the same real function (for every z, so in
   particular continuously across the switch at z = -3), and it is
   sig * (Z Phi Z + phi Z) ---- *)
Theorem C18_ei_branches_agree : forall mu sig ymax : R, (0 < sig)%R ->
  ei_tail mu sig ymax = ei_ordinary mu sig ymax /\
  ei_call mu sig ymax = ei_spec mu sig ymax /\
  ei_opt_func mu sig ymax = (- ln (ei_spec mu sig ymax))%R.
Proof. exact ei_branches_agree. Qed.

(* the algebraic identity behind the erfcx form, with no side condition *)
Theorem C18_tail_identity : forall z : R,
  (1 + z * cdf_pdf_ratio z = ei_kernel z / phi z)%R.
Proof. exact tail_factor. Qed.

(* ---- derivative characterisation of the kernel and its sign ---- *)
Theorem C18_ei_antiderivative : forall z : R,
  is_derive ei_kernel z (Phi z) /\ is_derive Phi z (phi z) /\
  (0 < phi z)%R /\ (0 < Phi z)%R /\ (0 < ei_kernel z)%R.
Proof. exact ei_antiderivative. Qed.

Theorem C18_ei_nonneg : forall mu sig ymax : R, (0 < sig)%R ->
  (0 < ei_call mu sig ymax)%R.
Proof. exact ei_call_pos. Qed.

(* ---- value-and-gradient forms: along any spatial coordinate, with mu and s2
   (the predictive mean and VARIANCE) differentiable at x, the gradient the code
   returns is the derivative of the objective it returns ---- *)
Theorem C18_ln_ei_gradient : forall (mu s2 : R -> R) (x dmu ds2 ymax : R),
  is_derive mu x dmu -> is_derive s2 x ds2 -> (0 < s2 x)%R ->
  is_derive (fun t => ei_opt_func (mu t) (sqrt (s2 t)) ymax) x
            (ei_opt_grad (mu x) (sqrt (s2 x)) ymax dmu ds2).
Proof. exact ln_ei_gradient. Qed.

Theorem C18_ucb_gradient : forall (mu s2 : R -> R) (x dmu ds2 kappa : R),
  is_derive mu x dmu -> is_derive s2 x ds2 -> (0 < s2 x)%R ->
  is_derive (fun t => ucb_opt_func kappa (mu t) (sqrt (s2 t))) x
            (ucb_opt_grad kappa (sqrt (s2 x)) dmu ds2) /\
  (forall m s, ucb_opt_func kappa m s = - ucb_call kappa m s).
Proof. exact ucb_gradient. Qed.

Theorem C18_maxvar_gradient : forall (s2 : R -> R) (x ds2 : R),
  is_derive s2 x ds2 -> (0 < s2 x)%R ->
  is_derive (fun t => mv_opt_func (sqrt (s2 t))) x (mv_opt_grad ds2) /\
  mv_call (sqrt (s2 x)) = s2 x /\ mv_opt_func (sqrt (s2 x)) = (- s2 x)%R.
Proof. exact maxvar_gradient. Qed.

(* ---- configuration: the kappa the caller passes is the kappa that is used, for EVERY
   value -- in particular 0 (pure exploitation: UCB = predictive mean); 2 only when the
   argument is omitted.  The `kappa or 2.0` idiom is refuted at 0. ---- *)
Theorem C18_ucb_configuration :
  (forall k m s, ucb_call (ucb_kappa (Some k)) m s = m + k * s /\
                 ucb_opt_func (ucb_kappa (Some k)) m s = - (m + k * s)) /\
  (forall m s, ucb_call (ucb_kappa None) m s = m + 2 * s) /\
  (forall m s dmu dvar, ucb_call (ucb_kappa (Some 0)) m s = m /\
                        ucb_opt_func (ucb_kappa (Some 0)) m s = - m /\
                        ucb_opt_grad (ucb_kappa (Some 0)) s dmu dvar = - dmu).
Proof. exact ucb_config_spec. Qed.

Theorem C18_ucb_falsy_default_refuted :
  exists m s, 0 < s /\
    ucb_call (ucb_kappa_falsy (Some 0)) m s <> ucb_call (ucb_kappa (Some 0)) m s.
Proof. exact ucb_falsy_refuted. Qed.

Close Scope R_scope.
Open Scope Q_scope.
(* ---- start points of the multi-start search lie in the search box ---- *)
Theorem C18_starts_in_bounds : forall c1 c2 bs key, box_ok bs -> (0 <= c1)%Q -> (c1 <= 1 # 2)%Q ->
  forall xs script,
  List.Forall (fun x0 => length x0 = length bs) xs ->
  List.Forall (fun u => unit_vec u /\ length u = length bs) script ->
  List.Forall (in_box bs) (starts c1 c2 bs key xs script).
Proof. exact starts_in_bounds_lemma. Qed.

(* ---- add_evaluation: data grow by exactly the new point, incumbent = max ---- *)
Theorem C18_add_evaluation_spec : forall st nx ny ne st',
  add_evaluation st nx ny ne = Some st' ->
  st_x st' = st_x st ++ [nx] /\
  st_y st' = st_y st ++ [ny] /\
  (st_yerr st' = match st_yerr st, ne with
                 | Some e, Some v => Some (e ++ [v])
                 | _, _ => None end) /\
  st_ymax st' = list_max (st_y st') /\
  (forall y, In y (st_y st') -> (y <= st_ymax st')%Q) /\
  (exists y, In y (st_y st') /\ (st_ymax st' == y)%Q) /\
  (st_y st <> [] -> st_ymax st = list_max (st_y st) -> st_ymax st' = Qmax (st_ymax st) ny).
Proof. exact add_evaluation_spec_lemma. Qed.

Theorem C18_add_all_spec : forall news st st',
  add_all st news = Some st' ->
  st_x st' = st_x st ++ map (fun n => fst (fst n)) news /\
  st_y st' = st_y st ++ map (fun n => snd (fst n)) news /\
  (news <> [] -> st_ymax st' = list_max (st_y st')).
Proof. exact add_all_spec_lemma. Qed.

(* ---- the caller's arrays: repaired behaviour, and the pinned one refuted ---- *)
Theorem C18_caller_arrays_unchanged :
  (forall x r, init_x x = Some r -> snd r = x) /\
  (forall d nx r, new_x d nx = Some r -> snd r = nx) /\
  (forall x, init_x x <> None) /\ (forall d nx, size nx = d -> new_x d nx <> None).
Proof.
  exact (conj init_x_preserves_caller (conj new_x_preserves_caller
          (conj init_x_total new_x_defined))).
Qed.

Theorem C18_resize_refuted :
  (exists x r, init_x_pinned x = Some r /\ shape (snd r) <> shape x) /\
  (exists d nx r, size nx = d /\ new_x_pinned d nx = Some r /\ shape (snd r) <> shape nx).
Proof. exact (conj init_x_pinned_refuted new_x_pinned_refuted). Qed.

(* ---- several optimisers alive in one process (every interleaving of constructions,
   propose and add calls): each optimiser's data are the result of ITS OWN evaluations ... ---- *)
Theorem C18_world_data_own : forall ops w w',
  wrun w ops = Some w' ->
  forall i o, nth_error (w_opts w) i = Some o ->
  exists o', nth_error (w_opts w') i = Some o' /\ o_acq o' = o_acq o /\
             add_all (o_state o) (adds_of i ops) = Some (o_state o').
Proof. intros ops; exact (wrun_projection ops). Qed.

(* ... also for an optimiser constructed in the middle of the history ... *)
Theorem C18_world_data_own_new : forall pre a x y e post w w',
  wrun w (pre ++ W_new a x y e :: post) = Some w' ->
  exists w1, wrun w pre = Some w1 /\
  exists o', nth_error (w_opts w') (length (w_opts w1)) = Some o' /\
             add_all (init_state x y e) (adds_of (length (w_opts w1)) post) = Some (o_state o').
Proof. exact wrun_projection_new. Qed.

(* ... and, as long as the CALLER does not hand one acquisition object to two optimisers,
   the acquisition object of every optimiser holds that optimiser's own incumbent (the max
   of its own y), points to its own current regressor, and is held by no other optimiser.
   Histories that use only the default or a class never share (second part). *)
Theorem C18_world_acquisition_own : forall ops w',
  unshared_run empty_world ops -> wrun empty_world ops = Some w' ->
  forall i o, nth_error (w_opts w') i = Some o ->
    nth_error (w_heap w') (o_acq o)
      = Some (Some (list_max (st_y (o_state o)), i, length (st_y (o_state o)))) /\
    (forall j oj, nth_error (w_opts w') j = Some oj -> o_acq oj = o_acq o -> j = i).
Proof. exact world_acquisition_own. Qed.

Theorem C18_world_defaults_unshared : forall ops w,
  no_instances ops -> unshared_run w ops.
Proof. exact no_instances_unshared. Qed.

Theorem C18_world_propose_pure : forall w i w1, wstep w (W_propose i) = Some w1 -> w1 = w.
Proof. exact wstep_propose. Qed.

(* a default that is ONE instance made at definition time breaks it *)
Theorem C18_world_shared_default_refuted :
  exists ops w', no_instances ops /\ wrun_shared shared_world ops = Some w' /\
  exists i o, nth_error (w_opts w') i = Some o /\
              nth_error (w_heap w') (o_acq o) <> Some (Some (own_view i (o_state o))).
Proof. exact shared_default_refuted. Qed.

(* non-vacuity *)
Example C18_example_world :
  let ops := [W_new Acq_default [[0]] [1] None; W_alloc; W_new (Acq_instance 1) [[5]] [7] None;
              W_add 0 [1#2] 3 None; W_propose 1] in
  unshared_run empty_world ops /\
  exists w', wrun empty_world ops = Some w' /\
    map (fun o => st_y (o_state o)) (w_opts w') = [[1; 3]; [7]] /\
    w_heap w' = [Some (3, 0%nat, 2%nat); Some (7, 1%nat, 1%nat)].
Proof.
  cbv zeta. split.
  - simpl. repeat split; auto. intros [H | []]; discriminate H.
  - eexists. split; [vm_compute; reflexivity | ]. split; reflexivity.
Qed.

Example C18_example_add :
  let st := init_state [[1#2]; [3]] [2; 5] None in
  exists st', add_evaluation st [7#4] 4 None = Some st' /\
              st_ymax st' = 5%Q /\ st_y st' = [2; 5; 4]%Q.
Proof. cbv zeta. eexists. split; [reflexivity | split; reflexivity]. Qed.

Example C18_example_starts :
  map (map Qred) (starts (1 # 100) (2 # 100) [(0, 1)] (fun s => hd 0 s) [[1 # 100]; [5]]
                         (repeat [0] 20 ++ [[1 # 2]]))
  = [[1 # 100]; [1 # 2]].
Proof. vm_compute. reflexivity. Qed.

Print Assumptions C18_helpers.
Print Assumptions C18_ei_branches_agree.
Print Assumptions C18_tail_identity.
Print Assumptions C18_ei_antiderivative.
Print Assumptions C18_ei_nonneg.
Print Assumptions C18_ln_ei_gradient.
Print Assumptions C18_ucb_gradient.
Print Assumptions C18_maxvar_gradient.
Print Assumptions C18_starts_in_bounds.
Print Assumptions C18_add_evaluation_spec.
Print Assumptions C18_add_all_spec.
Print Assumptions C18_caller_arrays_unchanged.
Print Assumptions C18_resize_refuted.
Print Assumptions C18_ucb_configuration.
Print Assumptions C18_ucb_falsy_default_refuted.
Print Assumptions C18_world_data_own.
Print Assumptions C18_world_data_own_new.
Print Assumptions C18_world_acquisition_own.
Print Assumptions C18_world_defaults_unshared.
Print Assumptions C18_world_propose_pure.
Print Assumptions C18_world_shared_default_refuted.
