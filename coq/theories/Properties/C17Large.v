(* C17Large -- supports C17 ("... the evidence equals the log-density of the data under
   N(A m, A K A^T + S) up to the fixed constant ... for all model matrices, data, errors") for
   data sets of ANY size.  Property theorems only; every proof is `exact <lemma>`
   (Proofs/InversionValueProofs.v; model RealModel/InversionValue.v, stdlib Reals).

   inversion.py 186-188 / 204-210:  L = cholesky(A K A^T + sigma);  the value returned is
   quad - sum_i ln L_ii  with  quad = -1/2 v.v = -1/2 r^T J^-1 r  (C17_evidence_value).

     * C17_evidence_logdet        that number is the closed form -1/2 r^T J^-1 r - 1/2 ln det J
                                  whenever det J = (prod_i L_ii)^2 (which C17_evidence_value
                                  proves for every triangular factor): the logarithm step that
                                  Properties/C17.v left to "a fact about real logarithms";
     * C17_evidence_sum_is_linear the sum of logarithms is between rows * ln(min diagonal) and
                                  rows * ln(max diagonal): it stays an ordinary number for
                                  every number of rows;
     * C17_evidence_product_form_real  the one-logarithm variant  quad - ln(prod_i L_ii)  is the
                                  same REAL number, but
     * C17_evidence_product_underflows / _overflows  the product it goes through is not a
                                  binary64 number once  rows * ln(1/max diagonal) > 1074 ln 2
                                  (resp. rows * ln(min diagonal) >= 1024 ln 2): a double
                                  evaluation of that variant cannot return the evidence
                                  (it returns +inf / -inf);
     * C17_evidence_product_form_refuted  witness: 400 data rows, every L_ii = 1/50 (errors of
                                  2 %): every L_ii and the sum of logarithms are in range, the
                                  product is not.
   The run (harness/props/c17.py, stream `large`) evaluates lin_lml_value on the
   implementation's own factor with coq-interval for 120 .. 1000 data rows. *)
From Coq Require Import Reals List Lra.
From Interval Require Import Tactic.
From IT Require Import RealModel.SelectionValue RealModel.InversionValue Proofs.InversionValueProofs.
Import ListNotations.
Open Scope R_scope.

Theorem C17_evidence_logdet : forall quad diagL detJ,
  Forall (fun x => 0 < x) diagL -> detJ = (prod_list diagL) ^ 2 ->
  lin_lml_value quad diagL = lin_lml_closed quad detJ.
Proof. exact lin_lml_value_is_closed. Qed.

Theorem C17_evidence_sum_is_linear : forall a b l, 0 < a -> all_in a b l ->
  INR (length l) * ln a <= sum_ln l <= INR (length l) * ln b.
Proof. exact sum_ln_bounds. Qed.

Theorem C17_evidence_product_form_real : forall quad l,
  Forall (fun x => 0 < x) l -> lin_lml_value_prod quad l = lin_lml_value quad l.
Proof. exact lin_lml_value_prod_real. Qed.

Theorem C17_evidence_product_underflows : forall a q l, 0 < a -> q < 1 -> all_in a q l ->
  INR (length l) * ln (/ q) > 1074 * ln 2 ->
  0 < prod_list l < dbl_tiny /\ ~ dbl_range (prod_list l).
Proof.
  intros a q l Ha Hq H Hn. pose proof (prod_underflows a q l Ha Hq H Hn) as Hp.
  split; [exact Hp | exact (not_range_small _ Hp)].
Qed.

Theorem C17_evidence_product_overflows : forall q b l, 1 < q -> all_in q b l ->
  INR (length l) * ln q >= 1024 * ln 2 ->
  dbl_huge <= prod_list l /\ ~ dbl_range (prod_list l).
Proof.
  intros q b l Hq H Hn. pose proof (prod_overflows q b l Hq H Hn) as Hp.
  split; [exact Hp | exact (not_range_big _ Hp)].
Qed.

(* 400 rows with L_ii = 1/50: each factor and the sum of logarithms are ordinary numbers
   (the sum is between -1843 and -1402), the product (1e-680) is not a double *)
Theorem C17_evidence_product_form_refuted :
  let l := repeat (/ 50) 400 in
  Forall (fun x => 0 < x /\ dbl_range x) l
  /\ -1843 <= sum_ln l <= -1402 /\ dbl_range (sum_ln l)
  /\ ~ dbl_range (prod_list l).
Proof.
  intros l.
  assert (Hin : all_in (/ 100) (3 / 100) l) by (apply repeat_all_in; lra).
  assert (Hlen : INR (length l) = 400).
  { unfold l. rewrite repeat_length, INR_IZR_INZ. reflexivity. }
  assert (Hl100 : -4.606 <= ln (/ 100) <= -4.605) by (split; interval).
  assert (Hl3 : -3.507 <= ln (3 / 100) <= -3.506) by (split; interval).
  assert (Hl2 : 0.693 <= ln 2 <= 0.694) by (split; interval).
  pose proof (sum_ln_bounds (/ 100) (3 / 100) l ltac:(lra) Hin) as Hs. rewrite Hlen in Hs.
  assert (Hsum : -1843 <= sum_ln l <= -1402) by lra.
  repeat split; try lra.
  - unfold l. rewrite Forall_forall. intros x Hx. apply repeat_spec in Hx. subst x.
    split; [lra|]. right. rewrite Rabs_pos_eq by lra. split.
    + unfold dbl_tiny. apply Rinv_le_contravar; [lra|].
      apply Rle_trans with (2 ^ 6); [lra|]. apply Rle_pow; [lra | repeat constructor].
    + unfold dbl_huge. apply Rlt_le_trans with (2 ^ 1); [lra|]. apply Rle_pow; [lra | repeat constructor].
  - right. rewrite Rabs_left by lra. split.
    + pose proof dbl_tiny_pos. assert (dbl_tiny <= 1); [|lra].
      unfold dbl_tiny. apply Rle_trans with (/ 1); [|rewrite Rinv_1; lra].
      apply Rinv_le_contravar; [lra|]. apply pow_R1_Rle. lra.
    + unfold dbl_huge. apply Rlt_le_trans with (2 ^ 11); [lra|]. apply Rle_pow; [lra | repeat constructor].
  - apply (C17_evidence_product_underflows (/ 100) (3 / 100) l); try lra; try assumption.
    rewrite Hlen. assert (3.5 <= ln (/ (3 / 100))) by interval. lra.
Qed.

Print Assumptions C17_evidence_logdet.
Print Assumptions C17_evidence_sum_is_linear.
Print Assumptions C17_evidence_product_form_real.
Print Assumptions C17_evidence_product_underflows.
Print Assumptions C17_evidence_product_overflows.
Print Assumptions C17_evidence_product_form_refuted.
