(* C15 -- advancing a sampler adds exactly the requested number of samples.
   Property theorems only; every proof is `exact <lemma>`.

   Vocabulary (Model/Advance.v, Proofs/AdvanceProofs.v):
     chain R            samples / probs (newest first) / chain_length / generator state
     draw               what one take_step appends and the next generator state: ARBITRARY
     advance draw m     base.py: 100 groups of m // 100 steps, then m % 100 steps
     run_ops            any sequence of advance(m) / take_step() calls
     pool_advance       ChainPool.advance: map (advance n) over the pickled chains
     serial_advance     the same chains advanced in place one after another
     ens_advance        EnsembleSampler.advance (true = repaired, false = pinned), None = raised
     rf_run             MarkovChain.run_for against an abstract clock (w = samples stored per
                        step: 1 for the chains, n_walkers for the ensemble): step i costs `cost i`
                        seconds, every time() call b seconds; the list of loop states at
                        every evaluation of `current_time < end_time`; None = out of fuel *)
From Coq Require Import List ZArith QArith Arith.
From IT Require Import Model.Advance Proofs.AdvanceProofs.
Import ListNotations.
Close Scope Q_scope.

(* advance(m) appends exactly m samples and m log-probabilities, for every m,
   whatever take_step draws, and leaves the older ones untouched *)
Theorem C15_advance_adds_m : forall (R : Type) (draw : chain R -> list Z * Z * R) m c,
  chain_length (advance draw m c) = chain_length c + m /\
  length (samples (advance draw m c)) = length (samples c) + m /\
  length (probs (advance draw m c)) = length (probs c) + m /\
  (exists new, length new = m /\ samples (advance draw m c) = new ++ samples c) /\
  (exists new, length new = m /\ probs (advance draw m c) = new ++ probs c).
Proof. exact advance_adds_m. Qed.

(* advance(m) is m consecutive take_step calls (no step dropped, none added) *)
Theorem C15_advance_is_m_steps : forall (R : Type) (draw : chain R -> list Z * Z * R) m c,
  advance draw m c = repeat_step draw m c.
Proof. exact advance_eq. Qed.

(* any sequence of advance / take_step calls *)
Theorem C15_any_call_sequence : forall (R : Type) (draw : chain R -> list Z * Z * R) ops c,
  run_ops draw ops c = repeat_step draw (total_steps ops) c /\
  chain_length (run_ops draw ops c) = chain_length c + total_steps ops /\
  length (samples (run_ops draw ops c)) = length (samples c) + total_steps ops /\
  length (probs (run_ops draw ops c)) = length (probs c) + total_steps ops.
Proof. intros R draw ops c. split; [exact (run_ops_eq R draw ops c)|exact (run_ops_adds R draw ops c)]. Qed.

(* the reported length stays equal to the number of stored samples and of stored
   log-probabilities after any history *)
Theorem C15_lengths_agree : forall (R : Type) (draw : chain R -> list Z * Z * R) ops c,
  consistent c -> consistent (run_ops draw ops c).
Proof. exact lengths_agree. Qed.

(* a pool of chains advanced together = the same chains (with their own
   generator states) advanced one after another *)
Theorem C15_pool_eq_serial : forall (R : Type) (draw : chain R -> list Z * Z * R) n chains,
  pool_advance draw n chains = serial_advance draw n chains.
Proof. exact pool_eq_serial. Qed.

Theorem C15_pool_each_chain : forall (R : Type) (draw : chain R -> list Z * Z * R) n chains k d,
  k < length chains ->
  nth k (pool_advance draw n chains) (advance draw n d) = repeat_step draw n (nth k chains d).
Proof. exact pool_nth. Qed.

(* the ensemble: m iterations store m * n_walkers rows and log-probabilities;
   never raises, also for m = 0 on a sampler that has never been advanced *)
Theorem C15_ensemble_adds_m_walkers : forall (move : ens -> nat -> list Z * Z) nw m e,
  ens_wf nw e -> both_or_neither e -> ens_consistent e ->
  exists e', ens_advance move true m e = Some e' /\
    ens_wf nw e' /\ both_or_neither e' /\ ens_consistent e' /\
    stored e' = stored e + m * nw /\
    stored_probs e' = stored_probs e + m * nw /\
    echain_length e' = echain_length e + m * nw /\
    n_iterations e' = n_iterations e + m.
Proof. exact ens_advance_spec. Qed.

Theorem C15_ensemble_any_call_sequence : forall (move : ens -> nat -> list Z * Z) nw its e,
  ens_wf nw e -> both_or_neither e -> ens_consistent e ->
  exists e', ens_run move true its e = Some e' /\ ens_consistent e' /\
    stored e' = stored e + fold_right Nat.add 0 its * nw /\
    stored_probs e' = stored_probs e + fold_right Nat.add 0 its * nw /\
    n_iterations e' = n_iterations e + fold_right Nat.add 0 its.
Proof. exact ens_run_spec. Qed.

(* the timed run, for every cost per step bounded below by some cmin > 0 (however
   large), every cost b >= 0 of a clock call, every deadline: the loop returns
   (with enough fuel, and then with any larger amount); it makes k passes; every
   pass starts from a check that found the deadline not reached, takes at least
   one whole step and at least cmin seconds; and it stops at the first check at
   or after the deadline *)
Theorem C15_run_for_progress : forall (w : nat) (cost : nat -> Q) (cmin b start stop : Q),
  (0 < cmin)%Q -> (forall i, (cmin <= cost i)%Q) -> (0 <= b)%Q ->
  forall st, 1 <= rf_interval st ->
  exists N k,
    rf_run N true w cost b start stop st
    = Some (map (fun j => rf_iter j true w cost b start st) (seq 0 (S k))) /\
    (forall j, j < k ->
       (rf_now (rf_iter j true w cost b start st) < stop)%Q /\
       rf_steps (rf_iter j true w cost b start st) + 1
         <= rf_steps (rf_iter (S j) true w cost b start st) /\
       (rf_now (rf_iter j true w cost b start st) + cmin
         <= rf_now (rf_iter (S j) true w cost b start st))%Q) /\
    (stop <= rf_now (rf_iter k true w cost b start st))%Q.
Proof. exact run_for_progress. Qed.

Theorem C15_run_for_fuel_irrelevant : forall (w : nat) (cost : nat -> Q) (b start stop : Q) N st tr M,
  N <= M ->
  rf_run N true w cost b start stop st = Some tr ->
  rf_run M true w cost b start stop st = Some tr.
Proof. exact rf_run_fuel_mono. Qed.

(* ---- the pinned tree *)
(* D23: 2 s per step, one minute: after the first 20 steps the interval is 0, the
   loop state is a fixed point and run_for never returns *)
Theorem C15_run_for_stalls_refuted :
  let st1 := rf_next false 1 two_seconds 0 0 (rf_init 0) in
  rf_steps st1 = 20 /\ (rf_now st1 == 40)%Q /\ rf_interval st1 = 0 /\
  rf_next false 1 two_seconds 0 0 st1 = st1 /\
  forall fuel, rf_run fuel false 1 two_seconds 0 0 60 (rf_init 0) = None.
Proof. exact run_for_stalls_refuted. Qed.

(* D23 with a clock that also advances between steps: it returns, but spins
   without taking a step once the interval is 0 *)
Theorem C15_run_for_idles_refuted :
  exists tr, rf_run 100 false 1 two_seconds (1 # 2) 0 60 (rf_init 0) = Some tr /\
    length tr = 41 /\ rf_steps (last tr (rf_init 0)) = 20 /\
    rf_interval (nth 1 tr (rf_init 0)) = 0.
Proof. exact run_for_idles_refuted. Qed.

(* D24: advance(0) on a fresh ensemble raises in the pinned code *)
Theorem C15_ensemble_advance0_refuted :
  ens_advance ens_move false 0 (ens_fresh 4) = None /\
  exists e', ens_advance ens_move true 0 (ens_fresh 4) = Some e' /\ stored e' = 0 /\ echain_length e' = 0.
Proof. exact ens_advance0_refuted. Qed.

(* non-vacuity *)
Example C15_example :
  consistent (stub_chain 3) /\
  observe true (advance stub_draw 250 (stub_chain 3)) = (253, 253, 253, [252; 251; 250; 249; 248])%Z /\
  ens_wf 4 (ens_fresh 4) /\ both_or_neither (ens_fresh 4) /\ ens_consistent (ens_fresh 4) /\
  option_map ens_obs (ens_run ens_move true [0; 3; 0; 2] (ens_fresh 4)) = Some (20, 20, 20, 5)%Z /\
  (exists tr, rf_run 100 true 1 two_seconds 0 0 60 (rf_init 0) = Some tr /\
     rf_steps (last tr (rf_init 0)) = 30 /\ (rf_now (last tr (rf_init 0)) == 60)%Q).
Proof.
  split; [split; reflexivity|]. split; [vm_compute; reflexivity|].
  split; [split; reflexivity|]. split; [left; split; reflexivity|].
  split; [split; reflexivity|]. split; [vm_compute; reflexivity|].
  exact run_for_repaired_example.
Qed.

Print Assumptions C15_advance_adds_m.
Print Assumptions C15_advance_is_m_steps.
Print Assumptions C15_any_call_sequence.
Print Assumptions C15_lengths_agree.
Print Assumptions C15_pool_eq_serial.
Print Assumptions C15_pool_each_chain.
Print Assumptions C15_ensemble_adds_m_walkers.
Print Assumptions C15_ensemble_any_call_sequence.
Print Assumptions C15_run_for_progress.
Print Assumptions C15_run_for_fuel_irrelevant.
Print Assumptions C15_run_for_stalls_refuted.
Print Assumptions C15_run_for_idles_refuted.
Print Assumptions C15_ensemble_advance0_refuted.
