(* C18Scale / C18Typed -- supports property C18 of /verif/properties.jsonl:
   (1) "for all predictive means and variances": the acquisition functions under a change of
       UNITS of the objective (y-values of order 1e-11 .. 1e6), and the refutation of an
       absolute floor on the predictive standard deviation;
   (2) "adding an evaluation makes it part of the data the next model is fitted to": the data
       arrays WITH THEIR ELEMENT TYPES (integer grids, lists of Python ints, float32), the new
       point kept exactly as given under numpy's promotion, and the refutation of converting
       the new point to the element type of the data.
   Property theorems only; every proof is `exact <lemma>`. *)
From Coq Require Import Reals List QArith.
From IT Require Import RealModel.Acquisition RealModel.AcquisitionScale Proofs.AcquisitionScaleProofs.
From IT Require Import Model.Optimiser Model.OptimiserTyped Proofs.OptimiserTypedProofs.
Import ListNotations.

Open Scope R_scope.
(* ---- (1) units: the code-level EI (both branches, with the switch), its objective and its
   gradient, UCB and max-variance at (c mu, c sig, c ymax, c dmu, c^2 dvar), for EVERY c > 0 ---- *)
Theorem C18_units_covariance : forall c mu sig ymax dmu dvar kappa : R, 0 < c -> 0 < sig ->
  ei_call (c * mu) (c * sig) (c * ymax) = c * ei_call mu sig ymax /\
  ei_opt_func (c * mu) (c * sig) (c * ymax) = ei_opt_func mu sig ymax - ln c /\
  ei_opt_grad (c * mu) (c * sig) (c * ymax) (c * dmu) (c * c * dvar) = ei_opt_grad mu sig ymax dmu dvar /\
  (ucb_call kappa (c * mu) (c * sig) = c * ucb_call kappa mu sig /\
   ucb_opt_func kappa (c * mu) (c * sig) = c * ucb_opt_func kappa mu sig /\
   ucb_opt_grad kappa (c * sig) (c * dmu) (c * c * dvar) = c * ucb_opt_grad kappa sig dmu dvar) /\
  (mv_call (c * sig) = c * c * mv_call sig /\
   mv_opt_func (c * sig) = c * c * mv_opt_func sig /\
   mv_opt_grad (c * c * dvar) = c * c * mv_opt_grad dvar).
Proof.
  intros c mu sig ymax dmu dvar kappa Hc Hs.
  exact (conj (ei_call_units c mu sig ymax Hc Hs)
        (conj (ei_opt_func_units c mu sig ymax Hc Hs)
        (conj (ei_opt_grad_units c mu sig ymax dmu dvar Hc Hs)
        (conj (ucb_units c kappa mu sig dmu dvar Hc Hs) (mv_units c sig dvar))))).
Qed.

(* an absolute floor on sigma (`sig = maximum(sig, floor)`), whatever its value, makes EI and
   its objective differ from the expected improvement for some data; at or above the floor it
   is invisible *)
Theorem C18_sigma_floor_refuted : forall floor : R, 0 < floor ->
  exists mu sig ymax, 0 < sig /\
    ei_call_floored floor mu sig ymax <> ei_spec mu sig ymax /\
    ei_opt_func_floored floor mu sig ymax <> - ln (ei_spec mu sig ymax).
Proof. exact sigma_floor_refuted. Qed.

Theorem C18_sigma_floor_invisible_above : forall floor mu sig ymax : R, floor <= sig ->
  ei_call_floored floor mu sig ymax = ei_call mu sig ymax /\
  ei_opt_func_floored floor mu sig ymax = ei_opt_func mu sig ymax.
Proof. exact sigma_floor_invisible. Qed.
Close Scope R_scope.

Open Scope Q_scope.
(* ---- (2) element types ---- *)
(* numpy's promoted type holds every value of either operand *)
Theorem C18_promotion_exact : forall a b q,
  (val_ok a q = true -> val_ok (promote a b) q = true) /\
  (val_ok b q = true -> val_ok (promote a b) q = true).
Proof. intros a b q. exact (conj (val_ok_promote_l a b q) (val_ok_promote_r a b q)). Qed.

(* one addition, whatever the element types of the data and of the new evaluation: it is
   defined, the data grow by EXACTLY the point given, the arrays get the promoted types and
   all their values are values of those types (the invariant, so this composes) *)
Theorem C18_typed_add_evaluation_spec : forall t n,
  typed_ok t = true -> new_ok n = true ->
  (st_yerr (ts_st t) <> None -> n_err n <> None) ->
  exists t', typed_add t n = Some t' /\ typed_ok t' = true /\
    st_x (ts_st t') = st_x (ts_st t) ++ [n_x n] /\
    st_y (ts_st t') = st_y (ts_st t) ++ [n_y n] /\
    st_yerr (ts_st t') = yerr_after (st_yerr (ts_st t)) (n_err n) /\
    st_ymax (ts_st t') = list_max (st_y (ts_st t')) /\
    ts_dx t' = promote (ts_dx t) (n_dx n) /\ ts_dy t' = promote (ts_dy t) (n_dy n).
Proof. exact typed_add_total. Qed.

(* every sequence of additions *)
Theorem C18_typed_add_all_spec : forall news t,
  typed_ok t = true -> forallb new_ok news = true -> errs_consistent t news ->
  exists t', typed_add_all t news = Some t' /\ typed_ok t' = true /\
    st_x (ts_st t') = st_x (ts_st t) ++ map n_x news /\
    st_y (ts_st t') = st_y (ts_st t) ++ map n_y news /\
    ts_dx t' = promote_all (ts_dx t) (map n_dx news) /\
    ts_dy t' = promote_all (ts_dy t) (map n_dy news) /\
    (news <> [] -> st_ymax (ts_st t') = list_max (st_y (ts_st t'))).
Proof. exact typed_add_all_total. Qed.

(* the typed model erases to Model.Optimiser.add_all: C18_add_all_spec and the world theorems
   speak about these data too *)
Theorem C18_typed_refines_untyped : forall news t t',
  typed_add_all t news = Some t' -> add_all (ts_st t) (map erase news) = Some (ts_st t').
Proof. exact typed_add_all_erases. Qed.

(* converting the new point to the element type of the data first loses it: an integer grid
   [-8, -6, 8] and the evaluation at 27/16 -- stored at 1, the array stays int64 *)
Theorem C18_cast_to_data_dtype_refuted :
  exists t n t1 t2,
    typed_ok t = true /\ new_ok n = true /\
    typed_add t n = Some t1 /\ typed_add_cast t n = Some t2 /\
    last (st_x (ts_st t1)) [] = n_x n /\ ts_dx t1 = F64 /\
    last (st_x (ts_st t2)) [] = [1] /\ ts_dx t2 = I64 /\
    ~ (hd 0 (last (st_x (ts_st t2)) []) == hd 0 (n_x n)).
Proof. exact cast_to_data_dtype_refuted. Qed.

(* non-vacuity: float32 data, a float64 point, then an integer point *)
Example C18_example_typed :
  let t := typed_init F32 [[1 # 2; -3]; [5 # 4; 2]] (I64, [3; 7]) (Some (F64, [1 # 8; 1 # 8])) in
  let news := [mk_tnew F64 [513 # 1024; 2] F64 (9 # 2) (Some (F64, 0));
               mk_tnew I64 [4; -4] I64 8 (Some (I64, 1))] in
  typed_ok t = true /\ forallb new_ok news = true /\
  exists t', typed_add_all t news = Some t' /\ ts_dx t' = F64 /\ ts_dy t' = F64 /\
             st_y (ts_st t') = [3; 7; 9 # 2; 8] /\ st_ymax (ts_st t') == 8.
Proof.
  cbv zeta. split; [vm_compute; reflexivity | ]. split; [vm_compute; reflexivity | ].
  eexists. split; [vm_compute; reflexivity | ]. simpl. repeat split; reflexivity.
Qed.
Close Scope Q_scope.

Print Assumptions C18_units_covariance.
Print Assumptions C18_sigma_floor_refuted.
Print Assumptions C18_sigma_floor_invisible_above.
Print Assumptions C18_promotion_exact.
Print Assumptions C18_typed_add_evaluation_spec.
Print Assumptions C18_typed_add_all_spec.
Print Assumptions C18_typed_refines_untyped.
Print Assumptions C18_cast_to_data_dtype_refuted.
