(* C04 over the life of a sampler object: "limits given at construction stay in
   force" for PcaChain, HamiltonianChain and EnsembleSampler -- for every box,
   every log-density / gradient / temperature / mass, every start inside the
   box, and EVERY HISTORY of steps (with any draws) and save -> load round trips
   (Model/BoundsLife.v):
     * every point at which the log-density is evaluated, in every step of the
       history, lies inside the box given to the constructor;
     * every stored sample (PCA, HMC) / every walker position (ensemble) does;
     * the object still reports that box (o_lim o = construct b: attribute AND
       the selected post-processing hook).
   (The per-parameter limits of GibbsChain over call histories incl. save/load
   are the selector theorems of Properties/C04.v: C04_fsm_limits_in_force,
   C04_fsm_load_fixpoint.)
   C04_life_unhooked_load_refuted: the same statement is FALSE for a load() that
   re-builds only the `bounds` attribute (the hook keeps pass_through), although
   that object reports and re-saves its limits -- the model tells the two apart. *)
From Coq Require Import QArith List.
From IT Require Import Common.ExpBounds Model.Reflect Model.Samplers Model.BoundsLife
  Proofs.InsideProofs Proofs.BoundsLifeProofs.
Import ListNotations.

Theorem C04_life_pca_inside : forall logp beta b ops s0 o evs,
  box_wf b -> Forall (box_ok b) (ps_samples s0) ->
  pca_life logp beta load_lim (mkObj (construct b) s0) ops = Ok (o, evs) ->
  events_ok (box_ok b) evs /\ Forall (box_ok b) (ps_samples (o_st o)) /\ o_lim o = construct b.
Proof. exact pca_life_inside. Qed.

Theorem C04_life_hmc_inside : forall logp beta grad max_attempts b ops s0 o evs,
  box_wf b -> Forall (box_ok b) (hs_theta s0) ->
  hmc_life logp beta grad max_attempts load_lim (mkObj (construct b) s0) ops = Ok (o, evs) ->
  events_ok (box_ok b) evs /\ Forall (box_ok b) (hs_theta (o_st o)) /\ o_lim o = construct b.
Proof. exact hmc_life_inside. Qed.

Theorem C04_life_ens_inside : forall logp pinned b ops s0 o evs,
  box_wf b -> Forall (box_ok b) (es_pos s0) ->
  ens_life logp pinned load_lim (mkObj (construct b) s0) ops = Ok (o, evs) ->
  events_ok (box_ok b) evs /\ Forall (box_ok b) (es_pos (o_st o)) /\ o_lim o = construct b.
Proof. exact ens_life_inside. Qed.

(* the limits after any number of round trips are the constructed ones; this is what
   the correspondence files evaluate (life_code) *)
Theorem C04_life_limits_fixpoint : forall b k,
  lim_after load_lim (construct b) k = construct b.
Proof. exact lim_after_construct. Qed.

Theorem C04_life_code_is_construction_box : forall b k chk, life_code b k chk = chk b.
Proof. exact life_code_const. Qed.

(* attribute-only load(): the attribute survives every round trip, the hook none *)
Theorem C04_life_unhooked_attr_kept : forall b k,
  l_attr (lim_after load_lim_unhooked (construct b) k) = b.
Proof. exact lim_after_unhooked_attr. Qed.

Theorem C04_life_unhooked_hook_lost : forall b k,
  l_hook (lim_after load_lim_unhooked (construct b) (S k)) = None.
Proof. exact lim_after_unhooked_hook. Qed.

Theorem C04_life_unhooked_load_refuted :
  exists logp beta b s0 ops o evs,
    box_wf b /\ Forall (box_ok b) (ps_samples s0) /\
    pca_life logp beta load_lim_unhooked (mkObj (construct b) s0) ops = Ok (o, evs) /\
    l_attr (o_lim o) = b /\ ~ events_ok (box_ok b) evs.
Proof. exact unhooked_load_refuted. Qed.

(* non-vacuity: a history with a save -> load and a step whose raw proposal leaves the
   box runs to completion with the hypotheses of C04_life_pca_inside satisfied *)
Example C04_life_example :
  box_wf wit_box /\ Forall (box_ok wit_box) (ps_samples wit_state) /\
  exists o evs,
    pca_life wit_logp 1 load_lim (mkObj (construct wit_box) wit_state) wit_ops = Ok (o, evs) /\
    length evs = 2%nat /\ events_in_b wit_box evs = true.
Proof.
  split; [simpl; repeat constructor|]. split; [|exact hooked_witness].
  simpl. constructor; [|constructor]. simpl. unfold inside. repeat split; discriminate.
Qed.

Print Assumptions C04_life_pca_inside.
Print Assumptions C04_life_hmc_inside.
Print Assumptions C04_life_ens_inside.
Print Assumptions C04_life_limits_fixpoint.
Print Assumptions C04_life_code_is_construction_box.
Print Assumptions C04_life_unhooked_attr_kept.
Print Assumptions C04_life_unhooked_hook_lost.
Print Assumptions C04_life_unhooked_load_refuted.
