(* C05 -- likelihood classes are the named normalised densities; gradients; cost.
   Property theorems only; every proof is `exact <lemma>`.

   Conventions: ys = data, ss = the given uncertainties, fs = predictions,
   F = the predictions as functions of the one parameter that is varied (all
   others fixed), J = Jacobian as list of rows, j = column of that parameter.

   NOT proved (not in the installed libraries): the Gaussian integral
   int exp(-x^2/2) dx = sqrt(2 pi), i.e. `normalised_pdf (gauss_pdf mu s)`.
   It is a named classical fact; no axiom is introduced for it.  Likewise
   "logistic with scale s has standard deviation s*pi/sqrt 3" (the reason the
   code uses scale = sigma*sqrt 3/pi) is taken as the definition of the named
   distribution. *)
From Coq Require Import Reals List Lra Lia.
From Coquelicot Require Import Coquelicot.
From IT Require Import RealModel.Likelihoods Proofs.LikelihoodsProofs.
Import ListNotations.
Open Scope R_scope.

(* ---- value = sum over data points of ln pdf_named(y_i; f_i, scale_i) ---- *)
Theorem C05_gauss_is_sum_logpdf : forall ys ss fs,
  length ys = length ss -> length ss = length fs -> List.Forall (fun s => 0 < s) ss ->
  gauss_loglike ys ss fs = sum_logpdf gauss_pdf ys ss fs.
Proof. exact gauss_is_sum_logpdf. Qed.

Theorem C05_cauchy_is_sum_logpdf : forall ys gs fs,
  length ys = length gs -> length gs = length fs -> List.Forall (fun g => 0 < g) gs ->
  cauchy_loglike ys gs fs = sum_logpdf cauchy_pdf ys gs fs.
Proof. exact cauchy_is_sum_logpdf. Qed.

(* logistic density with scale  sigma*sqrt 3/pi *)
Theorem C05_logistic_is_sum_logpdf : forall ys ss fs,
  length ys = length ss -> length ss = length fs -> List.Forall (fun s => 0 < s) ss ->
  logistic_loglike ys ss fs =
  sum_logpdf (fun mu s y => logistic_pdf mu (s * (sqrt 3 / PI)) y) ys ss fs.
Proof. exact logistic_is_sum_logpdf. Qed.

(* the logaddexp form the code uses is the textbook  -z - 2 ln(1 + e^-z) *)
Theorem C05_logaddexp_form : forall z,
  z - 2 * logaddexp 0 z = - z - 2 * ln (1 + exp (- z)).
Proof. exact logaddexp_form. Qed.

(* ---- gradient = derivative of the value, for any differentiable forward model ---- *)
Theorem C05_gauss_gradient_is_derivative : forall ys ss (F : list (R -> R)) J j t,
  length ys = length ss -> length ss = length F -> length F = length J ->
  List.Forall (fun s => 0 < s) ss ->
  (forall i, (i < length F)%nat -> is_derive (nth i F (fun _ => 0)) t (nth j (nth i J []) 0)) ->
  is_derive (fun u => gauss_loglike ys ss (map (fun f => f u) F)) t
            (gauss_gradient ys ss (map (fun f => f t) F) J j).
Proof. exact gauss_gradient_is_derivative. Qed.

Theorem C05_cauchy_gradient_is_derivative : forall ys gs (F : list (R -> R)) J j t,
  length ys = length gs -> length gs = length F -> length F = length J ->
  List.Forall (fun g => 0 < g) gs ->
  (forall i, (i < length F)%nat -> is_derive (nth i F (fun _ => 0)) t (nth j (nth i J []) 0)) ->
  is_derive (fun u => cauchy_loglike ys gs (map (fun f => f u) F)) t
            (cauchy_gradient ys gs (map (fun f => f t) F) J j).
Proof. exact cauchy_gradient_is_derivative. Qed.

Theorem C05_logistic_gradient_is_derivative : forall ys ss (F : list (R -> R)) J j t,
  length ys = length ss -> length ss = length F -> length F = length J ->
  List.Forall (fun s => 0 < s) ss ->
  (forall i, (i < length F)%nat -> is_derive (nth i F (fun _ => 0)) t (nth j (nth i J []) 0)) ->
  is_derive (fun u => logistic_loglike ys ss (map (fun f => f u) F)) t
            (logistic_gradient ys ss (map (fun f => f t) F) J j).
Proof. exact logistic_gradient_is_derivative. Qed.

(* ---- cost = -value, cost_gradient = -gradient (and it is the derivative of cost) ---- *)
Theorem C05_cost_is_negative : forall v (g : nat -> R) j,
  cost v = - v /\ cost_gradient g j = - g j.
Proof. intros v g j. split; reflexivity. Qed.

Theorem C05_cost_gradient_is_derivative : forall (L : R -> R) (g : nat -> R) j t,
  is_derive L t (g j) -> is_derive (fun u => cost (L u)) t (cost_gradient g j).
Proof. exact cost_gradient_is_derivative. Qed.

(* ---- the Cauchy and logistic densities are normalised ---- *)
Theorem C05_cauchy_pdf_normalised : forall x0 g, 0 < g -> normalised_pdf (cauchy_pdf x0 g).
Proof. exact cauchy_pdf_normalised. Qed.

Theorem C05_logistic_pdf_normalised : forall mu s, 0 < s -> normalised_pdf (logistic_pdf mu s).
Proof. exact logistic_pdf_normalised. Qed.

(* what normalised_pdf gives: the integral over (a,b) tends to 1 *)
Theorem C05_normalised_total : forall pdf, normalised_pdf pdf ->
  filterlim (fun ab : R * R => RInt pdf (fst ab) (snd ab))
            (filter_prod (Rbar_locally' m_infty) (Rbar_locally' p_infty)) (locally 1).
Proof. exact normalised_pdf_total. Qed.

(* non-vacuity: two data points, forward model (3t, t^2) at t = 1 *)
Example C05_example :
  let ys := [1; 2] in let ss := [1; 2] in
  let F := [fun t => 3 * t; fun t => t * t] in let J := [[3]; [2]] in
  is_derive (fun u => gauss_loglike ys ss (map (fun f => f u) F)) 1
            (gauss_gradient ys ss (map (fun f => f 1) F) J 0)
  /\ gauss_gradient ys ss (map (fun f => f 1) F) J 0 = - 11 / 2.
Proof.
  cbv zeta. split.
  - apply gauss_gradient_is_derivative; try reflexivity.
    + repeat constructor; lra.
    + intros [|[|i]] Hi; simpl in *.
      * auto_derive; [exact I|ring].
      * auto_derive; [exact I|ring].
      * exfalso. lia.
  - unfold gauss_gradient, gauss_dLdF, vecmat. simpl. field.
Qed.

Print Assumptions C05_gauss_is_sum_logpdf.
Print Assumptions C05_cauchy_is_sum_logpdf.
Print Assumptions C05_logistic_is_sum_logpdf.
Print Assumptions C05_logaddexp_form.
Print Assumptions C05_gauss_gradient_is_derivative.
Print Assumptions C05_cauchy_gradient_is_derivative.
Print Assumptions C05_logistic_gradient_is_derivative.
Print Assumptions C05_cost_is_negative.
Print Assumptions C05_cost_gradient_is_derivative.
Print Assumptions C05_cauchy_pdf_normalised.
Print Assumptions C05_logistic_pdf_normalised.
Print Assumptions C05_normalised_total.
