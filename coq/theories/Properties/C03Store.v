(* C03 -- "AT EVERY MOMENT the k-th recorded log-probability equals the log-density at the
   k-th recorded sample divided by the temperature", on the store model of
   Model/ChainStore.v: the recorded chain grows by single writes (one list per parameter for
   Gibbs / Metropolis / PCA chains, one row per step for Hamiltonian chains and the ensemble),
   user code runs at the evaluations of the log-density (and of its gradient), and a call can
   be cut short by an exception raised from inside any of them.  `store_aligned` says: every
   parameter has exactly one stored value per stored log-probability, and the k-th stored
   log-probability is tlogp of the k-th stored row.  Property theorems only. *)
From Coq Require Import QArith List.
From IT Require Import Common.ExpBounds Model.Reflect Model.Samplers Proofs.SamplersProofs
                       Model.ChainStore Proofs.ChainStoreProofs.
Import ListNotations.
Local Open Scope nat_scope.

(* one call (take_step, EnsembleSampler.advance) with ANY crash point k (0 = none): the store
   afterwards is aligned, and so is the store that every evaluation of the call finds *)
Theorem C03_call_aligned_at_every_crash_point : forall logp beta lay npar st s k,
  store_aligned logp beta lay st -> (lay = ColMajor -> length (fst st) = npar) ->
  step_sound logp beta lay npar s ->
  store_aligned logp beta lay (run_call lay st (s, k)) /\
  (lay = ColMajor -> length (fst (run_call lay st (s, k))) = npar) /\
  Forall (store_aligned logp beta lay) (seen k (step_prog lay s) st).
Proof. exact call_aligned. Qed.

(* an interrupted call leaves the store exactly as it was *)
Theorem C03_interrupted_call_no_effect : forall lay s k st,
  1 <= k <= s_evals s -> run_call lay st (s, k) = st.
Proof. exact interrupted_call_no_effect. Qed.

(* every history of completed and interrupted calls, every moment of it: before each call,
   inside each of its evaluations, after it returned or raised, and at the end *)
Theorem C03_aligned_at_every_moment : forall logp beta lay npar calls st,
  store_aligned logp beta lay st -> (lay = ColMajor -> length (fst st) = npar) ->
  Forall (fun c => step_sound logp beta lay npar (fst c)) calls ->
  Forall (store_aligned logp beta lay) (moments lay calls st) /\
  store_aligned logp beta lay (run_calls lay calls st).
Proof. exact history_moments_aligned. Qed.

(* the stored log-probability of the current point (get_last(), probs[-1]) *)
Theorem C03_current_point : forall logp beta lay st,
  store_aligned logp beta lay st -> snd st <> [] ->
  last (snd st) 0%Q = tlogp logp beta (last (rows_of lay st) []).
Proof. exact current_point_aligned. Qed.

(* the steps that the sampler models of Model/Samplers.v compute are such calls: Gibbs and
   Metropolis (what Model.ChainStore.check_gibbs_call evaluates on the real chain) ... *)
Theorem C03_gibbs_call_at_every_moment : forall logp beta metro pars st tape s k,
  store_aligned logp beta ColMajor st -> snd st <> [] ->
  (metro = true -> length pars = length (fst st)) ->
  step_of_g ((if metro then metro_step else gibbs_step) logp beta
               (mkGS pars [last (rows_of ColMajor st) []] [last (snd st) 0%Q]) tape) = Ok s ->
  Forall (store_aligned logp beta ColMajor) (moments ColMajor [(s, k)] st).
Proof. exact gibbs_call_moments. Qed.

(* ... PCA: the stored value is the log-density of the stored point (that the point has one
   entry per parameter is decided by the run: the completed calls are compared) ... *)
Theorem C03_pca_call_sound : forall logp beta dirs sigmas bounds x p tape s,
  p = tlogp logp beta x ->
  step_of_p (pca_step logp beta (mkPS dirs sigmas bounds [x] [p]) tape) = Ok s ->
  s_probs s = map (tlogp logp beta) (s_rows s) /\ length (s_rows s) = 1.
Proof. exact pca_call_sound. Qed.

(* ... Hamiltonian, with any number of evaluations (gradient calls are user code too) *)
Theorem C03_hmc_call_at_every_moment : forall logp beta grad ma hs tape hs' t' ev st ne k x' p',
  store_aligned logp beta RowMajor st ->
  aligned logp beta (hs_theta hs) (hs_probs hs) ->
  hmc_step logp beta grad ma hs tape = Ok (hs', t', ev) ->
  hd_error (hs_theta hs') = Some x' -> hd_error (hs_probs hs') = Some p' ->
  Forall (store_aligned logp beta RowMajor) (moments RowMajor [(mkStep ne [x'] [p'], k)] st).
Proof. exact hmc_call_moments. Qed.

(* mode() on an aligned store: passes the test the harness applies to the real mode(), is a
   stored row, and the maximal stored log-probability is its own *)
Theorem C03_mode_of_store : forall logp beta lay st,
  store_aligned logp beta lay st -> snd st <> [] ->
  mode_obs_ok (rows_of lay st) (snd st) (mode_of lay st) = true /\
  In (mode_of lay st) (rows_of lay st) /\
  nth (argmax_first (snd st)) (snd st) 0%Q = tlogp logp beta (mode_of lay st).
Proof. exact mode_of_aligned_store. Qed.

(* what that test decides *)
Theorem C03_mode_test_sound : forall rows probs m, length rows = length probs ->
  mode_obs_ok rows probs m = true ->
  exists k, k < length rows /\ veqb (nth k rows []) m = true /\
            forall j, j < length probs -> (nth j probs 0 <= nth k probs 0)%Q.
Proof. exact mode_obs_ok_sound. Qed.

(* before any step the mode is the starting point; and it stays the starting point's
   log-probability for as long as no later entry is better *)
Theorem C03_mode_of_start : forall lay data p,
  mode_of lay (data, [p]) = nth 0 (rows_of lay (data, [p])) [].
Proof. exact mode_of_start. Qed.

Theorem C03_mode_start_best : forall probs,
  probs <> [] -> (forall j, 0 < j < length probs -> (nth j probs 0 <= nth 0 probs 0)%Q) ->
  (nth (argmax_first probs) probs 0 == nth 0 probs 0)%Q.
Proof. exact mode_is_start_when_best. Qed.

(* the orderings are necessary (neither variant is the pinned code) *)
Theorem C03_interleaved_gibbs_refuted :
  exists beta st es r p k,
    store_aligned w_logp beta ColMajor st /\ p = tlogp w_logp beta r /\
    run 0 (gibbs_interleaved_prog es r p) st
      = run_call ColMajor st (mkStep (list_sum es) [r] [p], 0) /\
    ~ store_aligned w_logp beta ColMajor (run k (gibbs_interleaved_prog es r p) st) /\
    ~ Forall (store_aligned w_logp beta ColMajor) (seen 0 (gibbs_interleaved_prog es r p) st).
Proof. exact interleaved_gibbs_refuted. Qed.

Theorem C03_mode_skipping_start_refuted :
  exists beta st st0,
    store_aligned w_logp beta ColMajor st /\ store_aligned w_logp beta ColMajor st0 /\
    mode_obs_ok (rows_of ColMajor st) (snd st) (mode_of ColMajor st) = true /\
    mode_obs_ok (rows_of ColMajor st) (snd st) (mode_skipping 1 ColMajor st) = false /\
    mode_obs_ok (rows_of ColMajor st0) (snd st0) (mode_of ColMajor st0) = true /\
    mode_obs_ok (rows_of ColMajor st0) (snd st0) (mode_skipping 1 ColMajor st0) = false.
Proof. exact mode_skipping_start_refuted. Qed.

(* non-vacuity: a two-parameter Gibbs chain at temperature 2: its start, one step computed by
   the model, then a call cut short at its 2nd evaluation, then a completed call *)
Example C03_store_example :
  let logp := quad [1; 1 # 2]%Q [0; 1]%Q [] in
  let beta := (1 # 2)%Q in
  let st0 : store := ([[1]; [1]]%Q, [tlogp logp beta [1; 1]%Q]) in
  let pars := [mkGP 1 PStd 0 50; mkGP (1 # 2) (PBnd (-2) 3) 0 50]%Q in
  store_aligned logp beta ColMajor st0 /\
  exists s, step_of_g (gibbs_step logp beta
                         (mkGS pars [last (rows_of ColMajor st0) []] [last (snd st0) 0%Q])
                         [1 # 2; 1 # 3; -3; 1 # 8]%Q) = Ok s /\
            s_evals s = 2 /\
            length (moments ColMajor [(s, 0); (s, 2); (s, 0)] st0) = 10 /\
            map (shape_of ColMajor) [run_calls ColMajor [(s, 0); (s, 2); (s, 0)] st0] = [([3; 3], 3)].
Proof.
  cbv zeta. split; [split; [repeat constructor|reflexivity]|].
  eexists. split; [vm_compute; reflexivity|]. repeat split.
Qed.

Print Assumptions C03_call_aligned_at_every_crash_point.
Print Assumptions C03_interrupted_call_no_effect.
Print Assumptions C03_aligned_at_every_moment.
Print Assumptions C03_current_point.
Print Assumptions C03_gibbs_call_at_every_moment.
Print Assumptions C03_pca_call_sound.
Print Assumptions C03_hmc_call_at_every_moment.
Print Assumptions C03_mode_of_store.
Print Assumptions C03_mode_test_sound.
Print Assumptions C03_mode_of_start.
Print Assumptions C03_mode_start_best.
Print Assumptions C03_interleaved_gibbs_refuted.
Print Assumptions C03_mode_skipping_start_refuted.
