(* GaussNorm -- the Gaussian density is normalised (the gap named in C05.v, C06.v, C12.v).
   Property theorems only; every proof is `exact <lemma>`.

   From the finite form of the Gaussian integral (Proofs/GaussianProofs.v :
   PI/4 - exp(-x^2) <= (int_0^x exp(-t^2) dt)^2 <= PI/4) by letting x -> +infinity.
   `normalised_pdf` is the predicate of RealModel/Likelihoods.v used by
   C05_cauchy_pdf_normalised / C05_logistic_pdf_normalised; `gauss_pdf` is the
   density of both the Gaussian likelihood (C05) and the Gaussian prior (C06,
   RealModel/Priors.v : coord_logpdf KGauss); kde_pdf / kde_cdf / pdf_exact_at /
   cdf_exact_at / Phi (as Kde.Phi) are those of RealModel/Kde.v (C12). *)
From Coq Require Import Reals List QArith Qreals.
From Coquelicot Require Import Coquelicot.
From IT Require Import RealModel.Acquisition RealModel.Likelihoods Proofs.GaussianNormalisation.
From IT Require RealModel.Kde.
Import ListNotations.
Open Scope R_scope.

(* 1. int_0^x exp(-t^2) dt -> sqrt(pi)/2 *)
Theorem GaussNorm_gauss_integral_limit :
  is_lim (fun x => RInt (fun t => exp (- t ^ 2)) 0 x) p_infty (sqrt PI / 2).
Proof. exact gauss_integral_limit. Qed.

(* 2. the standard normal density has total mass 1; its distribution function
      Phi z = 1/2 + int_0^z phi  (RealModel/Acquisition.v) goes from 0 to 1 *)
Theorem GaussNorm_std_normal_total :
  is_lim (fun b => RInt (fun t => / sqrt (2 * PI) * exp (- t ^ 2 / 2)) (- b) b) p_infty 1.
Proof. exact std_normal_total. Qed.

Theorem GaussNorm_Phi_limits :
  is_lim Phi m_infty 0 /\ is_lim Phi p_infty 1.
Proof. exact (conj Phi_lim_m Phi_lim_p). Qed.

Theorem GaussNorm_Phi_is_cdf : forall a b, is_RInt phi a b (Phi b - Phi a).
Proof. exact phi_is_RInt. Qed.

(* 3. gauss_pdf mu s is a normalised density, in the form C05 uses for the Cauchy
      and logistic densities, and in the symmetric-window form *)
Theorem GaussNorm_gauss_pdf_normalised : forall mu s, 0 < s -> normalised_pdf (gauss_pdf mu s).
Proof. exact gauss_pdf_normalised. Qed.

Theorem GaussNorm_gauss_pdf_total : forall mu s, 0 < s ->
  (forall x, 0 <= gauss_pdf mu s x) /\
  is_lim (fun b => RInt (gauss_pdf mu s) (mu - b) (mu + b)) p_infty 1.
Proof. exact gauss_pdf_total. Qed.

(* the antiderivative exhibited: gauss_cdf mu s x = Phi ((x - mu) / s) *)
Theorem GaussNorm_gauss_cdf : forall mu s, 0 < s ->
  (forall a b, is_RInt (gauss_pdf mu s) a b (Phi ((b - mu) / s) - Phi ((a - mu) / s))) /\
  is_lim (fun x => Phi ((x - mu) / s)) m_infty 0 /\
  is_lim (fun x => Phi ((x - mu) / s)) p_infty 1.
Proof.
  exact (fun mu s Hs => conj (fun a b => gauss_pdf_is_RInt mu s a b Hs)
                             (conj (gauss_cdf_lim_m mu s Hs) (gauss_cdf_lim_p mu s Hs))).
Qed.

(* any normalised_pdf has mass 1 over symmetric windows around any centre *)
Theorem GaussNorm_normalised_symmetric : forall pdf c, normalised_pdf pdf ->
  is_lim (fun b => RInt pdf (c - b) (c + b)) p_infty 1.
Proof. exact normalised_pdf_symmetric. Qed.

(* 4. the exact Gaussian kernel-density estimate of Kde.v (N = sample size >= 1
      bumps of width h > 0) is a normalised density; its antiderivative is the
      exact cdf of Kde.v (offset 0, whole sample) *)
Theorem GaussNorm_kde_exact_normalised : forall h ys, ys <> [] -> 0 < h ->
  normalised_pdf (Kde.kde_pdf (Z.of_nat (length ys)) h ys).
Proof. exact kde_exact_normalised. Qed.

Theorem GaussNorm_kde_exact_total : forall h ys c, ys <> [] -> 0 < h ->
  is_lim (fun b => RInt (Kde.kde_pdf (Z.of_nat (length ys)) h ys) (c - b) (c + b)) p_infty 1.
Proof. exact kde_exact_total. Qed.

Theorem GaussNorm_kde_exact_at_normalised : forall (sample : list Q) (h : Q),
  sample <> [] -> (0 < h)%Q ->
  let f := Kde.kde_pdf (Z.of_nat (length sample)) (Q2R h) (map Q2R sample) in
  let F := Kde.kde_cdf (Z.of_nat (length sample)) 0 (Q2R h) (map Q2R sample) in
  (forall x, Kde.pdf_exact_at sample h x = f (Q2R x)) /\
  (forall x, Kde.cdf_exact_at sample h x = F (Q2R x)) /\
  (forall x, 0 <= f x) /\
  (forall a b, is_RInt f a b (F b - F a)) /\
  is_lim F m_infty 0 /\ is_lim F p_infty 1 /\
  is_lim (fun b => RInt f (- b) b) p_infty 1.
Proof. exact kde_exact_at_normalised. Qed.

(* the kernel cdf of Kde.v meets the hypotheses of C12_cdf_truncation_bound_partial
   with eps = (2/pi) exp(-(7/2)^2/2)  (about 1.4e-3; the sharp value Phi(-3.5) =
   2.33e-4 is not claimed) *)
Theorem GaussNorm_kde_Phi_tail_property :
  (forall t, 0 <= Kde.Phi t <= 1) /\
  (forall t, 7 / 2 <= t -> 1 - 2 / PI * exp (- ((7 / 2) * (7 / 2)) / 2) <= Kde.Phi t) /\
  (forall t, t <= - (7 / 2) -> Kde.Phi t <= 2 / PI * exp (- ((7 / 2) * (7 / 2)) / 2)).
Proof. exact kde_Phi_tail_property. Qed.

(* non-vacuity *)
Example GaussNorm_example :
  normalised_pdf (gauss_pdf 3 2) /\
  normalised_pdf (Kde.kde_pdf 3 (1 / 2) [0; 1; 1]).
Proof.
  split.
  - apply gauss_pdf_normalised. Lra.lra.
  - apply (kde_exact_normalised (1 / 2) [0; 1; 1]); [discriminate | Lra.lra].
Qed.

Print Assumptions GaussNorm_gauss_integral_limit.
Print Assumptions GaussNorm_std_normal_total.
Print Assumptions GaussNorm_Phi_limits.
Print Assumptions GaussNorm_Phi_is_cdf.
Print Assumptions GaussNorm_gauss_pdf_normalised.
Print Assumptions GaussNorm_gauss_pdf_total.
Print Assumptions GaussNorm_gauss_cdf.
Print Assumptions GaussNorm_normalised_symmetric.
Print Assumptions GaussNorm_kde_exact_normalised.
Print Assumptions GaussNorm_kde_exact_total.
Print Assumptions GaussNorm_kde_exact_at_normalised.
Print Assumptions GaussNorm_kde_Phi_tail_property.
