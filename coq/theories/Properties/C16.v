(* C16 -- GP derivative predictions are the derivatives of the GP prediction.
   Property theorems only; every proof is `exact <lemma>` (Proofs/DerivativesProofs.v).

   This file is the matrix half: Matrix/Derivatives.v (the data flow of
   GpRegressor.gradient / spatial_derivatives and of the mean functions'
   spatial_gradient) instantiated at MathComp matrices over an ARBITRARY
   realFieldType R and ARBITRARY sizes n (training points), d (dimensions).
   SciPy's cholesky / solve_triangular are exact: L is any invertible matrix with
   L L^T = K_xx + S.  G = A * K_qx is the d x n matrix with entries A_ij k(q, x_j).
   The analysis half (Properties/C16Analysis.v, re-exported at the end) proves over
   Coq's reals that A_ij k(q, x_j) = d k(q, x_j)/d q_i, that diag(R) is the prior
   covariance of the gradient, and that the sums C16_grad_mean_entry / C16_dvar_entry
   are the derivatives of the predictive mean and variance. *)
From Coq Require Import QArith.
From mathcomp Require Import all_ssreflect all_algebra.
From IT Require Import Matrix.MxOps Matrix.McOps Matrix.GpModel Matrix.Derivatives.
From IT Require Import Proofs.GpProofs Proofs.DerivativesProofs.

Set Implicit Arguments.
Unset Strict Implicit.
Unset Printing Implicit Defensive.

Import GRing.Theory Num.Theory.
Local Open Scope ring_scope.

Section C16.
Variable R : realFieldType.
Notation O := (McOps R).

(* gradient mean = G (K_xx + S)^-1 (y - m(x)) + dm/dq : the derivative of the kernel
   part of the prediction PLUS the derivative of the mean function *)
Theorem C16_grad_mean_closed n d (K S L : 'M[R]_n) (y mu : 'cV[R]_n)
    (A : 'M[R]_(d, n)) (K_qx : 'rV[R]_n) (dmu : 'cV[R]_d) :
  L *m L^T = K + S -> L \in unitmx ->
  @grad_mean O d n A K_qx (@gp_alpha O n L y mu) dmu
  = @dk_matrix O d n A K_qx *m invmx (K + S) *m (y - mu) + dmu.
Proof. exact: grad_mean_closed_form. Qed.

(* ... entry by entry, the sum that C16_dmean_is_derivative is about *)
Theorem C16_grad_mean_entry d n (A : 'M[R]_(d, n)) (K_qx : 'rV[R]_n) (alpha : 'cV[R]_n)
    (dmu : 'cV[R]_d) i :
  (@grad_mean O d n A K_qx alpha dmu) i 0 = \sum_j (A i j * K_qx 0 j) * alpha j 0 + dmu i 0.
Proof. exact: grad_mean_entry. Qed.

(* gradient covariance = diag(R) - G (K_xx + S)^-1 G^T  (prior gradient covariance
   minus the part explained by the data), and it is symmetric *)
Theorem C16_grad_cov_closed n d (K S L : 'M[R]_n) (A : 'M[R]_(d, n)) (K_qx : 'rV[R]_n) (Rv : 'cV[R]_d) :
  L *m L^T = K + S -> L \in unitmx ->
  @grad_cov O d n L A K_qx Rv
    = diag_mx Rv^T - @dk_matrix O d n A K_qx *m invmx (K + S) *m (@dk_matrix O d n A K_qx)^T
  /\ (@grad_cov O d n L A K_qx Rv)^T = @grad_cov O d n L A K_qx Rv.
Proof. by move=> HL uL; split; [exact: grad_cov_closed_form | exact: grad_cov_sym]. Qed.

(* positive semi-definite, below the prior gradient covariance, variances in [0, R_i]:
   under the hypothesis that the joint prior covariance of (noisy data, gradient at q) is PSD *)
Theorem C16_grad_cov_psd n d (K S L : 'M[R]_n) (A : 'M[R]_(d, n)) (K_qx : 'rV[R]_n) (Rv : 'cV[R]_d) :
  L *m L^T = K + S -> L \in unitmx ->
  psd (block_mx (K + S) (@dk_matrix O d n A K_qx)^T (@dk_matrix O d n A K_qx) (diag_mx Rv^T)) ->
  [/\ psd (@grad_cov O d n L A K_qx Rv),
      psd (diag_mx Rv^T - @grad_cov O d n L A K_qx Rv)
    & forall i, 0 <= (@grad_cov O d n L A K_qx Rv) i i <= Rv i 0].
Proof.
move=> HL uL HJ; split.
- exact: (grad_cov_psd HL uL HJ).
- exact: prior_minus_grad_cov_psd.
- by move=> i; exact: (grad_var_bounds HL uL HJ).
Qed.

(* derivative of the predictive variance = -2 G (K_xx + S)^-1 K_xq, and entry by entry
   the double sum that C16_dvar_is_derivative is about *)
Theorem C16_dvar_closed n d (K S L : 'M[R]_n) (A : 'M[R]_(d, n)) (K_qx : 'rV[R]_n) :
  L *m L^T = K + S -> L \in unitmx ->
  @dvar O d n L A K_qx = - 2%:R *: (@dk_matrix O d n A K_qx *m invmx (K + S) *m K_qx^T)
  /\ forall i, (@dvar O d n L A K_qx) i 0
       = - 2%:R * \sum_j (A i j * K_qx 0 j) * \sum_l (invmx (K + S)) j l * K_qx 0 l.
Proof. by move=> HL uL; split; [exact: dvar_closed_form | move=> i; exact: dvar_entry]. Qed.

(* the data flow equals the closed-form definitions that the run evaluates with the
   exact inverse of K_xx + S *)
Theorem C16_closed_model n d (K S L : 'M[R]_n) (y mu : 'cV[R]_n)
    (A : 'M[R]_(d, n)) (K_qx : 'rV[R]_n) (Rv dmu : 'cV[R]_d) :
  L *m L^T = K + S -> L \in unitmx ->
  [/\ @grad_mean O d n A K_qx (@gp_alpha O n L y mu) dmu
        = @grad_mean_closed O d n (@data_cov O n K S) A K_qx y mu dmu,
      @grad_cov O d n L A K_qx Rv = @grad_cov_closed O d n (@data_cov O n K S) A K_qx Rv
    & @dvar O d n L A K_qx = @dvar_closed O d n (@data_cov O n K S) A K_qx].
Proof.
move=> HL uL; split.
- exact: grad_mean_closed_model.
- exact: grad_cov_closed_model.
- exact: dvar_closed_model.
Qed.

(* mean.py spatial_gradient, entry by entry: 0, theta_lin_i,
   theta_lin_i + 2 (q_i - mean_k x_ki) theta_quad_i *)
Theorem C16_mean_function_gradients n d (X : 'M[R]_(n, d)) (q tl tq : 'cV[R]_d) i : (0 < n)%N ->
  [/\ (@dmean_const O d) i 0 = 0,
      (@dmean_linear O d tl) i 0 = tl i 0
    & (@dmean_quadratic O n d X q tl tq) i 0
      = tl i 0 + 2%:R * (q i 0 - (\sum_k X k i) / n%:R) * tq i 0].
Proof.
move=> n0; split.
- exact: dmean_constE.
- exact: dmean_linearE.
- exact: dmean_quadraticE.
Qed.

(* ---- pinned tree ---------------------------------------------------------------------- *)
(* D15: `R - Q.T @ Q` broadcasts R as a row; off the diagonal the result is the
   repaired entry + R_j, hence pinned_ij - pinned_ji = R_j - R_i *)
Theorem C16_grad_cov_pinned_entries d n (L : 'M[R]_n) (A : 'M[R]_(d, n)) (K_qx : 'rV[R]_n)
    (Rv : 'cV[R]_d) i j :
  (@grad_cov_pinned O d n L A K_qx Rv) i j
    = (@grad_cov O d n L A K_qx Rv) i j + (if i == j then 0 else Rv j 0)
  /\ (i != j -> (@grad_cov_pinned O d n L A K_qx Rv) i j - (@grad_cov_pinned O d n L A K_qx Rv) j i
                = Rv j 0 - Rv i 0).
Proof. by split; [exact: grad_cov_pinned_entry | exact: grad_cov_pinned_asym]. Qed.

Theorem C16_grad_cov_asym_refuted :
  exists (L : 'M[R]_1) (A : 'M[R]_(2, 1)) (K_qx : 'rV[R]_1) (Rv : 'cV[R]_2),
    (@grad_cov_pinned O 2 1 L A K_qx Rv)^T != @grad_cov_pinned O 2 1 L A K_qx Rv.
Proof.
exists 1%:M, 0, 0, (\col_i (i : nat)%:R).
apply/eqP => /matrixP /(_ 1 0); rewrite mxE => h.
have := @grad_cov_pinned_asym R 2 1 1%:M 0 0 (\col_i (i : nat)%:R) 0 1 isT.
rewrite h subrr !mxE /= subr0 => /esym/eqP.
by rewrite oner_eq0.
Qed.

(* D14: the pinned gradient mean lacks the derivative of the mean function; with a
   linear mean the two differ by theta[1:] *)
Theorem C16_grad_mean_pinned_diff d n (A : 'M[R]_(d, n)) (K_qx : 'rV[R]_n) (alpha : 'cV[R]_n)
    (dmu : 'cV[R]_d) :
  @grad_mean O d n A K_qx alpha dmu - @grad_mean_pinned O d n A K_qx alpha dmu = dmu.
Proof. exact: grad_mean_pinned_diff. Qed.

Theorem C16_dmean_linear_refuted :
  exists (A : 'M[R]_1) (K_qx : 'rV[R]_1) (alpha th : 'cV[R]_1),
    @grad_mean_pinned O 1 1 A K_qx alpha (@dmean_linear O 1 th)
    != @grad_mean O 1 1 A K_qx alpha (@dmean_linear O 1 th).
Proof.
exists 0, 0, 0, 1%:M.
apply/eqP => h.
have := @grad_mean_pinned_diff R 1 1 0 0 0 (@dmean_linear O 1 1%:M).
rewrite h subrr => /matrixP /(_ 0 0).
by rewrite dmean_linearE !mxE eqxx mulr1n => /esym/eqP; rewrite oner_eq0.
Qed.

(* ---- non-vacuity -------------------------------------------------------------------------- *)
(* the joint-PSD hypothesis of C16_grad_cov_psd is met whenever the joint prior
   covariance is a Gram matrix -- which is what "positive semi-definite kernel" means
   for the pair (function values, gradient values) -- plus any PSD noise covariance *)
Example C16_joint_psd_example n d p (G1 : 'M[R]_(n, p)) (G2 : 'M[R]_(d, p)) (S : 'M[R]_n) :
  psd S ->
  psd (block_mx (G1 *m G1^T + S) (G2 *m G1^T)^T (G2 *m G1^T) (G2 *m G2^T)).
Proof.
move=> pS; apply: joint_psd_of_kernel => //.
have -> : block_mx (G1 *m G1^T) (G2 *m G1^T)^T (G2 *m G1^T) (G2 *m G2^T)
          = col_mx G1 G2 *m (col_mx G1 G2)^T.
  by rewrite tr_col_mx mul_col_row trmx_mul trmxK.
exact: psd_gram.
Qed.

End C16.

Print Assumptions C16_grad_mean_closed.
Print Assumptions C16_grad_mean_entry.
Print Assumptions C16_grad_cov_closed.
Print Assumptions C16_grad_cov_psd.
Print Assumptions C16_dvar_closed.
Print Assumptions C16_closed_model.
Print Assumptions C16_mean_function_gradients.
Print Assumptions C16_grad_cov_pinned_entries.
Print Assumptions C16_grad_cov_asym_refuted.
Print Assumptions C16_grad_mean_pinned_diff.
Print Assumptions C16_dmean_linear_refuted.

(* the analysis half: C16_se_cross_derivative, C16_se_prior_gradient_cov,
   C16_mean_function_derivatives, C16_dmean_is_derivative(_library_means),
   C16_dvar_is_derivative, C16_generic_kernel, and the executed witnesses *)
Require Export IT.Properties.C16Analysis.
