(* C15 -- the length counters after ANY history of take_step / advance calls, interrupted
   calls included.  Property theorems only; every proof is `exact <lemma>`.

   Vocabulary (Model/AdvanceSteps.v, Proofs/AdvanceStepsProofs.v):
     sst                  the counts of a sampler: stored values per storage list (one list per parameter
                          for the Metropolis / Gibbs / PCA chains, one list of vectors for HMC, the sample
                          array of the ensemble), stored log-probabilities, chain_length, n_iterations
     kind                 KCol n (Metropolis / Gibbs / PCA with n parameters), KRow (HMC), KEns nw (ensemble)
     call                 CStep e: take_step() making e evaluations of the posterior / its gradient;
                          CAdvance es: advance(length es) whose j-th step makes nth j es evaluations
     (c, k) : call * nat  the call c during which evaluation number k raises (k = 0, or k larger than the
                          number of evaluations the call makes: the call returns normally)
     run_calls kd hist    the sampler after the history hist of such calls
     added kd (c, k)      completed steps of the call (times n_walkers; the ensemble's advance stores
                          nothing unless it returns)
     agree st             chain_length = stored values of EVERY storage list = stored log-probabilities
     shape_ok kd st       the sampler has the storage lists of its kind
     strace k prog st     the states seen from inside the evaluations of a call *)
From Coq Require Import List Arith Bool.
From IT Require Import Model.Advance Model.AdvanceSteps Proofs.AdvanceStepsProofs.
Import ListNotations.

(* after every history -- whatever the numbers of evaluations, whichever calls are interrupted and
   wherever -- the reported chain length equals the number of stored samples of every parameter and
   the number of stored log-probabilities, and it has grown by exactly the completed steps *)
Theorem C15_interrupted_lengths_agree : forall kd hist st,
  shape_ok kd st -> agree st ->
  shape_ok kd (run_calls kd hist st) /\ agree (run_calls kd hist st) /\
  s_len (run_calls kd hist st) = s_len st + added_total kd hist.
Proof. exact run_calls_agree. Qed.

(* a call that is not interrupted adds exactly what was asked for; an interrupted call adds a whole
   number of steps, at most the number asked for (never part of a step) *)
Theorem C15_interrupted_call_adds_whole_steps : forall kd c,
  added kd (c, 0) = requested c * per_step kd /\
  forall k, exists j, j <= requested c /\ added kd (c, k) = j * per_step kd.
Proof. intros kd c. split; [exact (added_uninterrupted kd c)|intros k; exact (added_bounds kd (c, k))]. Qed.

(* the counters also agree at every moment user code runs (inside every evaluation of the posterior
   or its gradient): there is no point at which an exception could leave them apart *)
Theorem C15_evaluations_see_agreeing_lengths : forall kd c k st,
  shape_ok kd st -> agree st ->
  Forall (fun s => shape_ok kd s /\ agree s) (strace k (call_prog kd c) st).
Proof. exact call_trace_agree. Qed.

(* EnsembleSampler.n_iterations counts the iterations all of whose evaluations returned *)
Theorem C15_ensemble_iterations_counted : forall nw hist st,
  shape_ok (KEns nw) st -> agree st ->
  s_iter (run_calls (KEns nw) hist st) = s_iter st + list_sum (map iterated hist).
Proof. exact run_calls_iter. Qed.

(* ---- why "store only after the last evaluation" is necessary (not the pinned code): storing each
   parameter's value straight after its own update is indistinguishable without an interruption,
   but one exception in the second parameter's evaluation leaves the first parameter with one more
   stored value than chain_length, for ever *)
Theorem C15_nonatomic_step_same_uninterrupted : forall es st,
  srun 0 (gibbs_interleaved es) st = srun 0 (col_step (length es) (list_sum es)) st.
Proof. exact interleaved_same_uninterrupted. Qed.

Theorem C15_nonatomic_step_refuted :
  let st0 := mkS [1; 1] 1 1 0 in
  shape_ok (KCol 2) st0 /\ agree st0 /\
  srun 2 (gibbs_interleaved [1; 1]) st0 = mkS [2; 1] 1 1 0 /\
  ~ agree (srun 2 (gibbs_interleaved [1; 1]) st0) /\
  (forall es, ~ agree (srun 0 (flat_map (col_step 2) es) (srun 2 (gibbs_interleaved [1; 1]) st0))) /\
  srun 2 (col_step 2 2) st0 = st0.
Proof. exact nonatomic_step_refuted. Qed.

(* ---- pinned behaviour worth knowing (not a clause of C15, which speaks of chain_length): an
   interrupted EnsembleSampler.advance keeps the iterations it completed in n_iterations although
   their samples are dropped *)
Theorem C15_ensemble_iterations_outrun_samples :
  let st0 := mkS [0] 0 0 0 in
  let st1 := run_calls (KEns 4) [(CAdvance [4; 4; 4], 10)] st0 in
  agree st1 /\ s_len st1 = 0 /\ s_iter st1 = 2 /\
  let st2 := run_calls (KEns 4) [(CAdvance [4; 4], 0)] st1 in
  agree st2 /\ s_len st2 = 8 /\ s_iter st2 = 4.
Proof. exact ensemble_iterations_outrun_samples. Qed.

(* non-vacuity: a three-parameter Gibbs chain; take_step, advance(3) interrupted in its second step,
   take_step interrupted at its last evaluation, advance(2) *)
Example C15_steps_example :
  let st0 := mkS [1; 1; 1] 1 1 0 in
  let hist := [(CStep 4, 0); (CAdvance [3; 5; 3], 6); (CStep 3, 3); (CAdvance [3; 4], 0)] in
  shape_ok (KCol 3) st0 /\ agree st0 /\
  added_total (KCol 3) hist = 4 /\
  run_calls (KCol 3) hist st0 = mkS [5; 5; 5] 5 5 0 /\
  map obs_of (strace 6 (call_prog (KCol 3) (CAdvance [3; 5; 3])) (mkS [2; 2; 2] 2 2 0))
  = [([2; 2; 2], 2, 2, 0); ([2; 2; 2], 2, 2, 0); ([2; 2; 2], 2, 2, 0);
     ([3; 3; 3], 3, 3, 0); ([3; 3; 3], 3, 3, 0); ([3; 3; 3], 3, 3, 0)].
Proof.
  cbn zeta. split; [reflexivity|]. split; [split; [repeat constructor|reflexivity]|].
  split; [reflexivity|]. split; reflexivity.
Qed.

Print Assumptions C15_interrupted_lengths_agree.
Print Assumptions C15_interrupted_call_adds_whole_steps.
Print Assumptions C15_evaluations_see_agreeing_lengths.
Print Assumptions C15_ensemble_iterations_counted.
Print Assumptions C15_nonatomic_step_same_uninterrupted.
Print Assumptions C15_nonatomic_step_refuted.
Print Assumptions C15_ensemble_iterations_outrun_samples.
