(* C06 -- priors: log-densities, gradients, supports / bounds, sampling arguments,
   JointPrior index routing, Posterior sums, initial guesses.
   Property theorems only; every proof is `exact <lemma>`.

   Vocabulary (Model/JointPrior.v): a component is (kind, par1, par2, variables);
   `all_assigns comps` lists, for the ORIGINAL (unmerged) components, every
   (index i, (kind, p1, p2)) = "index i is owned by a 1-D prior of that kind with those
   hyper-parameters"; `partitions comps n` = every component has as many parameters as
   variables and the variable lists, concatenated in the given order, are a permutation
   of 0..n-1 (any order, any interleaving).  joint_grad / joint_bounds / joint_sample /
   joint_logp are the model of JointPrior *including* the same-type merging.

   NOT proved: the Gaussian integral (normalisation of gauss_pdf) -- a named classical
   fact, no axiom introduced; the laws of numpy's generators (sample() is tied to the
   density only through the loc / scale / low / high it passes and where it stores the
   draws). *)
From Coq Require Import Reals List QArith Qreals Lia Lra Sorting.Permutation.
From Coquelicot Require Import Coquelicot.
From IT Require Import RealModel.Likelihoods Model.JointPrior RealModel.Priors
  Proofs.JointPriorProofs Proofs.PriorsProofs.
Import ListNotations.
Open Scope R_scope.

(* ---- per class: value = sum of ln(named pdf) on the support ---- *)
Theorem C06_gauss_value : forall means sigmas ts,
  length means = length sigmas -> length sigmas = length ts -> List.Forall (fun s => 0 < s) sigmas ->
  gaussp_logp means sigmas ts = sumR (map3 (fun m s t => ln (gauss_pdf m s t)) means sigmas ts).
Proof. exact gaussp_value. Qed.

Theorem C06_exp_value : forall betas ts,
  length betas = length ts -> List.Forall (fun b => 0 < b) betas -> List.Forall (fun t => 0 <= t) ts ->
  expp_logp betas ts = sumR (map2 (fun b t => ln (exp_pdf (1 / b) t)) betas ts).
Proof. exact expp_value. Qed.

Theorem C06_unif_value : forall lowers uppers ts,
  Forall3 (fun lo up t => lo < up /\ lo <= t <= up) lowers uppers ts ->
  unifp_logp lowers uppers ts = sumR (map3 (fun lo up t => ln (unif_pdf lo up t)) lowers uppers ts).
Proof. exact unifp_value. Qed.

(* outside the support the value is the marker -1e100 (and the exponential gradient entry is 0) *)
Theorem C06_outside_support :
  (forall betas ts t, In t ts -> t < 0 -> expp_logp betas ts = outside_value) /\
  (forall lowers uppers ts k,
     (k < length lowers)%nat -> (k < length uppers)%nat -> (k < length ts)%nat ->
     (nth k ts 0 < nth k lowers 0 \/ nth k uppers 0 < nth k ts 0) ->
     unifp_logp lowers uppers ts = outside_value) /\
  (forall betas ts k, length betas = length ts -> (k < length ts)%nat -> nth k ts 0 < 0 ->
     nth k (expp_grad betas ts) 0 = 0).
Proof. exact outside_support_values. Qed.

(* ---- per class: gradient entry k = derivative of ln(named pdf of coordinate k) ---- *)
Theorem C06_gauss_gradient : forall means sigmas ts k,
  length means = length sigmas -> length sigmas = length ts -> (k < length ts)%nat ->
  0 < nth k sigmas 0 ->
  is_derive (fun x => ln (gauss_pdf (nth k means 0) (nth k sigmas 0) x)) (nth k ts 0)
            (nth k (gaussp_grad means sigmas ts) 0).
Proof. exact gaussp_gradient_entry. Qed.

Theorem C06_exp_gradient : forall betas ts k,
  length betas = length ts -> (k < length ts)%nat -> 0 < nth k betas 0 -> 0 <= nth k ts 0 ->
  is_derive (fun x => ln (exp_pdf (1 / nth k betas 0) x)) (nth k ts 0) (nth k (expp_grad betas ts) 0).
Proof. exact expp_gradient_entry. Qed.

Theorem C06_unif_gradient : forall lowers uppers ts k,
  is_derive (fun x => ln (unif_pdf (nth k lowers 0) (nth k uppers 0) x)) (nth k ts 0)
            (nth k (unifp_grad lowers) 0).
Proof. exact unifp_gradient_entry. Qed.

(* ---- normalisation (elementary antiderivatives) ---- *)
Theorem C06_exp_pdf_normalised : forall lam, 0 < lam ->
  (forall x, 0 < exp_pdf lam x) /\
  (forall b, is_RInt (exp_pdf lam) 0 b (exp_cdf lam b)) /\
  is_lim (exp_cdf lam) p_infty 1.
Proof. exact exp_pdf_normalised. Qed.

Theorem C06_unif_pdf_normalised : forall lo hi, lo < hi ->
  (forall x, 0 < unif_pdf lo hi x) /\ is_RInt (unif_pdf lo hi) lo hi 1.
Proof. exact unif_pdf_normalised. Qed.

(* ---- joint prior: merging, constructor, routing ---- *)
Theorem C06_merge_preserves_assignments : forall comps, List.Forall wf_comp comps ->
  List.Forall wf_comp (merged comps) /\
  Permutation (all_assigns (merged comps)) (all_assigns comps) /\
  Permutation (all_vars (merged comps)) (all_vars comps).
Proof. exact merge_preserves. Qed.

Theorem C06_constructor_accepts_partitions : forall comps n,
  List.Forall wf_comp comps -> joint_valid comps n = true -> partitions comps n.
Proof. exact joint_valid_partitions. Qed.

(* value: sum over all indices of ln(named 1-D pdf owning the index) = sum over the original components *)
Theorem C06_joint_value : forall comps n theta, partitions comps n ->
  List.Forall (assign_ok theta) (all_assigns comps) ->
  joint_logp comps theta = sumR (map (assign_term theta) (all_assigns comps)) /\
  joint_logp comps theta =
  sumR (map (fun c => item_logp (mkItem (ckind c) (comp_inside c theta) (cpar1 c) (cpar2 c)
                                        (gather 0%Q theta (cvars c)))) comps).
Proof. exact routing_value. Qed.

(* gradient: entry i is the gradient of the 1-D prior that owns index i ... *)
Theorem C06_joint_gradient : forall comps n theta i k p1 p2,
  partitions comps n -> In (i, (k, p1, p2)) (all_assigns comps) ->
  length (joint_grad comps n theta) = n /\
  nth i (joint_grad comps n theta) 0%Q = coord_grad k p1 p2 (nth i theta 0%Q).
Proof. exact routing_gradient. Qed.

(* ... i.e. grad[c.variables] = c.gradient(theta) for every original component c *)
Theorem C06_joint_gradient_components : forall comps n theta c,
  partitions comps n -> In c comps ->
  gather 0%Q (joint_grad comps n theta) (cvars c) = comp_grad c theta.
Proof. exact routing_gradient_component. Qed.

(* ... and it is the partial derivative of the joint value in the interior of the support *)
Theorem C06_joint_gradient_is_derivative : forall comps n theta i k p1 p2,
  partitions comps n -> In (i, (k, p1, p2)) (all_assigns comps) ->
  coord_params_ok k (Q2R p1) (Q2R p2) ->
  coord_interior k (Q2R p1) (Q2R p2) (Q2R (nth i theta 0%Q)) ->
  is_derive (fun u => sumR (map (assign_term_at theta i u) (all_assigns comps)))
            (Q2R (nth i theta 0%Q)) (Q2R (nth i (joint_grad comps n theta) 0%Q)) /\
  sumR (map (assign_term_at theta i (Q2R (nth i theta 0%Q))) (all_assigns comps)) =
  sumR (map (assign_term theta) (all_assigns comps)).
Proof. exact routing_gradient_is_derivative. Qed.

(* bounds[i] = bounds of the 1-D prior that owns index i *)
Theorem C06_joint_bounds : forall comps n i k p1 p2,
  partitions comps n -> In (i, (k, p1, p2)) (all_assigns comps) ->
  length (joint_bounds comps) = n /\
  nth i (joint_bounds comps) (None, None) = coord_bounds k p1 p2.
Proof. exact routing_bounds. Qed.

(* sample: the j-th draw is turned into a sample of the j-th (merged order) assignment's 1-D
   prior and stored at that assignment's own index *)
Theorem C06_joint_sample : forall comps n script j i k p1 p2,
  partitions comps n -> length script = n -> (j < n)%nat ->
  nth j (all_assigns (merged comps)) (0%nat, (KGauss, 0%Q, 0%Q)) = (i, (k, p1, p2)) ->
  (i < n)%nat /\ In (i, (k, p1, p2)) (all_assigns comps) /\
  nth i (joint_sample comps n script) 0%Q = coord_sample k p1 p2 (nth j script 0%Q).
Proof. exact routing_sample. Qed.

(* ---- posterior ---- *)
Theorem C06_posterior_sum : forall like prior (gl gp : nat -> R) j,
  posterior_logp like prior = like + prior /\
  posterior_grad gl gp j = gl j + gp j /\
  posterior_cost like prior = - posterior_logp like prior /\
  posterior_cost_grad gl gp j = - posterior_grad gl gp j.
Proof. exact posterior_sum. Qed.

Theorem C06_posterior_gradient_is_derivative : forall (L P : R -> R) (gl gp : nat -> R) j t,
  is_derive L t (gl j) -> is_derive P t (gp j) ->
  is_derive (fun u => posterior_logp (L u) (P u)) t (posterior_grad gl gp j) /\
  is_derive (fun u => posterior_cost (L u) (P u)) t (posterior_cost_grad gl gp j).
Proof. exact posterior_gradient_is_derivative. Qed.

(* ---- generate_initial_guesses: n guesses, in non-decreasing cost, no rejected draw is cheaper ---- *)
Theorem C06_guesses_sorted_prefix : forall (A : Type) (cost : A -> Q) (samples : list A) n,
  (n <= length samples)%nat ->
  length (guesses cost samples n) = n /\
  sorted_q cost (guesses cost samples n) /\
  (exists rest, Permutation samples (guesses cost samples n ++ rest) /\
                forall x y, In x (guesses cost samples n) -> In y rest -> (cost x <= cost y)%Q).
Proof. exact @guesses_spec. Qed.

(* the sort is stable: draws of equal cost keep their order *)
Theorem C06_guesses_stable : forall (A : Type) (cost : A -> Q) (p : A -> bool) (l : list A),
  (forall a b, p a = true -> p b = true -> (cost a == cost b)%Q) ->
  filter p (sort_q cost l) = filter p l.
Proof. exact @sort_q_stable. Qed.

(* ---- D26: the pinned UniformPrior.gradient hands out its own buffer ---- *)
Theorem C06_uniform_gradient_alias_refuted :
  exists buf adds, snd (unif_grad_pinned buf adds) <> buf /\ snd (unif_grad buf adds) = buf.
Proof. exact unif_grad_alias_refuted. Qed.

(* non-vacuity: four components given out of order, two Gaussians (merged), indices permuted *)
Example C06_example :
  let comps := [mkComp KUnif [0#1] [2#1] [2%nat]; mkComp KGauss [1#1] [2#1] [3%nat];
                mkComp KExp [2#1] [0#1] [0%nat]; mkComp KGauss [0#1] [1#1] [1%nat]]%Q in
  let theta := [1#1; 2#1; 3#2; -1#1]%Q in
  partitions comps 4 /\ joint_valid comps 4 = true /\
  List.Forall (assign_ok theta) (all_assigns comps) /\
  map Qred (joint_grad comps 4 theta) = [-1#2; -2#1; 0#1; 1#2]%Q /\
  joint_bounds comps = [(Some 0, None); (None, None); (Some 0, Some (2#1)); (None, None)]%Q /\
  map cvars (merged comps) = [[3; 1]; [0]; [2]]%nat.
Proof.
  cbv zeta. split; [|split; [|split; [|split; [|split]]]].
  - split.
    + repeat constructor.
    + vm_compute. apply (NoDup_lt_perm_seq [2; 3; 0; 1]%nat 4).
      * repeat constructor; simpl; intuition lia.
      * reflexivity.
      * simpl. intuition lia.
  - vm_compute. reflexivity.
  - vm_compute all_assigns. unfold assign_ok.
    repeat constructor; simpl; unfold Q2R; simpl; try lra; try reflexivity.
  - vm_compute. reflexivity.
  - vm_compute. reflexivity.
  - vm_compute. reflexivity.
Qed.

Print Assumptions C06_gauss_value.
Print Assumptions C06_exp_value.
Print Assumptions C06_unif_value.
Print Assumptions C06_outside_support.
Print Assumptions C06_gauss_gradient.
Print Assumptions C06_exp_gradient.
Print Assumptions C06_unif_gradient.
Print Assumptions C06_exp_pdf_normalised.
Print Assumptions C06_unif_pdf_normalised.
Print Assumptions C06_merge_preserves_assignments.
Print Assumptions C06_constructor_accepts_partitions.
Print Assumptions C06_joint_value.
Print Assumptions C06_joint_gradient.
Print Assumptions C06_joint_gradient_components.
Print Assumptions C06_joint_gradient_is_derivative.
Print Assumptions C06_joint_bounds.
Print Assumptions C06_joint_sample.
Print Assumptions C06_posterior_sum.
Print Assumptions C06_posterior_gradient_is_derivative.
Print Assumptions C06_guesses_sorted_prefix.
Print Assumptions C06_guesses_stable.
Print Assumptions C06_uniform_gradient_alias_refuted.
