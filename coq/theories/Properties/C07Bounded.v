(* C07 supplement: the internally estimated gradient when a bounds box is given (the difference
   step is turned inward when the outward point would leave the box). *)
From Coq Require Import QArith Qabs List.
From IT Require Import Model.Leapfrog Model.FiniteDiffBounded Proofs.LeapfrogProofs Proofs.FiniteDiffBoundedProofs.
Import ListNotations.
Open Scope Q_scope.

(* exact on coordinate-wise quadratics up to the explicit first-order term, at every point of the
   box -- walls and zero coordinates included -- and for every temperature (the estimate is the
   un-tempered gradient) *)
Theorem C07_finite_diff_b_exact_on_quadratics :
  forall (logp : vec -> Q) (h fl : Q) (lo hi : vec) (g : nat -> vec -> Q) (a : nat -> Q),
  (forall t i s, (i < length t)%nat ->
     logp (upd i (fun x => x + s) t) == logp t + s * g i t - (1 # 2) * a i * s * s) ->
  0 < fl ->
  forall t i, (i < length t)%nat ->
  nth i (finite_diff_b logp h fl lo hi t) 0 == g i t - (1 # 2) * a i * fd_step_b h fl lo hi t i.
Proof. exact finite_diff_b_exact_on_quadratics. Qed.

Theorem C07_finite_diff_b_error_bound :
  forall (logp : vec -> Q) (h fl : Q) (lo hi : vec) (g : nat -> vec -> Q) (a : nat -> Q),
  (forall t i s, (i < length t)%nat ->
     logp (upd i (fun x => x + s) t) == logp t + s * g i t - (1 # 2) * a i * s * s) ->
  0 < fl ->
  forall t i, (i < length t)%nat ->
  Qabs (nth i (finite_diff_b logp h fl lo hi t) 0 - g i t) <=
  (1 # 2) * Qabs (a i) * (if Qlt_le_dec (Qabs (nth i t 0 * h)) fl then fl else Qabs (nth i t 0 * h)).
Proof. exact finite_diff_b_error_bound. Qed.

(* the step never vanishes and has the magnitude of the unbounded one *)
Theorem C07_finite_diff_b_step : forall (h fl : Q) (lo hi t : vec) (i : nat), 0 < fl ->
  ~ fd_step_b h fl lo hi t i == 0 /\
  Qabs (fd_step_b h fl lo hi t i) == Qabs (fd_step h fl (nth i t 0)).
Proof. intros h fl lo hi t i H. split; [apply fd_step_b_nonzero; exact H|apply fd_step_b_abs]. Qed.

Print Assumptions C07_finite_diff_b_exact_on_quadratics.
Print Assumptions C07_finite_diff_b_error_bound.
Print Assumptions C07_finite_diff_b_step.
