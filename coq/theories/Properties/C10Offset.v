(* C10 (continued) -- the kernel objects on data far from the origin, and positive
   semi-definiteness of the squared-exponential kernel.
   Property theorems only; every proof is `exact <lemma>` (Proofs/KernelsTranslationProofs.v,
   Proofs/SePsdProofs.v).

   The property quantifies over ALL point sets.  Time stamps, map coordinates, positions in a
   machine frame share a common offset that is large compared with the length-scales; the
   documented kernels depend on coordinate differences only (the change-point kernel on
   x - location), so such an offset must not matter.  `ktranslated c K th th'` states this
   for every entry point C10 speaks about: __call__, build_covariance, EVERY gradient matrix
   of covariance_and_gradients and the documented diagonal terms agree, entry by entry,
   between the data moved by c (hyper-parameters th': change-point locations moved by c[axis],
   everything else as in th) and the original data.  It holds for the base kernels, sums and
   change-points of any length and any nesting.

   The correspondence run repeats two fifths of its cases on data carrying integer offsets of
   2^10 .. 2^32 (exact in double), evaluates the model with coq-interval AT the offset
   coordinates against what the real objects return there, and uses the theorems below as
   its oracle on the implementation: the matrices returned on the offset data against those
   returned at the origin, builder against pairwise evaluation, eigenvalues of K(x, x).

   Positive semi-definiteness: the squared-exponential kernel is now PROVED positive
   semi-definite in any dimension, for any hyper-parameters (C10_se_psd; exp(<p,q>) as the
   limit of its power series, powers of an inner product by the Schur product with a
   finite-feature kernel), so its builder, and every sum / change-point of squared-
   exponential and noise kernels, is positive semi-definite without hypothesis.  The
   rational-quadratic kernel remains a hypothesis (C10_psd_builder_base). *)
From Coq Require Import Reals List Arith Lia Lra.
From IT Require Import Model.Slices RealModel.Kernels
  Proofs.SlicesProofs Proofs.KernelsProofs Proofs.GpTranslationProofs Proofs.PsdProofs
  Proofs.KernelsTranslationProofs Proofs.SePsdProofs.
Import ListNotations.
Open Scope R_scope.

(* ---- every entry point is translation invariant ---- *)
Theorem C10_offset_base_kernels : forall d n,
  kstationary (se d) /\ kstationary (rq d) /\ kstationary wn /\ kstationary (hn n).
Proof.
  intros d n. exact (conj (se_kstationary d) (conj (rq_kstationary d) (conj wn_kstationary (hn_kstationary n)))).
Qed.

(* sums of any length: each component related on its slice *)
Theorem C10_offset_sum : forall ks c th th',
  each_ktranslated c ks (sum_slices ks) th th' -> ktranslated c (ksum ks) th th'.
Proof. exact sum_ktranslated. Qed.

Theorem C10_offset_sum_stationary : forall ks, List.Forall kstationary ks -> kstationary (ksum ks).
Proof. exact sum_kstationary. Qed.

(* change-points with any number of kernels (themselves sums, change-points, ...) along any axis:
   the locations move with the data *)
Theorem C10_offset_changepoint : forall axis ks c th th',
  cp_theta_ktranslated c axis ks th th' -> ktranslated c (kcp axis ks) th th'.
Proof. exact cp_ktranslated. Qed.

Theorem C10_offset_changepoint_stationary : forall axis ks c th th',
  List.Forall kstationary ks -> cp_theta_translated ks (coord c axis) th th' ->
  ktranslated c (kcp axis ks) th th'.
Proof. exact cp_ktranslated_stationary. Qed.

(* ---- what the run observes ---- *)
(* every entry of __call__(x, x), build_covariance, every gradient matrix, the diagonal terms *)
Theorem C10_offset_entries : forall K c th th' xs xs' i j,
  ktranslated c K th th' -> all_translated c xs xs' -> (i < length xs)%nat -> (j < length xs)%nat ->
  kval K th' (point xs' i) (point xs' j) = kval K th (point xs i) (point xs j)
  /\ kbuild K xs' th' i j = kbuild K xs th i j
  /\ (forall p, kgrad K xs' th' p i j = kgrad K xs th p i j)
  /\ kdiag K xs' th' i = kdiag K xs th i.
Proof. exact offset_entries. Qed.

Theorem C10_offset_cross_entries : forall K c th th' us us' vs vs' a b,
  ktranslated c K th th' -> all_translated c us us' -> all_translated c vs vs' ->
  (a < length us)%nat -> (b < length vs)%nat ->
  kval K th' (point us' a) (point vs' b) = kval K th (point us a) (point vs b).
Proof. exact offset_cross_entries. Qed.

(* the fast builder on the offset data = pairwise evaluation there + diagonal terms there
   = pairwise evaluation at the origin + diagonal terms at the origin *)
Theorem C10_offset_builder_eq_pairwise : forall K c th th' xs xs' i j,
  bep K -> ktranslated c K th th' -> all_translated c xs xs' ->
  (i < length xs)%nat -> (j < length xs)%nat ->
  kbuild K xs' th' i j = kval K th' (point xs' i) (point xs' j) + kdiag K xs' th' i * delta i j
  /\ kbuild K xs' th' i j = kval K th (point xs i) (point xs j) + kdiag K xs th i * delta i j.
Proof. exact offset_builder_eq_pairwise. Qed.

(* the quadratic forms of K(x + c, x + c) and of build_covariance on x + c are those at the origin *)
Theorem C10_offset_gram_quadratic_form : forall K c th th' xs xs' (l : list (R * nat)),
  ktranslated c K th th' -> all_translated c xs xs' ->
  (forall a, In a l -> (snd a < length xs)%nat) ->
  qf (fun i j : nat => kval K th' (point xs' i) (point xs' j)) l
  = qf (fun i j : nat => kval K th (point xs i) (point xs j)) l
  /\ qf (fun i j : nat => kbuild K xs' th' i j) l = qf (fun i j : nat => kbuild K xs th i j) l.
Proof. exact offset_gram_qf. Qed.

(* a positive semi-definite kernel has positive semi-definite Gram matrices at any points *)
Theorem C10_gram_psd_anywhere : forall K th (xs : list pt),
  kpsd K -> psd (fun i j : nat => kval K th (point xs i) (point xs j)).
Proof. exact gram_psd_anywhere. Qed.

(* ---- the squared-exponential kernel is positive semi-definite ---- *)
Theorem C10_se_psd : forall d, kpsd (se d).
Proof. exact se_kpsd. Qed.

Theorem C10_se_builder_psd : forall d, bpsd (se d).
Proof. exact se_bpsd_proved. Qed.

(* kernels built from squared-exponential and noise kernels by sums and change-points, any
   nesting: __call__ Gram matrices and build_covariance are positive semi-definite *)
Theorem C10_se_composites_psd : forall K, se_noise_tree K -> kpsd K /\ bpsd K.
Proof. exact se_noise_tree_psd. Qed.

(* ---- non-vacuity ---- *)
(* a nested kernel on data moved by `off`: sum of SE, change-point (RQ | SE + white noise), heteroscedastic
   noise; theta' = theta with the change-point location moved *)
Example C10_offset_example : forall a l a1 k1 l1 a2 l2 s loc w h0 h1 off,
  ktranslated [off] (ksum [se 1; kcp 0 [rq 1; ksum [se 1; wn]]; hn 2])
    [a; l; a1; k1; l1; a2; l2; s; loc; w; h0; h1]
    [a; l; a1; k1; l1; a2; l2; s; loc + off; w; h0; h1].
Proof. exact ktranslated_example. Qed.

(* the translation hypothesis is met by adding c to every point (Proofs/GpTranslationProofs.v) *)
Example C10_offset_points_example : forall c xs, (forall u, In u xs -> length u = length c) ->
  all_translated c xs (map (shift c) xs).
Proof. exact map_shift_translated. Qed.

(* a kernel tree of the last theorem *)
Example C10_se_tree_example : se_noise_tree (ksum [se 2; kcp 1 [se 2; ksum [se 2; wn]; se 2]; hn 3]).
Proof. exact se_noise_tree_example. Qed.

Print Assumptions C10_offset_base_kernels.
Print Assumptions C10_offset_changepoint.
Print Assumptions C10_offset_entries.
Print Assumptions C10_offset_gram_quadratic_form.
Print Assumptions C10_se_psd.
Print Assumptions C10_se_composites_psd.
