(* C05, container stage -- the likelihood objects are the named densities whatever SHAPE the
   data and the uncertainties are handed over in (row (1,n) of an image, column (n,1),
   keepdims result (1,1,n), nested list, 0-d array, Python scalar, flat array ...).
   Property theorems only; every proof is `exact <lemma>`.

   The model (RealModel/LikelihoodsShaped.v): `ndarr` = what numpy.array(obj) builds (shape +
   elements in row-major order, `nd_wf`: as many elements as the shape says); the base class
   squeezes the two inputs independently (`nd_squeeze`) and rejects them unless the sizes agree
   and at most one axis of each is longer than 1 (`base_accepts`); GaussianLikelihood counts
   the data points as `self.y.size` AFTER the squeeze (`count_size`) for the
   -0.5*log(2*pi)*n_data part of its normalisation.  `count_leading` (shape[0] of the input
   before the squeeze, 1 for a 0-d input) is the contrast: it is right for every flat, column
   and scalar input and wrong for every row.

   ya = data, sa / ga = the given uncertainties, fs = predictions, F = predictions as functions
   of the one parameter that is varied, J = Jacobian as list of rows. *)
From Coq Require Import Reals List ZArith Arith Bool Lra Lia.
From Coquelicot Require Import Coquelicot.
From IT Require Import RealModel.Likelihoods RealModel.LikelihoodsTyped RealModel.LikelihoodsShaped
                       Proofs.LikelihoodsProofs Proofs.LikelihoodsTypedProofs
                       Proofs.LikelihoodsShapedProofs.
Import ListNotations.
Open Scope R_scope.

(* ---- the count used by the pinned code is the number of elements, for every shape ---- *)
Theorem C05_shaped_count_is_number_of_data : forall a, nd_wf a -> count_size a = length (nd_data a).
Proof. exact count_size_is_length. Qed.

(* ---- value = sum over ALL the data points of ln pdf_named, for every accepted container ---- *)
Theorem C05_shaped_gauss_is_sum_logpdf : forall ya sa fs,
  nd_wf ya -> nd_wf sa -> base_accepts ya sa = true ->
  length (nd_data sa) = length fs -> List.Forall (fun s => 0 < sval s) (nd_data sa) ->
  gauss_call (gauss_init_nd ya sa) fs
  = sum_logpdf gauss_pdf (map sval (nd_data ya)) (map sval (nd_data sa)) fs.
Proof. exact shaped_gauss_is_sum_logpdf. Qed.

Theorem C05_shaped_cauchy_is_sum_logpdf : forall ya ga fs,
  nd_wf ya -> nd_wf ga -> base_accepts ya ga = true ->
  length (nd_data ga) = length fs -> List.Forall (fun g => 0 < sval g) (nd_data ga) ->
  cauchy_call (cauchy_init_nd ya ga) fs
  = sum_logpdf cauchy_pdf (map sval (nd_data ya)) (map sval (nd_data ga)) fs.
Proof. exact shaped_cauchy_is_sum_logpdf. Qed.

Theorem C05_shaped_logistic_is_sum_logpdf : forall ya sa fs,
  nd_wf ya -> nd_wf sa -> base_accepts ya sa = true ->
  length (nd_data sa) = length fs -> List.Forall (fun s => 0 < sval s) (nd_data sa) ->
  logistic_call (logistic_init_nd ya sa) fs
  = sum_logpdf (fun mu s y => logistic_pdf mu (s * (sqrt 3 / PI)) y)
               (map sval (nd_data ya)) (map sval (nd_data sa)) fs.
Proof. exact shaped_logistic_is_sum_logpdf. Qed.

(* ---- gradient = derivative of the value, for every accepted container ---- *)
Theorem C05_shaped_gauss_gradient_is_derivative : forall ya sa (F : list (R -> R)) J j t,
  nd_wf ya -> nd_wf sa -> base_accepts ya sa = true ->
  length (nd_data sa) = length F -> length F = length J ->
  List.Forall (fun s => 0 < sval s) (nd_data sa) ->
  (forall i, (i < length F)%nat -> is_derive (nth i F (fun _ => 0)) t (nth j (nth i J []) 0)) ->
  is_derive (fun u => gauss_call (gauss_init_nd ya sa) (map (fun f => f u) F)) t
            (gauss_grad (gauss_init_nd ya sa) (map (fun f => f t) F) J j).
Proof. exact shaped_gauss_gradient_is_derivative. Qed.

Theorem C05_shaped_cauchy_gradient_is_derivative : forall ya ga (F : list (R -> R)) J j t,
  nd_wf ya -> nd_wf ga -> base_accepts ya ga = true ->
  length (nd_data ga) = length F -> length F = length J ->
  List.Forall (fun g => 0 < sval g) (nd_data ga) ->
  (forall i, (i < length F)%nat -> is_derive (nth i F (fun _ => 0)) t (nth j (nth i J []) 0)) ->
  is_derive (fun u => cauchy_call (cauchy_init_nd ya ga) (map (fun f => f u) F)) t
            (cauchy_grad (cauchy_init_nd ya ga) (map (fun f => f t) F) J j).
Proof. exact shaped_cauchy_gradient_is_derivative. Qed.

Theorem C05_shaped_logistic_gradient_is_derivative : forall ya sa (F : list (R -> R)) J j t,
  nd_wf ya -> nd_wf sa -> base_accepts ya sa = true ->
  length (nd_data sa) = length F -> length F = length J ->
  List.Forall (fun s => 0 < sval s) (nd_data sa) ->
  (forall i, (i < length F)%nat -> is_derive (nth i F (fun _ => 0)) t (nth j (nth i J []) 0)) ->
  is_derive (fun u => logistic_call (logistic_init_nd ya sa) (map (fun f => f u) F)) t
            (logistic_grad (logistic_init_nd ya sa) (map (fun f => f t) F) J j).
Proof. exact shaped_logistic_gradient_is_derivative. Qed.

(* ---- the same elements in two accepted containers give the same object ---- *)
Theorem C05_shaped_container_independent : forall ya ya' sa sa',
  nd_wf ya -> nd_wf sa -> base_accepts ya sa = true ->
  nd_wf ya' -> nd_wf sa' -> base_accepts ya' sa' = true ->
  nd_data ya = nd_data ya' -> nd_data sa = nd_data sa' ->
  gauss_init_nd ya sa = gauss_init_nd ya' sa' /\
  cauchy_init_nd ya sa = cauchy_init_nd ya' sa' /\
  logistic_init_nd ya sa = logistic_init_nd ya' sa'.
Proof. exact shaped_container_independent. Qed.

(* ---- why the count must be taken after the squeeze: the leading axis of the input is the
        number of data points for flat / column / scalar inputs ... ---- *)
Theorem C05_leading_count_ok_when_first_axis_is_long : forall d rest a,
  nd_shape a = d :: rest -> shape_size rest = 1%nat -> count_leading a = count_size a.
Proof. exact count_leading_ok_trailing_ones. Qed.

(* ... but with it EVERY accepted row-like input (1, ...) holding n <> 1 data points gives a
   value that is not the named density (it is off by (n-1) * ln(2 pi) / 2) *)
Theorem C05_leading_count_refuted_on_rows : forall ya sa fs rest,
  nd_wf ya -> nd_wf sa -> base_accepts ya sa = true ->
  length (nd_data sa) = length fs -> List.Forall (fun s => 0 < sval s) (nd_data sa) ->
  nd_shape ya = 1%nat :: rest -> shape_size rest <> 1%nat ->
  gauss_call (gauss_init_nd_with count_leading ya sa) fs
  <> sum_logpdf gauss_pdf (map sval (nd_data ya)) (map sval (nd_data sa)) fs.
Proof. exact leading_count_refuted_on_rows. Qed.

Theorem C05_leading_count_gauss_refuted :
  exists ya sa fs, nd_wf ya /\ nd_wf sa /\ base_accepts ya sa = true /\
    length (nd_data sa) = length fs /\ List.Forall (fun s => 0 < sval s) (nd_data sa) /\
    gauss_call (gauss_init_nd_with count_leading ya sa) fs
      <> sum_logpdf gauss_pdf (map sval (nd_data ya)) (map sval (nd_data sa)) fs.
Proof. exact leading_count_gauss_refuted. Qed.

(* non-vacuity: data (1, 2) as a row (1,2) of ints, uncertainties (1, 2) as a column (2,1) of ints,
   forward model (3t, t^2) at t = 1 -- same numbers as C05_example / C05_typed_example *)
Example C05_shaped_example :
  let ya := {| nd_shape := [1; 2]%nat; nd_data := [SInt 1; SInt 2] |} in
  let sa := {| nd_shape := [2; 1]%nat; nd_data := [SInt 1; SInt 2] |} in
  let F := [fun t => 3 * t; fun t => t * t] in let J := [[3]; [2]] in
  nd_wf ya /\ nd_wf sa /\ base_accepts ya sa = true /\
  is_derive (fun u => gauss_call (gauss_init_nd ya sa) (map (fun f => f u) F)) 1
            (gauss_grad (gauss_init_nd ya sa) (map (fun f => f 1) F) J 0)
  /\ gauss_grad (gauss_init_nd ya sa) (map (fun f => f 1) F) J 0 = - 11 / 2.
Proof.
  cbv zeta. split; [reflexivity|]. split; [reflexivity|]. split; [reflexivity|]. split.
  - apply shaped_gauss_gradient_is_derivative; try reflexivity.
    + repeat constructor; simpl; lra.
    + intros [|[|i]] Hi; simpl in *.
      * auto_derive; [exact I|ring].
      * auto_derive; [exact I|ring].
      * exfalso. lia.
  - unfold gauss_grad, gauss_init_nd, gauss_init_nd_with, true_recip, vecmat. simpl. field.
Qed.

Print Assumptions C05_shaped_count_is_number_of_data.
Print Assumptions C05_shaped_gauss_is_sum_logpdf.
Print Assumptions C05_shaped_cauchy_is_sum_logpdf.
Print Assumptions C05_shaped_logistic_is_sum_logpdf.
Print Assumptions C05_shaped_gauss_gradient_is_derivative.
Print Assumptions C05_shaped_cauchy_gradient_is_derivative.
Print Assumptions C05_shaped_logistic_gradient_is_derivative.
Print Assumptions C05_shaped_container_independent.
Print Assumptions C05_leading_count_ok_when_first_axis_is_long.
Print Assumptions C05_leading_count_refuted_on_rows.
Print Assumptions C05_leading_count_gauss_refuted.
