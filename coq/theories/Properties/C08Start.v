(* C08, extension -- call histories that begin with swap() on freshly constructed
   chains (before any step), for every chain class and temperature ladder; more
   generally: the stored log-probability the exchange rule divides by inv_temp is
   beta * L(point) at EVERY exchange round of EVERY history of calls, starting
   from the constructor.
   Property theorems only; every proof is `exact <lemma>`.
   Models: Model/Tempering.v, Model/TemperingStart.v (constructor of
   MetropolisChain / GibbsChain / PcaChain / HamiltonianChain; pure effect of a
   history of calls). *)
From Coq Require Import List Arith ZArith QArith Bool.
From IT Require Import Common.ExpBounds Model.Tempering Model.TemperingStart
  Proofs.TemperingPairsProofs Proofs.TemperingProofs Proofs.TemperingStartProofs.
Import ListNotations.
Open Scope Q_scope.

(* ---- the constructor: probs[0] = posterior(start) * inv_temp ---- *)
Theorem C08_fresh_chain_good : forall (logp : point -> Q) beta start tape quad rp,
  ~ beta == 0 -> good logp (fresh_chain logp beta start tape quad rp).
Proof. exact fresh_good. Qed.

Theorem C08_fresh_chain_fields : forall (logp : point -> Q) beta start tape quad rp,
  let c := fresh_chain logp beta start tape quad rp in
  c_beta c = beta /\ get_last c = start /\ last_prob c == beta * logp start /\
  length (c_hist c) = 1%nat.
Proof. exact fresh_fields. Qed.

(* ---- an exchange round before any step: the pair (i, j) is exchanged on the
   exponent (beta_i - beta_j)(L(start_j) - L(start_i)), any log-density, any two
   non-zero inverse temperatures, any start points ---- *)
Theorem C08_swap_first_prob : forall (logp : point -> Q) u bi bj xi xj ti tj qi qj ri rj,
  ~ bi == 0 -> ~ bj == 0 ->
  exists d, d == (bi - bj) * (logp xj - logp xi) /\
    swap_decide u bi bj (last_prob (fresh_chain logp bi xi ti qi ri))
                        (last_prob (fresh_chain logp bj xj tj qj rj)) = decide_accept u d.
Proof. exact swap_first_decision. Qed.

(* ... and after the exchange each chain holds the other's START point with its
   log-density re-expressed at the receiving chain's temperature *)
Theorem C08_swap_first_state : forall (take_step : chain -> chain) (logp : point -> Q)
    bi bj xi xj ti tj qi qj ri rj,
  ~ bi == 0 -> ~ bj == 0 ->
  let ci := fresh_chain logp bi xi ti qi ri in
  let cj := fresh_chain logp bj xj tj qj rj in
  match exchange take_step [ci; cj] 0 1 with
  | [ci'; cj'] =>
      get_last ci' = xj /\ last_prob ci' == bi * logp xj /\
      get_last cj' = xi /\ last_prob cj' == bj * logp xi /\
      c_beta ci' = bi /\ c_beta cj' = bj /\
      length (c_hist ci') = 1%nat /\ length (c_hist cj') = 1%nat
  | _ => False
  end.
Proof. exact swap_first_state. Qed.

(* the constructor that loses the factor inv_temp is refuted (mutation witness) *)
Theorem C08_untempered_start_refuted :
  let logp := quad_logp [(1, 0)] in
  let ci := fresh_chain logp 1 [4] [] [] true in
  let cj := fresh_chain logp (1 # 4) [3] [] [] true in
  let ci' := fresh_chain_untempered logp 1 [4] [] [] true in
  let cj' := fresh_chain_untempered logp (1 # 4) [3] [] [] true in
  swap_decide (1 # 2) 1 (1 # 4) (last_prob ci) (last_prob cj) = Some true /\
  swap_decide (1 # 2) 1 (1 # 4) (last_prob ci') (last_prob cj') = Some false /\
  ~ good logp cj'.
Proof. exact untempered_start_refuted. Qed.

(* ---- any round on good chains: every decision uses the untempered log-density
   of the chains' CURRENT points ---- *)
Theorem C08_round_decision : forall (logp : point -> Q) (P : chain -> Prop) cs betas i j u,
  Forall (inv logp P) cs -> map c_beta cs = betas -> (i < length cs)%nat -> (j < length cs)%nat ->
  let data := map (fun c => (get_last c, last_prob c)) cs in
  let bi := nth i betas 0 in let bj := nth j betas 0 in
  exists d, d == (bi - bj) * (logp (fst (nth j data ([], 0))) - logp (fst (nth i data ([], 0)))) /\
    swap_decide u bi bj (snd (nth i data ([], 0))) (snd (nth j data ([], 0))) = decide_accept u d.
Proof. exact round_decision. Qed.

(* ---- a whole round (all decisions, all update messages) keeps every chain good,
   leaves the temperatures and the chain lengths alone ---- *)
Theorem C08_swap_round_good : forall (logp : point -> Q) (take_step : chain -> chain) (P : chain -> Prop),
  (forall c x p, P c -> P (update_position x p c)) ->
  forall betas cs pairs st,
  vec_inv logp P betas cs -> (forall k, In k (flatten pairs) -> (k < length cs)%nat) ->
  let cs' := fst (swap_round take_step betas cs pairs st) in
  vec_inv logp P betas cs' /\
  map (fun c => length (c_hist c)) cs' = map (fun c => length (c_hist c)) cs.
Proof. exact swap_round_inv. Qed.

(* ---- every history of take_steps / swap / advance / return_chains calls, in any
   order (so also: swap first), from freshly constructed chains of any number and
   any ladder of non-zero inverse temperatures: every chain is good at the end
   and in every snapshot handed back on the way, provided a single step keeps a
   chain good (the samplers' own subject, C03; proved below for the stub) ---- *)
Theorem C08_history_good :
  forall (logp : point -> Q) (take_step : chain -> chain) (P : chain -> Prop),
  (forall c, inv logp P c -> inv logp P (take_step c) /\ c_beta (take_step c) = c_beta c) ->
  (forall c x p, P c -> P (update_position x p c)) ->
  forall (specs : list (Q * point * list (point * Q) * list (Q * Q) * bool)) calls choices draws unis,
  let mk := fun s : Q * point * list (point * Q) * list (Q * Q) * bool =>
    let '(beta, start, tape, quad, rp) := s in fresh_chain logp beta start tape quad rp in
  let chains := map mk specs in
  Forall (fun c => ~ c_beta c == 0) chains -> Forall P chains ->
  let r := pure_session take_step chains calls choices draws unis in
  Forall (inv logp P) (fst r) /\ map c_beta (fst r) = map c_beta chains /\
  Forall (fun snap => Forall (inv logp P) snap /\ map c_beta snap = map c_beta chains)
         (cs_snaps (snd r)).
Proof. exact fresh_session_inv. Qed.

(* the step hypothesis is satisfiable: the stub chain of the harness *)
Theorem C08_stub_session_good :
  forall qd (specs : list (Q * point * list (point * Q))) calls choices draws unis,
  Forall (fun s => ~ fst (fst s) == 0) specs ->
  let chains := map (fun s => stub_chain (fst (fst s)) (snd (fst s)) (snd s) qd) specs in
  let r := pure_session chain_step chains calls choices draws unis in
  Forall (good (quad_logp qd)) (fst r) /\
  Forall (fun snap => Forall (good (quad_logp qd)) snap) (cs_snaps (snd r)).
Proof. exact stub_session_good. Qed.

(* ---- non-vacuity: three chains at T = 2, 4, 8 (no T = 1 chain), L = -x^2, starts
   4, 3, 2; the history begins with swap().  The pure model and the process system
   (sequential reference run) return the same chains; the first round proposes
   (0,1) and exchanges it (exponent (1/2 - 1/4)(-9 + 16) >= 0); chain 0 then holds
   the start point of chain 1 with -9/2, chain 1 holds 4 with -16/4. ---- *)
Definition ex_chains : list chain :=
  [real_chain (1 # 2) [4] [([5], -(25 # 2))] [(1, 0)];
   real_chain (1 # 4) [3] [([1], -(1 # 4))] [(1, 0)];
   real_chain (1 # 8) [2] [([0], 0)] [(1, 0)]].
Definition ex_calls : list call := [CSwap; CReturnChains; CTakeSteps 1; CSwap; CReturnChains].

Example C08_start_example :
  let '(cs, st) := pure_session chain_step ex_chains ex_calls [0; 0; 0; 0]%nat [1; 1; 1; 1]%nat
                                [1 # 2; 1 # 2; 1 # 2] in
  let '(t, _) := run pt_handler true [0; 1; 2]%nat 1000
                     (pt_init ex_chains ex_calls [0; 0; 0; 0]%nat [1; 1; 1; 1]%nat [1 # 2; 1 # 2; 1 # 2]) in
  stuck 3 t = true /\
  match co t with
  | Done (Finished st') => cs_snaps st' = cs_snaps st /\ cs_att st' = cs_att st /\ cs_succ st' = cs_succ st
  | _ => False
  end /\
  hd (0, 0)%nat (cs_succ st) = (0, 1)%nat /\
  map (fun c => (get_last c, Qred (last_prob c))) (last (cs_snaps st) []) =
    [([3], -(9 # 2)); ([4], -4); ([2], -(1 # 2))].
Proof. vm_compute. repeat split; reflexivity. Qed.

Print Assumptions C08_fresh_chain_good.
Print Assumptions C08_fresh_chain_fields.
Print Assumptions C08_swap_first_prob.
Print Assumptions C08_swap_first_state.
Print Assumptions C08_untempered_start_refuted.
Print Assumptions C08_round_decision.
Print Assumptions C08_swap_round_good.
Print Assumptions C08_history_good.
Print Assumptions C08_stub_session_good.
