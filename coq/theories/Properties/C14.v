(* C14 -- burn, thin and interval read-outs select exactly the documented samples.
   Property theorems only; every proof is `exact <lemma>`.

   Vocabulary (Model/Readouts.v, Proofs/ReadoutsProofs.v):
     slice burn thin l        python's l[burn::thin]
     layout                   ColMajor: GibbsChain / PcaChain (one list per parameter)
                              RowMajor: HamiltonianChain / EnsembleSampler (one vector per step)
     wf lay data probs n      a stored history of n steps (all lists have length n)
     chain_row lay data j     the j-th stored sample
     eff_thin                 the thinning get_interval uses (thin, or max(n // count, 1))
     burned_thinned           the burned / thinned chain as (log-probability, row) pairs
     low_fraction / top_fraction   its `cutoff` least probable rows / all other rows
   Histories (Model/ReadoutsSteps.v):
     store = (data, probs)    what the read-outs slice
     step                     one call of take_step / advance: s_evals calls of the posterior (or its
                              gradient), then the rows s_rows and log-probabilities s_probs it stores;
                              s_crash = k >= 1: the k-th of those calls raises (Ctrl-C, an error)
     run_step / run_history   the store after one call / after a sequence of calls
     completed s              the call returned normally
     completed_rows / completed_probs   what the completed calls of a history stored, in order
     all_rows lay data n      the full chain as a list of rows
   The caller's objects, options, sizes (Model/ReadoutsWorld.v):
     world = (heap, store, links)   the caller's arrays (start, widths, bounds, ...), the stored history, and which
                              store cells are the same memory as an entry of a caller's array
     event                    Call s (take_step / advance) | CallerWrite b j v (the caller executes buf_b[j] = v)
     run_events, calls        the world after a history of events / the calls among them
     construct lay npar h starts ps   what the constructors leave: a copy of the values of the start buffers
     marginal_input_opt u     what get_marginal(..., unimodal=u) hands to its estimator
     decimate m, marginal_input_decimated m   NOT the pinned code: every (size // m)-th retained value *)
From Coq Require Import List ZArith Arith QArith Qround Sorting.Sorted Sorting.Permutation.
Close Scope Q_scope.
From IT Require Import Model.Readouts Proofs.ReadoutsProofs Model.ReadoutsSteps Proofs.ReadoutsStepsProofs
  Model.ReadoutsWorld Proofs.ReadoutsWorldProofs.
Import ListNotations.

(* ---- the slice law: for every list, every burn >= 0 and thin >= 1 *)
Theorem C14_slice_nth : forall (A : Type) burn thin (l : list A) k d, 1 <= thin ->
  nth k (slice burn thin l) d = nth (burn + k * thin) l d.
Proof. exact slice_nth. Qed.

Theorem C14_slice_length : forall (A : Type) burn thin (l : list A), 1 <= thin ->
  length (slice burn thin l) = (length l - burn + (thin - 1)) / thin.
Proof. exact slice_length. Qed.

(* the retained entries are exactly the positions burn + k*thin that exist *)
Theorem C14_slice_positions : forall (A : Type) burn thin (l : list A) k, 1 <= thin ->
  k < length (slice burn thin l) <-> burn + k * thin < length l.
Proof. exact slice_index. Qed.

(* ---- the three read-outs of every sampler have the same first dimension and
        stay aligned row for row *)
Theorem C14_readouts_aligned : forall lay data probs n i burn thin,
  1 <= thin -> wf lay data probs n -> (lay = ColMajor -> i < length data) ->
  let L := slice_len n burn thin in
  length (get_sample lay data burn thin) = L /\
  length (get_parameter lay data i burn thin) = L /\
  length (get_probabilities probs burn thin) = L /\
  forall k, k < L ->
    burn + k * thin < n /\
    nth k (get_sample lay data burn thin) [] = chain_row lay data (burn + k * thin) /\
    nth k (get_parameter lay data i burn thin) 0%Z
      = nth i (nth k (get_sample lay data burn thin) []) 0%Z /\
    nth k (get_probabilities probs burn thin) 0%Z = nth (burn + k * thin) probs 0%Z.
Proof. exact readouts_aligned. Qed.

(* ---- marginal estimates are built from exactly those values *)
Theorem C14_marginal_input : forall lay data probs n i burn thin,
  1 <= thin -> wf lay data probs n -> (lay = ColMajor -> i < length data) ->
  marginal_input lay data i burn thin = get_parameter lay data i burn thin /\
  length (marginal_input lay data i burn thin) = slice_len n burn thin /\
  forall k, k < slice_len n burn thin ->
    nth k (marginal_input lay data i burn thin) 0%Z
    = nth i (chain_row lay data (burn + k * thin)) 0%Z.
Proof. exact marginal_input_spec. Qed.

(* ---- get_interval *)
(* every returned row is a stored step burn + k*thin' of the chain together with
   that step's own log-probability *)
Theorem C14_interval_rows_own : forall lay data probs n burn thin cutoff samples perm,
  1 <= thin -> wf lay data probs n ->
  valid_perm samples perm (ncut probs burn thin cutoff samples) ->
  forall pr, In pr (get_interval lay data probs burn thin cutoff samples perm) ->
  exists k, k < slice_len n burn (eff_thin probs burn thin samples) /\
    burn + k * eff_thin probs burn thin samples < n /\
    fst pr = nth (burn + k * eff_thin probs burn thin samples) probs 0%Z /\
    snd pr = chain_row lay data (burn + k * eff_thin probs burn thin samples).
Proof. exact interval_rows_own. Qed.

(* all returned rows come from the top fraction: each is at least as probable as
   every one of the `cutoff` rows that were cut away; cut-away and top rows
   together are the burned / thinned chain, and the top fraction has n' - cutoff rows *)
Theorem C14_interval_top_fraction : forall lay data probs n burn thin cutoff samples perm,
  1 <= thin -> wf lay data probs n ->
  valid_perm samples perm (ncut probs burn thin cutoff samples) ->
  (forall pr y, In pr (get_interval lay data probs burn thin cutoff samples perm) ->
                In y (low_fraction lay data probs burn thin cutoff samples) ->
                (fst y <= fst pr)%Z).
Proof. exact interval_top. Qed.

Theorem C14_interval_partition : forall lay data probs n burn thin cutoff samples,
  1 <= thin -> wf lay data probs n ->
  Permutation (low_fraction lay data probs burn thin cutoff samples ++
               top_fraction lay data probs burn thin cutoff samples)
              (burned_thinned lay data probs burn thin samples) /\
  length (top_fraction lay data probs burn thin cutoff samples)
  = slice_len n burn (eff_thin probs burn thin samples) - cutoff.
Proof. exact interval_partition. Qed.

(* no count requested: every row of the top fraction *)
Theorem C14_interval_all : forall lay data probs burn thin cutoff samples perm,
  samples = None ->
  get_interval lay data probs burn thin cutoff samples perm
  = top_fraction lay data probs burn thin cutoff samples.
Proof. exact interval_all. Qed.

(* a count k: min(k, size of the top fraction) rows, taken at distinct positions
   of the top fraction in their original (increasing-probability) order *)
Theorem C14_interval_count : forall lay data probs n burn thin cutoff samples perm,
  1 <= thin -> wf lay data probs n ->
  valid_perm samples perm (ncut probs burn thin cutoff samples) ->
  forall k, samples = Some k ->
  exists idx,
    get_interval lay data probs burn thin cutoff samples perm
    = gather (0%Z, []) idx (top_fraction lay data probs burn thin cutoff samples) /\
    NoDup idx /\ StronglySorted le idx /\
    (forall i, In i idx -> i < length (top_fraction lay data probs burn thin cutoff samples)) /\
    length (get_interval lay data probs burn thin cutoff samples perm)
    = Nat.min k (length (top_fraction lay data probs burn thin cutoff samples)) /\
    length (get_interval lay data probs burn thin cutoff samples perm) <= k.
Proof. exact interval_count. Qed.

(* always a two-dimensional sample array and a one-dimensional probability
   array with the same number of rows *)
Theorem C14_interval_two_dimensional : forall s npar data probs b t c k perm,
  exists r, answer s npar data probs (QInterval b t c k perm)
            = [([length r; npar], concat (map snd r)); ([length r], map fst r)]
            /\ r = get_interval (layout_of s) data probs b t c k perm.
Proof. exact interval_shapes. Qed.

(* the cut-off: with cutoff = floor(n' (1 - f)) rows cut away, at least the
   fraction f of the n' burned / thinned rows is kept and not a whole row more *)
Theorem C14_interval_fraction : forall (f : Q) (size cutoff : nat),
  Z.of_nat cutoff = Qfloor (inject_Z (Z.of_nat size) * (1 - f)) ->
  (f * inject_Z (Z.of_nat size) <= inject_Z (Z.of_nat size) - inject_Z (Z.of_nat cutoff) /\
   inject_Z (Z.of_nat size) - inject_Z (Z.of_nat cutoff) - 1 < f * inject_Z (Z.of_nat size))%Q.
Proof. exact interval_fraction. Qed.

(* ---- histories: calls that are interrupted from inside the posterior *)
(* whichever evaluation of a call raises, the stored chain is exactly what it was *)
Theorem C14_interrupted_call_leaves_chain : forall lay s st,
  1 <= s_crash s <= s_evals s -> run_step lay st s = st.
Proof. exact interrupted_step_no_effect. Qed.

(* every evaluation of a call (completed or interrupted) sees the chain as it was before the call:
   nothing is stored before the last evaluation has returned *)
Theorem C14_call_evaluations_see_old_chain : forall lay s st,
  trace lay (s_crash s) (step_prog lay s) st
  = repeat (shape_of lay st)
           (if s_crash s =? 0 then s_evals s else Nat.min (s_crash s) (s_evals s)).
Proof. exact step_trace. Qed.

(* after every history of completed and interrupted calls (any number, any crash point in each)
   the store is a well-formed chain: the chain before, followed by the rows of the completed calls *)
Theorem C14_history_chain : forall lay npar steps data probs n,
  wf lay data probs n -> (lay = ColMajor -> length data = npar) ->
  Forall (step_ok npar) steps ->
  let st' := run_history lay steps (data, probs) in
  let N := n + length (completed_rows steps) in
  wf lay (fst st') (snd st') N /\
  all_rows lay (fst st') N = all_rows lay data n ++ completed_rows steps /\
  snd st' = probs ++ completed_probs steps.
Proof. exact history_store. Qed.

(* ... and so the three read-outs have the same first dimension and stay aligned row for row:
   row k of each is entry burn + k*thin of that chain *)
Theorem C14_readouts_after_interruptions : forall lay npar steps data probs n i burn thin,
  1 <= thin -> wf lay data probs n -> (lay = ColMajor -> length data = npar /\ i < npar) ->
  Forall (step_ok npar) steps ->
  let st' := run_history lay steps (data, probs) in
  let rows := all_rows lay data n ++ completed_rows steps in
  let ps := probs ++ completed_probs steps in
  let L := slice_len (length ps) burn thin in
  length rows = length ps /\
  length (get_sample lay (fst st') burn thin) = L /\
  length (get_parameter lay (fst st') i burn thin) = L /\
  length (get_probabilities (snd st') burn thin) = L /\
  forall k, k < L ->
    burn + k * thin < length ps /\
    nth k (get_sample lay (fst st') burn thin) [] = nth (burn + k * thin) rows [] /\
    nth k (get_parameter lay (fst st') i burn thin) 0%Z
      = nth i (nth (burn + k * thin) rows []) 0%Z /\
    nth k (get_probabilities (snd st') burn thin) 0%Z = nth (burn + k * thin) ps 0%Z.
Proof. exact readouts_after_interruptions. Qed.

(* the ordering "all evaluations first, then the writes" is what this rests on: a Gibbs step that
   stores each parameter's value inside the update loop (NOT the pinned code) is the same when it
   is not interrupted, but interrupted during the second parameter's update it leaves read-outs
   of different lengths *)
Theorem C14_nonatomic_step_refuted :
  exists es r p k data probs,
    wf ColMajor data probs 1 /\
    let st' := run k (gibbs_interleaved_prog es r p) (data, probs) in
    length (get_parameter ColMajor (fst st') 0 0 1) = 2 /\
    length (get_parameter ColMajor (fst st') 1 0 1) = 1 /\
    length (get_probabilities (snd st') 0 1) = 1 /\
    (forall m, ~ wf ColMajor (fst st') (snd st') m) /\
    run 0 (gibbs_interleaved_prog es r p) (data, probs)
    = run_step ColMajor (data, probs) (mkStep 2 [r] [p] 0).
Proof. exact nonatomic_step_refuted. Qed.

(* non-vacuity: a two-parameter Gibbs chain holding its start; a completed call (3 evaluations),
   a call interrupted at its 2nd evaluation, a completed call; burn 1 keeps the two new rows *)
Example C14_history_example :
  let data := [[10];[20]]%Z in
  let probs := [5]%Z in
  let steps := [mkStep 3 [[11;21]] [3] 0; mkStep 4 [[99;98]] [97] 2; mkStep 2 [[12;22]] [6] 0]%Z in
  wf ColMajor data probs 1 /\ Forall (step_ok 2) steps /\
  map completed steps = [true; false; true] /\
  run_history ColMajor steps (data, probs) = ([[10;11;12];[20;21;22]], [5;3;6])%Z /\
  get_sample ColMajor (fst (run_history ColMajor steps (data, probs))) 1 1 = [[11;21];[12;22]]%Z /\
  get_probabilities (snd (run_history ColMajor steps (data, probs))) 1 1 = [3;6]%Z.
Proof.
  cbv zeta. split; [|split].
  - split; [reflexivity|]. split; [discriminate|]. repeat constructor.
  - repeat constructor.
  - repeat split; vm_compute; reflexivity.
Qed.

(* ---- histories in which the caller goes on modifying, in place, the arrays it handed to the constructor *)
(* a store that shares no memory with the caller is not touched by anything the caller writes into its own
   arrays, wherever in the history: it is the store the calls alone produce *)
Theorem C14_caller_writes_leave_store : forall lay evs w, w_links w = [] ->
  w_store (run_events lay evs w) = run_history lay (calls evs) (w_store w) /\
  w_links (run_events lay evs w) = [].
Proof. exact run_events_no_links. Qed.

(* every sampler (the constructors store copies): after any history of completed calls, interrupted calls and
   writes of the caller to its start / widths / bounds ... arrays, the chain is the VALUES the start buffers had
   when the constructor ran, followed by the rows of the completed calls; the three read-outs have the same
   first dimension and row k of each is entry burn + k*thin of that chain (burn = 0 included: entry 0 is the
   point the chain was started at, next to its own log-probability) *)
Theorem C14_readouts_after_caller_writes : forall lay npar evs h starts ps i burn thin,
  1 <= thin -> i < npar -> length starts = length ps ->
  Forall (fun b => length (nth b h []) = npar) starts ->
  Forall (step_ok npar) (calls evs) ->
  let w' := run_events lay evs (construct lay npar h starts ps) in
  let rows := start_rows h starts ++ completed_rows (calls evs) in
  let pss := ps ++ completed_probs (calls evs) in
  let L := slice_len (length pss) burn thin in
  w_links w' = [] /\
  length rows = length pss /\
  length (get_sample lay (fst (w_store w')) burn thin) = L /\
  length (get_parameter lay (fst (w_store w')) i burn thin) = L /\
  length (get_probabilities (snd (w_store w')) burn thin) = L /\
  forall k, k < L ->
    burn + k * thin < length pss /\
    nth k (get_sample lay (fst (w_store w')) burn thin) [] = nth (burn + k * thin) rows [] /\
    nth k (get_parameter lay (fst (w_store w')) i burn thin) 0%Z
      = nth i (nth (burn + k * thin) rows []) 0%Z /\
    nth k (get_probabilities (snd (w_store w')) burn thin) 0%Z = nth (burn + k * thin) pss 0%Z.
Proof. exact readouts_after_caller_writes. Qed.

(* that the constructor copies is what this rests on: a constructor that keeps the caller's array itself as the
   stored row (NOT the pinned code) gives the same chain, until one write of the caller to its own array makes
   entry 0 differ from the starting point while the log-probability stored next to it stays *)
Theorem C14_shared_start_refuted :
  exists h ps b j v,
    let w := construct_shared 2 h [b] ps in
    let w' := run_events RowMajor [CallerWrite b j v] w in
    get_sample RowMajor (fst (w_store w)) 0 1 = [nth b h []] /\
    get_sample RowMajor (fst (w_store w')) 0 1 <> [nth b h []] /\
    get_probabilities (snd (w_store w')) 0 1 = get_probabilities (snd (w_store w)) 0 1 /\
    w_store (run_events RowMajor [CallerWrite b j v] (construct RowMajor 2 h [b] ps))
    = w_store (construct RowMajor 2 h [b] ps).
Proof. exact shared_start_refuted. Qed.

(* ---- options and sizes *)
(* marginal estimates of BOTH estimator types (unimodal = False / True) are built from exactly the retained
   values, for every chain length *)
Theorem C14_marginal_input_options : forall unimodal lay data probs n i burn thin,
  1 <= thin -> wf lay data probs n -> (lay = ColMajor -> i < length data) ->
  marginal_input_opt unimodal lay data i burn thin = get_parameter lay data i burn thin /\
  length (marginal_input_opt unimodal lay data i burn thin) = slice_len n burn thin /\
  forall k, k < slice_len n burn thin ->
    nth k (marginal_input_opt unimodal lay data i burn thin) 0%Z
    = nth i (chain_row lay data (burn + k * thin)) 0%Z.
Proof. exact marginal_input_opt_spec. Qed.

(* a size-dependent shortcut with threshold m (NOT the pinned code: every (size // m)-th retained value goes to
   the estimator) is the documented behaviour on every chain retaining fewer than 2m values and loses values on
   every chain retaining 2m or more: only chains beyond the threshold can tell them apart *)
Theorem C14_size_shortcut_refuted : forall m unimodal lay data i burn thin, 1 <= m ->
  (length (get_parameter lay data i burn thin) < 2 * m ->
   marginal_input_decimated m unimodal lay data i burn thin
   = marginal_input_opt unimodal lay data i burn thin) /\
  (2 * m <= length (get_parameter lay data i burn thin) ->
   length (marginal_input_decimated m true lay data i burn thin)
   < length (marginal_input_opt true lay data i burn thin)).
Proof. exact size_shortcut_refuted. Qed.

(* non-vacuity: a two-parameter chain started from the caller's array [10; 20]; a completed call, the caller
   overwrites both entries of its array, a call interrupted at its first evaluation, a completed call *)
Example C14_caller_writes_example :
  let h := [[10; 20]; [1; 1]]%Z in
  let evs := [Call (mkStep 2 [[11; 21]] [3] 0); CallerWrite 0 0 77; CallerWrite 0 1 88;
              Call (mkStep 3 [[99; 98]] [97] 1); CallerWrite 1 0 5; Call (mkStep 1 [[12; 22]] [6] 0)]%Z in
  Forall (fun b => length (nth b h []) = 2) [0] /\ Forall (step_ok 2) (calls evs) /\
  w_heap (run_events ColMajor evs (construct ColMajor 2 h [0] [5%Z])) = [[77; 88]; [5; 1]]%Z /\
  w_store (run_events ColMajor evs (construct ColMajor 2 h [0] [5%Z]))
  = ([[10; 11; 12]; [20; 21; 22]], [5; 3; 6])%Z /\
  get_sample RowMajor (fst (w_store (run_events RowMajor evs (construct RowMajor 2 h [0] [5%Z])))) 0 2
  = [[10; 20]; [12; 22]]%Z.
Proof.
  cbv zeta. split; [|split].
  - repeat constructor.
  - repeat constructor.
  - repeat split; vm_compute; reflexivity.
Qed.

(* ---- the pinned tree (kept as *_pinned definitions in the model) *)
(* D25: HamiltonianChain.get_parameter squeezes a single retained sample to 0-d *)
Theorem C14_hmc_squeeze_refuted :
  exists theta burn thin,
    length (row_get_parameter theta 0 burn thin) = 1 /\
    hmc_get_parameter_shape_pinned (row_get_parameter theta 0 burn thin) = [] /\
    shape1 (row_get_parameter theta 0 burn thin) = [1].
Proof. exact hmc_squeeze_refuted. Qed.

(* D28: HamiltonianChain.get_sample is 1-D when no sample is left *)
Theorem C14_hmc_empty_sample_refuted :
  exists theta burn thin,
    hmc_get_sample_shape_pinned 2 (row_get_sample theta burn thin) = [0] /\
    shape2 2 (row_get_sample theta burn thin) = [0; 2].
Proof. exact hmc_empty_sample_refuted. Qed.

(* D20: get_interval(samples=k) returns an untrimmed 3-D array *)
Theorem C14_get_interval_count_refuted :
  exists data probs burn thin cutoff k,
    let '(shp, pshp, rows) := get_interval_pinned ColMajor data probs burn thin cutoff (Some k) in
    length shp = 3 /\ length pshp = 2 /\ k < length rows.
Proof. exact get_interval_count_refuted. Qed.

(* non-vacuity: a 7-step two-parameter Gibbs history; burn 1, thin 2 keeps steps
   1,3,5; get_interval with 3 requested rows thins by 7 // 3 = 2 (steps 0,2,4,6),
   sorts by probability and drops one of the four rows at random *)
Example C14_example :
  let data := [[10;11;12;13;14;15;16];[20;21;22;23;24;25;26]]%Z in
  let probs := [5;3;6;1;7;2;4]%Z in
  wf ColMajor data probs 7 /\
  get_sample ColMajor data 1 2 = [[11;21];[13;23];[15;25]]%Z /\
  get_probabilities probs 1 2 = [3;1;2]%Z /\
  get_parameter ColMajor data 1 1 2 = [21;23;25]%Z /\
  valid_perm (Some 3) [2;0;3;1] (ncut probs 0 1 0 (Some 3)) /\
  get_interval ColMajor data probs 0 1 0 (Some 3) [2;0;3;1]
  = [(4, [16;26]); (5, [10;20]); (7, [14;24])]%Z.
Proof.
  cbv zeta. split.
  - split; [reflexivity|]. split; [discriminate|]. repeat constructor.
  - repeat split; try (vm_compute; reflexivity).
    + vm_compute. auto.
    + vm_compute.
      apply perm_trans with [0;2;3;1]; [apply perm_swap|].
      apply perm_skip. apply perm_trans with [2;1;3]; [apply perm_skip; apply perm_swap|].
      apply perm_trans with [1;2;3]; [apply perm_swap|]. apply Permutation_refl.
Qed.

Print Assumptions C14_slice_nth.
Print Assumptions C14_slice_length.
Print Assumptions C14_slice_positions.
Print Assumptions C14_readouts_aligned.
Print Assumptions C14_marginal_input.
Print Assumptions C14_interval_rows_own.
Print Assumptions C14_interval_top_fraction.
Print Assumptions C14_interval_partition.
Print Assumptions C14_interval_all.
Print Assumptions C14_interval_count.
Print Assumptions C14_interval_two_dimensional.
Print Assumptions C14_interval_fraction.
Print Assumptions C14_hmc_squeeze_refuted.
Print Assumptions C14_hmc_empty_sample_refuted.
Print Assumptions C14_get_interval_count_refuted.
Print Assumptions C14_interrupted_call_leaves_chain.
Print Assumptions C14_call_evaluations_see_old_chain.
Print Assumptions C14_history_chain.
Print Assumptions C14_readouts_after_interruptions.
Print Assumptions C14_nonatomic_step_refuted.
Print Assumptions C14_caller_writes_leave_store.
Print Assumptions C14_readouts_after_caller_writes.
Print Assumptions C14_shared_start_refuted.
Print Assumptions C14_marginal_input_options.
Print Assumptions C14_size_shortcut_refuted.
