(* C12 -- GaussianKDE is a faithful, normalised Gaussian kernel-density estimate:
   the clauses about HOW the sample and the evaluation points are handed over.
   Property theorems only; every proof is `exact <lemma>`.

   * object histories (Model/KdeInputs.v): whatever the caller does with its own arrays
     before and after the construction -- rescale them in place, refill them, build further
     estimators from the same buffer -- every estimator keeps the sorted values it was handed
     at the moment it was constructed, so its density stays within the truncation bound of the
     exact estimate of THOSE values; construction and evaluation never write to the caller's
     arrays.  A constructor that keeps a view of an already ordered array is refuted.
   * integer dtypes: the repaired constructor converts the sample to binary64; this is exact
     for every 8/16/32-bit integer and for 64-bit integers up to 2^53 in magnitude, and moves
     larger ones by at most half a unit in the last place.  The pinned code (sample keeps its
     integer dtype, differences x - sample taken modulo 2^bits) is refuted (defect D52), and so
     is a kernel whose exponent squares the difference in its integer type.
   * shift / scale with a user bandwidth, for EVERY rational a > 0 and b (every scale, not
     only the moderate ones the runs use): exact density and cumulative function of a*s + b
     with bandwidth a*h at a*x + b. *)
From Coq Require Import Reals List QArith Qreals ZArith.
From IT Require Import Model.KdeRegions Model.KdeInputs RealModel.Kde Proofs.KdeInputsProofs.
Import ListNotations.

(* ---- object histories ---- *)
Theorem C12_history_estimate_frozen : forall (evs : list event) (w : world) (k : nat),
  wf w -> (k < length (w_ests w))%nat ->
  est_sample (run false w evs) k = est_sample w k.
Proof. exact run_frozen. Qed.

Theorem C12_history_faithful : forall (w : world) (src : nat) (sel : list nat) (evs : list event),
  wf w ->
  est_sample (run false w (EConstruct src sel :: evs)) (length (w_ests w)) =
  QSort.sort (gather (nth src (w_caller w) []) sel).
Proof. exact history_faithful. Qed.

(* reachable worlds are well-formed: the theorems apply after ANY earlier history *)
Theorem C12_history_reachable_wf : forall (cells : list (list Q)) (evs : list event),
  wf (run false (init_world cells) evs).
Proof. intros cells evs. apply run_wf. apply wf_init. Qed.

Theorem C12_history_pdf_faithful :
  forall (w : world) (src : nat) (sel : list nat) (evs : list event) (h x : Q) (n : nat),
  wf w ->
  let given := gather (nth src (w_caller w) []) sel in
  let s := est_sample (run false w (EConstruct src sel :: evs)) (length (w_ests w)) in
  given <> [] -> (0 < h)%Q -> (srange (QSort.sort given) <= pow2 n * h)%Q ->
  (0 <= pdf_exact_at given h x - pdf_of_stored n s h x <=
    (INR (length s - length (region_slice n s h (region_of n s x))) / INR (length s)) *
    (exp (- ((7 / 2) * (7 / 2)) / 2) / (Q2R h * sqrt (2 * PI))))%R.
Proof. exact history_pdf_faithful. Qed.

Theorem C12_history_caller_untouched : forall (alias : bool) (w : world) (src : nat) (sel : list nat) (k : nat),
  w_caller (step alias w (EConstruct src sel)) = w_caller w /\ step alias w (EEval k) = w.
Proof. intros. split; [apply construct_caller | apply eval_world]. Qed.

Theorem C12_alias_constructor_refuted :
  exists (cells : list (list Q)) (src : nat) (sel : list nat) (evs : list event),
    est_sample (run true (init_world cells) (EConstruct src sel :: evs)) 0 <>
    QSort.sort (gather (nth src cells []) sel).
Proof. exact alias_constructor_refuted. Qed.

(* ---- integer dtypes ---- *)
Theorem C12_to_double_exact : forall z : Z, (Z.abs z <= 2 ^ 53)%Z -> to_double z = z.
Proof. exact to_double_exact. Qed.

Theorem C12_to_double_error : forall z : Z,
  (Z.abs (to_double z - z) <= 2 ^ (Z.log2 (Z.abs z) - 53))%Z.
Proof. exact to_double_error. Qed.

Theorem C12_narrow_int_exact : forall (t : itype) (z : Z),
  (bits t <= 32)%Z -> in_range t z = true -> to_double z = z.
Proof. exact narrow_int_exact. Qed.

Theorem C12_dx_repaired_exact : forall x s : Z,
  (Z.abs x <= 2 ^ 53)%Z -> (Z.abs s <= 2 ^ 53)%Z -> dx_repaired x s = (x - s)%Z.
Proof. exact dx_repaired_exact. Qed.

(* D52: the pinned code takes x - sample in the promoted integer type *)
Theorem C12_dx_pinned_refuted :
  (exists x s, in_range U8 x = true /\ in_range U8 s = true /\ dx_pinned U8 U8 x s <> (x - s)%Z) /\
  (exists x s, in_range I8 x = true /\ in_range I8 s = true /\ dx_pinned I8 I8 x s <> (x - s)%Z) /\
  (exists x s, in_range I64 x = true /\ in_range I64 s = true /\ dx_pinned I64 I64 x s <> (x - s)%Z).
Proof. exact dx_pinned_refuted. Qed.

(* ... and is right exactly as long as the difference fits the promoted type *)
Theorem C12_dx_pinned_exact_without_overflow : forall (tx ts w : itype) (x s : Z),
  promote tx ts = Some w -> in_range w (x - s) = true -> dx_pinned tx ts x s = (x - s)%Z.
Proof. exact dx_pinned_exact. Qed.

Theorem C12_integer_square_refuted :
  exists dx : Z, in_range I64 dx = true /\ (Z.abs dx < 2 ^ 32)%Z /\ (sq_in_type I64 dx < 0)%Z.
Proof. exact sq_in_type_refuted. Qed.

(* ---- shift / scale, user bandwidth ---- *)
Theorem C12_kernel_sum_affine : forall (N : Z) (a b h : R) (ys : list R) (x : R),
  (0 < N)%Z -> (0 < a)%R -> (0 < h)%R ->
  kde_pdf N (a * h) (map (fun y => a * y + b)%R ys) (a * x + b) = (kde_pdf N h ys x / a)%R.
Proof. exact kde_pdf_affine. Qed.

Theorem C12_cdf_sum_affine : forall (N : Z) (off a b h : R) (ys : list R) (x : R),
  (0 < a)%R -> (0 < h)%R ->
  kde_cdf N off (a * h) (map (fun y => a * y + b)%R ys) (a * x + b) = kde_cdf N off h ys x.
Proof. exact kde_cdf_affine. Qed.

Theorem C12_exact_pdf_affine : forall (a b : Q) (s : list Q) (h x : Q),
  s <> [] -> (0 < a)%Q -> (0 < h)%Q ->
  pdf_exact_at (map (fun v => (a * v + b)%Q) s) (a * h)%Q (a * x + b)%Q = (pdf_exact_at s h x / Q2R a)%R.
Proof. exact pdf_exact_affine. Qed.

Theorem C12_exact_cdf_affine : forall (a b : Q) (s : list Q) (h x : Q),
  (0 < a)%Q -> (0 < h)%Q ->
  cdf_exact_at (map (fun v => (a * v + b)%Q) s) (a * h)%Q (a * x + b)%Q = cdf_exact_at s h x.
Proof. exact cdf_exact_affine. Qed.

(* non-vacuity: a real history -- an ordered buffer, an estimator of it, the caller rescales
   the buffer in place and builds a second estimator; the first keeps [1;2;3], the second
   holds [7;9;11], the caller's array is [7;9;11] *)
Example C12_history_example :
  let w := run false (init_world [[1; 2; 3]%Q])
               [EConstruct 0 [0; 1; 2]%nat; EAffine 0 2 5; EEval 0; EConstruct 0 [2; 0; 1]%nat] in
  wf (init_world [[1; 2; 3]%Q]) /\
  est_sample w 0 = [1; 2; 3]%Q /\
  Qeqb_list (est_sample w 1) [7; 9; 11]%Q = true /\
  cells_eqb (w_caller w) [[7; 9; 11]%Q] = true.
Proof.
  cbv zeta. split; [apply wf_init|].
  repeat split; vm_compute; reflexivity.
Qed.

(* the conversion really rounds above 2^53 (ties to even) and is exact below *)
Example C12_to_double_example :
  to_double (2 ^ 53 + 1) = (2 ^ 53)%Z /\ to_double (2 ^ 53 + 3) = (2 ^ 53 + 4)%Z /\
  to_double (2 ^ 64 - 1) = (2 ^ 64)%Z /\ to_double (- (2 ^ 63)) = (- 2 ^ 63)%Z /\
  to_double 1700000000123456789 = 1700000000123456768%Z.
Proof. repeat split; vm_compute; reflexivity. Qed.

Print Assumptions C12_history_estimate_frozen.
Print Assumptions C12_history_faithful.
Print Assumptions C12_history_reachable_wf.
Print Assumptions C12_history_pdf_faithful.
Print Assumptions C12_history_caller_untouched.
Print Assumptions C12_alias_constructor_refuted.
Print Assumptions C12_to_double_exact.
Print Assumptions C12_to_double_error.
Print Assumptions C12_narrow_int_exact.
Print Assumptions C12_dx_repaired_exact.
Print Assumptions C12_dx_pinned_refuted.
Print Assumptions C12_dx_pinned_exact_without_overflow.
Print Assumptions C12_integer_square_refuted.
Print Assumptions C12_kernel_sum_affine.
Print Assumptions C12_cdf_sum_affine.
Print Assumptions C12_exact_pdf_affine.
Print Assumptions C12_exact_cdf_affine.
