(* C20, scale clause -- "all ascending grids and non-negative tables", "any scales":
   nothing in the conditional approximation may depend on the absolute size of the table
   values (a correctly normalised pdf over a variable in large or small units, an
   un-normalised table or posterior multiplied by 1e-20 .. 1e20) or on the unit of the grid.
   Property theorems only; every proof is `exact <lemma>`. *)
From Coq Require Import Reals List QArith Qabs Qminmax.
From IT Require Import RealModel.Trapezium Model.Conditional Model.ConditionalScale
                       Proofs.TrapeziumProofs Proofs.TrapeziumScaleProofs
                       Proofs.ConditionalProofs Proofs.ConditionalScaleProofs
                       Proofs.ConditionalOffsetProofs.
Import ListNotations.

Open Scope R_scope.

(* the slope parameter and the sample of a cell are those of the unscaled table *)
Theorem C20_delta_scale_invariant : forall c p0 p1 : R, c <> 0 -> p0 + p1 <> 0 ->
  cell_delta (c * p0) (c * p1) = cell_delta p0 p1.
Proof. exact cell_delta_scale. Qed.

Theorem C20_sample_value_scale_invariant : forall c x0 x1 p0 p1 u : R, c <> 0 -> p0 + p1 <> 0 ->
  pls_sample_full x0 x1 (c * p0) (c * p1) u = pls_sample_full x0 x1 p0 p1 u.
Proof. exact pls_sample_scale_values. Qed.

(* a grid in other units: the sample is measured in the same units *)
Theorem C20_sample_grid_scale_equivariant : forall s x0 x1 p0 p1 u : R,
  pls_sample_full (s * x0) (s * x1) p0 p1 u = s * pls_sample_full x0 x1 p0 p1 u.
Proof. exact pls_sample_scale_grid. Qed.

(* the samples of the table c*p follow the (normalised) interpolant of p itself *)
Theorem C20_sample_density_scale_invariant : forall c x0 dx p0 p1 total x : R,
  c <> 0 -> dx <> 0 -> p0 + p1 <> 0 -> total <> 0 ->
  let mean := (c * p0 + c * p1) / 2 in
  let d := (c * p1 - c * p0) / 2 / mean in
  (mean * dx / (c * total)) * (trap_pdf d ((x - x0) / dx) / dx) = interp x0 dx p0 p1 x / total.
Proof. exact cell_density_scale_lemma. Qed.

(* a sample drawn with any other slope parameter than the interpolant's (what an absolute
   floor under the cell mean produces on a table of tiny values) has the wrong distribution *)
Theorem C20_wrong_slope_wrong_quantile : forall u d d' : R,
  0 <= u <= 1 -> -1 <= d' <= 1 -> d' <> 0 -> d <> d' ->
  0 < trapezium_full u d' < 1 ->
  trap_cdf d (trapezium_full u d') <> u.
Proof. exact wrong_slope_wrong_quantile. Qed.

Close Scope R_scope.
Open Scope Q_scope.

(* cell probabilities and relative slopes of the executable model: independent of the size
   of the table values and of the unit of the grid, for every table and grid *)
Theorem C20_weights_value_scale_invariant : forall c x p, ~ c == 0 ->
  Qlist_eq (weights x (scale c p)) (weights x p).
Proof. exact weights_scale_values. Qed.

Theorem C20_weights_grid_scale_invariant : forall s x p, ~ s == 0 ->
  Qlist_eq (weights (scale s x) p) (weights x p).
Proof. exact weights_scale_grid. Qed.

Theorem C20_deltas_value_scale_invariant : forall c p, ~ c == 0 ->
  Qlist_eq (cell_deltas (scale c p)) (cell_deltas p).
Proof. exact cell_deltas_scale. Qed.

Theorem C20_cell_point_grid_scale_equivariant : forall s x p p' k t,
  cell_point (cell_of (scale s x) p' k) t == s * cell_point (cell_of x p k) t.
Proof. exact cell_point_scale_grid. Qed.

(* the absolute floor `maximum(means, eps)`: invisible while every cell mean is >= eps
   (every table of the test-suite), strictly flattening below, refuted on a witness *)
Theorem C20_absolute_floor_invisible_above : forall eps p, means_above eps p ->
  Qlist_eq (cell_deltas_floor eps p) (cell_deltas p).
Proof. exact floor_invisible. Qed.

Theorem C20_absolute_floor_flattens_below : forall eps a b,
  0 <= a -> 0 <= b -> ~ a == b -> (1 # 2) * (b + a) < eps ->
  Qabs ((1 # 2) * (b - a) / Qmax ((1 # 2) * (b + a)) eps) <
  Qabs ((1 # 2) * (b - a) / ((1 # 2) * (b + a))).
Proof. exact floor_shrinks. Qed.

Theorem C20_absolute_floor_refuted :
  exists eps c x p, 0 < eps /\ 0 < c /\ pls_valid x p = true /\ pls_valid x (scale c p) = true /\
    Qlist_eqb (cell_deltas_floor eps p) (cell_deltas p) = true /\
    Qlist_eqb (cell_deltas (scale c p)) (cell_deltas p) = true /\
    Qlist_eqb (cell_deltas_floor eps (scale c p)) (cell_deltas p) = false /\
    Qlist_eqb (weights_floor eps x p) (weights x p) = true /\
    Qlist_eqb (weights_floor eps x (scale c p)) (weights x p) = false.
Proof. exact absolute_floor_refuted_lemma. Qed.

(* evaluate_conditional: a constant added to the log-density (the posterior multiplied by a
   constant, tiny or huge) changes neither the grid nor the sequence of evaluation points,
   only the reported mode value; and the normalised table does not depend on a constant
   factor of the un-normalised one *)
Theorem C20_search_offset_invariant : forall (func : Q -> Q) (c tol : Q) (points : list Q) (gs : nat),
  points <> [] ->
  let r  := evaluate_search func tol points gs in
  let r' := evaluate_search (fun x => func x + c) tol points gs in
  fst (fst r') = fst (fst r) /\ snd r' = snd r /\ snd (fst r') == snd (fst r) + c.
Proof. exact search_offset_invariant_lemma. Qed.

Theorem C20_normalised_scale_invariant : forall c x e, ~ c == 0 ->
  Qlist_eq (normalise_by_simpson x (map (fun v => v * c) e)) (normalise_by_simpson x e).
Proof. exact normalise_by_simpson_scale. Qed.

(* the generated unit cases evaluate the quadrature with reduced partial sums: same verdict *)
Theorem C20_unit_check_reduced_sound : forall c, check_unit_case_red c = check_unit_case c.
Proof. exact check_unit_case_red_eq. Qed.

(* non-vacuity: a table of order 1e-20 has the weights and slopes of the order-one table *)
Example C20_example_scale :
  let c := 1 # 100000000000000000000 in
  Qlist_eqb (weights [0; 1; 3; 4] (scale c [0; 2; 2; 0])) [1 # 6; 2 # 3; 1 # 6] = true /\
  Qlist_eqb (cell_deltas (scale c [1; 3; 2])) [1 # 2; -1 # 5] = true /\
  Qlist_eqb (cell_deltas_floor (1 # 1000000000000) (scale c [1; 3; 2])) [1 # 100000000; -1 # 200000000] = true.
Proof. vm_compute. repeat split. Qed.

Print Assumptions C20_delta_scale_invariant.
Print Assumptions C20_sample_value_scale_invariant.
Print Assumptions C20_sample_grid_scale_equivariant.
Print Assumptions C20_sample_density_scale_invariant.
Print Assumptions C20_wrong_slope_wrong_quantile.
Print Assumptions C20_weights_value_scale_invariant.
Print Assumptions C20_weights_grid_scale_invariant.
Print Assumptions C20_deltas_value_scale_invariant.
Print Assumptions C20_cell_point_grid_scale_equivariant.
Print Assumptions C20_absolute_floor_invisible_above.
Print Assumptions C20_absolute_floor_flattens_below.
Print Assumptions C20_absolute_floor_refuted.
Print Assumptions C20_search_offset_invariant.
Print Assumptions C20_normalised_scale_invariant.
Print Assumptions C20_unit_check_reduced_sound.
