(* C11Real -- supports C11 ("the value-and-gradient variants return ... the true gradient",
   inference/gp/regression.py:
     546       -0.5 * (v @ v) - log(diagonal(L)).sum()                      marginal_likelihood
     565       LML = -0.5 * ((y - mu).T @ alpha) - log(diagonal(L)).sum()   -1/2 r^T A^-1 r - 1/2 ln det A
     568       (alpha * dmu).sum()                                          alpha^T dmu
     570-571   Q = alpha[:, None] * alpha[None, :] - iK ; 0.5 * (Q * dK.T).sum()
                                                                            1/2 tr((alpha alpha^T - A^-1) dA)
     483       -0.5 * (var * alpha**2 + log(var)).sum()                     loo_likelihood)
   and C17 (inference/gp/inversion.py, marginal_likelihood_gradient, lines 195-217: the same
   formulas with J = A K A^T + S in the place of K_xx); C02 and C16 use the same matrix theorems
   (any realFieldType), which this file shows to apply to Coq's real numbers.

   Until now the matrix theorems (MathComp, arbitrary realFieldType) and the analysis lemmas
   (Coq's R, Coquelicot) were separate: "R is a realFieldType" was cited, and Jacobi's formula
   d ln det A = tr(A^-1 dA) was available only in algebraic / epsilon-delta form without the
   logarithm.  Here (Common/Rstruct.v, Matrix/RealBridge.v; property theorems only, every proof
   is `exact <lemma>`):

     * Coq's R is a realFieldType (C11_R_is_realFieldType), with the operations of Reals by
       conversion (C11_R_operations, C11_R_order);
     * Jacobi's formula as a Coquelicot derivative at every point (C11_det_derivative), the
       logarithm (C11_ln_det_derivative), the inverse in the data-fit term
       (C11_quad_form_derivative), for EVERY n;
     * the directional derivative of the score -1/2 r^T A^-1 r - 1/2 ln det A along dA IS the
       trace form the code evaluates (C11_ml_directional_derivative, ..._trace_form,
       ..._general without symmetry, ..._at at every point of the line A + t dA), and along
       dmu it is alpha^T dmu (C11_ml_mean_derivative);
     * the values: the number computed from the Cholesky factor is that score
       (C11_ml_value_real) and the LOO score is the sum of the Gaussian log-densities of the
       leave-one-out predictions (C11_loo_value_real) -- the matrix half of Properties/C11.v
       instantiated at R and composed with the logarithm half of Properties/C11Analysis.v.

   Still outside: the kernel's dependence theta |-> K(theta) (the theorems are directional
   derivatives along a given dA = dK/dtheta_k; see C16 for the kernels' own derivatives) and
   floating point.

   Axioms (Print Assumptions below): the axioms of Coq's real numbers and of classical analysis
   in the standard library (ClassicalDedekindReals.sig_forall_dec, sig_not_dec,
   functional_extensionality_dep, Classical_Prop.classic as used by Reals/Coquelicot) and, for the
   choiceType structure on R only, Epsilon.epsilon_statement (Coq.Logic.Epsilon). *)
From Coq Require Import Reals.
From mathcomp Require Import all_ssreflect all_algebra.
From Coquelicot Require Import Coquelicot.
From IT Require Import Common.Rstruct Matrix.Jacobi Matrix.RealBridge.
From IT Require Import Matrix.MxOps Matrix.McOps Matrix.GpModel Matrix.Selection.
From IT Require Import RealModel.SelectionValue.

Set Implicit Arguments.
Unset Strict Implicit.
Unset Printing Implicit Defensive.

Import GRing.Theory Num.Theory.
Local Close Scope R_scope.
Local Open Scope ring_scope.

(* ---- Coq's R is a realFieldType ------------------------------------------------------------- *)
Definition C11_R_is_realFieldType : realFieldType := [realFieldType of R].

Theorem C11_R_carrier : Num.RealField.sort C11_R_is_realFieldType = R.
Proof. exact: R_realFieldType_sort. Qed.

Theorem C11_R_operations (x y : R) (n : nat) :
  [/\ x + y = Rplus x y, - x = Ropp x, x - y = Rminus x y, x * y = Rmult x y & x^-1 = Rinv x]
  /\ [/\ x / y = Rdiv x y, `|x| = Rabs x, x *+ n = Rmult (INR n) x, n%:R = INR n
       & x ^+ n = pow x n].
Proof. exact: R_operationsE. Qed.

Theorem C11_R_order (x y : R) :
  [/\ (x <= y) <-> Rle x y, (x < y) <-> Rlt x y, (x == y) <-> x = y & (x != y) <-> x <> y].
Proof. exact: R_orderE. Qed.

(* ---- Jacobi's formula, the logarithm, the inverse: Coquelicot derivatives, every n --------- *)
Theorem C11_det_derivative n (A dA : 'M[R]_n) (t0 : R) :
  is_derive (fun t : R => \det (A + t *: dA)) t0 (\tr (\adj (A + t0 *: dA) *m dA)).
Proof. exact: det_is_derive. Qed.

Theorem C11_ln_det_derivative n (A dA : 'M[R]_n) :
  0 < \det A ->
  is_derive (fun t : R => ln (\det (A + t *: dA))) 0 (\tr (invmx A *m dA)).
Proof. exact: is_derive_ln_det. Qed.

Theorem C11_quad_form_derivative n (A dA : 'M[R]_n) (u v : 'cV[R]_n) :
  \det A != 0 ->
  is_derive (fun t : R => (u^T *m invmx (A + t *: dA) *m v) 0 0) 0
            (- (u^T *m invmx A *m dA *m invmx A *m v) 0 0).
Proof. exact: is_derive_quad_inv. Qed.

(* ---- the score and its gradient --------------------------------------------------------------- *)
(* ml_score A r = - 2^-1 * (r^T A^-1 r) - 2^-1 * ln (det A) *)
Theorem C11_ml_score_def n (A : 'M[R]_n) (r : 'cV[R]_n) :
  ml_score A r = - 2%:R^-1 * (r^T *m invmx A *m r) 0 0 - 2%:R^-1 * ln (\det A).
Proof. exact: ml_scoreE. Qed.

Theorem C11_ml_directional_derivative n (A dA : 'M[R]_n) (r : 'cV[R]_n) :
  A^T = A -> 0 < \det A ->
  let alpha := invmx A *m r in
  is_derive (fun t : R => ml_score (A + t *: dA) r) 0
    (2%:R^-1 * (alpha^T *m dA *m alpha) 0 0 - 2%:R^-1 * \tr (invmx A *m dA)).
Proof. exact: is_derive_ml_score. Qed.

Theorem C11_ml_directional_derivative_trace_form n (A dA : 'M[R]_n) (r : 'cV[R]_n) :
  A^T = A -> 0 < \det A ->
  let alpha := invmx A *m r in
  is_derive (fun t : R => ml_score (A + t *: dA) r) 0
    (2%:R^-1 * \tr ((alpha *m alpha^T - invmx A) *m dA)).
Proof. exact: is_derive_ml_score_trace. Qed.

Theorem C11_ml_directional_derivative_general n (A dA : 'M[R]_n) (r : 'cV[R]_n) :
  0 < \det A ->
  is_derive (fun t : R => ml_score (A + t *: dA) r) 0
    (2%:R^-1 * (r^T *m invmx A *m dA *m invmx A *m r) 0 0 - 2%:R^-1 * \tr (invmx A *m dA)).
Proof. exact: is_derive_ml_score_gen. Qed.

Theorem C11_ml_mean_derivative n (A : 'M[R]_n) (r dmu : 'cV[R]_n) :
  A^T = A ->
  let alpha := invmx A *m r in
  is_derive (fun t : R => ml_score A (r - t *: dmu)) 0 ((alpha^T *m dmu) 0 0).
Proof. exact: is_derive_ml_score_mean. Qed.

(* at every point of the line A + t dA *)
Theorem C11_ln_det_derivative_at n (A dA : 'M[R]_n) (t0 : R) :
  0 < \det (A + t0 *: dA) ->
  is_derive (fun t : R => ln (\det (A + t *: dA))) t0 (\tr (invmx (A + t0 *: dA) *m dA)).
Proof. exact: is_derive_ln_det_at. Qed.

Theorem C11_quad_form_derivative_at n (A dA : 'M[R]_n) (u v : 'cV[R]_n) (t0 : R) :
  \det (A + t0 *: dA) != 0 ->
  is_derive (fun t : R => (u^T *m invmx (A + t *: dA) *m v) 0 0) t0
            (- (u^T *m invmx (A + t0 *: dA) *m dA *m invmx (A + t0 *: dA) *m v) 0 0).
Proof. exact: is_derive_quad_inv_at. Qed.

Theorem C11_ml_directional_derivative_at n (A dA : 'M[R]_n) (r : 'cV[R]_n) (t0 : R) :
  A^T = A -> dA^T = dA -> 0 < \det (A + t0 *: dA) ->
  let alpha := invmx (A + t0 *: dA) *m r in
  is_derive (fun t : R => ml_score (A + t *: dA) r) t0
    (2%:R^-1 * \tr ((alpha *m alpha^T - invmx (A + t0 *: dA)) *m dA)).
Proof. exact: is_derive_ml_score_at. Qed.

(* ---- the values: matrix half at R composed with the logarithm half ---------------------------- *)
Theorem C11_ml_value_real n (K S L : 'M[R]_n) (y mu : 'cV[R]_n) :
  L *m L^T = K + S -> L \in unitmx -> is_trig_mx L -> (forall i, 0 < L i i) ->
  ml_value ((@ml_quad (McOps R_realFieldType) n L y mu) 0 0)
           (col_list (@ml_diag (McOps R_realFieldType) n L))
  = ml_score (K + S) (y - mu).
Proof. exact: ml_value_is_score. Qed.

Theorem C11_loo_value_real n (L : 'M[R]_n) (y mu : 'cV[R]_n) :
  (forall i, (@loo_var (McOps R_realFieldType) n L) i 0 != 0) ->
  let m := @loo_mu (McOps R_realFieldType) n L (@gp_alpha (McOps R_realFieldType) n L y mu) y in
  let v := @loo_var (McOps R_realFieldType) n L in
  loo_value ((@loo_quad (McOps R_realFieldType) n L y mu) 0 0) (col_list v)
  = loo_closed (col_list y) (col_list m) (col_list v).
Proof. exact: loo_value_is_logs. Qed.

(* ---- non-vacuity ------------------------------------------------------------------------------ *)
Example C11_real_hypotheses_example n :
  (1%:M : 'M[R]_n)^T = 1%:M /\ 0 < \det (1%:M : 'M[R]_n).
Proof. exact: bridge_hypotheses_example. Qed.

Print Assumptions C11_R_is_realFieldType.
Print Assumptions C11_R_carrier.
Print Assumptions C11_R_operations.
Print Assumptions C11_R_order.
Print Assumptions C11_det_derivative.
Print Assumptions C11_ln_det_derivative.
Print Assumptions C11_quad_form_derivative.
Print Assumptions C11_ml_score_def.
Print Assumptions C11_ml_directional_derivative.
Print Assumptions C11_ml_directional_derivative_trace_form.
Print Assumptions C11_ml_directional_derivative_general.
Print Assumptions C11_ml_mean_derivative.
Print Assumptions C11_ln_det_derivative_at.
Print Assumptions C11_quad_form_derivative_at.
Print Assumptions C11_ml_directional_derivative_at.
Print Assumptions C11_ml_value_real.
Print Assumptions C11_loo_value_real.
Print Assumptions C11_real_hypotheses_example.
