(* C12 -- GaussianKDE is a faithful, normalised Gaussian kernel-density estimate.
   Property theorems only; every proof is `exact <lemma>`.

   Proved for all inputs: slice coverage, pdf non-negativity and truncation
   bound, grouping of evaluation points (array = pointwise, scalar = array,
   point order irrelevant), sample order irrelevant, cdf non-decreasing inside
   a region, rule-of-thumb and (repaired) cross-validation grid equivariance.
   Proved for any kernel cdf with the stated tail property: cdf truncation
   bound (`_partial`: that the Gaussian Phi has the tail property, and that
   the exact KDE integrates to one, needs the Gaussian integral -- not
   formalised). *)
From Coq Require Import Reals List QArith Qabs Qreals ZArith Sorting.Permutation.
From IT Require Import Model.KdeRegions Proofs.KdeRegionsProofs RealModel.Kde Proofs.KdeProofs.
Import ListNotations.

(* If the region width is at most h (range <= 2^n h; checked per case against
   the n the code computed), then for ANY evaluation point x -- inside the data
   range or beyond it on either side -- every sample within 3.5 h of x belongs
   to the slice of the region the tree look-up assigns to x. *)
Theorem C12_slice_covers : forall (sample : list Q) (h x : Q) (n i : nat),
  let s := QSort.sort sample in
  (0 < h)%Q -> (srange s <= pow2 n * h)%Q -> (i < length s)%nat ->
  (Qabs (x - nth i s 0) < (7 # 2) * h)%Q ->
  (lwr n s h (region_of n s x) <= i < upr n s h (region_of n s x))%nat.
Proof. exact slice_covers. Qed.

(* the code's density never exceeds the exact KDE and falls short of it by at
   most (N_excluded / N) e^{-6.125} / (h sqrt(2 pi)) *)
Theorem C12_pdf_truncation_bound : forall (sample : list Q) (h x : Q) (n : nat),
  sample <> [] -> (0 < h)%Q -> (srange (QSort.sort sample) <= pow2 n * h)%Q ->
  let s := QSort.sort sample in
  let sl := region_slice n s h (region_of n s x) in
  (0 <= pdf_exact_at sample h x - pdf_code_at n sample h x <=
    (INR (length s - length sl) / INR (length s)) *
    (exp (- ((7 / 2) * (7 / 2)) / 2) / (Q2R h * sqrt (2 * PI))))%R.
Proof. exact pdf_truncation_bound_sorted. Qed.

Theorem C12_pdf_nonneg : forall (sample : list Q) (h x : Q) (n : nat),
  sample <> [] -> (0 < h)%Q -> (0 <= pdf_code_at n sample h x)%R.
Proof. exact pdf_code_nonneg. Qed.

(* grouping evaluation points by region is a partition of the indices *)
Theorem C12_groups_partition : forall (vals : list nat) (i : nat), (i < length vals)%nat ->
  In (nth i vals 0%nat, positions (nth i vals 0%nat) vals) (unique_index_groups vals) /\
  In i (positions (nth i vals 0%nat) vals) /\
  (forall v g, In (v, g) (unique_index_groups vals) -> In i g -> v = nth i vals 0%nat).
Proof. exact groups_partition. Qed.

Theorem C12_groups_labels_distinct : forall vals, NoDup (map fst (unique_index_groups vals)).
Proof. exact groups_labels_NoDup. Qed.

(* hence the array call is the pointwise call, for any per-region evaluation F
   (pdf or cdf): the zero-initialised output, written group by group, equals
   map (F (region x) x) *)
Theorem C12_array_is_pointwise : forall (A : Type) (zero : A) (F : nat -> Q -> A) n s xs,
  eval_array zero F n s xs = map (fun x => F (region_of n s x) x) xs.
Proof. exact @eval_array_map. Qed.

Theorem C12_scalar_array_agree : forall (A : Type) (zero : A) (F : nat -> Q -> A) n s xs i,
  (i < length xs)%nat ->
  nth i (eval_array zero F n s xs) zero = hd zero (eval_array zero F n s [nth i xs 0%Q]).
Proof. exact @eval_array_scalar. Qed.

Theorem C12_point_order_irrelevant : forall (A : Type) (zero : A) (F : nat -> Q -> A) n s xs xs',
  Permutation xs xs' ->
  Permutation (combine xs (eval_array zero F n s xs)) (combine xs' (eval_array zero F n s xs')).
Proof. exact @eval_array_perm. Qed.

(* the sample is sorted first: its order is irrelevant (canon = every value in
   lowest terms, i.e. equal doubles are identical) *)
Theorem C12_sample_order_irrelevant : forall l l', canon l -> Permutation l l' ->
  QSort.sort l = QSort.sort l'.
Proof. exact sort_perm_eq. Qed.

Theorem C12_exact_sample_order_irrelevant : forall (s s' : list Q) (h x : Q), Permutation s s' ->
  pdf_exact_at s h x = pdf_exact_at s' h x.
Proof. exact pdf_exact_perm. Qed.

(* cdf: non-decreasing between two points served by the same region *)
Theorem C12_cdf_monotone_within_region : forall (sample : list Q) (h x x' : Q) (n : nat),
  sample <> [] -> (0 < h)%Q -> (x <= x')%Q ->
  region_of n (QSort.sort sample) x = region_of n (QSort.sort sample) x' ->
  (cdf_code_at n sample h x <= cdf_code_at n sample h x')%R.
Proof. exact cdf_code_monotone_within. Qed.

(* cdf truncation: for ANY kernel cdf G with values in [0,1] and tails
   G t >= 1 - eps (t >= 3.5), G t <= eps (t <= -3.5), the code's value
   (offset + slice sum) is within (N_excluded / N) eps of the full sum.
   Partial: that Phi itself satisfies the tail hypothesis (eps = Phi(-3.5) =
   2.33e-4) is the Gaussian integral, not formalised. *)
Theorem C12_cdf_truncation_bound_partial :
  forall (G : R -> R) (eps : R) (n : nat) (s : list Q) (h x : Q),
  (forall t, 0 <= G t <= 1)%R -> (forall t, 7 / 2 <= t -> 1 - eps <= G t)%R ->
  (forall t, t <= - (7 / 2) -> G t <= eps)%R ->
  qsorted s -> s <> [] -> (0 < h)%Q -> (srange s <= pow2 n * h)%Q ->
  let N := INR (length s) in
  let r := region_of n s x in
  let sl := region_slice n s h r in
  let exact := (gsum G (Q2R h) (map Q2R s) (Q2R x) / N)%R in
  let code := (Q2R (cdf_offset n s h r) + gsum G (Q2R h) (map Q2R sl) (Q2R x) / N)%R in
  (Rabs (exact - code) <= INR (length s - length sl) / N * eps)%R.
Proof. exact cdf_truncation_bound. Qed.

(* bandwidth selection *)
Theorem C12_rule_of_thumb_equivariant : forall (a b : R) (l : list R), (0 < a)%R -> l <> [] ->
  rule_of_thumb (map (fun x => a * x + b)%R l) = (a * rule_of_thumb l)%R.
Proof. exact rule_of_thumb_equivariant. Qed.

Theorem C12_cv_grid_equivariant : forall a h0 : R, (0 < a)%R -> (0 < h0)%R ->
  cv_widths (a * h0) = map (Rmult a) (cv_widths h0).
Proof. exact cv_grid_equivariant. Qed.

(* D17: the pinned grid exp(h0 + m/2) is not scale-equivariant *)
Theorem C12_cv_grid_pinned_refuted :
  exists a h0 : R, (0 < a)%R /\ (0 < h0)%R /\
    cv_widths_pinned (a * h0) <> map (Rmult a) (cv_widths_pinned h0).
Proof. exact cv_grid_pinned_refuted. Qed.

(* non-vacuity: ties, an outlier; premises hold; a point far outside is served
   by the end region whose slice is the cluster, not the outlier *)
Example C12_example :
  let sample := [3; 1; (5 # 2); 1; 40; 4; (7 # 2)]%Q in
  let s := QSort.sort sample in
  let h := (1 # 2)%Q in
  let n := 7%nat in
  (0 < h)%Q /\ (srange s <= pow2 n * h)%Q /\ canon sample /\
  region_of n s (-100) = 0%nat /\ region_of n s 1000 = 127%nat /\
  region_slice n s h (region_of n s 3) = [1; 1; (5 # 2); 3; (7 # 2); 4]%Q /\
  region_slice n s h (region_of n s 1000) = [40]%Q /\
  covers_cond n s h = true.
Proof.
  cbv zeta.
  split; [vm_compute; reflexivity|].
  split; [vm_compute; discriminate|].
  split; [repeat constructor|].
  repeat split; vm_compute; reflexivity.
Qed.

(* the hypotheses of the partial cdf theorem are satisfiable *)
Example C12_cdf_hypotheses_satisfiable :
  exists (G : R -> R) (eps : R),
    (forall t, 0 <= G t <= 1)%R /\ (forall t, 7 / 2 <= t -> 1 - eps <= G t)%R /\
    (forall t, t <= - (7 / 2) -> G t <= eps)%R.
Proof.
  exists (fun t => if Rle_dec t 0 then 0%R else 1%R), 0%R.
  repeat split; intros; destruct (Rle_dec t 0); Lra.lra.
Qed.

Print Assumptions C12_slice_covers.
Print Assumptions C12_pdf_truncation_bound.
Print Assumptions C12_pdf_nonneg.
Print Assumptions C12_groups_partition.
Print Assumptions C12_groups_labels_distinct.
Print Assumptions C12_array_is_pointwise.
Print Assumptions C12_scalar_array_agree.
Print Assumptions C12_point_order_irrelevant.
Print Assumptions C12_sample_order_irrelevant.
Print Assumptions C12_exact_sample_order_irrelevant.
Print Assumptions C12_cdf_monotone_within_region.
Print Assumptions C12_cdf_truncation_bound_partial.
Print Assumptions C12_rule_of_thumb_equivariant.
Print Assumptions C12_cv_grid_equivariant.
Print Assumptions C12_cv_grid_pinned_refuted.
