(* C03 -- stored log-probabilities always belong to the stored samples.
   Property theorems only.  `aligned logp beta samples probs` says
   probs = map (fun x => logp x * beta) samples  (newest first), i.e. the k-th
   recorded log-probability is the user's log-density at the k-th recorded
   sample divided by the temperature (beta = 1/T). *)
From Coq Require Import QArith List.
From IT Require Import Common.ExpBounds Model.Reflect Model.Samplers Proofs.SamplersProofs.
Import ListNotations.
Open Scope Q_scope.

(* Gibbs / Metropolis chains: after ANY sequence of take_step calls (any random
   tape) and installs of a point with its own log-density (parallel-tempering
   exchange, replace_last), for any log-density and temperature *)
Theorem C03_gibbs_aligned : forall logp beta s0 ops,
  aligned logp beta (gs_samples s0) (gs_probs s0) ->
  let s := fold_left (gapply logp beta) ops s0 in
  aligned logp beta (gs_samples s) (gs_probs s).
Proof. exact gibbs_history_aligned. Qed.

Theorem C03_pca_aligned : forall logp beta s0 ops,
  aligned logp beta (ps_samples s0) (ps_probs s0) ->
  let s := fold_left (papply logp beta) ops s0 in
  aligned logp beta (ps_samples s) (ps_probs s).
Proof. exact pca_history_aligned. Qed.

Theorem C03_hmc_aligned : forall logp beta grad s0 ops,
  aligned logp beta (hs_theta s0) (hs_probs s0) ->
  let s := fold_left (happly logp beta grad) ops s0 in
  aligned logp beta (hs_theta s) (hs_probs s).
Proof. exact hmc_history_aligned. Qed.

(* one step appends exactly one sample and one log-probability and leaves the
   history untouched *)
Theorem C03_gibbs_step_appends : forall logp beta s tape s' tape' ev,
  aligned logp beta (gs_samples s) (gs_probs s) ->
  gibbs_step logp beta s tape = Ok (s', tape', ev) ->
  aligned logp beta (gs_samples s') (gs_probs s') /\
  tl (gs_samples s') = gs_samples s /\ tl (gs_probs s') = gs_probs s.
Proof. exact gibbs_step_aligned. Qed.

(* the starting point and an installed point: index-wise reading of `aligned` *)
Theorem C03_every_index : forall logp beta samples probs k,
  aligned logp beta samples probs -> (k < length samples)%nat ->
  nth k probs 0 = tlogp logp beta (nth k samples []).
Proof. exact aligned_nth. Qed.

(* ensemble: after every iteration each walker's stored value is the log-density
   of its position, and so is every per-iteration snapshot that advance() stores *)
Theorem C03_ensemble_aligned : forall logp pinned tapes s,
  ealigned logp s ->
  Forall (fun sn => snd sn = map (elogp logp) (fst sn)) (snd (ens_run logp pinned s tapes)) /\
  ealigned logp (fst (ens_run logp pinned s tapes)).
Proof. exact ens_run_snapshots_aligned. Qed.

(* mode(): a recorded sample whose recorded log-probability is the maximum *)
Theorem C03_mode : forall logp beta samples probs,
  aligned logp beta samples probs -> samples <> [] ->
  let k := argmaxQ probs in
  In (nth k samples []) samples /\
  nth k probs 0 = tlogp logp beta (nth k samples []) /\
  forall j, (j < length probs)%nat -> nth j probs 0 <= nth k probs 0.
Proof. exact mode_is_argmax. Qed.

(* the pinned MetropolisChain never extended probs (defect D1, repaired) *)
Theorem C03_metropolis_pinned_refuted :
  exists tape s' t' ev,
    aligned d1_logp 1 (gs_samples d1_state) (gs_probs d1_state) /\
    metro_step_pinned d1_logp 1 d1_state tape = Ok (s', t', ev) /\
    length (gs_probs s') <> length (gs_samples s').
Proof. exact metro_pinned_refuted. Qed.

(* non-vacuity: a reachable two-parameter Gibbs state at temperature 2 *)
Example C03_example :
  let logp := quad [1; 1 # 2] [0; 1] [] in
  let s0 := mkGS [mkGP 1 PStd 0 50; mkGP (1 # 2) (PBnd (-2) 3) 0 50] [[1; 1]] [tlogp logp (1 # 2) [1; 1]] in
  aligned logp (1 # 2) (gs_samples s0) (gs_probs s0) /\
  exists s' t' ev, gibbs_step logp (1 # 2) s0 [1 # 2; 1 # 3; -3; 1 # 8] = Ok (s', t', ev) /\
                   length (gs_samples s') = 2%nat.
Proof.
  cbv zeta. split; [reflexivity|].
  eexists. eexists. eexists. split; [vm_compute; reflexivity|reflexivity].
Qed.

Print Assumptions C03_gibbs_aligned.
Print Assumptions C03_pca_aligned.
Print Assumptions C03_hmc_aligned.
Print Assumptions C03_gibbs_step_appends.
Print Assumptions C03_every_index.
Print Assumptions C03_ensemble_aligned.
Print Assumptions C03_mode.
Print Assumptions C03_metropolis_pinned_refuted.
