(* C02 (continued) -- the kernel / mean-function values that enter the GP posterior, as
   functions of the coordinates, and translation invariance of the whole regression.
   Property theorems only; every proof is `exact <lemma>` (Proofs/GpTranslationProofs.v).
   Stdlib-Reals style (Properties/C02.v is the MathComp part of the same property).

   Properties/C02.v proves that the regressor's data flow equals the closed form
   m(q) + K_qx (K_xx+S)^-1 (y - m(x)),  K_qq - K_qx (K_xx+S)^-1 K_xq  for ANY matrices
   K_xx, K_qx, K_qq and vectors mu, mu_q.  The property statement means the matrices of
   THE covariance function at the training and query points.  gp_Kxx / gp_Kqx / gp_Kqq /
   gp_mu / gp_muq are those, defined from the real-valued models of covariance.py and
   mean.py; the correspondence run checks them with coq-interval against what the real
   kernel objects return inside GpRegressor -- also on data whose coordinates carry a large
   common offset compared with the length-scales (time stamps, map coordinates).

   The theorems below say that such an offset cannot matter: every documented kernel, sum
   and change-point of kernels, and every mean function, gives the same five inputs for
   (x + c, q + c) as for (x, q) (change-point locations moved by c[axis]); the regressor's
   outputs are functions of these five inputs, y and the error data alone
   (Matrix/GpModel.v), so the posterior is translation invariant.  The run uses this as
   its oracle: the closed form evaluated with the kernel matrices of the data moved back
   to the origin must reproduce what the regressor returns on the offset data. *)
From Coq Require Import Reals List Arith Lra.
From IT Require Import Model.Slices RealModel.Kernels RealModel.Means Proofs.GpTranslationProofs.
Import ListNotations.
Open Scope R_scope.

(* SquaredExponential, RationalQuadratic, WhiteNoise, HeteroscedasticNoise: __call__ and
   build_covariance are unchanged by a common translation of their arguments / of the data *)
Theorem C02_base_kernels_stationary : forall d n,
  stationary (se d) /\ stationary (rq d) /\ stationary wn /\ stationary (hn n).
Proof. intros d n. exact (conj (se_stationary d) (conj (rq_stationary d) (conj wn_stationary (hn_stationary n)))). Qed.

(* sums of any length *)
Theorem C02_sum_stationary : forall ks, Forall stationary ks -> stationary (ksum ks).
Proof. exact sum_stationary. Qed.

(* change-points with any number of stationary kernels along any axis: the kernel on
   (x + c, theta with every location moved by c[axis]) equals the kernel on (x, theta) *)
Theorem C02_changepoint_translated : forall axis ks c th th',
  Forall stationary ks -> cp_theta_translated ks (coord c axis) th th' ->
  comp_translated c (kcp axis ks) th th'.
Proof. exact cp_comp_translated. Qed.

(* sums whose components are stationary kernels and / or change-points *)
Theorem C02_sum_translated : forall ks c th th',
  each_translated c ks (sum_slices ks) th th' -> comp_translated c (ksum ks) th th'.
Proof. exact sum_comp_translated. Qed.

(* ConstantMean, LinearMean, QuadraticMean (centred on the mean of the training points) *)
Theorem C02_means_stationary : forall d,
  mean_stationary const_mean /\ mean_stationary (lin_mean d) /\ mean_stationary (quad_mean d).
Proof. intros d. exact (conj const_mean_stationary (conj (lin_mean_stationary d) (quad_mean_stationary d))). Qed.

(* the five inputs of the GP model -- hence every output of the regressor -- do not change
   when c is added to all training and query points *)
Theorem C02_gp_inputs_translation_invariant : forall K M c xs xs' qs qs' th th' mth,
  comp_translated c K th th' -> mean_stationary M -> xs <> [] ->
  all_translated c xs xs' -> all_translated c qs qs' ->
  gp_inputs_agree K K M xs xs' qs qs' th th' mth.
Proof. exact gp_inputs_transl_comp. Qed.

(* the same for a stationary kernel, where theta does not change at all *)
Theorem C02_gp_inputs_translation_invariant_stationary : forall K M c xs xs' qs qs' th mth,
  stationary K -> mean_stationary M -> xs <> [] ->
  all_translated c xs xs' -> all_translated c qs qs' ->
  gp_inputs_agree K K M xs xs' qs qs' th th mth.
Proof. exact gp_inputs_transl_stationary. Qed.

(* ---- non-vacuity ------------------------------------------------------------ *)
(* the translation hypotheses are met by adding c to every point of the right dimension *)
Example C02_translation_example : forall c xs, (forall u, In u xs -> length u = length c) ->
  all_translated c xs (map (shift c) xs).
Proof. exact map_shift_translated. Qed.

(* the theta relation of a change-point is met by moving the location entries *)
Example C02_changepoint_theta_example : forall a1 l1 a2 k2 l2 loc w s,
  cp_theta_translated [se 1; rq 1] s [a1; l1; a2; k2; l2; loc; w] [a1; l1; a2; k2; l2; loc + s; w].
Proof. exact cp_theta_translated_example. Qed.

(* a record of time stamps: the kernel value between 1 700 000 014 s and 1 700 000 100 s is
   the value between 14 s and 100 s *)
Example C02_time_stamp_example : forall th,
  kval (se 1) th [1700000014] [1700000100] = kval (se 1) th [14] [100].
Proof.
  intros th. apply (proj1 (se_stationary 1) [1700000000]); intros k;
    unfold coord; destruct k as [|[|k]]; simpl; lra.
Qed.

Print Assumptions C02_base_kernels_stationary.
Print Assumptions C02_sum_stationary.
Print Assumptions C02_changepoint_translated.
Print Assumptions C02_sum_translated.
Print Assumptions C02_means_stationary.
Print Assumptions C02_gp_inputs_translation_invariant.
Print Assumptions C02_gp_inputs_translation_invariant_stationary.
