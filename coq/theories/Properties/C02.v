(* C02 -- GP regression returns the exact Gaussian-process posterior.
   Property theorems only; every proof is `exact <lemma>` (Proofs/GpProofs.v).
   The model is Matrix/GpModel.v instantiated at MathComp matrices over an
   ARBITRARY realFieldType R and ARBITRARY sizes n (training points), b (query
   points).  SciPy's cholesky / solve_triangular are exact: L is any invertible
   matrix with L L^T = K_xx + S. *)
From mathcomp Require Import all_ssreflect all_algebra fingroup perm.
From IT Require Import Matrix.MxOps Matrix.McOps Matrix.GpModel Proofs.GpProofs.

Set Implicit Arguments.
Unset Strict Implicit.
Unset Printing Implicit Defensive.

Import GRing.Theory Num.Theory.
Local Open Scope ring_scope.

Section C02.
Variable R : realFieldType.
Notation O := (McOps R).

(* predictive mean = m(q) + K_qx (K_xx + S)^-1 (y - m(x)) *)
Theorem C02_mean_closed n b (K S L : 'M[R]_n) (y mu : 'cV[R]_n)
    (K_qx : 'M[R]_(b, n)) (mu_q : 'cV[R]_b) :
  L *m L^T = K + S -> L \in unitmx ->
  @post_mean O n b (@gp_alpha O n L y mu) K_qx mu_q
  = mu_q + K_qx *m invmx (K + S) *m (y - mu).
Proof. exact: mean_closed. Qed.

(* predictive covariance = K_qq - K_qx (K_xx + S)^-1 K_xq *)
Theorem C02_cov_closed n b (K S L : 'M[R]_n) (K_qx : 'M[R]_(b, n)) (K_qq : 'M[R]_b) :
  L *m L^T = K + S -> L \in unitmx ->
  @post_cov O n b L K_qx K_qq = K_qq - K_qx *m invmx (K + S) *m K_qx^T.
Proof. exact: cov_closed. Qed.

(* the same two facts against the closed-form definitions that the run evaluates *)
Theorem C02_closed_model n b (K S L : 'M[R]_n) (y mu : 'cV[R]_n)
    (K_qx : 'M[R]_(b, n)) (K_qq : 'M[R]_b) (mu_q : 'cV[R]_b) :
  L *m L^T = K + S -> L \in unitmx ->
  @post_mean O n b (@gp_alpha O n L y mu) K_qx mu_q
    = @closed_mean O n b (@data_cov O n K S) y mu K_qx mu_q
  /\ @post_cov O n b L K_qx K_qq = @closed_cov O n b (@data_cov O n K S) K_qx K_qq.
Proof. by move=> HL uL; split; [exact: mean_closed_model | exact: cov_closed_model]. Qed.

(* the point-wise call at query point i returns entry i of the joint mean and
   entry (i,i) of the joint covariance *)
Theorem C02_pointwise_eq_joint_diag n b (L : 'M[R]_n) (alpha : 'cV[R]_n)
    (K_qx : 'M[R]_(b, n)) (K_qq : 'M[R]_b) (mu_q : 'cV[R]_b) (i : 'I_b) :
  @call_mean O n alpha (row i K_qx) (mu_q i 0)%:M
    = ((@post_mean O n b alpha K_qx mu_q) i 0)%:M
  /\ @call_var O n L (row i K_qx) (K_qq i i)%:M
    = ((@post_cov O n b L K_qx K_qq) i i)%:M.
Proof. by split; [exact: pointwise_mean_eq_joint | exact: pointwise_var_eq_joint_diag]. Qed.

(* mean_only=True returns the mean of the joint posterior *)
Theorem C02_mean_only_eq_joint_mean n b (L : 'M[R]_n) (alpha : 'cV[R]_n)
    (K_qx : 'M[R]_(b, n)) (K_qq : 'M[R]_b) (mu_q : 'cV[R]_b) :
  @build_posterior_mean_only O n b alpha K_qx mu_q
  = (@build_posterior O n b L alpha K_qx K_qq mu_q).1.
Proof. exact: mean_only_eq_joint_mean. Qed.

(* standard deviations y_err and the covariance diag(y_err^2) give the same S
   (hence the same everything) *)
Theorem C02_yerr_eq_ycov n (e : 'cV[R]_n) (C : 'M[R]_n) :
  (forall i j, C i j = (e i 0) ^+ 2 *+ (i == j)) ->
  @sig_of_yerr O n e = @sig_of_ycov O n C.
Proof. exact: yerr_eq_ycov. Qed.

(* training-order invariance: permute the data by s (P = perm_mx s) and factor
   the permuted matrix any way you like *)
Theorem C02_train_perm_invariant n b (s : 'S_n) (K S L L' : 'M[R]_n) (y mu : 'cV[R]_n)
    (K_qx : 'M[R]_(b, n)) (K_qq : 'M[R]_b) (mu_q : 'cV[R]_b) :
  let P : 'M[R]_n := perm_mx s in
  L *m L^T = K + S -> L \in unitmx ->
  L' *m L'^T = P *m K *m P^T + P *m S *m P^T -> L' \in unitmx ->
  @post_mean O n b (@gp_alpha O n L' (P *m y) (P *m mu)) (K_qx *m P^T) mu_q
    = @post_mean O n b (@gp_alpha O n L y mu) K_qx mu_q
  /\ @post_cov O n b L' (K_qx *m P^T) K_qq = @post_cov O n b L K_qx K_qq.
Proof.
move=> P HL uL HL' uL'; split.
- exact: (train_perm_mean y mu K_qx mu_q HL uL HL' uL').
- exact: (train_perm_cov K_qx K_qq HL uL HL' uL').
Qed.

(* variance bounds: if the joint prior covariance of (noisy data, query values)
   is PSD then the posterior covariance is PSD, it is below the prior one, and
   every predictive variance lies in [0, prior variance] -- on both paths *)
Theorem C02_var_bounds n b (K S L : 'M[R]_n) (K_qx : 'M[R]_(b, n)) (K_qq : 'M[R]_b) :
  L *m L^T = K + S -> L \in unitmx ->
  psd (block_mx (K + S) K_qx^T K_qx K_qq) ->
  [/\ psd (@post_cov O n b L K_qx K_qq),
      psd (K_qq - @post_cov O n b L K_qx K_qq),
      forall i, 0 <= (@post_cov O n b L K_qx K_qq) i i <= K_qq i i
    & forall i, 0 <= (@call_var O n L (row i K_qx) (K_qq i i)%:M) 0 0 <= K_qq i i].
Proof.
move=> HL uL HJ; split.
- exact: (post_cov_psd HL uL HJ).
- exact: (prior_minus_post_psd L K_qx K_qq).
- by move=> i; exact: (var_bounds_joint HL uL HJ).
- by move=> i; exact: (var_bounds_pointwise HL uL HJ).
Qed.

(* the posterior covariance is symmetric *)
Theorem C02_cov_sym n b (L : 'M[R]_n) (K_qx : 'M[R]_(b, n)) (K_qq : 'M[R]_b) :
  K_qq^T = K_qq -> (@post_cov O n b L K_qx K_qq)^T = @post_cov O n b L K_qx K_qq.
Proof. exact: cov_sym. Qed.

(* ---- non-vacuity ------------------------------------------------------------ *)
(* the factorisation hypotheses are met, e.g. K = 3 I, S = I, L = 2 I (any n) *)
Example C02_factor_example n :
  let L : 'M[R]_n := 2%:R%:M in let K : 'M[R]_n := 3%:R%:M in let S : 'M[R]_n := 1%:M in
  L *m L^T = K + S /\ L \in unitmx.
Proof.
move=> L K S; split.
- by rewrite /L /K /S tr_scalar_mx -scalar_mxM -raddfD /= -natrM -[1]/(1%:R) -natrD.
- by rewrite unitmxE det_scalar unitfE expf_neq0 // pnatr_eq0.
Qed.

(* the joint-PSD hypothesis is met by every kernel that is a Gram matrix
   (k(u,v) = <g(u), g(v)>, which is what positive semi-definite kernels are)
   together with any PSD noise covariance *)
Example C02_joint_psd_example n b p (G1 : 'M[R]_(n, p)) (G2 : 'M[R]_(b, p)) (S : 'M[R]_n) :
  psd S ->
  psd (block_mx (G1 *m G1^T + S) (G2 *m G1^T)^T (G2 *m G1^T) (G2 *m G2^T)).
Proof.
move=> pS; apply: joint_psd_of_kernel => //.
have -> : block_mx (G1 *m G1^T) (G2 *m G1^T)^T (G2 *m G1^T) (G2 *m G2^T)
          = col_mx G1 G2 *m (col_mx G1 G2)^T.
  by rewrite tr_col_mx mul_col_row trmx_mul trmxK.
exact: psd_gram.
Qed.

End C02.

(* ---- pinned defects --------------------------------------------------------- *)
(* D12: y_cov given as a list is rejected by the pinned check_error_data although
   the documented interface converts lists; the repaired code accepts it *)
Theorem C02_ycov_list_pinned_refuted :
  exists (c : container) (C : mx (McOps [realFieldType of rat]) 1 1),
    @check_error_data_pinned _ 1 c C = None /\ @check_error_data_ycov _ 1 c C = Some C.
Proof. by exists AsList, 1%:M. Qed.

(* D11: for d >= 2 the pinned HeteroscedasticNoise cross-covariance has the
   wrong shape *)
Theorem C02_hetero_shape_pinned_refuted :
  exists b n d, hetero_cross_shape_pinned b n d <> hetero_cross_shape b n d.
Proof. by exists 1%N, 1%N, 2%N. Qed.

Print Assumptions C02_mean_closed.
Print Assumptions C02_cov_closed.
Print Assumptions C02_closed_model.
Print Assumptions C02_pointwise_eq_joint_diag.
Print Assumptions C02_mean_only_eq_joint_mean.
Print Assumptions C02_yerr_eq_ycov.
Print Assumptions C02_train_perm_invariant.
Print Assumptions C02_var_bounds.
Print Assumptions C02_cov_sym.
