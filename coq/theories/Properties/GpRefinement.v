(* GpRefinement -- the executable matrix instance refines the MathComp one.
   Property theorems only; every proof is `exact <lemma>` (Matrix/Refinement.v,
   Matrix/Refinement2.v).

   Supports properties C02, C11, C16, C17 of /verif/properties.jsonl (DESIGN.md
   section 2.3): their models (Matrix/GpModel.v, Inversion.v, Selection.v,
   Derivatives.v) are Gallina terms over the record `mxops`; the theorems of
   those properties are about the instance `McOps R` (MathComp matrices), the
   correspondence runs evaluate the instance `ListOps` (list (list Q)) with
   vm_compute.  This file states that ListOps REFINES McOps rat:

     q2r  : Q -> rat                     the scalar conversion (= McOps.Q2F at rat)
     repr m n l M                        the list l is m x n (wf_mx m n l = true)
                                         and its entry (i,j) maps by q2r to M i j
     GpRefinement_q2r_morphism           q2r is a field / order / abs morphism,
                                         Qeq <-> =, and onto
     GpRefinement_ops_<field>            one theorem per field of mxops and per
                                         derived operation of MxOps.v
     GpRefinement_inverse[_...]          minv, under its run-time verification
     GpRefinement_posterior[_...]        the GP posterior of GpModel.v composed
     GpRefinement_calculate_posterior    a second composition (Inversion.v, C17)
     GpRefinement_ListOps_*              the same at the constant ListOps itself

   Python lines modelled by the composed terms:
     inference/gp/regression.py 239-244 (set_hyperparameters: K_xx + sig, alpha
       by two triangular solves), 208-216 (__call__), 439-449 (build_posterior:
       mu = K_qx @ alpha + mean, Q = solve_triangular(L, K_qx.T),
       sigma = K_qq - Q.T @ Q);
     inference/gp/inversion.py 134-136, 151-154 (calculate_posterior:
       W = A.T @ inv_sigma @ A, u, solve(I + K @ W, K), posterior mean).

   The proposing function.  ListOps.qinv lets an elimination on Bignums' BigZ
   propose integer rows R and a pivot d and then VERIFIES  A = N/D  and
   N R = d I  with plain Z / Q arithmetic; when the verification fails it
   returns the empty matrix [].  Nothing is proved (or needed) about the
   proposing function, so the theorems are stated for `ListOpsOf propose`
   with an ARBITRARY  propose : nat -> zmat -> option (zmat * Z);  ListOps is
   `ListOpsOf bareiss_big` by definition (GpRefinement_ListOps_is_instance, by
   reflexivity).  The generic theorems are closed under the global context.
   The GpRefinement_ListOps_* instances mention the term bareiss_big, hence
   Print Assumptions lists the Uint63 primitive operations that term is
   written with (PrimInt63.*, no logical axiom; none of their properties is
   used). *)
From Coq Require Import List QArith Qabs Bool Arith ZArith.
From mathcomp Require Import all_ssreflect all_algebra.
From IT Require Import Matrix.MxOps Matrix.ListOps Matrix.McOps.
From IT Require Import Matrix.GpModel Matrix.Inversion.
From IT Require Import Matrix.Refinement Matrix.Refinement2.

Set Implicit Arguments.
Unset Strict Implicit.
Unset Printing Implicit Defensive.

Import Order.TTheory GRing.Theory Num.Theory.

Local Delimit Scope Z_scope with Z.
Local Delimit Scope Q_scope with Q.
Local Close Scope Q_scope.
Local Open Scope ring_scope.

Notation MO := (McOps rat_realFieldType).

(* ---- the scalar conversion ---------------------------------------------------- *)
Theorem GpRefinement_q2r_morphism :
  [/\ q2r 0%Q = 0, q2r 1%Q = 1,
      forall x y, q2r (x + y)%Q = q2r x + q2r y,
      forall x y, q2r (x * y)%Q = q2r x * q2r y
    & forall x, q2r (- x)%Q = - q2r x] /\
  [/\ forall x, q2r (/ x)%Q = (q2r x)^-1,
      forall x y, (x == y)%Q <-> q2r x = q2r y,
      forall x y, (x <= y)%Q <-> q2r x <= q2r y,
      forall x y, (x < y)%Q <-> q2r x < q2r y
    & forall x, q2r (Qabs x) = `|q2r x|] /\
  (forall r : rat, exists q : Q, q2r q = r).
Proof. exact: q2r_morphism. Qed.
Print Assumptions GpRefinement_q2r_morphism.

(* the relation is functional, and entries are compared up to Qeq *)
Theorem GpRefinement_repr_functional m n l (M M' : 'M[rat]_(m, n)) :
  repr l M -> repr l M' -> M = M'.
Proof. exact: repr_fun. Qed.
Print Assumptions GpRefinement_repr_functional.

Theorem GpRefinement_repr_Qeq m n l l' (M : 'M[rat]_(m, n)) (i : 'I_m) (j : 'I_n) :
  repr l M -> repr l' M -> (qget l i j == qget l' i j)%Q.
Proof. exact: repr_Qeq. Qed.
Print Assumptions GpRefinement_repr_Qeq.

(* ListOps is the instance propose := bareiss_big, by definition *)
Theorem GpRefinement_ListOps_is_instance :
  ListOps = ListOpsOf bareiss_big /\ qinv = qinv_of bareiss_big
  /\ qinv_ok = qinv_ok_of bareiss_big.
Proof. exact: (conj ListOps_is_ListOpsOf (conj qinv_is_qinv_of qinv_ok_is_qinv_ok_of)). Qed.
Print Assumptions GpRefinement_ListOps_is_instance.

Section Generic.
Variable propose : nat -> zmat -> option (zmat * Z).
Notation LO := (ListOpsOf propose).

(* ---- one theorem per field of mxops ------------------------------------------- *)
(* A @ B.  For an inner dimension n = 0 and p > 0 columns ListOps returns m
   empty rows (it reads the column count off B's first row): excluded. *)
Theorem GpRefinement_ops_mmul m n p A B (MA : 'M[rat]_(m, n)) (MB : 'M[rat]_(n, p)) :
  (n != 0%N) || (p == 0%N) ->
  repr A MA -> repr B MB -> repr (@mmul LO m n p A B) (@mmul MO m n p MA MB).
Proof. exact: repr_mmul. Qed.

Theorem GpRefinement_ops_madd m n A B (MA MB : 'M[rat]_(m, n)) :
  repr A MA -> repr B MB -> repr (@madd LO m n A B) (@madd MO m n MA MB).
Proof. exact: repr_madd. Qed.

Theorem GpRefinement_ops_mopp m n A (MA : 'M[rat]_(m, n)) :
  repr A MA -> repr (@mopp LO m n A) (@mopp MO m n MA).
Proof. exact: repr_mopp. Qed.

Theorem GpRefinement_ops_mtr m n A (MA : 'M[rat]_(m, n)) :
  repr A MA -> repr (@mtr LO m n A) (@mtr MO m n MA).
Proof. exact: repr_mtr. Qed.

Theorem GpRefinement_ops_mid n : repr (@mid LO n) (@mid MO n).
Proof. exact: repr_mid. Qed.

Theorem GpRefinement_ops_mconst c m n : repr (@mconst LO c m n) (@mconst MO c m n).
Proof. exact: repr_mconst. Qed.

Theorem GpRefinement_ops_mscal c m n A (MA : 'M[rat]_(m, n)) :
  repr A MA -> repr (@mscal LO c m n A) (@mscal MO c m n MA).
Proof. exact: repr_mscal. Qed.

Theorem GpRefinement_ops_mhad m n A B (MA MB : 'M[rat]_(m, n)) :
  repr A MA -> repr B MB -> repr (@mhad LO m n A B) (@mhad MO m n MA MB).
Proof. exact: repr_mhad. Qed.

(* no non-zero hypothesis is needed: 1/0 = 0 in Q and in rat *)
Theorem GpRefinement_ops_mrecip m n A (MA : 'M[rat]_(m, n)) :
  repr A MA -> repr (@mrecip LO m n A) (@mrecip MO m n MA).
Proof. exact: repr_mrecip. Qed.

Theorem GpRefinement_ops_mabs m n A (MA : 'M[rat]_(m, n)) :
  repr A MA -> repr (@mabs LO m n A) (@mabs MO m n MA).
Proof. exact: repr_mabs. Qed.

Theorem GpRefinement_ops_mdiagv n v (V : 'M[rat]_(n, 1)) :
  repr v V -> repr (@mdiagv LO n v) (@mdiagv MO n V).
Proof. exact: repr_mdiagv. Qed.

Theorem GpRefinement_ops_mdiagof n A (M : 'M[rat]_n) :
  repr A M -> repr (@mdiagof LO n A) (@mdiagof MO n M).
Proof. exact: repr_mdiagof. Qed.

(* the derived operations of MxOps.v *)
Theorem GpRefinement_ops_msub m n A B (MA MB : 'M[rat]_(m, n)) :
  repr A MA -> repr B MB -> repr (@msub LO m n A B) (@msub MO m n MA MB).
Proof. exact: repr_msub. Qed.

Theorem GpRefinement_ops_msum n v (V : 'M[rat]_(n, 1)) :
  n != 0%N -> repr v V -> repr (@msum LO n v) (@msum MO n V).
Proof. exact: repr_msum. Qed.

Theorem GpRefinement_ops_mtrace n A (M : 'M[rat]_n) :
  n != 0%N -> repr A M -> repr (@mtrace LO n A) (@mtrace MO n M).
Proof. exact: repr_mtrace. Qed.

Theorem GpRefinement_ops_mhadsum m n A B (MA MB : 'M[rat]_(m, n)) :
  m != 0%N -> n != 0%N ->
  repr A MA -> repr B MB -> repr (@mhadsum LO m n A B) (@mhadsum MO m n MA MB).
Proof. exact: repr_mhadsum. Qed.

(* ---- minv ------------------------------------------------------------------------ *)
(* verification succeeded: the argument is invertible and the result is the inverse *)
Theorem GpRefinement_inverse n A (M : 'M[rat]_n) :
  qinv_ok_of propose n A = true -> repr A M ->
  M \in unitmx /\ repr (@minv LO n A) (@minv MO n M).
Proof. exact: repr_minv. Qed.

(* verification failed: the result is [] and no shape test with n > 0 accepts it *)
Theorem GpRefinement_inverse_failure n A :
  qinv_ok_of propose n A = false ->
  @minv LO n A = nil /\ (n != 0%N -> forall p, wf_mx n p (@minv LO n A) = false).
Proof. exact: qinv_fail_visible. Qed.

(* with the test the case files make (obligation 0: the inverse is well shaped) *)
Theorem GpRefinement_inverse_wf n A (M : 'M[rat]_n) :
  wf_mx n n (@minv LO n A) = true -> repr A M -> repr (@minv LO n A) (@minv MO n M).
Proof. exact: repr_minv_wf. Qed.

(* ---- composition: the GP posterior (C02) ------------------------------------------ *)
Theorem GpRefinement_posterior n b L y mu Kqx Kqq muq
    (ML : 'M[rat]_n) (My Mmu : 'M[rat]_(n, 1))
    (MKqx : 'M[rat]_(b, n)) (MKqq : 'M[rat]_b) (Mmuq : 'M[rat]_(b, 1)) :
  repr L ML -> repr y My -> repr mu Mmu ->
  repr Kqx MKqx -> repr Kqq MKqq -> repr muq Mmuq ->
  qinv_ok_of propose n L = true -> qinv_ok_of propose n (@mtr LO n n L) = true ->
  let out  := @build_posterior LO n b L (@gp_alpha LO n L y mu) Kqx Kqq muq in
  let out' := @build_posterior MO n b ML (@gp_alpha MO n ML My Mmu) MKqx MKqq Mmuq in
  ML \in unitmx /\ repr out.1 out'.1 /\ repr out.2 out'.2.
Proof. exact: repr_build_posterior. Qed.

(* as Matrix/GpCheck.v evaluates it *)
Theorem GpRefinement_posterior_as_run n b L y mu Kqx Kqq muq
    (ML : 'M[rat]_n) (My Mmu : 'M[rat]_(n, 1))
    (MKqx : 'M[rat]_(b, n)) (MKqq : 'M[rat]_b) (Mmuq : 'M[rat]_(b, 1)) :
  repr L ML -> repr y My -> repr mu Mmu ->
  repr Kqx MKqx -> repr Kqq MKqq -> repr muq Mmuq ->
  let Li  := qinv_of propose n L in
  let LTi := qinv_checked n (qtr n n L) (qtr n n Li) in
  n != 0%N -> wf_mx n n Li = true -> wf_mx n n LTi = true ->
  let alpha := @gp_alpha_s LO n Li LTi y mu in
  [/\ ML \in unitmx,
      repr alpha (@gp_alpha MO n ML My Mmu),
      repr (@post_mean LO n b alpha Kqx muq)
           (@post_mean MO n b (@gp_alpha MO n ML My Mmu) MKqx Mmuq)
    & repr (@post_cov_s LO n b Li Kqx Kqq) (@post_cov MO n b ML MKqx MKqq)].
Proof. exact: repr_posterior_as_run. Qed.

(* the closed forms of the property statement, with the exact (K_xx + S)^-1 *)
Theorem GpRefinement_closed_forms n b K S y mu Kqx Kqq muq
    (MK MS : 'M[rat]_n) (My Mmu : 'M[rat]_(n, 1))
    (MKqx : 'M[rat]_(b, n)) (MKqq : 'M[rat]_b) (Mmuq : 'M[rat]_(b, 1)) :
  repr K MK -> repr S MS -> repr y My -> repr mu Mmu ->
  repr Kqx MKqx -> repr Kqq MKqq -> repr muq Mmuq ->
  qinv_ok_of propose n (@data_cov LO n K S) = true ->
  [/\ @data_cov MO n MK MS \in unitmx,
      repr (@closed_mean LO n b (@data_cov LO n K S) y mu Kqx muq)
           (@closed_mean MO n b (@data_cov MO n MK MS) My Mmu MKqx Mmuq)
    & repr (@closed_cov LO n b (@data_cov LO n K S) Kqx Kqq)
           (@closed_cov MO n b (@data_cov MO n MK MS) MKqx MKqq)].
Proof. exact: repr_closed_forms. Qed.

(* ---- a second composition: calculate_posterior of Inversion.v (C17) --------------- *)
Theorem GpRefinement_calculate_posterior m n A y_err y K pm
    (MA : 'M[rat]_(m, n)) (Me My : 'M[rat]_(m, 1)) (MK : 'M[rat]_n) (Mpm : 'M[rat]_(n, 1)) :
  repr A MA -> repr y_err Me -> repr y My -> repr K MK -> repr pm Mpm ->
  m != 0%N ->
  qinv_ok_of propose n (@lin_system LO n K (@lin_W LO m n A (@lin_inv_sigma LO m y_err))) = true ->
  let out  := @calculate_posterior LO m n A y_err y K pm in
  let out' := @calculate_posterior MO m n MA Me My MK Mpm in
  repr out.1 out'.1 /\ repr out.2 out'.2.
Proof. exact: repr_calculate_posterior. Qed.

End Generic.

(* an inverse obtained some other way and verified by one multiplication
   (the case files use it for (L^T)^-1); independent of the proposing function *)
Theorem GpRefinement_inverse_checked n B X (M : 'M[rat]_n) :
  (shape_ok n n B && shape_ok n n X && qmat_eqb (qmul B X) (qid n) && negb (Nat.eqb n 0)) = true ->
  repr B M ->
  M \in unitmx /\ repr (qinv_checked n B X) (invmx M).
Proof. exact: repr_qinv_checked. Qed.

Print Assumptions GpRefinement_ops_mmul.
Print Assumptions GpRefinement_ops_madd.
Print Assumptions GpRefinement_ops_mopp.
Print Assumptions GpRefinement_ops_mtr.
Print Assumptions GpRefinement_ops_mid.
Print Assumptions GpRefinement_ops_mconst.
Print Assumptions GpRefinement_ops_mscal.
Print Assumptions GpRefinement_ops_mhad.
Print Assumptions GpRefinement_ops_mrecip.
Print Assumptions GpRefinement_ops_mabs.
Print Assumptions GpRefinement_ops_mdiagv.
Print Assumptions GpRefinement_ops_mdiagof.
Print Assumptions GpRefinement_ops_msub.
Print Assumptions GpRefinement_ops_msum.
Print Assumptions GpRefinement_ops_mtrace.
Print Assumptions GpRefinement_ops_mhadsum.
Print Assumptions GpRefinement_inverse.
Print Assumptions GpRefinement_inverse_failure.
Print Assumptions GpRefinement_inverse_wf.
Print Assumptions GpRefinement_inverse_checked.
Print Assumptions GpRefinement_posterior.
Print Assumptions GpRefinement_posterior_as_run.
Print Assumptions GpRefinement_closed_forms.
Print Assumptions GpRefinement_calculate_posterior.

(* ---- the same at the constant ListOps (propose := bareiss_big) -------------------- *)
Theorem GpRefinement_ListOps_mmul m n p A B (MA : 'M[rat]_(m, n)) (MB : 'M[rat]_(n, p)) :
  (n != 0%N) || (p == 0%N) ->
  repr A MA -> repr B MB -> repr (@mmul ListOps m n p A B) (@mmul MO m n p MA MB).
Proof. exact: ListOps_mmul. Qed.
Print Assumptions GpRefinement_ListOps_mmul.

Theorem GpRefinement_ListOps_inverse n A (M : 'M[rat]_n) :
  qinv_ok n A = true -> repr A M ->
  M \in unitmx /\ repr (@minv ListOps n A) (@minv MO n M).
Proof. exact: ListOps_minv. Qed.
Print Assumptions GpRefinement_ListOps_inverse.

Theorem GpRefinement_ListOps_inverse_failure n A :
  qinv_ok n A = false -> @minv ListOps n A = nil.
Proof. exact: ListOps_minv_fail. Qed.
Print Assumptions GpRefinement_ListOps_inverse_failure.

Theorem GpRefinement_ListOps_posterior n b L y mu Kqx Kqq muq
    (ML : 'M[rat]_n) (My Mmu : 'M[rat]_(n, 1))
    (MKqx : 'M[rat]_(b, n)) (MKqq : 'M[rat]_b) (Mmuq : 'M[rat]_(b, 1)) :
  repr L ML -> repr y My -> repr mu Mmu ->
  repr Kqx MKqx -> repr Kqq MKqq -> repr muq Mmuq ->
  qinv_ok n L = true -> qinv_ok n (@mtr ListOps n n L) = true ->
  let out  := @build_posterior ListOps n b L (@gp_alpha ListOps n L y mu) Kqx Kqq muq in
  let out' := @build_posterior MO n b ML (@gp_alpha MO n ML My Mmu) MKqx MKqq Mmuq in
  ML \in unitmx /\ repr out.1 out'.1 /\ repr out.2 out'.2.
Proof. exact: ListOps_build_posterior. Qed.
Print Assumptions GpRefinement_ListOps_posterior.

Theorem GpRefinement_ListOps_posterior_as_run n b L y mu Kqx Kqq muq
    (ML : 'M[rat]_n) (My Mmu : 'M[rat]_(n, 1))
    (MKqx : 'M[rat]_(b, n)) (MKqq : 'M[rat]_b) (Mmuq : 'M[rat]_(b, 1)) :
  repr L ML -> repr y My -> repr mu Mmu ->
  repr Kqx MKqx -> repr Kqq MKqq -> repr muq Mmuq ->
  let Li  := qinv n L in
  let LTi := qinv_checked n (qtr n n L) (qtr n n Li) in
  n != 0%N -> wf_mx n n Li = true -> wf_mx n n LTi = true ->
  let alpha := @gp_alpha_s ListOps n Li LTi y mu in
  [/\ ML \in unitmx,
      repr alpha (@gp_alpha MO n ML My Mmu),
      repr (@post_mean ListOps n b alpha Kqx muq)
           (@post_mean MO n b (@gp_alpha MO n ML My Mmu) MKqx Mmuq)
    & repr (@post_cov_s ListOps n b Li Kqx Kqq) (@post_cov MO n b ML MKqx MKqq)].
Proof. exact: ListOps_posterior_as_run. Qed.
Print Assumptions GpRefinement_ListOps_posterior_as_run.
