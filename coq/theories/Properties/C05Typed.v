(* C05, constructor stage -- the likelihood objects are the named densities for
   data / uncertainties of ANY dtype (integer or float arrays, Python ints, ...).
   Property theorems only; every proof is `exact <lemma>`.

   The model (RealModel/LikelihoodsTyped.v) has the two stages of the code: the
   constructor pre-computes inv_sigma / inv_sigma_sqr / inv_gamma / inv_scale /
   normalisation from the arrays as they were given (`scalar` = an element of an
   integer-dtype or of a float-dtype array, `sval` its real value); __call__ and
   gradient read that state only.  `true_recip` is numpy's `1.0 / a` (a float for
   every dtype); `samedtype_recip` is a reciprocal that keeps the dtype of its
   argument (numpy.reciprocal, integer division for integer arrays).

   ys = data, ss = the given uncertainties, fs = predictions, F = predictions as
   functions of the one parameter that is varied, J = Jacobian as list of rows. *)
From Coq Require Import Reals List ZArith Lra Lia.
From Coquelicot Require Import Coquelicot.
From IT Require Import RealModel.Likelihoods RealModel.LikelihoodsTyped
                       Proofs.LikelihoodsProofs Proofs.LikelihoodsTypedProofs.
Import ListNotations.
Open Scope R_scope.

(* ---- value = sum over data points of ln pdf_named(value of y_i; f_i, value of sigma_i) ---- *)
Theorem C05_typed_gauss_is_sum_logpdf : forall ys ss fs,
  length ys = length ss -> length ss = length fs -> List.Forall (fun s => 0 < sval s) ss ->
  gauss_call (gauss_init ys ss) fs = sum_logpdf gauss_pdf (map sval ys) (map sval ss) fs.
Proof. exact typed_gauss_is_sum_logpdf. Qed.

Theorem C05_typed_cauchy_is_sum_logpdf : forall ys gs fs,
  length ys = length gs -> length gs = length fs -> List.Forall (fun g => 0 < sval g) gs ->
  cauchy_call (cauchy_init ys gs) fs = sum_logpdf cauchy_pdf (map sval ys) (map sval gs) fs.
Proof. exact typed_cauchy_is_sum_logpdf. Qed.

Theorem C05_typed_logistic_is_sum_logpdf : forall ys ss fs,
  length ys = length ss -> length ss = length fs -> List.Forall (fun s => 0 < sval s) ss ->
  logistic_call (logistic_init ys ss) fs =
  sum_logpdf (fun mu s y => logistic_pdf mu (s * (sqrt 3 / PI)) y) (map sval ys) (map sval ss) fs.
Proof. exact typed_logistic_is_sum_logpdf. Qed.

(* ---- gradient (read from the pre-computed state) = derivative of the value ---- *)
Theorem C05_typed_gauss_gradient_is_derivative : forall ys ss (F : list (R -> R)) J j t,
  length ys = length ss -> length ss = length F -> length F = length J ->
  List.Forall (fun s => 0 < sval s) ss ->
  (forall i, (i < length F)%nat -> is_derive (nth i F (fun _ => 0)) t (nth j (nth i J []) 0)) ->
  is_derive (fun u => gauss_call (gauss_init ys ss) (map (fun f => f u) F)) t
            (gauss_grad (gauss_init ys ss) (map (fun f => f t) F) J j).
Proof. exact typed_gauss_gradient_is_derivative. Qed.

Theorem C05_typed_cauchy_gradient_is_derivative : forall ys gs (F : list (R -> R)) J j t,
  length ys = length gs -> length gs = length F -> length F = length J ->
  List.Forall (fun g => 0 < sval g) gs ->
  (forall i, (i < length F)%nat -> is_derive (nth i F (fun _ => 0)) t (nth j (nth i J []) 0)) ->
  is_derive (fun u => cauchy_call (cauchy_init ys gs) (map (fun f => f u) F)) t
            (cauchy_grad (cauchy_init ys gs) (map (fun f => f t) F) J j).
Proof. exact typed_cauchy_gradient_is_derivative. Qed.

Theorem C05_typed_logistic_gradient_is_derivative : forall ys ss (F : list (R -> R)) J j t,
  length ys = length ss -> length ss = length F -> length F = length J ->
  List.Forall (fun s => 0 < sval s) ss ->
  (forall i, (i < length F)%nat -> is_derive (nth i F (fun _ => 0)) t (nth j (nth i J []) 0)) ->
  is_derive (fun u => logistic_call (logistic_init ys ss) (map (fun f => f u) F)) t
            (logistic_grad (logistic_init ys ss) (map (fun f => f t) F) J j).
Proof. exact typed_logistic_gradient_is_derivative. Qed.

(* ---- the same numbers typed as ints or as floats give the same object ---- *)
Theorem C05_typed_representation_independent : forall ys ys' ss ss' fs J j,
  map sval ys = map sval ys' -> map sval ss = map sval ss' ->
  (gauss_call (gauss_init ys ss) fs = gauss_call (gauss_init ys' ss') fs /\
   gauss_grad (gauss_init ys ss) fs J j = gauss_grad (gauss_init ys' ss') fs J j) /\
  (cauchy_call (cauchy_init ys ss) fs = cauchy_call (cauchy_init ys' ss') fs /\
   cauchy_grad (cauchy_init ys ss) fs J j = cauchy_grad (cauchy_init ys' ss') fs J j) /\
  (logistic_call (logistic_init ys ss) fs = logistic_call (logistic_init ys' ss') fs /\
   logistic_grad (logistic_init ys ss) fs J j = logistic_grad (logistic_init ys' ss') fs J j).
Proof. exact typed_representation_independent. Qed.

(* ---- why the reciprocal must be the true division: with a reciprocal that keeps
        the dtype, integer uncertainties >= 2 get inverse scale 0 and the object is
        no longer the named density (Gaussian and Cauchy; the logistic scale is a
        float for every dtype) ---- *)
Theorem C05_samedtype_reciprocal_of_int_is_zero : forall k, (2 <= k)%Z -> samedtype_recip (SInt k) = 0.
Proof. exact samedtype_recip_int. Qed.

Theorem C05_samedtype_reciprocal_gauss_refuted :
  exists ys ss fs, length ys = length ss /\ length ss = length fs /\
    List.Forall (fun s => 0 < sval s) ss /\
    gauss_call (gauss_init_with samedtype_recip ys ss) fs
      <> sum_logpdf gauss_pdf (map sval ys) (map sval ss) fs.
Proof. exact samedtype_gauss_refuted. Qed.

Theorem C05_samedtype_reciprocal_cauchy_refuted :
  exists ys gs fs, length ys = length gs /\ length gs = length fs /\
    List.Forall (fun g => 0 < sval g) gs /\
    cauchy_call (cauchy_init_with samedtype_recip ys gs) fs
      <> sum_logpdf cauchy_pdf (map sval ys) (map sval gs) fs.
Proof. exact samedtype_cauchy_refuted. Qed.

(* non-vacuity: data (1, 2) typed as ints, uncertainties (1, 2) typed as ints,
   forward model (3t, t^2) at t = 1 -- same numbers as C05_example *)
Example C05_typed_example :
  let ys := [SInt 1; SInt 2] in let ss := [SInt 1; SInt 2] in
  let F := [fun t => 3 * t; fun t => t * t] in let J := [[3]; [2]] in
  is_derive (fun u => gauss_call (gauss_init ys ss) (map (fun f => f u) F)) 1
            (gauss_grad (gauss_init ys ss) (map (fun f => f 1) F) J 0)
  /\ gauss_grad (gauss_init ys ss) (map (fun f => f 1) F) J 0 = - 11 / 2.
Proof.
  cbv zeta. split.
  - apply typed_gauss_gradient_is_derivative; try reflexivity.
    + repeat constructor; simpl; lra.
    + intros [|[|i]] Hi; simpl in *.
      * auto_derive; [exact I|ring].
      * auto_derive; [exact I|ring].
      * exfalso. lia.
  - unfold gauss_grad, gauss_init, gauss_init_with, true_recip, vecmat. simpl. field.
Qed.

Print Assumptions C05_typed_gauss_is_sum_logpdf.
Print Assumptions C05_typed_cauchy_is_sum_logpdf.
Print Assumptions C05_typed_logistic_is_sum_logpdf.
Print Assumptions C05_typed_gauss_gradient_is_derivative.
Print Assumptions C05_typed_cauchy_gradient_is_derivative.
Print Assumptions C05_typed_logistic_gradient_is_derivative.
Print Assumptions C05_typed_representation_independent.
Print Assumptions C05_samedtype_reciprocal_of_int_is_zero.
Print Assumptions C05_samedtype_reciprocal_gauss_refuted.
Print Assumptions C05_samedtype_reciprocal_cauchy_refuted.
