(* C19 -- density-estimator intervals, moments and normalisation are self-consistent
   and covariant under shift / scale.   PARTIAL.
   Property theorems only; every proof is `exact <lemma>`.

   Proved (for every table / sample / parameter vector):
     * the repaired table-based moments are covariant under x -> a x + b
       (mean shifts and scales, k-th central integral scales by a^k, kurtosis and
       squared skewness unchanged); the pinned mean is covariant under a shift
       iff  b (mass - 1) = 0  (D19a), refuted on a witness table;
     * the one-pass sample-moment formulas equal the centred ones over Q, so the
       float degradation of the pinned sample_moments at large offsets is pure
       cancellation (D19b);
     * the unimodal family is closed under affine maps of the data
       (density / a with the transformed parameters; normaliser scales by a);
     * the interval cost is >= 0 and vanishes exactly when the mass is f and the
       end densities are equal; a cost <= e^2 puts the mass within e of f; a search
       restricted to a region whose intervals hold at most M < f (inside the sample
       range, or no wider than it) misses the fraction by >= f - M; the executable
       judgement of a returned interval used by the check is sound.
   NOT proved (most of the property): accuracy of the Gauss-Chebyshev normaliser,
   of scipy quad (cdf) and of Simpson's rule on the moment grid; convergence of
   Nelder-Mead (fit, interval) and of minimize_scalar (mode); hence "integrates
   to one", "cdf = integral of pdf", "interval holds mass f", "mode is maximal"
   are decided only by the seeded metamorphic runs [R] of the check. *)
From Coq Require Import Reals List QArith Qreals Lra.
From IT Require Import Model.Moments Proofs.MomentsProofs RealModel.Unimodal Proofs.UnimodalProofs.
Import ListNotations.

Theorem C19_moments_shift_scale : forall (a b : Q) (l : list pt),
  ~ a == 0 -> ~ mass l == 0 ->
  let m := moments l in
  let m' := moments (transform a b l) in
  m_mu m' == a * m_mu m + b /\ m_var m' == pw a 2 * m_var m /\
  m_3 m' == pw a 3 * m_3 m /\ m_4 m' == pw a 4 * m_4 m.
Proof. exact moments_shift_scale. Qed.

Theorem C19_kurtosis_invariant : forall (a b : Q) (l : list pt),
  ~ a == 0 -> ~ mass l == 0 -> ~ m_var (moments l) == 0 ->
  kurtosis (moments (transform a b l)) == kurtosis (moments l).
Proof. exact kurtosis_invariant. Qed.

Theorem C19_skewness_sq_invariant : forall (a b : Q) (l : list pt),
  ~ a == 0 -> ~ mass l == 0 -> ~ m_var (moments l) == 0 ->
  let m := moments l in let m' := moments (transform a b l) in
  (m_3 m' * m_3 m') / (m_var m' * m_var m' * m_var m') == (m_3 m * m_3 m) / (m_var m * m_var m * m_var m).
Proof. exact skewness_sq_invariant. Qed.

(* D19a: mean = sum w p x moves by b * (sum w p) *)
Theorem C19_pinned_mean_shift : forall (b : Q) (l : list pt),
  m_mu (moments_pinned (transform 1 b l)) == m_mu (moments_pinned l) + b * mass l.
Proof. exact pinned_mean_shift. Qed.

Theorem C19_pinned_mean_shift_iff : forall (b : Q) (l : list pt),
  m_mu (moments_pinned (transform 1 b l)) == m_mu (moments_pinned l) + b <-> b * (mass l - 1) == 0.
Proof. exact pinned_mean_shift_iff. Qed.

Theorem C19_kde_mean_shift_refuted :
  exists (l : list pt) (b : Q),
    ~ m_mu (moments_pinned (transform 1 b l)) == m_mu (moments_pinned l) + b.
Proof. exact kde_mean_shift_refuted. Qed.

(* D19b *)
Theorem C19_central_moment_identity : forall l : list Q, l <> [] ->
  let '(mu, s2, m3) := sample_moments_pinned l in
  let '(mu', s2', m3') := sample_moments l in
  mu == mu' /\ s2 == s2' /\ m3 == m3'.
Proof. exact central_moment_identity. Qed.

Theorem C19_family_affine : forall (a b x : R) (th : theta), (a <> 0)%R -> (t_s0 th <> 0)%R ->
  evaluate_model (a * x + b) (affine_theta a b th) = (evaluate_model x th / a)%R.
Proof. exact family_affine. Qed.

Theorem C19_family_affine_log : forall (a b x : R) (th : theta), (a <> 0)%R -> (t_s0 th <> 0)%R ->
  log_pdf_model (a * x + b) (affine_theta a b th) = log_pdf_model x th.
Proof. exact log_pdf_affine. Qed.

Theorem C19_family_norm_affine : forall (a b : R) (th : theta),
  norm_model (affine_theta a b th) = (a * norm_model th)%R.
Proof. exact norm_affine. Qed.

Theorem C19_hdi_cost_zero_iff : forall w Pa Pb Fa Fb f : R, (w <> 0)%R ->
  (hdi_cost w Pa Pb Fa Fb f = 0%R <-> Pa = Pb /\ (Fb - Fa)%R = f).
Proof. exact hdi_cost_zero_iff. Qed.

Theorem C19_hdi_cost_nonneg : forall w Pa Pb Fa Fb f : R, (0 <= hdi_cost w Pa Pb Fa Fb f)%R.
Proof. exact hdi_cost_nonneg. Qed.

Theorem C19_hdi_cost_q_correct : forall w Pa Pb Fa Fb f : Q,
  Q2R (hdi_cost_q w Pa Pb Fa Fb f) = hdi_cost (Q2R w) (Q2R Pa) (Q2R Pb) (Q2R Fa) (Q2R Fb) (Q2R f).
Proof. exact hdi_cost_q_correct. Qed.

(* ---- the interval search (base.py interval): what the value of the cost guarantees and
   what a restricted search can reach.  The optimiser itself is not modelled; these bound
   the returned interval from the values the real code exposes. ---- *)
Theorem C19_hdi_cost_small_bounds : forall w Pa Pb Fa Fb f e : R, (0 <= e)%R ->
  (hdi_cost w Pa Pb Fa Fb f <= e * e)%R ->
  (Rabs (Fb - Fa - f) <= e)%R /\ (Rabs (w * (Pa - Pb)) <= e)%R.
Proof. exact hdi_cost_small_bounds. Qed.

(* a search confined to intervals inside [lo, hi] holds at most F hi - F lo *)
Theorem C19_confined_interval_mass : forall (F : R -> R) (lo hi c w : R), nondecreasing F ->
  (lo <= c - w / 2)%R -> (c + w / 2 <= hi)%R -> (interval_mass F c w <= F hi - F lo)%R.
Proof. exact confined_interval_mass. Qed.

(* a search whose width is bounded by R (e.g. by the range of the sample) cannot return an
   interval with the property for any fraction above the best window of width R: every
   admissible candidate has cost >= (f - M)^2 and misses the fraction by >= f - M *)
Theorem C19_width_limited_search_misses : forall (P F : R -> R) (wt f R0 M : R), nondecreasing F ->
  (forall x, F (x + R0) - F x <= M)%R -> (M < f)%R ->
  forall c w, (w <= R0)%R ->
    ((f - M) * (f - M) <= interval_cost P F wt f c w)%R /\ (f - M <= f - interval_mass F c w)%R.
Proof. exact width_limited_search_misses. Qed.

Theorem C19_restricted_search_misses : forall (region : R -> R -> Prop) (P F : R -> R) (wt f M : R),
  (forall c w, region c w -> (interval_mass F c w <= M)%R) -> (M < f)%R ->
  forall c w, region c w ->
    ((f - M) * (f - M) <= interval_cost P F wt f c w)%R /\ (0 < (f - M) * (f - M))%R /\
    (f - M <= f - interval_mass F c w)%R.
Proof. exact restricted_search_misses. Qed.

(* the executable judgement of a returned interval (evaluated on the values observed on the
   real estimator, every run) is sound, and complete for the enclosed probability *)
Theorem C19_check_interval_sound : forall (wt Pa Pb Fa Fb f cost : Q) (probes : list Q) (tt tl te rt ab : Q),
  check_interval wt Pa Pb Fa Fb f cost probes tt tl te rt ab = 0%nat ->
  (Rabs (Q2R Fb - Q2R Fa - Q2R f) <= Q2R tl)%R /\
  (Rabs (Q2R wt * (Q2R Pa - Q2R Pb)) <= Q2R te)%R /\
  (hdi_cost (Q2R wt) (Q2R Pa) (Q2R Pb) (Q2R Fa) (Q2R Fb) (Q2R f) <= Q2R tl * Q2R tl + Q2R te * Q2R te)%R.
Proof. exact check_interval_sound. Qed.

Theorem C19_check_interval_complete_mass : forall (wt Pa Pb Fa Fb f cost : Q) (probes : list Q) (tt tl te rt ab : Q),
  (Q2R tl < Rabs (Q2R Fb - Q2R Fa - Q2R f))%R ->
  check_interval wt Pa Pb Fa Fb f cost probes tt tl te rt ab <> 0%nat.
Proof. exact check_interval_complete_mass. Qed.

(* non-vacuity of the restricted-search theorem: the uniform cumulative function on [0, 1],
   widths limited to 1/2, fraction 3/4: every admissible interval misses by >= 1/4; and of
   the judgement: an interval holding 0.9944 for f = 0.9995 whose neighbour has a quarter of
   its cost is rejected (bit 1), but not when no neighbour is better than half its cost
   (inside tol_loose); the same ends with mass f are accepted *)
Example C19_restricted_example :
  let F := fun x : R => Rmax 0 (Rmin 1 x) in
  nondecreasing F /\ (forall x, F (x + 1 / 2) - F x <= 1 / 2)%R /\ (1 / 2 < 3 / 4)%R.
Proof.
  cbv zeta. split; [|split].
  - intros x y H. unfold Rmax, Rmin. repeat destruct (Rle_dec _ _); lra.
  - intros x. unfold Rmax, Rmin. repeat destruct (Rle_dec _ _); lra.
  - lra.
Qed.

Example C19_check_interval_example :
  check_interval (1 # 2) (1 # 100) (1 # 100) (28 # 10000) (9972 # 10000) (9995 # 10000)
                 (2601 # 100000000) [7 # 1000000] (1 # 1000) (1 # 100) (1 # 100) (1 # 1000000) 0 = 2%nat /\
  check_interval (1 # 2) (1 # 100) (1 # 100) (28 # 10000) (9972 # 10000) (9995 # 10000)
                 (2601 # 100000000) [25 # 1000000] (1 # 1000) (1 # 100) (1 # 100) (1 # 1000000) 0 = 0%nat /\
  check_interval (1 # 2) (1 # 100) (1 # 100) (2 # 10000) (9997 # 10000) (9995 # 10000)
                 0 [] (1 # 1000) (1 # 100) (1 # 100) (1 # 1000000) 0 = 0%nat.
Proof. repeat split; vm_compute; reflexivity. Qed.

(* non-vacuity: a table with non-unit mass and non-zero variance; the premises of
   the covariance theorems hold; an even number of points exercises the
   last-interval correction *)
Example C19_example :
  let l := [(0, 1 # 4); (1, 1 # 2); (3, 1 # 4); (4, 1 # 8); (6, 0); (7, 0)]%Q in
  ~ mass l == 0 /\ ~ mass l == 1 /\ ~ m_var (moments l) == 0 /\
  mass (normalise l) == 1 /\
  m_mu (moments (transform 2 1000000 l)) == 2 * m_mu (moments l) + 1000000.
Proof.
  cbv zeta. repeat split; try (vm_compute; discriminate); vm_compute; reflexivity.
Qed.

Print Assumptions C19_moments_shift_scale.
Print Assumptions C19_kurtosis_invariant.
Print Assumptions C19_skewness_sq_invariant.
Print Assumptions C19_pinned_mean_shift.
Print Assumptions C19_pinned_mean_shift_iff.
Print Assumptions C19_kde_mean_shift_refuted.
Print Assumptions C19_central_moment_identity.
Print Assumptions C19_family_affine.
Print Assumptions C19_family_affine_log.
Print Assumptions C19_family_norm_affine.
Print Assumptions C19_hdi_cost_zero_iff.
Print Assumptions C19_hdi_cost_nonneg.
Print Assumptions C19_hdi_cost_q_correct.
Print Assumptions C19_hdi_cost_small_bounds.
Print Assumptions C19_confined_interval_mass.
Print Assumptions C19_width_limited_search_misses.
Print Assumptions C19_restricted_search_misses.
Print Assumptions C19_check_interval_sound.
Print Assumptions C19_check_interval_complete_mass.
