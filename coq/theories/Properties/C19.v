(* C19 -- density-estimator intervals, moments and normalisation are self-consistent
   and covariant under shift / scale.   PARTIAL.
   Property theorems only; every proof is `exact <lemma>`.

   Proved (for every table / sample / parameter vector):
     * the repaired table-based moments are covariant under x -> a x + b
       (mean shifts and scales, k-th central integral scales by a^k, kurtosis and
       squared skewness unchanged); the pinned mean is covariant under a shift
       iff  b (mass - 1) = 0  (D19a), refuted on a witness table;
     * the one-pass sample-moment formulas equal the centred ones over Q, so the
       float degradation of the pinned sample_moments at large offsets is pure
       cancellation (D19b);
     * the unimodal family is closed under affine maps of the data
       (density / a with the transformed parameters; normaliser scales by a);
     * the interval cost is >= 0 and vanishes exactly when the mass is f and the
       end densities are equal.
   NOT proved (most of the property): accuracy of the Gauss-Chebyshev normaliser,
   of scipy quad (cdf) and of Simpson's rule on the moment grid; convergence of
   Nelder-Mead (fit, interval) and of minimize_scalar (mode); hence "integrates
   to one", "cdf = integral of pdf", "interval holds mass f", "mode is maximal"
   are decided only by the seeded metamorphic runs [R] of the check. *)
From Coq Require Import Reals List QArith Qreals.
From IT Require Import Model.Moments Proofs.MomentsProofs RealModel.Unimodal Proofs.UnimodalProofs.
Import ListNotations.

Theorem C19_moments_shift_scale : forall (a b : Q) (l : list pt),
  ~ a == 0 -> ~ mass l == 0 ->
  let m := moments l in
  let m' := moments (transform a b l) in
  m_mu m' == a * m_mu m + b /\ m_var m' == pw a 2 * m_var m /\
  m_3 m' == pw a 3 * m_3 m /\ m_4 m' == pw a 4 * m_4 m.
Proof. exact moments_shift_scale. Qed.

Theorem C19_kurtosis_invariant : forall (a b : Q) (l : list pt),
  ~ a == 0 -> ~ mass l == 0 -> ~ m_var (moments l) == 0 ->
  kurtosis (moments (transform a b l)) == kurtosis (moments l).
Proof. exact kurtosis_invariant. Qed.

Theorem C19_skewness_sq_invariant : forall (a b : Q) (l : list pt),
  ~ a == 0 -> ~ mass l == 0 -> ~ m_var (moments l) == 0 ->
  let m := moments l in let m' := moments (transform a b l) in
  (m_3 m' * m_3 m') / (m_var m' * m_var m' * m_var m') == (m_3 m * m_3 m) / (m_var m * m_var m * m_var m).
Proof. exact skewness_sq_invariant. Qed.

(* D19a: mean = sum w p x moves by b * (sum w p) *)
Theorem C19_pinned_mean_shift : forall (b : Q) (l : list pt),
  m_mu (moments_pinned (transform 1 b l)) == m_mu (moments_pinned l) + b * mass l.
Proof. exact pinned_mean_shift. Qed.

Theorem C19_pinned_mean_shift_iff : forall (b : Q) (l : list pt),
  m_mu (moments_pinned (transform 1 b l)) == m_mu (moments_pinned l) + b <-> b * (mass l - 1) == 0.
Proof. exact pinned_mean_shift_iff. Qed.

Theorem C19_kde_mean_shift_refuted :
  exists (l : list pt) (b : Q),
    ~ m_mu (moments_pinned (transform 1 b l)) == m_mu (moments_pinned l) + b.
Proof. exact kde_mean_shift_refuted. Qed.

(* D19b *)
Theorem C19_central_moment_identity : forall l : list Q, l <> [] ->
  let '(mu, s2, m3) := sample_moments_pinned l in
  let '(mu', s2', m3') := sample_moments l in
  mu == mu' /\ s2 == s2' /\ m3 == m3'.
Proof. exact central_moment_identity. Qed.

Theorem C19_family_affine : forall (a b x : R) (th : theta), (a <> 0)%R -> (t_s0 th <> 0)%R ->
  evaluate_model (a * x + b) (affine_theta a b th) = (evaluate_model x th / a)%R.
Proof. exact family_affine. Qed.

Theorem C19_family_affine_log : forall (a b x : R) (th : theta), (a <> 0)%R -> (t_s0 th <> 0)%R ->
  log_pdf_model (a * x + b) (affine_theta a b th) = log_pdf_model x th.
Proof. exact log_pdf_affine. Qed.

Theorem C19_family_norm_affine : forall (a b : R) (th : theta),
  norm_model (affine_theta a b th) = (a * norm_model th)%R.
Proof. exact norm_affine. Qed.

Theorem C19_hdi_cost_zero_iff : forall w Pa Pb Fa Fb f : R, (w <> 0)%R ->
  (hdi_cost w Pa Pb Fa Fb f = 0%R <-> Pa = Pb /\ (Fb - Fa)%R = f).
Proof. exact hdi_cost_zero_iff. Qed.

Theorem C19_hdi_cost_nonneg : forall w Pa Pb Fa Fb f : R, (0 <= hdi_cost w Pa Pb Fa Fb f)%R.
Proof. exact hdi_cost_nonneg. Qed.

Theorem C19_hdi_cost_q_correct : forall w Pa Pb Fa Fb f : Q,
  Q2R (hdi_cost_q w Pa Pb Fa Fb f) = hdi_cost (Q2R w) (Q2R Pa) (Q2R Pb) (Q2R Fa) (Q2R Fb) (Q2R f).
Proof. exact hdi_cost_q_correct. Qed.

(* non-vacuity: a table with non-unit mass and non-zero variance; the premises of
   the covariance theorems hold; an even number of points exercises the
   last-interval correction *)
Example C19_example :
  let l := [(0, 1 # 4); (1, 1 # 2); (3, 1 # 4); (4, 1 # 8); (6, 0); (7, 0)]%Q in
  ~ mass l == 0 /\ ~ mass l == 1 /\ ~ m_var (moments l) == 0 /\
  mass (normalise l) == 1 /\
  m_mu (moments (transform 2 1000000 l)) == 2 * m_mu (moments l) + 1000000.
Proof.
  cbv zeta. repeat split; try (vm_compute; discriminate); vm_compute; reflexivity.
Qed.

Print Assumptions C19_moments_shift_scale.
Print Assumptions C19_kurtosis_invariant.
Print Assumptions C19_skewness_sq_invariant.
Print Assumptions C19_pinned_mean_shift.
Print Assumptions C19_pinned_mean_shift_iff.
Print Assumptions C19_kde_mean_shift_refuted.
Print Assumptions C19_central_moment_identity.
Print Assumptions C19_family_affine.
Print Assumptions C19_family_affine_log.
Print Assumptions C19_family_norm_affine.
Print Assumptions C19_hdi_cost_zero_iff.
Print Assumptions C19_hdi_cost_nonneg.
Print Assumptions C19_hdi_cost_q_correct.
