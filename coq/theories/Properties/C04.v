(* C04 -- parameter limits are never violated.
   Property theorems only; every proof is `exact <lemma>`.  All statements are
   over Q: every finite double is a rational, so "for all rationals" covers
   every representable bound, width, proposal and overshoot.

   reflect lo w theta        = Bounds.reflect           (utilities.py:150-153)
   reflect_momenta lo w th   = Bounds.reflect_momenta   (utilities.py:155-159)
   gibbs_fold lo hi w x      = the fold in boundary_proposal     (gibbs.py:117-122)
   abs_fold x                = the fold in abs_proposal          (gibbs.py:104)
   step / propose / run      = the selector of gibbs.py's per-parameter object
                               after fixes/D06-parameter-proposal-selection.patch
   step_pinned / ...         = the same on the pinned tree (defect D6)           *)
From Coq Require Import QArith Qround Qabs ZArith List Bool.
From IT Require Import Model.Reflect Model.ProposalFSM
                       Proofs.ReflectProofs Proofs.ProposalFSMProofs.
Import ListNotations.
Open Scope Q_scope.

(* the folded point lies in the closed interval, however far theta overshoots *)
Theorem C04_reflect_range : forall lo w theta, 0 < w ->
  lo <= reflect lo w theta /\ reflect lo w theta <= lo + w.
Proof. exact reflect_range. Qed.

(* identity on the closed interval, both end points included *)
Theorem C04_reflect_id : forall lo w theta, 0 < w ->
  lo <= theta -> theta <= lo + w -> reflect lo w theta == theta.
Proof. exact reflect_id. Qed.

(* symmetric fold about the lower wall, about the upper wall, period 2w *)
Theorem C04_reflect_fold_lower : forall lo w t, 0 < w ->
  reflect lo w (lo - t) == reflect lo w (lo + t).
Proof. exact reflect_fold_lower. Qed.

Theorem C04_reflect_fold_upper : forall lo w t, 0 < w ->
  reflect lo w (lo + w + t) == reflect lo w (lo + w - t).
Proof. exact reflect_fold_upper. Qed.

Theorem C04_reflect_period : forall lo w theta m, 0 < w ->
  reflect lo w (theta + inject_Z (2 * m) * w) == reflect lo w theta.
Proof. exact reflect_period_gen. Qed.

(* reflect_momenta returns the same position as reflect ... *)
Theorem C04_momenta_position : forall lo w theta,
  fst (reflect_momenta lo w theta) = reflect lo w theta.
Proof. exact reflect_momenta_fst. Qed.

(* ... and the momentum factor (-1)^q, q the floor quotient ... *)
Theorem C04_momentum_parity : forall lo w theta,
  snd (reflect_momenta lo w theta) == sign_pow (crossings lo w theta).
Proof. exact momentum_parity. Qed.

(* ... where q is the index of the cell [lo + q w, lo + (q+1) w) holding theta,
   i.e. |q| walls lie between theta and the allowed interval, and no other
   integer has that property ... *)
Theorem C04_crossings_cell : forall lo w theta, 0 < w ->
  lo + inject_Z (crossings lo w theta) * w <= theta /\
  theta < lo + (inject_Z (crossings lo w theta) + 1) * w.
Proof. exact crossings_cell. Qed.

Theorem C04_crossings_unique : forall lo w theta k, 0 < w ->
  lo + inject_Z k * w <= theta -> theta < lo + (inject_Z k + 1) * w ->
  crossings lo w theta = k.
Proof. exact crossings_unique. Qed.

(* ... and the factor is the slope of the fold on that cell (so multiplying the
   momentum by it is the velocity of the folded trajectory) *)
Theorem C04_momentum_slope : forall lo w theta theta',
  crossings lo w theta' = crossings lo w theta ->
  reflect lo w theta' - reflect lo w theta ==
  snd (reflect_momenta lo w theta) * (theta' - theta).
Proof. exact momentum_slope. Qed.

(* moving on from the folded point with the folded momentum is the same as
   folding the point moved with the original momentum ... *)
Theorem C04_reflect_unfold : forall lo w x d, 0 < w ->
  reflect lo w (reflect lo w x + snd (reflect_momenta lo w x) * d) ==
  reflect lo w (x + d).
Proof. exact reflect_unfold. Qed.

(* ... hence a bounded leapfrog trajectory without force is, after any number of
   steps, the fold of the free trajectory; it stays inside and the momentum is
   the initial one up to sign (free_bounded_leapfrog = bounded_leapfrog of
   hmc/__init__.py:178-194 for one coordinate, zero gradient, scalar or
   per-parameter inverse mass im) *)
Theorem C04_free_leapfrog_unfold : forall lo w eps im n t0 r0, 0 < w ->
  lo <= t0 -> t0 <= lo + w ->
  fst (free_bounded_leapfrog lo w eps im n (t0, r0)) ==
    reflect lo w (t0 + inject_Z (Z.of_nat n) * (eps * (r0 * im))) /\
  lo <= fst (free_bounded_leapfrog lo w eps im n (t0, r0)) /\
  fst (free_bounded_leapfrog lo w eps im n (t0, r0)) <= lo + w /\
  exists s, (s == 1 \/ s == -1) /\
            snd (free_bounded_leapfrog lo w eps im n (t0, r0)) == s * r0.
Proof. exact free_leapfrog_unfold. Qed.

(* arrays: every component inside its own interval *)
Theorem C04_reflect_vec_inside : forall los ws thetas,
  Forall (fun w => 0 < w) ws ->
  inside_vec los ws (reflect_vec los ws thetas).
Proof. exact reflect_vec_inside. Qed.

(* the fold written out in boundary_proposal is the same map *)
Theorem C04_gibbs_fold_reflect : forall lo hi w x, hi == lo + w ->
  gibbs_fold lo hi w x == reflect lo w x.
Proof. exact gibbs_fold_reflect. Qed.

Theorem C04_gibbs_fold_range : forall lo hi x, lo < hi ->
  lo <= gibbs_fold lo hi (hi - lo) x /\ gibbs_fold lo hi (hi - lo) x <= hi.
Proof. exact gibbs_fold_range. Qed.

Theorem C04_abs_nonneg : forall x, 0 <= abs_fold x.
Proof. exact abs_nonneg. Qed.

Theorem C04_abs_id : forall x, 0 <= x -> abs_fold x == x.
Proof. exact abs_id. Qed.

(* in every reachable selector state -- any list of calls, in any order -- a
   limit whose switch is on is enforced by the proposal that is active *)
Theorem C04_fsm_limits_in_force : forall ops,
  let st := run ops init in
  (bounded st = true -> forall x, lower st <= propose st x /\ propose st x <= upper st) /\
  (nonneg st = true -> forall x, 0 <= propose st x).
Proof. exact fsm_limits_in_force. Qed.

(* no switch on: the raw draw is used as it is; points that satisfy the limits
   in force are left alone *)
Theorem C04_fsm_unlimited : forall ops x,
  bounded (run ops init) = false -> nonneg (run ops init) = false ->
  propose (run ops init) x = x.
Proof. exact fsm_unlimited. Qed.

Theorem C04_fsm_identity_inside : forall ops x,
  let st := run ops init in
  (bounded st = true -> lower st <= x -> x <= upper st) ->
  (nonneg st = true -> 0 <= x) ->
  (bounded st = true -> lower st <= x) ->
  propose st x == x.
Proof. exact fsm_identity_inside. Qed.

(* calls about one limit do not touch the other limit *)
Theorem C04_fsm_other_limit_untouched : forall st o,
  match o with
  | SetBoundaries _ _ | RemoveBoundaries => nonneg (step st o) = nonneg st
  | SetNonNegative _ =>
      bounded (step st o) = bounded st /\ lower (step st o) = lower st /\
      upper (step st o) = upper st
  | SetNonNegativeInvalid | Load =>
      nonneg (step st o) = nonneg st /\ bounded (step st o) = bounded st /\
      lower (step st o) = lower st /\ upper (step st o) = upper st
  end.
Proof. exact fsm_other_limit_untouched. Qed.

(* accepted calls do switch the limit on with the values given *)
Theorem C04_fsm_set_boundaries_effect : forall st lo hi,
  lo < hi -> (nonneg st = true -> 0 < hi) ->
  let st' := step st (SetBoundaries lo hi) in
  bounded st' = true /\ lower st' = lo /\ upper st' = hi /\ active st' = Bnd.
Proof. exact fsm_set_boundaries_effect. Qed.

Theorem C04_fsm_set_non_negative_effect : forall st,
  (bounded st = true -> 0 < upper st) ->
  let st' := step st (SetNonNegative true) in
  nonneg st' = true /\ active st' = select (bounded st) true.
Proof. exact fsm_set_non_negative_effect. Qed.

(* a save / load round trip leaves every reachable state, active proposal
   included, as it was *)
Theorem C04_fsm_load_fixpoint : forall ops, step (run ops init) Load = run ops init.
Proof. exact fsm_load_fixpoint. Qed.

(* defect D6: on the pinned selector the switches and the active proposal drift apart *)
Theorem C04_fsm_limits_in_force_pinned_refuted :
  exists ops x,
    let st := run_pinned ops init in
    bounded st = true /\ ~ (lower st <= propose_pinned st x /\ propose_pinned st x <= upper st).
Proof. exact fsm_limits_in_force_pinned_refuted. Qed.

Theorem C04_fsm_non_negative_pinned_refuted :
  exists ops x,
    let st := run_pinned ops init in
    nonneg st = true /\ ~ (0 <= propose_pinned st x).
Proof. exact fsm_non_negative_pinned_refuted. Qed.

Theorem C04_fsm_pinned_witnesses :
  limits_hold_at propose_pinned (run_pinned witness_ops_1 init) (-5) = false /\
  limits_hold_at propose_pinned (run_pinned witness_ops_2 init) (-5) = false /\
  limits_hold_at propose_pinned (run_pinned witness_ops_3 init) 7 = false /\
  limits_hold_at propose_pinned (run_pinned witness_ops_4 init) (-1) = false.
Proof. exact pinned_witnesses. Qed.

(* non-vacuity: hypotheses are satisfiable and the maps do fold.
   Box [-3/2, 5/2] (w = 4): 27/2 lies in
   cell q = 3 (odd), folded to -1/2 with momentum factor -1; a point 1001
   widths below the lower wall; both walls are fixed points. *)
Example C04_example_reflect :
  0 < 4 /\
  reflect (-3 # 2) 4 (27 # 2) == -1 # 2 /\ crossings (-3 # 2) 4 (27 # 2) = 3%Z /\
  snd (reflect_momenta (-3 # 2) 4 (27 # 2)) == -1 /\
  reflect (-3 # 2) 4 (-3 # 2) == -3 # 2 /\ reflect (-3 # 2) 4 (5 # 2) == 5 # 2 /\
  reflect (-3 # 2) 4 ((-3 # 2) - 1001 * 4 - 1) == 3 # 2 /\
  crossings (-3 # 2) 4 ((-3 # 2) - 1001 * 4 - 1) = (-1002)%Z /\
  gibbs_fold (-3 # 2) (5 # 2) 4 (27 # 2) == -1 # 2 /\ abs_fold (-7 # 3) == 7 # 3.
Proof. repeat split; vm_compute; reflexivity. Qed.

(* non-vacuity of the selector theorem: both switches on after a mixed call
   order, a refused call in between; the active proposal is the boundary one and
   a far-away draw lands in the intersection [0, 2] *)
Example C04_example_fsm :
  let st := run [SetNonNegative true; SetBoundaries (-3) (-1); SetBoundaries (-3) 2;
                 SetNonNegative false; SetNonNegativeInvalid; SetNonNegative true; Load] init in
  bounded st = true /\ nonneg st = true /\ lower st = -3 /\ upper st = 2 /\ active st = Bnd /\
  propose st (-12345 # 8) == 7 # 8 /\
  (* the same calls on the pinned machine end in abs_proposal's state after the
     second-to-last call and leave the interval *)
  propose_pinned (run_pinned [SetNonNegative true; SetBoundaries (-3) 2] init) (-1) == -1.
Proof. cbv zeta. repeat split; vm_compute; reflexivity. Qed.

Print Assumptions C04_reflect_range.
Print Assumptions C04_reflect_id.
Print Assumptions C04_reflect_fold_lower.
Print Assumptions C04_reflect_fold_upper.
Print Assumptions C04_reflect_period.
Print Assumptions C04_momenta_position.
Print Assumptions C04_momentum_parity.
Print Assumptions C04_crossings_cell.
Print Assumptions C04_crossings_unique.
Print Assumptions C04_momentum_slope.
Print Assumptions C04_reflect_unfold.
Print Assumptions C04_free_leapfrog_unfold.
Print Assumptions C04_reflect_vec_inside.
Print Assumptions C04_gibbs_fold_reflect.
Print Assumptions C04_gibbs_fold_range.
Print Assumptions C04_abs_nonneg.
Print Assumptions C04_abs_id.
Print Assumptions C04_fsm_limits_in_force.
Print Assumptions C04_fsm_unlimited.
Print Assumptions C04_fsm_identity_inside.
Print Assumptions C04_fsm_other_limit_untouched.
Print Assumptions C04_fsm_set_boundaries_effect.
Print Assumptions C04_fsm_set_non_negative_effect.
Print Assumptions C04_fsm_load_fixpoint.
Print Assumptions C04_fsm_limits_in_force_pinned_refuted.
Print Assumptions C04_fsm_non_negative_pinned_refuted.
Print Assumptions C04_fsm_pinned_witnesses.
