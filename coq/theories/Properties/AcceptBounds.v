(* AcceptBounds -- the rational enclosure of exp and the accept decision u < e^d
   used by every sampler model (Common/ExpBounds.v) are correct with respect to
   Coq's real exponential.  Property theorems only; every proof is `exact <lemma>`. *)
From Coq Require Import Reals QArith Qreals.
From IT Require Import Common.ExpBounds Proofs.ExpBoundsProofs.
Open Scope R_scope.

(* 0 <= exp_lo d <= e^d <= exp_hi d   for d <= 0 *)
Theorem AcceptBounds_exp_lo : forall d : Q, (d <= 0)%Q ->
  0 <= Q2R (exp_lo d) <= exp (Q2R d).
Proof. exact exp_lo_correct. Qed.

Theorem AcceptBounds_exp_hi : forall d : Q, (d <= 0)%Q ->
  exp (Q2R d) <= Q2R (exp_hi d).
Proof. exact exp_hi_correct. Qed.

(* the same at every precision 2^-N and Taylor degrees 2j+1 / 2j+2 *)
Theorem AcceptBounds_exp_enc : forall (N j : nat) (d : Q), (d <= 0)%Q ->
  0 <= Q2R (exp_lo_p N j d) <= exp (Q2R d) /\
  exp (Q2R d) <= Q2R (exp_hi_p N j d).
Proof. exact exp_enc_correct. Qed.

(* an answer of decide_accept is the truth about  u < e^d  (and, the
   inequalities being strict, about  u <= e^d  as well) -- for either sign of d *)
Theorem AcceptBounds_decide_accept : forall (u d : Q) (b : bool),
  decide_accept u d = Some b ->
  (b = true -> Q2R u < exp (Q2R d)) /\ (b = false -> exp (Q2R d) < Q2R u).
Proof. exact decide_accept_sound. Qed.

Theorem AcceptBounds_decide_accept_any : forall (u d : Q) (b : bool),
  decide_accept_any u d = Some b ->
  (b = true -> Q2R u < exp (Q2R d)) /\ (b = false -> exp (Q2R d) < Q2R u).
Proof. exact decide_accept_any_sound. Qed.

(* non-vacuity: both answers occur, and the gap is narrow *)
Example AcceptBounds_example :
  decide_accept (1 # 3) (-1) = Some true /\
  decide_accept (2 # 5) (-1) = Some false /\
  (exp_hi (-1) - exp_lo (-1) <= 1 # 1000000000000)%Q.
Proof. vm_compute. repeat split; try reflexivity. discriminate. Qed.

Print Assumptions AcceptBounds_exp_lo.
Print Assumptions AcceptBounds_exp_hi.
Print Assumptions AcceptBounds_exp_enc.
Print Assumptions AcceptBounds_decide_accept.
Print Assumptions AcceptBounds_decide_accept_any.
