(* C01 (known finding D4) -- a proposal along an oblique direction, folded back
   into the box component-wise by Bounds.reflect, is not reversible.
   Property theorems only; every proof is `exact <lemma>`. *)
From Coq Require Import QArith ZArith List.
From IT Require Import Model.Reflect Proofs.ObliqueFoldRefuted.
Import ListNotations.
Open Scope Q_scope.

(* every pre-image of x under the fold is x shifted by an even number of
   widths, or its mirror image shifted likewise ... *)
Theorem C01_reflect_preimage : forall lo w theta x, 0 < w ->
  reflect lo w theta == x ->
  exists k : Z, theta == x + inject_Z (2 * k) * w \/
                theta == 2 * lo + inject_Z (2 * k) * w - x.
Proof. exact reflect_preimage. Qed.

(* ... and each of those points does fold onto an inside x *)
Theorem C01_reflect_preimage_conv : forall lo w theta x (k : Z), 0 < w ->
  lo <= x -> x <= lo + w ->
  (theta == x + inject_Z (2 * k) * w \/ theta == 2 * lo + inject_Z (2 * k) * w - x) ->
  reflect lo w theta == x.
Proof. exact reflect_preimage_conv. Qed.

(* line proposal along v = (3/5, 4/5) in [0,1]^2: the step t = 3/4 takes
   x = (1/4, 1/2) to y = (7/10, 9/10) (so the move x -> y has positive proposal
   density), and no step t' along +v or -v takes y back to x *)
Theorem C01_pca_oblique_irreversible :
  let lo := [0; 0] in let w := [1; 1] in
  let v := [3#5; 4#5] in let x := [1#4; 1#2] in let y := [7#10; 9#10] in
  (inside_vec lo w x /\ inside_vec lo w y /\ ~ Qvec_eq x y /\
   Qvec_eq (reflect_vec lo w (axpy (3#4) v x)) y) /\
  (forall t' : Q,
     ~ (reflect 0 1 ((7#10) + t' * (3#5)) == 1#4 /\
        reflect 0 1 ((9#10) + t' * (4#5)) == 1#2)) /\
  (forall t' : Q, ~ Qvec_eq (reflect_vec lo w (axpy t' v y)) x).
Proof. exact pca_oblique_irreversible. Qed.

(* stretch move in [0,1]^2: X_i = (3/4, 7/8), partner X_j = (1/4, 1/2), z = 2
   (in the support [1/2, 2] for a = 2) is folded to Y = (3/4, 3/4); the reverse
   stretch move from Y about the same partner never returns to X_i *)
Theorem C01_ensemble_oblique_irreversible :
  let lo := [0; 0] in let w := [1; 1] in
  let Xi := [3#4; 7#8] in let Xj := [1#4; 1#2] in let Y := [3#4; 3#4] in
  let z := 2 in
  (inside_vec lo w Xi /\ inside_vec lo w Xj /\ (1#2) <= z /\ z <= 2 /\
   Qvec_eq (reflect_vec lo w
              [(1#4) + z * ((3#4) - (1#4)); (1#2) + z * ((7#8) - (1#2))]) Y) /\
  (forall z' : Q, (1#2) <= z' -> z' <= 2 ->
     ~ (reflect 0 1 ((1#4) + z' * ((3#4) - (1#4))) == 3#4 /\
        reflect 0 1 ((1#2) + z' * ((3#4) - (1#2))) == 7#8)) /\
  (forall z' : Q, (1#2) <= z' -> z' <= 2 ->
     ~ Qvec_eq (reflect_vec lo w
                  [(1#4) + z' * ((3#4) - (1#4)); (1#2) + z' * ((3#4) - (1#2))]) Xi).
Proof. exact ensemble_oblique_irreversible. Qed.

(* the restriction to the support is not what makes it fail: no z' at all works *)
Theorem C01_ensemble_no_return : forall z' : Q,
  ~ (reflect 0 1 ((1#4) + z' * ((3#4) - (1#4))) == 3#4 /\
     reflect 0 1 ((1#2) + z' * ((3#4) - (1#2))) == 7#8).
Proof. exact ensemble_no_return. Qed.

(* contrast: along the axis direction v = (1, 0) the same box is reversible for
   every inside point and every step *)
Theorem C01_axis_fold_reversible : forall x1 x2 t : Q,
  0 <= x1 -> x1 <= 1 -> 0 <= x2 -> x2 <= 1 ->
  let y1 := reflect 0 1 (x1 + t * 1) in
  let y2 := reflect 0 1 (x2 + t * 0) in
  exists t', (t' == t \/ t' == - t) /\
    reflect 0 1 (y1 + t' * 1) == x1 /\ reflect 0 1 (y2 + t' * 0) == x2.
Proof. exact axis_fold_reversible. Qed.

Theorem C01_axis_fold_reversible_vec : forall t : Q,
  let lo := [0; 0] in let w := [1; 1] in
  let v := [1; 0] in let x := [1#4; 1#2] in
  exists t', (t' == t \/ t' == - t) /\
    Qvec_eq (reflect_vec lo w (axpy t' v (reflect_vec lo w (axpy t v x)))) x.
Proof. exact axis_fold_reversible_vec. Qed.

Print Assumptions C01_reflect_preimage.
Print Assumptions C01_reflect_preimage_conv.
Print Assumptions C01_pca_oblique_irreversible.
Print Assumptions C01_ensemble_oblique_irreversible.
Print Assumptions C01_ensemble_no_return.
Print Assumptions C01_axis_fold_reversible.
Print Assumptions C01_axis_fold_reversible_vec.
