(* Invariants of the sampler models (C03: stored log-probabilities belong to the
   stored samples; C01: every decision is the Metropolis test of the proposed
   move at the chain's own temperature). *)
From Coq Require Import QArith Qround Qabs ZArith List Bool Lia.
From IT Require Import Common.ExpBounds Model.Reflect Model.Samplers.
Import ListNotations.
Open Scope Q_scope.

Local Arguments Qred : simpl never.
Local Arguments propose : simpl never.
Local Arguments tlogp : simpl never.
Local Arguments elogp : simpl never.
Local Arguments decide_accept : simpl never.
Local Arguments decide_accept_any : simpl never.
Local Arguments Qlt_bool : simpl never.
Local Arguments Qle_bool : simpl never.
Local Arguments set_nth : simpl never.
Local Arguments process : simpl never.
Local Arguments vred : simpl never.
Local Arguments vadd : simpl never.
Local Arguments vscale : simpl never.
Local Arguments leapfrog : simpl never.
Local Arguments momentum : simpl never.
Local Arguments kinetic : simpl never.
Local Arguments hmc_nsteps : simpl never.
Local Arguments take : simpl never.
Local Arguments stretch : simpl never.
Local Arguments list_set : simpl never.
Local Arguments qpow : simpl never.
Local Arguments Qfloor : simpl never.
Local Arguments Qminus : simpl never.
Local Arguments Qplus : simpl never.
Local Arguments Qmult : simpl never.
Local Arguments Qdiv : simpl never.
Local Arguments Nat.modulo : simpl never.
Local Arguments mh_test : simpl never.
Local Arguments propose_all : simpl never.

(* strong induction on lists by length, for loops that eat two draws per round *)
Lemma list_len_ind {A} (P : list A -> Prop) :
  (forall l, (forall l', (length l' < length l)%nat -> P l') -> P l) -> forall l, P l.
Proof.
  intros H l. remember (length l) as n eqn:En. revert l En.
  induction n as [n IH] using lt_wf_ind. intros l En. apply H.
  intros l' Hl'. apply (IH (length l')); [lia|reflexivity].
Qed.

Section Inv.
  Variable logp : list Q -> Q.
  Variable beta : Q.
  Notation tlogp := (tlogp logp beta).

  (* ---------- the alignment invariant ---------- *)
  Definition aligned (samples : list (list Q)) (probs : list Q) : Prop :=
    probs = map tlogp samples.

  Lemma aligned_cons x p samples probs :
    aligned samples probs -> p = tlogp x -> aligned (x :: samples) (p :: probs).
  Proof. unfold aligned. intros H Hp. simpl. rewrite H, Hp. reflexivity. Qed.

  Lemma aligned_length samples probs : aligned samples probs -> length probs = length samples.
  Proof. unfold aligned. intros ->. apply map_length. Qed.

  Lemma aligned_nth samples probs k : aligned samples probs -> (k < length samples)%nat ->
    nth k probs 0 = tlogp (nth k samples []).
  Proof.
    unfold aligned. intros -> Hk.
    rewrite (nth_indep _ 0 (tlogp [])) by (rewrite map_length; exact Hk).
    apply map_nth.
  Qed.

  (* ---------- Gibbs ---------- *)
  Lemma gibbs_coord_value : forall tape x i last par p_old ev x' p_new par' tape' ev',
    gibbs_coord logp beta tape x i last par p_old ev = Ok (x', p_new, par', tape', ev') ->
    p_new = tlogp x'.
  Proof.
    intros tape. induction tape as [tape IH] using list_len_ind.
    intros x i last par p_old ev x' p_new par' tape' ev' H.
    destruct tape as [|xi tape1]; [discriminate H|].
    cbn [gibbs_coord] in H. destruct (propose par last xi) as [par1 cand] eqn:Ep.
    destruct (Qlt_bool p_old (tlogp (set_nth i cand x))) eqn:Elt.
    - inversion H; subst. reflexivity.
    - destruct tape1 as [|u tape2]; [discriminate H|].
      destruct (decide_accept u (tlogp (set_nth i cand x) - p_old)) as [[|]|] eqn:Ed.
      + inversion H; subst. reflexivity.
      + eapply IH; [|exact H]. simpl. lia.
      + discriminate H.
  Qed.

  Lemma gibbs_coords_value : forall pars lasts tape x i p_old ev done x' p' pars' tape' ev',
    gibbs_coords logp beta pars lasts tape x i p_old ev done = Ok (x', p', pars', tape', ev') ->
    p_old = tlogp x -> p' = tlogp x'.
  Proof.
    induction pars as [|par pars IH]; intros lasts tape x i p_old ev done x' p' pars' tape' ev' H Hp.
    - cbn [gibbs_coords] in H. inversion H; subst. reflexivity.
    - destruct lasts as [|last lasts]; [simpl in H; inversion H; subst; reflexivity|].
      cbn [gibbs_coords] in H.
      destruct (gibbs_coord logp beta tape x i last par p_old ev) as [[[[[x1 p1] par1] tape1] ev1]| | |] eqn:Ec;
        try discriminate H.
      eapply IH; [exact H|]. eapply gibbs_coord_value. exact Ec.
  Qed.

  Lemma gibbs_step_aligned s tape s' tape' ev :
    aligned (gs_samples s) (gs_probs s) ->
    gibbs_step logp beta s tape = Ok (s', tape', ev) ->
    aligned (gs_samples s') (gs_probs s') /\
    tl (gs_samples s') = gs_samples s /\ tl (gs_probs s') = gs_probs s.
  Proof.
    intros Hinv H. unfold gibbs_step in H.
    destruct (gs_samples s) as [|x samples] eqn:Es; [discriminate H|].
    destruct (gs_probs s) as [|p_old probs] eqn:Ep; [discriminate H|].
    destruct (gs_params s) as [|par0 pars0] eqn:Epar; [discriminate H|].
    destruct (gibbs_coords logp beta (par0 :: pars0) x tape x 0 p_old [] [])
      as [[[[[x1 p1] pars1] tape1] ev1]| | |] eqn:Ec; try discriminate H.
    inversion H; subst; clear H. simpl.
    assert (Hp : p_old = tlogp x).
    { unfold aligned in Hinv. simpl in Hinv. inversion Hinv. reflexivity. }
    split; [|split; reflexivity].
    apply aligned_cons; [exact Hinv|].
    eapply gibbs_coords_value; [exact Ec|exact Hp].
  Qed.

  (* ---------- Metropolis (repaired) ---------- *)
  Lemma metro_loop_value : forall fuel pars lasts tape p_old ev x' p' pars' tape' ev',
    metro_loop logp beta fuel pars lasts tape p_old ev = Ok (x', p', pars', tape', ev') ->
    p' = tlogp x'.
  Proof.
    induction fuel as [|fuel IH]; intros pars lasts tape p_old ev x' p' pars' tape' ev' H;
      [discriminate H|].
    cbn [metro_loop] in H.
    destruct (propose_all pars lasts tape) as [[[pars1 cand] tape1]| | |]; try discriminate H.
    destruct (mh_test (tlogp cand) p_old tape1) as [[[|] tape2]| | |]; try discriminate H.
    - inversion H; subst. reflexivity.
    - eapply IH. exact H.
  Qed.

  Lemma metro_step_aligned s tape s' tape' ev :
    aligned (gs_samples s) (gs_probs s) ->
    metro_step logp beta s tape = Ok (s', tape', ev) ->
    aligned (gs_samples s') (gs_probs s') /\
    tl (gs_samples s') = gs_samples s /\ tl (gs_probs s') = gs_probs s.
  Proof.
    intros Hinv H. unfold metro_step in H.
    destruct (gs_samples s) as [|x samples] eqn:Es; [discriminate H|].
    destruct (gs_probs s) as [|p_old probs] eqn:Ep; [discriminate H|].
    destruct (metro_loop logp beta (S (length tape)) (gs_params s) x tape p_old [])
      as [[[[[x1 p1] pars1] tape1] ev1]| | |] eqn:Ec; try discriminate H.
    inversion H; subst; clear H. simpl.
    split; [|split; reflexivity].
    apply aligned_cons; [exact Hinv|]. eapply metro_loop_value. exact Ec.
  Qed.

  (* ---------- PCA ---------- *)
  Lemma pca_dir_value bounds : forall tape theta0 v sigma p_old ev x' p' tape' ev',
    pca_dir logp beta bounds tape theta0 v sigma p_old ev = Ok (x', p', tape', ev') ->
    p' = tlogp x'.
  Proof.
    intros tape. induction tape as [tape IH] using list_len_ind.
    intros theta0 v sigma p_old ev x' p' tape' ev' H.
    destruct tape as [|xi tape1]; [discriminate H|].
    cbn [pca_dir] in H.
    set (prop := vred (process bounds (vadd theta0 (vscale xi (vscale sigma v))))) in H.
    destruct (Qlt_bool p_old (tlogp prop)).
    - inversion H; subst. reflexivity.
    - destruct tape1 as [|u tape2]; [discriminate H|].
      destruct (decide_accept u (tlogp prop - p_old)) as [[|]|].
      + inversion H; subst. reflexivity.
      + eapply IH; [|exact H]. simpl. lia.
      + discriminate H.
  Qed.

  Lemma pca_dirs_value bounds : forall dirs sigmas tape theta0 p_old ev x' p' tape' ev',
    pca_dirs logp beta bounds dirs sigmas tape theta0 p_old ev = Ok (x', p', tape', ev') ->
    p_old = tlogp theta0 -> p' = tlogp x'.
  Proof.
    induction dirs as [|v dirs IH]; intros sigmas tape theta0 p_old ev x' p' tape' ev' H Hp.
    - cbn [pca_dirs] in H. inversion H; subst. reflexivity.
    - destruct sigmas as [|sg sigmas]; [simpl in H; inversion H; subst; reflexivity|].
      cbn [pca_dirs] in H.
      destruct (pca_dir logp beta bounds tape theta0 v sg p_old ev) as [[[[x1 p1] tape1] ev1]| | |] eqn:Ec;
        try discriminate H.
      eapply IH; [exact H|]. eapply pca_dir_value. exact Ec.
  Qed.

  Lemma pca_step_aligned s tape s' tape' ev :
    aligned (ps_samples s) (ps_probs s) ->
    pca_step logp beta s tape = Ok (s', tape', ev) ->
    aligned (ps_samples s') (ps_probs s') /\
    tl (ps_samples s') = ps_samples s /\ tl (ps_probs s') = ps_probs s.
  Proof.
    intros Hinv H. unfold pca_step in H.
    destruct (ps_samples s) as [|x samples] eqn:Es; [discriminate H|].
    destruct (ps_probs s) as [|p_old probs] eqn:Ep; [discriminate H|].
    destruct (ps_dirs s) as [|d0 ds] eqn:Ed; [discriminate H|].
    destruct (pca_dirs logp beta (ps_bounds s) (d0 :: ds) (ps_sigmas s) tape x p_old [])
      as [[[[x1 p1] tape1] ev1]| | |] eqn:Ec; try discriminate H.
    inversion H; subst; clear H. simpl.
    assert (Hp : p_old = tlogp x).
    { unfold aligned in Hinv. simpl in Hinv. inversion Hinv. reflexivity. }
    split; [|split; reflexivity].
    apply aligned_cons; [exact Hinv|]. eapply pca_dirs_value; [exact Ec|exact Hp].
  Qed.

  (* ---------- Hamiltonian ---------- *)
  Variable grad : list Q -> list Q.

  Lemma hmc_attempts_value : forall fuel s n t0 p_old tape taken ev t p k tape' ev',
    hmc_attempts logp beta grad fuel s n t0 p_old tape taken ev = Ok (t, p, k, tape', ev') ->
    p = tlogp t.
  Proof.
    induction fuel as [|fuel IH]; intros s n t0 p_old tape taken ev t p k tape' ev' H;
      [discriminate H|].
    cbn [hmc_attempts] in H.
    destruct (take n tape) as [[z tape1]|]; [|discriminate H].
    destruct tape1 as [|u1 tape2]; [discriminate H|].
    destruct (hmc_nsteps (hs_steps s) u1) as [ns|]; [|discriminate H].
    destruct (leapfrog beta grad (hs_bounds s) (hs_mass s) (hs_eps s) ns t0 (momentum (hs_mass s) z))
      as [t1 r1] eqn:El.
    destruct (Qle_bool 0 _).
    - inversion H; subst. reflexivity.
    - destruct tape2 as [|u2 tape3]; [discriminate H|].
      destruct (decide_accept u2 _) as [[|]|].
      + inversion H; subst. reflexivity.
      + eapply IH. exact H.
      + discriminate H.
  Qed.

  Lemma hmc_step_aligned ma s tape s' tape' ev :
    aligned (hs_theta s) (hs_probs s) ->
    hmc_step logp beta grad ma s tape = Ok (s', tape', ev) ->
    aligned (hs_theta s') (hs_probs s') /\
    tl (hs_theta s') = hs_theta s /\ tl (hs_probs s') = hs_probs s /\
    length (hs_leaps s') = S (length (hs_leaps s)).
  Proof.
    intros Hinv H. unfold hmc_step in H.
    destruct (hs_theta s) as [|t0 thetas] eqn:Es; [discriminate H|].
    destruct (hs_probs s) as [|p_old probs] eqn:Ep; [discriminate H|].
    destruct (hmc_attempts logp beta grad ma s (length t0) t0 p_old tape 0 [])
      as [[[[[t1 p1] k1] tape1] ev1]| | |] eqn:Ec; try discriminate H.
    inversion H; subst; clear H. simpl.
    split; [|repeat split; reflexivity].
    apply aligned_cons; [exact Hinv|]. eapply hmc_attempts_value. exact Ec.
  Qed.

  (* ---------- installing a point (parallel-tempering exchange, replace_last) ---------- *)
  Definition install {A} (x : A) (l : list A) : list A :=
    match l with [] => [] | _ :: t => x :: t end.

  (* tempering_process "update_position": replace_last(position);
     probs[-1] = probability * inv_temp, where `probability` is the untempered
     log-density of `position` *)
  Lemma install_aligned samples probs x L :
    aligned samples probs -> Qred (L * beta) = tlogp x ->
    aligned (install x samples) (install (Qred (L * beta)) probs).
  Proof.
    unfold aligned. intros H HL. destruct samples as [|y samples]; subst probs; simpl.
    - reflexivity.
    - rewrite HL. reflexivity.
  Qed.
End Inv.

(* ---------- a chain driven by any sequence of operations ---------- *)
Section Histories.
  Variable logp : list Q -> Q.
  Variable beta : Q.

  Inductive gop :=
  | OpGibbs (tape : list Q)
  | OpMetro (tape : list Q)
  | OpInstall (x : list Q).         (* exchange / replace_last with the point's own log-density *)

  Definition gapply (s : gstate) (o : gop) : gstate :=
    match o with
    | OpGibbs tape => match gibbs_step logp beta s tape with Ok (s', _, _) => s' | _ => s end
    | OpMetro tape => match metro_step logp beta s tape with Ok (s', _, _) => s' | _ => s end
    | OpInstall x =>
        mkGS (gs_params s) (install x (gs_samples s)) (install (tlogp logp beta x) (gs_probs s))
    end.

  Lemma gapply_aligned s o :
    aligned logp beta (gs_samples s) (gs_probs s) ->
    aligned logp beta (gs_samples (gapply s o)) (gs_probs (gapply s o)).
  Proof.
    intros H. destruct o as [tape|tape|x]; simpl.
    - destruct (gibbs_step logp beta s tape) as [[[s' t'] ev]| | |] eqn:E; try exact H.
      eapply gibbs_step_aligned; [exact H|exact E].
    - destruct (metro_step logp beta s tape) as [[[s' t'] ev]| | |] eqn:E; try exact H.
      eapply metro_step_aligned; [exact H|exact E].
    - apply install_aligned; [exact H|reflexivity].
  Qed.

  Theorem gibbs_history_aligned s0 ops :
    aligned logp beta (gs_samples s0) (gs_probs s0) ->
    let s := fold_left gapply ops s0 in
    aligned logp beta (gs_samples s) (gs_probs s).
  Proof.
    revert s0. induction ops as [|o ops IH]; intros s0 H; simpl; [exact H|].
    apply IH. apply gapply_aligned. exact H.
  Qed.

  Inductive pop := OpPca (tape : list Q) | OpPInstall (x : list Q).
  Definition papply (s : pstate) (o : pop) : pstate :=
    match o with
    | OpPca tape => match pca_step logp beta s tape with Ok (s', _, _) => s' | _ => s end
    | OpPInstall x =>
        mkPS (ps_dirs s) (ps_sigmas s) (ps_bounds s) (install x (ps_samples s))
             (install (tlogp logp beta x) (ps_probs s))
    end.

  Theorem pca_history_aligned s0 ops :
    aligned logp beta (ps_samples s0) (ps_probs s0) ->
    let s := fold_left papply ops s0 in
    aligned logp beta (ps_samples s) (ps_probs s).
  Proof.
    revert s0. induction ops as [|o ops IH]; intros s0 H; simpl; [exact H|].
    apply IH. destruct o as [tape|x]; simpl.
    - destruct (pca_step logp beta s0 tape) as [[[s' t'] ev]| | |] eqn:E; try exact H.
      eapply pca_step_aligned; [exact H|exact E].
    - apply install_aligned; [exact H|reflexivity].
  Qed.

  Variable grad : list Q -> list Q.
  Inductive hop := OpHmc (max_attempts : nat) (tape : list Q) | OpHInstall (x : list Q).
  Definition happly (s : hstate) (o : hop) : hstate :=
    match o with
    | OpHmc ma tape => match hmc_step logp beta grad ma s tape with Ok (s', _, _) => s' | _ => s end
    | OpHInstall x =>
        mkHS (hs_mass s) (hs_eps s) (hs_steps s) (hs_bounds s) (install x (hs_theta s))
             (install (tlogp logp beta x) (hs_probs s)) (hs_leaps s)
    end.

  Theorem hmc_history_aligned s0 ops :
    aligned logp beta (hs_theta s0) (hs_probs s0) ->
    let s := fold_left happly ops s0 in
    aligned logp beta (hs_theta s) (hs_probs s).
  Proof.
    revert s0. induction ops as [|o ops IH]; intros s0 H; simpl; [exact H|].
    apply IH. destruct o as [ma tape|x]; simpl.
    - destruct (hmc_step logp beta grad ma s0 tape) as [[[s' t'] ev]| | |] eqn:E; try exact H.
      eapply hmc_step_aligned; [exact H|exact E].
    - apply install_aligned; [exact H|reflexivity].
  Qed.
End Histories.

(* ---------- the pinned MetropolisChain breaks the invariant (defect D1) ---------- *)
Definition d1_logp (x : list Q) : Q := - (nth 0 x 0) * (nth 0 x 0).
Definition d1_state : gstate := mkGS [mkGP 1 PStd 0 50] [[0]] [d1_logp [0]].

Lemma metro_pinned_refuted :
  exists tape s' t' ev,
    aligned d1_logp 1 (gs_samples d1_state) (gs_probs d1_state) /\
    metro_step_pinned d1_logp 1 d1_state tape = Ok (s', t', ev) /\
    length (gs_probs s') <> length (gs_samples s').
Proof.
  exists [1; 1 # 1000].
  eexists. eexists. eexists. split; [reflexivity|]. split; [vm_compute; reflexivity|].
  simpl. discriminate.
Qed.

(* ---------- ensemble: every walker's stored value is logp of its position ---------- *)
Section EnsInv.
  Variable logp : list Q -> Q.
  Notation elogp := (elogp logp).

  Definition ealigned (s : estate) : Prop := es_probs s = map elogp (es_pos s).

  Lemma list_set_map {A B} (f : A -> B) i v (l : list A) :
    map f (list_set i v l) = list_set i (f v) (map f l).
  Proof.
    unfold list_set. rewrite map_app, firstn_map, skipn_map.
    destruct (skipn i l); reflexivity.
  Qed.

  Lemma ens_walker_aligned pinned : forall fuel s i tape ev s' tape' ev',
    ealigned s -> ens_walker logp pinned fuel s i tape ev = Ok (s', tape', ev') -> ealigned s'.
  Proof.
    induction fuel as [|fuel IH]; intros s i tape ev s' tape' ev' Hinv H.
    - cbn [ens_walker] in H. inversion H; subst. exact Hinv.
    - cbn [ens_walker] in H.
      destruct tape as [|k [|u1 tape2]]; try discriminate H.
      destruct tape2 as [|u2 tape3]; [discriminate H|].
      match type of H with context [decide_accept_any ?a ?b] =>
        destruct (decide_accept_any a b) as [[|]|] end.
      + inversion H; subst. unfold ealigned in *. simpl.
        rewrite list_set_map, Hinv. reflexivity.
      + eapply IH; [exact Hinv|exact H].
      + discriminate H.
  Qed.

  Lemma ens_walkers_aligned pinned : forall todo i s tape ev s' tape' ev',
    ealigned s -> ens_walkers logp pinned todo i s tape ev = Ok (s', tape', ev') -> ealigned s'.
  Proof.
    induction todo as [|todo IH]; intros i s tape ev s' tape' ev' Hinv H.
    - cbn [ens_walkers] in H. inversion H; subst. exact Hinv.
    - cbn [ens_walkers] in H.
      destruct (ens_walker logp pinned (es_max_attempts s) s i tape ev) as [[[s1 t1] ev1]| | |] eqn:E;
        try discriminate H.
      eapply IH; [|exact H]. eapply ens_walker_aligned; [exact Hinv|exact E].
  Qed.

  Theorem ens_iteration_aligned pinned s tape s' tape' ev :
    ealigned s -> ens_iteration logp pinned s tape = Ok (s', tape', ev) -> ealigned s'.
  Proof.
    intros Hinv H. unfold ens_iteration in H.
    match type of H with context [ens_walkers _ _ ?n ?i ?s0 ?t ?e] =>
      destruct (ens_walkers logp pinned n i s0 t e) as [[[s1 t1] ev1]| | |] eqn:E end;
      try discriminate H.
    inversion H; subst. eapply ens_walkers_aligned; [|exact E]. exact Hinv.
  Qed.

  (* advance(k): the stored sample is the concatenation of per-iteration snapshots,
     each of which is aligned *)
  Fixpoint ens_run (pinned : bool) (s : estate) (tapes : list (list Q))
    : estate * list (list (list Q) * list Q) :=
    match tapes with
    | [] => (s, [])
    | t :: ts =>
        match ens_iteration logp pinned s t with
        | Ok (s', _, _) =>
            let '(sf, snaps) := ens_run pinned s' ts in (sf, (es_pos s', es_probs s') :: snaps)
        | _ => (s, [])
        end
    end.

  Theorem ens_run_snapshots_aligned pinned : forall tapes s,
    ealigned s ->
    Forall (fun sn => snd sn = map elogp (fst sn)) (snd (ens_run pinned s tapes)) /\
    ealigned (fst (ens_run pinned s tapes)).
  Proof.
    induction tapes as [|t ts IH]; intros s Hinv; simpl.
    - split; [constructor|exact Hinv].
    - destruct (ens_iteration logp pinned s t) as [[[s' t'] ev]| | |] eqn:E;
        try (split; [constructor|exact Hinv]).
      assert (H' : ealigned s') by (eapply ens_iteration_aligned; [exact Hinv|exact E]).
      destruct (IH s' H') as [Hf Hl].
      destruct (ens_run pinned s' ts) as [sf snaps]. simpl in *.
      split; [constructor; [exact H'|exact Hf]|exact Hl].
  Qed.
End EnsInv.

(* ---------- mode: first maximum of the stored log-probabilities ---------- *)
Fixpoint argmaxQ (l : list Q) : nat :=
  match l with
  | [] => 0%nat
  | x :: t =>
      match t with
      | [] => 0%nat
      | _ => let j := argmaxQ t in if Qle_bool (nth j t 0) x then 0%nat else S j
      end
  end.

Lemma argmaxQ_spec l : l <> [] ->
  (argmaxQ l < length l)%nat /\ forall j, (j < length l)%nat -> nth j l 0 <= nth (argmaxQ l) l 0.
Proof.
  induction l as [|x t IH]; intros Hne; [congruence|].
  destruct t as [|y u].
  - simpl. split; [lia|]. intros j Hj. destruct j; [apply Qle_refl|simpl in Hj; lia].
  - assert (Hne' : y :: u <> []) by congruence.
    destruct (IH Hne') as (Hlt & Hmax). clear IH.
    remember (y :: u) as t eqn:Et.
    assert (Hd : argmaxQ (x :: t) =
                 if Qle_bool (nth (argmaxQ t) t 0) x then 0%nat else S (argmaxQ t))
      by (subst t; reflexivity).
    rewrite Hd. clear Hd.
    destruct (Qle_bool (nth (argmaxQ t) t 0) x) eqn:E.
    + apply Qle_bool_iff in E. split; [simpl; lia|].
      intros j Hj. destruct j as [|j]; simpl; [apply Qle_refl|].
      simpl in Hj. eapply Qle_trans; [apply Hmax; lia|exact E].
    + assert (Hlt' : x < nth (argmaxQ t) t 0).
      { apply Qnot_le_lt. intros Hc. apply Qle_bool_iff in Hc. congruence. }
      split; [simpl; lia|]. intros j Hj. destruct j as [|j]; simpl.
      * apply Qlt_le_weak. exact Hlt'.
      * apply Hmax. simpl in Hj. lia.
Qed.

(* mode(): the sample at the arg-max of probs is a stored sample, its stored
   log-probability is its own and is maximal *)
Theorem mode_is_argmax logp beta samples probs :
  aligned logp beta samples probs -> samples <> [] ->
  let k := argmaxQ probs in
  In (nth k samples []) samples /\
  nth k probs 0 = tlogp logp beta (nth k samples []) /\
  forall j, (j < length probs)%nat -> nth j probs 0 <= nth k probs 0.
Proof.
  intros Hal Hne k.
  assert (Hlen := aligned_length _ _ _ _ Hal).
  assert (Hpn : probs <> []).
  { intros E. rewrite E in Hlen. destruct samples; [congruence|discriminate]. }
  destruct (argmaxQ_spec probs Hpn) as [Hk Hmax]. fold k in Hk, Hmax.
  split; [apply nth_In; lia|]. split; [apply aligned_nth; [exact Hal|lia]|exact Hmax].
Qed.

(* ---------- the quantity compared with the uniform draw ---------- *)
Lemma tempering_factor logp beta x y :
  tlogp logp beta y - tlogp logp beta x == beta * (logp y - logp x).
Proof. unfold tlogp. rewrite !Qred_correct. ring. Qed.
