(* Proofs/InversionProofs.v -- lemmas about Matrix/Inversion.v at the MathComp
   instance (property C17).  Any realFieldType, any sizes m (data), n (parameters). *)
From mathcomp Require Import all_ssreflect all_algebra.
From IT Require Import Matrix.MxOps Matrix.McOps Matrix.Inversion.

Set Implicit Arguments.
Unset Strict Implicit.
Unset Printing Implicit Defensive.

Import Order.TTheory GRing.Theory Num.Theory.
Local Open Scope ring_scope.

Section Lin.
Variable R : realFieldType.
Notation O := (McOps R).

(* ---- the data-error matrices ---------------------------------------------------- *)
Section Sigma.
Variables (m : nat) (e : 'cV[R]_m).

Lemma lin_sigmaE : @lin_sigma O m e = diag_mx (\row_i (e i 0) ^+ 2).
Proof.
rewrite /lin_sigma /= /mc_diagv; congr diag_mx.
by apply/matrixP=> i j; rewrite !mxE !ord1 expr2.
Qed.

Lemma lin_inv_sigmaE : @lin_inv_sigma O m e = diag_mx (\row_i ((e i 0) ^+ 2)^-1).
Proof.
rewrite /lin_inv_sigma /= /mc_diagv; congr diag_mx.
by apply/matrixP=> i j; rewrite !mxE !ord1 expr2.
Qed.

Lemma lin_sigma_sym : (@lin_sigma O m e)^T = @lin_sigma O m e.
Proof. by rewrite lin_sigmaE tr_diag_mx. Qed.

Hypothesis e_nz : forall i, e i 0 != 0.

Lemma lin_sigma_mul_inv : @lin_sigma O m e *m @lin_inv_sigma O m e = 1%:M.
Proof.
rewrite lin_sigmaE lin_inv_sigmaE mulmx_diag -diag_const_mx; congr diag_mx.
by apply/matrixP=> i j; rewrite !mxE divff // expf_neq0.
Qed.

Lemma lin_sigma_unit : @lin_sigma O m e \in unitmx.
Proof. exact: (unitmx_of_right_inv lin_sigma_mul_inv). Qed.

Lemma lin_inv_sigma_inv : @lin_inv_sigma O m e = invmx (@lin_sigma O m e).
Proof.
by rewrite -[LHS](mulKmx lin_sigma_unit) lin_sigma_mul_inv mulmx1.
Qed.

(* quadratic form of a diagonal matrix *)
Lemma qform_diag (d : 'rV[R]_m) (x : 'cV[R]_m) :
  qform (diag_mx d) x = \sum_i d 0 i * (x i 0) ^+ 2.
Proof.
rewrite /qform mxE; apply: eq_bigr => i _.
by rewrite mul_mx_diag !mxE expr2 mulrAC mulrC mulrA.
Qed.

Lemma lin_sigma_pd : pd (@lin_sigma O m e).
Proof.
move=> x x0; rewrite lin_sigmaE qform_diag lt0r; apply/andP; split; last first.
  by apply: sumr_ge0 => i _; rewrite mxE mulr_ge0 // sqr_ge0.
apply: contraNneq x0 => /eqP.
rewrite psumr_eq0; last by move=> i _; rewrite mxE mulr_ge0 // sqr_ge0.
move=> /allP h; apply/eqP/matrixP=> i j; rewrite ord1 [RHS]mxE.
have := h i; rewrite mem_index_enum => /(_ isT) /implyP /(_ isT).
rewrite mxE mulf_eq0 !sqrf_eq0 (negPf (e_nz i)) /=.
by move/eqP.
Qed.

Lemma lin_sigma_psd : psd (@lin_sigma O m e).
Proof.
move=> x; rewrite lin_sigmaE qform_diag.
by apply: sumr_ge0 => i _; rewrite mxE mulr_ge0 // sqr_ge0.
Qed.

End Sigma.

Lemma lin_post_meanE n (pc : 'M[R]_n) (u pm : 'cV[R]_n) :
  @lin_post_mean O n pc u pm = pc *m u + pm.
Proof. by []. Qed.

(* ---- the posterior, for an arbitrary invertible data covariance Sg ------------------ *)
Section Posterior.
Variables (m n : nat).
Variables (A : 'M[R]_(m, n)) (K : 'M[R]_n) (Sg : 'M[R]_m) (y : 'cV[R]_m) (pm : 'cV[R]_n).
Let iS := invmx Sg.
Let W : 'M[R]_n := @lin_W O m n A iS.
Let u : 'cV[R]_n := @lin_u O m n A iS y pm.
Let J : 'M[R]_m := @lin_J O m n A K Sg.
Hypothesis uS : Sg \in unitmx.
Hypothesis uJ : J \in unitmx.

Lemma lin_WE : W = A^T *m iS *m A.            Proof. by []. Qed.
Lemma lin_uE : u = A^T *m (iS *m (y - A *m pm)). Proof. by []. Qed.
Lemma lin_JE : J = A *m K *m A^T + Sg.        Proof. by []. Qed.

(* W K A^T = A^T Sg^-1 J - A^T *)
Lemma WKAt : W *m K *m A^T = A^T *m iS *m J - A^T.
Proof.
rewrite lin_WE lin_JE mulmxDr -!mulmxA /iS mulVmx // mulmx1 addrK.
by rewrite !mulmxA.
Qed.

(* Woodbury / push-through:  (I + K W) (I - K A^T J^-1 A) = I *)
Lemma woodbury_right :
  (1%:M + K *m W) *m (1%:M - K *m A^T *m invmx J *m A) = 1%:M.
Proof.
rewrite mulmxBr mulmx1 mulmxDl mul1mx.
have H1 : W *m K *m A^T *m invmx J = A^T *m iS - A^T *m invmx J.
  by rewrite WKAt mulmxBl -mulmxA mulmxV // mulmx1.
have -> : K *m W *m (K *m A^T *m invmx J *m A)
          = K *m W - K *m A^T *m invmx J *m A.
  have -> : K *m W *m (K *m A^T *m invmx J *m A)
            = K *m (W *m K *m A^T *m invmx J) *m A by rewrite !mulmxA.
  by rewrite H1 mulmxBr mulmxBl lin_WE !mulmxA.
by rewrite (addrC (K *m A^T *m invmx J *m A)) subrK addrK.
Qed.

Lemma lin_system_unit : @lin_system O n K W \in unitmx.
Proof. exact: (unitmx_of_right_inv woodbury_right). Qed.

Lemma lin_system_inv :
  invmx (@lin_system O n K W) = 1%:M - K *m A^T *m invmx J *m A.
Proof.
by rewrite -[RHS](mulKmx lin_system_unit) woodbury_right mulmx1.
Qed.

(* posterior covariance = K - K A^T (A K A^T + Sg)^-1 A K *)
Lemma post_cov_closed :
  @lin_post_cov O n K W = K - K *m A^T *m invmx J *m A *m K.
Proof. by rewrite /lin_post_cov /lin_post_cov_s /= lin_system_inv mulmxBl mul1mx. Qed.

(* ... = (K^-1 + W)^-1 when K is invertible *)
Lemma post_cov_precision : K \in unitmx -> @lin_post_cov O n K W = invmx (invmx K + W).
Proof.
move=> uK.
have -> : invmx K + W = invmx K *m (1%:M + K *m W).
  by rewrite mulmxDr mulmx1 mulmxA mulVmx // mul1mx.
rewrite McOps.invmx_mul ?unitmx_inv //; last exact: lin_system_unit.
by rewrite invmxK.
Qed.

(* posterior covariance times A^T Sg^-1 = K A^T J^-1 *)
Lemma post_cov_AtiS :
  @lin_post_cov O n K W *m A^T *m iS = K *m A^T *m invmx J.
Proof.
rewrite post_cov_closed !mulmxBl.
have -> : K *m A^T *m invmx J *m A *m K *m A^T *m iS
          = K *m A^T *m iS - K *m A^T *m invmx J.
  have -> : K *m A^T *m invmx J *m A *m K *m A^T *m iS
            = K *m A^T *m invmx J *m (J - Sg) *m iS.
    by rewrite lin_JE addrK !mulmxA.
  rewrite mulmxBr mulmxBl -(mulmxA (K *m A^T)) mulVmx // mulmx1.
  by rewrite -(mulmxA _ Sg) /iS mulmxV // mulmx1.
by rewrite opprB addrC subrK.
Qed.

(* posterior mean = pm + K A^T (A K A^T + Sg)^-1 (y - A pm) *)
Lemma post_mean_closed :
  @lin_post_mean O n (@lin_post_cov O n K W) u pm
  = pm + K *m A^T *m invmx J *m (y - A *m pm).
Proof.
rewrite lin_post_meanE addrC; congr (_ + _).
by rewrite lin_uE !mulmxA post_cov_AtiS.
Qed.

(* calculate_posterior_mean = mean of calculate_posterior *)
Lemma mean_only_eq_full :
  @lin_post_mean_only O n K W u pm = @lin_post_mean O n (@lin_post_cov O n K W) u pm.
Proof. by rewrite /lin_post_mean_only /lin_post_mean_only_s /lin_post_mean /lin_post_cov /lin_post_cov_s /= mulmxA. Qed.

(* symmetry *)
Hypothesis sK : K^T = K.
Hypothesis sS : Sg^T = Sg.

Lemma lin_J_sym : J^T = J.
Proof. by rewrite lin_JE linearD /= !trmx_mul trmxK sK sS mulmxA. Qed.

Lemma post_cov_sym : (@lin_post_cov O n K W)^T = @lin_post_cov O n K W.
Proof.
rewrite post_cov_closed linearB /= sK; congr (_ - _).
by rewrite !trmx_mul trmxK sK (invmx_sym lin_J_sym) !mulmxA.
Qed.

(* 0 <= posterior covariance <= K  (Loewner order) when K and Sg are PSD *)
Hypothesis pK : psd K.
Hypothesis pS : psd Sg.

Lemma lin_J_psd : psd J.
Proof.
rewrite lin_JE; apply: psd_add => //.
have -> : A *m K *m A^T = (A^T)^T *m K *m A^T by rewrite trmxK.
exact: psd_congr.
Qed.

Lemma prior_minus_post_psd : psd (K - @lin_post_cov O n K W).
Proof.
rewrite post_cov_closed opprB addrC subrK.
have -> : K *m A^T *m invmx J *m A *m K = (A *m K)^T *m invmx J *m (A *m K).
  by rewrite trmx_mul sK !mulmxA.
apply: psd_congr; apply: psd_inv => //; [exact: lin_J_sym | exact: lin_J_psd].
Qed.

Lemma post_cov_psd : psd (@lin_post_cov O n K W).
Proof.
rewrite post_cov_closed.
have jp : psd (block_mx (A *m K *m A^T + Sg) (K *m A^T)^T (K *m A^T) K).
  apply: joint_psd => //.
  have -> : block_mx (A *m K *m A^T) (K *m A^T)^T (K *m A^T) K
            = ((col_mx A 1%:M)^T)^T *m K *m (col_mx A 1%:M)^T.
    rewrite trmxK tr_col_mx mul_col_mx mul_col_row trmx1 !mul1mx !mulmx1.
    by rewrite trmx_mul trmxK sK.
  exact: psd_congr.
have := @schur_psd R m n J (K *m A^T)^T K lin_J_sym uJ.
rewrite trmxK => /(_ jp).
by rewrite trmx_mul trmxK sK !mulmxA.
Qed.

End Posterior.

(* with PD data covariance and PSD prior covariance the solve is always defined *)
Lemma lin_J_unit m n (A : 'M[R]_(m, n)) (K : 'M[R]_n) (Sg : 'M[R]_m) :
  psd K -> pd Sg -> @lin_J O m n A K Sg \in unitmx.
Proof.
move=> pK pS; apply: pd_unit; rewrite /lin_J /=; apply: pd_add => //.
have -> : A *m K *m A^T = (A^T)^T *m K *m A^T by rewrite trmxK.
exact: psd_congr.
Qed.

(* ---- the code path as written: sigma = diag(y_err^2), inv_sigma = diag(y_err^-2) ---- *)
Section Pipeline.
Variables (m n : nat).
Variables (A : 'M[R]_(m, n)) (e y : 'cV[R]_m) (K : 'M[R]_n) (pm : 'cV[R]_n).
Hypothesis e_nz : forall i, e i 0 != 0.
Let Sg : 'M[R]_m := @lin_sigma O m e.
Let J : 'M[R]_m := A *m K *m A^T + Sg.

Lemma calc_posterior_unfold :
  @calculate_posterior O m n A e y K pm
  = (@lin_post_mean O n (@lin_post_cov O n K (@lin_W O m n A (invmx Sg)))
                    (@lin_u O m n A (invmx Sg) y pm) pm,
     @lin_post_cov O n K (@lin_W O m n A (invmx Sg))).
Proof. by rewrite /calculate_posterior (lin_inv_sigma_inv e_nz). Qed.

Lemma calc_posterior_mean_unfold :
  @calculate_posterior_mean O m n A e y K pm
  = @lin_post_mean_only O n K (@lin_W O m n A (invmx Sg)) (@lin_u O m n A (invmx Sg) y pm) pm.
Proof. by rewrite /calculate_posterior_mean (lin_inv_sigma_inv e_nz). Qed.

Section WithJ.
Hypothesis uJ : J \in unitmx.

Lemma calc_post_cov_closed :
  (@calculate_posterior O m n A e y K pm).2 = K - K *m A^T *m invmx J *m A *m K.
Proof. rewrite calc_posterior_unfold; exact: (post_cov_closed (lin_sigma_unit e_nz) uJ). Qed.

Lemma calc_post_mean_closed :
  (@calculate_posterior O m n A e y K pm).1 = pm + K *m A^T *m invmx J *m (y - A *m pm).
Proof. rewrite calc_posterior_unfold; exact: (post_mean_closed y pm (lin_sigma_unit e_nz) uJ). Qed.

Lemma calc_post_cov_precision :
  K \in unitmx ->
  (@calculate_posterior O m n A e y K pm).2 = invmx (invmx K + A^T *m invmx Sg *m A).
Proof.
move=> uK; rewrite calc_posterior_unfold.
exact: (post_cov_precision (lin_sigma_unit e_nz) uJ uK).
Qed.

Lemma calc_mean_only_eq_full :
  @calculate_posterior_mean O m n A e y K pm = (@calculate_posterior O m n A e y K pm).1.
Proof.
rewrite calc_posterior_mean_unfold calc_posterior_unfold.
exact: mean_only_eq_full.
Qed.

Lemma calc_post_cov_sym :
  K^T = K ->
  ((@calculate_posterior O m n A e y K pm).2)^T = (@calculate_posterior O m n A e y K pm).2.
Proof.
move=> sK; rewrite calc_posterior_unfold.
exact: (post_cov_sym (lin_sigma_unit e_nz) uJ sK (lin_sigma_sym e)).
Qed.

End WithJ.

(* with a PSD prior covariance nothing has to be assumed about J *)
Hypothesis sK : K^T = K.
Hypothesis pK : psd K.

Lemma calc_J_unit : J \in unitmx.
Proof. exact: (lin_J_unit A pK (lin_sigma_pd e_nz)). Qed.

Lemma calc_system_unit :
  @lin_system O n K (@lin_W O m n A (@lin_inv_sigma O m e)) \in unitmx.
Proof.
rewrite (lin_inv_sigma_inv e_nz).
exact: (lin_system_unit (lin_sigma_unit e_nz) calc_J_unit).
Qed.

Lemma calc_post_cov_order :
  psd (@calculate_posterior O m n A e y K pm).2
  /\ psd (K - (@calculate_posterior O m n A e y K pm).2).
Proof.
rewrite calc_posterior_unfold; split.
- exact: (post_cov_psd (lin_sigma_unit e_nz) calc_J_unit sK (lin_sigma_sym e) pK (lin_sigma_psd e)).
- exact: (prior_minus_post_psd (lin_sigma_unit e_nz) calc_J_unit sK (lin_sigma_sym e) pK (lin_sigma_psd e)).
Qed.

End Pipeline.

(* ---- evidence ------------------------------------------------------------------------- *)
Section Evidence.
Variables (m : nat) (J L : 'M[R]_m) (r : 'cV[R]_m).
Hypothesis HL : L *m L^T = J.
Hypothesis uL : L \in unitmx.

(* v.v with v = L^-1 r is the quadratic form r^T J^-1 r *)
Lemma lml_quad_closed :
  @lin_lml_quad O m L r = (- (2%:R^-1 : R)) *: (r^T *m invmx J *m r).
Proof.
rewrite /lin_lml_quad /lin_lml_quad_s /= (inv_of_factor HL uL).
rewrite Q2F_mhalf; congr (_ *: _).
by rewrite trmx_mul trmx_inv !mulmxA.
Qed.

(* the gradient routine's inverse and value agree with it *)
Lemma lin_iJ_closed : @lin_iJ O m L = invmx J.
Proof. by rewrite /lin_iJ /lin_iJ_s /= mulmx1 (inv_of_factor HL uL) trmx_inv. Qed.

Lemma lml_quad_grad_same_value :
  @lin_lml_quad_grad O m r (@lin_alpha O m (@lin_iJ O m L) r) = @lin_lml_quad O m L r.
Proof.
by rewrite lml_quad_closed lin_iJ_closed /lin_lml_quad_grad /lin_alpha /= mulmxA Q2F_mhalf.
Qed.

(* det J = (prod of the diagonal of L)^2 for a triangular factor: the log-det
   term  log(diagonal(L)).sum()  is  1/2 ln det J *)
Lemma det_of_factor : is_trig_mx L -> \det J = (\prod_i L i i) ^+ 2.
Proof. by move=> tL; rewrite -HL det_mulmx det_tr (det_trig tL) expr2. Qed.

End Evidence.

(* the gradient's trace forms *)
Section Gradient.
Variables (m : nat) (alpha : 'cV[R]_m) (iJ dJ : 'M[R]_m) (df : 'cV[R]_m).

Lemma grad_mean_form : @lin_grad_mean O m alpha df = alpha^T *m df.
Proof.
rewrite /lin_grad_mean msumE; apply/matrixP=> i j; rewrite !ord1 !mxE eqxx mulr1n.
by apply: eq_bigr => k _; rewrite !mxE.
Qed.

(* 0.5 * (Q * dJ.T).sum() = 1/2 tr((alpha alpha^T - J^-1) dJ) *)
Lemma grad_cov_trace_form :
  @lin_grad_cov O m alpha iJ dJ = (2%:R^-1 * \tr ((alpha *m alpha^T - iJ) *m dJ))%:M.
Proof.
rewrite /lin_grad_cov /lin_grad_cov_of /lin_grad_Q mhadsumE /= Q2F_half scale_scalar_mx.
congr (_ * _)%:M; rewrite /mxtrace; apply: eq_bigr => i _; rewrite [RHS]mxE.
by apply: eq_bigr => k _; rewrite !mxE.
Qed.

End Gradient.

End Lin.
