(* C08 (d): steps of different processes commute; hence (Common/Confluence) the
   final state of the process system does not depend on the schedule.
   Proved for every number of workers, every coordinator tree, every
   deterministic handler. *)
From Coq Require Import List Arith Bool Lia QArith.
From IT Require Import Common.Confluence Model.Tempering.
Import ListNotations.
Open Scope nat_scope.

Section SysProofs.
  Variables (M Rp W Res : Type).
  Variable hdl : nat -> M -> W -> W * list Rp.
  Variable N : nat.

  Notation Sys := (sys M Rp W Res).
  Notation Worker := (worker M Rp W).
  Notation stp := (@step M Rp W Res hdl N).
  Notation eqs := (@seq_sys M Rp W Res).

  (* ------------------------------------------------------------- the map *)
  Lemma upd_same : forall (f : nat -> Worker) i w, upd f i w i = w.
  Proof. intros. unfold upd. rewrite Nat.eqb_refl. reflexivity. Qed.

  Lemma upd_other : forall (f : nat -> Worker) i w j, j <> i -> upd f i w j = f j.
  Proof. intros f i w j H. unfold upd. apply Nat.eqb_neq in H. rewrite H. reflexivity. Qed.

  Lemma upd_ext : forall (f g : nat -> Worker) i w w',
    (forall x, f x = g x) -> w = w' -> forall x, upd f i w x = upd g i w' x.
  Proof. intros f g i w w' H E x. unfold upd. subst. destruct (x =? i); [reflexivity | apply H]. Qed.

  Lemma upd_comm : forall (f : nat -> Worker) i j a b, i <> j ->
    forall x, upd (upd f i a) j b x = upd (upd f j b) i a x.
  Proof.
    intros f i j a b Hne x. unfold upd.
    destruct (Nat.eqb_spec x j); destruct (Nat.eqb_spec x i); subst; try reflexivity. contradiction.
  Qed.

  Lemma upd_twice : forall (f : nat -> Worker) i a b x, upd (upd f i a) i b x = upd f i b x.
  Proof. intros. unfold upd. destruct (x =? i); reflexivity. Qed.

  (* ----------------------------------------------------- the equivalence *)
  Lemma eqs_refl : forall s : Sys, eqs s s.
  Proof. intros s. split; [reflexivity | intros; reflexivity]. Qed.

  Lemma eqs_sym : forall s t : Sys, eqs s t -> eqs t s.
  Proof. intros s t [H1 H2]. split; [symmetry; assumption | intros i; symmetry; apply H2]. Qed.

  Lemma eqs_trans : forall s t u : Sys, eqs s t -> eqs t u -> eqs s u.
  Proof.
    intros s t u [H1 H2] [H3 H4]. split; [congruence |]. intros i. rewrite H2. apply H4.
  Qed.

  Lemma step_compat : forall s s' t : Sys, eqs s s' -> stp s t -> exists t', stp s' t' /\ eqs t t'.
  Proof.
    intros s [c' f'] t [Hc Hf] Hst. simpl in Hc, Hf.
    inversion Hst as [i m k f | i k f r rest Hout | i c f m rest Hi Hin]; subst; simpl in *; subst.
    - exists (mkSys k (upd f' i (push_in m (f' i)))). split; [constructor |].
      split; [reflexivity |]. simpl. apply upd_ext; [assumption | rewrite Hf; reflexivity].
    - exists (mkSys (k r) (upd f' i (pop_out rest (f' i)))). split.
      + constructor. rewrite <- Hf. assumption.
      + split; [reflexivity |]. simpl. apply upd_ext; [assumption | rewrite Hf; reflexivity].
    - exists (mkSys c (upd f' i (work hdl i m rest (f' i)))). split.
      + constructor; [assumption | rewrite <- Hf; assumption].
      + split; [reflexivity |]. simpl. apply upd_ext; [assumption | rewrite Hf; reflexivity].
  Qed.

  (* ------------------------------------------------ commuting the steps *)
  (* coordinator pushes at the tail of an inbox, the worker pops its head *)
  Lemma send_work_commute : forall i m k (f : nat -> Worker) j m0 rest,
    j < N -> inbox (f j) = m0 :: rest ->
    exists c c' : Sys,
      stp (mkSys k (upd f i (push_in m (f i)))) c /\
      stp (mkSys (Send i m k) (upd f j (work hdl j m0 rest (f j)))) c' /\
      eqs c c'.
  Proof.
    intros i m k f j m0 rest Hj Hin.
    destruct (Nat.eq_dec j i) as [-> | Hne].
    - exists (mkSys k (upd (upd f i (push_in m (f i))) i
                          (work hdl i m0 (rest ++ [m]) (upd f i (push_in m (f i)) i)))).
      exists (mkSys k (upd (upd f i (work hdl i m0 rest (f i))) i
                          (push_in m (upd f i (work hdl i m0 rest (f i)) i)))).
      split; [| split].
      + constructor; [assumption |]. rewrite upd_same. simpl. rewrite Hin. reflexivity.
      + constructor.
      + split; [reflexivity |]. simpl. intros x. rewrite !upd_twice.
        apply upd_ext; [reflexivity |]. rewrite !upd_same. reflexivity.
    - exists (mkSys k (upd (upd f i (push_in m (f i))) j
                          (work hdl j m0 rest (upd f i (push_in m (f i)) j)))).
      exists (mkSys k (upd (upd f j (work hdl j m0 rest (f j))) i
                          (push_in m (upd f j (work hdl j m0 rest (f j)) i)))).
      split; [| split].
      + constructor; [assumption |]. rewrite upd_other by assumption. assumption.
      + constructor.
      + split; [reflexivity |]. simpl. intros x.
        rewrite (upd_other f i _ j) by assumption.
        rewrite (upd_other f j _ i) by (intros E; apply Hne; symmetry; exact E).
        apply upd_comm. intros E; apply Hne; symmetry; exact E.
  Qed.

  (* coordinator pops the head of an outbox, the worker appends at its tail *)
  Lemma recv_work_commute : forall i k (f : nat -> Worker) r rest j m0 restm,
    outbox (f i) = r :: rest -> j < N -> inbox (f j) = m0 :: restm ->
    exists c c' : Sys,
      stp (mkSys (k r) (upd f i (pop_out rest (f i)))) c /\
      stp (mkSys (Recv i k) (upd f j (work hdl j m0 restm (f j)))) c' /\
      eqs c c'.
  Proof.
    intros i k f r rest j m0 restm Hout Hj Hin.
    destruct (Nat.eq_dec j i) as [-> | Hne].
    - set (rs := snd (hdl i m0 (wstate (f i)))).
      exists (mkSys (k r) (upd (upd f i (pop_out rest (f i))) i
                              (work hdl i m0 restm (upd f i (pop_out rest (f i)) i)))).
      exists (mkSys (k r) (upd (upd f i (work hdl i m0 restm (f i))) i
                              (pop_out (rest ++ rs) (upd f i (work hdl i m0 restm (f i)) i)))).
      split; [| split].
      + constructor; [assumption |]. rewrite upd_same. simpl. assumption.
      + constructor. rewrite upd_same. simpl. rewrite Hout. reflexivity.
      + split; [reflexivity |]. simpl. intros x. rewrite !upd_twice.
        apply upd_ext; [reflexivity |]. rewrite !upd_same. reflexivity.
    - exists (mkSys (k r) (upd (upd f i (pop_out rest (f i))) j
                              (work hdl j m0 restm (upd f i (pop_out rest (f i)) j)))).
      exists (mkSys (k r) (upd (upd f j (work hdl j m0 restm (f j))) i
                              (pop_out rest (upd f j (work hdl j m0 restm (f j)) i)))).
      split; [| split].
      + constructor; [assumption |]. rewrite upd_other by assumption. assumption.
      + constructor. rewrite upd_other by (intros E; apply Hne; symmetry; exact E). assumption.
      + split; [reflexivity |]. simpl. intros x.
        rewrite (upd_other f i _ j) by assumption.
        rewrite (upd_other f j _ i) by (intros E; apply Hne; symmetry; exact E).
        apply upd_comm. intros E; apply Hne; symmetry; exact E.
  Qed.

  (* two different workers *)
  Lemma work_work_commute : forall (c0 : coord M Rp Res) (f : nat -> Worker) i m rest j m0 rest0,
    i <> j -> i < N -> inbox (f i) = m :: rest -> j < N -> inbox (f j) = m0 :: rest0 ->
    exists c c' : Sys,
      stp (mkSys c0 (upd f i (work hdl i m rest (f i)))) c /\
      stp (mkSys c0 (upd f j (work hdl j m0 rest0 (f j)))) c' /\
      eqs c c'.
  Proof.
    intros c0 f i m rest j m0 rest0 Hne Hi Hini Hj Hinj.
    exists (mkSys c0 (upd (upd f i (work hdl i m rest (f i))) j
                        (work hdl j m0 rest0 (upd f i (work hdl i m rest (f i)) j)))).
    exists (mkSys c0 (upd (upd f j (work hdl j m0 rest0 (f j))) i
                        (work hdl i m rest (upd f j (work hdl j m0 rest0 (f j)) i)))).
    split; [| split].
    - constructor; [assumption |]. rewrite upd_other by (intros E; apply Hne; symmetry; exact E). assumption.
    - constructor; [assumption |]. rewrite upd_other by assumption. assumption.
    - split; [reflexivity |]. simpl. intros x.
      rewrite (upd_other f i _ j) by (intros E; apply Hne; symmetry; exact E).
      rewrite (upd_other f j _ i) by assumption.
      apply upd_comm. assumption.
  Qed.

  Lemma join_sym : forall a b : Sys,
    (exists c c', stp a c /\ stp b c' /\ eqs c c') ->
    (exists c c', stp b c /\ stp a c' /\ eqs c c').
  Proof.
    intros a b [c [c' [H1 [H2 H3]]]]. exists c', c. split; [assumption |]. split; [assumption |].
    apply eqs_sym. assumption.
  Qed.

  (* the one-step diamond *)
  Theorem steps_diamond : forall s a b : Sys, stp s a -> stp s b ->
    eqs a b \/ exists c c', stp a c /\ stp b c' /\ eqs c c'.
  Proof.
    intros s a b Ha Hb.
    inversion Ha as [i m k f | i k f r rest Hout | i c f m rest Hi Hin]; subst;
    inversion Hb as [i' m' k' f' Es | i' k' f' r' rest' Hout' Es | i' c' f' m' rest' Hi' Hin' Es]; subst.
    - (* send / send: the coordinator is deterministic *)
      left. apply eqs_refl.
    - (* send / work *)
      right. apply send_work_commute; assumption.
    - (* recv / recv *)
      left. rewrite Hout in Hout'. inversion Hout'; subst. apply eqs_refl.
    - (* recv / work *)
      right. apply recv_work_commute; assumption.
    - (* work / send *)
      right. apply join_sym. apply send_work_commute; assumption.
    - (* work / recv *)
      right. apply join_sym. apply recv_work_commute; assumption.
    - (* work / work *)
      destruct (Nat.eq_dec i i') as [<- | Hne].
      + left. rewrite Hin in Hin'. inversion Hin'; subst. apply eqs_refl.
      + right. apply work_work_commute; assumption.
  Qed.

  (* ------------------------------------------- schedule independence *)
  Theorem schedule_independent : forall n m (s t1 t2 : Sys),
    steps stp n s t1 -> terminal stp t1 ->
    steps stp m s t2 -> terminal stp t2 ->
    n = m /\ eqs t1 t2.
  Proof.
    intros n m s t1 t2.
    apply (unique_terminal Sys eqs stp eqs_refl eqs_sym eqs_trans step_compat steps_diamond).
  Qed.

  (* no schedule is longer than a complete one, and every partial schedule can
     be completed to the same final state *)
  Theorem schedule_bounded : forall n (s t1 : Sys), steps stp n s t1 -> terminal stp t1 ->
    forall m t2, steps stp m s t2 ->
      m <= n /\ exists t2', steps stp (n - m) t2 t2' /\ terminal stp t2' /\ eqs t2' t1.
  Proof.
    intros n s t1 H1 T1 m t2 H2. split.
    - exact (bounded_runs Sys eqs stp eqs_refl eqs_sym eqs_trans step_compat steps_diamond
               n s t1 H1 T1 m t2 H2).
    - exact (every_run_completes Sys eqs stp eqs_refl eqs_sym eqs_trans step_compat steps_diamond
               n s t1 H1 T1 m t2 H2).
  Qed.

  (* --------------------------- the executable scheduler produces real runs *)
  Lemma coord_move_step : forall s s' : Sys, coord_move s = Some s' -> stp s s'.
  Proof.
    intros [c f] s' H. unfold coord_move in H. simpl in H.
    destruct c as [r | i m k | i k]; [discriminate | |].
    - inversion H; subst. constructor.
    - destruct (outbox (f i)) as [| r rest] eqn:Hout; [discriminate |].
      inversion H; subst. constructor. assumption.
  Qed.

  Lemma work_move_step : forall i (s s' : Sys), i < N -> work_move hdl i s = Some s' -> stp s s'.
  Proof.
    intros i [c f] s' Hi H. unfold work_move in H. simpl in H.
    destruct (inbox (f i)) as [| m rest] eqn:Hin; [discriminate |].
    inversion H; subst. constructor; assumption.
  Qed.

  Lemma first_work_step : forall idx (s s' : Sys), (forall i, In i idx -> i < N) ->
    first_work hdl idx s = Some s' -> stp s s'.
  Proof.
    induction idx as [| i t IH]; intros s s' Hidx H; simpl in H; [discriminate |].
    destruct (work_move hdl i s) as [s1 |] eqn:Hw.
    - inversion H; subst. apply (work_move_step i); [apply Hidx; left; reflexivity | assumption].
    - apply IH; [intros j Hj; apply Hidx; right; assumption | assumption].
  Qed.

  Lemma sched_step : forall cf order (s s' : Sys), (forall i, In i order -> i < N) ->
    sched hdl cf order s = Some s' -> stp s s'.
  Proof.
    intros cf order s s' Ho H. unfold sched in H. destruct cf.
    - destruct (coord_move s) as [s1 |] eqn:Hc.
      + inversion H; subst. apply coord_move_step. assumption.
      + apply (first_work_step order); assumption.
    - destruct (first_work hdl order s) as [s1 |] eqn:Hw.
      + inversion H; subst. apply (first_work_step order); assumption.
      + apply coord_move_step. assumption.
  Qed.

  Lemma run_steps : forall cf order fuel (s t : Sys) n, (forall i, In i order -> i < N) ->
    run hdl cf order fuel s = (t, n) -> steps stp n s t.
  Proof.
    intros cf order fuel. induction fuel as [| f IH]; intros s t n Ho H; simpl in H.
    - inversion H; subst. constructor.
    - destruct (sched hdl cf order s) as [s1 |] eqn:Hs.
      + destruct (run hdl cf order f s1) as [t1 n1] eqn:Hr. inversion H; subst.
        econstructor; [apply (sched_step cf order); eassumption | apply IH; assumption].
      + inversion H; subst. constructor.
  Qed.

  Lemma stuck_terminal : forall s : Sys, stuck N s = true -> terminal stp s.
  Proof.
    intros s Hst t Hstep. unfold stuck in Hst.
    inversion Hstep as [i m k f | i k f r rest Hout | i c f m rest Hi Hin]; subst.
    - simpl in Hst. discriminate.
    - unfold coord_move in Hst. simpl in Hst. rewrite Hout in Hst. discriminate.
    - destruct (coord_move (mkSys c f)); [discriminate |].
      rewrite forallb_forall in Hst. specialize (Hst i).
      simpl in Hst. rewrite Hin in Hst.
      assert (In i (seq 0 N)) by (apply in_seq; lia).
      specialize (Hst H). discriminate.
  Qed.

  (* the reference run decides the outcome of EVERY schedule *)
  Theorem reference_run_decides : forall cf order fuel (s t : Sys) n,
    (forall i, In i order -> i < N) ->
    run hdl cf order fuel s = (t, n) -> stuck N t = true ->
    forall m t2, steps stp m s t2 ->
      m <= n /\ (terminal stp t2 -> m = n /\ co t2 = co t /\ forall i, ws t2 i = ws t i).
  Proof.
    intros cf order fuel s t n Ho Hrun Hstuck m t2 Hm.
    pose proof (run_steps cf order fuel s t n Ho Hrun) as Hr.
    pose proof (stuck_terminal t Hstuck) as Ht.
    destruct (schedule_bounded n s t Hr Ht m t2 Hm) as [Hle _].
    split; [assumption |]. intros Ht2.
    destruct (schedule_independent n m s t t2 Hr Ht Hm Ht2) as [Hn [Hco Hws]].
    split; [symmetry; assumption |]. split; [symmetry; assumption |].
    intros i. symmetry. apply Hws.
  Qed.
End SysProofs.

(* the ParallelTempering instance: every chain step function, every list of
   chains, every sequence of user calls, every script *)
Theorem pt_schedule_independent :
  forall (take_step : chain -> chain) chains calls choices draws unis n m t1 t2,
    let N := length chains in
    let hd := fun (_ : nat) => handle take_step in
    let s := pt_init chains calls choices draws unis in
    steps (step hd N) n s t1 -> terminal (step hd N) t1 ->
    steps (step hd N) m s t2 -> terminal (step hd N) t2 ->
    n = m /\ co t1 = co t2 /\ (forall i, ws t1 i = ws t2 i).
Proof.
  intros take_step chains calls choices draws unis n m t1 t2 N hd s H1 T1 H2 T2.
  destruct (schedule_independent msg reply chain outcome hd N n m s t1 t2 H1 T1 H2 T2) as [Hn [Hc Hw]].
  split; [assumption |]. split; assumption.
Qed.

(* Defect D9 in the pinned tree: with display_progress=False the chain cannot be
   pickled, the worker sends nothing, and return_chains() never returns -- under
   EVERY schedule (the reference run blocks at the first Recv, and by
   reference_run_decides so does every complete schedule). *)
Definition d9_chain : chain := mkChain 1 [([0%Q], 0%Q)] [] [] false.
Definition d9_sys := pt_init [d9_chain] [CReturnChains] [] [] [].
Definition d9_handler := fun (_ : nat) => handle_pinned (fun _ => false) chain_step.

Theorem return_chains_pinned_refuted :
  forall m t2, steps (step d9_handler 1) m d9_sys t2 -> terminal (step d9_handler 1) t2 ->
  forall r, co t2 <> Done r.
Proof.
  intros m t2 Hm Ht2 r.
  remember (run d9_handler true [0] 50 d9_sys) as res eqn:Hres.
  destruct res as [t n].
  assert (Hst : stuck 1 (fst (run d9_handler true [0] 50 d9_sys)) = true) by (vm_compute; reflexivity).
  assert (Hco : match co (fst (run d9_handler true [0] 50 d9_sys)) with Done _ => False | _ => True end)
    by (vm_compute; exact I).
  rewrite <- Hres in Hst, Hco. simpl in Hst, Hco.
  assert (Ho : forall i, In i [0] -> i < 1) by (intros i [<- | []]; lia).
  destruct (reference_run_decides msg reply chain outcome d9_handler 1 true [0] 50 d9_sys t n
              Ho (eq_sym Hres) Hst m t2 Hm) as [_ H].
  destruct (H Ht2) as [_ [Hc _]]. rewrite Hc. intros E. rewrite E in Hco. exact Hco.
Qed.

(* ... while the repaired handler hands the chain back *)
Lemma return_chains_repaired :
  match co (fst (run pt_handler true [0] 50 d9_sys)) with
  | Done (Finished st) => cs_snaps st = [[d9_chain]]
  | _ => False
  end.
Proof. vm_compute. reflexivity. Qed.
