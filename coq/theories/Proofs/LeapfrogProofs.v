(* Lemmas about Model/Leapfrog.v (property C07). *)
From Coq Require Import List Arith QArith Qround Qabs ZArith Bool Lia Lqa Setoid Morphisms.
From IT Require Import Model.Leapfrog.
From IT Require Model.Reflect Proofs.ReflectProofs.
Import ListNotations.
Open Scope Q_scope.

#[global] Arguments Qred : simpl never.
#[global] Arguments Qplus : simpl never.
#[global] Arguments Qmult : simpl never.
#[global] Arguments Qopp : simpl never.
#[global] Arguments Qminus : simpl never.
#[global] Arguments Qinv : simpl never.
#[global] Arguments Qdiv : simpl never.
#[global] Arguments Qfloor : simpl never.
#[global] Arguments inject_Z : simpl never.

Ltac qred := repeat match goal with |- context [Qred ?x] => setoid_rewrite (Qred_correct x) end.

(* ---- equality of vectors / states up to == on Q --------------------------- *)

Definition veq : vec -> vec -> Prop := Forall2 Qeq.
Definition seq_ (s s' : state) : Prop := veq (fst s) (fst s') /\ veq (snd s) (snd s').

Infix "=v=" := veq (at level 70).
Infix "=s=" := seq_ (at level 70).

#[global] Instance veq_equiv : Equivalence veq.
Proof.
  split.
  - intros a. induction a; constructor; auto. reflexivity.
  - intros a b H. induction H; constructor; auto. symmetry; auto.
  - intros a b c H. revert c. induction H; intros c Hc; inversion Hc; subst.
    + constructor.
    + constructor; [etransitivity; eauto | apply IHForall2; assumption].
Qed.

#[global] Instance seq_equiv : Equivalence seq_.
Proof.
  split.
  - intros [a b]; split; reflexivity.
  - intros [a b] [c d] [H1 H2]; split; symmetry; auto.
  - intros [a b] [c d] [e f] [H1 H2] [H3 H4]; split; etransitivity; eauto.
Qed.

#[global] Instance vaxpy_proper : Proper (veq ==> Qeq ==> veq ==> veq) vaxpy.
Proof.
  intros a a' Ha c c' Hc b b' Hb. revert b b' Hb.
  induction Ha as [|x x' a a' Hx Ha IH]; intros b b' Hb; simpl.
  - constructor.
  - destruct Hb as [|y y' b b' Hy Hb].
    + constructor; auto.
    + constructor; [qred; rewrite Hx, Hc, Hy; reflexivity | apply IH; auto].
Qed.

#[global] Instance vmul_keep_proper : Proper (veq ==> veq ==> veq) vmul_keep.
Proof.
  intros a a' Ha b b' Hb. revert b b' Hb.
  induction Ha as [|x x' a a' Hx Ha IH]; intros b b' Hb; simpl.
  - constructor.
  - destruct Hb as [|y y' b b' Hy Hb].
    + constructor; auto.
    + constructor; [qred; rewrite Hx, Hy; reflexivity | apply IH; auto].
Qed.

#[global] Instance vneg_proper : Proper (veq ==> veq) vneg.
Proof.
  intros a a' Ha. induction Ha; simpl; constructor; auto. rewrite H; reflexivity.
Qed.

#[global] Instance dot_proper : Proper (veq ==> veq ==> Qeq) dot.
Proof.
  intros a a' Ha b b' Hb. revert b b' Hb.
  induction Ha as [|x x' a a' Hx Ha IH]; intros b b' Hb; simpl.
  - reflexivity.
  - destruct Hb as [|y y' b b' Hy Hb]; [reflexivity|].
    qred; rewrite Hx, Hy, (IH _ _ Hb). reflexivity.
Qed.

Lemma mat_vec_proper_r : forall M v v', v =v= v' -> mat_vec M v =v= mat_vec M v'.
Proof.
  intros M v v' H. unfold mat_vec. induction M; simpl; constructor; auto.
  apply dot_proper; [reflexivity | exact H].
Qed.

Lemma get_velocity_proper : forall m r r', r =v= r' -> get_velocity m r =v= get_velocity m r'.
Proof.
  intros [im|ims|rows] r r' H; simpl.
  - induction H; simpl; constructor; auto. qred; rewrite H; reflexivity.
  - apply vmul_keep_proper; [exact H | reflexivity].
  - apply mat_vec_proper_r; exact H.
Qed.

#[global] Instance flip_proper : Proper (seq_ ==> seq_) flip.
Proof. intros [a b] [c d] [H1 H2]; split; simpl in *; auto. apply vneg_proper; auto. Qed.

(* ---- algebra of the vector operations --------------------------------------- *)

Lemma vneg_involutive : forall a, vneg (vneg a) =v= a.
Proof. induction a; simpl; constructor; auto. ring. Qed.

Lemma vaxpy_merge : forall a c d b, vaxpy (vaxpy a c b) d b =v= vaxpy a (d + c) b.
Proof.
  induction a as [|x a IH]; intros c d [|y b]; simpl; try reflexivity.
  constructor; [qred; ring | apply IH].
Qed.

(* the kick undone:  -( -(r + h g) + h g ) = r *)
Lemma vaxpy_neg_cancel : forall r h g, vaxpy (vneg (vaxpy r h g)) h g =v= vneg r.
Proof.
  induction r as [|x r IH]; intros h [|y g]; simpl; try reflexivity.
  constructor; [qred; ring | apply IH].
Qed.

(* the drift undone:  (t + e v) + e (-v) = t *)
Lemma vaxpy_cancel : forall t e v, vaxpy (vaxpy t e v) e (vneg v) =v= t.
Proof.
  induction t as [|x t IH]; intros e [|y v]; simpl; try reflexivity.
  constructor; [qred; ring | apply IH].
Qed.

Lemma dot_neg_r : forall a b, dot a (vneg b) == - dot a b.
Proof.
  induction a as [|x a IH]; intros [|y b]; simpl; try ring.
  qred; rewrite IH. ring.
Qed.

Lemma vmul_keep_neg_l : forall a b, vmul_keep (vneg a) b =v= vneg (vmul_keep a b).
Proof.
  induction a as [|x a IH]; intros [|y b]; simpl; try reflexivity.
  constructor; [qred; ring | apply IH].
Qed.

(* the velocity is an odd function of the momentum, for every mass kind *)
Lemma get_velocity_neg : forall m r, get_velocity m (vneg r) =v= vneg (get_velocity m r).
Proof.
  intros [im|ims|rows] r; simpl.
  - induction r; simpl; constructor; auto. qred; ring.
  - apply vmul_keep_neg_l.
  - unfold mat_vec. induction rows; simpl; constructor; auto. apply dot_neg_r.
Qed.

Lemma iter_succ_r : forall {A} (f : A -> A) n x, Nat.iter (S n) f x = Nat.iter n f (f x).
Proof. intros A f n x. induction n; simpl in *; [reflexivity | rewrite IHn; reflexivity]. Qed.

(* ---- the integrator --------------------------------------------------------- *)

Section Free.
  Variable grad : vec -> vec.
  Variable m : mass.
  Variable inv_temp eps : Q.
  Hypothesis grad_proper : forall t t', t =v= t' -> grad t =v= grad t'.

  Notation kick := (kick grad).
  Notation drift := (drift m eps).
  Notation kdk := (kdk grad m inv_temp eps).
  Notation inner := (inner grad m inv_temp eps).
  Notation leapfrog := (standard_leapfrog grad m inv_temp eps).
  Notation rs := (r_step inv_temp eps).

  Lemma kick_proper : forall h h' s s', h == h' -> s =s= s' -> kick h s =s= kick h' s'.
  Proof.
    intros h h' [t r] [t' r'] Hh [Ht Hr]; split; simpl in *; auto.
    apply vaxpy_proper; auto.
  Qed.

  Lemma drift_proper : forall s s', s =s= s' -> drift s =s= drift s'.
  Proof.
    intros [t r] [t' r'] [Ht Hr]; split; simpl in *; auto.
    apply vaxpy_proper; auto; [reflexivity | apply get_velocity_proper; auto].
  Qed.

  Lemma kdk_proper : forall s s', s =s= s' -> kdk s =s= kdk s'.
  Proof.
    intros s s' H. unfold Leapfrog.kdk.
    apply kick_proper; [reflexivity|]. apply drift_proper. apply kick_proper; [reflexivity | exact H].
  Qed.

  Lemma iter_proper : forall (f : state -> state), (forall s s', s =s= s' -> f s =s= f s') ->
    forall n s s', s =s= s' -> Nat.iter n f s =s= Nat.iter n f s'.
  Proof. intros f Hf n. induction n; intros s s' H; simpl; auto. Qed.

  (* two kicks at the same position merge *)
  Lemma kick_kick : forall h1 h2 s, kick h1 (kick h2 s) =s= kick (h1 + h2) s.
  Proof. intros h1 h2 [t r]; split; simpl; [reflexivity | apply vaxpy_merge]. Qed.

  Lemma inner_as_half_kicks : forall s,
    inner (kick ((1 # 2) * rs) s) =s= kick ((1 # 2) * rs) (kdk s).
  Proof.
    intros s. unfold Leapfrog.inner, Leapfrog.kdk.
    rewrite kick_kick. apply kick_proper; [ring | reflexivity].
  Qed.

  Lemma loop_as_kdk : forall k s,
    Nat.iter k inner (kick ((1 # 2) * rs) s) =s= kick ((1 # 2) * rs) (Nat.iter k kdk s).
  Proof.
    induction k; intros s; simpl; [reflexivity|].
    etransitivity; [|apply inner_as_half_kicks].
    unfold Leapfrog.inner. apply kick_proper; [reflexivity|]. apply drift_proper. apply IHk.
  Qed.

  (* [T] the code's loop (merged half kicks) is max(n,1) kick-drift-kick steps *)
  Lemma leapfrog_is_kdk_power : forall n t r,
    leapfrog t r n =s= Nat.iter (Nat.max 1 n) kdk (t, r).
  Proof.
    intros n t r. unfold Leapfrog.standard_leapfrog.
    replace (Nat.max 1 n) with (S (n - 1)) by lia. simpl Nat.iter at 2.
    unfold Leapfrog.kdk at 1.
    apply kick_proper; [reflexivity|]. apply drift_proper. apply loop_as_kdk.
  Qed.

  (* --- reversibility --- *)
  Lemma kick_flip_kick : forall h s, kick h (flip (kick h s)) =s= flip s.
  Proof. intros h [t r]; split; simpl; [reflexivity | apply vaxpy_neg_cancel]. Qed.

  Lemma drift_flip_drift : forall s, drift (flip (drift s)) =s= flip s.
  Proof.
    intros [t r]; split; simpl; [|reflexivity].
    rewrite (get_velocity_neg m r). apply vaxpy_cancel.
  Qed.

  Lemma flip_flip : forall s, flip (flip s) =s= s.
  Proof. intros [t r]; split; simpl; [reflexivity | apply vneg_involutive]. Qed.

  Lemma kdk_flip_kdk : forall s, kdk (flip (kdk s)) =s= flip s.
  Proof.
    intros s. unfold Leapfrog.kdk.
    set (h := (1 # 2) * rs).
    etransitivity.
    { apply kick_proper; [reflexivity|]. apply drift_proper. apply kick_flip_kick. }
    etransitivity.
    { apply kick_proper; [reflexivity|]. apply drift_flip_drift. }
    apply kick_flip_kick.
  Qed.

  Lemma kdk_power_reversible : forall n s,
    flip (Nat.iter n kdk (flip (Nat.iter n kdk s))) =s= s.
  Proof.
    induction n; intros s.
    - simpl. apply flip_flip.
    - change (flip (kdk (Nat.iter n kdk (flip (Nat.iter (S n) kdk s)))) =s= s).
      rewrite (iter_succ_r kdk n s).
      (* flip (kdk (kdk^n (flip (kdk^n (kdk s))))) *)
      set (s1 := kdk s).
      assert (H : Nat.iter n kdk (flip (Nat.iter n kdk s1)) =s= flip s1).
      { rewrite <- (IHn s1) at 2. symmetry. apply flip_flip. }
      etransitivity.
      { apply flip_proper. apply kdk_proper. exact H. }
      unfold s1. etransitivity; [apply flip_proper; apply kdk_flip_kdk|]. apply flip_flip.
  Qed.

  Lemma leapfrog_proper : forall n t t' r r', t =v= t' -> r =v= r' ->
    leapfrog t r n =s= leapfrog t' r' n.
  Proof.
    intros n t t' r r' Ht Hr. rewrite !leapfrog_is_kdk_power.
    apply iter_proper; [apply kdk_proper | split; auto].
  Qed.

  (* [T] run, negate the momentum, run, negate: the start, exactly *)
  Lemma leapfrog_reversible : forall n t r,
    let s1 := leapfrog t r n in
    let s2 := leapfrog (fst s1) (vneg (snd s1)) n in
    flip s2 =s= (t, r).
  Proof.
    intros n t r s1 s2. unfold s2.
    rewrite leapfrog_is_kdk_power.
    assert (H : (fst s1, vneg (snd s1)) =s= flip (Nat.iter (Nat.max 1 n) kdk (t, r))).
    { change (fst s1, vneg (snd s1)) with (flip s1). apply flip_proper.
      unfold s1. apply leapfrog_is_kdk_power. }
    etransitivity.
    { apply flip_proper. apply iter_proper; [apply kdk_proper | exact H]. }
    apply kdk_power_reversible.
  Qed.
End Free.


Lemma energy_arith : forall A B un u0 X,
  0 <= A -> 0 <= B -> 0 <= un -> 0 <= u0 -> 0 <= X <= 1 ->
  (1#2) * A + (1#2) * un * (1 - X * (1#4)) == (1#2) * B + (1#2) * u0 * (1 - X * (1#4)) ->
  Qabs ((1#2) * A + (1#2) * un - ((1#2) * B + (1#2) * u0)) <= X * ((1#2) * B + (1#2) * u0) * (1#3).
Proof.
  intros A B un u0 X HA HB Hun Hu0 [HX0 HX1] HE.
  assert (Q1 : 0 <= un * (1 - X)) by (apply Qmult_le_0_compat; lra).
  assert (Q2 : 0 <= u0 * X) by (apply Qmult_le_0_compat; lra).
  assert (Q3 : 0 <= un * X) by (apply Qmult_le_0_compat; lra).
  assert (Q4 : 0 <= B * X) by (apply Qmult_le_0_compat; lra).
  assert (Hk : 3 * un <= 4 * B + 4 * u0) by lra.
  assert (P1 : 0 <= X * (4 * B + 7 * u0 - 3 * un)) by (apply Qmult_le_0_compat; lra).
  apply Qabs_Qle_condition. split; lra.
Qed.

(* ---- harmonic oscillator: exact conservation of the modified energy -------- *)
Section Harmonic.
  Variable w eps : Q.

  Notation hgrad := (hgrad w).
  Notation E_mod := (E_mod w eps).
  Notation E_true := (E_true w).

  Lemma hgrad_proper : forall t t', t =v= t' -> hgrad t =v= hgrad t'.
  Proof. intros t t' H. unfold Leapfrog.hgrad. induction H; simpl; constructor; auto. rewrite H; reflexivity. Qed.

  Lemma nth0_proper : forall a b, a =v= b -> nth 0 a 0 == nth 0 b 0.
  Proof. intros a b H. destruct H; simpl; [reflexivity | assumption]. Qed.

  Notation hkdk := (kdk hgrad (ScalarMass 1) 1 eps).

  Lemma hkdk_step : forall q p, exists q' p',
    hkdk ([q], [p]) = ([q'], [p']) /\ E_mod q' p' == E_mod q p.
  Proof.
    intros q p. eexists; eexists; split.
    - unfold kdk, kick, drift, r_step. simpl. reflexivity.
    - unfold Leapfrog.E_mod. qred. ring.
  Qed.

  Lemma hkdk_iter : forall n q p, exists q' p',
    Nat.iter n hkdk ([q], [p]) = ([q'], [p']) /\ E_mod q' p' == E_mod q p.
  Proof.
    induction n; intros q p.
    - exists q, p. split; reflexivity.
    - simpl. destruct (IHn q p) as (q1 & p1 & E1 & H1). rewrite E1.
      destruct (hkdk_step q1 p1) as (q2 & p2 & E2 & H2).
      exists q2, p2. split; [exact E2 | rewrite H2; exact H1].
  Qed.

  (* [T] for logp = -1/2 w^2 q^2, unit mass, the leapfrog conserves the modified
     energy 1/2 p^2 + 1/2 w^2 q^2 (1 - eps^2 w^2 / 4) exactly, for every n *)
  Lemma harmonic_modified_energy : forall n q p,
    let s := standard_leapfrog hgrad (ScalarMass 1) 1 eps [q] [p] n in
    E_mod (pos1 s) (mom1 s) == E_mod q p.
  Proof.
    intros n q p s.
    pose proof (leapfrog_is_kdk_power hgrad (ScalarMass 1) 1 eps hgrad_proper n [q] [p]) as [Ht Hr].
    fold s in Ht, Hr.
    destruct (hkdk_iter (Nat.max 1 n) q p) as (q' & p' & E & HE).
    change (fst s =v= fst (Nat.iter (Nat.max 1 n) hkdk ([q], [p]))) in Ht.
    change (snd s =v= snd (Nat.iter (Nat.max 1 n) hkdk ([q], [p]))) in Hr.
    rewrite E in Ht, Hr.
    assert (Hq : pos1 s == q') by (apply (nth0_proper _ _ Ht)).
    assert (Hp : mom1 s == p') by (apply (nth0_proper _ _ Hr)).
    unfold Leapfrog.E_mod in *. rewrite Hq, Hp. exact HE.
  Qed.

  Lemma energy_bound_arith : forall q0 p0 qn pn,
    eps * eps * (w * w) <= 1 ->
    E_mod qn pn == E_mod q0 p0 ->
    Qabs (E_true qn pn - E_true q0 p0) <= (w * w * E_true q0 p0 * (1 # 3)) * (eps * eps).
  Proof.
    intros q0 p0 qn pn HX HE. unfold Leapfrog.E_mod, Leapfrog.E_true in *.
    assert (HE' : (1#2) * (pn*pn) + (1#2) * ((w*w)*(qn*qn)) * (1 - (eps*eps*(w*w)) * (1#4))
               == (1#2) * (p0*p0) + (1#2) * ((w*w)*(q0*q0)) * (1 - (eps*eps*(w*w)) * (1#4))).
    { transitivity ((1 # 2) * pn * pn + (1 # 2) * (w * w) * qn * qn * (1 - eps * eps * (w * w) * (1#4))); [ring|].
      rewrite HE. ring. }
    setoid_replace (((1 # 2) * pn * pn + (1 # 2) * (w * w) * qn * qn) - ((1 # 2) * p0 * p0 + (1 # 2) * (w * w) * q0 * q0))
      with ((1#2) * (pn*pn) + (1#2) * ((w*w)*(qn*qn)) - ((1#2) * (p0*p0) + (1#2) * ((w*w)*(q0*q0)))) by ring.
    setoid_replace (w * w * ((1 # 2) * p0 * p0 + (1 # 2) * (w * w) * q0 * q0) * (1#3) * (eps * eps))
      with ((eps*eps*(w*w)) * ((1#2) * (p0*p0) + (1#2) * ((w*w)*(q0*q0))) * (1#3)) by ring.
    assert (S1 : 0 <= pn * pn) by nra. assert (S2 : 0 <= p0 * p0) by nra.
    assert (S3 : 0 <= (w*w)*(qn*qn)) by nra. assert (S4 : 0 <= (w*w)*(q0*q0)) by nra.
    assert (S5 : 0 <= eps*eps*(w*w)) by nra.
    apply energy_arith; auto.
  Qed.
  (* [T] hence |H_n - H_0| <= C eps^2 with C = w^2 H_0 / 3, for every n (eps w <= 1) *)
  Lemma harmonic_energy_error_quadratic : forall n q p,
    eps * eps * (w * w) <= 1 ->
    let s := standard_leapfrog hgrad (ScalarMass 1) 1 eps [q] [p] n in
    Qabs (E_true (pos1 s) (mom1 s) - E_true q p) <= (w * w * E_true q p * (1 # 3)) * (eps * eps).
  Proof.
    intros n q p HX s. apply energy_bound_arith; [exact HX | apply harmonic_modified_energy].
  Qed.
End Harmonic.


(* ---- momentum law vs kinetic energy ----------------------------------------- *)

(* scalar mass: r = sqrt_mass * z, K(r) = 1/2 r . (r * inv_mass) *)
Lemma momentum_law_scalar : forall sm im z, sm * sm * im == 1 ->
  kinetic_energy (ScalarMass im) (sample_momentum_scalar sm z) == (1 # 2) * dot z z.
Proof.
  intros sm im z H. unfold kinetic_energy, sample_momentum_scalar. simpl.
  apply Qmult_comp; [reflexivity|].
  induction z as [|x z IH]; simpl; [reflexivity|].
  qred. rewrite IH.
  setoid_replace (sm * x * (sm * x * im)) with (x * x * (sm * sm * im)) by ring.
  rewrite H. ring.
Qed.

Lemma momentum_law_vector : forall sm im z,
  Forall2 (fun s i => s * s * i == 1) sm im ->
  kinetic_energy (VectorMass im) (sample_momentum_vector sm z) == (1 # 2) * dot z z.
Proof.
  intros sm im z H. unfold kinetic_energy, sample_momentum_vector. simpl.
  apply Qmult_comp; [reflexivity|].
  revert z. induction H as [|s i sm im Hs H IH]; intros [|x z]; simpl; try reflexivity.
  qred. rewrite IH.
  setoid_replace (x * s * (x * s * i)) with (x * x * (s * s * i)) by ring.
  rewrite Hs. ring.
Qed.

(* matrix class, two parameters: L^T M^-1 L = I  =>  K(L z) = 1/2 z.z *)
Lemma momentum_law_matrix_2d : forall a b c d l11 l12 l21 l22 z1 z2,
  let Minv := [[a; b]; [c; d]] in
  let L := [[l11; l12]; [l21; l22]] in
  (* entries of L^T Minv L *)
  l11 * (a * l11 + b * l21) + l21 * (c * l11 + d * l21) == 1 ->
  l11 * (a * l12 + b * l22) + l21 * (c * l12 + d * l22) == 0 ->
  l12 * (a * l11 + b * l21) + l22 * (c * l11 + d * l21) == 0 ->
  l12 * (a * l12 + b * l22) + l22 * (c * l12 + d * l22) == 1 ->
  kinetic_energy (MatrixMass Minv) (sample_momentum_matrix L [z1; z2]) == (1 # 2) * dot [z1; z2] [z1; z2].
Proof.
  intros a b c d l11 l12 l21 l22 z1 z2 Minv L H11 H12 H21 H22.
  unfold kinetic_energy, sample_momentum_matrix, Minv, L. simpl. qred.
  apply Qmult_comp; [reflexivity|].
  setoid_replace ((l11 * z1 + (l12 * z2 + 0)) * (a * (l11 * z1 + (l12 * z2 + 0)) + (b * (l21 * z1 + (l22 * z2 + 0)) + 0)) +
   ((l21 * z1 + (l22 * z2 + 0)) * (c * (l11 * z1 + (l12 * z2 + 0)) + (d * (l21 * z1 + (l22 * z2 + 0)) + 0)) + 0))
  with (z1 * z1 * (l11 * (a * l11 + b * l21) + l21 * (c * l11 + d * l21))
        + z1 * z2 * (l11 * (a * l12 + b * l22) + l21 * (c * l12 + d * l22))
        + z2 * z1 * (l12 * (a * l11 + b * l21) + l22 * (c * l11 + d * l21))
        + z2 * z2 * (l12 * (a * l12 + b * l22) + l22 * (c * l12 + d * l22))) by ring.
  rewrite H11, H12, H21, H22. ring.
Qed.


(* ---- finite differences -------------------------------------------------------- *)
Lemma nth_map_seq : forall (f : nat -> Q) n i, (i < n)%nat -> nth i (map f (seq 0 n)) 0 = f i.
Proof.
  intros f n i H.
  rewrite (nth_indep _ 0 (f 0%nat)) by (rewrite map_length, seq_length; exact H).
  rewrite map_nth. rewrite seq_nth by exact H. reflexivity.
Qed.

Lemma fd_step_nonzero : forall h fl x, 0 < fl -> ~ fd_step h fl x == 0.
Proof.
  intros h fl x Hfl. unfold fd_step.
  destruct (Qlt_le_dec (Qabs (x * h)) fl) as [H|H].
  - intro E. rewrite E in Hfl. apply (Qlt_irrefl 0). exact Hfl.
  - intro E. rewrite E in H. simpl in H. apply (Qlt_irrefl 0). eapply Qlt_le_trans; eauto.
Qed.

Lemma fd_step_abs : forall h fl x, 0 < fl ->
  Qabs (fd_step h fl x) == (if Qlt_le_dec (Qabs (x * h)) fl then fl else Qabs (x * h)).
Proof.
  intros h fl x Hfl. unfold fd_step. destruct (Qlt_le_dec (Qabs (x * h)) fl); [|reflexivity].
  apply Qabs_pos. apply Qlt_le_weak; exact Hfl.
Qed.

Section FiniteDiff.
  Variable logp : vec -> Q.
  Variable beta h fl : Q.
  (* logp is quadratic along coordinate lines: g i t is the i-th partial derivative
     at t and a i the (constant) negative second derivative *)
  Variable g : nat -> vec -> Q.
  Variable a : nat -> Q.
  Hypothesis quad_lines : forall t i s, (i < length t)%nat ->
    logp (upd i (fun x => x + s) t) == logp t + s * g i t - (1 # 2) * a i * s * s.
  Hypothesis floor_pos : 0 < fl.

  (* [Tp] the repaired finite_diff on such a log-density: exact up to the explicit
     first-order term -1/2 a_i step_i (times inv_temp), at every point *)
  Lemma finite_diff_exact_on_quadratics : forall t i, (i < length t)%nat ->
    nth i (finite_diff beta logp h fl t) 0 ==
    beta * (g i t - (1 # 2) * a i * fd_step h fl (nth i t 0)).
  Proof.
    intros t i Hi. unfold finite_diff. rewrite nth_map_seq by exact Hi.
    cbv zeta. rewrite (quad_lines t i _ Hi).
    pose proof (fd_step_nonzero h fl (nth i t 0) floor_pos) as Hnz.
    field. exact Hnz.
  Qed.

  Lemma finite_diff_error_bound : forall t i, (i < length t)%nat ->
    Qabs (nth i (finite_diff beta logp h fl t) 0 - beta * g i t) <=
    Qabs beta * ((1 # 2) * Qabs (a i)) *
      (if Qlt_le_dec (Qabs (nth i t 0 * h)) fl then fl else Qabs (nth i t 0 * h)).
  Proof.
    intros t i Hi. rewrite (finite_diff_exact_on_quadratics t i Hi).
    setoid_replace (beta * (g i t - (1 # 2) * a i * fd_step h fl (nth i t 0)) - beta * g i t)
      with (beta * (- (1 # 2) * a i) * fd_step h fl (nth i t 0)) by ring.
    rewrite !Qabs_Qmult, (fd_step_abs h fl _ floor_pos).
    setoid_replace (Qabs (- (1 # 2))) with (1 # 2) by reflexivity.
    apply Qle_refl.
  Qed.
End FiniteDiff.

(* the 1-D quadratic  logp [x] = b x - 1/2 a x^2  satisfies the hypothesis (non-vacuity) *)
Lemma quad_1d_lines : forall a b t i s, (i < length t)%nat -> length t = 1%nat ->
  quad_logp [[a]] [b] (upd i (fun x => x + s) t) ==
  quad_logp [[a]] [b] t + s * (b - a * nth 0 t 0) - (1 # 2) * a * s * s.
Proof.
  intros a b [|x [|y t]] i s Hi Hl; simpl in *; try lia.
  destruct i; [|lia]. unfold quad_logp. simpl. qred. ring.
Qed.

(* the pinned formula at a zero coordinate: the step has zero width, the divisor is
   zero (nan in floating point; 0 under Coq's total division) although the true
   gradient is 1; the repaired formula returns 1 *)
Lemma finite_diff_pinned_refuted :
  exists (logp : vec -> Q) (t : vec),
    (forall x s, logp [x + s] == logp [x] + s * 1) /\
    (forall h, nth 0 t 0 * h == 0 /\
               upd 0 (fun x => x * (1 + h)) t =v= t /\
               finite_diff_pinned 1 logp h t =v= [0]) /\
    (forall h fl, 0 < fl -> finite_diff 1 logp h fl t =v= [1]).
Proof.
  exists (fun t => nth 0 t 0), [0]. split; [|split].
  - intros x s. simpl. ring.
  - intros h. split; [simpl; ring|]. split.
    + simpl. constructor; [ring | constructor].
    + unfold finite_diff_pinned. simpl. constructor; [|constructor].
      setoid_replace (0 * h) with 0 by ring. unfold Qdiv.
      setoid_replace (/ 0) with 0 by reflexivity. ring.
  - intros h fl Hfl. unfold finite_diff. simpl. constructor; [|constructor].
    pose proof (fd_step_nonzero h fl 0 Hfl) as Hnz. field. exact Hnz.
Qed.

(* ---- volume preservation ------------------------------------------------------ *)

(* every kick and every drift is a shear: one half of the phase-space point is
   untouched and the other is translated by a function of the untouched half *)
Lemma kick_drift_are_shears : forall grad m eps hh t r,
  kick grad hh (t, r) = (t, vaxpy r hh (grad t)) /\
  drift m eps (t, r) = (vaxpy t eps (get_velocity m r), r).
Proof. intros. split; reflexivity. Qed.

Lemma det2_mul : forall M N, det2 (mul2 M N) == det2 M * det2 N.
Proof. intros [[[a b] c] d] [[[e f] g] k]. unfold det2, mul2. ring. Qed.

Definition aff_comp (G F : aff) : aff :=
  let '(MG, g1, g2) := G in let '(MF, f1, f2) := F in
  let '(a, b, c, d) := MG in
  (mul2 MG MF, a * f1 + b * f2 + g1, c * f1 + d * f2 + g2).

Definition affine_det1 (f : state -> state) : Prop :=
  exists F : aff, det2 (fst (fst F)) == 1 /\ forall q p, f ([q], [p]) =s= aff_apply F q p.

Lemma affine_det1_comp : forall f g, (forall s s', s =s= s' -> g s =s= g s') ->
  affine_det1 f -> affine_det1 g -> affine_det1 (fun s => g (f s)).
Proof.
  intros f g Hg [F [dF HF]] [G [dG HG]].
  exists (aff_comp G F). split.
  - destruct G as [[MG g1] g2], F as [[MF f1] f2]. destruct MG as [[[a b] c] d].
    unfold aff_comp. cbn [fst] in *.
    rewrite det2_mul, dF, dG. reflexivity.
  - intros q p. rewrite (Hg _ _ (HF q p)).
    destruct G as [[MG g1] g2], F as [[MF f1] f2].
    destruct MG as [[[a b] c] d], MF as [[[e f'] g'] k].
    unfold aff_apply at 1. rewrite HG. unfold aff_apply, aff_comp, mul2.
    split; simpl; (constructor; [ring | constructor]).
Qed.

Section Volume1D.
  Variable a b im beta eps : Q.
  Notation grad1 := (lin_grad [[a]] [b]).
  Notation m1 := (ScalarMass im).

  Lemma lin_grad_proper : forall A bb t t', t =v= t' -> lin_grad A bb t =v= lin_grad A bb t'.
  Proof.
    intros A bb t t' H. unfold lin_grad. apply vaxpy_proper; [reflexivity | reflexivity |].
    apply mat_vec_proper_r; exact H.
  Qed.

  Lemma kick_affine : forall hh, affine_det1 (kick grad1 hh).
  Proof.
    intros hh. exists ((1, 0, - hh * a, 1), 0, hh * b). split; [unfold det2; simpl; ring|].
    intros q p. unfold kick, aff_apply, lin_grad. simpl.
    split; simpl; (constructor; [qred; ring | constructor]).
  Qed.

  Lemma drift_affine : affine_det1 (drift m1 eps).
  Proof.
    exists ((1, eps * im, 0, 1), 0, 0). split; [unfold det2; simpl; ring|].
    intros q p. unfold drift, aff_apply. simpl.
    split; simpl; (constructor; [qred; ring | constructor]).
  Qed.

  Lemma kdk_affine : affine_det1 (kdk grad1 m1 beta eps).
  Proof.
    unfold kdk.
    apply (affine_det1_comp (fun s => drift m1 eps (kick grad1 ((1 # 2) * r_step beta eps) s))
                            (kick grad1 ((1 # 2) * r_step beta eps))).
    - intros s s' H. apply kick_proper; [apply lin_grad_proper | reflexivity | exact H].
    - apply (affine_det1_comp (kick grad1 ((1 # 2) * r_step beta eps)) (drift m1 eps)).
      + intros s s' H. apply drift_proper; exact H.
      + apply kick_affine.
      + apply drift_affine.
    - apply kick_affine.
  Qed.

  Lemma iter_affine : forall f, (forall s s', s =s= s' -> f s =s= f s') -> affine_det1 f ->
    forall n, affine_det1 (Nat.iter n f).
  Proof.
    intros f Hf Hff n. induction n.
    - exists ((1, 0, 0, 1), 0, 0). split; [unfold det2; simpl; ring|].
      intros q p. simpl. split; simpl; (constructor; [ring | constructor]).
    - simpl. apply (affine_det1_comp (Nat.iter n f) f); assumption.
  Qed.

  (* [T] linear force, one degree of freedom: the n-step trajectory map is an affine
     map of the (q, p) plane whose matrix has determinant exactly 1 *)
  Lemma volume_preserving_linear_1d : forall n,
    exists (M : mat2) (c1 c2 : Q), det2 M == 1 /\
      forall q p, standard_leapfrog grad1 m1 beta eps [q] [p] n =s= aff_apply (M, c1, c2) q p.
  Proof.
    intros n.
    destruct (iter_affine (kdk grad1 m1 beta eps)
                (kdk_proper grad1 m1 beta eps (lin_grad_proper [[a]] [b])) kdk_affine (Nat.max 1 n))
      as [[[M c1] c2] [dM HM]].
    exists M, c1, c2. split; [exact dM|].
    intros q p. rewrite (leapfrog_is_kdk_power grad1 m1 beta eps (lin_grad_proper [[a]] [b]) n [q] [p]).
    apply HM.
  Qed.
End Volume1D.


(* ---- boolean equality is complete for =s= (used by the refutations) ----------- *)
Lemma veqb_complete : forall a b, a =v= b -> veqb a b = true.
Proof.
  intros a b H. induction H; simpl; [reflexivity|].
  apply andb_true_intro. split; [apply Qeq_bool_iff; assumption | assumption].
Qed.

Lemma state_eqb_complete : forall s s', s =s= s' -> state_eqb s s' = true.
Proof.
  intros s s' [H1 H2]. unfold state_eqb.
  rewrite (veqb_complete _ _ H1), (veqb_complete _ _ H2). reflexivity.
Qed.

(* ---- one coordinate ------------------------------------------------------------ *)
Import Reflect ReflectProofs.

Lemma rm_char : forall lo w theta k r, 0 < w -> 0 <= r -> r < w ->
  theta - lo == inject_Z k * w + r ->
  fst (Reflect.reflect_momenta lo w theta) ==
    lo + (1 - 2 * inject_Z (parity k)) * r + inject_Z (parity k) * w /\
  snd (Reflect.reflect_momenta lo w theta) = 1 - 2 * inject_Z (parity k).
Proof.
  intros lo w theta k r Hw Hr0 Hr1 Hd.
  assert (Hk : fdiv (theta - lo) w = k) by (apply fdiv_unique; nra).
  split.
  - rewrite reflect_momenta_fst. apply reflect_char; assumption.
  - unfold Reflect.reflect_momenta. cbv zeta. simpl snd. rewrite Hk. reflexivity.
Qed.

(* fold, then move back along the folded direction: the start and the same sign *)
Lemma reflect_momenta_reverse : forall lo w x d, 0 < w -> lo < x -> x < lo + w ->
  let y := fst (Reflect.reflect_momenta lo w (x + d)) in
  let s := snd (Reflect.reflect_momenta lo w (x + d)) in
  fst (Reflect.reflect_momenta lo w (y + - (s * d))) == x /\
  snd (Reflect.reflect_momenta lo w (y + - (s * d))) == s.
Proof.
  intros lo w x d Hw Hx0 Hx1 y s.
  destruct (reflect_decompose lo w (x + d) Hw) as (k & r & Hr0 & Hr1 & Hd & _).
  destruct (rm_char lo w (x + d) k r Hw Hr0 Hr1 Hd) as [Hy Hs].
  fold y in Hy. fold s in Hs.
  destruct (parity_cases k) as [E | E]; rewrite E in Hy, Hs; qconst.
  - (* even cell: y = lo + r, s = 1 *)
    assert (Hd' : y + - (s * d) - lo == inject_Z (- k) * w + (x - lo)).
    { rewrite Hy, Hs, inject_Z_opp. lra. }
    destruct (rm_char lo w (y + - (s * d)) (- k) (x - lo) Hw) as [Hy' Hs']; [lra | lra | exact Hd' |].
    rewrite parity_opp, E in Hy', Hs'. qconst.
    split; [rewrite Hy'; ring | rewrite Hs', Hs; reflexivity].
  - (* odd cell: y = lo - r + w, s = -1 *)
    assert (Hd' : y + - (s * d) - lo == inject_Z k * w + (w - (x - lo))).
    { rewrite Hy, Hs. lra. }
    destruct (rm_char lo w (y + - (s * d)) k (w - (x - lo)) Hw) as [Hy' Hs']; [lra | lra | exact Hd' |].
    rewrite E in Hy', Hs'. qconst.
    split; [rewrite Hy'; ring | rewrite Hs', Hs; reflexivity].
Qed.

Lemma rm_snd_square : forall lo w theta,
  snd (Reflect.reflect_momenta lo w theta) * snd (Reflect.reflect_momenta lo w theta) == 1.
Proof.
  intros. unfold Reflect.reflect_momenta. cbv zeta. simpl snd.
  destruct (parity_cases (fdiv (theta - lo) w)) as [E | E]; rewrite E; reflexivity.
Qed.

Lemma rm_proper : forall lo w t t', t == t' ->
  fst (Reflect.reflect_momenta lo w t) == fst (Reflect.reflect_momenta lo w t') /\
  snd (Reflect.reflect_momenta lo w t) == snd (Reflect.reflect_momenta lo w t').
Proof.
  intros lo w t t' H. split.
  - rewrite !reflect_momenta_fst. rewrite H. reflexivity.
  - unfold Reflect.reflect_momenta. cbv zeta. simpl snd.
    assert (Hk : fdiv (t - lo) w = fdiv (t' - lo) w) by (apply fdiv_comp; [rewrite H|]; reflexivity).
    rewrite Hk. reflexivity.
Qed.

Lemma reflect1_fst : forall lo hi x, fst (reflect1 lo hi x) == fst (Reflect.reflect_momenta lo (hi - lo) x).
Proof. intros. unfold reflect1. destruct (Reflect.reflect_momenta lo (hi - lo) x). simpl. apply Qred_correct. Qed.

Lemma reflect1_snd : forall lo hi x, snd (reflect1 lo hi x) = snd (Reflect.reflect_momenta lo (hi - lo) x).
Proof. intros. unfold reflect1. destruct (Reflect.reflect_momenta lo (hi - lo) x). reflexivity. Qed.

Lemma reflect1_proper : forall l h x x', x == x' ->
  fst (reflect1 l h x) == fst (reflect1 l h x') /\ snd (reflect1 l h x) == snd (reflect1 l h x').
Proof.
  intros l h x x' H. destruct (rm_proper l (h - l) x x' H) as [P1 P2]. split.
  - etransitivity; [apply reflect1_fst|]. etransitivity; [exact P1|]. symmetry. apply reflect1_fst.
  - rewrite !reflect1_snd. exact P2.
Qed.

Lemma reflect1_square : forall l h x, snd (reflect1 l h x) * snd (reflect1 l h x) == 1.
Proof. intros. rewrite reflect1_snd. apply rm_snd_square. Qed.

Lemma reflect1_interior_id : forall l h x, l < x -> x < h ->
  fst (reflect1 l h x) == x /\ snd (reflect1 l h x) == 1.
Proof.
  intros l h x H0 H1. assert (Hw : 0 < h - l) by lra.
  destruct (rm_char l (h - l) x 0 (x - l) Hw) as [C1 C2]; [lra | lra | qconst; ring |].
  change (parity 0) with 0%Z in C1, C2. qconst. split.
  - etransitivity; [apply reflect1_fst|]. etransitivity; [exact C1|]. ring.
  - rewrite reflect1_snd, C2. reflexivity.
Qed.

Lemma reflect1_reverse : forall l h x d, l < x -> x < h ->
  forall th, th == x + d ->
  let y := fst (reflect1 l h th) in
  let s := snd (reflect1 l h th) in
  forall back, back == y + - (s * d) ->
  fst (reflect1 l h back) == x /\ snd (reflect1 l h back) == s.
Proof.
  intros l h x d H0 H1 th Hth y s back Hback.
  assert (Hw : 0 < h - l) by lra. assert (Hx1 : x < l + (h - l)) by lra.
  destruct (reflect_momenta_reverse l (h - l) x d Hw H0 Hx1) as [R1 R2].
  destruct (reflect1_proper l h th (x + d) Hth) as [P1 P2]. fold y in P1. fold s in P2.
  assert (Hy : y == fst (Reflect.reflect_momenta l (h - l) (x + d))).
  { etransitivity; [exact P1 | apply reflect1_fst]. }
  assert (Hs : s == snd (Reflect.reflect_momenta l (h - l) (x + d))).
  { etransitivity; [exact P2 | rewrite reflect1_snd; reflexivity]. }
  assert (Harg : back == fst (Reflect.reflect_momenta l (h - l) (x + d)) +
                         - (snd (Reflect.reflect_momenta l (h - l) (x + d)) * d)).
  { etransitivity; [exact Hback|]. apply Qplus_comp; [exact Hy|]. apply Qopp_comp. apply Qmult_comp; [exact Hs | reflexivity]. }
  destruct (rm_proper l (h - l) _ _ Harg) as [Q1 Q2].
  split.
  - etransitivity; [apply reflect1_fst|]. etransitivity; [exact Q1 | exact R1].
  - rewrite reflect1_snd. etransitivity; [exact Q2|]. etransitivity; [exact R2|]. symmetry; exact Hs.
Qed.

(* ---- vectors -------------------------------------------------------------------- *)


Lemma reflect_v_nolo : forall hi t, reflect_momenta_v [] hi t = (t, []).
Proof. intros hi [|x t]; reflexivity. Qed.
Lemma reflect_v_nohi : forall lo t, reflect_momenta_v lo [] t = (t, []).
Proof. intros [|l lo] [|x t]; reflexivity. Qed.

Definition pair_veq (p p' : vec * vec) : Prop := fst p =v= fst p' /\ snd p =v= snd p'.

Lemma reflect_v_cons : forall l lo h hi x t,
  reflect_momenta_v (l :: lo) (h :: hi) (x :: t) =
  (fst (reflect1 l h x) :: fst (reflect_momenta_v lo hi t),
   snd (reflect1 l h x) :: snd (reflect_momenta_v lo hi t)).
Proof.
  intros. simpl. destruct (reflect1 l h x). destruct (reflect_momenta_v lo hi t). reflexivity.
Qed.

#[global] Arguments reflect1 : simpl never.
#[global] Arguments reflect_momenta_v : simpl never.



Lemma reflect_v_proper : forall lo hi t t', t =v= t' ->
  pair_veq (reflect_momenta_v lo hi t) (reflect_momenta_v lo hi t').
Proof.
  intros lo hi t t' H. revert lo hi.
  induction H as [|x x' t t' Hx Ht IH]; intros lo hi.
  - split; reflexivity.
  - destruct lo as [|l lo]; [rewrite !reflect_v_nolo; split; simpl; [constructor; assumption | reflexivity]|].
    destruct hi as [|h hi]; [rewrite !reflect_v_nohi; split; simpl; [constructor; assumption | reflexivity]|].
    rewrite !reflect_v_cons. destruct (IH lo hi) as [I1 I2].
    destruct (reflect1_proper l h x x' Hx) as [P1 P2].
    split; simpl; constructor; auto.
Qed.

Lemma reflect_v_nil : forall lo hi, reflect_momenta_v lo hi [] = ([], []).
Proof. intros [|l lo] [|h hi]; reflexivity. Qed.

Lemma reflect_v_squares : forall lo hi t,
  Forall (fun s => s * s == 1) (snd (reflect_momenta_v lo hi t)).
Proof.
  intros lo hi t. revert lo hi. induction t as [|x t IH]; intros lo hi.
  - rewrite reflect_v_nil. constructor.
  - destruct lo as [|l lo]; [rewrite reflect_v_nolo; simpl; constructor|].
    destruct hi as [|h hi]; [rewrite reflect_v_nohi; simpl; constructor|].
    rewrite reflect_v_cons. simpl. constructor; [|apply IH]. apply reflect1_square.
Qed.

(* the drift-and-fold undone (vector form of reflect_momenta_reverse) *)
Lemma vaxpy_nil_r : forall a c, vaxpy a c [] = a.
Proof. intros [|x a] c; reflexivity. Qed.

Lemma reflect_v_reverse : forall lo hi x e v, interior lo hi x ->
  let ys := reflect_momenta_v lo hi (vaxpy x e v) in
  pair_veq (reflect_momenta_v lo hi (vaxpy (fst ys) e (vneg (vmul_keep v (snd ys))))) (x, snd ys).
Proof.
  intros lo hi x. revert lo hi.
  induction x as [|x0 x IH]; intros lo hi e v Hin ys.
  - unfold ys. simpl vaxpy. rewrite !reflect_v_nil. simpl. try rewrite !reflect_v_nil. split; reflexivity.
  - destruct lo as [|l lo].
    { unfold ys. rewrite reflect_v_nolo. simpl fst. simpl snd. rewrite reflect_v_nolo.
      destruct v as [|v0 v]; simpl; split; simpl; try reflexivity.
      constructor; [qred; ring | apply vaxpy_cancel]. }
    destruct hi as [|h hi].
    { unfold ys. rewrite reflect_v_nohi. simpl fst. simpl snd. rewrite reflect_v_nohi.
      destruct v as [|v0 v]; simpl; split; simpl; try reflexivity.
      constructor; [qred; ring | apply vaxpy_cancel]. }
    destruct Hin as [[H0 H1] Hin].
    destruct v as [|v0 v].
    + (* no velocity component: the point does not move and is strictly inside *)
      unfold ys. simpl vaxpy. rewrite reflect_v_cons. simpl.
      rewrite reflect_v_cons.
      specialize (IH lo hi e [] Hin). simpl in IH. rewrite !vaxpy_nil_r in IH. destruct IH as [IH1 IH2].
      destruct (reflect1_interior_id l h x0 H0 H1) as [I1 I2].
      destruct (reflect1_proper l h _ _ I1) as [Q1 Q2].
      split; simpl; constructor; auto.
      * etransitivity; [exact Q1 | exact I1].
    + unfold ys. simpl vaxpy. rewrite reflect_v_cons. simpl. rewrite reflect_v_cons.
      specialize (IH lo hi e v Hin). destruct IH as [IH1 IH2].
      assert (Hth : Qred (x0 + e * v0) == x0 + e * v0) by apply Qred_correct.
      assert (Hback : Qred (fst (reflect1 l h (Qred (x0 + e * v0))) +
                            e * - Qred (v0 * snd (reflect1 l h (Qred (x0 + e * v0))))) ==
                      fst (reflect1 l h (Qred (x0 + e * v0))) +
                      - (snd (reflect1 l h (Qred (x0 + e * v0))) * (e * v0))).
      { qred. ring. }
      destruct (reflect1_reverse l h x0 (e * v0) H0 H1 _ Hth _ Hback) as [R1 R2].
      split; simpl; constructor; auto.
Qed.

(* ---- the bounded integrator, diagonal mass ---------------------------------------- *)


Lemma vmul_keep_comm : forall r s u, vmul_keep (vmul_keep r s) u =v= vmul_keep (vmul_keep r u) s.
Proof.
  induction r as [|x r IH]; intros [|y s] [|z u]; simpl; try reflexivity.
  constructor; [qred; ring | apply IH].
Qed.

Lemma map_scale_vmul : forall im r s,
  map (fun x => Qred (x * im)) (vmul_keep r s) =v= vmul_keep (map (fun x => Qred (x * im)) r) s.
Proof.
  intros im. induction r as [|x r IH]; intros [|y s]; simpl; try reflexivity.
  constructor; [qred; ring | apply IH].
Qed.

Lemma get_velocity_diag : forall m r s, diagonal_mass m ->
  get_velocity m (vmul_keep r s) =v= vmul_keep (get_velocity m r) s.
Proof.
  intros [im|ims|rows] r s H; simpl in *; [apply map_scale_vmul | apply vmul_keep_comm | contradiction].
Qed.

Lemma vmul_keep_signs : forall r s, Forall (fun x => x * x == 1) s ->
  vmul_keep (vneg (vmul_keep r s)) s =v= vneg r.
Proof.
  induction r as [|x r IH]; intros [|y s] H; simpl; try reflexivity.
  inversion H as [|? ? Hy Hs]; subst.
  constructor; [|apply IH; exact Hs].
  qred. setoid_replace (- (x * y) * y) with (- x * (y * y)) by ring. rewrite Hy. ring.
Qed.

Section Bounded.
  Variable grad : vec -> vec.
  Variable m : mass.
  Variable inv_temp eps : Q.
  Variable lo hi : vec.
  Hypothesis grad_proper : forall t t', t =v= t' -> grad t =v= grad t'.

  Notation kick := (kick grad).
  Notation bdrift := (bdrift m eps lo hi).
  Notation bkdk := (bkdk grad m inv_temp eps lo hi).
  Notation binner := (binner grad m inv_temp eps lo hi).
  Notation bleapfrog := (bounded_leapfrog grad m inv_temp eps lo hi).
  Notation rs := (r_step inv_temp eps).

  Lemma bdrift_eq : forall s,
    bdrift s = (fst (reflect_momenta_v lo hi (vaxpy (fst s) eps (get_velocity m (snd s)))),
                vmul_keep (snd s) (snd (reflect_momenta_v lo hi (vaxpy (fst s) eps (get_velocity m (snd s)))))).
  Proof.
    intros s. unfold Leapfrog.bdrift.
    destruct (reflect_momenta_v lo hi (vaxpy (fst s) eps (get_velocity m (snd s)))). reflexivity.
  Qed.

  Lemma bdrift_proper : forall s s', s =s= s' -> bdrift s =s= bdrift s'.
  Proof.
    intros [t r] [t' r'] [Ht Hr]. rewrite !bdrift_eq. simpl fst in *. simpl snd in *.
    assert (Ha : vaxpy t eps (get_velocity m r) =v= vaxpy t' eps (get_velocity m r')).
    { apply vaxpy_proper; auto; [reflexivity | apply get_velocity_proper; auto]. }
    destruct (reflect_v_proper lo hi _ _ Ha) as [P1 P2].
    split; simpl; [exact P1 | apply vmul_keep_proper; assumption].
  Qed.

  Lemma bkdk_proper : forall s s', s =s= s' -> bkdk s =s= bkdk s'.
  Proof.
    intros s s' H. unfold Leapfrog.bkdk.
    apply kick_proper; [exact grad_proper | reflexivity |]. apply bdrift_proper.
    apply kick_proper; [exact grad_proper | reflexivity | exact H].
  Qed.

  Lemma bloop_as_bkdk : forall k s,
    Nat.iter k binner (kick ((1 # 2) * rs) s) =s= kick ((1 # 2) * rs) (Nat.iter k bkdk s).
  Proof.
    induction k; intros s; simpl; [reflexivity|].
    unfold Leapfrog.binner at 1.
    etransitivity.
    { apply kick_proper; [exact grad_proper | reflexivity |]. apply bdrift_proper. apply IHk. }
    unfold Leapfrog.bkdk at 2.
    rewrite (kick_kick grad). apply kick_proper; [exact grad_proper | ring | reflexivity].
  Qed.

  Lemma bounded_leapfrog_is_bkdk_power : forall n t r,
    bleapfrog t r n =s= Nat.iter (Nat.max 1 n) bkdk (t, r).
  Proof.
    intros n t r. unfold Leapfrog.bounded_leapfrog.
    replace (Nat.max 1 n) with (S (n - 1)) by lia. simpl Nat.iter at 2.
    unfold Leapfrog.bkdk at 1.
    apply kick_proper; [exact grad_proper | reflexivity |]. apply bdrift_proper. apply bloop_as_bkdk.
  Qed.

  Hypothesis diag : diagonal_mass m.

  Lemma bdrift_flip_bdrift : forall s, interior lo hi (fst s) -> bdrift (flip (bdrift s)) =s= flip s.
  Proof.
    intros [t r] Hin. simpl fst in Hin.
    rewrite (bdrift_eq (t, r)). simpl fst. simpl snd.
    set (v := get_velocity m r).
    set (R := reflect_momenta_v lo hi (vaxpy t eps v)).
    unfold flip. simpl fst. simpl snd. rewrite bdrift_eq. simpl fst. simpl snd.
    assert (Hv : get_velocity m (vneg (vmul_keep r (snd R))) =v= vneg (vmul_keep v (snd R))).
    { rewrite get_velocity_neg. apply vneg_proper. apply get_velocity_diag. exact diag. }
    assert (Ha : vaxpy (fst R) eps (get_velocity m (vneg (vmul_keep r (snd R)))) =v=
                 vaxpy (fst R) eps (vneg (vmul_keep v (snd R)))).
    { apply vaxpy_proper; [reflexivity | reflexivity | exact Hv]. }
    destruct (reflect_v_proper lo hi _ _ Ha) as [P1 P2].
    destruct (reflect_v_reverse lo hi t eps v Hin) as [R1 R2]. fold R in R1, R2. simpl in R1, R2.
    split; simpl.
    - etransitivity; [exact P1 | exact R1].
    - etransitivity.
      { apply vmul_keep_proper; [reflexivity|]. etransitivity; [exact P2 | exact R2]. }
      apply vmul_keep_signs. apply reflect_v_squares.
  Qed.

  Lemma bkdk_flip_bkdk : forall s, interior lo hi (fst s) -> bkdk (flip (bkdk s)) =s= flip s.
  Proof.
    intros s Hin. unfold Leapfrog.bkdk.
    etransitivity.
    { apply kick_proper; [exact grad_proper | reflexivity |]. apply bdrift_proper.
      apply (kick_flip_kick grad). }
    etransitivity.
    { apply kick_proper; [exact grad_proper | reflexivity |]. apply bdrift_flip_bdrift.
      destruct s; exact Hin. }
    apply (kick_flip_kick grad).
  Qed.

  Lemma bkdk_power_reversible : forall n s,
    (forall k, (k < n)%nat -> interior lo hi (fst (Nat.iter k bkdk s))) ->
    flip (Nat.iter n bkdk (flip (Nat.iter n bkdk s))) =s= s.
  Proof.
    induction n; intros s Hin.
    - simpl. apply flip_flip.
    - change (flip (bkdk (Nat.iter n bkdk (flip (Nat.iter (S n) bkdk s)))) =s= s).
      rewrite (iter_succ_r bkdk n s).
      set (s1 := bkdk s).
      assert (Hin1 : forall k, (k < n)%nat -> interior lo hi (fst (Nat.iter k bkdk s1))).
      { intros k Hk. unfold s1. rewrite <- (iter_succ_r bkdk k s). apply Hin. lia. }
      assert (H : Nat.iter n bkdk (flip (Nat.iter n bkdk s1)) =s= flip s1).
      { rewrite <- (IHn s1 Hin1) at 2. symmetry. apply flip_flip. }
      etransitivity.
      { apply flip_proper. apply bkdk_proper. exact H. }
      unfold s1. etransitivity.
      { apply flip_proper. apply bkdk_flip_bkdk. apply (Hin 0%nat). lia. }
      apply flip_flip.
  Qed.

  (* [Tp] bounded leapfrog, scalar / per-parameter mass: reversible provided no
     position at the start of a drift lies on a wall *)
  Lemma bounded_leapfrog_reversible : forall n t r,
    (forall k, (k < Nat.max 1 n)%nat -> interior lo hi (fst (Nat.iter k bkdk (t, r)))) ->
    let s1 := bleapfrog t r n in
    let s2 := bleapfrog (fst s1) (vneg (snd s1)) n in
    flip s2 =s= (t, r).
  Proof.
    intros n t r Hin s1 s2. unfold s2.
    rewrite bounded_leapfrog_is_bkdk_power.
    assert (H : (fst s1, vneg (snd s1)) =s= flip (Nat.iter (Nat.max 1 n) bkdk (t, r))).
    { change (fst s1, vneg (snd s1)) with (flip s1). apply flip_proper.
      unfold s1. apply bounded_leapfrog_is_bkdk_power. }
    etransitivity.
    { apply flip_proper. apply iter_proper; [apply bkdk_proper | exact H]. }
    apply bkdk_power_reversible. exact Hin.
  Qed.
End Bounded.

(* the wall hypothesis is needed: start on the lower wall moving outwards *)
Lemma bounded_wall_hypothesis_needed :
  exists lo hi t r eps,
    let grad := fun t : vec => map (fun _ => 0) t in
    let s1 := bounded_leapfrog grad (ScalarMass 1) 1 eps lo hi t r 1 in
    let s2 := bounded_leapfrog grad (ScalarMass 1) 1 eps lo hi (fst s1) (vneg (snd s1)) 1 in
    ~ interior lo hi t /\ ~ flip s2 =s= (t, r).
Proof.
  exists [0], [1], [0], [-1], (1 # 2). cbv zeta. split.
  - simpl. intros [[H _] _]. discriminate.
  - intro H. apply state_eqb_complete in H. vm_compute in H. discriminate.
Qed.

(* D8: with a full inverse-mass matrix the bounded leapfrog is not reversible, even
   from a strictly interior start, with a symmetric positive definite matrix and a
   vanishing force *)
Lemma bounded_matrix_mass_refuted :
  exists Minv lo hi t r eps,
    let grad := fun t : vec => map (fun _ => 0) t in
    let s1 := bounded_leapfrog grad (MatrixMass Minv) 1 eps lo hi t r 1 in
    let s2 := bounded_leapfrog grad (MatrixMass Minv) 1 eps lo hi (fst s1) (vneg (snd s1)) 1 in
    Minv = transpose Minv 2 /\ interior lo hi t /\ interior lo hi (fst s1) /\ ~ flip s2 =s= (t, r).
Proof.
  exists [[1; 1 # 2]; [1 # 2; 1]], [0; 0], [1; 1], [1 # 2; 1 # 4], [1; 1 # 8], (1 # 2).
  cbv zeta. split; [reflexivity|]. split; [|split].
  - simpl. repeat split; reflexivity.
  - vm_compute. repeat split; reflexivity.
  - intro H. apply state_eqb_complete in H. vm_compute in H. discriminate.
Qed.
