(* Lemmas about call histories with interrupted calls (Model/AdvanceSteps.v, property C15). *)
From Coq Require Import List Arith Bool Lia.
From IT Require Import Model.Advance Model.AdvanceSteps.
Import ListNotations.

(* the reported length equals the number of stored values of every storage list and
   the number of stored log-probabilities *)
Definition agree (st : sst) : Prop :=
  Forall (fun c => c = s_len st) (s_cols st) /\ s_probs st = s_len st.

(* the sampler has the storage lists of its kind *)
Definition shape_ok (kd : kind) (st : sst) : Prop := length (s_cols st) = width kd.

(* ------------------------------------------------------------------ srun / strace *)
Lemma srun_0 prog : forall st, srun 0 prog st = sexec_all prog st.
Proof.
  induction prog as [|o t IH]; intros st; [reflexivity|].
  destruct o; simpl; apply IH.
Qed.

Lemma srun_app_0 p1 p2 : forall st, srun 0 (p1 ++ p2) st = srun 0 p2 (srun 0 p1 st).
Proof.
  intros st. rewrite !srun_0. unfold sexec_all. apply fold_left_app.
Qed.

Lemma srun_app_crash p1 p2 : forall k st, 1 <= k -> k <= evals p1 ->
  srun k (p1 ++ p2) st = srun k p1 st.
Proof.
  induction p1 as [|o t IH]; intros k st H1 H2; simpl in *; [lia|].
  destruct o; simpl in *; try (apply IH; assumption).
  destruct k as [|[|k']]; [lia|reflexivity|]. apply IH; lia.
Qed.

Lemma srun_app_pass p1 p2 : forall k st, evals p1 < k ->
  srun k (p1 ++ p2) st = srun (k - evals p1) p2 (srun 0 p1 st).
Proof.
  induction p1 as [|o t IH]; intros k st H; simpl in *.
  - rewrite Nat.sub_0_r. reflexivity.
  - destruct o; simpl in *; try (apply IH; assumption).
    destruct k as [|[|k']]; [lia|lia|]. rewrite IH by lia. reflexivity.
Qed.

Lemma srun_noeval w : evals w = 0 -> forall k st, srun k w st = sexec_all w st.
Proof.
  induction w as [|o t IH]; intros H k st; [reflexivity|].
  destruct o; simpl in *; try discriminate; apply IH; assumption.
Qed.

Lemma strace_noeval w : evals w = 0 -> forall k st, strace k w st = [].
Proof.
  induction w as [|o t IH]; intros H k st; [reflexivity|].
  destruct o; simpl in *; try discriminate; apply IH; assumption.
Qed.

Lemma strace_app p1 p2 : forall k st,
  strace k (p1 ++ p2) st =
  strace k p1 st ++
  (if k =? 0 then strace 0 p2 (srun 0 p1 st)
   else if k <=? evals p1 then []
   else strace (k - evals p1) p2 (srun 0 p1 st)).
Proof.
  induction p1 as [|o t IH]; intros k st; simpl.
  - destruct k; [reflexivity|]. simpl. reflexivity.
  - destruct o; simpl; try apply IH.
    destruct k as [|[|k']].
    + f_equal. apply (IH 0).
    + reflexivity.
    + f_equal. rewrite (IH (S k')). reflexivity.
Qed.

Lemma strace_app_Forall (P : sst -> Prop) p1 p2 k st :
  Forall P (strace k p1 st) ->
  (forall k', Forall P (strace k' p2 (srun 0 p1 st))) ->
  Forall P (strace k (p1 ++ p2) st).
Proof.
  intros H1 H2. rewrite strace_app. apply Forall_app. split; [assumption|].
  destruct (k =? 0); [apply H2|]. destruct (k <=? evals p1); [constructor|apply H2].
Qed.

Lemma evals_app p1 p2 : evals (p1 ++ p2) = evals p1 + evals p2.
Proof.
  induction p1 as [|o t IH]; [reflexivity|]. destruct o; simpl; rewrite IH; reflexivity.
Qed.

Lemma evals_repeat e : evals (repeat Eval e) = e.
Proof. induction e as [|e IH]; [reflexivity|]. simpl. rewrite IH. reflexivity. Qed.

Lemma srun_repeat_eval e : forall k st, srun k (repeat Eval e) st = st.
Proof.
  induction e as [|e IH]; intros k st; [reflexivity|]. simpl.
  destruct k as [|[|k']]; [apply IH|reflexivity|apply IH].
Qed.

Lemma strace_repeat_eval e : forall k st, Forall (fun s => s = st) (strace k (repeat Eval e) st).
Proof.
  induction e as [|e IH]; intros k st; [constructor|]. simpl.
  constructor; [reflexivity|]. destruct k as [|[|k']]; [apply IH|constructor|apply IH].
Qed.

(* ------------------------------------------------------------------ one step = evaluations, then writes *)
Section Steps.
  Variable w : list sop.
  Hypothesis Hw : evals w = 0.

  Definition stp (e : nat) : list sop := repeat Eval e ++ w.

  Lemma evals_stp e : evals (stp e) = e.
  Proof. unfold stp. rewrite evals_app, evals_repeat, Hw. lia. Qed.

  (* a step is atomic: it either stores everything or nothing *)
  Lemma stp_run e k st :
    srun k (stp e) st = if (k =? 0) || (e <? k) then sexec_all w st else st.
  Proof.
    unfold stp. destruct k as [|k].
    - simpl. rewrite srun_app_0, srun_repeat_eval. apply srun_0.
    - simpl. destruct (e <? S k) eqn:E.
      + apply Nat.ltb_lt in E. rewrite srun_app_pass by (rewrite evals_repeat; exact E).
        rewrite srun_repeat_eval. apply srun_noeval. exact Hw.
      + apply Nat.ltb_ge in E. rewrite srun_app_crash by (rewrite ?evals_repeat; lia).
        apply srun_repeat_eval.
  Qed.

  Fixpoint iter_w (d : nat) (st : sst) : sst :=
    match d with
    | O => st
    | S d' => iter_w d' (sexec_all w st)
    end.

  (* m steps one after another, the k-th evaluation raising: exactly the steps all of whose
     evaluations returned are stored *)
  Lemma steps_run es : forall k st,
    srun k (flat_map stp es) st = iter_w (done_steps es k) st.
  Proof.
    induction es as [|e t IH]; intros k st; [reflexivity|].
    cbn [flat_map done_steps].
    destruct k as [|k].
    - simpl. rewrite srun_app_0, IH. rewrite stp_run. reflexivity.
    - cbn [Nat.eqb orb]. destruct (e <? S k) eqn:E.
      + apply Nat.ltb_lt in E. rewrite srun_app_pass by (rewrite evals_stp; exact E).
        rewrite evals_stp, IH. cbn [iter_w]. f_equal.
        rewrite stp_run. reflexivity.
      + apply Nat.ltb_ge in E. rewrite srun_app_crash by (rewrite ?evals_stp; lia).
        rewrite stp_run. cbn [Nat.eqb orb]. apply Nat.ltb_ge in E. rewrite E. reflexivity.
  Qed.

  Lemma steps_trace (P : sst -> Prop) :
    (forall st, P st -> P (sexec_all w st)) ->
    forall es k st, P st -> Forall P (strace k (flat_map stp es) st).
  Proof.
    intros Hstep es. induction es as [|e t IH]; intros k st HP; [constructor|].
    cbn [flat_map]. apply strace_app_Forall.
    - unfold stp. apply strace_app_Forall.
      + eapply Forall_impl; [|apply strace_repeat_eval]. intros s Hs. cbv beta in Hs. subst s. exact HP.
      + intros k'. rewrite strace_noeval by exact Hw. constructor.
    - intros k'. apply IH. rewrite stp_run. cbn [Nat.eqb orb]. apply Hstep. exact HP.
  Qed.
End Steps.

(* ------------------------------------------------------------------ the writes of the samplers *)
Lemma bump_app pre c suf k : bump (length pre) k (pre ++ c :: suf) = pre ++ (c + k) :: suf.
Proof. induction pre as [|x pre IH]; simpl; [reflexivity|]. rewrite IH. reflexivity. Qed.

Lemma bump_all n : forall i pre suf, length pre = i -> length suf = n ->
  fold_left (fun l j => bump j 1 l) (seq i n) (pre ++ suf) = pre ++ map (fun c => c + 1) suf.
Proof.
  induction n as [|n IH]; intros i pre suf Hp Hs.
  - destruct suf; [reflexivity|discriminate].
  - destruct suf as [|c suf]; [discriminate|]. simpl. rewrite <- Hp, bump_app.
    replace (pre ++ (c + 1) :: suf) with ((pre ++ [c + 1]) ++ suf) by (rewrite <- app_assoc; reflexivity).
    rewrite (IH (S (length pre)) (pre ++ [c + 1]) suf).
    + rewrite <- app_assoc. reflexivity.
    + rewrite app_length. simpl. lia.
    + simpl in Hs. lia.
Qed.

Lemma pushes_exec idxs : forall st,
  sexec_all (map (fun i => Push i 1) idxs) st =
  mkS (fold_left (fun l j => bump j 1 l) idxs (s_cols st)) (s_probs st) (s_len st) (s_iter st).
Proof.
  induction idxs as [|i t IH]; intros st; [destruct st; reflexivity|].
  simpl. unfold sexec_all in IH. rewrite IH. reflexivity.
Qed.

Lemma col_writes_exec n st : length (s_cols st) = n ->
  sexec_all (col_writes n) st =
  mkS (map (fun c => c + 1) (s_cols st)) (s_probs st + 1) (S (s_len st)) (s_iter st).
Proof.
  intros H. unfold col_writes, sexec_all. rewrite fold_left_app.
  fold (sexec_all (map (fun i => Push i 1) (seq 0 n)) st). rewrite pushes_exec.
  pose proof (bump_all n 0 [] (s_cols st) eq_refl H) as E. cbn [app] in E. rewrite E. reflexivity.
Qed.

Lemma evals_pushes idxs : evals (map (fun i => Push i 1) idxs) = 0.
Proof. induction idxs as [|i t IH]; [reflexivity|exact IH]. Qed.

Lemma evals_col_writes n : evals (col_writes n) = 0.
Proof. unfold col_writes. rewrite evals_app, evals_pushes. reflexivity. Qed.

(* what one completed step does to a sampler whose counters agree *)
Definition step_writes (kd : kind) : list sop :=
  match kd with
  | KCol n => col_writes n
  | KRow => [Push 0 1; PushProbs 1; IncLen]
  | KEns nw => IncIter :: ens_writes nw
  end.

Lemma chain_writes_agree kd st : (forall nw, kd <> KEns nw) -> shape_ok kd st -> agree st ->
  let st' := sexec_all (step_writes kd) st in
  shape_ok kd st' /\ agree st' /\ s_len st' = S (s_len st) /\ s_iter st' = s_iter st.
Proof.
  intros Hk Hs [Hc Hp]. destruct kd as [n| |nw]; [| |exfalso; eapply Hk; reflexivity].
  - cbn [step_writes]. unfold shape_ok in *. cbn [width] in Hs. rewrite (col_writes_exec n st Hs).
    cbn. split; [rewrite map_length; exact Hs|]. split; [|split; reflexivity].
    split; cbn; [|lia]. apply Forall_map. eapply Forall_impl; [|exact Hc]. cbn. intros a Ha. lia.
  - unfold shape_ok in *. cbn [width] in Hs. destruct st as [cols p l it]. cbn in *.
    destruct cols as [|c [|c2 t]]; try discriminate. cbn.
    inversion Hc as [|? ? Hc1 _]; subst. unfold agree. cbn.
    split; [reflexivity|]. split; [|split; reflexivity]. split; [|lia].
    constructor; [lia|constructor].
Qed.

Lemma iter_w_agree kd : (forall nw, kd <> KEns nw) -> forall d st, shape_ok kd st -> agree st ->
  let st' := iter_w (step_writes kd) d st in
  shape_ok kd st' /\ agree st' /\ s_len st' = s_len st + d /\ s_iter st' = s_iter st.
Proof.
  intros Hk d. induction d as [|d IH]; intros st Hs Ha; cbn [iter_w].
  - repeat split; try assumption; try apply Ha. lia.
  - destruct (chain_writes_agree kd st Hk Hs Ha) as [Hs1 [Ha1 [Hl1 Hi1]]].
    destruct (IH _ Hs1 Ha1) as [Hs2 [Ha2 [Hl2 Hi2]]].
    split; [exact Hs2|]. split; [exact Ha2|]. split; [rewrite Hl2, Hl1; lia|rewrite Hi2, Hi1; reflexivity].
Qed.

Lemma evals_step_writes kd : (forall nw, kd <> KEns nw) -> evals (step_writes kd) = 0.
Proof.
  intros Hk. destruct kd; [apply evals_col_writes|reflexivity|exfalso; eapply Hk; reflexivity].
Qed.

Lemma chain_call_prog kd c : (forall nw, kd <> KEns nw) ->
  call_prog kd c = flat_map (stp (step_writes kd)) (steps_list c).
Proof.
  intros Hk. destruct kd as [n| |nw]; [| |exfalso; eapply Hk; reflexivity]; destruct c as [e|es]; cbn;
    try rewrite app_nil_r; reflexivity.
Qed.

(* ------------------------------------------------------------------ the ensemble *)
Definition with_iter (st : sst) (j : nat) : sst :=
  mkS (s_cols st) (s_probs st) (s_len st) (s_iter st + j).

Lemma with_iter_0 st : with_iter st 0 = st.
Proof. destruct st. unfold with_iter. cbn. rewrite Nat.add_0_r. reflexivity. Qed.

Lemma ens_iter_is_stp e : ens_iter e = stp [IncIter] e.
Proof. reflexivity. Qed.

Lemma iter_w_inciter d : forall st, iter_w [IncIter] d st = with_iter st d.
Proof.
  induction d as [|d IH]; intros st; cbn [iter_w]; [symmetry; apply with_iter_0|].
  rewrite IH. destruct st. unfold with_iter. cbn. f_equal. lia.
Qed.

Lemma ens_iters_run es k st : srun k (flat_map ens_iter es) st = with_iter st (done_steps es k).
Proof.
  change (flat_map ens_iter es) with (flat_map (stp [IncIter]) es).
  rewrite steps_run by reflexivity. apply iter_w_inciter.
Qed.

Lemma evals_ens_iters es : evals (flat_map ens_iter es) = list_sum es.
Proof.
  induction es as [|e t IH]; [reflexivity|]. cbn [flat_map list_sum fold_right].
  rewrite evals_app. unfold ens_iter at 1. rewrite evals_app, evals_repeat. cbn. rewrite IH.
  unfold list_sum. lia.
Qed.

Lemma done_all es : forall k, k = 0 \/ list_sum es < k -> done_steps es k = length es.
Proof.
  induction es as [|e t IH]; intros k H; [reflexivity|]. cbn [done_steps length].
  unfold list_sum in *. cbn [fold_right] in H.
  destruct H as [H|H].
  - subst k. cbn. f_equal. apply IH. left. reflexivity.
  - assert (E : e <? k = true) by (apply Nat.ltb_lt; lia). rewrite E, orb_true_r. f_equal.
    apply IH. right. lia.
Qed.

Lemma done_le es : forall k, done_steps es k <= length es.
Proof.
  induction es as [|e t IH]; intros k; cbn [done_steps length]; [lia|].
  destruct ((k =? 0) || (e <? k)); [specialize (IH (k - e)); lia|lia].
Qed.

Lemma ens_advance_run nw es k st :
  srun k (ens_advance nw es) st =
  if (k =? 0) || (list_sum es <? k)
  then sexec_all (ens_writes (length es * nw)) (with_iter st (length es))
  else with_iter st (done_steps es k).
Proof.
  unfold ens_advance. destruct k as [|k].
  - cbn [Nat.eqb orb]. rewrite srun_app_0, ens_iters_run, done_all by (left; reflexivity). apply srun_0.
  - cbn [Nat.eqb orb]. destruct (list_sum es <? S k) eqn:E.
    + apply Nat.ltb_lt in E. rewrite srun_app_pass by (rewrite evals_ens_iters; exact E).
      rewrite ens_iters_run, done_all by (left; reflexivity). apply srun_noeval. reflexivity.
    + apply Nat.ltb_ge in E. rewrite srun_app_crash by (rewrite ?evals_ens_iters; lia).
      apply ens_iters_run.
Qed.

Lemma ens_step_as_advance nw e : ens_step nw e = ens_advance nw [e].
Proof.
  unfold ens_step, ens_advance. cbn [flat_map length]. rewrite app_nil_r, Nat.mul_1_l. reflexivity.
Qed.

Lemma ens_call_prog nw c : call_prog (KEns nw) c = ens_advance nw (steps_list c).
Proof. destruct c as [e|es]; cbn; [apply ens_step_as_advance|reflexivity]. Qed.

Lemma list_sum_single e : list_sum [e] = e.
Proof. unfold list_sum. cbn. lia. Qed.

Lemma evals_of_steps c : evals_of c = list_sum (steps_list c).
Proof. destruct c; cbn; [symmetry; apply list_sum_single|reflexivity]. Qed.

Lemma requested_steps c : requested c = length (steps_list c).
Proof. destruct c; reflexivity. Qed.

Lemma with_iter_agree kd st j : (shape_ok kd st -> shape_ok kd (with_iter st j)) /\
                                (agree st -> agree (with_iter st j)).
Proof. split; intros H; exact H. Qed.

Lemma ens_writes_agree nw K st : shape_ok (KEns nw) st -> agree st ->
  let st' := sexec_all (ens_writes K) st in
  shape_ok (KEns nw) st' /\ agree st' /\ s_len st' = s_len st + K /\ s_iter st' = s_iter st.
Proof.
  intros Hs [Hc Hp]. unfold shape_ok in *. cbn [width] in Hs. destruct st as [cols p l it]. cbn in *.
  destruct cols as [|c [|c2 t]]; try discriminate. cbn. unfold agree. cbn.
  inversion Hc as [|? ? Hc1 _]; subst.
  split; [reflexivity|]. split; [|split; [lia|reflexivity]]. split; [|reflexivity].
  constructor; [reflexivity|constructor].
Qed.

(* ------------------------------------------------------------------ one call, any history *)
Lemma run_call_agree kd ck st : shape_ok kd st -> agree st ->
  let st' := run_call kd st ck in
  shape_ok kd st' /\ agree st' /\ s_len st' = s_len st + added kd ck.
Proof.
  intros Hs Ha. destruct ck as [c k]. unfold run_call. cbn [fst snd].
  destruct kd as [n| |nw].
  - rewrite chain_call_prog by discriminate. rewrite steps_run by (apply evals_col_writes).
    destruct (iter_w_agree (KCol n) ltac:(discriminate) (done_steps (steps_list c) k) st Hs Ha) as [H1 [H2 [H3 _]]].
    split; [exact H1|]. split; [exact H2|exact H3].
  - rewrite chain_call_prog by discriminate. rewrite steps_run by reflexivity.
    destruct (iter_w_agree KRow ltac:(discriminate) (done_steps (steps_list c) k) st Hs Ha) as [H1 [H2 [H3 _]]].
    split; [exact H1|]. split; [exact H2|exact H3].
  - rewrite ens_call_prog, ens_advance_run. unfold added, returned. cbn [fst snd].
    rewrite evals_of_steps, requested_steps.
    destruct ((k =? 0) || (list_sum (steps_list c) <? k)).
    + destruct (ens_writes_agree nw (length (steps_list c) * nw) (with_iter st (length (steps_list c))) Hs Ha)
        as [H1 [H2 [H3 _]]].
      split; [exact H1|]. split; [exact H2|exact H3].
    + split; [exact Hs|]. split; [exact Ha|]. cbn. lia.
Qed.

Lemma run_calls_agree kd hist : forall st, shape_ok kd st -> agree st ->
  let st' := run_calls kd hist st in
  shape_ok kd st' /\ agree st' /\ s_len st' = s_len st + added_total kd hist.
Proof.
  induction hist as [|ck t IH]; intros st Hs Ha; cbn.
  - split; [exact Hs|]. split; [exact Ha|]. unfold added_total. cbn. lia.
  - destruct (run_call_agree kd ck st Hs Ha) as [H1 [H2 H3]].
    destruct (IH _ H1 H2) as [H4 [H5 H6]]. unfold run_calls in *. cbn in *.
    split; [exact H4|]. split; [exact H5|]. rewrite H6, H3. unfold added_total, list_sum. cbn. lia.
Qed.

(* no call interrupted: exactly the requested number of steps *)
Lemma added_uninterrupted kd c : added kd (c, 0) = requested c * per_step kd.
Proof.
  unfold added. cbn [fst snd]. destruct kd as [n| |nw]; cbn [per_step];
    try (rewrite done_all by (left; reflexivity); rewrite requested_steps; lia).
  reflexivity.
Qed.

(* an interrupted call never adds a partial step, and never more than was asked for *)
Lemma added_bounds kd ck : exists j, j <= requested (fst ck) /\ added kd ck = j * per_step kd.
Proof.
  destruct ck as [c k]. unfold added. cbn [fst snd]. destruct kd as [n| |nw]; cbn [per_step].
  - exists (done_steps (steps_list c) k). rewrite requested_steps. split; [apply done_le|lia].
  - exists (done_steps (steps_list c) k). rewrite requested_steps. split; [apply done_le|lia].
  - destruct (returned c k); [exists (requested c); split; [lia|reflexivity]|exists 0; split; [lia|reflexivity]].
Qed.

(* ------------------------------------------------------------------ what the evaluations see *)
Lemma call_trace_agree kd c k st : shape_ok kd st -> agree st ->
  Forall (fun s => shape_ok kd s /\ agree s) (strace k (call_prog kd c) st).
Proof.
  intros Hs Ha. destruct kd as [n| |nw].
  - rewrite chain_call_prog by discriminate.
    apply (steps_trace (col_writes n) (evals_col_writes n) (fun s => shape_ok (KCol n) s /\ agree s)); [|split; assumption].
    intros s [H1 H2]. destruct (chain_writes_agree (KCol n) s ltac:(discriminate) H1 H2) as [H3 [H4 _]]. split; assumption.
  - rewrite chain_call_prog by discriminate.
    apply (steps_trace (step_writes KRow) eq_refl (fun s => shape_ok KRow s /\ agree s)); [|split; assumption].
    intros s [H1 H2]. destruct (chain_writes_agree KRow s ltac:(discriminate) H1 H2) as [H3 [H4 _]]. split; assumption.
  - rewrite ens_call_prog. unfold ens_advance. apply strace_app_Forall.
    + change (flat_map ens_iter (steps_list c)) with (flat_map (stp [IncIter]) (steps_list c)).
      apply (steps_trace [IncIter] eq_refl (fun s => shape_ok (KEns nw) s /\ agree s)); [|split; assumption].
      intros s H. exact H.
    + intros k'. rewrite strace_noeval by reflexivity. constructor.
Qed.

(* ------------------------------------------------------------------ n_iterations *)
Lemma run_call_iter kd ck st : shape_ok kd st -> agree st ->
  s_iter (run_call kd st ck) = s_iter st + match kd with KEns _ => iterated ck | _ => 0 end.
Proof.
  intros Hs Ha. destruct ck as [c k]. unfold run_call, iterated. cbn [fst snd].
  destruct kd as [n| |nw].
  - rewrite chain_call_prog by discriminate. rewrite steps_run by (apply evals_col_writes).
    destruct (iter_w_agree (KCol n) ltac:(discriminate) (done_steps (steps_list c) k) st Hs Ha) as [_ [_ [_ H]]].
    rewrite H. lia.
  - rewrite chain_call_prog by discriminate. rewrite steps_run by reflexivity.
    destruct (iter_w_agree KRow ltac:(discriminate) (done_steps (steps_list c) k) st Hs Ha) as [_ [_ [_ H]]].
    rewrite H. lia.
  - rewrite ens_call_prog, ens_advance_run.
    destruct ((k =? 0) || (list_sum (steps_list c) <? k)) eqn:E.
    + destruct (ens_writes_agree nw (length (steps_list c) * nw) (with_iter st (length (steps_list c))) Hs Ha)
        as [_ [_ [_ H]]]. rewrite H. cbn. f_equal. symmetry. apply done_all.
      apply orb_true_iff in E. destruct E as [E|E]; [left; apply Nat.eqb_eq; exact E|right; apply Nat.ltb_lt; exact E].
    + reflexivity.
Qed.

Lemma run_calls_iter nw hist : forall st, shape_ok (KEns nw) st -> agree st ->
  s_iter (run_calls (KEns nw) hist st) = s_iter st + list_sum (map iterated hist).
Proof.
  induction hist as [|ck t IH]; intros st Hs Ha; cbn; [unfold list_sum; cbn; lia|].
  destruct (run_call_agree (KEns nw) ck st Hs Ha) as [H1 [H2 _]].
  unfold run_calls in IH. rewrite (IH _ H1 H2). rewrite (run_call_iter (KEns nw) ck st Hs Ha).
  unfold list_sum. cbn. lia.
Qed.

(* ------------------------------------------------------------------ the interleaved variant *)
Lemma srun0_interleaved es : forall i st,
  srun 0 (interleaved i es) st = sexec_all (map (fun j => Push j 1) (seq i (length es))) st.
Proof.
  induction es as [|e t IH]; intros i st; [reflexivity|]. cbn [interleaved length seq map].
  rewrite srun_app_0, srun_repeat_eval. cbn [srun]. rewrite IH. reflexivity.
Qed.

(* without an interruption the interleaved variant cannot be told from the pinned step *)
Lemma interleaved_same_uninterrupted es st :
  srun 0 (gibbs_interleaved es) st = srun 0 (col_step (length es) (list_sum es)) st.
Proof.
  unfold gibbs_interleaved, col_step, col_writes.
  rewrite !srun_app_0, srun0_interleaved, srun_repeat_eval. rewrite (srun_0 (map _ _)). reflexivity.
Qed.

Lemma two_col_steps_offset es : forall a b p l it,
  s_cols (srun 0 (flat_map (col_step 2) es) (mkS [a; b] p l it)) = [a + length es; b + length es] /\
  s_len (srun 0 (flat_map (col_step 2) es) (mkS [a; b] p l it)) = l + length es.
Proof.
  induction es as [|e t IH]; intros a b p l it; cbn [flat_map length].
  - cbn. rewrite !Nat.add_0_r. split; reflexivity.
  - rewrite srun_app_0. change (col_step 2 e) with (stp (col_writes 2) e).
    rewrite (stp_run (col_writes 2) (evals_col_writes 2)). cbn [Nat.eqb orb].
    rewrite (col_writes_exec 2) by reflexivity. cbn [s_cols s_probs s_len s_iter map].
    destruct (IH (a + 1) (b + 1) (p + 1) (S l) it) as [H1 H2]. rewrite H1, H2.
    split; [f_equal; [lia|f_equal; lia]|lia].
Qed.

Lemma nonatomic_step_refuted :
  let st0 := mkS [1; 1] 1 1 0 in
  shape_ok (KCol 2) st0 /\ agree st0 /\
  (* the second parameter's evaluation raises: the first parameter has one more stored value *)
  srun 2 (gibbs_interleaved [1; 1]) st0 = mkS [2; 1] 1 1 0 /\
  ~ agree (srun 2 (gibbs_interleaved [1; 1]) st0) /\
  (* ... and every later, uninterrupted advance keeps the offset *)
  (forall es, ~ agree (srun 0 (flat_map (col_step 2) es) (srun 2 (gibbs_interleaved [1; 1]) st0))) /\
  (* the pinned step with the same interruption stores nothing *)
  srun 2 (col_step 2 2) st0 = st0.
Proof.
  cbn zeta. split; [reflexivity|]. split; [split; [repeat constructor|reflexivity]|].
  split; [reflexivity|]. split; [|split; [|reflexivity]].
  - intros [H _]. cbn in H. inversion H as [|? ? H1 _]. discriminate.
  - intros es [H _]. change (srun 2 (gibbs_interleaved [1; 1]) (mkS [1; 1] 1 1 0)) with (mkS [2; 1] 1 1 0) in H.
    destruct (two_col_steps_offset es 2 1 1 1 0) as [H1 H2]. rewrite H1, H2 in H.
    inversion H as [|? ? Ha _]. lia.
Qed.

(* ------------------------------------------------------------------ n_iterations can outrun the stored samples *)
Lemma ensemble_iterations_outrun_samples :
  let st0 := mkS [0] 0 0 0 in
  (* advance(3) of a fresh 4-walker ensemble, 4 evaluations per iteration, the 10th raises *)
  let st1 := run_calls (KEns 4) [(CAdvance [4; 4; 4], 10)] st0 in
  agree st1 /\ s_len st1 = 0 /\ s_iter st1 = 2 /\
  (* two more, completed, iterations *)
  let st2 := run_calls (KEns 4) [(CAdvance [4; 4], 0)] st1 in
  agree st2 /\ s_len st2 = 8 /\ s_iter st2 = 4.
Proof.
  cbn zeta. repeat split; repeat constructor.
Qed.
