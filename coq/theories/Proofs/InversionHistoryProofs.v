(* Proofs/InversionHistoryProofs.v -- lemmas about Model/InversionHistory.v (property C17):
   after ANY sequence of GpLinearInverter constructions in which the caller gives
   each of its own kernel / mean instances to at most one constructor (defaults and
   classes are unrestricted), every inverter's kernel object and mean object carry
   that inverter's own parameter positions, and no two inverters share an object. *)
From Coq Require Import List Arith Bool Lia.
From IT Require Import Model.InversionHistory.
Import ListNotations.

(* ---- lists ---- *)
Lemma NoDup_app_disj {A} (l l' : list A) x : NoDup (l ++ l') -> In x l -> ~ In x l'.
Proof.
  induction l as [|a l IH]; simpl; intros Hnd Hin; [contradiction|].
  inversion Hnd as [|? ? Hna Hnd']; subst.
  destruct Hin as [->|Hin].
  - intro Hx. apply Hna. apply in_or_app. now right.
  - now apply IH.
Qed.

Lemma NoDup_app_right {A} (l l' : list A) : NoDup (l ++ l') -> NoDup l'.
Proof.
  induction l as [|a l IH]; simpl; intros Hnd; [assumption|].
  inversion Hnd; subst. now apply IH.
Qed.

Lemma NoDup_app_left {A} (l l' : list A) : NoDup (l ++ l') -> NoDup l.
Proof.
  induction l as [|a l IH]; simpl; intros Hnd; [constructor|].
  inversion Hnd as [|? ? Hna Hnd']; subst. constructor; [|now apply IH].
  intro Hin. apply Hna. apply in_or_app. now left.
Qed.

Lemma NoDup_snoc2 {A} (l : list A) a b :
  NoDup l -> ~ In a l -> ~ In b l -> a <> b -> NoDup (l ++ [a; b]).
Proof.
  induction l as [|x l IH]; simpl; intros Hnd Ha Hb Hab.
  - constructor; [simpl; intuition congruence|]. constructor; [simpl; tauto|constructor].
  - inversion Hnd as [|? ? Hnx Hnd']; subst. constructor.
    + intro Hin. apply in_app_or in Hin. destruct Hin as [Hin|Hin]; [tauto|].
      simpl in Hin. intuition congruence.
    + apply IH; tauto.
Qed.

Lemma nth_error_map_inv {A B} (f : A -> B) (l : list A) i b :
  nth_error (map f l) i = Some b -> exists a, nth_error l i = Some a /\ f a = b.
Proof.
  revert i; induction l as [|x l IH]; intros [|i]; simpl; try discriminate.
  - intros [= <-]. now exists x.
  - apply IH.
Qed.

Section Proofs.
Variable P : Type.

Definition owned (s : pstate P) : list nat :=
  flat_map (fun iv => [iv_cov iv; iv_mean iv]) (st_invs s).

(* an object number in use is either one of the caller's instances that has been
   handed over, or was made inside a constructor *)
Definition id_ok (k : nat) (used : list nat) (next o : nat) : Prop :=
  (o < k /\ In o used) \/ (k <= o /\ o < next).

Definition owns (s : pstate P) (iv : inverter P) : Prop :=
  st_heap s (iv_cov iv) = Some (iv_pos iv) /\ st_heap s (iv_mean iv) = Some (iv_pos iv).

Record Inv (k : nat) (used : list nat) (s : pstate P) : Prop := {
  inv_next : k <= st_next s;
  inv_owns : forall iv, In iv (st_invs s) -> owns s iv;
  inv_ids : forall o, In o (owned s) -> id_ok k used (st_next s) o;
  inv_nodup : NoDup (owned s)
}.

Lemma id_ok_mono k used l next next' o :
  next <= next' -> id_ok k used next o -> id_ok k (used ++ l) next' o.
Proof.
  intros Hle [[H1 H2]|[H1 H2]]; [left|right]; split; auto.
  - apply in_or_app; now left.
  - lia.
Qed.

Lemma resolve_fresh k used next a :
  k <= next ->
  (forall o, In o (arg_ids a) -> o < k /\ ~ In o used) ->
  next <= snd (resolve None a next)
  /\ id_ok k (used ++ arg_ids a) (snd (resolve None a next)) (fst (resolve None a next))
  /\ (forall o, id_ok k used next o -> o <> fst (resolve None a next)).
Proof.
  intros Hk Ha. destruct a as [| |o0]; simpl in *.
  - split; [lia|]. split.
    + right; lia.
    + intros o [[H1 _]|[_ H2]]; lia.
  - split; [lia|]. split.
    + right; lia.
    + intros o [[H1 _]|[_ H2]]; lia.
  - destruct (Ha o0 (or_introl eq_refl)) as [Hlt Hnin].
    split; [lia|]. split.
    + left; split; auto. apply in_or_app; right; simpl; auto.
    + intros o [[H1 H2]|[H1 _]]; [|lia]. intros ->. contradiction.
Qed.

Lemma upd_same h o (x : P) : upd h o x o = Some x.
Proof. unfold upd. now rewrite Nat.eqb_refl. Qed.

Lemma upd_other h o (x : P) j : j <> o -> upd h o x j = h j.
Proof. unfold upd. intros Hne. apply Nat.eqb_neq in Hne. now rewrite Hne. Qed.

Lemma construct_inv k used s (c : ctor_call P) :
  Inv k used s ->
  NoDup (arg_ids (cc_cov c) ++ arg_ids (cc_mean c)) ->
  (forall o, In o (arg_ids (cc_cov c) ++ arg_ids (cc_mean c)) -> o < k /\ ~ In o used) ->
  Inv k (used ++ arg_ids (cc_cov c) ++ arg_ids (cc_mean c)) (construct s c).
Proof.
  intros [Hnext Howns Hids Hnd] Hndc Hc.
  destruct (resolve_fresh k used (st_next s) (cc_cov c) Hnext) as [Hle1 [Hok1 Hfr1]].
  { intros o Ho. apply Hc. apply in_or_app; now left. }
  set (ic := fst (resolve None (cc_cov c) (st_next s))) in *.
  set (n1 := snd (resolve None (cc_cov c) (st_next s))) in *.
  assert (Hk1 : k <= n1) by lia.
  destruct (resolve_fresh k (used ++ arg_ids (cc_cov c)) n1 (cc_mean c) Hk1) as [Hle2 [Hok2 Hfr2]].
  { intros o Ho. destruct (Hc o) as [Hlt Hnu]; [apply in_or_app; now right|].
    split; auto. intro Hin. apply in_app_or in Hin. destruct Hin as [Hin|Hin]; [contradiction|].
    exact (NoDup_app_disj _ _ _ Hndc Hin Ho). }
  set (im := fst (resolve None (cc_mean c) n1)) in *.
  set (n2 := snd (resolve None (cc_mean c) n1)) in *.
  assert (Hicm : ic <> im) by (apply Hfr2; exact Hok1).
  assert (Hold : forall o, In o (owned s) -> o <> ic /\ o <> im).
  { intros o Ho. split.
    - apply Hfr1. now apply Hids.
    - apply Hfr2. apply id_ok_mono with (next := st_next s); [exact Hle1|]. now apply Hids. }
  assert (Hown_in : forall iv, In iv (st_invs s) -> In (iv_cov iv) (owned s) /\ In (iv_mean iv) (owned s)).
  { intros iv Hiv. unfold owned. split; apply in_flat_map; exists iv; simpl; auto. }
  assert (Hst : construct s c =
                PState (upd (upd (st_heap s) ic (cc_pos c)) im (cc_pos c)) n2
                       (st_invs s ++ [Inverter ic im (cc_pos c)])) by reflexivity.
  rewrite Hst. clear Hst.
  assert (Howned : owned (PState (upd (upd (st_heap s) ic (cc_pos c)) im (cc_pos c)) n2
                                 (st_invs s ++ [Inverter ic im (cc_pos c)]))
                   = owned s ++ [ic; im]).
  { unfold owned; simpl. rewrite flat_map_app. simpl. reflexivity. }
  constructor.
  - simpl; lia.
  - simpl. intros iv Hiv. apply in_app_or in Hiv. destruct Hiv as [Hiv|[<-|[]]].
    + destruct (Hown_in iv Hiv) as [Hc1 Hm1].
      destruct (Hold _ Hc1) as [Hc2 Hc3]. destruct (Hold _ Hm1) as [Hm2 Hm3].
      destruct (Howns iv Hiv) as [Ho1 Ho2].
      unfold owns; simpl. rewrite !upd_other by assumption. now split.
    + unfold owns; simpl. split.
      * rewrite upd_other by assumption. apply upd_same.
      * apply upd_same.
  - rewrite Howned. simpl st_next. intros o Ho. apply in_app_or in Ho.
    rewrite app_assoc.
    destruct Ho as [Ho|[<-|[<-|[]]]].
    + apply id_ok_mono with (next := n1); [lia|]. apply id_ok_mono with (next := st_next s); [lia|]. now apply Hids.
    + apply id_ok_mono with (next := n1); [exact Hle2|]. exact Hok1.
    + exact Hok2.
  - rewrite Howned. apply NoDup_snoc2; auto.
    + intro Hin. now destruct (Hold _ Hin).
    + intro Hin. now destruct (Hold _ Hin).
Qed.

Lemma run_inv k : forall (cs : list (ctor_call P)) s used,
  Inv k used s ->
  NoDup (used ++ inst_ids cs) ->
  Forall (fun o => o < k) (inst_ids cs) ->
  Inv k (used ++ inst_ids cs) (fold_left construct cs s).
Proof.
  induction cs as [|c cs IH]; intros s used HI Hnd Hlt; simpl.
  - now rewrite app_nil_r.
  - unfold inst_ids in *. simpl in *. fold (inst_ids cs) in *.
    set (idc := arg_ids (cc_cov c) ++ arg_ids (cc_mean c)) in *.
    rewrite app_assoc. apply IH.
    + unfold idc. apply construct_inv; auto.
      * fold idc. apply NoDup_app_right in Hnd. now apply NoDup_app_left in Hnd.
      * fold idc. intros o Ho. split.
        -- rewrite Forall_forall in Hlt. apply Hlt. apply in_or_app; now left.
        -- intro Hu. refine (NoDup_app_disj _ _ _ Hnd Hu _). apply in_or_app; now left.
    + now rewrite <- app_assoc.
    + apply Forall_app in Hlt. tauto.
Qed.

Lemma run_positions : forall (cs : list (ctor_call P)) s,
  map iv_pos (st_invs (fold_left construct cs s)) = map iv_pos (st_invs s) ++ map cc_pos cs.
Proof.
  induction cs as [|c cs IH]; intros s; simpl.
  - now rewrite app_nil_r.
  - rewrite IH. simpl. rewrite map_app. simpl. now rewrite <- app_assoc.
Qed.

Lemma init_inv k : Inv k [] (init_state k : pstate P).
Proof.
  constructor; simpl; auto.
  - intros iv [].
  - intros o [].
  - constructor.
Qed.

Lemma final_inv k (cs : list (ctor_call P)) :
  wf_history k cs -> Inv k (inst_ids cs) (run_history k cs).
Proof.
  intros [Hnd Hlt]. unfold run_history.
  change (inst_ids cs) with ([] ++ inst_ids cs). apply run_inv; auto. apply init_inv.
Qed.

(* every inverter's objects carry its own positions at the end of the history *)
Lemma history_own_data k (cs : list (ctor_call P)) i c :
  wf_history k cs -> nth_error cs i = Some c ->
  cov_data (run_history k cs) i = Some (cc_pos c)
  /\ mean_data (run_history k cs) i = Some (cc_pos c).
Proof.
  intros Hwf Hi. pose proof (final_inv k cs Hwf) as [_ Howns _ _].
  assert (Hpos : nth_error (map iv_pos (st_invs (run_history k cs))) i = Some (cc_pos c)).
  { unfold run_history. rewrite run_positions. simpl. now apply map_nth_error. }
  apply nth_error_map_inv in Hpos. destruct Hpos as [iv [Hiv Hp]].
  destruct (Howns iv (nth_error_In _ _ Hiv)) as [H1 H2].
  unfold cov_data, mean_data. rewrite Hiv, H1, H2, Hp. now split.
Qed.

(* hence every quantity an inverter computes is the one of its own positions *)
Lemma history_eval_own {T} (F : P -> P -> T) k (cs : list (ctor_call P)) i c :
  wf_history k cs -> nth_error cs i = Some c ->
  eval_inverter F (run_history k cs) i = Some (F (cc_pos c) (cc_pos c)).
Proof.
  intros Hwf Hi. destruct (history_own_data k cs i c Hwf Hi) as [H1 H2].
  unfold eval_inverter. now rewrite H1, H2.
Qed.

Lemma NoDup_owned_cov (l : list (inverter P)) :
  NoDup (flat_map (fun iv => [iv_cov iv; iv_mean iv]) l) ->
  NoDup (map iv_cov l) /\ NoDup (map iv_mean l).
Proof.
  induction l as [|iv l IH]; simpl; intros Hnd; [split; constructor|].
  inversion Hnd as [|? ? Hn1 Hnd1]; subst. inversion Hnd1 as [|? ? Hn2 Hnd2]; subst.
  destruct (IH Hnd2) as [Hc Hm]. split; constructor; auto.
  - intro Hin. apply Hn1. right. apply in_map_iff in Hin. destruct Hin as [iv' [He Hin]].
    apply in_flat_map. exists iv'. split; auto. simpl. now left.
  - intro Hin. apply Hn2. apply in_map_iff in Hin. destruct Hin as [iv' [He Hin]].
    apply in_flat_map. exists iv'. split; auto. simpl. right; now left.
Qed.

(* no two inverters share a kernel object or a mean object *)
Lemma history_no_sharing k (cs : list (ctor_call P)) :
  wf_history k cs ->
  NoDup (map iv_cov (st_invs (run_history k cs))) /\ NoDup (map iv_mean (st_invs (run_history k cs))).
Proof.
  intros Hwf. pose proof (final_inv k cs Hwf) as [_ _ _ Hnd]. now apply NoDup_owned_cov.
Qed.

End Proofs.

(* ---- the boolean test of the run implies the hypothesis of the theorems ---- *)
Lemma nodupb_sound l : nodupb l = true -> NoDup l.
Proof.
  induction l as [|x l IH]; simpl; intros H; [constructor|].
  apply andb_true_iff in H. destruct H as [H1 H2]. constructor; auto.
  intro Hin. apply negb_true_iff in H1.
  assert (existsb (Nat.eqb x) l = true); [|congruence].
  apply existsb_exists. exists x. split; auto. apply Nat.eqb_refl.
Qed.

Lemma wf_historyb_sound k cs : wf_historyb k cs = true -> wf_history k cs.
Proof.
  unfold wf_historyb, wf_history. intros H. apply andb_true_iff in H. destruct H as [H1 H2].
  split; [now apply nodupb_sound|].
  apply Forall_forall. intros o Ho. rewrite forallb_forall in H2.
  apply Nat.ltb_lt. now apply H2.
Qed.

(* ---- the hypothesis "a default argument is instantiated per inverter" is needed:
   if the defaults were single objects made once (numbers 0 and 1), two default
   constructions on different positions leave the FIRST inverter with the second
   one's positions ---- *)
Lemma shared_default_interferes :
  exists cs : list (ctor_call nat),
    wf_history 2 cs /\
    exists c, nth_error cs 0 = Some c /\
      cov_data (run_history_shared 2 0 1 cs) 0 <> Some (cc_pos c) /\
      cov_data (run_history 2 cs) 0 = Some (cc_pos c).
Proof.
  exists [CtorCall KDefault KDefault 0; CtorCall KDefault KDefault 1].
  split; [apply wf_historyb_sound; reflexivity|].
  eexists; split; [reflexivity|]. split; [vm_compute; discriminate|reflexivity].
Qed.
