(* Lemmas about the real-valued GaussianKDE model (property C12). *)
From Coq Require Import Reals List QArith Qreals ZArith Lia Lra Psatz.
From Coquelicot Require Import Coquelicot.
From Interval Require Import Tactic.
From IT Require Import Model.KdeRegions Proofs.KdeRegionsProofs RealModel.Kde.
Import ListNotations.
Open Scope R_scope.

(* ---------- kernel ---------- *)

Lemma kernel_pos h x y : 0 < kernel h x y.
Proof. unfold kernel. apply exp_pos. Qed.

Lemma kernel_far h x y c : 0 < h -> 0 <= c -> c * h <= Rabs (x - y) ->
  kernel h x y <= exp (- (c * c) / 2).
Proof.
  intros Hh Hc Hfar. unfold kernel.
  set (t := (x - y) / h).
  assert (Ht : c <= Rabs t).
  { unfold t, Rdiv. rewrite Rabs_mult, (Rabs_pos_eq (/ h)) by (left; apply Rinv_0_lt_compat; exact Hh).
    apply Rmult_le_reg_r with h; [exact Hh|].
    rewrite Rmult_assoc, Rinv_l by lra. lra. }
  assert (Hsq : c * c <= t * t).
  { replace (t * t) with (Rabs t * Rabs t).
    - apply Rmult_le_compat; assumption.
    - unfold Rabs. destruct (Rcase_abs t); ring. }
  destruct (Rle_lt_or_eq_dec _ _ Hsq) as [Hlt|Heq].
  - left. apply exp_increasing. lra.
  - right. f_equal. lra.
Qed.

Lemma ksum_app h l1 l2 x : ksum h (l1 ++ l2) x = ksum h l1 x + ksum h l2 x.
Proof. induction l1 as [|a l IH]; simpl; [ring|]. rewrite IH. ring. Qed.

Lemma ksum_nonneg h l x : 0 <= ksum h l x.
Proof.
  induction l as [|a l IH]; simpl; [lra|]. assert (H := kernel_pos h x a). lra.
Qed.

Lemma ksum_le h l x B : (forall y, In y l -> kernel h x y <= B) ->
  ksum h l x <= INR (length l) * B.
Proof.
  intros HB. induction l as [|a l IH].
  - simpl. lra.
  - change (length (a :: l)) with (S (length l)). rewrite S_INR. simpl ksum.
    assert (Ha := HB a (or_introl eq_refl)).
    assert (Hl : ksum h l x <= INR (length l) * B) by (apply IH; intros y Hy; apply HB; right; exact Hy).
    lra.
Qed.

Lemma ksum_perm h l l' x : Permutation.Permutation l l' -> ksum h l x = ksum h l' x.
Proof.
  induction 1 as [| a l l' HP IH | a b l | l l' l'' H1 IH1 H2 IH2]; simpl; lra || congruence.
Qed.

(* generic truncation bound: the sample splits as  left ++ kept ++ right  and
   every dropped sample is at least c h away *)
Lemma ksum_truncation h x c L M Rr : 0 < h -> 0 <= c ->
  (forall y, In y L \/ In y Rr -> c * h <= Rabs (x - y)) ->
  0 <= ksum h (L ++ M ++ Rr) x - ksum h M x
    <= INR (length L + length Rr) * exp (- (c * c) / 2).
Proof.
  intros Hh Hc Hfar. rewrite !ksum_app.
  assert (HL : ksum h L x <= INR (length L) * exp (- (c * c) / 2)).
  { apply ksum_le. intros y Hy. apply kernel_far; auto. }
  assert (HR : ksum h Rr x <= INR (length Rr) * exp (- (c * c) / 2)).
  { apply ksum_le. intros y Hy. apply kernel_far; auto. }
  assert (H0L := ksum_nonneg h L x). assert (H0R := ksum_nonneg h Rr x).
  rewrite plus_INR. split; lra.
Qed.

Lemma kde_norm_pos N h : (0 < N)%Z -> 0 < h -> 0 < kde_norm N h.
Proof.
  intros HN Hh. unfold kde_norm. apply Rinv_0_lt_compat.
  apply Rmult_lt_0_compat; [apply Rmult_lt_0_compat|exact Hh].
  - apply IZR_lt. exact HN.
  - apply sqrt_lt_R0. assert (H := PI_RGT_0). lra.
Qed.

Lemma pdf_nonneg N h ys x : (0 < N)%Z -> 0 < h -> 0 <= kde_pdf N h ys x.
Proof.
  intros HN Hh. unfold kde_pdf. apply Rmult_le_pos; [apply ksum_nonneg|].
  left. apply kde_norm_pos; assumption.
Qed.

(* ---------- Q -> R ---------- *)

Lemma Q2R_72 : Q2R (7 # 2) = 7 / 2.
Proof. unfold Q2R, Qnum, Qden. lra. Qed.

Lemma Q_far_R (x y h : Q) : 0 < Q2R h ->
  (y + (7 # 2) * h <= x)%Q \/ (x + (7 # 2) * h <= y)%Q ->
  7 / 2 * Q2R h <= Rabs (Q2R x - Q2R y).
Proof.
  intros Hh [H|H]; apply Qle_Rle in H; rewrite Q2R_plus, Q2R_mult, Q2R_72 in H.
  - rewrite Rabs_pos_eq by lra. lra.
  - rewrite Rabs_left1 by lra. lra.
Qed.

Lemma Q2R_qnat k : Q2R (qnat k) = INR k.
Proof.
  unfold qnat, Q2R, inject_Z, Qnum, Qden. rewrite Rinv_1, Rmult_1_r. symmetry. apply INR_IZR_INZ.
Qed.

Lemma map_app_3 {A B} (f : A -> B) a b c : map f (a ++ b ++ c) = map f a ++ map f b ++ map f c.
Proof. rewrite !map_app. reflexivity. Qed.

(* ---------- the pdf truncation bound ---------- *)

Definition trunc_const : R := exp (- ((7 / 2) * (7 / 2)) / 2).   (* e^-6.125 *)

Theorem pdf_truncation_bound (n : nat) (s : list Q) (h x : Q) :
  qsorted s -> s <> [] -> (0 < h)%Q -> (srange s <= pow2 n * h)%Q ->
  let N := Z.of_nat (length s) in
  let sl := region_slice n s h (region_of n s x) in
  let exact := kde_pdf N (Q2R h) (map Q2R s) (Q2R x) in
  let code := kde_pdf N (Q2R h) (map Q2R sl) (Q2R x) in
  0 <= exact - code <=
    (INR (length s - length sl) / IZR N) * (trunc_const / (Q2R h * sqrt (2 * PI))).
Proof.
  intros Hs Hne Hh Hcov N sl exact code.
  set (r := region_of n s x) in *.
  set (L := firstn (lwr n s h r) s). set (Rr := skipn (upr n s h r) s).
  assert (Hdec : s = L ++ sl ++ Rr) by (apply sample_decomp; assumption).
  assert (HhR : 0 < Q2R h) by (apply Qlt_Rlt in Hh; rewrite RMicromega.Q2R_0 in Hh; exact Hh).
  assert (HN : (0 < N)%Z).
  { unfold N. destruct s; [congruence|]. simpl length. lia. }
  assert (Hlen : (length s - length sl = length L + length Rr)%nat).
  { rewrite Hdec at 1. rewrite !app_length. lia. }
  assert (Hk := ksum_truncation (Q2R h) (Q2R x) (7 / 2) (map Q2R L) (map Q2R sl) (map Q2R Rr) HhR).
  assert (Hk' : 0 <= ksum (Q2R h) (map Q2R s) (Q2R x) - ksum (Q2R h) (map Q2R sl) (Q2R x)
                <= INR (length s - length sl) * trunc_const).
  { rewrite Hlen. rewrite Hdec at 1 2. rewrite map_app_3.
    rewrite <- (map_length Q2R L), <- (map_length Q2R Rr). apply Hk; [lra|].
    intros y Hy.
    assert (Hex : exists q, Q2R q = y /\ (In q L \/ In q Rr)).
    { destruct Hy as [Hy|Hy]; apply in_map_iff in Hy; destruct Hy as [q [E Hq]]; exists q; auto. }
    destruct Hex as [q [E Hq]]. subst y.
    apply Q_far_R; [exact HhR|]. apply (excluded_far_cases n s h x Hs Hh Hcov q). exact Hq. }
  unfold exact, code, kde_pdf. rewrite <- Rmult_minus_distr_r.
  assert (Hnp := kde_norm_pos N (Q2R h) HN HhR).
  assert (Hnorm : kde_norm N (Q2R h) = / IZR N * (/ (Q2R h * sqrt (2 * PI)))).
  { unfold kde_norm. assert (0 < IZR N) by (apply IZR_lt; exact HN).
    assert (0 < sqrt (2 * PI)) by (apply sqrt_lt_R0; assert (Hp := PI_RGT_0); lra).
    field. repeat split; lra. }
  split.
  - apply Rmult_le_pos; [lra|lra].
  - replace (INR (length s - length sl) / IZR N * (trunc_const / (Q2R h * sqrt (2 * PI))))
      with (INR (length s - length sl) * trunc_const * kde_norm N (Q2R h)).
    + apply Rmult_le_compat_r; [lra|]. lra.
    + rewrite Hnorm. unfold Rdiv. ring.
Qed.

(* sample order: the exact sum does not depend on it *)
Lemma pdf_exact_perm (s s' : list Q) (h x : Q) : Permutation.Permutation s s' ->
  pdf_exact_at s h x = pdf_exact_at s' h x.
Proof.
  intros HP. unfold pdf_exact_at, kde_pdf.
  rewrite (Permutation.Permutation_length HP).
  f_equal. apply ksum_perm. apply Permutation.Permutation_map. exact HP.
Qed.

(* ---------- the normal cdf ---------- *)

Lemma phi_pos t : 0 < phi t.
Proof.
  unfold phi. apply Rdiv_lt_0_compat; [apply exp_pos|].
  apply sqrt_lt_R0. assert (H := PI_RGT_0). lra.
Qed.

Lemma phi_continuous t : continuous phi t.
Proof.
  apply (ex_derive_continuous phi t). unfold phi. auto_derive.
  assert (H := PI_RGT_0). assert (0 < sqrt (2 * PI)) by (apply sqrt_lt_R0; lra).
  repeat split; try lra.
Qed.

Lemma phi_ex_RInt a b : ex_RInt phi a b.
Proof. apply (ex_RInt_continuous phi). intros z _. apply phi_continuous. Qed.

Lemma Phi_diff a b : Phi b - Phi a = RInt phi a b.
Proof.
  unfold Phi.
  assert (H := RInt_Chasles phi 0 a b (phi_ex_RInt 0 a) (phi_ex_RInt a b)).
  unfold plus in H. simpl in H. lra.
Qed.

Lemma Phi_monotone a b : a <= b -> Phi a <= Phi b.
Proof.
  intros Hab. assert (H := Phi_diff a b).
  assert (0 <= RInt phi a b).
  { apply RInt_ge_0; [exact Hab|apply phi_ex_RInt|]. intros t _. left. apply phi_pos. }
  lra.
Qed.

Lemma Phi_strict a b : a < b -> Phi a < Phi b.
Proof.
  intros Hab. assert (H := Phi_diff a b).
  assert (0 < RInt phi a b).
  { apply RInt_gt_0; [exact Hab| |].
    - intros t _. apply phi_pos.
    - intros t _. apply phi_continuous. }
  lra.
Qed.

Lemma csum_app h l1 l2 x : csum h (l1 ++ l2) x = csum h l1 x + csum h l2 x.
Proof. induction l1 as [|a l IH]; simpl; [ring|]. rewrite IH. ring. Qed.

Lemma csum_monotone h ys x x' : 0 < h -> x <= x' -> csum h ys x <= csum h ys x'.
Proof.
  intros Hh Hx. induction ys as [|y ys IH]; simpl; [lra|].
  assert (Phi ((x - y) / h) <= Phi ((x' - y) / h)).
  { apply Phi_monotone. unfold Rdiv. apply Rmult_le_compat_r; [left; apply Rinv_0_lt_compat; exact Hh|lra]. }
  lra.
Qed.

(* the cdf is non-decreasing between two points served by the same region *)
Theorem cdf_monotone_within N off h ys x x' : (0 < N)%Z -> 0 < h -> x <= x' ->
  kde_cdf N off h ys x <= kde_cdf N off h ys x'.
Proof.
  intros HN Hh Hx. unfold kde_cdf.
  assert (H := csum_monotone h ys x x' Hh Hx).
  assert (0 < IZR N) by (apply IZR_lt; exact HN).
  assert (csum h ys x / IZR N <= csum h ys x' / IZR N).
  { unfold Rdiv. apply Rmult_le_compat_r; [left; apply Rinv_0_lt_compat; assumption|exact H]. }
  lra.
Qed.

Lemma div_ge h t c : 0 < h -> c * h <= t -> c <= t / h.
Proof.
  intros Hh H. replace c with (c * h / h) by (field; lra).
  unfold Rdiv. apply Rmult_le_compat_r; [left; apply Rinv_0_lt_compat; exact Hh|exact H].
Qed.

Lemma div_le h t c : 0 < h -> t <= c * h -> t / h <= c.
Proof.
  intros Hh H. replace c with (c * h / h) by (field; lra).
  unfold Rdiv. apply Rmult_le_compat_r; [left; apply Rinv_0_lt_compat; exact Hh|exact H].
Qed.

(* ---------- cdf truncation, for any kernel cdf G with the tail property ----------
   The code replaces G((x-y)/h) by 1 for samples dropped on the left and by 0
   for samples dropped on the right.  For the Gaussian kernel the tail
   property  1 - eps <= Phi t (t >= 7/2),  Phi t <= eps (t <= -7/2)  with
   eps = Phi(-7/2) needs the Gaussian integral, which is not formalised. *)
Section CdfTruncation.
  Variable G : R -> R.
  Variable eps : R.
  Hypothesis G_range : forall t, 0 <= G t <= 1.
  Hypothesis G_hi : forall t, 7 / 2 <= t -> 1 - eps <= G t.
  Hypothesis G_lo : forall t, t <= - (7 / 2) -> G t <= eps.

  Definition gsum (h : R) (ys : list R) (x : R) : R :=
    fold_right (fun y acc => G ((x - y) / h) + acc) 0 ys.

  Lemma gsum_app h l1 l2 x : gsum h (l1 ++ l2) x = gsum h l1 x + gsum h l2 x.
  Proof. induction l1 as [|a l IH]; simpl; [ring|]. rewrite IH. ring. Qed.

  Lemma gsum_left h x L : 0 < h -> (forall y, In y L -> y + 7 / 2 * h <= x) ->
    INR (length L) * (1 - eps) <= gsum h L x <= INR (length L).
  Proof.
    intros Hh HL. induction L as [|a L IH].
    - simpl. lra.
    - change (length (a :: L)) with (S (length L)). rewrite S_INR. simpl gsum.
      assert (Ha : 7 / 2 <= (x - a) / h).
      { apply div_ge; [exact Hh|]. assert (H := HL a (or_introl eq_refl)). lra. }
      assert (H1 := G_hi _ Ha). assert (H2 := G_range ((x - a) / h)).
      assert (IH' : INR (length L) * (1 - eps) <= gsum h L x <= INR (length L))
        by (apply IH; intros y Hy; apply HL; right; exact Hy).
      lra.
  Qed.

  Lemma gsum_right h x Rr : 0 < h -> (forall y, In y Rr -> x + 7 / 2 * h <= y) ->
    0 <= gsum h Rr x <= INR (length Rr) * eps.
  Proof.
    intros Hh HR. induction Rr as [|a Rr IH].
    - simpl. lra.
    - change (length (a :: Rr)) with (S (length Rr)). rewrite S_INR. simpl gsum.
      assert (Ha : (x - a) / h <= - (7 / 2)).
      { apply div_le; [exact Hh|]. assert (H := HR a (or_introl eq_refl)). lra. }
      assert (H1 := G_lo _ Ha). assert (H2 := G_range ((x - a) / h)).
      assert (IH' : 0 <= gsum h Rr x <= INR (length Rr) * eps)
        by (apply IH; intros y Hy; apply HR; right; exact Hy).
      lra.
  Qed.

  (* exact = (1/N) sum over everything;  code = |L|/N + (1/N) sum over the slice *)
  Lemma cdf_truncation_generic h x L M Rr N : 0 < h -> 0 < N ->
    (forall y, In y L -> y + 7 / 2 * h <= x) ->
    (forall y, In y Rr -> x + 7 / 2 * h <= y) ->
    - (INR (length L) * eps) / N
      <= gsum h (L ++ M ++ Rr) x / N - (INR (length L) / N + gsum h M x / N)
      <= (INR (length Rr) * eps) / N.
  Proof.
    intros Hh HN HL HR. rewrite !gsum_app.
    assert (H1 := gsum_left h x L Hh HL). assert (H2 := gsum_right h x Rr Hh HR).
    assert (Hi : 0 < / N) by (apply Rinv_0_lt_compat; exact HN).
    replace ((gsum h L x + (gsum h M x + gsum h Rr x)) / N - (INR (length L) / N + gsum h M x / N))
      with ((gsum h L x - INR (length L) + gsum h Rr x) * / N) by (unfold Rdiv; ring).
    unfold Rdiv. split; apply Rmult_le_compat_r; lra.
  Qed.
End CdfTruncation.

Theorem cdf_truncation_bound (G : R -> R) (eps : R) (n : nat) (s : list Q) (h x : Q) :
  (forall t, 0 <= G t <= 1) -> (forall t, 7 / 2 <= t -> 1 - eps <= G t) ->
  (forall t, t <= - (7 / 2) -> G t <= eps) ->
  qsorted s -> s <> [] -> (0 < h)%Q -> (srange s <= pow2 n * h)%Q ->
  let N := INR (length s) in
  let r := region_of n s x in
  let sl := region_slice n s h r in
  let exact := gsum G (Q2R h) (map Q2R s) (Q2R x) / N in
  let code := Q2R (cdf_offset n s h r) + gsum G (Q2R h) (map Q2R sl) (Q2R x) / N in
  Rabs (exact - code) <= INR (length s - length sl) / N * eps.
Proof.
  intros Gr Ghi Glo Hs Hne Hh Hcov N r sl exact code.
  set (L := firstn (lwr n s h r) s). set (Rr := skipn (upr n s h r) s).
  assert (Hdec : s = L ++ sl ++ Rr) by (apply sample_decomp; assumption).
  assert (HhR : 0 < Q2R h) by (apply Qlt_Rlt in Hh; rewrite RMicromega.Q2R_0 in Hh; exact Hh).
  assert (HN : 0 < N).
  { unfold N. destruct s; [congruence|]. apply lt_0_INR. simpl. lia. }
  assert (Hlen : (length s - length sl = length L + length Rr)%nat).
  { rewrite Hdec at 1. rewrite !app_length. lia. }
  assert (HlenL : length L = lwr n s h r).
  { unfold L. apply firstn_length_le. unfold lwr. apply count_lt_le_length. }
  assert (Hoff : Q2R (cdf_offset n s h r) = INR (length L) / N).
  { unfold cdf_offset. rewrite Q2R_div.
    - rewrite !Q2R_qnat, HlenL. reflexivity.
    - intros E. apply Qeq_eqR in E. rewrite Q2R_qnat, RMicromega.Q2R_0 in E. fold N in E. lra. }
  assert (Heps : 0 <= eps).
  { assert (H1 := Glo (-(7/2)) (Rle_refl _)). assert (H2 := Gr (-(7/2))). lra. }
  assert (Hg := cdf_truncation_generic G eps Gr Ghi Glo (Q2R h) (Q2R x)
                  (map Q2R L) (map Q2R sl) (map Q2R Rr) N HhR HN).
  rewrite !map_length in Hg.
  assert (HL : forall y, In y (map Q2R L) -> y + 7 / 2 * Q2R h <= Q2R x).
  { intros y Hy. apply in_map_iff in Hy. destruct Hy as [q [E Hq]]. subst y.
    assert (H := excluded_left_below n s h x Hs Hh Hcov q Hq).
    apply Qle_Rle in H. rewrite Q2R_plus, Q2R_mult, Q2R_72 in H. lra. }
  assert (HR : forall y, In y (map Q2R Rr) -> Q2R x + 7 / 2 * Q2R h <= y).
  { intros y Hy. apply in_map_iff in Hy. destruct Hy as [q [E Hq]]. subst y.
    assert (H := excluded_right_above n s h x Hs Hh Hcov q Hq).
    apply Qle_Rle in H. rewrite Q2R_plus, Q2R_mult, Q2R_72 in H. lra. }
  specialize (Hg HL HR).
  unfold exact, code. rewrite Hoff. rewrite Hdec at 1. rewrite map_app_3.
  rewrite Hlen, plus_INR.
  assert (Hi : 0 < / N) by (apply Rinv_0_lt_compat; exact HN).
  assert (HLn := pos_INR (length L)). assert (HRn := pos_INR (length Rr)).
  assert (B1 : INR (length Rr) * eps / N <= (INR (length L) + INR (length Rr)) / N * eps).
  { unfold Rdiv. replace ((INR (length L) + INR (length Rr)) * / N * eps)
      with (INR (length Rr) * eps * / N + INR (length L) * eps * / N) by ring.
    assert (0 <= INR (length L) * eps * / N).
    { apply Rmult_le_pos; [apply Rmult_le_pos; assumption|lra]. }
    lra. }
  assert (B2 : - ((INR (length L) + INR (length Rr)) / N * eps) <= - (INR (length L) * eps) / N).
  { unfold Rdiv. replace (- ((INR (length L) + INR (length Rr)) * / N * eps))
      with (- (INR (length L) * eps) * / N - INR (length Rr) * eps * / N) by ring.
    assert (0 <= INR (length Rr) * eps * / N).
    { apply Rmult_le_pos; [apply Rmult_le_pos; assumption|lra]. }
    lra. }
  apply Rabs_le. lra.
Qed.

(* ---------- rule-of-thumb bandwidth ---------- *)

Lemma rsum_map_affine a b l : rsum (map (fun x => a * x + b) l) = a * rsum l + INR (length l) * b.
Proof.
  induction l as [|x l IH]; [simpl; ring|].
  change (length (x :: l)) with (S (length l)). rewrite S_INR. simpl rsum. simpl map.
  simpl in IH. unfold rsum in *. simpl. rewrite IH. ring.
Qed.

Lemma rmean_affine a b l : l <> [] -> rmean (map (fun x => a * x + b) l) = a * rmean l + b.
Proof.
  intros Hne. unfold rmean. rewrite map_length, rsum_map_affine.
  assert (0 < INR (length l)) by (destruct l; [congruence|apply lt_0_INR; simpl; lia]).
  field. lra.
Qed.

Lemma rsum_map_scale c (f : R -> R) l : rsum (map (fun x => c * f x) l) = c * rsum (map f l).
Proof. induction l as [|x l IH]; simpl; [ring|]. unfold rsum in *. simpl in *. rewrite IH. ring. Qed.

Lemma rmean_scale c (f : R -> R) l : rmean (map (fun x => c * f x) l) = c * rmean (map f l).
Proof. unfold rmean. rewrite !map_length, rsum_map_scale. unfold Rdiv. ring. Qed.

Lemma rvar_affine a b l : l <> [] -> rvar (map (fun x => a * x + b) l) = a * a * rvar l.
Proof.
  intros Hne. unfold rvar. rewrite rmean_affine by exact Hne. rewrite map_map.
  rewrite <- (rmean_scale (a * a) (fun x => (x - rmean l) * (x - rmean l))).
  f_equal. apply map_ext. intros x. ring.
Qed.

Lemma rsum_sq_nonneg m l : 0 <= rsum (map (fun x => (x - m) * (x - m)) l).
Proof.
  induction l as [|x l IH]; unfold rsum in *; simpl; [lra|].
  assert (H := Rle_0_sqr (x - m)). unfold Rsqr in H. lra.
Qed.

Lemma rvar_nonneg l : 0 <= rvar l.
Proof.
  unfold rvar. unfold rmean at 1. rewrite map_length.
  assert (Hs := rsum_sq_nonneg (rmean l) l).
  destruct l as [|x l].
  - simpl. unfold Rdiv. rewrite Rinv_0. lra.
  - apply Rmult_le_pos; [exact Hs|]. left. apply Rinv_0_lt_compat. apply lt_0_INR. simpl. lia.
Qed.

(* shifting the data leaves the bandwidth unchanged, scaling by a > 0 scales it by a *)
Theorem rule_of_thumb_equivariant a b l : 0 < a -> l <> [] ->
  rule_of_thumb (map (fun x => a * x + b) l) = a * rule_of_thumb l.
Proof.
  intros Ha Hne. unfold rule_of_thumb. rewrite map_length, rvar_affine by exact Hne.
  rewrite sqrt_mult_alt by nra. rewrite sqrt_square by lra. unfold Rdiv. ring.
Qed.

(* ---------- cross-validation grid ---------- *)

Theorem cv_grid_equivariant a h0 : 0 < a -> 0 < h0 ->
  cv_widths (a * h0) = map (Rmult a) (cv_widths h0).
Proof.
  intros Ha Hh. unfold cv_widths, cv_grid. rewrite !map_map. apply map_ext. intros m.
  rewrite ln_mult by assumption. rewrite Rplus_assoc, exp_plus, exp_ln by exact Ha. reflexivity.
Qed.

(* the pinned grid  exp(h0 + m/2)  is not: doubling the data squares e^h0 *)
Theorem cv_grid_pinned_refuted :
  exists a h0, 0 < a /\ 0 < h0 /\ cv_widths_pinned (a * h0) <> map (Rmult a) (cv_widths_pinned h0).
Proof.
  exists 2, 1. split; [lra|]. split; [lra|].
  unfold cv_widths_pinned, cv_grid_pinned, cv_offsets, cv_dh. simpl. intros E.
  assert (E1 := f_equal (fun l => hd 0 l) E). simpl in E1.
  assert (H : exp (2 * 1 + -2 * (1 / 2)) <> 2 * exp (1 + -2 * (1 / 2))).
  { apply Rgt_not_eq. unfold Rgt. interval. }
  apply H. exact E1.
Qed.

(* ---------- statements about the sorted sample, as used by Properties/C12.v ---------- *)

Lemma sort_nonempty (sample : list Q) : sample <> [] -> QSort.sort sample <> [].
Proof.
  intros Hne E. apply Hne. apply Permutation.Permutation_nil.
  rewrite <- E. symmetry. apply sort_perm.
Qed.

Theorem slice_covers (sample : list Q) (h x : Q) (n i : nat) :
  let s := QSort.sort sample in
  (0 < h)%Q -> (srange s <= pow2 n * h)%Q -> (i < length s)%nat ->
  (Qabs.Qabs (x - nth i s 0) < (7 # 2) * h)%Q ->
  (lwr n s h (region_of n s x) <= i < upr n s h (region_of n s x))%nat.
Proof.
  intros s Hh Hcov Hi Hnear.
  apply (slice_covers_index n s h x (sort_sorted sample) Hh Hcov i Hi Hnear).
Qed.

Theorem pdf_truncation_bound_sorted (sample : list Q) (h x : Q) (n : nat) :
  sample <> [] -> (0 < h)%Q -> (srange (QSort.sort sample) <= pow2 n * h)%Q ->
  let s := QSort.sort sample in
  let sl := region_slice n s h (region_of n s x) in
  0 <= pdf_exact_at sample h x - pdf_code_at n sample h x <=
    (INR (length s - length sl) / INR (length s)) * (trunc_const / (Q2R h * sqrt (2 * PI))).
Proof.
  intros Hne Hh Hcov s sl.
  assert (H := pdf_truncation_bound n s h x (sort_sorted sample) (sort_nonempty sample Hne) Hh Hcov).
  cbv zeta in H. fold s in H. fold sl in H.
  unfold pdf_code_at. cbv zeta. fold s. fold sl.
  replace (pdf_exact_at sample h x) with (kde_pdf (Z.of_nat (length s)) (Q2R h) (map Q2R s) (Q2R x)).
  - rewrite <- INR_IZR_INZ in H. exact H.
  - symmetry. apply pdf_exact_perm. apply sort_perm.
Qed.

Theorem pdf_code_nonneg (sample : list Q) (h x : Q) (n : nat) :
  sample <> [] -> (0 < h)%Q -> 0 <= pdf_code_at n sample h x.
Proof.
  intros Hne Hh. unfold pdf_code_at. cbv zeta. apply pdf_nonneg.
  - assert (H := sort_nonempty sample Hne). destruct (QSort.sort sample); [congruence|]. simpl length. lia.
  - apply Qlt_Rlt in Hh. rewrite RMicromega.Q2R_0 in Hh. exact Hh.
Qed.

(* within a region the code's cdf is non-decreasing *)
Theorem cdf_code_monotone_within (sample : list Q) (h x x' : Q) (n : nat) :
  sample <> [] -> (0 < h)%Q -> (x <= x')%Q ->
  region_of n (QSort.sort sample) x = region_of n (QSort.sort sample) x' ->
  cdf_code_at n sample h x <= cdf_code_at n sample h x'.
Proof.
  intros Hne Hh Hx Hr. unfold cdf_code_at. cbv zeta. rewrite Hr.
  apply cdf_monotone_within.
  - assert (H := sort_nonempty sample Hne). destruct (QSort.sort sample); [congruence|]. simpl length. lia.
  - apply Qlt_Rlt in Hh. rewrite RMicromega.Q2R_0 in Hh. exact Hh.
  - apply Qle_Rle. exact Hx.
Qed.

(* ---------- evaluation of cdf goals in generated files ----------
   Each kernel argument (x - y)/h is first computed exactly in Q (coq-interval's
   reifier mishandles literal zeros inside integration bounds), Phi 0 = 1/2 is
   rewritten, and every remaining integral is enclosed by integral_intro. *)
Lemma Phi_Q_arg (x y h z : Q) : ~ (h == 0)%Q -> ((x - y) / h == z)%Q ->
  Phi ((Q2R x - Q2R y) / Q2R h) = Phi (Q2R z).
Proof.
  intros Hh Hz. f_equal. rewrite <- Q2R_minus. rewrite <- Q2R_div by exact Hh.
  apply Qeq_eqR. exact Hz.
Qed.

Lemma Phi_zero : Phi (Q2R 0) = 1 / 2.
Proof.
  unfold Phi. rewrite RMicromega.Q2R_0. rewrite RInt_point. unfold zero. simpl. lra.
Qed.

Ltac phi_args :=
  repeat match goal with
  | |- context [Phi ((Q2R ?x - Q2R ?y) / Q2R ?h)] =>
      let z := eval vm_compute in (Qred ((x - y) / h)) in
      rewrite (Phi_Q_arg x y h z) by (try (let HE := fresh "HE" in intro HE; vm_compute in HE; discriminate); vm_compute; reflexivity)
  end;
  rewrite ?Phi_zero.

Ltac rint_intros :=
  repeat match goal with
  | |- context [RInt ?f ?a ?b] =>
      let H := fresh "HI" in
      integral_intro (RInt f a b) with (i_prec 60, i_relwidth 33) as H;
      revert H; generalize (RInt f a b); intros ? H
  end.

Ltac kde_cdf_goal :=
  unfold cdf_code_at, cdf_exact_at; kde_lists;
  cbv [kde_cdf csum fold_right]; phi_args;
  cbv [Phi phi Q2R Qnum Qden];
  rint_intros;
  interval with (i_prec 90).
