(* Lemmas about RealModel/Acquisition.v: the code's helper functions are the
   normal density / distribution function, both EI branches compute
   sig * (Z Phi Z + phi Z), derivative laws, gradients. *)
From Coq Require Import Reals Lra Psatz.
From Coquelicot Require Import Coquelicot.
From IT Require Import RealModel.Acquisition.
Open Scope R_scope.

(* ------------------------------------------------------------------ *)
(* constants                                                            *)
Lemma two_PI_pos : 0 < 2 * PI.
Proof. pose proof PI_RGT_0. lra. Qed.

Lemma sqrt_2PI_pos : 0 < sqrt (2 * PI).
Proof. apply sqrt_lt_R0, two_PI_pos. Qed.

Lemma sqrt_PI_pos : 0 < sqrt PI.
Proof. apply sqrt_lt_R0, PI_RGT_0. Qed.

Lemma sqrt_2_pos : 0 < sqrt 2.
Proof. apply sqrt_lt_R0. lra. Qed.

Lemma sqrt_2PI_split : sqrt (2 * PI) = sqrt 2 * sqrt PI.
Proof. apply sqrt_mult; [lra | pose proof PI_RGT_0; lra]. Qed.

Lemma ir2_sq : ir2 * ir2 = 1 / 2.
Proof.
  unfold ir2. pose proof sqrt_2_pos as H2.
  assert (Hs : sqrt 2 * sqrt 2 = 2) by (apply sqrt_sqrt; lra).
  field_simplify; [ | lra].
  replace (sqrt 2 ^ 2) with (sqrt 2 * sqrt 2) by ring. rewrite Hs. reflexivity.
Qed.

Lemma rpi2_double : 2 * rpi2 = sqrt (2 * PI).
Proof.
  unfold rpi2.
  replace (2 * PI) with (4 * (1 / 2 * PI)) by field.
  rewrite (sqrt_mult 4 (1 / 2 * PI)); [ | lra | pose proof PI_RGT_0; lra].
  assert (H4 : sqrt 4 = 2).
  { replace 4 with (2 * 2) by ring. apply sqrt_square. lra. }
  rewrite H4. reflexivity.
Qed.

(* ------------------------------------------------------------------ *)
(* phi                                                                  *)
Lemma phi_pos z : 0 < phi z.
Proof.
  unfold phi. apply Rmult_lt_0_compat.
  - apply Rinv_0_lt_compat, sqrt_2PI_pos.
  - apply exp_pos.
Qed.

Lemma phi_even z : phi (- z) = phi z.
Proof. unfold phi. replace (- z * - z) with (z * z) by ring. reflexivity. Qed.

Lemma phi_derive z : is_derive phi z (- z * phi z).
Proof.
  unfold phi. auto_derive; [exact I | ]. unfold Rdiv. field.
  apply Rgt_not_eq, sqrt_2PI_pos.
Qed.

Lemma phi_continuous z : continuous phi z.
Proof. apply (ex_derive_continuous (K:=R_AbsRing) (V:=R_NormedModule)). eexists. apply phi_derive. Qed.

Lemma ex_RInt_phi a b : ex_RInt phi a b.
Proof. apply (ex_RInt_continuous (V:=R_CompleteNormedModule)). intros z _. apply phi_continuous. Qed.

Lemma normal_pdf_phi z : normal_pdf z = phi z.
Proof.
  unfold normal_pdf, phi, ir2pi.
  replace (- (1 / 2) * (z * z)) with (- (z * z) / 2) by field.
  field. apply Rgt_not_eq, sqrt_2PI_pos.
Qed.

Lemma exp_ln_pdf z : exp (ln_pdf z) = phi z.
Proof.
  unfold ln_pdf, phi, ln2pi.
  replace (- (1 / 2) * (z * z + ln (2 * PI)))
    with (- (z * z) / 2 + - (/ 2 * ln (2 * PI))) by field.
  rewrite exp_plus, exp_Ropp.
  fold (Rpower (2 * PI) (/ 2)). rewrite Rpower_sqrt by apply two_PI_pos.
  ring.
Qed.

(* ------------------------------------------------------------------ *)
(* Phi                                                                  *)
Lemma Phi_derive z : is_derive Phi z (phi z).
Proof.
  unfold Phi.
  evar (d : R). assert (Hd : is_derive (fun z0 => 1 / 2 + RInt phi 0 z0) z d).
  { apply (is_derive_plus (fun _ => 1 / 2) (fun z0 => RInt phi 0 z0)).
    - apply is_derive_const.
    - apply (is_derive_RInt phi (fun b => RInt phi 0 b) 0).
      + apply filter_forall. intros b. apply (RInt_correct (V:=R_CompleteNormedModule)), ex_RInt_phi.
      + apply phi_continuous. }
  unfold d in Hd. replace (phi z) with (plus zero (phi z)); [exact Hd | ].
  unfold plus, zero; simpl. ring.
Qed.

Lemma Phi_continuous z : continuous Phi z.
Proof. apply (ex_derive_continuous (K:=R_AbsRing) (V:=R_NormedModule)). eexists. apply Phi_derive. Qed.

Lemma Phi_0 : Phi 0 = 1 / 2.
Proof. unfold Phi. rewrite RInt_point. unfold zero; simpl. ring. Qed.

Lemma RInt_phi_opp z : RInt phi 0 (- z) = - RInt phi 0 z.
Proof.
  replace (RInt phi 0 (- z)) with (RInt phi (-1 * 0 + 0) (-1 * z + 0)).
  2:{ f_equal; ring. }
  rewrite <- (RInt_comp_lin phi (-1) 0 0 z) by apply ex_RInt_phi.
  rewrite (RInt_ext _ (fun y => scal (-1) (phi y))).
  2:{ intros y _. f_equal. replace (-1 * y + 0) with (- y) by ring. apply phi_even. }
  rewrite (RInt_scal (V:=R_CompleteNormedModule) phi) by apply ex_RInt_phi.
  unfold scal; simpl. unfold mult; simpl. ring.
Qed.

Lemma Phi_opp z : Phi (- z) = 1 - Phi z.
Proof. unfold Phi. rewrite RInt_phi_opp. field. Qed.

(* ------------------------------------------------------------------ *)
(* scipy's erf / erfcx in terms of Phi                                  *)
Lemma erf_scaled z : erf (z * ir2) = 2 * RInt phi 0 z.
Proof.
  unfold erf.
  pose (f := fun t : R => exp (- (t * t))).
  assert (Hc : forall a b, ex_RInt f a b).
  { intros a b. apply (ex_RInt_continuous (V:=R_CompleteNormedModule)). intros t _.
    apply (ex_derive_continuous (K:=R_AbsRing) (V:=R_NormedModule)). unfold f. auto_derive. exact I. }
  replace (RInt (fun t => exp (- (t * t))) 0 (z * ir2))
    with (RInt f (ir2 * 0 + 0) (ir2 * z + 0)).
  2:{ f_equal; ring. }
  rewrite <- (RInt_comp_lin f ir2 0 0 z) by apply Hc.
  rewrite (RInt_ext _ (fun y => scal (sqrt PI) (phi y))).
  2:{ intros y _. unfold scal; simpl. unfold mult; simpl. unfold f, phi.
      replace (- ((ir2 * y + 0) * (ir2 * y + 0))) with (- (y * y) * (ir2 * ir2)) by ring.
      rewrite ir2_sq. replace (- (y * y) * (1 / 2)) with (- (y * y) / 2) by field.
      unfold ir2. rewrite sqrt_2PI_split.
      pose proof sqrt_2_pos. pose proof sqrt_PI_pos. field. split; lra. }
  rewrite (RInt_scal (V:=R_CompleteNormedModule) phi) by apply ex_RInt_phi.
  unfold scal; simpl. unfold mult; simpl.
  pose proof sqrt_PI_pos. field. lra.
Qed.

Lemma normal_cdf_Phi z : normal_cdf z = Phi z.
Proof. unfold normal_cdf, Phi. rewrite erf_scaled. field. Qed.

Lemma erfc_scaled z : erfc (- z * ir2) = 2 * Phi z.
Proof.
  unfold erfc. rewrite erf_scaled, RInt_phi_opp. unfold Phi. field.
Qed.

(* the erfcx form of the tail branch is Phi / phi *)
Lemma cdf_pdf_ratio_phi z : cdf_pdf_ratio z * phi z = Phi z.
Proof.
  unfold cdf_pdf_ratio, erfcx. rewrite erfc_scaled.
  replace (- z * ir2 * (- z * ir2)) with (z * z * (ir2 * ir2)) by ring.
  rewrite ir2_sq. unfold phi.
  replace (rpi2 * (exp (z * z * (1 / 2)) * (2 * Phi z)) * (/ sqrt (2 * PI) * exp (- (z * z) / 2)))
    with ((2 * rpi2) * / sqrt (2 * PI) * Phi z * (exp (z * z * (1 / 2)) * exp (- (z * z) / 2))) by ring.
  rewrite rpi2_double, <- exp_plus.
  replace (z * z * (1 / 2) + - (z * z) / 2) with 0 by field. rewrite exp_0.
  pose proof sqrt_2PI_pos. field. lra.
Qed.

Lemma cdf_pdf_ratio_eq z : cdf_pdf_ratio z = Phi z / phi z.
Proof.
  rewrite <- cdf_pdf_ratio_phi. pose proof (phi_pos z). field. lra.
Qed.

(* 1 + Z R(Z) = (Z Phi Z + phi Z) / phi Z : the algebraic identity behind
   the far-tail branch *)
Lemma tail_factor z : 1 + z * cdf_pdf_ratio z = ei_kernel z / phi z.
Proof.
  rewrite cdf_pdf_ratio_eq. unfold ei_kernel. pose proof (phi_pos z). field. lra.
Qed.

(* ------------------------------------------------------------------ *)
(* the improvement kernel                                               *)
Lemma ei_kernel_derive z : is_derive ei_kernel z (Phi z).
Proof.
  unfold ei_kernel.
  evar (d : R).
  assert (Hd : is_derive (fun z0 => z0 * Phi z0 + phi z0) z d).
  { apply (is_derive_plus (fun z0 => z0 * Phi z0) phi).
    - apply (is_derive_mult (fun z0 => z0) Phi).
      + apply is_derive_id.
      + apply Phi_derive.
      + intros a b. apply Rmult_comm.
    - apply phi_derive. }
  unfold d in Hd.
  replace (Phi z) with
    (plus (plus (mult one (Phi z)) (mult z (phi z))) (- z * phi z)); [exact Hd | ].
  unfold plus, mult, one; simpl. ring.
Qed.

Lemma ei_kernel_continuous z : continuous ei_kernel z.
Proof. apply (ex_derive_continuous (K:=R_AbsRing) (V:=R_NormedModule)). eexists. apply ei_kernel_derive. Qed.

(* monotonicity helper: a function with positive derivative on [a, b] *)
Lemma incr_of_derive_pos (f df : R -> R) a b :
  a < b -> (forall x, a <= x <= b -> is_derive f x (df x)) ->
  (forall x, a <= x <= b -> 0 < df x) -> f a < f b.
Proof.
  intros Hab Hd Hp.
  destruct (MVT_gen f a b df) as [c [Hc Heq]].
  - intros x Hx. apply Hd. rewrite Rmin_left, Rmax_right in Hx; lra.
  - intros x Hx. rewrite Rmin_left, Rmax_right in Hx by lra.
    apply continuity_pt_filterlim. apply (ex_derive_continuous (K:=R_AbsRing) (V:=R_NormedModule)). eexists. apply Hd, Hx.
  - rewrite Rmin_left, Rmax_right in Hc by lra.
    assert (0 < df c * (b - a)) by (apply Rmult_lt_0_compat; [apply Hp, Hc | lra]).
    lra.
Qed.

Lemma Phi_increasing a b : a < b -> Phi a < Phi b.
Proof.
  intros Hab. apply (incr_of_derive_pos Phi phi); auto.
  - intros x _. apply Phi_derive.
  - intros x _. apply phi_pos.
Qed.

(* positivity propagates to the right of any anchor where Phi >= 0 *)
Lemma ei_kernel_pos_from a :
  0 <= Phi a -> 0 < ei_kernel a -> forall z, a <= z -> 0 < ei_kernel z.
Proof.
  intros HP HK z Hz.
  destruct (Req_dec a z) as [-> | Hne]; [exact HK | ].
  assert (Haz : a < z) by lra.
  assert (ei_kernel a < ei_kernel z); [ | lra].
  destruct (MVT_gen ei_kernel a z Phi) as [c [Hc Heq]].
  - intros x _. apply ei_kernel_derive.
  - intros x _. apply continuity_pt_filterlim, ei_kernel_continuous.
  - rewrite Rmin_left, Rmax_right in Hc by lra.
    assert (0 < Phi c).
    { destruct (Req_dec a c) as [<- | Hac].
      - (* c = a cannot give a strict inequality from Phi a >= 0 alone: use a midpoint *)
        destruct (Rle_lt_or_eq_dec _ _ HP) as [Hlt | Heq0]; [exact Hlt | ].
        exfalso.
        (* Phi a = 0: then f z - f a = 0, but Phi > 0 right of a forces growth *)
        pose (m := (a + z) / 2).
        assert (Ham : a < m) by (unfold m; lra).
        assert (Hmz : m < z) by (unfold m; lra).
        destruct (MVT_gen ei_kernel m z Phi) as [c2 [Hc2 Heq2]].
        + intros x _. apply ei_kernel_derive.
        + intros x _. apply continuity_pt_filterlim, ei_kernel_continuous.
        + rewrite Rmin_left, Rmax_right in Hc2 by lra.
          destruct (MVT_gen ei_kernel a m Phi) as [c1 [Hc1 Heq1]].
          * intros x _. apply ei_kernel_derive.
          * intros x _. apply continuity_pt_filterlim, ei_kernel_continuous.
          * rewrite Rmin_left, Rmax_right in Hc1 by lra.
            assert (0 <= Phi c1).
            { destruct (Req_dec a c1) as [<- | ]; [lra | ].
              apply Rlt_le. rewrite Heq0. apply Phi_increasing. lra. }
            assert (0 < Phi c2).
            { rewrite Heq0. apply Phi_increasing. lra. }
            assert (0 <= Phi c1 * (m - a)) by (apply Rmult_le_pos; lra).
            assert (0 < Phi c2 * (z - m)) by (apply Rmult_lt_0_compat; lra).
            rewrite <- Heq0 in Heq. lra.
      - apply Rle_lt_trans with (1 := HP). apply Phi_increasing. lra. }
    assert (0 < Phi c * (z - a)) by (apply Rmult_lt_0_compat; lra).
    lra.
Qed.

(* ------------------------------------------------------------------ *)
(* both EI branches compute the specification                           *)
Lemma ei_ordinary_spec mu sig ymax : ei_ordinary mu sig ymax = ei_spec mu sig ymax.
Proof.
  unfold ei_ordinary, ei_spec, ei_kernel. cbv zeta.
  now rewrite normal_cdf_Phi, normal_pdf_phi.
Qed.

Lemma ei_tail_spec mu sig ymax :
  0 < sig -> 0 < ei_kernel (zscore mu sig ymax) ->
  ei_tail mu sig ymax = ei_spec mu sig ymax.
Proof.
  intros Hs Hk. unfold ei_tail, ln_ei_tail, ei_spec. cbv zeta.
  set (Z := zscore mu sig ymax) in *.
  rewrite !exp_plus, exp_ln_pdf, tail_factor.
  pose proof (phi_pos Z) as Hp.
  rewrite !exp_ln; [ | lra | apply Rdiv_lt_0_compat; lra].
  field. lra.
Qed.

Lemma ei_call_spec mu sig ymax :
  0 < sig -> 0 < ei_kernel (zscore mu sig ymax) ->
  ei_call mu sig ymax = ei_spec mu sig ymax.
Proof.
  intros Hs Hk. unfold ei_call. destruct (Rlt_dec _ _).
  - now apply ei_tail_spec.
  - apply ei_ordinary_spec.
Qed.

Lemma ei_spec_pos mu sig ymax :
  0 < sig -> 0 < ei_kernel (zscore mu sig ymax) -> 0 < ei_spec mu sig ymax.
Proof. intros Hs Hk. unfold ei_spec. now apply Rmult_lt_0_compat. Qed.

Lemma ei_opt_func_spec mu sig ymax :
  0 < sig -> 0 < ei_kernel (zscore mu sig ymax) ->
  ei_opt_func mu sig ymax = - ln (ei_spec mu sig ymax).
Proof.
  intros Hs Hk. unfold ei_opt_func. destruct (Rlt_dec _ _).
  - f_equal. rewrite <- (ei_tail_spec mu sig ymax Hs Hk). unfold ei_tail. now rewrite ln_exp.
  - now rewrite ei_ordinary_spec.
Qed.

Lemma ei_grad_ordinary_spec mu sig ymax dmu dvar :
  ei_grad_ordinary mu sig ymax dmu dvar = ln_ei_grad_spec mu sig ymax dmu dvar.
Proof.
  unfold ei_grad_ordinary, ln_ei_grad_spec, ei_spec, ei_kernel. cbv zeta.
  now rewrite normal_cdf_Phi, normal_pdf_phi.
Qed.

Lemma ei_grad_tail_spec mu sig ymax dmu dvar :
  0 < sig -> 0 < ei_kernel (zscore mu sig ymax) ->
  ei_grad_tail mu sig ymax dmu dvar = ln_ei_grad_spec mu sig ymax dmu dvar.
Proof.
  intros Hs Hk. unfold ei_grad_tail, ln_ei_grad_spec, ei_spec. cbv zeta.
  set (Z := zscore mu sig ymax) in *.
  rewrite tail_factor, cdf_pdf_ratio_eq.
  pose proof (phi_pos Z) as Hp. field. repeat split; lra.
Qed.

Lemma ei_opt_grad_spec mu sig ymax dmu dvar :
  0 < sig -> 0 < ei_kernel (zscore mu sig ymax) ->
  ei_opt_grad mu sig ymax dmu dvar = - ln_ei_grad_spec mu sig ymax dmu dvar.
Proof.
  intros Hs Hk. unfold ei_opt_grad. destruct (Rlt_dec _ _).
  - now rewrite ei_grad_tail_spec.
  - now rewrite ei_grad_ordinary_spec.
Qed.

(* ------------------------------------------------------------------ *)
(* spatial gradients.  mu, s2 : the predictive mean and VARIANCE as functions
   of one spatial coordinate (all the others fixed); dmu, ds2 their
   derivatives at the query point x (what gp.spatial_derivatives returns). *)
Section Gradients.
Variables (mu s2 : R -> R) (x dmu ds2 : R).
Hypothesis Hmu : is_derive mu x dmu.
Hypothesis Hs2 : is_derive s2 x ds2.
Hypothesis Hpos : 0 < s2 x.

Let sig := sqrt (s2 x).

Lemma sig_pos : 0 < sig.
Proof. apply sqrt_lt_R0, Hpos. Qed.

Lemma s2_locally_pos : locally x (fun t => 0 < s2 t).
Proof.
  assert (Hc : continuous s2 x).
  { apply (ex_derive_continuous (K:=R_AbsRing) (V:=R_NormedModule)). eexists. apply Hs2. }
  apply (Hc (fun y => 0 < y)).
  exists (mkposreal _ Hpos). intros y Hy. simpl in Hy.
  unfold ball in Hy; simpl in Hy. unfold AbsRing_ball, abs, minus, plus, opp in Hy; simpl in Hy.
  apply Rabs_def2 in Hy. lra.
Qed.

Lemma ln_ei_spec_gradient ymax :
  0 < ei_kernel (zscore (mu x) sig ymax) ->
  is_derive (fun t => ln (ei_spec (mu t) (sqrt (s2 t)) ymax)) x
            (ln_ei_grad_spec (mu x) sig ymax dmu ds2).
Proof.
  intros Hk. pose proof sig_pos as Hsig.
  unfold ei_spec, zscore in *. fold sig in Hsig.
  auto_derive.
  - repeat split; try (eexists; eassumption); try assumption.
    + eexists. apply ei_kernel_derive.
    + fold sig. lra.
    + fold sig. apply Rmult_lt_0_compat; [lra | ].
      replace ((mu x + - ymax) * / sig) with ((mu x - ymax) / sig) by (unfold Rdiv, Rminus; ring).
      exact Hk.
  - assert (E1 : Derive (fun x0 => mu x0) x = dmu) by (apply is_derive_unique; exact Hmu).
    assert (E2 : Derive (fun x0 => s2 x0) x = ds2) by (apply is_derive_unique; exact Hs2).
    assert (E3 : forall z, Derive (fun x0 => ei_kernel x0) z = Phi z)
      by (intros z; apply is_derive_unique, ei_kernel_derive).
    rewrite E1, E2, E3.
    fold sig. unfold ln_ei_grad_spec, ei_spec, zscore, ei_kernel.
    replace ((mu x + - ymax) * / sig) with ((mu x - ymax) / sig) by (unfold Rdiv, Rminus; ring).
    set (Z := (mu x - ymax) / sig) in *.
    assert (Hk' : Z * Phi Z + phi Z <> 0) by (unfold ei_kernel in Hk; lra).
    assert (HZ : mu x - ymax = Z * sig) by (unfold Z; field; lra).
    replace (mu x + - ymax) with (Z * sig) by lra.
    field. split; lra.
Qed.

Lemma ucb_gradient_lemma kappa :
  is_derive (fun t => ucb_opt_func kappa (mu t) (sqrt (s2 t))) x
            (ucb_opt_grad kappa sig dmu ds2).
Proof.
  pose proof sig_pos as Hsig. unfold ucb_opt_func, ucb_opt_grad.
  auto_derive.
  - repeat split; try (eexists; eassumption); assumption.
  - assert (E1 : Derive (fun x0 => mu x0) x = dmu) by (apply is_derive_unique; exact Hmu).
    assert (E2 : Derive (fun x0 => s2 x0) x = ds2) by (apply is_derive_unique; exact Hs2).
    rewrite E1, E2. fold sig. field. lra.
Qed.

Lemma ucb_call_gradient_lemma kappa :
  is_derive (fun t => ucb_call kappa (mu t) (sqrt (s2 t))) x
            (dmu + 1 / 2 * kappa * ds2 / sig).
Proof.
  pose proof sig_pos as Hsig. unfold ucb_call.
  auto_derive.
  - repeat split; try (eexists; eassumption); assumption.
  - assert (E1 : Derive (fun x0 => mu x0) x = dmu) by (apply is_derive_unique; exact Hmu).
    assert (E2 : Derive (fun x0 => s2 x0) x = ds2) by (apply is_derive_unique; exact Hs2).
    rewrite E1, E2. fold sig. field. lra.
Qed.

Lemma maxvar_gradient_lemma :
  is_derive (fun t => mv_opt_func (sqrt (s2 t))) x (mv_opt_grad ds2).
Proof.
  pose proof sig_pos as Hsig. unfold mv_opt_func, mv_opt_grad.
  auto_derive.
  - repeat split; try (eexists; eassumption); assumption.
  - assert (E2 : Derive (fun x0 => s2 x0) x = ds2) by (apply is_derive_unique; exact Hs2).
    rewrite E2. fold sig. field. lra.
Qed.

(* max-variance really is the predictive variance *)
Lemma mv_call_is_variance : mv_call sig = s2 x.
Proof. unfold mv_call, sig. simpl. rewrite Rmult_1_r. apply sqrt_sqrt. lra. Qed.

End Gradients.

(* used by the generated interval goals: replace the z-score of exact rational
   inputs by its (checked) rational value, so that it can serve as an
   integration bound of the verified integrator *)
Lemma zscore_literal m s y z : s <> 0 -> m - y = z * s -> zscore m s y = z.
Proof. intros Hs H. unfold zscore. rewrite H. field. exact Hs. Qed.
