(* Expected improvement as an integral (property C18, clause "Expected improvement
   equals E[max(f - y_max, 0)] under the regressor's predictive normal").

   For every mu, ymax and sigma > 0, with z = (mu - ymax) / sigma,

        int_{-oo}^{+oo} max(f - ymax, 0) * gauss_pdf mu sigma f  df
          =  sigma * (z * Phi z + phi z)                       (= ei_spec = ei_call)

   as an improper Riemann integral (Coquelicot is_RInt_gen, both ends at infinity)
   and as the limit of the proper integrals over [ymax, b].

   Route: the integrand vanishes below ymax; on [ymax, b] it is (f - ymax) * pdf f,
   whose antiderivative is
        ei_F f = - sigma^2 * gauss_pdf mu sigma f + (mu - ymax) * Phi ((f - mu) / sigma);
   so  ei_G b = ei_F (max b ymax) - ei_F ymax  is an antiderivative of the whole
   integrand in the sense  int_a^b = ei_G b - ei_G a  for ALL a, b;  ei_G is 0 near
   -oo, and tends to (mu - ymax) - ei_F ymax at +oo because gauss_pdf -> 0 and
   Phi -> 1 (GaussianNormalisation.v); ei_F ymax is evaluated with phi (-z) = phi z
   and Phi (-z) = 1 - Phi z.

   phi, Phi, ei_kernel, ei_spec, ei_call, zscore are those of RealModel/Acquisition.v;
   gauss_pdf is the one of RealModel/Likelihoods.v; gauss_cdf mu s x = Phi ((x - mu) / s)
   is the one of Proofs/GaussianNormalisation.v.  Nothing is redefined here. *)
From Coq Require Import Reals Lra Psatz.
From Coquelicot Require Import Coquelicot.
From IT Require Import RealModel.Acquisition RealModel.Likelihoods
                       Proofs.AcquisitionProofs Proofs.GaussianProofs
                       Proofs.GaussianNormalisation.
Open Scope R_scope.

(* ------------------------------------------------------------------ *)
(* a function with a global "antiderivative in the integral sense" that has
   limits at both infinities is improperly integrable over the whole line   *)
Lemma is_RInt_gen_of_primitive (g G : R -> R) (la lb : R) :
  (forall a b, is_RInt g a b (G b - G a)) ->
  is_lim G m_infty la -> is_lim G p_infty lb ->
  is_RInt_gen g (Rbar_locally m_infty) (Rbar_locally p_infty) (lb - la).
Proof.
  intros HI Ha Hb.
  apply (filterlimi_lim_ext (fun ab : R * R => G (snd ab) - G (fst ab))).
  - intros [a b]. simpl. apply HI.
  - unfold Rminus.
    eapply filterlim_comp_2.
    + eapply filterlim_comp; [apply filterlim_snd | exact Hb].
    + eapply filterlim_comp; [ | apply (filterlim_opp (V:=R_NormedModule) la)].
      eapply filterlim_comp; [apply filterlim_fst | exact Ha].
    + exact (filterlim_plus lb (- la)).
Qed.

(* ------------------------------------------------------------------ *)
(* the densities vanish at +infinity                                    *)
Lemma phi_lim_p : is_lim phi p_infty 0.
Proof.
  pose proof sqrt_2PI_pos as H2.
  apply (is_lim_ext (fun z => / sqrt (2 * PI) * exp (- ((ir2 * z + 0) * (ir2 * z + 0))))).
  { intros z. unfold phi. do 2 f_equal.
    replace ((ir2 * z + 0) * (ir2 * z + 0)) with (ir2 * ir2 * (z * z)) by ring.
    rewrite ir2_sq. field. }
  assert (H : is_lim (fun z => / sqrt (2 * PI) * exp (- ((ir2 * z + 0) * (ir2 * z + 0))))
                     p_infty (/ sqrt (2 * PI) * 0)).
  { apply (is_lim_scal_l (fun z => exp (- ((ir2 * z + 0) * (ir2 * z + 0))))
                         (/ sqrt (2 * PI)) p_infty 0).
    apply (is_lim_comp_lin_pp (fun x => exp (- (x * x)))); [exact ir2_pos | exact exp_msq_lim]. }
  replace (/ sqrt (2 * PI) * 0) with 0 in H by ring. exact H.
Qed.

Lemma gauss_pdf_lim_p mu s : 0 < s -> is_lim (gauss_pdf mu s) p_infty 0.
Proof.
  intros Hs.
  apply (is_lim_ext (fun x => / s * phi (/ s * x + - mu / s))).
  { intros x. rewrite gauss_pdf_phi by exact Hs. do 2 f_equal. field. lra. }
  assert (H : is_lim (fun x => / s * phi (/ s * x + - mu / s)) p_infty (/ s * 0)).
  { apply (is_lim_scal_l (fun x => phi (/ s * x + - mu / s)) (/ s) p_infty 0).
    apply (is_lim_comp_lin_pp phi); [apply Rinv_0_lt_compat, Hs | exact phi_lim_p]. }
  replace (/ s * 0) with 0 in H by ring. exact H.
Qed.

(* ------------------------------------------------------------------ *)
Section ExpectedImprovement.

Variables mu sigma ymax : R.
Hypothesis Hs : 0 < sigma.

(* the integrand of E[max(f - ymax, 0)] and its two pieces *)
Definition ei_integrand (f : R) : R := Rmax (f - ymax) 0 * gauss_pdf mu sigma f.
Definition ei_upper (f : R) : R := (f - ymax) * gauss_pdf mu sigma f.

(* antiderivative of the upper piece *)
Definition ei_F (f : R) : R :=
  - sigma ^ 2 * gauss_pdf mu sigma f + (mu - ymax) * Phi ((f - mu) / sigma).

(* global primitive of the integrand *)
Definition ei_G (b : R) : R := ei_F (Rmax b ymax) - ei_F ymax.

Lemma gauss_pdf_derive x :
  is_derive (gauss_pdf mu sigma) x (- ((x - mu) / sigma ^ 2) * gauss_pdf mu sigma x).
Proof.
  unfold gauss_pdf. pose proof sqrt_2PI_pos as H2.
  auto_derive.
  - repeat split; try lra; try nra.
  - replace (- ((x + - mu) * ((x + - mu) * 1)) * / (2 * (sigma * (sigma * 1))))
      with (- (x - mu) ^ 2 / (2 * sigma ^ 2)) by (field; lra).
    field. split; lra.
Qed.

Lemma ei_F_derive x : is_derive ei_F x (ei_upper x).
Proof.
  unfold ei_upper.
  apply (is_derive_ext (fun x0 => plus (- sigma ^ 2 * gauss_pdf mu sigma x0)
                                       ((mu - ymax) * gauss_cdf mu sigma x0))).
  { intros t. reflexivity. }
  replace ((x - ymax) * gauss_pdf mu sigma x)
    with (plus (- sigma ^ 2 * (- ((x - mu) / sigma ^ 2) * gauss_pdf mu sigma x))
               ((mu - ymax) * gauss_pdf mu sigma x)).
  2:{ unfold plus; simpl. field. lra. }
  apply (is_derive_plus (fun x0 => - sigma ^ 2 * gauss_pdf mu sigma x0)
                        (fun x0 => (mu - ymax) * gauss_cdf mu sigma x0)).
  - apply (is_derive_scal (gauss_pdf mu sigma) x (- sigma ^ 2)). apply gauss_pdf_derive.
  - apply (is_derive_scal (gauss_cdf mu sigma) x (mu - ymax)).
    apply gauss_cdf_derive, Hs.
Qed.

Lemma ei_upper_continuous x : continuous ei_upper x.
Proof.
  apply (ex_derive_continuous (K:=R_AbsRing) (V:=R_NormedModule)).
  unfold ei_upper, gauss_pdf. pose proof sqrt_2PI_pos as H2. pose proof two_PI_pos as H3.
  auto_derive. repeat split; try lra; try nra.
Qed.

Lemma ei_upper_is_RInt a b : is_RInt ei_upper a b (ei_F b - ei_F a).
Proof.
  apply (is_RInt_derive (V:=R_CompleteNormedModule) ei_F ei_upper).
  - intros x _. apply ei_F_derive.
  - intros x _. apply ei_upper_continuous.
Qed.

(* from ymax to any b (on either side of ymax) *)
Lemma ei_integrand_from_ymax b : is_RInt ei_integrand ymax b (ei_G b).
Proof.
  unfold ei_G. destruct (Rle_dec ymax b) as [Hb | Hb].
  - rewrite Rmax_left by exact Hb.
    apply (is_RInt_ext ei_upper); [ | apply ei_upper_is_RInt].
    intros x [Hx _]. rewrite Rmin_left in Hx by exact Hb.
    unfold ei_upper, ei_integrand. rewrite Rmax_left by lra. reflexivity.
  - assert (Hb' : b < ymax) by lra.
    rewrite Rmax_right by lra.
    replace (ei_F ymax - ei_F ymax) with (scal (b - ymax) 0).
    2:{ unfold scal; simpl. unfold mult; simpl. ring. }
    apply (is_RInt_ext (fun _ : R => 0)); [ | apply (is_RInt_const (V:=R_NormedModule))].
    intros x [_ Hx]. rewrite Rmax_left in Hx by lra.
    unfold ei_integrand. rewrite Rmax_right by lra. symmetry. apply Rmult_0_l.
Qed.

(* the integrand has ei_G as a primitive on every interval *)
Lemma ei_integrand_is_RInt a b : is_RInt ei_integrand a b (ei_G b - ei_G a).
Proof.
  replace (ei_G b - ei_G a) with (plus (opp (ei_G a)) (ei_G b)).
  2:{ unfold plus, opp; simpl. ring. }
  apply (is_RInt_Chasles (V:=R_NormedModule) ei_integrand a ymax b).
  - apply (is_RInt_swap (V:=R_NormedModule)). apply ei_integrand_from_ymax.
  - apply ei_integrand_from_ymax.
Qed.

(* proper integrals, in closed form *)
Lemma ei_integrand_proper a b : a <= ymax -> ymax <= b ->
  is_RInt ei_integrand a b (ei_F b - ei_F ymax).
Proof.
  intros Ha Hb. pose proof (ei_integrand_is_RInt a b) as H.
  unfold ei_G in H. rewrite (Rmax_left b ymax), (Rmax_right a ymax) in H by lra.
  replace (ei_F b - ei_F ymax) with (ei_F b - ei_F ymax - (ei_F ymax - ei_F ymax)) by ring.
  exact H.
Qed.

Lemma ei_integrand_below a b : a <= ymax -> b <= ymax -> is_RInt ei_integrand a b 0.
Proof.
  intros Ha Hb. pose proof (ei_integrand_is_RInt a b) as H.
  unfold ei_G in H. rewrite (Rmax_right b ymax), (Rmax_right a ymax) in H by lra.
  replace 0 with (ei_F ymax - ei_F ymax - (ei_F ymax - ei_F ymax)) by ring.
  exact H.
Qed.

(* ---- limits of the primitive ---- *)
Lemma ei_F_lim_p : is_lim ei_F p_infty (mu - ymax).
Proof.
  assert (H : is_lim (fun f => - sigma ^ 2 * gauss_pdf mu sigma f
                               + (mu - ymax) * gauss_cdf mu sigma f) p_infty
                     (- sigma ^ 2 * 0 + (mu - ymax) * 1)).
  { apply is_lim_plus'.
    - exact (is_lim_scal_l (gauss_pdf mu sigma) (- sigma ^ 2) p_infty 0
                           (gauss_pdf_lim_p mu sigma Hs)).
    - exact (is_lim_scal_l (gauss_cdf mu sigma) (mu - ymax) p_infty 1
                           (gauss_cdf_lim_p mu sigma Hs)). }
  replace (- sigma ^ 2 * 0 + (mu - ymax) * 1) with (mu - ymax) in H by ring.
  exact H.
Qed.

(* F(ymax), with phi (-z) = phi z and Phi (-z) = 1 - Phi z *)
Lemma ei_F_at_ymax :
  ei_F ymax = (mu - ymax) - sigma * ei_kernel (zscore mu sigma ymax).
Proof.
  unfold ei_F, ei_kernel, zscore. rewrite gauss_pdf_phi by exact Hs.
  replace ((ymax - mu) / sigma) with (- ((mu - ymax) / sigma)) by (field; lra).
  rewrite phi_even, Phi_opp. field. lra.
Qed.

Lemma ei_G_lim_p : is_lim ei_G p_infty (ei_spec mu sigma ymax).
Proof.
  apply (is_lim_ext_loc (fun b => ei_F b - ei_F ymax)).
  { exists ymax. intros b Hb. unfold ei_G. rewrite Rmax_left by lra. reflexivity. }
  assert (H : is_lim (fun b => ei_F b - ei_F ymax) p_infty ((mu - ymax) - ei_F ymax)).
  { apply is_lim_minus'; [exact ei_F_lim_p | apply is_lim_const]. }
  replace ((mu - ymax) - ei_F ymax) with (ei_spec mu sigma ymax) in H.
  2:{ rewrite ei_F_at_ymax. unfold ei_spec. ring. }
  exact H.
Qed.

Lemma ei_G_lim_m : is_lim ei_G m_infty 0.
Proof.
  apply (is_lim_ext_loc (fun _ => 0)).
  { exists ymax. intros b Hb. unfold ei_G. rewrite Rmax_right by lra. ring. }
  apply is_lim_const.
Qed.

(* ---- the integral identity ---- *)
Theorem ei_integral_spec :
  is_RInt_gen ei_integrand (Rbar_locally m_infty) (Rbar_locally p_infty)
              (ei_spec mu sigma ymax).
Proof.
  replace (ei_spec mu sigma ymax) with (ei_spec mu sigma ymax - 0) by ring.
  apply (is_RInt_gen_of_primitive ei_integrand ei_G).
  - exact ei_integrand_is_RInt.
  - exact ei_G_lim_m.
  - exact ei_G_lim_p.
Qed.

(* the value is determined: RInt_gen (the chosen value of the improper integral) *)
Theorem ei_integral_value :
  RInt_gen ei_integrand (Rbar_locally m_infty) (Rbar_locally p_infty)
  = ei_spec mu sigma ymax.
Proof. apply is_RInt_gen_unique. exact ei_integral_spec. Qed.

(* limit of proper integrals over [ymax, b] of (f - ymax) * pdf f *)
Theorem ei_integral_limit_upper :
  is_lim (fun b => RInt ei_upper ymax b) p_infty (ei_spec mu sigma ymax).
Proof.
  apply (is_lim_ext_loc ei_G); [ | exact ei_G_lim_p].
  exists ymax. intros b Hb. symmetry. apply is_RInt_unique.
  unfold ei_G. rewrite Rmax_left by lra. apply ei_upper_is_RInt.
Qed.

(* limit of proper integrals of the full integrand over windows [a, b], a <= ymax
   fixed or not: over [c - b, c + b] around any centre c *)
Theorem ei_integral_limit_window c :
  is_lim (fun b => RInt ei_integrand (c - b) (c + b)) p_infty (ei_spec mu sigma ymax).
Proof.
  apply (is_lim_ext_loc (fun b => ei_G (1 * b + c))).
  { exists (Rabs (c - ymax)). intros b Hb. symmetry. apply is_RInt_unique.
    assert (H1 : c - b <= ymax) by (unfold Rabs in Hb; destruct (Rcase_abs _) in Hb; lra).
    assert (H2 : ymax <= c + b) by (unfold Rabs in Hb; destruct (Rcase_abs _) in Hb; lra).
    unfold ei_G. replace (1 * b + c) with (c + b) by ring.
    rewrite Rmax_left by lra. apply ei_integrand_proper; assumption. }
  apply (is_lim_comp_lin_pp ei_G); [lra | exact ei_G_lim_p].
Qed.

End ExpectedImprovement.

(* ------------------------------------------------------------------ *)
(* closed statements, in terms of what the code evaluates               *)
Theorem ei_is_expected_improvement mu sigma ymax : 0 < sigma ->
  is_RInt_gen (fun f => Rmax (f - ymax) 0 * gauss_pdf mu sigma f)
              (Rbar_locally m_infty) (Rbar_locally p_infty)
              (sigma * ((mu - ymax) / sigma * Phi ((mu - ymax) / sigma)
                        + phi ((mu - ymax) / sigma))).
Proof. intros Hs. exact (ei_integral_spec mu sigma ymax Hs). Qed.

Theorem ei_call_is_expected_improvement mu sigma ymax : 0 < sigma ->
  is_RInt_gen (fun f => Rmax (f - ymax) 0 * gauss_pdf mu sigma f)
              (Rbar_locally m_infty) (Rbar_locally p_infty)
              (ei_call mu sigma ymax) /\
  RInt_gen (fun f => Rmax (f - ymax) 0 * gauss_pdf mu sigma f)
           (Rbar_locally m_infty) (Rbar_locally p_infty) = ei_call mu sigma ymax.
Proof.
  intros Hs. destruct (ei_branches_agree mu sigma ymax Hs) as [_ [Hc _]].
  rewrite Hc. split.
  - exact (ei_integral_spec mu sigma ymax Hs).
  - exact (ei_integral_value mu sigma ymax Hs).
Qed.

Theorem ei_limit_of_proper_integrals mu sigma ymax : 0 < sigma ->
  is_lim (fun b => RInt (fun f => (f - ymax) * gauss_pdf mu sigma f) ymax b) p_infty
         (ei_call mu sigma ymax) /\
  (forall c, is_lim (fun b => RInt (fun f => Rmax (f - ymax) 0 * gauss_pdf mu sigma f)
                                   (c - b) (c + b)) p_infty (ei_call mu sigma ymax)).
Proof.
  intros Hs. destruct (ei_branches_agree mu sigma ymax Hs) as [_ [Hc _]].
  rewrite Hc. split.
  - exact (ei_integral_limit_upper mu sigma ymax Hs).
  - intros c. exact (ei_integral_limit_window mu sigma ymax Hs c).
Qed.

(* proper integrals in closed form: the antiderivative exhibited *)
Theorem ei_proper_integrals mu sigma ymax : 0 < sigma ->
  let F := fun f => - sigma ^ 2 * gauss_pdf mu sigma f
                    + (mu - ymax) * Phi ((f - mu) / sigma) in
  (forall x, is_derive F x ((x - ymax) * gauss_pdf mu sigma x)) /\
  (forall a b, a <= ymax -> ymax <= b ->
     is_RInt (fun f => Rmax (f - ymax) 0 * gauss_pdf mu sigma f) a b (F b - F ymax)) /\
  (forall a b, a <= ymax -> b <= ymax ->
     is_RInt (fun f => Rmax (f - ymax) 0 * gauss_pdf mu sigma f) a b 0) /\
  F ymax = (mu - ymax) - ei_call mu sigma ymax /\
  is_lim F p_infty (mu - ymax).
Proof.
  intros Hs. cbv zeta.
  destruct (ei_branches_agree mu sigma ymax Hs) as [_ [Hc _]].
  split; [ | split; [ | split; [ | split]]].
  - intros x. exact (ei_F_derive mu sigma ymax Hs x).
  - intros a b Ha Hb. exact (ei_integrand_proper mu sigma ymax Hs a b Ha Hb).
  - intros a b Ha Hb. exact (ei_integrand_below mu sigma ymax Hs a b Ha Hb).
  - rewrite Hc. exact (ei_F_at_ymax mu sigma ymax Hs).
  - exact (ei_F_lim_p mu sigma ymax Hs).
Qed.
