(* Lemmas about the index routing of JointPrior and about guess selection (property C06). *)
From Coq Require Import List QArith Qabs ZArith Bool Arith Lia Sorting.Permutation Sorting.Sorted.
From IT Require Import Model.JointPrior.
Import ListNotations.
Open Scope nat_scope.

(* ------------------------------------------------------------------ *)
(* upd / writes                                                        *)
(* ------------------------------------------------------------------ *)
Lemma upd_length {A} (l : list A) i x : length (upd l i x) = length l.
Proof. revert i. induction l as [|h t IH]; intros [|i]; simpl; auto. Qed.

Lemma nth_upd_eq {A} (l : list A) i x d : i < length l -> nth i (upd l i x) d = x.
Proof.
  revert i. induction l as [|h t IH]; intros [|i] H; simpl in *; try lia; auto.
  apply IH. lia.
Qed.

Lemma nth_upd_neq {A} (l : list A) i j x d : i <> j -> nth j (upd l i x) d = nth j l d.
Proof.
  revert i j. induction l as [|h t IH]; intros [|i] [|j] H; simpl; auto; try lia.
Qed.

Definition apply_writes {A} (out : list A) (ws : list (nat * A)) : list A :=
  fold_left (fun g w => upd g (fst w) (snd w)) ws out.

Lemma apply_writes_app {A} (out : list A) w1 w2 :
  apply_writes out (w1 ++ w2) = apply_writes (apply_writes out w1) w2.
Proof. unfold apply_writes. apply fold_left_app. Qed.

Lemma apply_writes_length {A} (ws : list (nat * A)) out : length (apply_writes out ws) = length out.
Proof.
  revert out. induction ws as [|w ws IH]; intros out; [reflexivity|].
  unfold apply_writes in *. simpl. rewrite IH. apply upd_length.
Qed.

Lemma scatter_writes {A} (vars : list nat) (vals : list A) out :
  scatter out vars vals = apply_writes out (combine vars vals).
Proof.
  revert vals out. induction vars as [|i vs IH]; intros [|x xs] out; simpl; auto.
Qed.

Lemma apply_writes_untouched {A} (ws : list (nat * A)) out i d :
  ~ In i (map fst ws) -> nth i (apply_writes out ws) d = nth i out d.
Proof.
  revert out. induction ws as [|[j x] ws IH]; intros out H; simpl in *; auto.
  unfold apply_writes in *. simpl. rewrite IH by tauto.
  apply nth_upd_neq. intros E. apply H. left. exact E.
Qed.

Lemma nth_apply_writes {A} (ws : list (nat * A)) out i x d :
  NoDup (map fst ws) -> In (i, x) ws -> i < length out -> nth i (apply_writes out ws) d = x.
Proof.
  revert out. induction ws as [|[j y] ws IH]; intros out Hnd Hin Hlen; simpl in *; [tauto|].
  inversion Hnd as [|? ? Hnotin Hnd']; subst.
  unfold apply_writes in *. simpl.
  destruct Hin as [E|Hin].
  - inversion E; subst.
    change (nth i (apply_writes (upd out i x) ws) d = x).
    rewrite apply_writes_untouched by exact Hnotin. apply nth_upd_eq. exact Hlen.
  - apply IH; auto. rewrite upd_length. exact Hlen.
Qed.

(* ------------------------------------------------------------------ *)
(* zips and concatenation                                              *)
(* ------------------------------------------------------------------ *)
Lemma zip2_length {A B C} (g : A -> B -> C) xs ys :
  length xs = length ys -> length (zip2 g xs ys) = length xs.
Proof. revert ys. induction xs as [|x xs IH]; intros [|y ys] H; simpl in *; try lia. all: try (rewrite IH; lia). Qed.

Lemma zip2_app {A B C} (g : A -> B -> C) x1 x2 y1 y2 :
  length x1 = length y1 -> zip2 g (x1 ++ x2) (y1 ++ y2) = zip2 g x1 y1 ++ zip2 g x2 y2.
Proof.
  revert y1. induction x1 as [|a x1 IH]; intros [|b y1] H; simpl in *; try lia; auto.
  all: try (rewrite IH by lia; reflexivity).
Qed.

Lemma combine_app {A B} (x1 x2 : list A) (y1 y2 : list B) :
  length x1 = length y1 -> combine (x1 ++ x2) (y1 ++ y2) = combine x1 y1 ++ combine x2 y2.
Proof.
  revert y1. induction x1 as [|a x1 IH]; intros [|b y1] H; simpl in *; try lia; auto.
  all: try (rewrite IH by lia; reflexivity).
Qed.

Lemma zip2_split {A B C} (g : A -> B -> C) (l1 l2 : list A) (s : list B) :
  zip2 g (l1 ++ l2) s = zip2 g l1 (firstn (length l1) s) ++ zip2 g l2 (skipn (length l1) s).
Proof.
  revert s. induction l1 as [|a l1 IH]; intros s; simpl; auto.
  destruct s as [|b s]; simpl.
  - destruct l2; reflexivity.
  - rewrite IH. reflexivity.
Qed.

(* ------------------------------------------------------------------ *)
(* well-formed components, assignments, merging                        *)
(* ------------------------------------------------------------------ *)
Lemma assigns_length c : wf_comp c -> length (assigns c) = length (cvars c).
Proof.
  intros [H1 H2]. unfold assigns. rewrite combine_length, zip2_length by lia. lia.
Qed.

Lemma kind_eqb_eq a b : kind_eqb a b = true -> a = b.
Proof. destruct a, b; simpl; congruence. Qed.

Lemma of_kind_kind k comps c : In c (of_kind k comps) -> ckind c = k.
Proof. unfold of_kind. intros H. apply filter_In in H. apply kind_eqb_eq. tauto. Qed.

Lemma of_kind_wf k comps : Forall wf_comp comps -> Forall wf_comp (of_kind k comps).
Proof.
  intros H. apply Forall_forall. intros c Hc. unfold of_kind in Hc. apply filter_In in Hc.
  rewrite Forall_forall in H. apply H. tauto.
Qed.

Lemma concat_lengths_eq {A B} (f : comp -> list A) (g : comp -> list B) L :
  Forall (fun c => length (f c) = length (g c)) L ->
  length (concat (map f L)) = length (concat (map g L)).
Proof.
  induction 1 as [|c L Hc _ IH]; simpl; auto. rewrite !app_length, Hc, IH. reflexivity.
Qed.

Lemma combine_comps_wf k L : Forall wf_comp L -> wf_comp (combine_comps k L).
Proof.
  intros H. unfold wf_comp, combine_comps. simpl. split; apply concat_lengths_eq;
    eapply Forall_impl; try exact H; intros c [H1 H2]; auto.
Qed.

Lemma assigns_combine k L :
  Forall wf_comp L -> (forall c, In c L -> ckind c = k) ->
  assigns (combine_comps k L) = all_assigns L.
Proof.
  intros Hwf Hk. unfold all_assigns.
  induction L as [|c L IH]; [reflexivity|].
  inversion Hwf as [|? ? [H1 H2] Hwf']; subst.
  unfold assigns, combine_comps in *. cbn [ckind cpar1 cpar2 cvars map concat] in *.
  rewrite zip2_app by lia. rewrite combine_app by (rewrite zip2_length; lia).
  rewrite IH; auto.
  - rewrite (Hk c) by (left; reflexivity). reflexivity.
  - intros c' Hc'. apply Hk. right. exact Hc'.
Qed.

Lemma merge_kind_assigns k comps : Forall wf_comp comps ->
  all_assigns (merge_kind k comps) = all_assigns (of_kind k comps).
Proof.
  intros Hwf. unfold merge_kind.
  pose proof (of_kind_wf k comps Hwf) as Hw. pose proof (of_kind_kind k comps) as Hk.
  destruct (of_kind k comps) as [|c [|c' L]] eqn:E; try reflexivity.
  unfold all_assigns at 1. cbn [map concat]. rewrite app_nil_r.
  apply assigns_combine; auto.
Qed.

Lemma merge_kind_wf k comps : Forall wf_comp comps -> Forall wf_comp (merge_kind k comps).
Proof.
  intros Hwf. unfold merge_kind. pose proof (of_kind_wf k comps Hwf) as Hw.
  destruct (of_kind k comps) as [|c [|c' L]] eqn:E; auto.
  constructor; [|constructor]. apply combine_comps_wf. exact Hw.
Qed.

Lemma merged_wf comps : Forall wf_comp comps -> Forall wf_comp (merged comps).
Proof.
  intros H. unfold merged. rewrite !Forall_app. repeat split; apply merge_kind_wf; exact H.
Qed.

Lemma all_assigns_app a b : all_assigns (a ++ b) = all_assigns a ++ all_assigns b.
Proof. unfold all_assigns. rewrite map_app, concat_app. reflexivity. Qed.

Lemma merged_assigns_eq comps : Forall wf_comp comps ->
  all_assigns (merged comps) =
  all_assigns (of_kind KGauss comps) ++ all_assigns (of_kind KExp comps) ++ all_assigns (of_kind KUnif comps).
Proof.
  intros H. unfold merged. rewrite !all_assigns_app, !merge_kind_assigns by exact H. reflexivity.
Qed.

Lemma by_kind_perm comps :
  Permutation (all_assigns comps)
    (all_assigns (of_kind KGauss comps) ++ all_assigns (of_kind KExp comps) ++ all_assigns (of_kind KUnif comps)).
Proof.
  induction comps as [|c comps IH]; [constructor|].
  unfold of_kind in *. cbn [filter].
  change (all_assigns (c :: comps)) with (assigns c ++ all_assigns comps).
  destruct (ckind c); cbn [kind_eqb].
  - change (all_assigns (c :: ?l)) with (assigns c ++ all_assigns l).
    rewrite <- app_assoc. apply Permutation_app_head. exact IH.
  - change (all_assigns (c :: ?l)) with (assigns c ++ all_assigns l).
    rewrite <- app_assoc.
    eapply Permutation_trans; [apply Permutation_app_head; exact IH|].
    apply Permutation_app_swap_app.
  - change (all_assigns (c :: ?l)) with (assigns c ++ all_assigns l).
    eapply Permutation_trans; [apply Permutation_app_head; exact IH|].
    set (G := all_assigns (filter (fun c0 => kind_eqb (ckind c0) KGauss) comps)).
    set (E := all_assigns (filter (fun c0 => kind_eqb (ckind c0) KExp) comps)).
    set (U := all_assigns (filter (fun c0 => kind_eqb (ckind c0) KUnif) comps)).
    rewrite (app_assoc G E U), (app_assoc G E (assigns c ++ U)).
    apply Permutation_app_swap_app.
Qed.

Lemma merged_assigns_perm comps : Forall wf_comp comps ->
  Permutation (all_assigns (merged comps)) (all_assigns comps).
Proof.
  intros H. rewrite merged_assigns_eq by exact H. apply Permutation_sym. apply by_kind_perm.
Qed.

(* ------------------------------------------------------------------ *)
(* gradient                                                            *)
(* ------------------------------------------------------------------ *)
Definition grad_write (theta : list Q) (a : nat * (kind * Q * Q)) : nat * Q :=
  let '(i, (k, p1, p2)) := a in (i, coord_grad k p1 p2 (nth i theta 0%Q)).

Lemma comp_grad_writes c theta :
  combine (cvars c) (comp_grad c theta) = map (grad_write theta) (assigns c).
Proof.
  unfold comp_grad, assigns, gather. destruct c as [k p1 p2 vs]. cbn [ckind cpar1 cpar2 cvars].
  revert p1 p2. induction vs as [|i vs IH]; intros [|a p1] [|b p2]; simpl; auto.
  all: try (rewrite IH; reflexivity); try (destruct p1; reflexivity).
Qed.

Lemma fold_scatter_writes {A} (f : comp -> list A) (w : comp -> list (nat * A)) cs out :
  (forall c, combine (cvars c) (f c) = w c) ->
  fold_left (fun g c => scatter g (cvars c) (f c)) cs out = apply_writes out (concat (map w cs)).
Proof.
  intros H. revert out. induction cs as [|c cs IH]; intros out; simpl; auto.
  rewrite IH, apply_writes_app, scatter_writes, H. reflexivity.
Qed.

Lemma joint_grad_writes comps n theta :
  joint_grad comps n theta =
  apply_writes (repeat 0%Q n) (map (grad_write theta) (all_assigns (merged comps))).
Proof.
  unfold joint_grad. rewrite (fold_scatter_writes _ (fun c => map (grad_write theta) (assigns c))).
  - unfold all_assigns. rewrite concat_map, map_map. reflexivity.
  - intros c. apply comp_grad_writes.
Qed.

Lemma map_fst_grad_write theta l : map fst (map (grad_write theta) l) = map fst l.
Proof.
  rewrite map_map. apply map_ext. intros [i [[k p1] p2]]. reflexivity.
Qed.

Lemma joint_grad_length comps n theta : length (joint_grad comps n theta) = n.
Proof. rewrite joint_grad_writes, apply_writes_length. apply repeat_length. Qed.

Lemma joint_grad_coord comps n theta i k p1 p2 :
  Forall wf_comp comps -> NoDup (map fst (all_assigns comps)) ->
  In (i, (k, p1, p2)) (all_assigns comps) -> i < n ->
  nth i (joint_grad comps n theta) 0%Q = coord_grad k p1 p2 (nth i theta 0%Q).
Proof.
  intros Hwf Hnd Hin Hi. rewrite joint_grad_writes.
  pose proof (merged_assigns_perm comps Hwf) as Hp.
  apply nth_apply_writes.
  - rewrite map_fst_grad_write. eapply Permutation_NoDup; [|exact Hnd].
    apply Permutation_map. apply Permutation_sym. exact Hp.
  - apply (in_map (grad_write theta)) with (x := (i, (k, p1, p2))).
    eapply Permutation_in; [apply Permutation_sym; exact Hp|exact Hin].
  - rewrite repeat_length. exact Hi.
Qed.

(* indices owned by nobody keep the initial 0 *)
Lemma joint_grad_unowned comps n theta i :
  Forall wf_comp comps -> ~ In i (map fst (all_assigns comps)) ->
  nth i (joint_grad comps n theta) 0%Q = 0%Q.
Proof.
  intros Hwf Hni. rewrite joint_grad_writes, apply_writes_untouched.
  - destruct (Nat.lt_ge_cases i n) as [H|H].
    + apply nth_repeat.
    + apply nth_overflow. rewrite repeat_length. exact H.
  - rewrite map_fst_grad_write. intros Hin. apply Hni.
    eapply Permutation_in; [|exact Hin]. apply Permutation_map. apply merged_assigns_perm. exact Hwf.
Qed.

Lemma assigns_in_all c comps a : In c comps -> In a (assigns c) -> In a (all_assigns comps).
Proof.
  intros Hc Ha. unfold all_assigns. apply in_concat. exists (assigns c). split; [|exact Ha].
  apply in_map. exact Hc.
Qed.

Lemma gather_ext {A} (d : A) l1 l2 vars :
  (forall i, In i vars -> nth i l1 d = nth i l2 d) -> gather d l1 vars = gather d l2 vars.
Proof. intros H. unfold gather. apply map_ext_in. exact H. Qed.

(* component view: grad[c.variables] = c.gradient(theta), for every ORIGINAL component *)
Lemma nth_combine_zip {A B} (l1 : list A) (l2 : list B) j d1 d2 :
  j < length l1 -> length l1 = length l2 -> In (nth j l1 d1, nth j l2 d2) (combine l1 l2).
Proof.
  revert l2 j. induction l1 as [|a l1 IH]; intros [|b l2] [|j] H1 H2; simpl in *; try lia; auto.
  all: try (right; apply IH; lia).
Qed.

Lemma comp_grad_length c theta : wf_comp c -> length (comp_grad c theta) = length (cvars c).
Proof.
  intros [H1 H2]. unfold comp_grad, gather. destruct c as [k p1 p2 vs]. cbn [ckind cpar1 cpar2 cvars] in *.
  revert p1 p2 H1 H2. induction vs as [|i vs IH]; intros [|a p1] [|b p2] H1 H2; simpl in *; try lia; auto.
  all: try (rewrite IH; lia).
Qed.

Lemma nth_gather {A} (d : A) l vars j :
  j < length vars -> nth j (gather d l vars) d = nth (nth j vars 0) l d.
Proof.
  unfold gather. revert j. induction vars as [|v vars IH]; intros [|j] H; simpl in *; try lia; auto.
  apply IH. lia.
Qed.

Lemma joint_grad_component comps n theta c :
  Forall wf_comp comps -> NoDup (map fst (all_assigns comps)) ->
  (forall i, In i (map fst (all_assigns comps)) -> i < n) ->
  In c comps ->
  gather 0%Q (joint_grad comps n theta) (cvars c) = comp_grad c theta.
Proof.
  intros Hwf Hnd Hrange Hc.
  assert (Hwc : wf_comp c) by (rewrite Forall_forall in Hwf; apply Hwf; exact Hc).
  apply nth_ext with (d := 0%Q) (d' := 0%Q).
  - unfold gather. rewrite map_length, comp_grad_length by exact Hwc. reflexivity.
  - intros j Hj. unfold gather in Hj. rewrite map_length in Hj.
    rewrite nth_gather by exact Hj.
    pose proof (comp_grad_writes c theta) as Hw.
    assert (Hin : In (nth j (cvars c) 0%nat, nth j (comp_grad c theta) 0%Q) (map (grad_write theta) (assigns c))).
    { rewrite <- Hw. apply nth_combine_zip; [exact Hj|]. symmetry. apply comp_grad_length. exact Hwc. }
    apply in_map_iff in Hin. destruct Hin as [[i [[k p1] p2]] [E Ha]].
    simpl in E. injection E as E1 E2. rewrite <- E2, <- E1.
    pose proof (assigns_in_all c comps _ Hc Ha) as Hall.
    apply joint_grad_coord; auto.
    apply Hrange. apply in_map_iff. exists (i, (k, p1, p2)). split; [reflexivity|exact Hall].
Qed.

(* ------------------------------------------------------------------ *)
(* sampling                                                            *)
(* ------------------------------------------------------------------ *)
Definition sample_write (a : nat * (kind * Q * Q)) (d : Q) : nat * Q :=
  let '(i, (k, p1, p2)) := a in (i, coord_sample k p1 p2 d).

Lemma comp_sample_writes c draws :
  combine (cvars c) (comp_sample c draws) = zip2 sample_write (assigns c) draws.
Proof.
  unfold comp_sample, assigns. destruct c as [k p1 p2 vs]. cbn [ckind cpar1 cpar2 cvars].
  revert p1 p2 draws. induction vs as [|i vs IH]; intros [|a p1] [|b p2] [|d draws]; simpl; auto.
  all: try (rewrite IH; reflexivity); try (destruct p1; reflexivity).
Qed.

Lemma zip2_firstn_same {A B C} (g : A -> B -> C) l s :
  zip2 g l (firstn (length l) s) = zip2 g l s.
Proof.
  revert s. induction l as [|a l IH]; intros [|b s]; simpl; auto. rewrite IH. reflexivity.
Qed.

Lemma sample_loop_writes cs script out :
  Forall wf_comp cs ->
  sample_loop cs script out = apply_writes out (zip2 sample_write (all_assigns cs) script).
Proof.
  intros Hwf. revert script out. induction Hwf as [|c cs Hc _ IH]; intros script out; simpl; auto.
  change (all_assigns (c :: cs)) with (assigns c ++ all_assigns cs).
  rewrite IH, scatter_writes, comp_sample_writes, zip2_split, apply_writes_app.
  rewrite (assigns_length c Hc). destruct Hc as [H1 H2]. rewrite H1. reflexivity.
Qed.

Lemma map_fst_zip2_sample l s : length l <= length s ->
  map fst (zip2 sample_write l s) = map fst l.
Proof.
  revert s. induction l as [|[i [[k p1] p2]] l IH]; intros [|d s] H; simpl in *; auto; try lia.
  all: try (rewrite IH by lia; reflexivity).
Qed.

Lemma nth_zip2_in {A B C} (g : A -> B -> C) l s j da db :
  j < length l -> j < length s -> In (g (nth j l da) (nth j s db)) (zip2 g l s).
Proof.
  revert s j. induction l as [|a l IH]; intros [|b s] [|j] H1 H2; simpl in *; try lia; auto.
  all: try (right; apply IH; lia).
Qed.

(* the j-th assignment of the merged list receives the j-th draw; the coordinate lands at its own index *)
Lemma joint_sample_coord comps n script j i k p1 p2 :
  Forall wf_comp comps -> NoDup (map fst (all_assigns comps)) ->
  length (all_assigns (merged comps)) <= length script ->
  j < length (all_assigns (merged comps)) ->
  nth j (all_assigns (merged comps)) (0%nat, (KGauss, 0%Q, 0%Q)) = (i, (k, p1, p2)) -> i < n ->
  nth i (joint_sample comps n script) 0%Q = coord_sample k p1 p2 (nth j script 0%Q).
Proof.
  intros Hwf Hnd Hlen Hj Hnth Hi.
  unfold joint_sample. rewrite sample_loop_writes by (apply merged_wf; exact Hwf).
  apply nth_apply_writes.
  - rewrite map_fst_zip2_sample by exact Hlen.
    eapply Permutation_NoDup; [|exact Hnd]. apply Permutation_map. apply Permutation_sym.
    apply merged_assigns_perm. exact Hwf.
  - pose proof (nth_zip2_in sample_write (all_assigns (merged comps)) script j (0%nat, (KGauss, 0%Q, 0%Q)) 0%Q Hj ltac:(lia)) as H.
    rewrite Hnth in H. exact H.
  - rewrite repeat_length. exact Hi.
Qed.

(* the generator is called once per merged component with that component's arrays *)
Lemma sample_calls_spec comps :
  sample_calls comps = map (fun c => (ckind c, cpar1 c, cpar2 c)) (merged comps).
Proof. reflexivity. Qed.

(* ------------------------------------------------------------------ *)
(* bounds                                                              *)
(* ------------------------------------------------------------------ *)
Lemma insert_nat_perm {A} (key : A -> nat) x l : Permutation (x :: l) (insert_nat key x l).
Proof.
  induction l as [|y t IH]; simpl; auto.
  destruct (key x <=? key y); auto.
  eapply Permutation_trans; [apply perm_swap|]. apply perm_skip. exact IH.
Qed.

Lemma sort_nat_perm {A} (key : A -> nat) l : Permutation l (sort_nat key l).
Proof.
  induction l as [|x l IH]; simpl; auto.
  eapply Permutation_trans; [apply perm_skip; exact IH|]. apply insert_nat_perm.
Qed.

Definition sorted_by {A} (key : A -> nat) (l : list A) := StronglySorted (fun a b => key a <= key b) l.

Lemma insert_nat_sorted {A} (key : A -> nat) x l : sorted_by key l -> sorted_by key (insert_nat key x l).
Proof.
  unfold sorted_by. induction l as [|y t IH]; intros Hs; simpl.
  - constructor; constructor.
  - inversion Hs as [|? ? Hs' Hall]; subst.
    destruct (Nat.leb_spec (key x) (key y)) as [Hle|Hgt].
    + constructor; [exact Hs|]. constructor; [exact Hle|].
      eapply Forall_impl; [|exact Hall]. intros z Hz. simpl in *. lia.
    + constructor; [apply IH; exact Hs'|].
      apply Forall_forall. intros z Hz.
      apply (Permutation_in _ (Permutation_sym (insert_nat_perm key x t))) in Hz.
      destruct Hz as [E|Hz]; [subst; lia|]. rewrite Forall_forall in Hall. apply Hall. exact Hz.
Qed.

Lemma sort_nat_sorted {A} (key : A -> nat) l : sorted_by key (sort_nat key l).
Proof.
  induction l as [|x l IH]; simpl; [constructor|]. apply insert_nat_sorted. exact IH.
Qed.

Lemma sorted_perm_eq (l1 l2 : list nat) :
  StronglySorted le l1 -> StronglySorted le l2 -> Permutation l1 l2 -> l1 = l2.
Proof.
  revert l2. induction l1 as [|a l1 IH]; intros l2 H1 H2 Hp.
  - apply Permutation_nil in Hp. symmetry. exact Hp.
  - destruct l2 as [|b l2]; [apply Permutation_sym, Permutation_nil in Hp; discriminate|].
    inversion H1 as [|? ? H1' Ha]; subst. inversion H2 as [|? ? H2' Hb]; subst.
    assert (a = b).
    { assert (Hia : In a (b :: l2)) by (eapply Permutation_in; [exact Hp|left; reflexivity]).
      assert (Hib : In b (a :: l1)) by (eapply Permutation_in; [apply Permutation_sym; exact Hp|left; reflexivity]).
      rewrite Forall_forall in Ha, Hb.
      destruct Hia as [E|Hia]; [auto|]. destruct Hib as [E|Hib]; [auto|].
      specialize (Ha _ Hib). specialize (Hb _ Hia). lia. }
    subst b. f_equal. apply IH; auto. eapply Permutation_cons_inv. exact Hp.
Qed.

Lemma sorted_by_map {A} (key : A -> nat) l : sorted_by key l -> StronglySorted le (map key l).
Proof.
  unfold sorted_by. induction 1 as [|a l Hs IH Hall]; simpl; constructor; auto.
  rewrite Forall_map. exact Hall.
Qed.

Lemma seq_sorted s n : StronglySorted le (seq s n).
Proof.
  revert s. induction n as [|n IH]; intros s; simpl; constructor; auto.
  apply Forall_forall. intros x Hx. apply in_seq in Hx. lia.
Qed.

Lemma sort_nat_keys {A} (key : A -> nat) l n :
  Permutation (map key l) (seq 0 n) -> map key (sort_nat key l) = seq 0 n.
Proof.
  intros Hp. apply sorted_perm_eq.
  - apply sorted_by_map. apply sort_nat_sorted.
  - apply seq_sorted.
  - eapply Permutation_trans; [|exact Hp]. apply Permutation_map. apply Permutation_sym. apply sort_nat_perm.
Qed.

Definition bound_pair (a : nat * (kind * Q * Q)) : bound * nat :=
  let '(i, (k, p1, p2)) := a in (coord_bounds k p1 p2, i).

Lemma comp_bounds_pairs c : wf_comp c ->
  combine (comp_bounds c) (cvars c) = map bound_pair (assigns c).
Proof.
  intros [H1 H2]. unfold comp_bounds, assigns. destruct c as [k p1 p2 vs]. cbn [ckind cpar1 cpar2 cvars] in *.
  revert p1 p2 H1 H2. induction vs as [|i vs IH]; intros [|a p1] [|b p2] H1 H2; simpl in *; try lia; auto.
  all: try (rewrite IH by lia; reflexivity).
Qed.

Lemma comp_bounds_length c : wf_comp c -> length (comp_bounds c) = length (cvars c).
Proof. intros [H1 H2]. unfold comp_bounds. rewrite zip2_length; lia. Qed.

Lemma all_bounds_pairs cs : Forall wf_comp cs ->
  combine (concat (map comp_bounds cs)) (all_vars cs) = map bound_pair (all_assigns cs).
Proof.
  unfold all_vars, all_assigns. induction 1 as [|c cs Hc _ IH]; simpl; auto.
  rewrite combine_app by (apply comp_bounds_length; exact Hc).
  rewrite IH, map_app, comp_bounds_pairs by exact Hc. reflexivity.
Qed.

Lemma map_snd_bound_pair l : map snd (map bound_pair l) = map fst l.
Proof. rewrite map_map. apply map_ext. intros [i [[k p1] p2]]. reflexivity. Qed.

Lemma NoDup_map_fst_unique {A B} (l : list (A * B)) a b1 b2 :
  NoDup (map fst l) -> In (a, b1) l -> In (a, b2) l -> b1 = b2.
Proof.
  induction l as [|[x y] l IH]; intros Hnd H1 H2; simpl in *; [tauto|].
  inversion Hnd as [|? ? Hni Hnd']; subst.
  destruct H1 as [E1|H1], H2 as [E2|H2].
  - congruence.
  - inversion E1; subst. exfalso. apply Hni. apply in_map_iff. exists (a, b2). auto.
  - inversion E2; subst. exfalso. apply Hni. apply in_map_iff. exists (a, b1). auto.
  - auto.
Qed.

Lemma joint_bounds_coord comps n i k p1 p2 :
  Forall wf_comp comps -> Permutation (map fst (all_assigns comps)) (seq 0 n) ->
  In (i, (k, p1, p2)) (all_assigns comps) ->
  length (joint_bounds comps) = n /\
  nth i (joint_bounds comps) (None, None) = coord_bounds k p1 p2.
Proof.
  intros Hwf Hperm Hin.
  pose proof (merged_assigns_perm comps Hwf) as Hp.
  unfold joint_bounds. rewrite all_bounds_pairs by (apply merged_wf; exact Hwf).
  set (zs := map bound_pair (all_assigns (merged comps))).
  assert (Hkeys : Permutation (map snd zs) (seq 0 n)).
  { unfold zs. rewrite map_snd_bound_pair. eapply Permutation_trans; [|exact Hperm].
    apply Permutation_map. exact Hp. }
  pose proof (sort_nat_keys snd zs n Hkeys) as Hsorted.
  assert (Hlen : length (sort_nat snd zs) = n).
  { rewrite <- (map_length snd), Hsorted. apply seq_length. }
  split; [rewrite map_length; exact Hlen|].
  assert (Hi : i < n).
  { assert (In i (seq 0 n)).
    { eapply Permutation_in; [exact Hperm|]. apply in_map_iff. exists (i, (k, p1, p2)). auto. }
    apply in_seq in H. lia. }
  change (None, None) with (fst ((None, None) : bound, 0%nat)). rewrite map_nth.
  remember (nth i (sort_nat snd zs) (None, None, 0%nat)) as e eqn:Ee.
  assert (Hsnd : snd e = i).
  { rewrite Ee. rewrite <- (map_nth snd). simpl. rewrite Hsorted.
    rewrite seq_nth by exact Hi. reflexivity. }
  assert (He : In e zs).
  { eapply Permutation_in; [apply Permutation_sym; apply sort_nat_perm|].
    rewrite Ee. apply nth_In. rewrite Hlen. exact Hi. }
  unfold zs in He. apply in_map_iff in He. destruct He as [[i' [[k' q1] q2]] [E Ha]].
  assert (Ei : i' = i) by (rewrite <- E in Hsnd; simpl in Hsnd; exact Hsnd).
  rewrite Ei in *.
  assert (Hnd : NoDup (map fst (all_assigns (merged comps)))).
  { eapply Permutation_NoDup; [apply Permutation_sym; apply Permutation_map; exact Hp|].
    eapply Permutation_NoDup; [apply Permutation_sym; exact Hperm|]. apply seq_NoDup. }
  assert (Hin' : In (i, (k, p1, p2)) (all_assigns (merged comps))).
  { eapply Permutation_in; [apply Permutation_sym; exact Hp|exact Hin]. }
  pose proof (NoDup_map_fst_unique _ _ _ _ Hnd Ha Hin') as Eq.
  transitivity (fst e); [rewrite Ee; reflexivity|]. rewrite <- E. injection Eq as Ek E1 E2. rewrite Ek, E1, E2. reflexivity.
Qed.

(* ------------------------------------------------------------------ *)
(* constructor checks                                                  *)
(* ------------------------------------------------------------------ *)
Lemma nodupb_NoDup l : nodupb l = true <-> NoDup l.
Proof.
  induction l as [|x l IH]; simpl; [split; auto; constructor|].
  rewrite andb_true_iff, negb_true_iff, IH. split.
  - intros [H1 H2]. constructor; [|exact H2]. intros Hin.
    assert (existsb (Nat.eqb x) l = true) by (apply existsb_exists; exists x; split; [exact Hin|apply Nat.eqb_refl]).
    congruence.
  - intros H. inversion H as [|? ? Hni Hnd]; subst. split; [|exact Hnd].
    destruct (existsb (Nat.eqb x) l) eqn:E; [|reflexivity].
    apply existsb_exists in E. destruct E as [y [Hy E]]. apply Nat.eqb_eq in E. subst. tauto.
Qed.

Lemma NoDup_lt_perm_seq l n :
  NoDup l -> length l = n -> (forall i, In i l -> i < n) -> Permutation l (seq 0 n).
Proof.
  intros Hnd Hlen Hlt. apply NoDup_Permutation_bis; auto.
  - rewrite seq_length. lia.
  - intros x Hx. apply in_seq. specialize (Hlt x Hx). lia.
Qed.

Lemma all_vars_assigns cs : Forall wf_comp cs -> all_vars cs = map fst (all_assigns cs).
Proof.
  unfold all_vars, all_assigns. induction 1 as [|c cs Hc _ IH]; simpl; auto.
  rewrite map_app, IH. f_equal. unfold assigns.
  destruct Hc as [H1 H2].
  assert (Hl : length (cvars c) = length (zip2 (fun a b => (ckind c, a, b)) (cpar1 c) (cpar2 c)))
    by (rewrite zip2_length; lia).
  revert Hl. generalize (zip2 (fun a b => (ckind c, a, b)) (cpar1 c) (cpar2 c)).
  generalize (cvars c). clear. induction l as [|i l IH]; intros [|z zs] H; simpl in *; try lia; auto.
  all: try (rewrite <- IH by lia; reflexivity).
Qed.

(* what the constructor accepts is exactly: the variable lists partition 0..n-1 *)
Lemma joint_valid_spec comps n : Forall wf_comp comps ->
  joint_valid comps n = true -> Permutation (map fst (all_assigns comps)) (seq 0 n).
Proof.
  intros Hwf Hv. unfold joint_valid in Hv.
  rewrite !andb_true_iff in Hv. destruct Hv as [[Hnd Hlen] Hlt].
  apply nodupb_NoDup in Hnd. apply Nat.eqb_eq in Hlen. rewrite forallb_forall in Hlt.
  rewrite all_vars_assigns in * by (apply merged_wf; exact Hwf).
  eapply Permutation_trans; [apply Permutation_map; apply Permutation_sym; apply merged_assigns_perm; exact Hwf|].
  apply NoDup_lt_perm_seq; auto. intros i Hi. apply Nat.ltb_lt. apply Hlt. exact Hi.
Qed.

(* ------------------------------------------------------------------ *)
(* generate_initial_guesses                                            *)
(* ------------------------------------------------------------------ *)
Lemma insert_q_perm {A} (key : A -> Q) x l : Permutation (x :: l) (insert_q key x l).
Proof.
  induction l as [|y t IH]; simpl; auto.
  destruct (Qle_bool (key x) (key y)); auto.
  eapply Permutation_trans; [apply perm_swap|]. apply perm_skip. exact IH.
Qed.

Lemma sort_q_perm {A} (key : A -> Q) l : Permutation l (sort_q key l).
Proof.
  induction l as [|x l IH]; simpl; auto.
  eapply Permutation_trans; [apply perm_skip; exact IH|]. apply insert_q_perm.
Qed.

Definition sorted_q {A} (key : A -> Q) (l : list A) := StronglySorted (fun a b => (key a <= key b)%Q) l.

Lemma insert_q_sorted {A} (key : A -> Q) x l : sorted_q key l -> sorted_q key (insert_q key x l).
Proof.
  unfold sorted_q. induction l as [|y t IH]; intros Hs; simpl.
  - constructor; constructor.
  - inversion Hs as [|? ? Hs' Hall]; subst.
    destruct (Qle_bool (key x) (key y)) eqn:E.
    + apply Qle_bool_iff in E. constructor; [exact Hs|]. constructor; [exact E|].
      eapply Forall_impl; [|exact Hall]. intros z Hz. simpl in *. eapply Qle_trans; eauto.
    + assert (Hyx : (key y <= key x)%Q).
      { destruct (Qlt_le_dec (key x) (key y)) as [Hlt|Hle]; [|exact Hle].
        apply Qlt_le_weak in Hlt. apply Qle_bool_iff in Hlt. congruence. }
      constructor; [apply IH; exact Hs'|].
      apply Forall_forall. intros z Hz.
      apply (Permutation_in _ (Permutation_sym (insert_q_perm key x t))) in Hz.
      destruct Hz as [Ez|Hz]; [subst; exact Hyx|]. rewrite Forall_forall in Hall. apply Hall. exact Hz.
Qed.

Lemma sort_q_sorted {A} (key : A -> Q) l : sorted_q key (sort_q key l).
Proof.
  induction l as [|x l IH]; simpl; [constructor|]. apply insert_q_sorted. exact IH.
Qed.

Lemma in_firstn_in {A} (l : list A) n x : In x (firstn n l) -> In x l.
Proof.
  revert n. induction l as [|a l IH]; intros [|n] H; simpl in *; try tauto.
  destruct H as [E|H]; [left; exact E|right; eapply IH; exact H].
Qed.

Lemma in_skipn_in {A} (l : list A) n x : In x (skipn n l) -> In x l.
Proof.
  revert n. induction l as [|a l IH]; intros [|n] H; simpl in *; try tauto.
  right. eapply IH. exact H.
Qed.

Lemma sorted_q_firstn {A} (key : A -> Q) l n : sorted_q key l -> sorted_q key (firstn n l).
Proof.
  unfold sorted_q. intros H. revert n. induction H as [|a l Hs IH Hall]; intros [|n]; simpl; try constructor; auto.
  apply Forall_forall. intros x Hx. rewrite Forall_forall in Hall. apply Hall.
  eapply in_firstn_in. exact Hx.
Qed.

Lemma sorted_q_split {A} (key : A -> Q) l n x y :
  sorted_q key l -> In x (firstn n l) -> In y (skipn n l) -> (key x <= key y)%Q.
Proof.
  unfold sorted_q. intros H. revert n. induction H as [|a l Hs IH Hall]; intros [|n] Hx Hy; simpl in *; try tauto.
  destruct Hx as [E|Hx].
  - subst. rewrite Forall_forall in Hall. apply Hall. eapply in_skipn_in. exact Hy.
  - eapply IH; eauto.
Qed.

(* stability: elements of equal cost keep their original relative order *)
Lemma insert_q_filter {A} (key : A -> Q) (p : A -> bool) x l :
  (forall a b, p a = true -> p b = true -> (key a == key b)%Q) ->
  filter p (insert_q key x l) = filter p (x :: l).
Proof.
  intros Heq. induction l as [|y t IH]; simpl; auto.
  destruct (Qle_bool (key x) (key y)) eqn:E; simpl; auto.
  simpl in IH. destruct (p y) eqn:Py, (p x) eqn:Px; simpl; rewrite ?Px, ?Py in *; try (rewrite IH; reflexivity).
  - exfalso. specialize (Heq x y Px Py).
    assert (Qle_bool (key x) (key y) = true) by (apply Qle_bool_iff; rewrite Heq; apply Qle_refl). congruence.
Qed.

Lemma sort_q_stable {A} (key : A -> Q) (p : A -> bool) l :
  (forall a b, p a = true -> p b = true -> (key a == key b)%Q) ->
  filter p (sort_q key l) = filter p l.
Proof.
  intros Heq. induction l as [|x l IH]; simpl; auto.
  rewrite insert_q_filter by exact Heq. simpl. rewrite IH. reflexivity.
Qed.

Lemma guesses_spec {A} (cost : A -> Q) (samples : list A) n :
  n <= length samples ->
  length (guesses cost samples n) = n /\
  sorted_q cost (guesses cost samples n) /\
  (exists rest, Permutation samples (guesses cost samples n ++ rest) /\
                forall x y, In x (guesses cost samples n) -> In y rest -> (cost x <= cost y)%Q).
Proof.
  intros Hn. unfold guesses.
  assert (Hl : length (sort_q cost samples) = length samples)
    by (symmetry; apply Permutation_length; apply sort_q_perm).
  split; [rewrite firstn_length; lia|]. split.
  - apply sorted_q_firstn. apply sort_q_sorted.
  - exists (skipn n (sort_q cost samples)). split.
    + rewrite firstn_skipn. apply sort_q_perm.
    + intros x y Hx Hy. eapply sorted_q_split; eauto. apply sort_q_sorted.
Qed.

(* ------------------------------------------------------------------ *)
(* D26                                                                 *)
(* ------------------------------------------------------------------ *)
Lemma unif_grad_alias_refuted :
  exists buf adds, snd (unif_grad_pinned buf adds) <> buf /\ snd (unif_grad buf adds) = buf.
Proof. exists [0; 0]%Q, [1; 1]%Q. split; [vm_compute; discriminate|reflexivity]. Qed.

(* ------------------------------------------------------------------ *)
(* statements in terms of the variable lists themselves                *)
(* ------------------------------------------------------------------ *)
Definition partitions (comps : list comp) (n : nat) : Prop :=
  Forall wf_comp comps /\ Permutation (all_vars comps) (seq 0 n).

Lemma partitions_facts comps n : partitions comps n ->
  Forall wf_comp comps /\ Permutation (map fst (all_assigns comps)) (seq 0 n) /\
  NoDup (map fst (all_assigns comps)) /\ (forall i, In i (map fst (all_assigns comps)) -> i < n).
Proof.
  intros [Hwf Hp]. rewrite all_vars_assigns in Hp by exact Hwf.
  split; [exact Hwf|]. split; [exact Hp|]. split.
  - eapply Permutation_NoDup; [apply Permutation_sym; exact Hp|apply seq_NoDup].
  - intros i Hi. apply (Permutation_in _ Hp) in Hi. apply in_seq in Hi. lia.
Qed.

Lemma joint_valid_partitions comps n :
  Forall wf_comp comps -> joint_valid comps n = true -> partitions comps n.
Proof.
  intros Hwf Hv. split; [exact Hwf|]. rewrite all_vars_assigns by exact Hwf.
  apply joint_valid_spec; assumption.
Qed.

Lemma routing_gradient comps n theta i k p1 p2 :
  partitions comps n -> In (i, (k, p1, p2)) (all_assigns comps) ->
  length (joint_grad comps n theta) = n /\
  nth i (joint_grad comps n theta) 0%Q = coord_grad k p1 p2 (nth i theta 0%Q).
Proof.
  intros Hpart Hin. destruct (partitions_facts _ _ Hpart) as [Hwf [Hp [Hnd Hlt]]].
  split; [apply joint_grad_length|]. apply joint_grad_coord; auto.
  apply Hlt. apply in_map_iff. exists (i, (k, p1, p2)). auto.
Qed.

Lemma routing_gradient_component comps n theta c :
  partitions comps n -> In c comps ->
  gather 0%Q (joint_grad comps n theta) (cvars c) = comp_grad c theta.
Proof.
  intros Hpart Hc. destruct (partitions_facts _ _ Hpart) as [Hwf [Hp [Hnd Hlt]]].
  apply joint_grad_component; auto.
Qed.

Lemma routing_bounds comps n i k p1 p2 :
  partitions comps n -> In (i, (k, p1, p2)) (all_assigns comps) ->
  length (joint_bounds comps) = n /\
  nth i (joint_bounds comps) (None, None) = coord_bounds k p1 p2.
Proof.
  intros Hpart Hin. destruct (partitions_facts _ _ Hpart) as [Hwf [Hp [Hnd Hlt]]].
  apply joint_bounds_coord; auto.
Qed.

Lemma routing_sample comps n script j i k p1 p2 :
  partitions comps n ->
  length script = n -> j < n ->
  nth j (all_assigns (merged comps)) (0%nat, (KGauss, 0%Q, 0%Q)) = (i, (k, p1, p2)) ->
  i < n /\ In (i, (k, p1, p2)) (all_assigns comps) /\
  nth i (joint_sample comps n script) 0%Q = coord_sample k p1 p2 (nth j script 0%Q).
Proof.
  intros Hpart Hs Hj Hnth. destruct (partitions_facts _ _ Hpart) as [Hwf [Hp [Hnd Hlt]]].
  pose proof (merged_assigns_perm comps Hwf) as Hpm.
  assert (Hlen : length (all_assigns (merged comps)) = n).
  { rewrite (Permutation_length Hpm). rewrite <- (map_length fst), (Permutation_length Hp). apply seq_length. }
  assert (Hin : In (i, (k, p1, p2)) (all_assigns comps)).
  { eapply Permutation_in; [exact Hpm|]. rewrite <- Hnth. apply nth_In. lia. }
  assert (Hi : i < n) by (apply Hlt; apply in_map_iff; exists (i, (k, p1, p2)); auto).
  split; [exact Hi|]. split; [exact Hin|].
  apply joint_sample_coord; auto; lia.
Qed.

Lemma merge_preserves comps : Forall wf_comp comps ->
  Forall wf_comp (merged comps) /\ Permutation (all_assigns (merged comps)) (all_assigns comps) /\
  Permutation (all_vars (merged comps)) (all_vars comps).
Proof.
  intros Hwf. split; [apply merged_wf; exact Hwf|]. split; [apply merged_assigns_perm; exact Hwf|].
  rewrite !all_vars_assigns by (try apply merged_wf; exact Hwf).
  apply Permutation_map. apply merged_assigns_perm. exact Hwf.
Qed.
