(* Lemmas about the read-out model (property C14). *)
From Coq Require Import List ZArith Bool Arith Lia Sorting.Sorted Sorting.Permutation
  Sorting.Mergesort.
From IT Require Import Model.Readouts.
Import ListNotations.

(* ------------------------------------------------------------------ slices *)
Section SliceFacts.
  Variable A : Type.
  Implicit Types l : list A.

  Lemma take_every_nth thin (Hthin : 1 <= thin) l : forall k j d,
    nth j (take_every thin k l) d = nth (k + j * thin) l d.
  Proof.
    induction l as [|x t IH]; intros k j d.
    - simpl. destruct j; destruct (k + _); reflexivity.
    - destruct k as [|k'].
      + simpl take_every. destruct j as [|j'].
        * reflexivity.
        * simpl nth at 1. rewrite IH.
          replace (0 + S j' * thin) with (S (thin - 1 + j' * thin)) by lia.
          reflexivity.
      + simpl. apply IH.
  Qed.

  Lemma take_every_length thin (Hthin : 1 <= thin) l : forall k,
    length (take_every thin k l) = (length l - k + (thin - 1)) / thin.
  Proof.
    induction l as [|x t IH]; intros k.
    - simpl. symmetry. apply Nat.div_small. lia.
    - destruct k as [|k'].
      + simpl take_every. simpl length. rewrite IH.
        replace (S (length t) - 0 + (thin - 1)) with (length t + 1 * thin) by lia.
        rewrite Nat.div_add by lia.
        destruct (le_lt_dec (thin - 1) (length t)) as [Hge|Hlt].
        * replace (length t - (thin - 1) + (thin - 1)) with (length t) by lia. lia.
        * replace (length t - (thin - 1) + (thin - 1)) with (thin - 1) by lia.
          rewrite (Nat.div_small (thin - 1)) by lia.
          rewrite (Nat.div_small (length t)) by lia. reflexivity.
      + simpl. apply IH.
  Qed.

  Lemma nth_skipn : forall n l i d, nth i (skipn n l) d = nth (n + i) l d.
  Proof.
    induction n as [|n IH]; intros l i d.
    - reflexivity.
    - destruct l as [|x t].
      + simpl. destruct i; reflexivity.
      + simpl. apply IH.
  Qed.

  (* entry k of l[burn::thin] is entry burn + k*thin of l *)
  Lemma slice_nth burn thin l k d : 1 <= thin ->
    nth k (slice burn thin l) d = nth (burn + k * thin) l d.
  Proof.
    intros Hthin. unfold slice. rewrite take_every_nth by exact Hthin.
    rewrite nth_skipn. reflexivity.
  Qed.

  (* its length is ceil((len - burn) / thin) *)
  Lemma slice_length burn thin l : 1 <= thin ->
    length (slice burn thin l) = slice_len (length l) burn thin.
  Proof.
    intros Hthin. unfold slice, slice_len. rewrite take_every_length by exact Hthin.
    rewrite skipn_length. rewrite Nat.sub_0_r. reflexivity.
  Qed.

  (* ... i.e. exactly the positions burn + k*thin that exist *)
  Lemma slice_len_spec n burn thin k : 1 <= thin ->
    k < slice_len n burn thin <-> burn + k * thin < n.
  Proof.
    intros Hthin. unfold slice_len. split.
    - intros H.
      assert (H1 : thin * S k <= n - burn + (thin - 1)).
      { eapply Nat.le_trans; [apply Nat.mul_le_mono_l; exact H|].
        apply Nat.mul_div_le. lia. }
      nia.
    - intros H.
      assert (H1 : S k <= (n - burn + (thin - 1)) / thin).
      { apply Nat.div_le_lower_bound; [lia|nia]. }
      lia.
  Qed.

  Lemma slice_index burn thin l k : 1 <= thin ->
    k < length (slice burn thin l) <-> burn + k * thin < length l.
  Proof. intros H. rewrite slice_length by exact H. apply slice_len_spec. exact H. Qed.

  Lemma slice_thin1 burn l : slice burn 1 l = skipn burn l.
  Proof.
    unfold slice. generalize (skipn burn l). intros m.
    induction m as [|x t IH]; simpl; [reflexivity|]. f_equal. exact IH.
  Qed.

  (* probs[::thin] of get_probabilities(burn) is get_probabilities(burn, thin) *)
  Lemma slice_slice burn thin l : slice 0 thin (slice burn 1 l) = slice burn thin l.
  Proof. rewrite slice_thin1. reflexivity. Qed.

  (* burn = 0, thin = 1 returns the whole chain *)
  Lemma slice_all l : slice 0 1 l = l.
  Proof. rewrite slice_thin1. reflexivity. Qed.

  Lemma slice_In burn thin l x : 1 <= thin -> In x (slice burn thin l) -> In x l.
  Proof.
    intros Hthin Hin. destruct (In_nth _ _ x Hin) as [k [Hk Hx]].
    rewrite slice_nth in Hx by exact Hthin. rewrite <- Hx. apply nth_In.
    apply slice_index; assumption.
  Qed.
End SliceFacts.

(* ------------------------------------------------------------------ getters *)

(* the j-th stored sample of the full chain *)
Definition chain_row (lay : layout) (data : list (list Z)) (j : nat) : row :=
  match lay with
  | ColMajor => map (fun c => nth j c 0%Z) data
  | RowMajor => nth j data []
  end.

(* well-formed history of n steps *)
Definition wf (lay : layout) (data : list (list Z)) (probs : list Z) (n : nat) : Prop :=
  length probs = n /\
  match lay with
  | ColMajor => data <> [] /\ Forall (fun c => length c = n) data
  | RowMajor => length data = n
  end.

Lemma nth_map_default {A B} (f : A -> B) l i d d' :
  i < length l -> nth i (map f l) d' = f (nth i l d).
Proof.
  revert i. induction l as [|x t IH]; intros i Hi; simpl in *; [lia|].
  destruct i; [reflexivity|]. apply IH. lia.
Qed.

Lemma col_rows_slice data n burn thin : 1 <= thin -> data <> [] ->
  Forall (fun c => length c = n) data ->
  col_rows (map (slice burn thin) data) = slice_len n burn thin.
Proof.
  intros Hthin Hne Hall. destruct data as [|c t]; [congruence|].
  simpl. rewrite slice_length by exact Hthin. inversion Hall; subst. reflexivity.
Qed.

Lemma get_sample_length lay data probs n burn thin : 1 <= thin -> wf lay data probs n ->
  length (get_sample lay data burn thin) = slice_len n burn thin.
Proof.
  intros Hthin [Hp Hd]. destruct lay; simpl.
  - destruct Hd as [Hne Hall]. unfold col_get_sample, transpose.
    rewrite map_length, seq_length. apply col_rows_slice; assumption.
  - unfold row_get_sample. rewrite slice_length by exact Hthin. rewrite Hd. reflexivity.
Qed.

Lemma get_sample_nth lay data probs n burn thin k : 1 <= thin -> wf lay data probs n ->
  k < slice_len n burn thin ->
  nth k (get_sample lay data burn thin) [] = chain_row lay data (burn + k * thin).
Proof.
  intros Hthin [Hp Hd] Hk. destruct lay; simpl.
  - destruct Hd as [Hne Hall]. unfold col_get_sample, transpose.
    rewrite (col_rows_slice data n burn thin Hthin Hne Hall).
    rewrite nth_map_default with (d := 0) by (rewrite seq_length; exact Hk).
    rewrite seq_nth by exact Hk. simpl. rewrite map_map.
    apply map_ext. intros c. apply slice_nth. exact Hthin.
  - unfold row_get_sample. apply slice_nth. exact Hthin.
Qed.

Lemma get_parameter_length lay data probs n i burn thin : 1 <= thin -> wf lay data probs n ->
  (lay = ColMajor -> i < length data) ->
  length (get_parameter lay data i burn thin) = slice_len n burn thin.
Proof.
  intros Hthin [Hp Hd] Hi. destruct lay; simpl.
  - destruct Hd as [Hne Hall]. unfold col_get_parameter.
    rewrite slice_length by exact Hthin. f_equal.
    rewrite Forall_forall in Hall. apply Hall. apply nth_In. apply Hi. reflexivity.
  - unfold row_get_parameter, column. rewrite map_length.
    rewrite slice_length by exact Hthin. rewrite Hd. reflexivity.
Qed.

Lemma nth_chain_row_col data i j :
  nth i (chain_row ColMajor data j) 0%Z = nth j (nth i data []) 0%Z.
Proof.
  simpl. destruct (lt_dec i (length data)) as [Hi|Hi].
  - rewrite nth_map_default with (d := []) by exact Hi. reflexivity.
  - rewrite !nth_overflow; try reflexivity.
    + rewrite nth_overflow by lia. simpl. lia.
    + rewrite map_length. lia.
Qed.

Lemma get_parameter_nth lay data probs n i burn thin k : 1 <= thin -> wf lay data probs n ->
  k < slice_len n burn thin ->
  nth k (get_parameter lay data i burn thin) 0%Z
  = nth i (chain_row lay data (burn + k * thin)) 0%Z.
Proof.
  intros Hthin [Hp Hd] Hk. destruct lay.
  - rewrite nth_chain_row_col. simpl. unfold col_get_parameter.
    apply slice_nth. exact Hthin.
  - simpl. unfold row_get_parameter, column.
    rewrite nth_map_default with (d := []).
    + rewrite slice_nth by exact Hthin. reflexivity.
    + rewrite slice_length by exact Hthin. rewrite Hd. exact Hk.
Qed.

Lemma get_probabilities_length probs burn thin : 1 <= thin ->
  length (get_probabilities probs burn thin) = slice_len (length probs) burn thin.
Proof. intros H. apply slice_length. exact H. Qed.

Lemma get_probabilities_nth probs burn thin k : 1 <= thin ->
  nth k (get_probabilities probs burn thin) 0%Z = nth (burn + k * thin) probs 0%Z.
Proof. intros H. apply slice_nth. exact H. Qed.

(* all three read-outs have the same number of rows and row k of each is step
   burn + k*thin of the chain *)
Lemma readouts_aligned lay data probs n i burn thin : 1 <= thin -> wf lay data probs n ->
  (lay = ColMajor -> i < length data) ->
  let L := slice_len n burn thin in
  length (get_sample lay data burn thin) = L /\
  length (get_parameter lay data i burn thin) = L /\
  length (get_probabilities probs burn thin) = L /\
  forall k, k < L ->
    burn + k * thin < n /\
    nth k (get_sample lay data burn thin) [] = chain_row lay data (burn + k * thin) /\
    nth k (get_parameter lay data i burn thin) 0%Z
      = nth i (nth k (get_sample lay data burn thin) []) 0%Z /\
    nth k (get_probabilities probs burn thin) 0%Z = nth (burn + k * thin) probs 0%Z.
Proof.
  intros Hthin Hwf Hi L.
  split; [eapply get_sample_length; eassumption|].
  split; [eapply get_parameter_length; eassumption|].
  split; [rewrite get_probabilities_length by exact Hthin; destruct Hwf as [-> _]; reflexivity|].
  intros k Hk.
  split; [apply slice_len_spec with (thin := thin); assumption|].
  split; [eapply get_sample_nth; eassumption|].
  split.
  - rewrite (get_sample_nth lay data probs n burn thin k Hthin Hwf Hk). eapply get_parameter_nth; eassumption.
  - apply get_probabilities_nth. exact Hthin.
Qed.

(* what the density estimator of get_marginal receives *)
Lemma marginal_input_spec lay data probs n i burn thin : 1 <= thin -> wf lay data probs n ->
  (lay = ColMajor -> i < length data) ->
  marginal_input lay data i burn thin = get_parameter lay data i burn thin /\
  length (marginal_input lay data i burn thin) = slice_len n burn thin /\
  forall k, k < slice_len n burn thin ->
    nth k (marginal_input lay data i burn thin) 0%Z
    = nth i (chain_row lay data (burn + k * thin)) 0%Z.
Proof.
  intros Hthin Hwf Hi. split; [reflexivity|]. unfold marginal_input.
  split; [eapply get_parameter_length; eassumption|].
  intros k Hk. eapply get_parameter_nth; eassumption.
Qed.

(* ------------------------------------------------------------------ sorting *)
Definition prob_le (a b : Z * row) : Prop := (fst a <= fst b)%Z.

Lemma StronglySorted_impl {A} (R R' : A -> A -> Prop) l :
  (forall x y, R x y -> R' x y) -> StronglySorted R l -> StronglySorted R' l.
Proof.
  intros HR Hs. induction Hs as [|a l Hs IH Hfa]; constructor.
  - exact IH.
  - eapply Forall_impl; [|exact Hfa]. intros y Hy. apply HR. exact Hy.
Qed.

Lemma sort_by_prob_sorted l : StronglySorted prob_le (sort_by_prob l).
Proof.
  apply StronglySorted_impl with (R := fun x y => is_true (ProbOrder.leb x y)).
  - intros x y H. unfold prob_le. apply Z.leb_le. exact H.
  - apply ProbSort.StronglySorted_sort.
    intros x y z Hxy Hyz. unfold is_true, ProbOrder.leb in *.
    apply Z.leb_le. apply Z.leb_le in Hxy. apply Z.leb_le in Hyz. lia.
Qed.

Lemma sort_by_prob_perm l : Permutation l (sort_by_prob l).
Proof. apply ProbSort.Permuted_sort. Qed.

Lemma sort_nat_sorted l : StronglySorted le (NatSort.sort l).
Proof.
  apply StronglySorted_impl with (R := fun x y => is_true (Nat.leb x y)).
  - intros x y H. apply Nat.leb_le. exact H.
  - apply NatSort.StronglySorted_sort.
    intros x y z Hxy Hyz. unfold is_true in *.
    apply Nat.leb_le. apply Nat.leb_le in Hxy. apply Nat.leb_le in Hyz. lia.
Qed.

Lemma sort_nat_perm l : Permutation l (NatSort.sort l).
Proof. apply NatSort.Permuted_sort. Qed.

Lemma StronglySorted_app_le {A} (R : A -> A -> Prop) l1 : forall l2,
  StronglySorted R (l1 ++ l2) -> forall x y, In x l1 -> In y l2 -> R x y.
Proof.
  induction l1 as [|a t IH]; intros l2 Hs x y Hx Hy; [destruct Hx|].
  simpl in Hs. inversion Hs as [|? ? Ht Hfa]; subst.
  destruct Hx as [<-|Hx].
  - rewrite Forall_forall in Hfa. apply Hfa. apply in_or_app. right. exact Hy.
  - eapply IH; eassumption.
Qed.

Lemma StronglySorted_skipn {A} (R : A -> A -> Prop) n : forall l,
  StronglySorted R l -> StronglySorted R (skipn n l).
Proof.
  induction n as [|n IH]; intros l Hs; [exact Hs|].
  destruct l as [|a t]; [exact Hs|]. simpl. apply IH. inversion Hs; assumption.
Qed.

Lemma StronglySorted_nth_le l : StronglySorted prob_le l ->
  forall i j d, i <= j < length l -> prob_le (nth i l d) (nth j l d).
Proof.
  intros Hs. induction Hs as [|a t Hs IH Hfa]; intros i j d Hij; simpl in Hij; [lia|].
  destruct j as [|j]; destruct i as [|i]; simpl; try lia.
  - unfold prob_le. lia.
  - rewrite Forall_forall in Hfa. apply Hfa. apply nth_In. lia.
  - apply IH. lia.
Qed.

Lemma In_combine_nth {A B} (l1 : list A) : forall (l2 : list B) p da db,
  In p (combine l1 l2) ->
  exists k, k < length l1 /\ k < length l2 /\ p = (nth k l1 da, nth k l2 db).
Proof.
  induction l1 as [|a t IH]; intros l2 p da db Hin; [destruct Hin|].
  destruct l2 as [|b u]; [destruct Hin|]. simpl in Hin. destruct Hin as [<-|Hin].
  - exists 0. simpl. repeat split; lia.
  - destruct (IH u p da db Hin) as [k [H1 [H2 H3]]]. exists (S k). simpl.
    repeat split; try lia. exact H3.
Qed.

Lemma NoDup_app_r {A} (l1 l2 : list A) : NoDup (l1 ++ l2) -> NoDup l2.
Proof.
  induction l1 as [|a t IH]; intros H; [exact H|].
  simpl in H. inversion H; subst. apply IH. assumption.
Qed.

(* ------------------------------------------------------------------ the cut *)
Section Cut.
  Variables (probs : list Z) (sample : list row) (cutoff : nat).
  Let all := combine probs sample.
  Let sorted := sort_by_prob all.
  Let dropped := firstn cutoff sorted.
  Let cut := skipn cutoff sorted.

  (* kept and dropped rows together are exactly the rows of the (burned, thinned) chain *)
  Lemma cut_partition : Permutation (dropped ++ cut) all.
  Proof.
    unfold dropped, cut. rewrite firstn_skipn. symmetry. apply sort_by_prob_perm.
  Qed.

  (* every kept row is at least as probable as every dropped row *)
  Lemma cut_top x y : In x cut -> In y dropped -> (fst y <= fst x)%Z.
  Proof.
    intros Hx Hy.
    apply (StronglySorted_app_le prob_le dropped cut); try assumption.
    unfold dropped, cut. rewrite firstn_skipn. apply sort_by_prob_sorted.
  Qed.

  Lemma cut_length : length cut = length all - cutoff.
  Proof.
    unfold cut. rewrite skipn_length. f_equal. unfold sorted.
    symmetry. apply Permutation_length. apply sort_by_prob_perm.
  Qed.

  Lemma cut_sorted : StronglySorted prob_le cut.
  Proof. apply StronglySorted_skipn. apply sort_by_prob_sorted. Qed.

  Lemma cut_In x : In x cut -> In x all.
  Proof.
    intros Hx. eapply Permutation_in; [apply cut_partition|].
    apply in_or_app. right. exact Hx.
  Qed.

  (* no count requested: the whole top fraction *)
  Lemma interval_core_none perm :
    interval_core probs sample cutoff None perm = cut.
  Proof. reflexivity. Qed.

  (* a count k is requested and perm is a permutation of range(len(cut)) *)
  Lemma interval_core_some k perm :
    Permutation perm (seq 0 (length cut)) ->
    exists idx,
      interval_core probs sample cutoff (Some k) perm = gather (0%Z, []) idx cut /\
      NoDup idx /\ StronglySorted le idx /\
      (forall i, In i idx -> i < length cut) /\
      length idx = Nat.min k (length cut).
  Proof.
    intros Hperm. unfold interval_core, subselect. fold all. fold sorted. fold cut.
    destruct (0 <? length cut - k) eqn:Htrim.
    - apply Nat.ltb_lt in Htrim.
      exists (NatSort.sort (skipn (length cut - k) perm)).
      assert (Hsub : forall i, In i (skipn (length cut - k) perm) -> In i perm).
      { intros i Hi. rewrite <- (firstn_skipn (length cut - k) perm).
        apply in_or_app. right. exact Hi. }
      assert (Hnd : NoDup perm).
      { eapply Permutation_NoDup; [symmetry; exact Hperm|]. apply seq_NoDup. }
      split; [reflexivity|]. split.
      + eapply Permutation_NoDup; [apply sort_nat_perm|].
        rewrite <- (firstn_skipn (length cut - k) perm) in Hnd.
        apply NoDup_app_r in Hnd. exact Hnd.
      + split; [apply sort_nat_sorted|]. split.
        * intros i Hi.
          assert (Hi' : In i perm).
          { apply Hsub. eapply Permutation_in; [symmetry; apply sort_nat_perm|exact Hi]. }
          eapply Permutation_in in Hi'; [|exact Hperm]. apply in_seq in Hi'. lia.
        * rewrite <- (Permutation_length (sort_nat_perm _)). rewrite skipn_length.
          rewrite (Permutation_length Hperm), seq_length. lia.
    - apply Nat.ltb_ge in Htrim. exists (seq 0 (length cut)).
      split.
      + unfold gather. clear. induction cut as [|x t IH]; [reflexivity|].
        simpl. f_equal. rewrite <- seq_shift, map_map. exact IH.
      + split; [apply seq_NoDup|]. split.
        * clear. generalize 0. induction (length cut) as [|m IH]; intros s; simpl; constructor.
          -- apply IH.
          -- apply Forall_forall. intros y Hy. apply in_seq in Hy. lia.
        * split; [intros i Hi; apply in_seq in Hi; lia|].
          rewrite seq_length. lia.
  Qed.
End Cut.

Lemma gather_length {A} (d : A) idx l : length (gather d idx l) = length idx.
Proof. unfold gather. apply map_length. Qed.

Lemma gather_In {A} (d : A) idx l x :
  (forall i, In i idx -> i < length l) -> In x (gather d idx l) -> In x l.
Proof.
  intros Hidx Hx. unfold gather in Hx. apply in_map_iff in Hx.
  destruct Hx as [i [<- Hi]]. apply nth_In. apply Hidx. exact Hi.
Qed.

(* ------------------------------------------------------------------ get_interval *)
Definition valid_perm (samples : option nat) (perm : list nat) (ncut : nat) : Prop :=
  match samples with
  | None => True
  | Some k => 1 <= k /\ Permutation perm (seq 0 ncut)
  end.

Definition ncut (probs : list Z) (burn thin cutoff : nat) (samples : option nat) : nat :=
  interval_size probs burn thin samples - cutoff.

Lemma interval_thin_pos n0 thin samples : 1 <= thin -> 1 <= interval_thin n0 thin samples.
Proof. intros H. destruct samples; simpl; lia. Qed.

(* the two facts about the sub-selection, for an arbitrary pair of arrays *)
Lemma core_in_cut probs sample cutoff samples perm pr :
  valid_perm samples perm (length (skipn cutoff (sort_by_prob (combine probs sample)))) ->
  In pr (interval_core probs sample cutoff samples perm) ->
  In pr (skipn cutoff (sort_by_prob (combine probs sample))).
Proof.
  intros Hv. destruct samples as [k|].
  - destruct Hv as [Hk Hp].
    destruct (interval_core_some probs sample cutoff k perm Hp) as [idx [-> [_ [_ [Hlt _]]]]].
    apply gather_In. exact Hlt.
  - rewrite interval_core_none. tauto.
Qed.

Section Interval.
  Variables (lay : layout) (data : list (list Z)) (probs : list Z) (n : nat).
  Variables (burn thin cutoff : nat) (samples : option nat) (perm : list nat).
  Hypothesis Hthin : 1 <= thin.
  Hypothesis Hwf : wf lay data probs n.
  Hypothesis Hperm : valid_perm samples perm (ncut probs burn thin cutoff samples).

  Let thin' := interval_thin (length (get_probabilities probs burn 1)) thin samples.
  Let P := get_probabilities probs burn thin'.
  Let S := get_sample lay data burn thin'.
  Let L := slice_len n burn thin'.
  Let result := get_interval lay data probs burn thin cutoff samples perm.
  Let sorted := sort_by_prob (combine P S).
  Let cut := skipn cutoff sorted.
  Let dropped := firstn cutoff sorted.

  Lemma thin'_pos : 1 <= thin'.
  Proof. apply interval_thin_pos. exact Hthin. Qed.

  Lemma P_eq : slice 0 thin' (get_probabilities probs burn 1) = P.
  Proof. apply slice_slice. Qed.

  Lemma result_eq : result = interval_core P S cutoff samples perm.
  Proof. unfold result, get_interval. fold thin'. rewrite P_eq. reflexivity. Qed.

  Lemma P_length : length P = L.
  Proof.
    unfold P. rewrite get_probabilities_length by apply thin'_pos.
    destruct Hwf as [-> _]. reflexivity.
  Qed.

  Lemma S_length : length S = L.
  Proof. eapply get_sample_length; [apply thin'_pos|exact Hwf]. Qed.

  Lemma cut_len : length cut = L - cutoff.
  Proof.
    unfold cut, sorted. rewrite cut_length. rewrite combine_length, P_length, S_length.
    f_equal. lia.
  Qed.

  Lemma ncut_eq : ncut probs burn thin cutoff samples = length cut.
  Proof.
    unfold ncut, interval_size. fold thin'. rewrite P_eq, P_length, cut_len. reflexivity.
  Qed.

  (* a pair of the burned/thinned arrays is a stored step with its own probability *)
  Lemma pair_own pr : In pr (combine P S) ->
    exists k, k < L /\ burn + k * thin' < n /\
      fst pr = nth (burn + k * thin') probs 0%Z /\
      snd pr = chain_row lay data (burn + k * thin').
  Proof.
    intros Hin.
    destruct (In_combine_nth P S pr 0%Z [] Hin) as [k [Hk1 [Hk2 ->]]].
    rewrite P_length in Hk1. exists k. split; [exact Hk1|].
    split; [apply slice_len_spec with (thin := thin'); [apply thin'_pos|exact Hk1]|].
    simpl. split.
    - unfold P. apply get_probabilities_nth. apply thin'_pos.
    - unfold S. eapply get_sample_nth; [apply thin'_pos|exact Hwf|exact Hk1].
  Qed.

  Lemma result_in_cut pr : In pr result -> In pr cut.
  Proof.
    rewrite result_eq. apply core_in_cut. fold sorted. fold cut.
    rewrite <- ncut_eq. exact Hperm.
  Qed.

  (* 1. returned rows carry their own log-probabilities and are rows burn + k*thin of the chain *)
  Lemma interval_rows_own pr : In pr result ->
    exists k, k < L /\ burn + k * thin' < n /\
      fst pr = nth (burn + k * thin') probs 0%Z /\
      snd pr = chain_row lay data (burn + k * thin').
  Proof.
    intros Hin. apply pair_own. eapply cut_In. apply result_in_cut. exact Hin.
  Qed.

  (* 2. all of them come from the top fraction: the rows not in `cut` (the `cutoff`
     least probable ones) are all at most as probable as any returned row, and
     cut + dropped is the whole burned/thinned chain *)
  Lemma interval_top pr y : In pr result -> In y dropped -> (fst y <= fst pr)%Z.
  Proof.
    intros Hin Hy. eapply cut_top; [|exact Hy]. apply result_in_cut. exact Hin.
  Qed.

  Lemma interval_partition : Permutation (dropped ++ cut) (combine P S) /\
                              length cut = L - cutoff.
  Proof. split; [apply cut_partition|apply cut_len]. Qed.

  (* 3. no count: every row of the top fraction *)
  Lemma interval_all : samples = None -> result = cut.
  Proof. intros Hs. rewrite result_eq, Hs. reflexivity. Qed.

  (* 4. a count k: min(k, |cut|) rows at distinct positions of the top fraction,
     in increasing order of probability *)
  Lemma interval_count k : samples = Some k ->
    exists idx, result = gather (0%Z, []) idx cut /\ NoDup idx /\ StronglySorted le idx /\
                (forall i, In i idx -> i < length cut) /\
                length result = Nat.min k (length cut) /\ length result <= k.
  Proof.
    intros Hs. rewrite result_eq. pose proof Hperm as Hv. rewrite ncut_eq in Hv.
    rewrite Hs in Hv |- *. destruct Hv as [Hk Hp].
    destruct (interval_core_some P S cutoff k perm Hp) as [idx [Heq [Hnd [Hso [Hlt Hlen]]]]].
    exists idx. rewrite Heq. rewrite gather_length.
    repeat split; try assumption. fold sorted in Hlen. fold cut in Hlen. lia.
  Qed.
End Interval.

(* the shapes of the two returned arrays: always 2-D and 1-D with the same
   number of rows *)
Lemma interval_shapes s npar data probs b t c k perm :
  exists r, answer s npar data probs (QInterval b t c k perm)
            = [([length r; npar], concat (map snd r)); ([length r], map fst r)]
            /\ r = get_interval (layout_of s) data probs b t c k perm.
Proof.
  eexists. split; [|reflexivity]. simpl. unfold arr2, arr1, shape2, shape1, interval_rows,
    interval_probs. rewrite !map_length. reflexivity.
Qed.

(* ------------------------------------------------------------------ pinned behaviour *)
Lemma hmc_squeeze_refuted :
  exists theta burn thin,
    length (row_get_parameter theta 0 burn thin) = 1 /\
    hmc_get_parameter_shape_pinned (row_get_parameter theta 0 burn thin) = [] /\
    shape1 (row_get_parameter theta 0 burn thin) = [1].
Proof. exists [[1;2];[3;4];[5;6]]%Z, 2, 1. vm_compute. repeat split. Qed.

Lemma hmc_empty_sample_refuted :
  exists theta burn thin,
    hmc_get_sample_shape_pinned 2 (row_get_sample theta burn thin) = [0] /\
    shape2 2 (row_get_sample theta burn thin) = [0; 2].
Proof. exists [[1;2];[3;4]]%Z, 2, 1. vm_compute. split; reflexivity. Qed.

Lemma get_interval_count_refuted :
  exists data probs burn thin cutoff k,
    let '(shp, pshp, rows) := get_interval_pinned ColMajor data probs burn thin cutoff (Some k) in
    length shp = 3 /\ length pshp = 2 /\ k < length rows.
Proof.
  exists [[10;11;12;13;14;15;16];[20;21;22;23;24;25;26]]%Z, [5;3;6;1;7;2;4]%Z, 1, 1, 0, 4.
  vm_compute. repeat split; lia.
Qed.

(* ------------------------------------------------------------------ vocabulary of the C14 statements *)
(* the thinning get_interval really uses *)
Definition eff_thin (probs : list Z) (burn thin : nat) (samples : option nat) : nat :=
  interval_thin (length (get_probabilities probs burn 1)) thin samples.

(* the burned and thinned chain as (log-probability, row) pairs *)
Definition burned_thinned lay data probs burn thin samples : list (Z * list Z) :=
  combine (get_probabilities probs burn (eff_thin probs burn thin samples))
          (get_sample lay data burn (eff_thin probs burn thin samples)).

(* its `cutoff` least probable rows, and the rest (the requested top fraction) *)
Definition low_fraction lay data probs burn thin cutoff samples :=
  firstn cutoff (sort_by_prob (burned_thinned lay data probs burn thin samples)).
Definition top_fraction lay data probs burn thin cutoff samples :=
  skipn cutoff (sort_by_prob (burned_thinned lay data probs burn thin samples)).

(* ------------------------------------------------------------------ the cut-off and the fraction *)
(* cutoff = floor(size (1 - f)): at least the fraction f of the rows is kept, and
   not a whole row more than that *)
From Coq Require Import QArith Qround Lqa.

Lemma interval_fraction (f : Q) (size cutoff : nat) :
  Z.of_nat cutoff = Qfloor (inject_Z (Z.of_nat size) * (1 - f)) ->
  (f * inject_Z (Z.of_nat size) <= inject_Z (Z.of_nat size) - inject_Z (Z.of_nat cutoff) /\
   inject_Z (Z.of_nat size) - inject_Z (Z.of_nat cutoff) - 1 < f * inject_Z (Z.of_nat size))%Q.
Proof.
  intros H. rewrite H.
  pose proof (Qfloor_le (inject_Z (Z.of_nat size) * (1 - f))) as Hlo.
  pose proof (Qlt_floor (inject_Z (Z.of_nat size) * (1 - f))) as Hhi.
  rewrite inject_Z_plus in Hhi. change (inject_Z 1) with 1%Q in Hhi.
  generalize dependent (inject_Z (Qfloor (inject_Z (Z.of_nat size) * (1 - f)))).
  generalize (inject_Z (Z.of_nat size)). intros s x Hlo Hhi.
  assert (E : (s * (1 - f) == s - f * s)%Q) by ring.
  rewrite E in Hlo, Hhi. generalize dependent (f * s)%Q. intros t Hlo Hhi _.
  split; lra.
Qed.
