(* Lemmas about the sample_hdi model (property C13). *)
From Coq Require Import List ZArith Bool Lia Sorting.Sorted Sorting.Permutation
  Sorting.Mergesort Morphisms RelationClasses QArith Qround.
From IT Require Import Model.Hdi.
Import ListNotations.
Open Scope Z_scope.

Definition sorted := StronglySorted Z.le.

(* ---------- sorting ---------- *)

Lemma StronglySorted_impl {A} (R R' : A -> A -> Prop) l :
  (forall x y, R x y -> R' x y) -> StronglySorted R l -> StronglySorted R' l.
Proof.
  intros HR Hs. induction Hs as [|a l Hs IH Hfa]; constructor.
  - exact IH.
  - eapply Forall_impl; [|exact Hfa]. intros y Hy. apply HR. exact Hy.
Qed.

Lemma sort_sorted l : sorted (ZSort.sort l).
Proof.
  apply StronglySorted_impl with (R := fun x y => is_true (Z.leb x y)).
  - intros x y H. apply Z.leb_le. exact H.
  - apply ZSort.StronglySorted_sort.
    intros x y z Hxy Hyz. unfold is_true in *.
    apply Z.leb_le. apply Z.leb_le in Hxy. apply Z.leb_le in Hyz. lia.
Qed.

Lemma sort_perm l : Permutation l (ZSort.sort l).
Proof. apply ZSort.Permuted_sort. Qed.

Lemma sort_length l : length (ZSort.sort l) = length l.
Proof. symmetry. apply Permutation_length. apply sort_perm. Qed.

Lemma sorted_nth s : sorted s ->
  forall j k, (j <= k < length s)%nat -> nth j s 0 <= nth k s 0.
Proof.
  intros Hs. induction Hs as [|a l Hs IH Hfa]; intros j k Hjk.
  - simpl in Hjk. lia.
  - destruct k as [|k]; destruct j as [|j]; simpl in *; try lia.
    + rewrite Forall_forall in Hfa. apply Hfa. apply nth_In. lia.
    + apply IH. lia.
Qed.

Lemma sorted_perm_unique l1 : forall l2,
  sorted l1 -> sorted l2 -> Permutation l1 l2 -> l1 = l2.
Proof.
  induction l1 as [|a t IH]; intros l2 H1 H2 HP.
  - apply Permutation_nil in HP. symmetry. exact HP.
  - destruct l2 as [|b u].
    + symmetry in HP. apply Permutation_nil in HP. discriminate.
    + inversion H1 as [|? ? Ht Hfa]; subst. inversion H2 as [|? ? Hu Hfb]; subst.
      rewrite Forall_forall in Hfa, Hfb.
      assert (Hab : a = b).
      { assert (Hb : In b (a :: t))
          by (eapply Permutation_in; [symmetry; exact HP | left; reflexivity]).
        assert (Ha : In a (b :: u))
          by (eapply Permutation_in; [exact HP | left; reflexivity]).
        destruct Hb as [Hb|Hb]; [congruence|].
        destruct Ha as [Ha|Ha]; [congruence|].
        apply Hfa in Hb. apply Hfb in Ha. lia. }
      subst b. f_equal. apply IH; try assumption.
      eapply Permutation_cons_inv. exact HP.
Qed.

Lemma sort_perm_eq l l' : Permutation l l' -> ZSort.sort l = ZSort.sort l'.
Proof.
  intros HP. apply sorted_perm_unique; try apply sort_sorted.
  eapply Permutation_trans; [symmetry; apply sort_perm|].
  eapply Permutation_trans; [exact HP|apply sort_perm].
Qed.

(* ---------- widths ---------- *)

Lemma zip_sub_length hi lo :
  length (zip_sub hi lo) = Nat.min (length hi) (length lo).
Proof.
  revert lo. induction hi as [|h hs IH]; intros [|l ls]; simpl; try reflexivity.
  rewrite IH. reflexivity.
Qed.

Lemma zip_sub_nth hi : forall lo j, (j < length hi)%nat -> (j < length lo)%nat ->
  nth j (zip_sub hi lo) 0 = nth j hi 0 - nth j lo 0.
Proof.
  induction hi as [|h hs IH]; intros [|l ls] j Hh Hl; simpl in *; try lia.
  destruct j as [|j]; [reflexivity|]. apply IH; lia.
Qed.

Lemma nth_skipn_Z (s : list Z) : forall L j, nth j (skipn L s) 0 = nth (j + L) s 0.
Proof.
  induction s as [|x t IH]; intros L j.
  - rewrite skipn_nil. destruct (j + L)%nat; destruct j; reflexivity.
  - destruct L as [|L]; simpl.
    + rewrite Nat.add_0_r. reflexivity.
    + rewrite IH. replace (j + S L)%nat with (S (j + L)) by lia. reflexivity.
Qed.

Lemma widths_length s L : length (widths s L) = (length s - L)%nat.
Proof. unfold widths. rewrite zip_sub_length, skipn_length. lia. Qed.

Lemma widths_nth s L j : (j < length s - L)%nat ->
  nth j (widths s L) 0 = nth (j + L) s 0 - nth j s 0.
Proof.
  intros H. unfold widths. rewrite zip_sub_nth.
  - rewrite nth_skipn_Z. reflexivity.
  - rewrite skipn_length. exact H.
  - lia.
Qed.

(* ---------- argmin ---------- *)

Lemma argmin_spec l : l <> [] ->
  (argmin l < length l)%nat /\
  (forall j, (j < length l)%nat -> nth (argmin l) l 0 <= nth j l 0) /\
  (forall j, (j < argmin l)%nat -> nth (argmin l) l 0 < nth j l 0).
Proof.
  induction l as [|x t IH]; intros Hne; [congruence|].
  destruct t as [|y u].
  - simpl. split; [lia|]. split; intros j Hj; [|lia].
    destruct j; [lia|simpl in Hj; lia].
  - assert (Hne' : y :: u <> []) by congruence.
    destruct (IH Hne') as (Hlt & Hmin & Hfirst). clear IH.
    remember (y :: u) as t eqn:Et.
    assert (Hd : argmin (x :: t) =
                 if x <=? nth (argmin t) t 0 then 0%nat else S (argmin t)).
    { subst t. reflexivity. }
    rewrite Hd. clear Hd.
    destruct (Z.leb_spec x (nth (argmin t) t 0)) as [Hle|Hgt].
    + split; [simpl; lia|]. split; intros j Hj; [|lia].
      destruct j as [|j]; simpl; [lia|].
      simpl in Hj. specialize (Hmin j). lia.
    + split; [simpl; lia|]. split; intros j Hj.
      * destruct j as [|j]; simpl; [lia|]. simpl in Hj. apply Hmin. lia.
      * destruct j as [|j]; simpl; [lia|]. apply Hfirst. lia.
Qed.

(* ---------- count_in ---------- *)

Lemma count_in_cons a b x l :
  count_in a b (x :: l) =
  ((if ((a <=? x) && (x <=? b))%Z then 1 else 0) + count_in a b l)%nat.
Proof. unfold count_in. simpl. destruct ((a <=? x) && (x <=? b)); reflexivity. Qed.

Lemma count_in_perm a b l l' : Permutation l l' -> count_in a b l = count_in a b l'.
Proof.
  intros HP. induction HP as [|x l l' HP IH|x y l|l l' l'' HP1 IH1 HP2 IH2].
  - reflexivity.
  - rewrite !count_in_cons, IH. reflexivity.
  - rewrite !count_in_cons. lia.
  - congruence.
Qed.

Lemma count_in_window s : sorted s -> forall i L a b,
  (i + L < length s)%nat -> a <= nth i s 0 -> nth (i + L) s 0 <= b ->
  (S L <= count_in a b s)%nat.
Proof.
  intros Hs. induction Hs as [|x t Ht IH Hfa]; intros i L a b Hlen Ha Hb.
  - simpl in Hlen. lia.
  - rewrite count_in_cons. destruct i as [|i].
    + simpl in Ha. destruct L as [|L].
      * simpl in Hb.
        assert (E : (a <=? x) && (x <=? b) = true)
          by (apply andb_true_iff; split; apply Z.leb_le; lia).
        rewrite E. lia.
      * simpl in Hb, Hlen.
        assert (Hx0 : x <= nth 0 t 0).
        { rewrite Forall_forall in Hfa. apply Hfa. apply nth_In. lia. }
        assert (HxL : x <= nth L t 0).
        { rewrite Forall_forall in Hfa. apply Hfa. apply nth_In. lia. }
        assert (E : (a <=? x) && (x <=? b) = true)
          by (apply andb_true_iff; split; apply Z.leb_le; lia).
        rewrite E.
        specialize (IH 0%nat L a b). simpl in IH.
        assert (S L <= count_in a b t)%nat by (apply IH; lia). lia.
    + simpl in Ha, Hb, Hlen.
      assert (S L <= count_in a b t)%nat by (apply (IH i L a b); [lia|exact Ha|exact Hb]).
      lia.
Qed.

Lemma count_in_zero_above a b l : Forall (fun y => b < y) l -> count_in a b l = 0%nat.
Proof.
  induction l as [|x t IH]; intros H; [reflexivity|].
  inversion H as [|? ? Hx Ht]; subst. rewrite count_in_cons, IH by exact Ht.
  replace (x <=? b) with false by (symmetry; apply Z.leb_gt; exact Hx).
  rewrite andb_false_r. reflexivity.
Qed.

Lemma count_in_nth_le s : sorted s -> forall L a b,
  (S L <= count_in a b s)%nat -> (L < length s)%nat /\ nth L s 0 <= b.
Proof.
  intros Hs. induction Hs as [|x t Ht IH Hfa]; intros L a b Hc.
  - unfold count_in in Hc. simpl in Hc. lia.
  - destruct (Z.leb_spec x b) as [Hxb|Hxb].
    + destruct L as [|L]; [simpl; split; [lia|exact Hxb]|].
      rewrite count_in_cons in Hc.
      assert (Hc' : (S L <= count_in a b t)%nat)
        by (destruct ((a <=? x) && (x <=? b)); lia).
      destruct (IH L a b Hc') as [H1 H2]. simpl. split; [lia|exact H2].
    + exfalso.
      assert (Hz : count_in a b (x :: t) = 0%nat).
      { apply count_in_zero_above. constructor; [exact Hxb|].
        eapply Forall_impl; [|exact Hfa]. intros y Hy. simpl in Hy. lia. }
      lia.
Qed.

Lemma count_in_find_window s : sorted s -> forall L a b,
  (S L <= count_in a b s)%nat ->
  exists j, (j + L < length s)%nat /\ a <= nth j s 0 /\ nth (j + L) s 0 <= b.
Proof.
  intros Hs. induction Hs as [|x t Ht IH Hfa]; intros L a b Hc.
  - unfold count_in in Hc. simpl in Hc. lia.
  - destruct (Z.leb_spec a x) as [Hax|Hax].
    + exists 0%nat. simpl.
      assert (Hs' : sorted (x :: t)) by (constructor; assumption).
      destruct (count_in_nth_le _ Hs' L a b Hc) as [H1 H2].
      split; [exact H1|]. split; [exact Hax|exact H2].
    + rewrite count_in_cons in Hc.
      replace (a <=? x) with false in Hc by (symmetry; apply Z.leb_gt; exact Hax).
      simpl in Hc. destruct (IH L a b Hc) as (j & H1 & H2 & H3).
      exists (S j). simpl. split; [lia|]. split; assumption.
Qed.

(* ---------- the interval ---------- *)

Lemma hdi_main sample L : (L < length sample)%nat ->
  let s := ZSort.sort sample in
  let i := argmin (widths s L) in
  hdi sample L = (nth i s 0, nth (i + L) s 0) /\ (i + L < length s)%nat /\
  (forall j, (j + L < length s)%nat ->
     nth (i + L) s 0 - nth i s 0 <= nth (j + L) s 0 - nth j s 0) /\
  (forall j, (j < i)%nat ->
     nth (i + L) s 0 - nth i s 0 < nth (j + L) s 0 - nth j s 0).
Proof.
  intros HL s i. unfold hdi. fold s.
  assert (Hlen : length s = length sample) by apply sort_length.
  replace (L <? length s)%nat with true by (symmetry; apply Nat.ltb_lt; lia).
  fold i.
  assert (Hne : widths s L <> []).
  { intros E. apply (f_equal (@length Z)) in E. rewrite widths_length in E.
    simpl in E. lia. }
  destruct (argmin_spec _ Hne) as (Hi & Hmin & Hfirst). fold i in Hi, Hmin, Hfirst.
  rewrite widths_length in Hi, Hmin.
  split; [reflexivity|]. split; [lia|]. split.
  - intros j Hj. specialize (Hmin j).
    rewrite !widths_nth in Hmin by lia. apply Hmin. lia.
  - intros j Hj. specialize (Hfirst j Hj).
    rewrite !widths_nth in Hfirst by lia. exact Hfirst.
Qed.

Lemma hdi_endpoints_in_sample sample L : (L < length sample)%nat ->
  In (fst (hdi sample L)) sample /\ In (snd (hdi sample L)) sample.
Proof.
  intros HL. destruct (hdi_main sample L HL) as (E & Hi & _). rewrite E. simpl.
  split; (eapply Permutation_in; [symmetry; apply sort_perm|]; apply nth_In; lia).
Qed.

Lemma hdi_ordered sample L : (L < length sample)%nat ->
  fst (hdi sample L) <= snd (hdi sample L).
Proof.
  intros HL. destruct (hdi_main sample L HL) as (E & Hi & _). rewrite E. simpl.
  apply sorted_nth; [apply sort_sorted|lia].
Qed.

Lemma hdi_coverage sample L : (L < length sample)%nat ->
  (S L <= count_in (fst (hdi sample L)) (snd (hdi sample L)) sample)%nat.
Proof.
  intros HL. destruct (hdi_main sample L HL) as (E & Hi & _). rewrite E. simpl.
  rewrite (count_in_perm _ _ _ _ (sort_perm sample)).
  eapply count_in_window; [apply sort_sorted|exact Hi|lia|lia].
Qed.

(* no closed interval [a,b] -- with end points anywhere, in particular at two
   sample values -- that holds L+1 sample points is shorter *)
Lemma hdi_optimal sample L a b : (L < length sample)%nat ->
  (S L <= count_in a b sample)%nat ->
  snd (hdi sample L) - fst (hdi sample L) <= b - a.
Proof.
  intros HL Hc. destruct (hdi_main sample L HL) as (E & Hi & Hmin & _).
  rewrite E. simpl.
  rewrite (count_in_perm _ _ _ _ (sort_perm sample)) in Hc.
  destruct (count_in_find_window _ (sort_sorted sample) L a b Hc) as (j & Hj & Ha & Hb).
  specialize (Hmin j Hj). lia.
Qed.

Lemma hdi_fallback sample L : (length sample <= L)%nat -> sample <> [] ->
  let s := ZSort.sort sample in
  hdi sample L = (hd 0 s, last s 0) /\
  (forall x, In x sample -> hd 0 s <= x <= last s 0).
Proof.
  intros HL Hne s. unfold hdi. fold s.
  assert (Hlen : length s = length sample) by apply sort_length.
  replace (L <? length s)%nat with false by (symmetry; apply Nat.ltb_ge; lia).
  split; [reflexivity|]. intros x Hx.
  assert (Hxs : In x s) by (eapply Permutation_in; [apply sort_perm|exact Hx]).
  destruct (In_nth _ _ 0 Hxs) as (k & Hk & Ek).
  assert (Hs := sort_sorted sample). fold s in Hs.
  assert (Hhd : hd 0 s = nth 0 s 0) by (destruct s; reflexivity).
  assert (Hlast : last s 0 = nth (length s - 1) s 0).
  { clear - s. induction s as [|y t IH]; [reflexivity|].
    destruct t as [|z u]; [reflexivity|].
    change (last (y :: z :: u) 0) with (last (z :: u) 0). rewrite IH.
    simpl. rewrite Nat.sub_0_r. reflexivity. }
  rewrite Hhd, Hlast, <- Ek. split; apply sorted_nth; try exact Hs; lia.
Qed.

Lemma hdi_perm sample sample' L : Permutation sample sample' ->
  hdi sample L = hdi sample' L.
Proof. intros HP. unfold hdi. rewrite (sort_perm_eq _ _ HP). reflexivity. Qed.

(* ---------- positive affine maps ---------- *)

Section Affine.
  Variables (a b : Z).
  Hypothesis Ha : 0 < a.
  Let f (x : Z) := a * x + b.

  Lemma sorted_map_affine s : sorted s -> sorted (map f s).
  Proof.
    intros Hs. induction Hs as [|x t Ht IH Hfa]; simpl; constructor; [exact IH|].
    rewrite Forall_map. eapply Forall_impl; [|exact Hfa].
    intros y Hy. simpl in Hy. unfold f. nia.
  Qed.

  Lemma sort_map_affine l : ZSort.sort (map f l) = map f (ZSort.sort l).
  Proof.
    apply sorted_perm_unique.
    - apply sort_sorted.
    - apply sorted_map_affine. apply sort_sorted.
    - eapply Permutation_trans; [symmetry; apply sort_perm|].
      apply Permutation_map. apply sort_perm.
  Qed.

  Lemma zip_sub_map_affine u : forall v,
    zip_sub (map f u) (map f v) = map (Z.mul a) (zip_sub u v).
  Proof.
    induction u as [|x t IH]; intros [|y w]; simpl; try reflexivity.
    rewrite IH. f_equal. unfold f. lia.
  Qed.

  Lemma widths_map_affine s L : widths (map f s) L = map (Z.mul a) (widths s L).
  Proof. unfold widths. rewrite skipn_map. apply zip_sub_map_affine. Qed.

  Lemma nth_map_mul w j : nth j (map (Z.mul a) w) 0 = a * nth j w 0.
  Proof. replace 0 with (a * 0) at 1 by lia. apply map_nth. Qed.

  Lemma argmin_map_mul w : argmin (map (Z.mul a) w) = argmin w.
  Proof.
    induction w as [|x t IH]; [reflexivity|].
    destruct t as [|y u]; [reflexivity|].
    remember (y :: u) as t eqn:Et.
    assert (E1 : argmin (x :: t) =
                 if x <=? nth (argmin t) t 0 then 0%nat else S (argmin t))
      by (subst t; reflexivity).
    assert (E2 : argmin (map (Z.mul a) (x :: t)) =
                 if a * x <=? nth (argmin (map (Z.mul a) t)) (map (Z.mul a) t) 0
                 then 0%nat else S (argmin (map (Z.mul a) t)))
      by (subst t; reflexivity).
    rewrite E1, E2, IH, nth_map_mul.
    destruct (Z.leb_spec x (nth (argmin t) t 0)) as [H|H];
      destruct (Z.leb_spec (a * x) (a * nth (argmin t) t 0)) as [H'|H'];
      try reflexivity; nia.
  Qed.

  Lemma nth_map_affine s j : (j < length s)%nat -> nth j (map f s) 0 = f (nth j s 0).
  Proof.
    intros Hj. rewrite (nth_indep _ 0 (f 0)) by (rewrite map_length; exact Hj).
    apply map_nth.
  Qed.

  Lemma hd_map_affine s : s <> [] -> hd 0 (map f s) = f (hd 0 s).
  Proof. destruct s; [congruence|reflexivity]. Qed.

  Lemma last_map_affine s : s <> [] -> last (map f s) 0 = f (last s 0).
  Proof.
    induction s as [|x t IH]; [congruence|]. intros _.
    destruct t as [|y u]; [reflexivity|].
    change (last (map f (x :: y :: u)) 0) with (last (map f (y :: u)) 0).
    change (last (x :: y :: u) 0) with (last (y :: u) 0).
    apply IH. congruence.
  Qed.

  Lemma hdi_affine sample L : sample <> [] ->
    hdi (map f sample) L = (f (fst (hdi sample L)), f (snd (hdi sample L))).
  Proof.
    intros Hne. unfold hdi. rewrite sort_map_affine, map_length.
    set (s := ZSort.sort sample).
    assert (Hlen : length s = length sample) by apply sort_length.
    destruct (Nat.ltb_spec L (length s)) as [HL|HL].
    - rewrite widths_map_affine, argmin_map_mul.
      assert (Hw : widths s L <> []).
      { intros E. apply (f_equal (@length Z)) in E. rewrite widths_length in E.
        simpl in E. lia. }
      destruct (argmin_spec _ Hw) as (Hi & _). rewrite widths_length in Hi.
      simpl. rewrite !nth_map_affine by lia. reflexivity.
    - assert (Hs : s <> []).
      { intros E. apply (f_equal (@length Z)) in E. simpl in E.
        destruct sample; [congruence|simpl in Hlen; lia]. }
      simpl. rewrite hd_map_affine, last_map_affine by exact Hs. reflexivity.
  Qed.
End Affine.

(* ---------- columns ---------- *)

Lemma hdi_columns_nth cols L k d : (k < length cols)%nat ->
  nth k (hdi_columns cols L) (hdi d L) = hdi (nth k cols d) L.
Proof. intros _. unfold hdi_columns. apply (map_nth (fun c => hdi c L)). Qed.

Lemma hdi_columns_length cols L : length (hdi_columns cols L) = length cols.
Proof. apply map_length. Qed.

(* ---------- the fraction ---------- *)

(* L = int(fraction * n) >= floor(fraction * n)  ==>  the L+1 points of the
   window are strictly more than fraction * n of them *)
Lemma window_exceeds_fraction (f : Q) (n L : nat) :
  (Qfloor (f * inject_Z (Z.of_nat n)) <= Z.of_nat L)%Z ->
  (f * inject_Z (Z.of_nat n) < inject_Z (Z.of_nat (S L)))%Q.
Proof.
  intros H. eapply Qlt_le_trans; [apply Qlt_floor|].
  rewrite <- Zle_Qle. lia.
Qed.
