(* Lemmas about RealModel/Means.v: mean gradients are derivatives of build_mean,
   build_mean is __call__ at the data points. *)
From Coq Require Import Reals List Arith Lia Lra.
From Coquelicot Require Import Coquelicot.
From IT Require Import Model.Slices RealModel.Kernels RealModel.Means Proofs.SlicesProofs Proofs.KernelsProofs.
Import ListNotations.
Open Scope R_scope.

Definition mgrad_ok (M : meanfn) : Prop :=
  forall xs th p i, length th = mnp M -> (p < mnp M)%nat ->
    is_derive (fun t => mbuild M xs (upd th p t) i) (par th p) (mgrad M xs th p i).

Definition mbuild_eq_call (M : meanfn) : Prop :=
  forall xs th i, mbuild M xs th i = mcall M xs th (point xs i).

Lemma lin_derive_in : forall (c : nat -> R) off d th k0, (k0 < d)%nat -> (off + k0 < length th)%nat ->
  is_derive (fun t => Rsum (seq 0 d) (fun k => c k * par (upd th (off + k0) t) (off + k)))
            (par th (off + k0)) (c k0).
Proof.
  intros c off d th k0 Hk Hlen.
  eapply is_derive_eq.
  - apply (is_derive_Rsum (seq 0 d) (fun k t => c k * par (upd th (off + k0) t) (off + k))
             (fun k => if Nat.eqb k k0 then c k0 else 0)).
    intros k _. destruct (Nat.eqb_spec k k0) as [->|Hne].
    + apply (is_derive_ext (fun t => c k0 * t)).
      { intros t. now rewrite par_upd_same. }
      auto_derive; [exact I|ring].
    + apply (is_derive_ext (fun t => c k * par th (off + k))).
      { intros t. rewrite par_upd_other by lia. reflexivity. }
      apply is_derive_constR.
  - rewrite (Rsum_single _ _ k0).
    + now rewrite Nat.eqb_refl.
    + apply seq_NoDup.
    + apply in_seq. lia.
    + intros k _ Hne. destruct (Nat.eqb_spec k k0); [contradiction|reflexivity].
Qed.

Lemma lin_const : forall (c : nat -> R) off d th p t, (p < off \/ off + d <= p)%nat ->
  Rsum (seq 0 d) (fun k => c k * par (upd th p t) (off + k)) = Rsum (seq 0 d) (fun k => c k * par th (off + k)).
Proof.
  intros. apply Rsum_ext. intros k Hk. apply in_seq in Hk. rewrite par_upd_other by lia. reflexivity.
Qed.

Lemma const_mgrad_ok : mgrad_ok const_mean.
Proof.
  intros xs th p i Hlen Hp. simpl in *. unfold const_np in *. assert (p = 0%nat) by lia. subst.
  apply (is_derive_ext (fun t => 0 + t)).
  { intros t. unfold const_build. now rewrite par_upd_same by lia. }
  unfold const_grad. auto_derive; [exact I|ring].
Qed.

Lemma lin_mgrad_ok : forall d, mgrad_ok (lin_mean d).
Proof.
  intros d xs th p i Hlen Hp. simpl in *. unfold lin_np in *. unfold lin_build, lin_grad.
  destruct p as [|k0].
  - apply (is_derive_ext (fun t => t + Rsum (seq 0 d) (fun k => mdx xs i k * par th (1 + k)))).
    { intros t. rewrite par_upd_same by lia. f_equal. symmetry.
      apply (lin_const (mdx xs i) 1 d th 0 t). lia. }
    eapply is_derive_eq; [apply is_derive_add_const_r; apply (is_derive_id (K := R_AbsRing))|reflexivity].
  - apply (is_derive_ext (fun t => par th 0 + Rsum (seq 0 d) (fun k => mdx xs i k * par (upd th (1 + k0) t) (1 + k)))).
    { intros t. rewrite par_upd_other by lia. reflexivity. }
    apply is_derive_add_const_l.
    apply (lin_derive_in (mdx xs i) 1 d th k0); simpl; lia.
Qed.

Lemma quad_build_flat : forall d xs th i,
  quad_build d xs th i =
  par th 0 + Rsum (seq 0 d) (fun k => mdx xs i k * par th (1 + k))
           + Rsum (seq 0 d) (fun k => (mdx xs i k) ^ 2 * par th (d + 1 + k)).
Proof.
  intros. unfold quad_build, quad_lin_slc, quad_quad_slc. f_equal; [f_equal|].
  - apply Rsum_ext. intros k Hk. apply in_seq in Hk. rewrite par_apply_slice by lia. reflexivity.
  - apply Rsum_ext. intros k Hk. apply in_seq in Hk. rewrite par_apply_slice by lia. reflexivity.
Qed.

Lemma quad_mgrad_ok : forall d, mgrad_ok (quad_mean d).
Proof.
  intros d xs th p i Hlen Hp. simpl in *. unfold quad_np in *.
  apply (is_derive_ext (fun t =>
     par (upd th p t) 0 + Rsum (seq 0 d) (fun k => mdx xs i k * par (upd th p t) (1 + k))
                        + Rsum (seq 0 d) (fun k => (mdx xs i k) ^ 2 * par (upd th p t) (d + 1 + k)))).
  { intros t. now rewrite quad_build_flat. }
  unfold quad_grad.
  destruct p as [|k0].
  - apply (is_derive_ext (fun t => t + Rsum (seq 0 d) (fun k => mdx xs i k * par th (1 + k))
                                     + Rsum (seq 0 d) (fun k => (mdx xs i k) ^ 2 * par th (d + 1 + k)))).
    { intros t. rewrite par_upd_same by lia.
      rewrite (lin_const (mdx xs i) 1 d th 0 t) by lia.
      rewrite (lin_const (fun k => mdx xs i k ^ 2) (d + 1) d th 0 t) by lia. reflexivity. }
    eapply is_derive_eq; [do 2 apply is_derive_add_const_r; apply (is_derive_id (K := R_AbsRing))|reflexivity].
  - destruct (Nat.ltb_spec k0 d) as [Hlt|Hge].
    + apply (is_derive_ext (fun t => par th 0 + Rsum (seq 0 d) (fun k => mdx xs i k * par (upd th (1 + k0) t) (1 + k))
                                     + Rsum (seq 0 d) (fun k => (mdx xs i k) ^ 2 * par th (d + 1 + k)))).
      { intros t. rewrite par_upd_other by lia.
        rewrite (lin_const (fun k => mdx xs i k ^ 2) (d + 1) d th (S k0) t) by lia. reflexivity. }
      apply is_derive_add_const_r, is_derive_add_const_l.
      apply (lin_derive_in (mdx xs i) 1 d th k0); simpl; lia.
    + replace (S k0) with (d + 1 + (k0 - d))%nat by lia.
      apply (is_derive_ext (fun t => par th 0 + Rsum (seq 0 d) (fun k => mdx xs i k * par th (1 + k))
                 + Rsum (seq 0 d) (fun k => (mdx xs i k) ^ 2 * par (upd th (d + 1 + (k0 - d)) t) (d + 1 + k)))).
      { intros t. rewrite par_upd_other by lia.
        rewrite (lin_const (mdx xs i) 1 d th (d + 1 + (k0 - d)) t) by lia. reflexivity. }
      apply is_derive_add_const_l.
      apply (lin_derive_in (fun k => mdx xs i k ^ 2) (d + 1) d th (k0 - d)); lia.
Qed.

Lemma const_build_eq_call : mbuild_eq_call const_mean.
Proof. intros xs th i. simpl. unfold const_build, const_call. ring. Qed.
Lemma lin_build_eq_call : forall d, mbuild_eq_call (lin_mean d).
Proof. intros d xs th i. reflexivity. Qed.
Lemma quad_build_eq_call : forall d, mbuild_eq_call (quad_mean d).
Proof. intros d xs th i. reflexivity. Qed.
